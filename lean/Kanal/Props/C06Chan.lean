/-
  C06 (channel level, temporal half) — "a blocked operation always completes when it can".

  In the atomic channel model (`Kanal.step`) a blocked sync / timed call is a waiter `i`
  (`s.sigs[i]? = some g`, `g.alive`, `g.kind ≠ .async`).  It returns through `Label.complete i`
  (enabled iff `g.st ≠ .pending`); a peer that popped it in its critical section leaves it
  `claimed` until it performs `Label.finalize i`.

  Here: infinite stuttering executions of the channel model, the two fairness assumptions
  (justified at the signal level by `c06_peer_finishes` / `c06_eventually_returns` of
  `C06Fair.lean`), and

    * `c06_claimed_eventually_returns`   — a claimed waiter eventually returns;
    * `c06_final_eventually_returns`     — a waiter whose signal is final eventually returns;
    * `c06_close_eventually_releases`,
      `c06_last_drop_eventually_releases` — close / the last handle of a side release every listed waiter;
    * `c06_send_eventually_wakes_receiver` (and the `trySend` twin) — a send that finds a waiting
      receiver claims it with the value in its slot, and the receiver eventually returns *with that value*;
    * `c06_returned_stays`               — a waiter that has returned stays so;
    * a concrete fair execution (non-vacuity).
-/
import Kanal.Props.C06
import Kanal.Props.C03
import Kanal.Props.C10
import Kanal.Props.C11
import Kanal.Lemmas.Mover

namespace Kanal.C06
open Kanal Chan State

/-! ### Executions and fairness -/

/-- An infinite execution of the channel model; `l n = none`: nobody moves at instant `n`. -/
structure CExec (v : Variant) (cap : Option Nat) where
  s : Nat → State
  l : Nat → Option Label
  init : s 0 = State.init cap
  next : ∀ n, match l n with
              | some lab => ∃ r, step v (s n) lab = some (s (n + 1), r)
              | none => s (n + 1) = s n

variable {v : Variant} {cap : Option Nat}

/-- The peer that claimed waiter `i` goes on to its final store (it never waits for anybody:
    signal level, `c06_peer_finishes`). -/
def FairFinalize (x : CExec v cap) (i : Nat) : Prop :=
  ∀ n g, (x.s n).sigs[i]? = some g → g.claimed = true → ∃ m, n ≤ m ∧ x.l m = some (.finalize i)

/-- A blocked call whose signal is final returns (signal level: `c06_eventually_returns`). -/
def FairComplete (x : CExec v cap) (i : Nat) : Prop :=
  ∀ n g, (x.s n).sigs[i]? = some g → g.alive = true → g.kind ≠ .async → g.st ≠ .pending →
    ∃ m, n ≤ m ∧ x.l m = some (.complete i)

/-- Waiter `i` has returned at instant `m`: its frame no longer exists. -/
def Returned (x : CExec v cap) (i m : Nat) : Prop :=
  ∃ g', (x.s m).sigs[i]? = some g' ∧ g'.alive = false

theorem CExec.next_some (x : CExec v cap) {n : Nat} {lab : Label} (h : x.l n = some lab) :
    ∃ r, step v (x.s n) lab = some (x.s (n + 1), r) := by
  have := x.next n
  rw [h] at this
  exact this

theorem CExec.next_none (x : CExec v cap) {n : Nat} (h : x.l n = none) : x.s (n + 1) = x.s n := by
  have := x.next n
  rw [h] at this
  exact this

/-- Every state of an execution is reachable. -/
theorem CExec.reach (x : CExec v cap) : ∀ n, Reach v (x.s n) := by
  intro n
  induction n with
  | zero => rw [x.init]; exact Reach.init cap
  | succ n ih =>
    cases h : x.l n with
    | none => rw [x.next_none h]; exact ih
    | some lab =>
      obtain ⟨r, e⟩ := x.next_some h
      exact Reach.step (p := (x.s (n + 1), r)) ih e

/-! ### One-step stability of a waiter's record -/

theorem sig?_ne_of_ne {i : Nat} {l : Label} (hs : l.sig? = some i) :
    l = .complete i ∨ l = .expire i ∨ l = .finalize i ∨ (∃ w, l = .pollSend i w) ∨ (∃ w, l = .pollRecv i w) ∨
    l = .dropSendFut i ∨ l = .dropRecvFut i := by
  cases l <;> simp [Label.sig?] at hs <;> subst hs <;> simp

/-- A waiter that is not pending any more, or dead, or claimed, is in no wait list. -/
theorem not_listed {s : State} (h : Reach Variant.good s) {i : Nat} {g : Sig} (hg : s.sigs[i]? = some g)
    (hn : g.alive = false ∨ g.st ≠ .pending ∨ g.claimed = true) : i ∉ s.chan.waitList := by
  intro hi
  obtain ⟨g', hg', hl⟩ := (reach_struct s h).listed i hi
  rw [hg] at hg'; cases hg'
  rcases hn with hn | hn | hn
  · rw [hl.alive] at hn; cases hn
  · exact hn hl.pending
  · rw [hl.unclaimed] at hn; cases hn

/-- **While waiter `i` (sync / timed) is claimed, only `finalize i` changes its record**: every other
    enabled step — other calls' critical sections, which cannot see it; its own `complete` (disabled),
    its own expiry (the cancel fails: a peer owns the signal) — leaves `sigs[i]?` as it is; and
    `finalize i` makes it final (`ok`), unclaimed, still alive. -/
theorem claimed_step {s : State} (h : Reach Variant.good s) {i : Nat} {g : Sig} (hg : s.sigs[i]? = some g)
    (hc : g.claimed = true) (hk : g.kind ≠ .async) {l : Label} {p : State × Res}
    (e : step Variant.good s l = some p) :
    (l = .finalize i ∧ p.1.sigs[i]? = some { g with st := .ok, claimed := false }) ∨
    (l ≠ .finalize i ∧ p.1.sigs[i]? = some g) := by
  have hni := not_listed h hg (Or.inr (Or.inr hc))
  have hp : g.st = .pending := (((reach_struct s h).sigOK i g hg).claimed hc).2.1
  by_cases hs : l.sig? = some i
  · rcases sig?_ne_of_ne hs with rfl | rfl | rfl | ⟨w, rfl⟩ | ⟨w, rfl⟩ | rfl | rfl
    · simp only [step, hg] at e
      rw [if_pos (Or.inr (Or.inr hp))] at e; cases e
    · have := (C03.c03_claimed_invisible s h i g hg hc).2.2.2.2 p e
      subst this
      exact Or.inr ⟨by simp, hg⟩
    · exact Or.inl ⟨rfl, (C03.c03_finalize_local _ s i p e).2.2.2.2.2.2.2.2.2.2.2.2 g hg⟩
    · simp only [step, hg] at e
      rw [if_pos (Or.inr (Or.inl hk))] at e; cases e
    · simp only [step, hg] at e
      rw [if_pos (Or.inr (Or.inl hk))] at e; cases e
    · simp only [step, hg] at e
      rw [if_pos (Or.inr (Or.inl hk))] at e; cases e
    · simp only [step, hg] at e
      rw [if_pos (Or.inr (Or.inl hk))] at e; cases e
  · refine Or.inr ⟨?_, step_sig_stable _ s i g hg hni l hs p e⟩
    rintro rfl; exact hs rfl

/-- **A final, alive sync / timed waiter keeps its record until `complete i`**, and `complete i`
    removes the frame; a receiver whose signal is `ok` returns the value in its slot. -/
theorem final_step {s : State} (h : Reach Variant.good s) {i : Nat} {g : Sig} (hg : s.sigs[i]? = some g)
    (ha : g.alive = true) (hk : g.kind ≠ .async) (hf : g.st ≠ .pending) {l : Label} {p : State × Res}
    (e : step Variant.good s l = some p) :
    (l = .complete i ∧ (∃ g', p.1.sigs[i]? = some g' ∧ g'.alive = false) ∧
      (∀ m, g.role = .recv → g.st = .ok → g.slot = some m → p.2 = .val m ∧ m ∈ p.1.recvd)) ∨
    (l ≠ .complete i ∧ p.1.sigs[i]? = some g) := by
  have hni := not_listed h hg (Or.inr (Or.inl hf))
  by_cases hs : l.sig? = some i
  · rcases sig?_ne_of_ne hs with rfl | rfl | rfl | ⟨w, rfl⟩ | ⟨w, rfl⟩ | rfl | rfl
    · left
      refine ⟨rfl, ?_, ?_⟩
      · simp only [step, hg] at e
        rw [if_neg (by simp [ha, hk, hf])] at e
        step_leaves e
        all_goals exact ⟨{ g with alive := false, slot := none }, by simp [hg], rfl⟩
      · intro m hr ho hsl
        simp only [step, hg] at e
        rw [if_neg (by simp [ha, hk, hf])] at e
        simp only [hr, ho, hsl] at e
        cases e
        exact ⟨rfl, by simp⟩
    · simp only [step, hg] at e
      rw [if_pos (Or.inr (Or.inr hf))] at e; cases e
    · simp only [step, hg] at e
      rw [if_pos (Or.inr hf)] at e; cases e
    · simp only [step, hg] at e
      rw [if_pos (Or.inr (Or.inl hk))] at e; cases e
    · simp only [step, hg] at e
      rw [if_pos (Or.inr (Or.inl hk))] at e; cases e
    · simp only [step, hg] at e
      rw [if_pos (Or.inr (Or.inl hk))] at e; cases e
    · simp only [step, hg] at e
      rw [if_pos (Or.inr (Or.inl hk))] at e; cases e
  · refine Or.inr ⟨?_, step_sig_stable _ s i g hg hni l hs p e⟩
    rintro rfl; exact hs rfl

/-- **A waiter that has returned stays so**: no step touches the record of a dead waiter. -/
theorem dead_step {s : State} (h : Reach Variant.good s) {i : Nat} {g : Sig} (hg : s.sigs[i]? = some g)
    (ha : g.alive = false) {l : Label} {p : State × Res} (e : step Variant.good s l = some p) :
    p.1.sigs[i]? = some g := by
  have hni := not_listed h hg (Or.inl ha)
  have hc : g.claimed = false := (((reach_struct s h).sigOK i g hg).dead ha).2
  by_cases hs : l.sig? = some i
  · rcases sig?_ne_of_ne hs with rfl | rfl | rfl | ⟨w, rfl⟩ | ⟨w, rfl⟩ | rfl | rfl
    all_goals simp only [step, hg] at e
    all_goals rw [if_pos (Or.inl (by simp [ha, hc]))] at e
    all_goals cases e
  · exact step_sig_stable _ s i g hg hni l hs p e

/-! ### From one step to executions -/

/-- If every enabled step other than `own` keeps waiter `i`'s record `g`, then along an execution the
    record stays `g` until `own` is taken from a state in which it is still `g`. -/
theorem CExec.until (x : CExec v cap) (i : Nat) (g : Sig) (own : Label)
    (hstep : ∀ k lab p, (x.s k).sigs[i]? = some g → step v (x.s k) lab = some p → lab ≠ own → p.1.sigs[i]? = some g)
    (n : Nat) (hg : (x.s n).sigs[i]? = some g) :
    ∀ d, (∃ k, n ≤ k ∧ k ≤ n + d ∧ x.l k = some own ∧ (x.s k).sigs[i]? = some g) ∨
         (x.s (n + d)).sigs[i]? = some g := by
  intro d
  induction d with
  | zero => exact Or.inr hg
  | succ d ih =>
    rcases ih with ⟨k, h1, h2, h3, h4⟩ | hd
    · exact Or.inl ⟨k, h1, by omega, h3, h4⟩
    · cases hl : x.l (n + d) with
      | none => right; show (x.s (n + d + 1)).sigs[i]? = some g; rw [x.next_none hl]; exact hd
      | some lab =>
        obtain ⟨r, e⟩ := x.next_some hl
        by_cases ho : lab = own
        · subst ho; exact Or.inl ⟨n + d, by omega, by omega, hl, hd⟩
        · right; exact hstep (n + d) lab _ hd e ho

/-- … hence, if `own` is eventually taken, it is eventually taken from a state where the record is still `g`. -/
theorem CExec.until_fires (x : CExec v cap) (i : Nat) (g : Sig) (own : Label)
    (hstep : ∀ k lab p, (x.s k).sigs[i]? = some g → step v (x.s k) lab = some p → lab ≠ own → p.1.sigs[i]? = some g)
    (n : Nat) (hg : (x.s n).sigs[i]? = some g) (m : Nat) (hnm : n ≤ m) (hm : x.l m = some own) :
    ∃ k, n ≤ k ∧ k ≤ m ∧ x.l k = some own ∧ (x.s k).sigs[i]? = some g := by
  obtain ⟨d, rfl⟩ : ∃ d, m = n + d := ⟨m - n, by omega⟩
  rcases x.until i g own hstep n hg d with ⟨k, h1, h2, h3, h4⟩ | hd
  · exact ⟨k, h1, h2, h3, h4⟩
  · exact ⟨n + d, hnm, Nat.le_refl _, hm, hd⟩

/-- **C06 (a returned call stays returned).** -/
theorem c06_returned_stays (x : CExec Variant.good cap) (i n : Nat) (h : Returned x i n) :
    ∀ m, n ≤ m → Returned x i m := by
  intro m hm
  induction hm with
  | refl => exact h
  | @step m _ ih =>
    obtain ⟨g', hg', ha⟩ := ih
    cases hl : x.l m with
    | none => rw [Returned, x.next_none hl]; exact ⟨g', hg', ha⟩
    | some lab =>
      obtain ⟨r, e⟩ := x.next_some hl
      exact ⟨g', dead_step (x.reach m) hg' ha e, ha⟩

/-! ### Eventual completion -/

/-- The completion of a final waiter fires, from a state in which its record is unchanged. -/
theorem final_completes_at (x : CExec Variant.good cap) (i : Nat) (hfc : FairComplete x i) (n : Nat) (g : Sig)
    (hg : (x.s n).sigs[i]? = some g) (ha : g.alive = true) (hk : g.kind ≠ .async) (hf : g.st ≠ .pending) :
    ∃ k, n ≤ k ∧ x.l k = some (.complete i) ∧ (x.s k).sigs[i]? = some g := by
  obtain ⟨m, hnm, hm⟩ := hfc n g hg ha hk hf
  have hstep : ∀ k lab p, (x.s k).sigs[i]? = some g → step Variant.good (x.s k) lab = some p →
      lab ≠ .complete i → p.1.sigs[i]? = some g := by
    intro k lab p hgk e hne
    rcases final_step (x.reach k) hgk ha hk hf e with ⟨rfl, -⟩ | ⟨-, h2⟩
    · exact absurd rfl hne
    · exact h2
  obtain ⟨k, h1, -, h3, h4⟩ := x.until_fires i g _ hstep n hg m hnm hm
  exact ⟨k, h1, h3, h4⟩

/-- **C06 (a call whose signal is final returns).** In an execution in which the completion of waiter `i`
    is scheduled weakly fairly: if at instant `n` waiter `i` is an alive sync / timed call whose signal
    is final (`ok` or terminated), then at some later instant it has returned.  If it is a receiver
    with `ok`, it returns the value in its slot, which is then in the `recvd` log. -/
theorem c06_final_eventually_returns (x : CExec Variant.good cap) (i : Nat) (hfc : FairComplete x i)
    (n : Nat) (g : Sig) (hg : (x.s n).sigs[i]? = some g) (ha : g.alive = true) (hk : g.kind ≠ .async)
    (hf : g.st ≠ .pending) :
    ∃ m, n ≤ m ∧ Returned x i m ∧
      (∀ v, g.role = .recv → g.st = .ok → g.slot = some v → v ∈ (x.s m).recvd) := by
  obtain ⟨k, hnk, hl, hgk⟩ := final_completes_at x i hfc n g hg ha hk hf
  obtain ⟨r, e⟩ := x.next_some hl
  rcases final_step (x.reach k) hgk ha hk hf e with ⟨-, h2, h3⟩ | ⟨h1, -⟩
  · exact ⟨k + 1, by omega, h2, fun v hr ho hs => (h3 v hr ho hs).2⟩
  · exact absurd rfl h1

/-- The final store into a claimed waiter fires, from a state in which its record is unchanged. -/
theorem claimed_finalized_at (x : CExec Variant.good cap) (i : Nat) (hff : FairFinalize x i) (n : Nat) (g : Sig)
    (hg : (x.s n).sigs[i]? = some g) (hk : g.kind ≠ .async) (hc : g.claimed = true) :
    ∃ k, n ≤ k ∧ x.l k = some (.finalize i) ∧ (x.s k).sigs[i]? = some g := by
  obtain ⟨m, hnm, hm⟩ := hff n g hg hc
  have hstep : ∀ k lab p, (x.s k).sigs[i]? = some g → step Variant.good (x.s k) lab = some p →
      lab ≠ .finalize i → p.1.sigs[i]? = some g := by
    intro k lab p hgk e hne
    rcases claimed_step (x.reach k) hgk hc hk e with ⟨rfl, -⟩ | ⟨-, h2⟩
    · exact absurd rfl hne
    · exact h2
  obtain ⟨k, h1, -, h3, h4⟩ := x.until_fires i g _ hstep n hg m hnm hm
  exact ⟨k, h1, h3, h4⟩

/-- **C06 (a claimed waiter returns).** In an execution in which the final store into waiter `i` and
    its completion are scheduled weakly fairly: if at instant `n` waiter `i` is an alive sync / timed
    call that a peer has claimed (popped in its critical section), then at some later instant it has
    returned; a claimed receiver returns the value the peer put into its slot. -/
theorem c06_claimed_eventually_returns (x : CExec Variant.good cap) (i : Nat) (hff : FairFinalize x i)
    (hfc : FairComplete x i) (n : Nat) (g : Sig) (hg : (x.s n).sigs[i]? = some g) (ha : g.alive = true)
    (hk : g.kind ≠ .async) (hc : g.claimed = true) :
    ∃ m, n ≤ m ∧ Returned x i m ∧ (∀ v, g.role = .recv → g.slot = some v → v ∈ (x.s m).recvd) := by
  obtain ⟨k, hnk, hl, hgk⟩ := claimed_finalized_at x i hff n g hg hk hc
  obtain ⟨r, e⟩ := x.next_some hl
  rcases claimed_step (x.reach k) hgk hc hk e with ⟨-, h2⟩ | ⟨h1, -⟩
  · obtain ⟨m, hm, hret, hv⟩ := c06_final_eventually_returns x i hfc (k + 1) _ h2 ha hk (by simp)
    exact ⟨m, by omega, hret, fun v hr hs => hv v hr rfl hs⟩
  · exact absurd rfl h1

/-- **C06 (close releases every blocked call).** If a successful `close()` happens at instant `n`, every
    sync / timed call that was waiting in the wait list returns eventually (with the closed error: its
    signal is terminated). -/
theorem c06_close_eventually_releases (x : CExec Variant.good cap) (n : Nat)
    (e : step Variant.good (x.s n) .close = some (x.s (n + 1), .unit))
    (i : Nat) (hi : i ∈ (x.s n).chan.waitList) (g : Sig) (hg : (x.s n).sigs[i]? = some g)
    (hk : g.kind ≠ .async) (hfc : FairComplete x i) :
    (x.s (n + 1)).sigs[i]? = some { g with st := .term } ∧ ∃ m, n < m ∧ Returned x i m := by
  have hrel := (C10.c10_releases _ _ _ e rfl).2.2.2.2.1 i hi g hg
  have hl := (reach_struct _ (x.reach n)).listed i hi
  obtain ⟨g', hg', hlg⟩ := hl
  rw [hg] at hg'; cases hg'
  obtain ⟨m, hm, hret, -⟩ := c06_final_eventually_returns x i hfc (n + 1) _ hrel hlg.alive hk (by simp)
  exact ⟨hrel, m, by omega, hret⟩

/-- **C06 (the last handle of a side releases every blocked call).** If at instant `n` the last handle
    of a side is dropped while the other side lives, every sync / timed call waiting in the wait list
    returns eventually. -/
theorem c06_last_drop_eventually_releases (x : CExec Variant.good cap) (n : Nat) (side : Side) (r : Res)
    (e : step Variant.good (x.s n) (.dropHandle side) = some (x.s (n + 1), r))
    (hlast : (side = .send → (x.s n).chan.sendCount = 1 ∧ (x.s n).chan.recvCount ≠ 0) ∧
             (side = .recv → (x.s n).chan.recvCount = 1 ∧ (x.s n).chan.sendCount ≠ 0))
    (i : Nat) (hi : i ∈ (x.s n).chan.waitList) (g : Sig) (hg : (x.s n).sigs[i]? = some g)
    (hk : g.kind ≠ .async) (hfc : FairComplete x i) :
    (x.s (n + 1)).sigs[i]? = some { g with st := .term } ∧ ∃ m, n < m ∧ Returned x i m := by
  have hrel := (C11.c11_release _ _ side _ e hlast).2 i hi g hg
  obtain ⟨g', hg', hlg⟩ := (reach_struct _ (x.reach n)).listed i hi
  rw [hg] at hg'; cases hg'
  obtain ⟨m, hm, hret, -⟩ := c06_final_eventually_returns x i hfc (n + 1) _ hrel hlg.alive hk (by simp)
  exact ⟨hrel, m, by omega, hret⟩

/-! ### A send wakes the waiting receiver -/

/-- The send critical section, when a receiver `i` is first in the wait list: hand-off to `i`. -/
theorem sendPre_handoff_head {s : State} (h : Reach Variant.good s) {i : Nat} {rest : List Nat}
    (hw : s.chan.waitList = i :: rest) (hb : s.chan.recvBlocking = true) (m : Msg) :
    s.chan.sendPre m = ({ s.chan with waitList := rest }, .handoff i) := by
  have hs := reach_struct s h
  have hr : s.chan.recvCount ≠ 0 := fun h0 => by
    have := hs.half (Or.inr h0); rw [hw] at this; cases this
  simp [sendPre, nextRecv, hr, hb, hw]

/-- One step: a send (of any flavour) that finds receiver `i` first in the wait list claims it and
    puts the value into its slot. -/
theorem send_claims_head {s : State} (h : Reach Variant.good s) {i : Nat} {rest : List Nat}
    (hw : s.chan.waitList = i :: rest) (hb : s.chan.recvBlocking = true) {l : Label} {m : Msg}
    (hl : (∃ kind opt, l = .send m kind opt) ∨ (∃ opt rt, l = .trySend m opt rt))
    {p : State × Res} (e : step Variant.good s l = some p) :
    ∃ g, s.sigs[i]? = some g ∧ g.alive = true ∧ g.role = .recv ∧ g.claimed = false ∧
      p.1.sigs[i]? = some { g with slot := some m, claimed := true } := by
  have hs := reach_struct s h
  obtain ⟨g, hg, hlg⟩ := hs.listed i (by rw [hw]; simp)
  have hrole : g.role = .recv := by rw [hlg.role]; simp [Chan.listRole, hb]
  refine ⟨g, hg, hlg.alive, hrole, hlg.unclaimed, ?_⟩
  have hpre := sendPre_handoff_head h hw hb m
  rcases hl with ⟨kind, opt, rfl⟩ | ⟨opt, rt, rfl⟩
  · simp only [step] at e
    split at e
    · cases e
    · cases e
      simp only [sendStep, hpre]
      simp [deliverTo, hg]
  · simp only [step] at e
    split at e
    · cases e
    · simp only [sendStep, hpre] at e
      cases e
      simp [deliverTo, hg]

/-- **C06 (a send wakes the waiting receiver).** If at instant `n` a `send` / `send_timeout` /
    `send_option_timeout` of value `m` happens while the sync / timed receiver `i` is first in the wait
    list, then after the step `i` is claimed with `m` in its slot, and — the peer's final store and `i`'s
    completion being scheduled weakly fairly — `i` eventually returns, with `m` received. -/
theorem c06_send_eventually_wakes_receiver (x : CExec Variant.good cap) (i : Nat) (hff : FairFinalize x i)
    (hfc : FairComplete x i) (n : Nat) (m : Msg) (kind : Kind) (opt : Bool)
    (hl : x.l n = some (.send m kind opt)) (rest : List Nat)
    (hw : (x.s n).chan.waitList = i :: rest) (hb : (x.s n).chan.recvBlocking = true)
    (hk : ∀ g, (x.s n).sigs[i]? = some g → g.kind ≠ .async) :
    (∃ g', (x.s (n + 1)).sigs[i]? = some g' ∧ g'.claimed = true ∧ g'.slot = some m) ∧
    ∃ k, n < k ∧ Returned x i k ∧ m ∈ (x.s k).recvd := by
  obtain ⟨r, e⟩ := x.next_some hl
  obtain ⟨g, hg, ha, hr, -, hg'⟩ := send_claims_head (x.reach n) hw hb (Or.inl ⟨kind, opt, rfl⟩) e
  refine ⟨⟨_, hg', rfl, rfl⟩, ?_⟩
  obtain ⟨k, hk1, hret, hv⟩ := c06_claimed_eventually_returns x i hff hfc (n + 1) _ hg' ha (hk g hg) rfl
  exact ⟨k, by omega, hret, hv m hr rfl⟩

/-- The same for `try_send` / `try_send_option` / the realtime variants. -/
theorem c06_trySend_eventually_wakes_receiver (x : CExec Variant.good cap) (i : Nat) (hff : FairFinalize x i)
    (hfc : FairComplete x i) (n : Nat) (m : Msg) (opt rt : Bool)
    (hl : x.l n = some (.trySend m opt rt)) (rest : List Nat)
    (hw : (x.s n).chan.waitList = i :: rest) (hb : (x.s n).chan.recvBlocking = true)
    (hk : ∀ g, (x.s n).sigs[i]? = some g → g.kind ≠ .async) :
    (∃ g', (x.s (n + 1)).sigs[i]? = some g' ∧ g'.claimed = true ∧ g'.slot = some m) ∧
    ∃ k, n < k ∧ Returned x i k ∧ m ∈ (x.s k).recvd := by
  obtain ⟨r, e⟩ := x.next_some hl
  obtain ⟨g, hg, ha, hr, -, hg'⟩ := send_claims_head (x.reach n) hw hb (Or.inr ⟨opt, rt, rfl⟩) e
  refine ⟨⟨_, hg', rfl, rfl⟩, ?_⟩
  obtain ⟨k, hk1, hret, hv⟩ := c06_claimed_eventually_returns x i hff hfc (n + 1) _ hg' ha (hk g hg) rfl
  exact ⟨k, by omega, hret, hv m hr rfl⟩

/-! ### Non-vacuity: a fair execution exists -/

/-- Rendezvous channel: a `recv` blocks, a `send` hands its value over to it, the sender's final store,
    the receiver returns. -/
def cdemoLs : List Label := [.recv .sync false, .send 7 .sync false, .finalize 0, .complete 0]

def cdemoS : Nat → State
  | 0 => State.init (some 0)
  | n + 1 => match cdemoLs[n]? with
    | some lab => match step Variant.good (cdemoS n) lab with
      | some p => p.1
      | none => cdemoS n
    | none => cdemoS n

theorem step_fst_of_isSome {v : Variant} {s : State} {l : Label} (h : (step v s l).isSome = true) :
    ∃ r, step v s l = some ((match step v s l with | some p => p.1 | none => s), r) := by
  cases hst : step v s l with
  | none => rw [hst] at h; cases h
  | some p => exact ⟨p.2, rfl⟩

theorem cdemoLs_tail (k : Nat) : cdemoLs[4 + k]? = none :=
  List.getElem?_eq_none (by simp [cdemoLs])

theorem cdemoS_tail (k : Nat) : cdemoS (4 + k) = cdemoS 4 := by
  induction k with
  | zero => rfl
  | succ k ih =>
    show cdemoS ((4 + k) + 1) = cdemoS 4
    rw [cdemoS, cdemoLs_tail k]
    exact ih

/-- The schedule `cdemoLs` followed by stuttering for ever, as an execution. -/
def cdemo : CExec Variant.good (some 0) where
  s := cdemoS
  l := fun n => cdemoLs[n]?
  init := rfl
  next := fun n => by
    match n with
    | 0 => exact step_fst_of_isSome (s := cdemoS 0) (l := .recv .sync false) (by decide)
    | 1 => exact step_fst_of_isSome (s := cdemoS 1) (l := .send 7 .sync false) (by decide)
    | 2 => exact step_fst_of_isSome (s := cdemoS 2) (l := .finalize 0) (by decide)
    | 3 => exact step_fst_of_isSome (s := cdemoS 3) (l := .complete 0) (by decide)
    | n + 4 =>
      have h : cdemoLs[n + 4]? = none := by rw [Nat.add_comm]; exact cdemoLs_tail n
      simp only [h]
      rw [cdemoS, h]

theorem cdemo_sig3 : (cdemoS 3).sigs[0]?.map (·.claimed) = some false := by decide
theorem cdemo_sig4 : (cdemoS 4).sigs[0]?.map (fun g => (g.claimed, g.alive)) = some (false, false) := by decide

theorem cdemo_fairFinalize : FairFinalize cdemo 0 := by
  intro n g hg hc
  by_cases h : n ≤ 2
  · exact ⟨2, h, rfl⟩
  · exfalso
    by_cases h3 : n = 3
    · subst h3
      have := cdemo_sig3
      change (cdemoS 3).sigs[0]? = some g at hg
      rw [hg] at this
      simp [hc] at this
    · obtain ⟨k, rfl⟩ : ∃ k, n = 4 + k := ⟨n - 4, by omega⟩
      have := cdemo_sig4
      change (cdemoS (4 + k)).sigs[0]? = some g at hg
      rw [cdemoS_tail] at hg
      rw [hg] at this
      simp [hc] at this

theorem cdemo_fairComplete : FairComplete cdemo 0 := by
  intro n g hg ha _ _
  by_cases h : n ≤ 3
  · exact ⟨3, h, rfl⟩
  · exfalso
    obtain ⟨k, rfl⟩ : ∃ k, n = 4 + k := ⟨n - 4, by omega⟩
    have := cdemo_sig4
    change (cdemoS (4 + k)).sigs[0]? = some g at hg
    rw [cdemoS_tail] at hg
    rw [hg] at this
    simp [ha] at this

/-- **Non-vacuity**: a fair execution exists in which a receiver blocks (instant 1: listed, pending) and a
    send claims it (instant 2). -/
theorem c06_fair_cexec_exists :
    ∃ x : CExec Variant.good (some 0), FairFinalize x 0 ∧ FairComplete x 0 ∧
      (x.s 1).chan.waitList = [0] ∧ (x.s 2).sigs[0]?.map (·.claimed) = some true :=
  ⟨cdemo, cdemo_fairFinalize, cdemo_fairComplete, by decide, by decide⟩

/-- The send theorem applied to the concrete execution: receiver 0 returns with the value 7. -/
example : ∃ k, 1 < k ∧ Returned cdemo 0 k ∧ 7 ∈ (cdemo.s k).recvd :=
  (c06_send_eventually_wakes_receiver cdemo 0 cdemo_fairFinalize cdemo_fairComplete 1 7 .sync false rfl []
    (by decide) (by decide) (by
      intro g hg
      have : (cdemoS 1).sigs[0]?.map (·.kind) = some .sync := by decide
      change (cdemoS 1).sigs[0]? = some g at hg
      rw [hg] at this
      simp at this
      simp [this])).2

end Kanal.C06

#print axioms Kanal.C06.CExec.reach
#print axioms Kanal.C06.claimed_step
#print axioms Kanal.C06.final_step
#print axioms Kanal.C06.dead_step
#print axioms Kanal.C06.c06_returned_stays
#print axioms Kanal.C06.c06_final_eventually_returns
#print axioms Kanal.C06.c06_claimed_eventually_returns
#print axioms Kanal.C06.c06_close_eventually_releases
#print axioms Kanal.C06.c06_last_drop_eventually_releases
#print axioms Kanal.C06.send_claims_head
#print axioms Kanal.C06.c06_send_eventually_wakes_receiver
#print axioms Kanal.C06.c06_trySend_eventually_wakes_receiver
#print axioms Kanal.C06.cdemo_fairFinalize
#print axioms Kanal.C06.cdemo_fairComplete
#print axioms Kanal.C06.c06_fair_cexec_exists
