/-
  C07 (addendum) — a registered future cannot be moved.

  After its first `Pending` poll the wait list holds the raw address of the future's signal and data slot; a peer
  writes through that address.  What keeps safe code from moving the future between polls is that `SendFuture` and
  `ReceiveFuture` are not `Unpin` (a `PhantomPinned` field): `Future::poll` takes `Pin<&mut Self>`, and for a `!Unpin`
  type safe code can only obtain that from a place it promises never to move from again.

  `AutoTrait.verdictUnpin` is the structural `Unpin` derivation run on kanal's types as extracted from the source on
  every run (`Generated.adtFields`, `Generated.unpinImpls`); std's rules are a trusted table, cross-checked on every run
  by asking rustc the same 14 questions (`probes unpin`).
-/
import Kanal.AutoTrait

namespace Kanal.C07Pin
open Kanal Kanal.AutoTrait Kanal.Generated

/-- Whatever the message type, neither future is `Unpin`. -/
theorem c07_futures_pinned (unpinT : Bool) :
    verdictUnpin unpinT .SendFuture = false ∧ verdictUnpin unpinT .ReceiveFuture = false := by
  cases unpinT <;> decide

/-- What makes it so, as extracted: both structs carry a `PhantomPinned` field and nothing implements `Unpin` by hand. -/
theorem c07_pin_this_tree :
    unpinImpls = [] ∧
    (∀ a ∈ [Adt.SendFuture, Adt.ReceiveFuture],
      ((adtFields.find? (fun f => f.1 == a)).any fun f => f.2.contains Ty.phantomPinned) = true) := by
  decide

/-- The marker matters: without it both futures would be `Unpin` for every `Unpin` message type. -/
theorem c07_unpin_without_marker :
    unpinHolds (adtFields.map fun (a, fs) => (a, fs.filter (· != .phantomPinned))) [] true 12 (.adt .SendFuture) = true ∧
    unpinHolds (adtFields.map fun (a, fs) => (a, fs.filter (· != .phantomPinned))) [] true 12 (.adt .ReceiveFuture) = true := by
  decide

/-- The handles and the stream (which boxes its future) may be moved freely. -/
theorem c07_rest_unpin (unpinT : Bool) :
    (∀ h ∈ handles, verdictUnpin unpinT h = true) ∧ verdictUnpin unpinT .ReceiveStream = true := by
  cases unpinT <;> decide

end Kanal.C07Pin

#print axioms Kanal.C07Pin.c07_futures_pinned
#print axioms Kanal.C07Pin.c07_pin_this_tree
#print axioms Kanal.C07Pin.c07_unpin_without_marker
#print axioms Kanal.C07Pin.c07_rest_unpin
