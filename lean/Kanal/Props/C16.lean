/-
  C16 — futures and the stream obey the polling contract.

  `Label.pollSend f w` / `Label.pollRecv f w` is one call of `poll` (of `poll_next` when `f` is
  a stream) with the waker identified by `w`; an executor may issue them at any time, with any
  waker, any number of times — that is exactly "any reachable state, any label".
-/
import Kanal.Lemmas.All
import Kanal.Lemmas.Stable
import Kanal.Tie

namespace Kanal.C16
open Kanal Chan State

/-! ### Technical lemmas -/

/-- Writing back the entry that is already there changes nothing. -/
theorem c16_setSig_self {s : State} {f : Nat} {g : Sig} (hg : s.sigs[f]? = some g) : s.setSig f g = s := by
  unfold setSig
  have : s.sigs.set f g = s.sigs := by
    apply List.ext_getElem?; intro j
    simp only [list_set_get]
    split
    · subst_vars; simp [hg]
    · rfl
  rw [this]

/-- `recvStep` never removes a waiter-table entry. -/
theorem c16_recvStep_sig_some (s : State) (t e : Bool) (f : Nat) (g : Sig) (h : s.sigs[f]? = some g) :
    ∃ g', (recvStep s t e).1.sigs[f]? = some g' := by
  unfold recvStep
  split
  · split <;> simp [takeFrom_get, h]
    split <;> simp
  · simp [claimFrom_get, h]; split <;> simp
  · simp [h]

/-- A value `recvStep` yields was buffered or in a listed sender's slot; it goes to the received log. -/
theorem c16_recvStep_val (s : State) (t e : Bool) (m : Msg) (hs : Struct s) (hl : Ledger s)
    (h : recvRes (recvStep s t e).2 .none s = .val m) :
    (recvStep s t e).1.recvd = s.recvd ++ [m] ∧ (s.cust m = .queued ∨ ∃ i : Nat, s.cust m = .slot i) := by
  unfold recvStep at h ⊢
  split at h <;> rename_i heq
  · have hv := hl.queueCust _ (recvPre_head heq)
    split at h <;> simp [recvRes] at h <;> subst h <;> simp [hv]
  · obtain ⟨hp, hb⟩ := recvPre_popped (v := 0) heq (Or.inr rfl)
    have hc := listed_sender_cust hs hl hp hb
    simp [recvRes] at h; subst h
    simp; exact Or.inr ⟨_, hc⟩
  · rename_i b h1 h2
    cases b <;> simp [recvRes] at h
    · exact absurd rfl (h1 _ _)
    · exact absurd rfl (h2 _)

/-- The send body never changes a registered waker. -/
theorem c16_sendStep_waker (s : State) (m : Msg) (o : Bool) (reg : Option Sig) (f : Nat) (g : Sig)
    (hg : s.sigs[f]? = some g) :
    ∃ g', (sendStep s m o reg).1.sigs[f]? = some g' ∧ g'.waker = g.waker := by
  have hne : f ≠ s.sigs.length := Nat.ne_of_lt (lt_of_get?_some hg)
  unfold sendStep
  simp only
  split
  all_goals (try split)
  all_goals simp [deliverTo_get, append_single_get, hg, hne]
  all_goals (try (split <;> simp))

/-- The receive body never changes a registered waker. -/
theorem c16_recvStep_waker (s : State) (t e : Bool) (f : Nat) (g : Sig) (hg : s.sigs[f]? = some g) :
    ∃ g', (recvStep s t e).1.sigs[f]? = some g' ∧ g'.waker = g.waker := by
  unfold recvStep
  split
  all_goals (try split)
  all_goals simp [takeFrom_get, claimFrom_get, hg]
  all_goals (try (split <;> simp))

/-- No step other than a poll of `f` itself changes the waker registered in `f` (alive or not). -/
theorem c16_step_waker {v : Variant} {s : State} {l : Label} {p : State × Res} (e : step v s l = some p)
    (f : Nat) (g : Sig) (hg : s.sigs[f]? = some g)
    (hl : ∀ w, l ≠ .pollSend f w ∧ l ≠ .pollRecv f w) :
    ∃ g', p.1.sigs[f]? = some g' ∧ g'.waker = g.waker := by
  have hne : f ≠ s.sigs.length := Nat.ne_of_lt (lt_of_get?_some hg)
  cases l <;> simp only [step] at e
  case send m kind opt => step_leaves e; exact c16_sendStep_waker _ _ _ _ _ _ hg
  case trySend m opt rt =>
    have := c16_sendStep_waker s m opt none f g hg
    step_leaves e <;> (try rename_i heq) <;> (try rw [heq] at this) <;> exact this
  case recv kind ex =>
    obtain ⟨g1, hg1, hw1⟩ := c16_recvStep_waker s (kind == .timed) ex f g hg
    have hne1 : f ≠ (recvStep s (kind == .timed) ex).1.sigs.length := Nat.ne_of_lt (lt_of_get?_some hg1)
    step_leaves e
    · simp [append_single_get, hne1, hg1, hw1]
    · exact ⟨g1, hg1, hw1⟩
  case tryRecv rt => step_leaves e; exact c16_recvStep_waker s false false f g hg
  case pollRecv f' w =>
    have hff : f' ≠ f := by intro h; subst h; exact (hl w).2 rfl
    obtain ⟨g1, hg1, hw1⟩ := c16_recvStep_waker s false false f g hg
    step_leaves e
    all_goals simp [hff, hg, hg1, hw1]
  case pollSend f' w =>
    have hff : f' ≠ f := by intro h; subst h; exact (hl w).1 rfl
    step_leaves e
    all_goals simp [hff, hg, deliverTo_get]
    all_goals (try (split <;> simp))
  case clone side => cases side <;> simp only at e <;> step_leaves e <;> simp [hg]
  case dropHandle side =>
    cases side <;> simp only at e <;> step_leaves e <;> simp [hg, terminateList_get] <;> (try (split <;> simp))
  case convert side => cases side <;> simp only at e <;> step_leaves e <;> simp [hg]
  case isDisconnected side => cases side <;> simp only at e <;> step_leaves e <;> simp [hg]
  all_goals step_leaves e
  all_goals simp [hg, hne, append_single_get, finalize_get, terminateList_get, foldl_takeFrom_get]
  all_goals (try (split <;> simp_all))

/-- A pending, registered future is either listed and unclaimed, or claimed and in nobody's list. -/
theorem c16_pending_same {s : State} (hst : Struct s) {f w : Nat} {g : Sig} (hg : s.sigs[f]? = some g)
    (ha : g.alive = true) (hf : g.fut = .waiting) (hp : g.st = .pending) (hw : g.waker = some w) :
    ∃ g', s.sigs[f]? = some g' ∧ g'.waker = some w ∧ g'.fut = .waiting ∧ g'.st = .pending ∧
            ((g'.claimed = false ∧ f ∈ s.chan.waitList) ∨ (g'.claimed = true ∧ f ∉ s.chan.waitList ∧ s = s)) := by
  refine ⟨g, hg, hw, hf, hp, ?_⟩
  cases hc : g.claimed
  · exact Or.inl ⟨rfl, hst.unlisted f g hg ha hp hc (fun _ => hf)⟩
  · refine Or.inr ⟨rfl, fun hin => ?_, rfl⟩
    obtain ⟨g0, hg0, hl⟩ := hst.listed f hin
    rw [hg] at hg0; cases hg0
    have := hl.unclaimed; simp_all

/-! ### The property -/

/-- **C16 (a spurious poll is harmless).** Polling a pending, still-listed future again — same or
    different waker — answers `Pending` and changes nothing except that the registered waker is
    now the one just supplied. -/
theorem c16_spurious (s : State) (hr : Reach Variant.good s) (f : Nat) (w : Nat) (g : Sig)
    (hg : s.sigs[f]? = some g) (ha : g.alive = true) (hk : g.kind = .async) (hw : g.fut = .waiting)
    (hp : g.st = .pending) (hc : g.claimed = false) (hs : g.isStream = false ∨ g.streamEnded = false) :
    (g.role = .send → step Variant.good s (.pollSend f w) = some (s.setSig f { g with waker := some w }, .pending)) ∧
    (g.role = .recv → step Variant.good s (.pollRecv f w) = some (s.setSig f { g with waker := some w }, .pending)) := by
  have hst := reach_struct s hr
  have hin := hst.unlisted f g hg ha hp hc (fun _ => hw)
  obtain ⟨g0, hg0, hl⟩ := hst.listed f hin
  rw [hg] at hg0; cases hg0
  have hrole := hl.role
  have hself : g.waker = some w → s.setSig f { g with waker := some w } = s := by
    intro h
    have : { g with waker := some w } = g := by rw [← h]
    rw [this, c16_setSig_self hg]
  constructor
  · intro hro
    have hb : s.chan.recvBlocking = false := by
      rw [hro] at hrole; unfold Chan.listRole at hrole; split at hrole <;> simp_all
    simp only [step, hg]
    by_cases h : g.waker = some w
    · rw [hself h]; simp [ha, hk, hro, hw, hp, h]
    · simp [ha, hk, hro, hw, hp, h, sigExists, hb, hin, Variant.good]
  · intro hro
    have hb : s.chan.recvBlocking = true := by
      rw [hro] at hrole; unfold Chan.listRole at hrole; split at hrole <;> simp_all
    have hse : (g.isStream && g.streamEnded) = false := by rcases hs with h | h <;> simp [h]
    have hre : rearm Variant.good g = some g := by simp [rearm, hw]
    simp only [step, hg]
    by_cases h : g.waker = some w
    · rw [hself h]; simp [ha, hk, hro, hw, hp, h, hse, hre]
    · simp [ha, hk, hro, hw, hp, h, sigExists, hb, hin, hse, hre]

/-- **C16 (the wake-up goes to the registered waker).** `finalize` (the peer's final store, a
    termination) appends exactly the registered waker to the wake log. -/
theorem c16_finalize_wakes_registered (s : State) (i : Nat) (o : SigSt) (g : Sig) (w : Nat)
    (hg : s.sigs[i]? = some g) (hk : g.kind = .async) (hw : g.waker = some w) :
    (s.finalize i o).wakes = s.wakes ++ [w] := by
  unfold State.finalize
  simp [hg, hk, hw]

/-- A claimed pending future is in the hand-off window: the claiming peer's final store
    (`Label.finalize f`) is enabled and wakes exactly the registered waker. -/
theorem c16_pending_claimed_is_woken (v : Variant) (s : State) (f w : Nat) (g : Sig) (hg : s.sigs[f]? = some g)
    (hk : g.kind = .async) (hc : g.claimed = true) (hp : g.st = .pending) (hw : g.waker = some w) :
    ∃ s', step v s (.finalize f) = some (s', .unit) ∧ s'.wakes = s.wakes ++ [w] := by
  refine ⟨(s.setSig f { g with claimed := false }).finalize f .ok, ?_, ?_⟩
  · simp only [step, hg]; rw [if_neg (by simp [hc, hp])]
  · rw [c16_finalize_wakes_registered _ f .ok { g with claimed := false } w (by simp [hg]) hk hw]
    rfl

/-- **C16 (every `Pending` registers the waker just supplied).** Whenever a poll answers `Pending`,
    the registered waker is the one passed to that poll, the future is waiting with a pending signal,
    and it is *either* listed and unclaimed, *or* claimed by a peer that has not stored the final
    state yet (then the poll changed nothing, and that peer's `finalize` wakes exactly this waker:
    `c16_pending_claimed_is_woken`).

    CHANGED with respect to the original statement, which was
    `… ∃ g', p.1.sigs[f]? = some g' ∧ g'.waker = some w ∧ g'.fut = .waiting ∧ g'.st = .pending ∧
            g'.claimed = false ∧ f ∈ p.1.chan.waitList`.
    That is false: in the hand-off window (a peer popped the future from the wait list and has not
    yet stored the final state) a poll with the *unchanged* waker answers `(s, .pending)` without
    looking at the wait list (future.rs: `will_wake` short-cut; in the model
    `if g.waker = some w then some (s, .pending)`), so the future is claimed and unlisted.  Witness:
    `c16_pending_in_handoff_window` below.  The last two conjuncts are therefore replaced by the
    disjunction; everything else is as before.  No wake-up is lost in the second case. -/
theorem c16_pending_registers (s : State) (hr : Reach Variant.good s) (f w : Nat) (p : State × Res) :
    ((step Variant.good s (.pollSend f w) = some p ∨ step Variant.good s (.pollRecv f w) = some p) → p.2 = .pending →
      ∃ g', p.1.sigs[f]? = some g' ∧ g'.waker = some w ∧ g'.fut = .waiting ∧ g'.st = .pending ∧
            ((g'.claimed = false ∧ f ∈ p.1.chan.waitList) ∨
             (g'.claimed = true ∧ f ∉ p.1.chan.waitList ∧ p.1 = s))) := by
  have hst' := struct'_reach Variant.good rfl s hr
  have hst := hst'.base
  rintro (e | e) hpend
  · simp only [step, Variant.good] at e
    split at e
    · cases e
    rename_i g hg
    split at e
    · cases e
    rename_i hen
    obtain ⟨ha, hk, hrole⟩ : g.alive = true ∧ g.kind = .async ∧ g.role = .send := by simpa using hen
    have hok := hst.sigOK f g hg
    have haux := hst'.aux f g hg
    have hzero : g.fut = .zero → g.st = .pending ∧ g.claimed = false := by
      intro hz
      refine ⟨haux.zeroPending hk hz, ?_⟩
      cases hc : g.claimed
      · rfl
      · have := (hok.claimed hc).2.2 hk; simp_all
    have hlis : f ∈ s.chan.waitList → g.claimed = false := by
      intro hin
      obtain ⟨g0, hg0, hl⟩ := hst.listed f hin
      rw [hg] at hg0; cases hg0; exact hl.unclaimed
    step_leaves e
    all_goals (try (simp at hpend; done))
    · simp [hg, pushWaiter]; exact hzero (by assumption)
    · exact c16_pending_same hst hg ha (by assumption) (by assumption) (by assumption)
    · have hse : s.chan.sigExists .send f = true := by assumption
      simp [sigExists] at hse
      simp [hg, hse.2, hlis hse.2]; simp_all
    · simp_all
  · simp only [step] at e
    split at e
    · cases e
    rename_i g hg
    split at e
    · cases e
    rename_i hen
    obtain ⟨ha, hk, hrole⟩ : g.alive = true ∧ g.kind = .async ∧ g.role = .recv := by simpa using hen
    split at e
    · cases e; simp at hpend
    split at e
    · cases e; simp at hpend
    rename_i g' hre
    obtain ⟨-, -, -, -, ha', hz', hnz'⟩ := rearm_spec rfl hre (hst.sigOK f g hg) (hst'.aux f g hg) hk hrole ha
    obtain ⟨g1, hg1⟩ := c16_recvStep_sig_some s false false f g hg
    have hnp : ∀ b, recvRes b .none s ≠ .pending := by intro b; cases b <;> simp [recvRes]
    step_leaves e
    all_goals (try (simp at hpend; done))
    · simp [hg1, pushWaiter]; exact ⟨(hz' (by assumption)).1, (hz' (by assumption)).2.2.1⟩
    · simp_all
    · exact absurd hpend (hnp _)
    · have hgg : g' = g := hnz' (by simp_all)
      subst hgg
      exact c16_pending_same hst hg ha (by assumption) (by assumption) (by assumption)
    · have hgg : g' = g := hnz' (by simp_all)
      subst hgg
      have hse : s.chan.sigExists .recv f = true := by assumption
      simp [sigExists] at hse
      obtain ⟨g0, hg0, hl⟩ := hst.listed f hse.2
      rw [hg] at hg0; cases hg0
      simp [hg, hse.2, hl.unclaimed]; simp_all

/-- Counterexample to the original `c16_pending_registers`: a pending send future, a receiver claims
    it (`tryRecv`, final store outstanding), the future is polled again with the same waker:
    the answer is `Pending`, the future is claimed and the wait list is empty. -/
theorem c16_pending_in_handoff_window : ∃ s rs, run Variant.good (State.init (some 0))
    [.newSendFut 1, .pollSend 0 0, .tryRecv false, .pollSend 0 0] = some (s, rs) ∧
    rs = [.num 0, .pending, .val 1, .pending] ∧ s.chan.waitList = [] ∧
    (s.sigs[0]?).map (fun g => (g.claimed, g.st, g.waker)) = some (true, .pending, some 0) := by
  refine ⟨_, _, rfl, ?_, ?_, ?_⟩ <;> decide

/-- **C16 (the registered waker is the one that is woken, and only polls change it).** A step other
    than a poll of future `f` itself never changes `f`'s registered waker while it is alive (in fact
    never: `c16_step_waker`); and the wake-up issued when a peer completes or terminates `f` goes to
    that registered waker: `c16_finalize_wakes_registered`. -/
theorem c16_waker_stable (v : Variant) (s : State) (_hst : Struct s) (f : Nat) (g : Sig)
    (hg : s.sigs[f]? = some g) (_hk : g.kind = .async) (l : Label) (p : State × Res)
    (e : step v s l = some p) (hl : ∀ w, l ≠ .pollSend f w ∧ l ≠ .pollRecv f w) :
    ∃ g', p.1.sigs[f]? = some g' ∧ (g'.alive = true → g'.waker = g.waker) := by
  obtain ⟨g', h1, h2⟩ := c16_step_waker e f g hg hl
  exact ⟨g', h1, fun _ => h2⟩

/-- **C16 (no invented value).** A value a poll yields was supplied by a send and is yielded once:
    it is appended to the received log, which stays duplicate-free and inside `offered`. -/
theorem c16_no_invention (s : State) (hr : Reach Variant.good s) (f w : Nat) (m : Msg) (p : State × Res)
    (e : step Variant.good s (.pollRecv f w) = some p) (hv : p.2 = .val m) :
    p.1.recvd = s.recvd ++ [m] ∧ m ∈ s.offered ∧ m ∉ s.recvd := by
  have hst := reach_struct s hr
  have hl := (reach_ledger s hr).2
  suffices h : p.1.recvd = s.recvd ++ [m] ∧ (s.cust m = .queued ∨ ∃ i : Nat, s.cust m = .slot i) by
    refine ⟨h.1, (hl.offeredCust m).mpr ?_, fun hm => ?_⟩
    · rcases h.2 with h | ⟨i, h⟩ <;> simp [h]
    · have := (hl.recvdCust m).mp hm
      rcases h.2 with h | ⟨i, h⟩ <;> simp [h] at this
  have hrv := c16_recvStep_val s false false m hst hl
  simp only [step] at e
  split at e
  · cases e
  rename_i g hg
  have hsl := fun m hm => hl.slotCust f g m hg hm
  step_leaves e
  all_goals (try (simp at hv; done))
  all_goals first
    | (simp only at hv; simpa using hrv hv)
    | (simp at hv; subst hv
       have hre := rearm_slot' (by assumption) (by assumption)
       exact ⟨by simp, Or.inr ⟨f, hsl _ hre⟩⟩)

/-- **C16 (a finished future panics when polled again; a finished stream keeps saying `end`).** -/
theorem c16_repoll (v : Variant) (s : State) (f w : Nat) (g : Sig) (hg : s.sigs[f]? = some g)
    (ha : g.alive = true) (hk : g.kind = .async) (hd : g.fut = .done) :
    (g.role = .send → step v s (.pollSend f w) = some (s, .panic)) ∧
    (g.role = .recv → g.isStream = false → step v s (.pollRecv f w) = some (s, .panic)) ∧
    (g.role = .recv → g.isStream = true → g.streamEnded = true → step v s (.pollRecv f w) = some (s, .streamEnd)) := by
  refine ⟨fun hr => ?_, fun hr hs => ?_, fun hr hs he => ?_⟩
  · simp [step, hg, ha, hk, hd, hr]
  · simp [step, hg, ha, hk, hd, hr, hs, rearm]
  · simp [step, hg, ha, hk, hr, hs, he]

/-- **C16 (stream: once ended, ended for ever; an error ends it).** -/
theorem c16_stream_end (v : Variant) (s : State) (f w : Nat) (g : Sig) (hg : s.sigs[f]? = some g)
    (hs : g.isStream = true) (p : State × Res) (e : step v s (.pollRecv f w) = some p) :
    (∀ er, p.2 ≠ .err er) ∧
    (p.2 = .streamEnd → ∃ g', p.1.sigs[f]? = some g' ∧ g'.streamEnded = true) := by
  obtain ⟨g1, hg1⟩ := c16_recvStep_sig_some s false false f g hg
  simp only [step, hg] at e
  split at e
  · cases e
  split at e
  · rename_i hse; cases e; exact ⟨by simp, fun _ => ⟨g, hg, by simp_all⟩⟩
  split at e
  · cases e; simp
  rename_i g' hre
  have hs' : g'.isStream = true := by rw [(rearm_some hre).2.2.2.2.1]; exact hs
  step_leaves e
  all_goals (try (simp_all [list_set_get]; done))
  · rename_i hx
    have hne : ∀ b, recvRes b .none s ≠ .streamEnd := by intro b; cases b <;> simp [recvRes]
    exact ⟨fun er h => hx er h, fun h => absurd h (hne _)⟩

/-- **C16 (stream re-arms between items).** In every reachable state a listed stream future has a
    pending signal and an empty slot: the previous item's final state never leaks into the next wait
    (this is what defect D3 violated). -/
theorem c16_stream_rearmed (s : State) (hr : Reach Variant.good s) (f : Nat) (hf : f ∈ s.chan.waitList) :
    ∃ g, s.sigs[f]? = some g ∧ g.st = .pending ∧ g.claimed = false ∧ (g.role = .recv → g.slot = none) := by
  obtain ⟨g, hg, hl⟩ := (reach_struct s hr).listed f hf
  exact ⟨g, hg, hl.pending, hl.unclaimed, hl.recvSlot⟩

/-- The defects this property caught: D3 (stale value from the stream) and D4 (stale waker). -/
theorem c16_stream_stale_d3 :
    (run vD3 (State.init (some 0)) d3Labels).map (fun p => (p.2, p.1.recvd)) =
      some ([.num 0, .pending, .bool true, .unit, .val 1, .pending, .val 1], [1, 1]) := d3_twice

theorem c16_fails_without_send_refresh :
    ∃ s rs, run { Variant.good with sendRefresh := false } (State.init (some 0))
      [.newSendFut 1, .pollSend 0 0, .pollSend 0 1, .tryRecv false, .finalize 0] = some (s, rs) ∧ s.wakes = [0] := by
  refine ⟨_, _, rfl, ?_⟩; decide

theorem c16_good_send_refresh :
    ∃ s rs, run Variant.good (State.init (some 0))
      [.newSendFut 1, .pollSend 0 0, .pollSend 0 1, .tryRecv false, .finalize 0] = some (s, rs) ∧ s.wakes = [1] := by
  refine ⟨_, _, rfl, ?_⟩; decide

theorem c16_this_tree : Generated.d3_stream_rearm = true ∧ Generated.d4_send_waker_refresh = true ∧
    Generated.d4_send_waker_refresh_under_lock = true ∧ Generated.d5_recv_waker_refresh = true ∧
    Generated.d5_recv_waker_refresh_under_lock = true ∧ Generated.wake_async_sequence = [.cloneWaker, .store, .wake] := by
  have := Tie.variant_good; have := Tie.signal_structure; simp_all

end Kanal.C16

#print axioms Kanal.C16.c16_spurious
#print axioms Kanal.C16.c16_pending_registers
#print axioms Kanal.C16.c16_pending_claimed_is_woken
#print axioms Kanal.C16.c16_pending_in_handoff_window
#print axioms Kanal.C16.c16_waker_stable
#print axioms Kanal.C16.c16_step_waker
#print axioms Kanal.C16.c16_finalize_wakes_registered
#print axioms Kanal.C16.c16_no_invention
#print axioms Kanal.C16.c16_repoll
#print axioms Kanal.C16.c16_stream_end
#print axioms Kanal.C16.c16_stream_rearmed
#print axioms Kanal.C16.c16_stream_stale_d3
#print axioms Kanal.C16.c16_fails_without_send_refresh
#print axioms Kanal.C16.c16_good_send_refresh
#print axioms Kanal.C16.c16_this_tree
