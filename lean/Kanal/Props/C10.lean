/-
  C10 — close is total, immediate and happens once.

  In the model `close()` is one critical section (`closeCS`: test, zero both counts, terminate
  every waiter, clear the buffer — `Tie.counts_ok` checks the source does it under one guard, in
  that order).  `closedOnce` records that a `close()` has succeeded.
-/
import Kanal.Lemmas.All
import Kanal.Lemmas.Stable
import Kanal.Props.C12
import Kanal.Tie

namespace Kanal.C10
open Kanal Chan State

/-- **C10 (once).** From any reachable state, `close()` called through a live handle succeeds iff
    no `close()` has succeeded before; afterwards the channel is marked closed for good. -/
theorem c10_once (v : Variant) (s : State) (h : Reach v s) (p : State × Res) (e : step v s .close = some p) :
    (s.closedOnce = false → p.2 = .unit ∧ p.1.closedOnce = true) ∧
    (s.closedOnce = true → p = (s, .err .closeErr)) := by
  have hc := countInv_reach v s h
  simp only [step] at e
  split at e
  · cases e
  · rename_i hlive
    unfold closeCS at e
    constructor
    · intro ho
      have := hc.1 ho
      have hne : ¬(s.chan.recvCount == 0 && s.chan.sendCount == 0) = true := by
        simp [this.1, this.2]; omega
      simp [hne] at e; subst e
      simp [dropMsgs_core]
    · intro ho
      have := hc.2 ho
      simp [this.1, this.2] at e; exact e.symm

/-- **C10 (releases every waiter, destroys the buffer).** By the time the successful `close()`
    returns: the wait list is empty, every operation that was blocked or pending has its signal in
    the terminated state (and was woken), the buffer is empty and each buffered value has been destroyed. -/
theorem c10_releases (v : Variant) (s : State) (p : State × Res) (e : step v s .close = some p) (hok : p.2 = .unit) :
    p.1.chan.waitList = [] ∧ p.1.chan.queue = [] ∧ p.1.chan.sendCount = 0 ∧ p.1.chan.recvCount = 0 ∧
    (∀ i ∈ s.chan.waitList, ∀ g, s.sigs[i]? = some g → p.1.sigs[i]? = some { g with st := .term }) ∧
    (∀ m ∈ s.chan.queue, m ∈ p.1.dropped) := by
  simp only [step] at e
  split at e
  · cases e
  · split at e
    · cases e; simp at hok
    · rename_i c1 l q heq
      cases e
      unfold closeCS at heq
      split at heq
      · cases heq
      · simp at heq; obtain ⟨rfl, rfl, rfl⟩ := heq
        refine ⟨by simp, by simp, by simp, by simp, ?_, ?_⟩
        · intro i hi g hg
          simp [terminateList_get, hi, hg]
        · intro m hm
          have : ∀ (ms : List Msg) (t : State), (t.dropMsgs ms).dropped = t.dropped ++ ms := by
            intro ms; unfold dropMsgs
            induction ms with
            | nil => intro t; simp
            | cons a l ih => intro t; simp [List.foldl, ih, dropMsg]
          simp [this, hm]

/-- What every entry point answers on a closed channel. -/
theorem closed_send (c : Chan) (m : Msg) (h0 : c.recvCount = 0) (h1 : c.sendCount = 0) :
    c.sendPre m = (c, .errClosed) := by simp [sendPre, h0, h1]

theorem closed_recv (c : Chan) (f : SigId → Msg) (t e : Bool) (h0 : c.recvCount = 0) :
    c.recvPre f t e = (c, .errClosed) := by simp [recvPre, h0]

/-- **C10 (afterwards everything fails with `Closed`).** Once a `close()` has succeeded, every
    send of either flavour fails with the closed error and hands its value back or destroys it
    once; every receive, try-receive and drain fails with the closed error; a future polled for
    the first time completes with the error; the counts read zero and `is_closed()` is true. -/
theorem c10_after (v : Variant) (s : State) (h : Reach v s) (hc : s.closedOnce = true) :
    (∀ m kind opt p, step v s (.send m kind opt) = some p → p.2 = .err .closed) ∧
    (∀ m opt rt p, step v s (.trySend m opt rt) = some p → p.2 = .err .closed) ∧
    (∀ kind ex p, step v s (.recv kind ex) = some p → p.2 = .err .closed ∧ p.1 = s) ∧
    (∀ rt p, step v s (.tryRecv rt) = some p → p.2 = .err .closed ∧ p.1 = s) ∧
    (∀ p, step v s .drain = some p → p = (s, .err .closed)) ∧
    (∀ p, step v s .senderCount = some p → p.2 = .num 0) ∧
    (∀ p, step v s .receiverCount = some p → p.2 = .num 0) ∧
    (∀ p, step v s .isClosed = some p → p.2 = .bool true) := by
  obtain ⟨hs0, hr0⟩ := (countInv_reach v s h).2 hc
  refine ⟨?_, ?_, ?_, ?_, ?_, ?_, ?_, ?_⟩
  · intro m kind opt p e
    simp only [step] at e
    split at e
    · cases e
    · cases e; simp [sendStep, closed_send _ m hr0 hs0]
  · intro m opt rt p e
    simp only [step] at e
    split at e
    · cases e
    · simp [sendStep, closed_send _ m hr0 hs0] at e; subst e; rfl
  · intro kind ex p e
    simp only [step] at e
    split at e
    · cases e
    · simp [recvStep, closed_recv _ _ _ _ hr0, recvRes] at e; subst e; exact ⟨rfl, rfl⟩
  · intro rt p e
    simp only [step] at e
    split at e
    · cases e
    · simp [recvStep, closed_recv _ _ _ _ hr0, recvRes] at e; subst e; exact ⟨rfl, rfl⟩
  · intro p e
    simp only [step] at e
    split at e
    · cases e
    · simp [drainCS, hr0] at e; exact e.symm
  · intro p e; simp only [step] at e; split at e <;> cases e; simp [hs0]
  · intro p e; simp only [step] at e; split at e <;> cases e; simp [hr0]
  · intro p e; simp only [step] at e; split at e <;> cases e; simp [Chan.closed, hs0, hr0]

/-- A future polled for the first time on a closed channel completes with the error and its value is destroyed. -/
theorem c10_after_futures (v : Variant) (s : State) (h : Reach v s) (hc : s.closedOnce = true) :
    (∀ f w p g, step v s (.pollSend f w) = some p → s.sigs[f]? = some g → g.fut = .zero → p.2 = .err .closed) ∧
    (∀ f w p g, step v s (.pollRecv f w) = some p → s.sigs[f]? = some g → g.fut = .zero →
        p.2 = .err .closed ∨ p.2 = .streamEnd) := by
  obtain ⟨hs0, hr0⟩ := (countInv_reach v s h).2 hc
  constructor
  · intro f w p g e hg hz
    simp only [step, hg] at e
    split at e
    · cases e
    · simp only [hz] at e
      split at e
      · cases e
      · rename_i m hm
        simp [closed_send _ m hr0 hs0] at e; subst e; rfl
  · intro f w p g e hg hz
    simp only [step, hg] at e
    split at e
    · cases e
    · split at e
      · cases e; right; rfl
      · have hre : rearm v g = some g := by simp [rearm, hz]
        simp only [hre, hz] at e
        simp [recvStep, closed_recv _ _ _ _ hr0, recvRes] at e
        split at e <;> cases e <;> simp

/-- **C10 (no delivery afterwards).** Once closed, no step delivers a value: the delivery log never grows again. -/
theorem c10_no_delivery_after (v : Variant) (s : State) (h : Reach v s) (hc : s.closedOnce = true)
    (l : Label) (p : State × Res) (e : step v s l = some p) : p.1.delivered = s.delivered := by
  obtain ⟨hs0, hr0⟩ := (countInv_reach v s h).2 hc
  cases l <;> simp only [step] at e
  case send m kind opt => step_leaves e; simp [sendStep, closed_send _ m hr0 hs0]
  case trySend m opt rt => simp [sendStep, closed_send _ m hr0 hs0] at e; obtain ⟨-, rfl⟩ := e; simp
  case recv kind ex => simp [recvStep, closed_recv _ _ _ _ hr0, recvRes] at e; obtain ⟨-, rfl⟩ := e; rfl
  case tryRecv rt => simp [recvStep, closed_recv _ _ _ _ hr0, recvRes] at e; obtain ⟨-, rfl⟩ := e; rfl
  case drain => simp [drainCS, hr0] at e; obtain ⟨-, rfl⟩ := e; rfl
  case pollSend f w =>
    step_leaves e
    all_goals first
      | rfl
      | (simp; done)
      | (rename_i heq; rename_i m _; simp [closed_send _ _ hr0 hs0] at heq)
      | (simp_all [closed_send _ _ hr0 hs0])
  case pollRecv f w =>
    simp only [recvStep, closed_recv _ _ _ _ hr0, recvRes] at e
    step_leaves e
    all_goals first
      | rfl
      | (simp; done)
      | (split <;> simp)
  case clone side => cases side <;> simp only at e <;> step_leaves e <;> simp
  case dropHandle side => cases side <;> simp only at e <;> step_leaves e <;> simp
  case convert side => cases side <;> simp only at e <;> step_leaves e <;> rfl
  case isDisconnected side => cases side <;> simp only at e <;> step_leaves e <;> rfl
  all_goals (step_leaves e <;> first | rfl | (simp; done))

theorem c10_this_tree : Generated.close_sequence = [.test, .zeroR, .zeroS, .terminate, .clear] ∧
    Generated.close_single_guard = 1 := by
  have := Tie.counts_ok; simp_all

/-- Non-vacuity: a buffered value, a pending receive future — after close: waiter terminated & woken, value destroyed, later send fails. -/
example : ∃ s rs, run Variant.good (State.init (some 1))
    [.newRecvFut false, .pollRecv 0 7, .close, .close, .send 2 .sync false, .pollRecv 0 7] = some (s, rs) ∧
    rs = [.num 0, .pending, .unit, .err .closeErr, .err .closed, .err .closed] ∧ s.wakes = [7] ∧ s.dropped = [2] := by
  refine ⟨_, _, rfl, ?_, ?_, ?_⟩ <;> decide

end Kanal.C10

#print axioms Kanal.C10.c10_once
#print axioms Kanal.C10.c10_releases
#print axioms Kanal.C10.c10_after
#print axioms Kanal.C10.c10_after_futures
#print axioms Kanal.C10.c10_no_delivery_after
#print axioms Kanal.C10.c10_this_tree
