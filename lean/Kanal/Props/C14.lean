/-
  C14 — non-blocking operations never wait and tell the truth.

  `try_send*`, `try_recv*`, `drain_into` are single critical sections in the model
  (`Label.trySend`, `Label.tryRecv`, `Label.drain`).  The `*_realtime` variants differ only
  in how they obtain the lock: one `try_lock` attempt (`MutexM`, `c17_try_never_waits`); if
  it fails they answer "not done" without having touched the channel (`Tie.realtime_ok`).
-/
import Kanal.Lemmas.All
import Kanal.Lemmas.Stable
import Kanal.Props.C05
import Kanal.Props.C17
import Kanal.Tie

namespace Kanal.C14
open Kanal Chan State

/-- Equality of channel states up to the lazily maintained `recv_blocking` flag, which only
    means something while the wait list is non-empty. -/
def FlagEq (c c' : Chan) : Prop :=
  c'.queue = c.queue ∧ c'.waitList = c.waitList ∧ c'.capacity = c.capacity ∧
  c'.recvCount = c.recvCount ∧ c'.sendCount = c.sendCount ∧
  (c.waitList ≠ [] → c'.recvBlocking = c.recvBlocking)

theorem FlagEq.refl (c : Chan) : FlagEq c c := ⟨rfl, rfl, rfl, rfl, rfl, fun _ => rfl⟩

/-! Signal-level primitives never create or delete a waiter record. -/

theorem finalize_len (s : State) (i : SigId) (o : SigSt) : (s.finalize i o).sigs.length = s.sigs.length := by
  unfold finalize; split
  · rfl
  · split <;> simp

theorem deliverTo_len (s : State) (i : SigId) (m : Msg) : (s.deliverTo i m).sigs.length = s.sigs.length := by
  unfold deliverTo; split <;> simp

theorem claimFrom_len (s : State) (i : SigId) : (s.claimFrom i).sigs.length = s.sigs.length := by
  unfold claimFrom; split <;> simp

theorem takeFrom_len (s : State) (i : SigId) : (s.takeFrom i).sigs.length = s.sigs.length := by
  unfold takeFrom; split
  · rfl
  · rw [finalize_len]; simp

theorem foldl_takeFrom_len (l : List SigId) (s : State) : (l.foldl takeFrom s).sigs.length = s.sigs.length := by
  induction l generalizing s with
  | nil => rfl
  | cons i l ih => simp only [List.foldl]; rw [ih, takeFrom_len]

theorem foldl_giveR_sigs (ms : List Msg) (s : State) : (ms.foldl giveR s).sigs = s.sigs := by
  induction ms generalizing s with
  | nil => rfl
  | cons m l ih => simp only [List.foldl]; rw [ih]; rfl

theorem failBack_sigs (s : State) (m : Msg) (o : Bool) : (s.failBack m o).sigs = s.sigs := by
  unfold failBack; split <;> rfl

/-- A critical section that only pops leaves a wait list contained in the old one. -/
theorem pops_sub {c c1 : Chan} {l : List SigId} (h : Pops c c1 l) : ∀ i ∈ c1.waitList, i ∈ c.waitList := by
  intro i hi; rw [h.wl]; simp [hi]

/-- What a refused-or-not `try_send` body does to the waiter table and the wait list. -/
theorem sendStep_none_shape (s : State) (m : Msg) (opt : Bool) :
    (∀ i, (sendStep s m opt none).2 ≠ .blocked i) ∧
    (sendStep s m opt none).1.sigs.length = s.sigs.length ∧
    (∀ i ∈ (sendStep s m opt none).1.chan.waitList, i ∈ s.chan.waitList) := by
  unfold sendStep
  simp only
  split <;> rename_i heq
  all_goals have hp := pops_sub (sendPre_pops heq).1
  all_goals simp [deliverTo_len]
  all_goals first | exact hp | skip

/-- The shared receive body registers nobody. -/
theorem recvStep_shape (s : State) (t e : Bool) :
    (recvStep s t e).1.sigs.length = s.sigs.length ∧
    (∀ i ∈ (recvStep s t e).1.chan.waitList, i ∈ s.chan.waitList) := by
  unfold recvStep
  split <;> rename_i heq
  all_goals have hp := pops_sub (recvPre_pops heq).1
  · split <;> simp [takeFrom_len] <;> exact hp
  · simp [claimFrom_len]; exact hp
  · simp; exact hp

theorem recvRes_not_blocked (b : RecvBranch) (s : State) (i : SigId) : recvRes b .none s ≠ .blocked i := by
  cases b <;> simp [recvRes]

/-- **C14 (never waits).** A non-blocking call never answers `blocked`, never registers a waiter
    (no new signal, nobody added to the wait list) and is one step. -/
theorem c14_never_waits (v : Variant) (s : State) (p : State × Res) :
    (∀ m opt rt, step v s (.trySend m opt rt) = some p →
        (∀ i, p.2 ≠ .blocked i) ∧ p.1.sigs.length = s.sigs.length ∧ (∀ i ∈ p.1.chan.waitList, i ∈ s.chan.waitList)) ∧
    (∀ rt, step v s (.tryRecv rt) = some p →
        (∀ i, p.2 ≠ .blocked i) ∧ p.1.sigs.length = s.sigs.length ∧ (∀ i ∈ p.1.chan.waitList, i ∈ s.chan.waitList)) ∧
    (step v s .drain = some p →
        (∀ i, p.2 ≠ .blocked i) ∧ p.1.sigs.length = s.sigs.length ∧ (∀ i ∈ p.1.chan.waitList, i ∈ s.chan.waitList)) := by
  refine ⟨?_, ?_, ?_⟩
  · intro m opt rt e
    simp only [step] at e
    have := sendStep_none_shape s m opt
    step_leaves e
    · rename_i heq; rw [heq] at this; exact ⟨by simp, this.2⟩
    · exact this
  · intro rt e
    simp only [step] at e
    step_leaves e
    exact ⟨fun i => recvRes_not_blocked _ _ i, recvStep_shape s false false⟩
  · intro e
    simp only [step] at e
    step_leaves e
    · exact ⟨by simp, rfl, fun _ h => h⟩
    · rename_i heq
      have hp := pops_sub (drainCS_pops heq).1
      refine ⟨by simp, ?_, by simpa using hp⟩
      simp only [foldl_takeFrom_len]
      rw [foldl_giveR_sigs]

/-- A send critical section that answers `full` leaves the channel as it was, up to the stale flag
    of an empty wait list. -/
theorem sendPre_full_flagEq {c c1 : Chan} {m : Msg} (h : c.sendPre m = (c1, .full)) : FlagEq c c1 := by
  unfold sendPre at h
  split at h
  · split at h <;> cases h
  · split at h
    · cases h
    · rename_i c2 heq
      obtain ⟨-, h2, h3, h4, h5, h6, h7⟩ := nextRecv_none heq
      split at h <;> cases h
      cases hb : c.recvBlocking
      · rw [h6 hb]; exact FlagEq.refl c
      · obtain ⟨h8, h9⟩ := h7 hb
        exact ⟨h2, by rw [h8, h9], h3, h4, h5, fun hne => absurd h8 hne⟩

/-- **C14 (a refused `try_send` leaves the channel unchanged).** When `try_send*` answers `false`
    the channel state is what it was (up to the stale flag of an empty wait list), no waiter was
    touched, and the value is back with the caller or destroyed once (`c05_try_option`). -/
theorem c14_refused_unchanged (v : Variant) (s : State) (m : Msg) (opt rt : Bool) (p : State × Res)
    (e : step v s (.trySend m opt rt) = some p) (hf : p.2 = .bool false) :
    FlagEq s.chan p.1.chan ∧ p.1.sigs = s.sigs ∧ p.1.recvd = s.recvd ∧ p.1.delivered = s.delivered ∧
    p.1.accepted = s.accepted := by
  simp only [step] at e
  split at e
  · cases e
  unfold sendStep at e
  simp only at e
  generalize hq : s.chan.sendPre m = q at e
  obtain ⟨c1, b⟩ := q
  cases b <;> simp at e <;> subst e <;> simp at hf
  refine ⟨by simpa using sendPre_full_flagEq hq, failBack_sigs _ _ _, by simp, by simp, by simp⟩


/-- A receive critical section that takes nothing leaves the channel as it was, up to the stale
    flag of an empty wait list; and a non-timed one never answers `timeout`. -/
theorem recvPre_nothing {c c1 : Chan} {f : SigId → Msg} {b : RecvBranch}
    (h : c.recvPre f false false = (c1, b)) :
    (b = .errClosed ∨ b = .errSendClosed ∨ b = .empty → FlagEq c c1) ∧ b ≠ .timeout := by
  unfold recvPre at h
  split at h
  · cases h; exact ⟨fun _ => FlagEq.refl c, by simp⟩
  · split at h
    · split at h <;> cases h <;> simp
    · split at h
      · cases h; simp
      · rename_i c2 heq
        obtain ⟨-, h2, h3, h4, h5, h6, h7⟩ := nextSend_none heq
        have hfe : FlagEq c c2 := by
          cases hb : c.recvBlocking
          · obtain ⟨h8, h9⟩ := h7 hb
            exact ⟨h2, by rw [h8, h9], h3, h4, h5, fun hne => absurd h8 hne⟩
          · rw [h6 hb]; exact FlagEq.refl c
        simp only [Bool.false_and, Bool.false_eq_true, ↓reduceIte] at h
        split at h <;> cases h <;> exact ⟨fun _ => hfe, by simp⟩

/-- **C14 (`try_recv` reports a value exactly when one was taken).** `Some(m)`: `m` left the
    channel in this very step and is now the caller's; `None` / error: nothing was taken, the
    channel is unchanged up to the stale flag. -/
theorem c14_recv_truth (v : Variant) (s : State) (rt : Bool) (p : State × Res)
    (e : step v s (.tryRecv rt) = some p) :
    (∀ m, p.2 = .val m → p.1.recvd = s.recvd ++ [m] ∧ p.1.delivered = s.delivered ++ [m]) ∧
    ((∀ m, p.2 ≠ .val m) → FlagEq s.chan p.1.chan ∧ p.1.sigs = s.sigs ∧ p.1.recvd = s.recvd ∧
        p.1.delivered = s.delivered ∧ (p.2 = .none ∨ p.2 = .err .closed ∨ p.2 = .err .sendClosed)) := by
  simp only [step] at e
  split at e
  · cases e
  cases e
  unfold recvStep
  split <;> rename_i heq
  · split <;> simp [recvRes]
  · simp [recvRes]
  · rename_i c1 b hnq hns
    obtain ⟨hfe, hnt⟩ := recvPre_nothing heq
    cases b <;> simp [recvRes] at hnq hns hnt hfe ⊢
    all_goals exact hfe

/-- What the shared send body (without registration) does to the acceptance log. -/
theorem sendStep_none_accepted (s : State) (m : Msg) (opt : Bool) :
    ((sendStep s m opt none).2 = .unit → m ∈ (sendStep s m opt none).1.accepted) ∧
    ((sendStep s m opt none).2 ≠ .unit → (sendStep s m opt none).1.accepted = s.accepted) := by
  unfold sendStep
  simp only
  split <;> simp

/-- **C14 (`try_send` reports success exactly when the value moved).** -/
theorem c14_send_truth (s : State) (hr : Reach Variant.good s) (m : Msg) (opt rt : Bool) (p : State × Res)
    (e : step Variant.good s (.trySend m opt rt) = some p) :
    (p.2 = .bool true ↔ (p.1.cust m = .queued ∨ ∃ i, p.1.cust m = .slot i)) ∧
    (p.2 = .bool true → m ∈ p.1.accepted) ∧ (p.2 ≠ .bool true → m ∉ p.1.accepted ∨ m ∈ s.accepted) := by
  simp only [step] at e
  split at e
  · cases e
  rename_i hn
  have hf : s.cust m = .fresh := by
    by_cases hf : s.cust m = .fresh
    · exact hf
    · exact absurd (Or.inr hf) hn
  have ho := C05.sendStep_outcome s m opt none (reach_struct s hr) hf
  have hacc := sendStep_none_accepted s m opt
  have hnb := (sendStep_none_shape s m opt).1
  generalize hq : sendStep s m opt none = q at ho e hacc hnb
  obtain ⟨s1, r⟩ := q
  simp only at ho hacc
  have hem : m ∉ s.accepted ∨ m ∈ s.accepted := (Decidable.em _).symm
  cases r <;> simp at e <;> subst e <;> simp_all
  all_goals (obtain ⟨h1, h2⟩ := ho; have := h1 h2; cases opt <;> simp_all)

/-- **C14 (realtime: one lock attempt, bounded).** In the lock model a `try_lock()` is a single
    step ending inside the critical section or in `gaveUp` — whatever the other threads are doing,
    including a holder that never moves again; and (extracted) exactly the `*_realtime` entry
    points use it and fall through to `Ok(false)` / `Ok(None)` when it fails. -/
theorem c14_realtime (o : MutexM.Ords) (k : MutexM.Consts) (par1 : Bool) (s s' : MutexM.State) (t : Nat)
    (hp : s.pc t = .tryOnce) (hs : MutexM.step o k par1 s (.cas t) = some s') :
    (s'.pc t = .inCS ∨ s'.pc t = .gaveUp) ∧ (s.locked = true → s'.pc t = .gaveUp ∧ s'.locked = s.locked ∧ s'.perm = s.perm) ∧
    Generated.lock_acquisition.map (·.2) = [some false, some false, some false, some false, some false, some true, some true, some false] ∧
    Generated.recv_lock_acquisition.map (·.2) = [some false, some false, some false, some true, some false, some false] := by
  refine ⟨C17.c17_try_never_waits o k par1 s s' t hp hs, ?_, Tie.lock_acquisition_ok.1, Tie.lock_acquisition_ok.2⟩
  intro hl
  simp only [MutexM.step, hp] at hs
  cases hs
  simp [hl, MutexM.upd]

/-- Non-vacuity: capacity 1 full: refused try_send leaves everything, try_recv takes the head. -/
example : ∃ s rs, run Variant.good (State.init (some 1))
    [.send 1 .sync false, .trySend 2 true false, .tryRecv false, .tryRecv false] = some (s, rs) ∧
    rs = [.unit, .bool false, .val 1, .none] ∧ s.cust 2 = .callerS ∧ s.recvd = [1] := by
  refine ⟨_, _, rfl, ?_, ?_, ?_⟩ <;> decide

end Kanal.C14

#print axioms Kanal.C14.c14_never_waits
#print axioms Kanal.C14.c14_refused_unchanged
#print axioms Kanal.C14.c14_send_truth
#print axioms Kanal.C14.c14_recv_truth
#print axioms Kanal.C14.c14_realtime
