/-
  C19 — drain_into takes everything available, in order, and reports it exactly.

  `chanOrder s` is what is available at that instant: the buffer, then the
  values of all blocked or pending senders, oldest first.
-/
import Kanal.Lemmas.Sigs
import Kanal.Lemmas.ChanInv
import Kanal.Lemmas.Reach

namespace Kanal.C19
open Kanal Chan State

/-- The blocked / pending senders, oldest first (empty when the list holds receivers). -/
def sendWaiters (c : Chan) : List SigId := if c.recvBlocking then [] else c.waitList

/-- Everything a receiver could take right now, in delivery order. -/
def chanOrder (s : State) : List Msg := s.chan.queue ++ (sendWaiters s.chan).map s.slotMsg

/-- **C19 (content, order, count).** On an open channel `drain_into` appends exactly
    `chanOrder` — buffer first, then every blocked sender's value, oldest first — and the
    count it returns (computed separately in the source, before the loops) is exactly the
    number appended.  Afterwards the buffer is empty and no sender is left waiting. -/
theorem c19_drain (v : Variant) (s : State) (p : State × Res)
    (hr : s.chan.recvCount ≠ 0) (e : step v s .drain = some p) :
    p.2 = .drained (chanOrder s).length (chanOrder s) ∧
    p.1.chan.queue = [] ∧ sendWaiters p.1.chan = [] := by
  simp only [step] at e
  split at e
  · cases e
  · unfold drainCS popAllSenders at e
    simp only [beq_iff_eq, hr, if_false] at e
    by_cases hb : s.chan.recvBlocking = true
    · simp [hb] at e; cases e
      simp [chanOrder, sendWaiters, hb]
    · simp [hb] at e; cases e
      simp [chanOrder, sendWaiters, hb]

/-- **C19 (senders released with success).** Every sender whose value was taken is released
    with success (its signal is finalised `ok`, its slot emptied); nobody else is touched. -/
theorem c19_releases (v : Variant) (s : State) (p : State × Res)
    (hr : s.chan.recvCount ≠ 0) (e : step v s .drain = some p) (j : SigId) :
    p.1.sigs[j]? = if j ∈ sendWaiters s.chan
      then (s.sigs[j]?).map (fun g => { g with slot := none, st := .ok }) else s.sigs[j]? := by
  simp only [step] at e
  split at e
  · cases e
  · unfold drainCS popAllSenders at e
    simp only [beq_iff_eq, hr, if_false] at e
    by_cases hb : s.chan.recvBlocking = true
    · simp [hb] at e; cases e
      simp [sendWaiters, hb]
    · simp [hb] at e; cases e
      simp [sendWaiters, hb, foldl_takeFrom_get]

/-- **C19 (closed).** On a closed channel (no receive count) `drain_into` fails and takes nothing. -/
theorem c19_closed (v : Variant) (s : State) (p : State × Res)
    (hr : s.chan.recvCount = 0) (e : step v s .drain = some p) :
    p = (s, .err .closed) := by
  simp only [step] at e
  split at e
  · cases e
  · unfold drainCS at e
    simp [hr] at e; exact e.symm

/-- **C19 (receivers waiting).** When the wait list holds receivers the buffer is empty, so nothing is taken. -/
theorem c19_receivers_waiting (s : State) (hi : s.chan.Inv) (hb : s.chan.recvBlocking = true)
    (hw : s.chan.waitList ≠ []) : chanOrder s = [] := by
  simp [chanOrder, sendWaiters, hb, hi.recvWait hw hb]

/-- **C19 (never blocks).** `drain_into` is a single critical section: it never registers a
    waiter and never answers `blocked`. -/
theorem c19_nonblocking (v : Variant) (s : State) (p : State × Res) (e : step v s .drain = some p) :
    (∀ i, p.2 ≠ .blocked i) ∧ p.1.sigs.length = s.sigs.length := by
  simp only [step] at e
  split at e
  · cases e
  · split at e <;> cases e
    · simp
    · constructor
      · intro i; simp
      · have h1 : ∀ (l : List SigId) (t : State), (l.foldl takeFrom t).sigs.length = t.sigs.length := by
          intro l; induction l with
          | nil => intro t; rfl
          | cons a l ih =>
            intro t; simp only [List.foldl]; rw [ih]
            unfold takeFrom; split
            · rfl
            · unfold finalize; simp only [setSig_get]; split <;> simp
              split <;> simp [setSig]
        have h2 : ∀ (l : List Msg) (t : State), (l.foldl giveR t).sigs.length = t.sigs.length := by
          intro l; induction l with
          | nil => intro t; rfl
          | cons a l ih => intro t; simp only [List.foldl]; rw [ih]; rfl
        simp [h1, h2]

/-- Non-vacuity: capacity 1, one buffered value and one pending async sender; drain returns both in order. -/
example : ∃ s rs, run Variant.good (State.init (some 1))
      [.send 5 .sync false, .newSendFut 6, .pollSend 0 0, .drain] = some (s, rs) ∧
    rs = [.unit, .num 0, .pending, .drained 2 [5, 6]] ∧ s.wakes = [0] := by
  refine ⟨_, _, rfl, ?_, ?_⟩ <;> decide

end Kanal.C19

#print axioms Kanal.C19.c19_drain
#print axioms Kanal.C19.c19_releases
#print axioms Kanal.C19.c19_closed
#print axioms Kanal.C19.c19_receivers_waiting
#print axioms Kanal.C19.c19_nonblocking
