/-
  C02 — FIFO: messages are delivered in the order the channel accepted them.

  `accepted` is the ghost log of acceptance points (the step inside a send call at which its
  value entered the buffer, was registered as a blocked/pending sender, or was handed to a
  waiting receiver); `delivered` the log of the steps at which receive operations took values.
  Each such step lies inside the real-time interval of its call, so "send a returned or was
  already blocked/pending before send b began" implies `a` precedes `b` in `accepted`, and
  "the receive of b completed before the receive of a began" would imply `b` precedes `a` in
  `delivered`.  The theorems below exclude exactly that, for every reachable state of the
  model: all capacities, any mix of buffered, blocked and directly handed-off sends, with
  timed-out / cancelled / closed-away entries (`removed`) taken out of the middle.
-/
import Kanal.Lemmas.All
import Kanal.Props.C19
import Kanal.Tie

namespace Kanal.C02
open Kanal

/-- **C02 (the FIFO invariant).** What was accepted and not withdrawn is — in acceptance order —
    what has been delivered, followed by the buffer, followed by the blocked senders' values in
    wait-list order. -/
theorem c02_fifo (s : State) (h : Reach Variant.good s) :
    s.accepted.filter (fun m => !s.removed.contains m) = s.delivered ++ chanOrder s ∧ s.accepted.Nodup :=
  ⟨(reach_fifo s h).order, (reach_fifo s h).acceptedNodup⟩

theorem pair_sublist_left {a b : Msg} {l1 l2 : List Msg} (hs : [a, b].Sublist (l1 ++ l2))
    (hb : b ∈ l1) (hd : (l1 ++ l2).Nodup) : [a, b].Sublist l1 := by
  rw [List.sublist_append_iff] at hs
  obtain ⟨s1, s2, he, h1, h2⟩ := hs
  have hdisj : ∀ x, x ∈ l1 → x ∈ l2 → False := by
    intro x hx1 hx2
    rw [List.nodup_append] at hd
    exact hd.2.2 x hx1 x hx2 rfl
  match s1, s2, he with
  | [], _, he => simp at he; subst he; exact absurd (h2.subset (by simp)) (fun h => hdisj b hb h)
  | [x], s2, he =>
    simp at he; obtain ⟨rfl, rfl⟩ := he
    exact absurd (h2.subset (by simp)) (fun h => hdisj b hb h)
  | [x, y], s2, he => simp at he; obtain ⟨rfl, rfl, rfl⟩ := he; exact h1
  | x :: y :: z :: r, s2, he => simp at he

/-- **C02 (delivery respects acceptance order).** If `a` was accepted before `b` and both have been
    delivered, `a` was delivered before `b` — across the buffer, the blocked-sender list and the
    refill of the buffer from blocked senders. -/
theorem c02_delivered_in_order (s : State) (h : Reach Variant.good s) (a b : Msg)
    (hab : [a, b].Sublist s.accepted) (ha : a ∈ s.delivered) (hb : b ∈ s.delivered) :
    [a, b].Sublist s.delivered := by
  obtain ⟨hord, hnd⟩ := c02_fifo s h
  have hf := (reach_fifo s h)
  have hna : (!s.removed.contains a) = true := by
    simp; intro hr; exact (hf.removedSub a hr).2.1 ha
  have hnb : (!s.removed.contains b) = true := by
    simp; intro hr; exact (hf.removedSub b hr).2.1 hb
  have h1 : ([a, b].filter (fun m => !s.removed.contains m)).Sublist (s.accepted.filter (fun m => !s.removed.contains m)) :=
    hab.filter _
  have h2 : [a, b].filter (fun m => !s.removed.contains m) = [a, b] := by
    rw [List.filter_cons_of_pos (by simpa using hna), List.filter_cons_of_pos (by simpa using hnb)]; rfl
  rw [h2, hord] at h1
  have hnd2 : (s.delivered ++ chanOrder s).Nodup := by
    rw [← hord]; exact hnd.filter _
  exact pair_sublist_left h1 hb hnd2

/-- **C02 (nothing overtakes).** A value still inside the channel was not accepted before a value
    that has already been delivered: no receive obtains the later value while the earlier one waits. -/
theorem c02_no_overtaking (s : State) (h : Reach Variant.good s) (a b : Msg)
    (hab : [a, b].Sublist s.accepted) (ha : a ∈ chanOrder s) (hb : b ∈ s.delivered) : False := by
  obtain ⟨hord, hnd⟩ := c02_fifo s h
  have hf := (reach_fifo s h)
  have hna : (!s.removed.contains a) = true := by
    simp; intro hr; exact (hf.removedSub a hr).2.2 ha
  have hnb : (!s.removed.contains b) = true := by
    simp; intro hr; exact (hf.removedSub b hr).2.1 hb
  have h1 : ([a, b].filter (fun m => !s.removed.contains m)).Sublist (s.accepted.filter (fun m => !s.removed.contains m)) :=
    hab.filter _
  have h2 : [a, b].filter (fun m => !s.removed.contains m) = [a, b] := by
    rw [List.filter_cons_of_pos (by simpa using hna), List.filter_cons_of_pos (by simpa using hnb)]; rfl
  rw [h2, hord] at h1
  have hnd2 : (s.delivered ++ chanOrder s).Nodup := by
    rw [← hord]; exact hnd.filter _
  have := pair_sublist_left h1 hb hnd2
  have ha' : a ∈ s.delivered := this.subset (by simp)
  rw [List.nodup_append] at hnd2
  exact hnd2.2.2 a ha' a ha rfl

/-- **C02 (the inside of the channel is in acceptance order too).** Buffer, then blocked senders:
    the order in which a single drain (C19: `c19_drain` returns exactly `chanOrder`) hands them out. -/
theorem c02_inside_in_order (s : State) (h : Reach Variant.good s) (a b : Msg)
    (hab : [a, b].Sublist (chanOrder s)) : [a, b].Sublist s.accepted := by
  obtain ⟨hord, -⟩ := c02_fifo s h
  have h1 : [a, b].Sublist (s.delivered ++ chanOrder s) := hab.trans (List.sublist_append_right _ _)
  rw [← hord] at h1
  exact h1.trans (List.filter_sublist)

/-- The wait-list / buffer discipline in the source is the one the model has: pop at the front,
    push at the back, cancel by `remove(i)`, refill by `push_back`. -/
theorem c02_this_tree : Generated.next_send_shape = true ∧ Generated.push_send_back = true ∧
    Generated.cancel_send_signal_remove = true ∧ Generated.refill_push_back = 5 ∧
    Generated.queue_pop_back_sites = 0 ∧ Generated.queue_push_front_sites = 0 := by
  have := Tie.list_discipline_ok; simp_all

/-- Non-vacuity: capacity 1, three sends (one buffered, two pending), the middle one cancelled,
    one receive with refill: the order invariant holds with a non-trivial `removed`. -/
example : ∃ s rs, run Variant.good (State.init (some 1))
    [.send 1 .sync false, .newSendFut 2, .pollSend 0 0, .newSendFut 3, .pollSend 1 0, .dropSendFut 0, .tryRecv false] = some (s, rs) ∧
    s.accepted = [1, 2, 3] ∧ s.removed = [2] ∧ s.delivered = [1] ∧ chanOrder s = [3] := by
  refine ⟨_, _, rfl, ?_, ?_, ?_, ?_⟩ <;> decide

end Kanal.C02

#print axioms Kanal.C02.c02_fifo
#print axioms Kanal.C02.c02_delivered_in_order
#print axioms Kanal.C02.c02_no_overtaking
#print axioms Kanal.C02.c02_inside_in_order
#print axioms Kanal.C02.c02_this_tree
