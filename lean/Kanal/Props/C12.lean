/-
  C12 — handle counts equal the number of live handles.

  `liveS` / `liveR` is the ghost ledger of live handles, maintained only by the
  clone / drop labels (`clone`, `clone_sync`, `clone_async` all map to `.clone`;
  `to_*` / `as_*` map to `.convert`, which touches nothing).  The theorems say the
  counters the code keeps agree with that ledger on an open channel, whatever
  else happens, and that a closed channel reads zero for ever.

  [partial] counts are `Nat`: the `u32` wrap at 2^32 simultaneously live handles
  is outside the model.
-/
import Kanal.Lemmas.Counts
import Kanal.Lemmas.Reach

namespace Kanal.C12
open Kanal Chan State

/-- **C12 (counts).** In every reachable state of an open channel the counters the
    code keeps equal the number of live handles of each side; on a closed channel both are zero. -/
theorem c12_counts (v : Variant) (s : State) (h : Reach v s) : CountInv s :=
  countInv_reach v s h

/-- What the observers return: `sender_count()` / `receiver_count()` are the ledger on an open channel. -/
theorem c12_observed (v : Variant) (s : State) (h : Reach v s) (ho : s.closedOnce = false) :
    (∀ p, step v s .senderCount = some p → p.2 = .num s.liveS) ∧
    (∀ p, step v s .receiverCount = some p → p.2 = .num s.liveR) := by
  have hc := (c12_counts v s h).1 ho
  constructor <;> intro p e <;> simp only [step] at e <;> split at e <;> cases e <;> simp [hc.1, hc.2]

/-- **C12 (closed stays closed).** Once a `close()` has succeeded no step — cloning and
    dropping handles included — makes a counter non-zero again. -/
theorem c12_closed_stays (v : Variant) (s : State) (l : Label) (p : State × Res)
    (h : Reach v s) (hc : s.closedOnce = true) (e : step v s l = some p) :
    p.1.closedOnce = true ∧ p.1.chan.sendCount = 0 ∧ p.1.chan.recvCount = 0 := by
  have hinv := countInv_step (c12_counts v s h) e
  have hco : p.1.closedOnce = true := by
    by_cases hl : Label.isPlain l = true
    · rw [(step_quiet hl e).2.2.2]; exact hc
    · cases l <;> simp [Label.isPlain] at hl <;> simp only [step] at e
      case clone side => cases side <;> simp only at e <;> step_leaves e <;> simpa using hc
      case dropHandle side => cases side <;> simp only at e <;> step_leaves e <;> simpa using hc
      case close => step_leaves e <;> simp [hc]
  exact ⟨hco, hinv.2 hco⟩

/-- Conversions and borrowed views neither create nor destroy a handle. -/
theorem c12_convert (v : Variant) (s : State) (side : Side) (p : State × Res)
    (e : step v s (.convert side) = some p) : p.1 = s := by
  simp only [step] at e; cases side <;> simp only at e <;> step_leaves e <;> rfl

/-- Non-vacuity: clone, clone, drop on the send side of an open channel reads 2 live senders. -/
example : ∃ s rs, run Variant.good (State.init (some 1)) [.clone .send, .clone .send, .dropHandle .send, .senderCount] = some (s, rs)
    ∧ rs = [.unit, .unit, .unit, .num 2] ∧ s.liveS = 2 ∧ s.closedOnce = false := by
  refine ⟨_, _, rfl, ?_, ?_, ?_⟩ <;> decide

end Kanal.C12

#print axioms Kanal.C12.c12_counts
#print axioms Kanal.C12.c12_observed
#print axioms Kanal.C12.c12_closed_stays
#print axioms Kanal.C12.c12_convert
