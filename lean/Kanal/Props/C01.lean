/-
  C01 — exactly-once delivery: no message lost, duplicated or invented.

  The model is `Kanal.step` (every API call / critical section one atomic step, with the
  hand-off windows between a peer's critical section and its final store).  "Reachable"
  quantifies over every capacity (0, n, unbounded), every finite sequence of any enabled
  labels — i.e. every interleaving of any number of sync/async senders and receivers,
  blocking, timed, try_, drain, stream, close and drop — for the repaired tree
  (`Variant.good`, tied to the source by `Tie.variant_good`).  The size class of the message
  does not occur at this layer; C04 shows the hand-off copies every class faithfully.
-/
import Kanal.Lemmas.All
import Kanal.Tie

namespace Kanal.C01
open Kanal

/-- **C01 (no duplication, no invention).** The values returned to receiving callers are
    pairwise distinct, and each of them was supplied by some send. -/
theorem c01_received_once (s : State) (h : Reach Variant.good s) :
    s.recvd.Nodup ∧ ∀ m ∈ s.recvd, m ∈ s.offered := by
  obtain ⟨-, hl⟩ := reach_ledger s h
  refine ⟨hl.recvdNodup, fun m hm => ?_⟩
  have := (hl.recvdCust m).mp hm
  exact (hl.offeredCust m).mpr (by rw [this]; simp)

/-- Where a message supplied to a send is. -/
inductive Place (s : State) (m : Msg) : Prop where
  | queued    : s.cust m = .queued → m ∈ s.chan.queue → Place s m
  | inSlot (i : Nat) (g : Sig) : s.cust m = .slot i → s.sigs[i]? = some g → g.slot = some m → Place s m
  | received  : s.cust m = .callerR → m ∈ s.recvd → Place s m
  | destroyed : s.cust m = .gone → m ∈ s.dropped → Place s m
  | handedBack : s.cust m = .callerS → Place s m

/-- **C01 (nothing vanishes).** Every value ever passed to a send is, in every reachable state,
    in exactly one accounted place: the buffer, one waiter's slot (a blocked sender's, a pending
    send future's, or a receiver's it was delivered into), a receiving caller, destroyed, or
    handed back to its sender. -/
theorem c01_accounted (s : State) (h : Reach Variant.good s) (m : Msg) (hm : m ∈ s.offered) : Place s m := by
  obtain ⟨-, hl⟩ := reach_ledger s h
  have hne := (hl.offeredCust m).mp hm
  cases hc : s.cust m with
  | fresh => exact absurd hc hne
  | callerS => exact .handedBack hc
  | queued => exact .queued hc (hl.custQueue m hc)
  | slot i => obtain ⟨g, hg, hs⟩ := hl.custSlot m i hc; exact .inSlot i g hc hg hs
  | callerR => exact .received hc ((hl.recvdCust m).mpr hc)
  | gone => exact .destroyed hc ((hl.droppedCust m).mpr hc)
  | leaked => exact absurd hc (hl.noLeak m)

/-- **C01 (one place only).** The places are mutually exclusive: a value in the buffer is there
    once and in no slot, not received, not destroyed; a value in a slot is in that slot only; a
    received value was received once and is nowhere else. -/
theorem c01_exclusive (s : State) (h : Reach Variant.good s) (m : Msg) :
    s.chan.queue.Nodup ∧
    (m ∈ s.chan.queue → m ∉ s.recvd ∧ m ∉ s.dropped ∧ ∀ (i : Nat) (g : Sig), s.sigs[i]? = some g → g.slot ≠ some m) ∧
    (∀ (i j : Nat) (g g' : Sig), s.sigs[i]? = some g → s.sigs[j]? = some g' → g.slot = some m → g'.slot = some m → i = j) ∧
    (∀ (i : Nat) (g : Sig), s.sigs[i]? = some g → g.slot = some m → m ∉ s.recvd ∧ m ∉ s.dropped) ∧
    (m ∈ s.recvd → m ∉ s.dropped) := by
  obtain ⟨-, hl⟩ := reach_ledger s h
  refine ⟨hl.queueNodup, ?_, ?_, ?_, ?_⟩
  · intro hq
    have hc := hl.queueCust m hq
    refine ⟨fun hr => ?_, fun hd => ?_, fun i g hg hs => ?_⟩
    · have := (hl.recvdCust m).mp hr; rw [hc] at this; cases this
    · have := (hl.droppedCust m).mp hd; rw [hc] at this; cases this
    · have := hl.slotCust i g m hg hs; rw [hc] at this; cases this
  · intro i j g g' hg hg' hs hs'
    have h1 := hl.slotCust i g m hg hs
    have h2 := hl.slotCust j g' m hg' hs'
    rw [h1] at h2; cases h2; rfl
  · intro i g hg hs
    have hc := hl.slotCust i g m hg hs
    refine ⟨fun hr => ?_, fun hd => ?_⟩
    · have := (hl.recvdCust m).mp hr; rw [hc] at this; cases this
    · have := (hl.droppedCust m).mp hd; rw [hc] at this; cases this
  · intro hr hd
    have h1 := (hl.recvdCust m).mp hr
    have h2 := (hl.droppedCust m).mp hd
    rw [h1] at h2; cases h2

/-- The statement has teeth: in the defective variant D3 (stream not re-armed) a reachable state
    has the same value received twice, and in D1 (no drop on timeout) a value is leaked. -/
theorem c01_fails_d3 : ∃ s, Reach vD3 s ∧ ¬ Ledger s := d3_not_ledger
theorem c01_fails_d1 : ∃ s, Reach vD1 s ∧ ¬ Ledger s := d1_not_ledger

/-- The tree this run was built from has the repairs `Variant.good` stands for. -/
theorem c01_this_tree : Generated.d1_timeout_drops = true ∧ Generated.d2_option_value_in_maybeuninit = true ∧
    Generated.d3_stream_rearm = true := ⟨Tie.variant_good.1, Tie.variant_good.2.1, Tie.variant_good.2.2.1⟩

/-- Non-vacuity: a reachable state with one value buffered, one delivered and one in a blocked sender's slot. -/
example : ∃ s rs, run Variant.good (State.init (some 1))
    [.send 1 .sync false, .tryRecv false, .send 2 .sync false, .send 3 .sync false] = some (s, rs) ∧
    s.recvd = [1] ∧ s.chan.queue = [2] ∧ s.cust 3 = .slot 0 := by
  refine ⟨_, _, rfl, ?_, ?_, ?_⟩ <;> decide

end Kanal.C01

#print axioms Kanal.C01.c01_received_once
#print axioms Kanal.C01.c01_accounted
#print axioms Kanal.C01.c01_exclusive
#print axioms Kanal.C01.c01_fails_d3
#print axioms Kanal.C01.c01_fails_d1
#print axioms Kanal.C01.c01_this_tree
