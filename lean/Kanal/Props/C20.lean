/-
  C20 — handles and futures cross threads only when the message type may.

  `AutoTrait.verdict sendT syncT tr X` is the auto-trait solver model run on kanal's types as
  extracted from the source.  The quantifier "all message types `T`" collapses to the four
  valuations of (`T: Send`, `T: Sync`) because the derivation depends on `T` only through them
  (that is how the model is built: `Ty.param` is the only place `T` occurs).

  [partial] The rules for std's and lock_api's types (`Arc`, `&`, `UnsafeCell`, raw pointers,
  `MaybeUninit`, `VecDeque`, `Box`, `Pin`, `Waker`, `Thread`, lock_api `Mutex<R, X>`) are a
  trusted table, cross-checked on every run by asking rustc the same 56 questions.
-/
import Kanal.AutoTrait
import Kanal.Tie

namespace Kanal.C20
open Kanal Kanal.AutoTrait Kanal.Generated

/-- **C20 (positive).** If `T: Send` — whether or not `T: Sync` — all four handle types are `Send` and
    `Sync`, and both futures and the stream are `Send`. -/
theorem c20_pos (syncT : Bool) :
    (∀ h ∈ handles, verdict true syncT .send h = true ∧ verdict true syncT .sync h = true) ∧
    (∀ f ∈ futures, verdict true syncT .send f = true) := by
  cases syncT <;> decide

/-- **C20 (negative).** If `T` is not `Send` — whether or not it is `Sync` — no handle is `Send` or
    `Sync` and no future or stream is `Send`: programs moving or sharing them across threads do
    not compile. -/
theorem c20_neg (syncT : Bool) :
    (∀ h ∈ handles, verdict false syncT .send h = false ∧ verdict false syncT .sync h = false) ∧
    (∀ f ∈ futures, verdict false syncT .send f = false) := by
  cases syncT <;> decide

/-- The verdict is a function of the two bits only (no other property of `T` enters), and for the
    handles it does not even depend on `T: Sync`. -/
theorem c20_param (sendT syncT syncT' : Bool) (tr : Tr) :
    ∀ h ∈ handles, verdict sendT syncT tr h = verdict sendT syncT' tr h := by
  cases sendT <;> cases syncT <;> cases syncT' <;> cases tr <;> decide

/-- What makes it so, as extracted: three `unsafe impl Send` each bounded by `T: Send`, no
    `unsafe impl Sync` at all, the handles are `repr(C)` wrappers of `Arc<Mutex<ChannelInternal<T>>>`. -/
theorem c20_this_tree :
    unsafeAutoImpls = [(.SignalTerminator, true, true, false), (.Signal, true, true, false), (.ChannelInternal, true, true, false)] ∧
    handles_reprC_single_internal = true ∧ internal_alias_is_arc_mutex = true ∧
    mutex_guard_marker_is_GuardSend = true := by decide

/-- The bounds matter: without `T: Send` on `unsafe impl Send for ChannelInternal<T>` a handle of a
    non-`Send` message type would be `Send`. -/
theorem c20_fails_without_bound :
    holds adtFields [(.SignalTerminator, true, true, false), (.Signal, true, true, false), (.ChannelInternal, true, false, false)]
      false false 12 .send (.adt .Sender) = true := by decide

/-- … and an `unsafe impl Sync for Signal` would not change the handles but is not there. -/
example : (unsafeAutoImpls.filter (fun i => i.2.1 == false)).length = 0 := by decide

end Kanal.C20

#print axioms Kanal.C20.c20_pos
#print axioms Kanal.C20.c20_neg
#print axioms Kanal.C20.c20_param
#print axioms Kanal.C20.c20_this_tree
#print axioms Kanal.C20.c20_fails_without_bound
