/-
  C06 (channel level, temporal half, futures) — a pending future completes when it can.

  In the atomic channel model a pending future is a waiter `i` with `g.kind = .async`,
  `g.fut = .waiting`.  It completes through its own polls (`pollRecv i w` / `pollSend i w`: the
  executor polls it again after its registered waker was woken; the peer's `finalize i`
  appends that waker to `wakes`) or it is dropped (`dropRecvFut i` / `dropSendFut i`).

  `C06Chan.lean` treats blocked sync / timed calls; here the same for futures, under the
  fairness of the peer (`FairFinalize`) and of the executor (`FairPoll`).
-/
import Kanal.Props.C06Chan
import Kanal.Props.C16

namespace Kanal.C06
open Kanal Chan State

variable {v : Variant} {cap : Option Nat}

/-- The four labels through which future `i` itself moves on: its polls and its drop. -/
def ownPoll (i : Nat) (l : Label) : Prop :=
  (∃ w, l = .pollRecv i w) ∨ (∃ w, l = .pollSend i w) ∨ l = .dropRecvFut i ∨ l = .dropSendFut i

/-- Fairness of the executor: a waiting future whose signal is final (it was woken: `finalize` /
    termination wake the registered waker) is polled again, or dropped. -/
def FairPoll (x : CExec v cap) (i : Nat) : Prop :=
  ∀ n g, (x.s n).sigs[i]? = some g → g.alive = true → g.kind = .async → g.fut = .waiting → g.st ≠ .pending →
    ∃ m, n ≤ m ∧ ((∃ w, x.l m = some (.pollRecv i w)) ∨ (∃ w, x.l m = some (.pollSend i w)) ∨
      x.l m = some (.dropRecvFut i) ∨ x.l m = some (.dropSendFut i))

/-! ### An auxiliary invariant: an ended stream is a finished future -/

/-- `streamEnded` is only ever set together with `fut := .done`, and a finished stream that has ended is
    never re-armed: so a future that is not `done` has not ended. -/
def EndedDone (s : State) : Prop := ∀ (j : Nat) (g : Sig), s.sigs[j]? = some g → g.streamEnded = true → g.fut = .done

theorem sendStep_ended (s : State) (m o reg) (h : EndedDone s)
    (hreg : ∀ g, reg = some g → g.streamEnded = false) : EndedDone (sendStep s m o reg).1 := by
  unfold sendStep
  simp only
  split
  all_goals (try split)
  all_goals intro j g hg hs
  all_goals simp [deliverTo_get, append_single_get] at hg
  all_goals (try split at hg)
  all_goals simp_all [EndedDone]
  all_goals grind

theorem recvStep_ended (s : State) (t e) (h : EndedDone s) : EndedDone (recvStep s t e).1 := by
  unfold recvStep
  split
  all_goals (try split)
  all_goals intro j g hg hs
  all_goals simp [claimFrom_get, takeFrom_get] at hg
  all_goals (try split at hg)
  all_goals simp_all [EndedDone]
  all_goals grind

theorem step_ended {v s l p} (h : EndedDone s) (e : step v s l = some p) : EndedDone p.1 := by
  cases l <;> simp only [step] at e
  case send m kind opt => step_leaves e; exact sendStep_ended _ _ _ _ h (by simp)
  case trySend m opt rt =>
    have := sendStep_ended s m opt none h (by simp)
    step_leaves e <;> (try rename_i heq) <;> (try rw [heq] at this) <;> exact this
  case recv kind ex =>
    have := recvStep_ended s (kind == .timed) ex h
    step_leaves e
    · intro j g hg hs
      simp [append_single_get] at hg
      split at hg
      · cases hg; simp at hs
      · exact this j g hg hs
    · exact this
  case tryRecv rt => step_leaves e; exact recvStep_ended s false false h
  case dropHandle side =>
    cases side <;> simp only at e <;> step_leaves e
    all_goals intro j g hg hs
    all_goals simp [terminateList_get] at hg
    all_goals (try split at hg)
    all_goals first
      | (obtain ⟨g0, hg0, rfl⟩ := Option.map_eq_some_iff.mp hg; exact h j g0 hg0 hs)
      | exact h j g hg hs
  case clone side =>
    cases side <;> simp only at e <;> step_leaves e <;> exact h
  case close =>
    step_leaves e
    · exact h
    · intro j g hg hs
      simp [terminateList_get] at hg
      split at hg
      · obtain ⟨g0, hg0, rfl⟩ := Option.map_eq_some_iff.mp hg
        exact h j g0 hg0 hs
      · exact h j g hg hs
  case drain =>
    step_leaves e
    · exact h
    · intro j g hg hs
      simp [foldl_takeFrom_get] at hg
      split at hg
      · obtain ⟨g0, hg0, rfl⟩ := Option.map_eq_some_iff.mp hg
        exact h j g0 hg0 hs
      · exact h j g hg hs
  case pollRecv f w =>
    have hr := recvStep_ended s false false h
    step_leaves e
    all_goals first
      | exact h
      | (have hre := rearm_some (by assumption)
         have hb0 := h f _ (by assumption)
         intro j g hg hs
         simp at hg
         (repeat' (split at hg))
         all_goals (try simp at hg)
         all_goals first
           | (exact h j g hg hs)
           | (exact hr j g hg hs)
           | (obtain ⟨-, rfl⟩ := hg; simp at hs ⊢; done)
           | (obtain ⟨-, rfl⟩ := hg; simp at hs ⊢; simp_all; done))
  case convert side => cases side <;> simp only at e <;> step_leaves e <;> exact h
  case isDisconnected side => cases side <;> simp only at e <;> step_leaves e <;> exact h
  all_goals step_leaves e
  all_goals first
    | exact h
    | (intro j g hg hs
       simp [append_single_get, finalize_get, deliverTo_get] at hg
       (repeat' (split at hg))
       all_goals (try simp at hg)
       all_goals (simp_all [EndedDone]; grind))

theorem reach_ended {v : Variant} (s : State) (h : Reach v s) : EndedDone s := by
  induction h with
  | init cap => intro j g hg; simp [State.init] at hg
  | step _ e ih => exact step_ended ih e

/-! ### One-step stability -/

/-- **While a waiting future is claimed, only `finalize i` changes its record**: its own polls answer
    `pending` (same waker) or `spin` (changed waker: a peer owns the signal) and its drop answers `spin`,
    all without touching the state; nobody else can see it.  `finalize i` makes it final (`ok`),
    unclaimed, and wakes exactly the registered waker. -/
theorem claimed_async_step {s : State} (h : Reach Variant.good s) {i : Nat} {g : Sig} (hg : s.sigs[i]? = some g)
    (hc : g.claimed = true) (hk : g.kind = .async) {l : Label} {p : State × Res}
    (e : step Variant.good s l = some p) :
    (l = .finalize i ∧ p.1.sigs[i]? = some { g with st := .ok, claimed := false } ∧
      (∀ w, g.waker = some w → p.1.wakes = s.wakes ++ [w])) ∨
    (l ≠ .finalize i ∧ p.1.sigs[i]? = some g) := by
  have hni := not_listed h hg (Or.inr (Or.inr hc))
  obtain ⟨ha, hp, hfut⟩ := ((reach_struct s h).sigOK i g hg).claimed hc
  have hfut := hfut hk
  have hse : ∀ r, s.chan.sigExists r i = false := by intro r; simp [Chan.sigExists, hni]
  have hca : ∀ r, s.chan.cancel r i = (s.chan, false) := by intro r; simp [Chan.cancel, hni]
  by_cases hs : l.sig? = some i
  · rcases sig?_ne_of_ne hs with rfl | rfl | rfl | ⟨w, rfl⟩ | ⟨w, rfl⟩ | rfl | rfl
    · simp only [step, hg] at e
      rw [if_pos (Or.inr (Or.inl hk))] at e; cases e
    · simp only [step, hg] at e
      rw [if_pos (Or.inr (Or.inl (by rw [hk]; simp)))] at e; cases e
    · refine Or.inl ⟨rfl, (C03.c03_finalize_local _ s i p e).2.2.2.2.2.2.2.2.2.2.2.2 g hg, ?_⟩
      intro w hw
      obtain ⟨s', e', hwk⟩ := C16.c16_pending_claimed_is_woken Variant.good s i w g hg hk hc hp hw
      rw [e] at e'; cases e'; exact hwk
    · right; refine ⟨by simp, ?_⟩
      simp only [step, hg, hfut, hp, hse] at e
      step_leaves e
      all_goals first | exact hg | (simp_all; done)
    · right; refine ⟨by simp, ?_⟩
      have hre : rearm Variant.good g = some g := by simp [rearm, hfut]
      simp only [step, hg, hre, hfut, hp, hse] at e
      step_leaves e
      all_goals first | exact hg | (simp_all; done)
    · right; refine ⟨by simp, ?_⟩
      simp only [step, hg, hfut, hp, hca] at e
      step_leaves e
      all_goals first | exact hg | (simp_all; done)
    · right; refine ⟨by simp, ?_⟩
      simp only [step, hg, hfut, hp, hca] at e
      step_leaves e
      all_goals first | exact hg | (simp_all; done)
  · refine Or.inr ⟨?_, step_sig_stable _ s i g hg hni l hs p e⟩
    rintro rfl; exact hs rfl

/-- **A final waiting future keeps its record until one of its own four labels**, and each of them
    finishes it (`fut = .done`): a poll returns `Ready`, a drop destroys it.  A receive future whose
    signal is `ok` hands the value in its slot to the caller (poll) or destroys it once (drop). -/
theorem final_async_step {s : State} (h : Reach Variant.good s) {i : Nat} {g : Sig} (hg : s.sigs[i]? = some g)
    (ha : g.alive = true) (hk : g.kind = .async) (hfut : g.fut = .waiting) (hf : g.st ≠ .pending)
    {l : Label} {p : State × Res} (e : step Variant.good s l = some p) :
    (ownPoll i l ∧ ∃ g', p.1.sigs[i]? = some g' ∧ g'.fut = .done ∧
      (∀ m, g.role = .recv → g.st = .ok → g.slot = some m → m ∈ p.1.recvd ∨ m ∈ p.1.dropped)) ∨
    (¬ ownPoll i l ∧ p.1.sigs[i]? = some g) := by
  have hni := not_listed h hg (Or.inr (Or.inl hf))
  have hok := (reach_struct s h).sigOK i g hg
  have hse' : (g.isStream && g.streamEnded) = false := by
    cases hx : g.streamEnded with
    | false => simp
    | true => have := reach_ended s h i g hg hx; rw [hfut] at this; cases this
  have hca : ∀ r, s.chan.cancel r i = (s.chan, false) := by intro r; simp [Chan.cancel, hni]
  have hlt : i < s.sigs.length := lt_of_get?_some hg
  by_cases hs : l.sig? = some i
  · rcases sig?_ne_of_ne hs with rfl | rfl | rfl | ⟨w, rfl⟩ | ⟨w, rfl⟩ | rfl | rfl
    · simp only [step, hg] at e
      rw [if_pos (Or.inr (Or.inl hk))] at e; cases e
    · simp only [step, hg] at e
      rw [if_pos (Or.inr (Or.inl (by rw [hk]; simp)))] at e; cases e
    · simp only [step, hg] at e
      rw [if_pos (Or.inr hf)] at e; cases e
    · left; refine ⟨Or.inr (Or.inl ⟨w, rfl⟩), ?_⟩
      simp only [step, hg, hfut] at e
      step_leaves e
      all_goals first
        | (exfalso; simp_all; done)
        | (simp [hlt]; done)
        | (simp [hlt]; intro m hr; simp_all; done)
    · left; refine ⟨Or.inl ⟨w, rfl⟩, ?_⟩
      have hre : rearm Variant.good g = some g := by simp [rearm, hfut]
      have hsl : g.role = .recv → g.st = .ok → g.slot.isSome = true := fun hr ho =>
        hok.recvReady hr ho ha (fun _ => hfut)
      simp only [step, hg, hre, hfut, hse'] at e
      step_leaves e
      all_goals first
        | (exfalso; simp_all; done)
        | (simp [hlt]; done)
        | (simp [hlt]; intro m hr; simp_all; done)
    · left; refine ⟨Or.inr (Or.inr (Or.inr rfl)), ?_⟩
      simp only [step, hg, hfut, hca] at e
      step_leaves e
      all_goals first
        | (exfalso; simp_all; done)
        | (simp [hlt]; done)
        | (simp [hlt]; intro m hr; simp_all; done)
    · left; refine ⟨Or.inr (Or.inr (Or.inl rfl)), ?_⟩
      simp only [step, hg, hfut, hca] at e
      step_leaves e
      all_goals first
        | (exfalso; simp_all; done)
        | (simp [hlt]; done)
        | (simp [hlt]; intro m hr; simp_all; done)
  · refine Or.inr ⟨?_, step_sig_stable _ s i g hg hni l hs p e⟩
    rintro (⟨w, rfl⟩ | ⟨w, rfl⟩ | rfl | rfl) <;> exact hs rfl

/-! ### From one step to executions -/

/-- If every enabled step whose label is not in `own` keeps waiter `i`'s record `g`, then the record stays
    `g` until a label in `own` is taken from a state in which it is still `g`. -/
theorem CExec.untilP (x : CExec v cap) (i : Nat) (g : Sig) (own : Label → Prop)
    (hstep : ∀ k lab p, (x.s k).sigs[i]? = some g → step v (x.s k) lab = some p → ¬ own lab → p.1.sigs[i]? = some g)
    (n : Nat) (hg : (x.s n).sigs[i]? = some g) :
    ∀ d, (∃ k lab, n ≤ k ∧ k ≤ n + d ∧ x.l k = some lab ∧ own lab ∧ (x.s k).sigs[i]? = some g) ∨
         (x.s (n + d)).sigs[i]? = some g := by
  intro d
  induction d with
  | zero => exact Or.inr hg
  | succ d ih =>
    rcases ih with ⟨k, lab, h1, h2, h3, h4, h5⟩ | hd
    · exact Or.inl ⟨k, lab, h1, by omega, h3, h4, h5⟩
    · cases hl : x.l (n + d) with
      | none => right; show (x.s (n + d + 1)).sigs[i]? = some g; rw [x.next_none hl]; exact hd
      | some lab =>
        obtain ⟨r, e⟩ := x.next_some hl
        by_cases ho : own lab
        · exact Or.inl ⟨n + d, lab, by omega, by omega, hl, ho, hd⟩
        · right; exact hstep (n + d) lab _ hd e ho

theorem CExec.untilP_fires (x : CExec v cap) (i : Nat) (g : Sig) (own : Label → Prop)
    (hstep : ∀ k lab p, (x.s k).sigs[i]? = some g → step v (x.s k) lab = some p → ¬ own lab → p.1.sigs[i]? = some g)
    (n : Nat) (hg : (x.s n).sigs[i]? = some g) (m : Nat) (hnm : n ≤ m) (lab : Label) (hm : x.l m = some lab)
    (ho : own lab) :
    ∃ k lab', n ≤ k ∧ k ≤ m ∧ x.l k = some lab' ∧ own lab' ∧ (x.s k).sigs[i]? = some g := by
  obtain ⟨d, rfl⟩ : ∃ d, m = n + d := ⟨m - n, by omega⟩
  rcases x.untilP i g own hstep n hg d with ⟨k, lab', h1, h2, h3, h4, h5⟩ | hd
  · exact ⟨k, lab', h1, h2, h3, h4, h5⟩
  · exact ⟨n + d, lab, hnm, Nat.le_refl _, hm, ho, hd⟩

/-- The future `i` has completed (`Ready` was returned) or was dropped at instant `m`. -/
def FutDone (x : CExec v cap) (i m : Nat) : Prop :=
  ∃ g', (x.s m).sigs[i]? = some g' ∧ g'.fut = .done

/-! ### Eventual completion of futures -/

/-- A poll or the drop of a final waiting future fires, from a state in which its record is unchanged. -/
theorem final_future_polled_at (x : CExec Variant.good cap) (i : Nat) (hfp : FairPoll x i) (n : Nat) (g : Sig)
    (hg : (x.s n).sigs[i]? = some g) (ha : g.alive = true) (hk : g.kind = .async) (hfut : g.fut = .waiting)
    (hf : g.st ≠ .pending) :
    ∃ k lab, n ≤ k ∧ x.l k = some lab ∧ ownPoll i lab ∧ (x.s k).sigs[i]? = some g := by
  obtain ⟨m, hnm, hm⟩ := hfp n g hg ha hk hfut hf
  have hstep : ∀ k lab p, (x.s k).sigs[i]? = some g → step Variant.good (x.s k) lab = some p →
      ¬ ownPoll i lab → p.1.sigs[i]? = some g := by
    intro k lab p hgk e hne
    rcases final_async_step (x.reach k) hgk ha hk hfut hf e with ⟨h1, -⟩ | ⟨-, h2⟩
    · exact absurd h1 hne
    · exact h2
  obtain ⟨lab, hlab, ho⟩ : ∃ lab, x.l m = some lab ∧ ownPoll i lab := by
    rcases hm with ⟨w, h⟩ | ⟨w, h⟩ | h | h
    · exact ⟨_, h, Or.inl ⟨w, rfl⟩⟩
    · exact ⟨_, h, Or.inr (Or.inl ⟨w, rfl⟩)⟩
    · exact ⟨_, h, Or.inr (Or.inr (Or.inl rfl))⟩
    · exact ⟨_, h, Or.inr (Or.inr (Or.inr rfl))⟩
  obtain ⟨k, lab', h1, -, h3, h4, h5⟩ := x.untilP_fires i g _ hstep n hg m hnm lab hlab ho
  exact ⟨k, lab', h1, h3, h4, h5⟩

/-- **C06 (a woken future completes).** If at instant `n` future `i` is waiting and its signal is final,
    then — the executor being fair — at some later instant it has completed or was dropped; a receive
    future with `ok` has by then handed the value in its slot to its caller, or (dropped) destroyed it. -/
theorem c06_final_future_completes (x : CExec Variant.good cap) (i : Nat) (hfp : FairPoll x i) (n : Nat) (g : Sig)
    (hg : (x.s n).sigs[i]? = some g) (ha : g.alive = true) (hk : g.kind = .async) (hfut : g.fut = .waiting)
    (hf : g.st ≠ .pending) :
    ∃ m, n < m ∧ FutDone x i m ∧
      (∀ v, g.role = .recv → g.st = .ok → g.slot = some v → v ∈ (x.s m).recvd ∨ v ∈ (x.s m).dropped) := by
  obtain ⟨k, lab, hnk, hl, ho, hgk⟩ := final_future_polled_at x i hfp n g hg ha hk hfut hf
  obtain ⟨r, e⟩ := x.next_some hl
  rcases final_async_step (x.reach k) hgk ha hk hfut hf e with ⟨-, g', h1, h2, h3⟩ | ⟨h1, -⟩
  · exact ⟨k + 1, by omega, ⟨g', h1, h2⟩, h3⟩
  · exact absurd ho h1

/-- The final store into a claimed future fires, from a state in which its record is unchanged. -/
theorem claimed_future_finalized_at (x : CExec Variant.good cap) (i : Nat) (hff : FairFinalize x i) (n : Nat)
    (g : Sig) (hg : (x.s n).sigs[i]? = some g) (hk : g.kind = .async) (hc : g.claimed = true) :
    ∃ k, n ≤ k ∧ x.l k = some (.finalize i) ∧ (x.s k).sigs[i]? = some g := by
  obtain ⟨m, hnm, hm⟩ := hff n g hg hc
  have hstep : ∀ k lab p, (x.s k).sigs[i]? = some g → step Variant.good (x.s k) lab = some p →
      lab ≠ .finalize i → p.1.sigs[i]? = some g := by
    intro k lab p hgk e hne
    rcases claimed_async_step (x.reach k) hgk hc hk e with ⟨rfl, -⟩ | ⟨-, h2⟩
    · exact absurd rfl hne
    · exact h2
  obtain ⟨k, h1, -, h3, h4⟩ := x.until_fires i g _ hstep n hg m hnm hm
  exact ⟨k, h1, h3, h4⟩

/-- **C06 (a claimed future becomes final and its registered waker is woken).** -/
theorem c06_claimed_future_woken (x : CExec Variant.good cap) (i : Nat) (hff : FairFinalize x i) (n : Nat)
    (g : Sig) (hg : (x.s n).sigs[i]? = some g) (hk : g.kind = .async) (hc : g.claimed = true) :
    ∃ k, n ≤ k ∧ x.l k = some (.finalize i) ∧ (x.s k).sigs[i]? = some g ∧
      (x.s (k + 1)).sigs[i]? = some { g with st := .ok, claimed := false } ∧
      (∀ w, g.waker = some w → (x.s (k + 1)).wakes = (x.s k).wakes ++ [w]) := by
  obtain ⟨k, hnk, hl, hgk⟩ := claimed_future_finalized_at x i hff n g hg hk hc
  obtain ⟨r, e⟩ := x.next_some hl
  rcases claimed_async_step (x.reach k) hgk hc hk e with ⟨-, h2, h3⟩ | ⟨h1, -⟩
  · exact ⟨k, hnk, hl, hgk, h2, h3⟩
  · exact absurd rfl h1

/-- **C06 (a pending future completes when it can).** In an execution in which the peer's final store
    into future `i` and the executor's polls of `i` are scheduled weakly fairly: if at instant `n`
    future `i` is alive and waiting and either a peer has claimed it or its signal is already final,
    then at some later instant it has completed (or was dropped).  For a receive future that was
    claimed with, or is final `ok` with, value `v` in its slot: by then `v` has been received by the
    caller, or — the future having been dropped instead — destroyed. -/
theorem c06_future_eventually_completes (x : CExec Variant.good cap) (i : Nat) (hff : FairFinalize x i)
    (hfp : FairPoll x i) (n : Nat) (g : Sig) (hg : (x.s n).sigs[i]? = some g) (ha : g.alive = true)
    (hk : g.kind = .async) (hfut : g.fut = .waiting) (h : g.claimed = true ∨ g.st ≠ .pending) :
    ∃ m, n < m ∧ FutDone x i m ∧
      (∀ v, g.role = .recv → g.slot = some v → (g.claimed = true ∨ g.st = .ok) →
        v ∈ (x.s m).recvd ∨ v ∈ (x.s m).dropped) := by
  rcases h with hc | hf
  · obtain ⟨k, hnk, -, -, h2, -⟩ := c06_claimed_future_woken x i hff n g hg hk hc
    obtain ⟨m, hm, hd, hv⟩ := c06_final_future_completes x i hfp (k + 1) _ h2 ha hk hfut (by simp)
    exact ⟨m, by omega, hd, fun v hr hs _ => hv v hr rfl hs⟩
  · obtain ⟨m, hm, hd, hv⟩ := c06_final_future_completes x i hfp n g hg ha hk hfut hf
    refine ⟨m, hm, hd, fun v hr hs hco => hv v hr ?_ hs⟩
    rcases hco with hc | ho
    · have := ((reach_struct _ (x.reach n)).sigOK i g hg).finalUnclaimed hf
      rw [this] at hc; cases hc
    · exact ho

/-- **C06 (a send completes the waiting receive future).** If at instant `n` a send of value `m` (any
    flavour) happens while the receive future `i` is first in the wait list, then after the step `i` is
    claimed with `m` in its slot; the peer's final store wakes the waker `i` registered; and `i`
    eventually completes, `m` having been received (or destroyed, if the future was dropped). -/
theorem c06_send_eventually_completes_future (x : CExec Variant.good cap) (i : Nat) (hff : FairFinalize x i)
    (hfp : FairPoll x i) (n : Nat) (m : Msg)
    (hl : (∃ kind opt, x.l n = some (.send m kind opt)) ∨ (∃ opt rt, x.l n = some (.trySend m opt rt)))
    (rest : List Nat) (hw : (x.s n).chan.waitList = i :: rest) (hb : (x.s n).chan.recvBlocking = true)
    (hk : ∀ g, (x.s n).sigs[i]? = some g → g.kind = .async) :
    (∃ g', (x.s (n + 1)).sigs[i]? = some g' ∧ g'.claimed = true ∧ g'.slot = some m) ∧
    (∃ w, (∀ g, (x.s n).sigs[i]? = some g → g.waker = some w) ∧
      ∃ k, n < k ∧ x.l k = some (.finalize i) ∧ (x.s (k + 1)).wakes = (x.s k).wakes ++ [w]) ∧
    ∃ k, n < k ∧ FutDone x i k ∧ (m ∈ (x.s k).recvd ∨ m ∈ (x.s k).dropped) := by
  obtain ⟨lab, hlab, hl'⟩ : ∃ lab, x.l n = some lab ∧
      ((∃ kind opt, lab = .send m kind opt) ∨ (∃ opt rt, lab = .trySend m opt rt)) := by
    rcases hl with ⟨kind, opt, h⟩ | ⟨opt, rt, h⟩
    · exact ⟨_, h, Or.inl ⟨kind, opt, rfl⟩⟩
    · exact ⟨_, h, Or.inr ⟨opt, rt, rfl⟩⟩
  obtain ⟨r, e⟩ := x.next_some hlab
  obtain ⟨g, hg, ha, hr, -, hg'⟩ := send_claims_head (x.reach n) hw hb hl' e
  obtain ⟨g0, hg0, hlg⟩ := (reach_struct _ (x.reach n)).listed i (by rw [hw]; simp)
  rw [hg] at hg0; cases hg0
  have hka := hk g hg
  obtain ⟨hfut, hwk⟩ := hlg.fut hka
  obtain ⟨w, hw'⟩ := Option.isSome_iff_exists.mp hwk
  refine ⟨⟨_, hg', rfl, rfl⟩, ⟨w, ?_, ?_⟩, ?_⟩
  · intro g1 hg1; rw [hg] at hg1; cases hg1; exact hw'
  · obtain ⟨k, hk1, hk2, -, -, hk3⟩ := c06_claimed_future_woken x i hff (n + 1) _ hg' hka rfl
    exact ⟨k, by omega, hk2, hk3 w hw'⟩
  · obtain ⟨k, hk1, hd, hv⟩ := c06_future_eventually_completes x i hff hfp (n + 1) _ hg' ha hka hfut (Or.inl rfl)
    exact ⟨k, by omega, hd, hv m hr rfl (Or.inl rfl)⟩

/-- **C06 (close completes every pending future).** After a successful `close()` at instant `n` every
    future that was waiting in the wait list has a terminated signal and eventually completes (with the
    closed error) or is dropped. -/
theorem c06_close_eventually_completes_future (x : CExec Variant.good cap) (n : Nat)
    (e : step Variant.good (x.s n) .close = some (x.s (n + 1), .unit))
    (i : Nat) (hi : i ∈ (x.s n).chan.waitList) (g : Sig) (hg : (x.s n).sigs[i]? = some g)
    (hk : g.kind = .async) (hfp : FairPoll x i) :
    (x.s (n + 1)).sigs[i]? = some { g with st := .term } ∧ ∃ m, n < m ∧ FutDone x i m := by
  have hrel := (C10.c10_releases _ _ _ e rfl).2.2.2.2.1 i hi g hg
  obtain ⟨g', hg', hlg⟩ := (reach_struct _ (x.reach n)).listed i hi
  rw [hg] at hg'; cases hg'
  obtain ⟨m, hm, hd, -⟩ := c06_final_future_completes x i hfp (n + 1) _ hrel hlg.alive hk (hlg.fut hk).1 (by simp)
  exact ⟨hrel, m, by omega, hd⟩

/-- The same when the last handle of a side is dropped while the other side lives. -/
theorem c06_last_drop_eventually_completes_future (x : CExec Variant.good cap) (n : Nat) (side : Side) (r : Res)
    (e : step Variant.good (x.s n) (.dropHandle side) = some (x.s (n + 1), r))
    (hlast : (side = .send → (x.s n).chan.sendCount = 1 ∧ (x.s n).chan.recvCount ≠ 0) ∧
             (side = .recv → (x.s n).chan.recvCount = 1 ∧ (x.s n).chan.sendCount ≠ 0))
    (i : Nat) (hi : i ∈ (x.s n).chan.waitList) (g : Sig) (hg : (x.s n).sigs[i]? = some g)
    (hk : g.kind = .async) (hfp : FairPoll x i) :
    (x.s (n + 1)).sigs[i]? = some { g with st := .term } ∧ ∃ m, n < m ∧ FutDone x i m := by
  have hrel := (C11.c11_release _ _ side _ e hlast).2 i hi g hg
  obtain ⟨g', hg', hlg⟩ := (reach_struct _ (x.reach n)).listed i hi
  rw [hg] at hg'; cases hg'
  obtain ⟨m, hm, hd, -⟩ := c06_final_future_completes x i hfp (n + 1) _ hrel hlg.alive hk (hlg.fut hk).1 (by simp)
  exact ⟨hrel, m, by omega, hd⟩

/-! ### Non-vacuity -/

/-- Rendezvous channel: a receive future is created and polled (`Pending`, waker 5 registered), a `send`
    hands its value over, the sender's final store wakes waker 5, the future is polled again (`Ready 7`). -/
def ademoLs : List Label :=
  [.newRecvFut false, .pollRecv 0 5, .send 7 .sync false, .finalize 0, .pollRecv 0 5]

def ademoS : Nat → State
  | 0 => State.init (some 0)
  | n + 1 => match ademoLs[n]? with
    | some lab => match step Variant.good (ademoS n) lab with
      | some p => p.1
      | none => ademoS n
    | none => ademoS n

theorem ademoLs_tail (k : Nat) : ademoLs[5 + k]? = none :=
  List.getElem?_eq_none (by simp [ademoLs])

theorem ademoS_tail (k : Nat) : ademoS (5 + k) = ademoS 5 := by
  induction k with
  | zero => rfl
  | succ k ih =>
    show ademoS ((5 + k) + 1) = ademoS 5
    rw [ademoS, ademoLs_tail k]
    exact ih

def ademo : CExec Variant.good (some 0) where
  s := ademoS
  l := fun n => ademoLs[n]?
  init := rfl
  next := fun n => by
    match n with
    | 0 => exact step_fst_of_isSome (s := ademoS 0) (l := .newRecvFut false) (by decide)
    | 1 => exact step_fst_of_isSome (s := ademoS 1) (l := .pollRecv 0 5) (by decide)
    | 2 => exact step_fst_of_isSome (s := ademoS 2) (l := .send 7 .sync false) (by decide)
    | 3 => exact step_fst_of_isSome (s := ademoS 3) (l := .finalize 0) (by decide)
    | 4 => exact step_fst_of_isSome (s := ademoS 4) (l := .pollRecv 0 5) (by decide)
    | n + 5 =>
      have h : ademoLs[n + 5]? = none := by rw [Nat.add_comm]; exact ademoLs_tail n
      simp only [h]
      rw [ademoS, h]

theorem ademo_sig4 : (ademoS 4).sigs[0]?.map (·.claimed) = some false := by decide
theorem ademo_sig5 : (ademoS 5).sigs[0]?.map (fun g => (g.claimed, g.fut)) = some (false, .done) := by decide

theorem ademo_fairFinalize : FairFinalize ademo 0 := by
  intro n g hg hc
  by_cases h : n ≤ 3
  · exact ⟨3, h, rfl⟩
  · exfalso
    by_cases h4 : n = 4
    · subst h4
      have := ademo_sig4
      change (ademoS 4).sigs[0]? = some g at hg
      rw [hg] at this
      simp [hc] at this
    · obtain ⟨k, rfl⟩ : ∃ k, n = 5 + k := ⟨n - 5, by omega⟩
      have := ademo_sig5
      change (ademoS (5 + k)).sigs[0]? = some g at hg
      rw [ademoS_tail] at hg
      rw [hg] at this
      simp [hc] at this

theorem ademo_fairPoll : FairPoll ademo 0 := by
  intro n g hg _ _ hfut _
  by_cases h : n ≤ 4
  · exact ⟨4, h, Or.inl ⟨5, rfl⟩⟩
  · exfalso
    obtain ⟨k, rfl⟩ : ∃ k, n = 5 + k := ⟨n - 5, by omega⟩
    have := ademo_sig5
    change (ademoS (5 + k)).sigs[0]? = some g at hg
    rw [ademoS_tail] at hg
    rw [hg] at this
    simp [hfut] at this

/-- **Non-vacuity**: a fair execution with a receive future exists; the future is pending and listed at
    instant 2, claimed at 3, woken (waker 5) at 4, and has returned the value at 5. -/
theorem c06_fair_async_exec_exists :
    ∃ x : CExec Variant.good (some 0), FairFinalize x 0 ∧ FairPoll x 0 ∧
      (x.s 2).chan.waitList = [0] ∧ (x.s 3).sigs[0]?.map (·.claimed) = some true ∧
      (x.s 4).wakes = [5] ∧ (x.s 5).recvd = [7] :=
  ⟨ademo, ademo_fairFinalize, ademo_fairPoll, by decide, by decide, by decide, by decide⟩

/-- The send theorem applied to the concrete execution. -/
example : ∃ k, 2 < k ∧ FutDone ademo 0 k ∧ (7 ∈ (ademo.s k).recvd ∨ 7 ∈ (ademo.s k).dropped) :=
  (c06_send_eventually_completes_future ademo 0 ademo_fairFinalize ademo_fairPoll 2 7
    (Or.inl ⟨.sync, false, rfl⟩) [] (by decide) (by decide) (by
      intro g hg
      have : (ademoS 2).sigs[0]?.map (·.kind) = some .async := by decide
      change (ademoS 2).sigs[0]? = some g at hg
      rw [hg] at this
      simpa using this)).2.2

end Kanal.C06

#print axioms Kanal.C06.reach_ended
#print axioms Kanal.C06.claimed_async_step
#print axioms Kanal.C06.final_async_step
#print axioms Kanal.C06.c06_final_future_completes
#print axioms Kanal.C06.c06_claimed_future_woken
#print axioms Kanal.C06.c06_future_eventually_completes
#print axioms Kanal.C06.c06_send_eventually_completes_future
#print axioms Kanal.C06.c06_close_eventually_completes_future
#print axioms Kanal.C06.c06_last_drop_eventually_completes_future
#print axioms Kanal.C06.ademo_fairFinalize
#print axioms Kanal.C06.ademo_fairPoll
#print axioms Kanal.C06.c06_fair_async_exec_exists
