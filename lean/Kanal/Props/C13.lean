/-
  C13 — timed operations are all-or-nothing and respect their deadline.

  A timed call is `Label.send m .timed opt` / `Label.recv .timed expired` (first critical
  section; `expired` is the outcome of `recv_timeout`'s pre-check `Instant::now() > deadline`),
  then — if it registered waiter `i` — `Label.expire i` (the deadline passed: `wait_timeout`
  returned false and the waiter runs its cancel critical section) and/or `Label.complete i`
  (it saw a final state).  The virtual clock is the environment: `expire` may be taken at any
  point, which covers the deadline expiring at every point of every interleaving.
-/
import Kanal.Lemmas.All
import Kanal.Lemmas.Stable
import Kanal.Tie

namespace Kanal.C13
open Kanal Chan State

/-- The branch the receive body reports is the one the critical section computed. -/
theorem recvStep_snd (s : State) (t e : Bool) :
    (recvStep s t e).2 = (s.chan.recvPre s.slotMsg t e).2 := by
  unfold recvStep
  split <;> rename_i heq
  · split <;> simp [heq]
  · simp [heq]
  · simp [heq]

/-- The receive critical section answers `timeout` only for a timed call whose pre-check saw the
    deadline passed. -/
theorem recvPre_timeout {c c1 : Chan} {f : SigId → Msg} {t ex : Bool}
    (h : c.recvPre f t ex = (c1, .timeout)) : t = true ∧ ex = true := by
  unfold recvPre at h
  (repeat' (split at h)) <;> simp_all

/-- ... and so does the result the caller sees. -/
theorem recvRes_timeout {s s' : State} {t ex : Bool}
    (h : recvRes (recvStep s t ex).2 .none s' = .err .timeout) : t = true ∧ ex = true := by
  rw [recvStep_snd] at h
  generalize hq : s.chan.recvPre s.slotMsg t ex = q at h
  obtain ⟨c1, b⟩ := q
  cases b <;> simp [recvRes] at h
  exact recvPre_timeout hq

/-- Everything the shared send body can answer; `blocked` only if the caller registers, `false` only if it does not. -/
theorem sendStep_res (s : State) (m : Msg) (o : Bool) (reg : Option Sig) :
    (sendStep s m o reg).2 = .unit ∨ (sendStep s m o reg).2 = .err .closed ∨
    (sendStep s m o reg).2 = .err .recvClosed ∨ (reg = none ∧ (sendStep s m o reg).2 = .bool false) ∨
    (reg ≠ none ∧ ∃ i, (sendStep s m o reg).2 = .blocked i) := by
  unfold sendStep
  simp only
  split
  all_goals (try split)
  all_goals simp

/-- **C13 (never early).** `Timeout` is answered only by a step that represents the clock having
    passed the deadline: the cancel section after `wait_timeout` gave up, or `recv_timeout`'s
    pre-check.  (That those two read the clock with `now < until` / `now > deadline` is
    `Tie.timed_tests_ok`; the scheduled runs check it against the virtual clock.) -/
theorem c13_timeout_only_if_expired (v : Variant) (s : State) (l : Label) (p : State × Res)
    (e : step v s l = some p) (ht : p.2 = .err .timeout) :
    (∃ i, l = .expire i) ∨ l = .recv .timed true := by
  cases l <;> simp only [step] at e
  case expire i => exact Or.inl ⟨i, rfl⟩
  case send m kind opt =>
    step_leaves e
    have := sendStep_res s m opt (some { role := .send, kind := kind, opt := opt })
    simp_all
  case trySend m opt rt =>
    have := sendStep_res s m opt none
    step_leaves e <;> simp_all
  case recv kind ex =>
    step_leaves e
    · simp at ht
    · have := recvRes_timeout ht
      simp_all
  case tryRecv rt =>
    step_leaves e
    have := recvRes_timeout ht
    simp at this
  case pollRecv f w =>
    step_leaves e
    all_goals (try (simp at ht; done))
    all_goals (have := recvRes_timeout ht; simp at this)
  case clone side => cases side <;> simp only at e <;> step_leaves e <;> simp at ht
  case dropHandle side => cases side <;> simp only at e <;> step_leaves e <;> simp at ht
  case convert side => cases side <;> simp only at e <;> step_leaves e <;> simp at ht
  case isDisconnected side => cases side <;> simp only at e <;> step_leaves e <;> simp at ht
  all_goals (step_leaves e <;> simp at ht)

/-- **C13 (trichotomy).** Every step of a timed call answers one of: success, `Timeout`, a
    closed/disconnected error, or "still waiting" (`blocked`) — nothing else. -/
theorem c13_trichotomy (v : Variant) (s : State) (p : State × Res) :
    (∀ m opt, step v s (.send m .timed opt) = some p →
        p.2 = .unit ∨ p.2 = .err .closed ∨ p.2 = .err .recvClosed ∨ ∃ i, p.2 = .blocked i) ∧
    (∀ ex, step v s (.recv .timed ex) = some p →
        (∃ m, p.2 = .val m) ∨ p.2 = .err .closed ∨ p.2 = .err .sendClosed ∨ p.2 = .err .timeout ∨ ∃ i, p.2 = .blocked i) ∧
    (∀ i, step v s (.expire i) = some p → p.2 = .err .timeout ∨ p.2 = .blocked i) := by
  refine ⟨?_, ?_, ?_⟩
  · intro m opt e
    simp only [step] at e
    step_leaves e
    have := sendStep_res s m opt (some { role := .send, kind := .timed, opt := opt })
    simp_all
  · intro ex e
    simp only [step] at e
    step_leaves e
    · simp
    · rename_i hne
      generalize (recvStep s (Kind.timed == Kind.timed) ex).2 = b at hne
      cases b <;> simp [recvRes] at hne ⊢
  · intro i e
    simp only [step] at e
    step_leaves e <;> simp

/-- **C13 (expiry racing a hand-off).** If a peer has already claimed the waiter (popped it in its
    critical section, final store still to come) the cancel fails and the call goes on waiting:
    nothing changes, and in particular it does not report `Timeout`. -/
theorem c13_expire_claimed (v : Variant) (s : State) (hst : Struct s) (i : Nat) (g : Sig)
    (hg : s.sigs[i]? = some g) (hc : g.claimed = true) (p : State × Res)
    (e : step v s (.expire i) = some p) : p = (s, .blocked i) := by
  have hni : i ∉ s.chan.waitList := by
    intro hi
    obtain ⟨g', hg', hl⟩ := hst.listed i hi
    rw [hg] at hg'; cases hg'
    have := hl.unclaimed; simp_all
  have hcan : ∀ r, s.chan.cancel r i = (s.chan, false) := by
    intro r; unfold cancel; simp [hni]
  simp only [step, hg, hcan] at e
  step_leaves e
  rfl

/-- A value that has been destroyed or handed back to its sender is never received later. -/
theorem never_received {s : State} (hr : Reach Variant.good s) (m : Msg)
    (hc : s.cust m = .gone ∨ s.cust m = .callerS) :
    ∀ ls s' rs, run Variant.good s ls = some (s', rs) → m ∉ s'.recvd := by
  intro ls s' rs hrun hm
  have hst := cust_stable_run hr ls s' rs hrun m (by rcases hc with hc | hc <;> simp [hc])
  have hr' := Reach.run hr ls s' rs hrun
  have := ((reach_ledger _ hr').2.recvdCust m).mp hm
  rw [hst] at this
  rcases hc with hc | hc <;> rw [hc] at this <;> cases this

/-- **C13 (expiry of a still-listed waiter = Timeout, nothing moved, nothing left behind).**
    If the timed waiter has not been claimed by a peer, its cancel section succeeds: the call
    reports `Timeout`; a sender's value is back with the caller (Option variant) or destroyed
    exactly once, and no receiver will ever see it; the waiter is gone from the wait list and
    dead, so a later peer cannot deliver into it; the other waiters keep their order. -/
theorem c13_expire_listed (s : State) (hr : Reach Variant.good s) (i : Nat) (g : Sig)
    (hg : s.sigs[i]? = some g) (ha : g.alive = true) (hk : g.kind = .timed) (hp : g.st = .pending)
    (hc : g.claimed = false) (p : State × Res) (e : step Variant.good s (.expire i) = some p) :
    p.2 = .err .timeout ∧
    p.1.chan.waitList = s.chan.waitList.erase i ∧ i ∉ p.1.chan.waitList ∧
    (∃ g', p.1.sigs[i]? = some g' ∧ g'.alive = false ∧ g'.slot = none) ∧
    (∀ m, g.role = .send → g.slot = some m →
        ((g.opt = true → p.1.cust m = .callerS ∧ p.1.dropped = s.dropped) ∧
         (g.opt = false → p.1.cust m = .gone ∧ p.1.dropped = s.dropped ++ [m])) ∧
        (∀ ls s' rs, run Variant.good p.1 ls = some (s', rs) → m ∉ s'.recvd)) ∧
    (g.role = .recv → p.1.recvd = s.recvd ∧ p.1.delivered = s.delivered) := by
  have hst := reach_struct s hr
  have hrp : Reach Variant.good p.1 := Reach.step hr e
  have hi : i ∈ s.chan.waitList := hst.unlisted i g hg ha hp hc (by simp [hk])
  obtain ⟨g', hg', hl⟩ := hst.listed i hi
  rw [hg] at hg'; cases hg'
  have hrole := hl.role
  have hcan : s.chan.cancel g.role i = ({ s.chan with waitList := s.chan.waitList.erase i }, true) := by
    unfold cancel
    simp [hi, hrole, listRole]
    cases s.chan.recvBlocking <;> simp
  have hni : i ∉ s.chan.waitList.erase i := by
    rw [List.Nodup.mem_erase_iff hst.nodup]; simp
  have hlt := lt_of_get?_some hg
  simp only [step, hg, hcan] at e
  have hsig : ∀ x : Sig, x.alive = false → x.slot = none →
      ∃ g', (s.sigs.set i x)[i]? = some g' ∧ g'.alive = false ∧ g'.slot = none :=
    fun x h1 h2 => ⟨x, by simp [hlt], h1, h2⟩
  simp [ha, hk, hp, Variant.good] at e
  split at e
  · rename_i m hro hsl
    split at e <;> cases e <;> rename_i hopt
    · refine ⟨rfl, rfl, hni, hsig _ rfl rfl, ?_, by simp [hro]⟩
      intro m' _ hm'; rw [hsl] at hm'; cases hm'
      exact ⟨⟨fun _ => ⟨by simp [upd], rfl⟩, fun h => by simp [hopt] at h⟩,
        never_received hrp m (Or.inr (by simp [upd]))⟩
    · refine ⟨rfl, rfl, hni, hsig _ rfl rfl, ?_, by simp [hro]⟩
      intro m' _ hm'; rw [hsl] at hm'; cases hm'
      exact ⟨⟨fun h => by simp [hopt] at h, fun _ => ⟨by simp [dropMsg, upd], by simp [dropMsg]⟩⟩,
        never_received hrp m (Or.inl (by simp [dropMsg, upd]))⟩
  · rename_i hne
    cases e
    refine ⟨rfl, rfl, hni, hsig _ rfl rfl, ?_, fun _ => ⟨rfl, rfl⟩⟩
    intro m hro hsl
    exact absurd hsl (by simpa [hro] using hne m)

/-- **C13 (the decided outcome is reported).** Once the waiter's signal is final the call returns
    exactly the decided outcome: success with the value moved exactly once (a receiver gets the
    delivered value; a sender's value was taken: its slot is empty and nothing is dropped), or
    the closed error with a sender's value handed back / destroyed once.  Never `Timeout`. -/
theorem c13_complete (s : State) (hr : Reach Variant.good s) (i : Nat) (g : Sig)
    (hg : s.sigs[i]? = some g) (p : State × Res) (e : step Variant.good s (.complete i) = some p) :
    (g.st = .ok → g.role = .send → p.2 = .unit ∧ p.1.dropped = s.dropped ∧ p.1.cust = s.cust) ∧
    (g.st = .ok → g.role = .recv → ∃ m, g.slot = some m ∧ p.2 = .val m ∧ p.1.recvd = s.recvd ++ [m] ∧ p.1.dropped = s.dropped) ∧
    (g.st = .term → p.2 = .err .closed ∧
        (∀ m, g.role = .send → g.slot = some m →
          (g.opt = true → p.1.cust m = .callerS ∧ p.1.dropped = s.dropped) ∧
          (g.opt = false → p.1.cust m = .gone ∧ p.1.dropped = s.dropped ++ [m]))) ∧
    (∃ g', p.1.sigs[i]? = some g' ∧ g'.alive = false ∧ g'.slot = none) := by
  have hso := (reach_struct s hr).sigOK i g hg
  have hlt := lt_of_get?_some hg
  have hsig : ∀ x : Sig, x.alive = false → x.slot = none →
      ∃ g', (s.sigs.set i x)[i]? = some g' ∧ g'.alive = false ∧ g'.slot = none :=
    fun x h1 h2 => ⟨x, by simp [hlt], h1, h2⟩
  simp only [step, hg] at e
  split at e
  · cases e
  rename_i hen
  simp only [not_or] at hen
  obtain ⟨hal, hka, hpe⟩ := hen
  have hal' : g.alive = true := by simpa using hal
  cases hro : g.role <;> cases hs : g.st <;> simp [hro, hs, Variant.good] at e hpe
  · -- send, ok
    subst e
    exact ⟨fun _ _ => ⟨rfl, rfl, rfl⟩, by simp, by simp, hsig _ rfl rfl⟩
  · -- send, term
    split at e <;> cases e <;> rename_i hsl
    · rename_i m
      refine ⟨by simp, by simp, fun _ => ⟨rfl, ?_⟩, by simpa using hsig _ rfl rfl⟩
      intro m' _ hm'; rw [hsl] at hm'; cases hm'
      constructor <;> intro ho <;> simp [ho, failBack, dropMsg, upd]
    · exact ⟨by simp, by simp, fun _ => ⟨rfl, by simp [hsl]⟩, hsig _ rfl rfl⟩
  · -- recv, ok
    have hsome := hso.recvReady hro hs hal' (fun h => absurd h hka)
    split at e <;> cases e <;> rename_i hsl
    · rename_i m
      exact ⟨by simp, fun _ _ => ⟨m, hsl, rfl, rfl, rfl⟩, by simp, hsig _ rfl rfl⟩
    · simp [hsl] at hsome
  · -- recv, term
    subst e
    exact ⟨by simp, by simp, fun _ => ⟨rfl, by simp⟩, hsig _ rfl rfl⟩

theorem c13_this_tree : Generated.recv_timeout_precheck = .gt ∧ Generated.wait_timeout_loop_test = .lt ∧
    Generated.wait_timeout_parks = false ∧ Generated.d1_timeout_drops = true ∧
    Generated.d2_option_value_in_maybeuninit = true := by
  have := Tie.timed_tests_ok; have := Tie.signal_structure; have := Tie.variant_good; simp_all

/-- Non-vacuity: capacity 0, a timed send registers, a receiver claims it, expiry is refused, the
    final store arrives, the call completes with success and the value was received exactly once. -/
example : ∃ s rs, run Variant.good (State.init (some 0))
    [.send 1 .timed false, .tryRecv false, .expire 0, .finalize 0, .complete 0] = some (s, rs) ∧
    rs = [.blocked 0, .val 1, .blocked 0, .unit, .unit] ∧ s.recvd = [1] ∧ s.dropped = [] := by
  refine ⟨_, _, rfl, ?_, ?_, ?_⟩ <;> decide

end Kanal.C13

#print axioms Kanal.C13.c13_timeout_only_if_expired
#print axioms Kanal.C13.c13_expire_listed
#print axioms Kanal.C13.c13_expire_claimed
#print axioms Kanal.C13.c13_complete
#print axioms Kanal.C13.c13_trichotomy
#print axioms Kanal.C13.c13_this_tree
