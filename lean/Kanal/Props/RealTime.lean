/-
  The real-time readings of FIFO (C02), capacity (C08) and close (C10), over executions.

  The property statements speak about real time ("if one send has returned, or is already blocked
  inside the channel, before another send begins …"); the theorems of `C02.lean`, `C08.lean`,
  `C10.lean` speak about the ghost logs of one reachable state.  Here they are connected over the
  infinite stuttering executions `CExec` of `C06Chan.lean`: the logs are append-only along an
  execution, so "earlier in the log" is "at an earlier instant", and every invariant of reachable
  states holds at every instant.

  Each acceptance instant lies inside the real-time interval of its send call (it is the step at
  which the value entered the buffer, was registered as a blocked / pending sender, or was handed
  to a waiting receiver), and each delivery instant inside the interval of the receive call that
  obtains the value.
-/
import Kanal.Props.C06Chan
import Kanal.Props.C02
import Kanal.Props.C08
import Kanal.Props.C10
import Kanal.Props.C19
import Kanal.Lemmas.Stable

namespace Kanal.RealTime
open Kanal Chan State Kanal.C06

variable {v : Variant} {cap : Option Nat}

/-! ### Instants; the logs only grow -/

/-- `m` is accepted by the channel at instant `n` (by the step from `x.s n` to `x.s (n+1)`). -/
def AcceptedAt (x : CExec v cap) (n : Nat) (m : Msg) : Prop :=
  m ∉ (x.s n).accepted ∧ m ∈ (x.s (n + 1)).accepted

/-- `m` is taken by a receive operation at instant `n`. -/
def DeliveredAt (x : CExec v cap) (n : Nat) (m : Msg) : Prop :=
  m ∉ (x.s n).delivered ∧ m ∈ (x.s (n + 1)).delivered

theorem Grow.trans {a b c : State} (h1 : Grow a b) (h2 : Grow b c) : Grow a c :=
  ⟨h1.1.trans h2.1, h1.2.trans h2.2, h1.3.trans h2.3, h1.4.trans h2.4, h1.5.trans h2.5, h1.6.trans h2.6, h1.7.trans h2.7⟩

/-- **The logs only grow along an execution** (all seven of them, as prefixes). -/
theorem _root_.Kanal.C06.CExec.grow (x : CExec v cap) (n k : Nat) : Grow (x.s n) (x.s (n + k)) := by
  induction k with
  | zero => exact Grow.refl _
  | succ k ih =>
    refine Grow.trans ih ?_
    cases hl : x.l (n + k) with
    | none => show Grow _ (x.s (n + k + 1)); rw [x.next_none hl]; exact Grow.refl _
    | some lab =>
      obtain ⟨r, e⟩ := x.next_some hl
      exact step_grow e

theorem _root_.Kanal.C06.CExec.grow_le (x : CExec v cap) {n m : Nat} (h : n ≤ m) : Grow (x.s n) (x.s m) := by
  obtain ⟨k, rfl⟩ : ∃ k, m = n + k := ⟨m - n, by omega⟩
  exact x.grow n k

theorem accepted_prefix (x : CExec v cap) (n k : Nat) : (x.s n).accepted <+: (x.s (n + k)).accepted := (x.grow n k).accepted
theorem delivered_prefix (x : CExec v cap) (n k : Nat) : (x.s n).delivered <+: (x.s (n + k)).delivered := (x.grow n k).delivered
theorem removed_prefix (x : CExec v cap) (n k : Nat) : (x.s n).removed <+: (x.s (n + k)).removed := (x.grow n k).removed

/-- Everything in a log at instant `n` entered it at some earlier instant (the logs start empty). -/
theorem accepted_at_some (x : CExec v cap) (m : Msg) : ∀ n, m ∈ (x.s n).accepted → ∃ i, i < n ∧ AcceptedAt x i m := by
  intro n
  induction n with
  | zero => intro h; rw [x.init] at h; simp [State.init] at h
  | succ n ih =>
    intro h
    by_cases hn : m ∈ (x.s n).accepted
    · obtain ⟨i, hi, ha⟩ := ih hn; exact ⟨i, by omega, ha⟩
    · exact ⟨n, by omega, hn, h⟩

theorem delivered_at_some (x : CExec v cap) (m : Msg) : ∀ n, m ∈ (x.s n).delivered → ∃ i, i < n ∧ DeliveredAt x i m := by
  intro n
  induction n with
  | zero => intro h; rw [x.init] at h; simp [State.init] at h
  | succ n ih =>
    intro h
    by_cases hn : m ∈ (x.s n).delivered
    · obtain ⟨i, hi, ha⟩ := ih hn; exact ⟨i, by omega, ha⟩
    · exact ⟨n, by omega, hn, h⟩

/-! ### C02 in real time -/

/-- **C02 (acceptance order in the log = acceptance order in time).** A value accepted at an earlier
    instant stands earlier in the `accepted` log, at every later instant.  A send that has returned,
    or has registered as a blocked / pending sender, before another send begins was accepted at an
    earlier instant than that other send's value. -/
theorem c02_accept_order (x : CExec v cap) (i j : Nat) (a b : Msg) (ha : AcceptedAt x i a)
    (hb : AcceptedAt x j b) (hij : i < j) (k : Nat) (hk : j < k) : [a, b].Sublist (x.s k).accepted := by
  have haj : a ∈ (x.s j).accepted := (x.grow_le (show i + 1 ≤ j by omega)).accepted.subset ha.2
  obtain ⟨t, ht⟩ := (x.grow_le (show j ≤ j + 1 by omega)).accepted
  have hbt : b ∈ t := by
    have := hb.2
    rw [← ht, List.mem_append] at this
    rcases this with h | h
    · exact absurd h hb.1
    · exact h
  have h1 : [a, b].Sublist ((x.s j).accepted ++ t) :=
    List.Sublist.append (List.singleton_sublist.mpr haj) (List.singleton_sublist.mpr hbt)
  rw [ht] at h1
  exact h1.trans (x.grow_le (show j + 1 ≤ k by omega)).accepted.sublist

/-- Delivered values were accepted. -/
theorem delivered_sub_accepted (s : State) (h : Reach Variant.good s) (m : Msg) (hm : m ∈ s.delivered) :
    m ∈ s.accepted := by
  have hord := (C02.c02_fifo s h).1
  have : m ∈ s.accepted.filter (fun m => !s.removed.contains m) := by rw [hord]; simp [hm]
  exact (List.mem_filter.mp this).1

/-- **C02 (real-time FIFO).** If `a` is accepted at an earlier instant than `b`, `b` is taken by a receive
    operation at instant `d`, and `a` has not been withdrawn by then (timed out, cancelled, closed away),
    then `a` is taken at an instant `d' ≤ d`: the later value is never taken before the earlier one.
    The instant of delivery lies inside the receive call that obtains the value, so no receive that
    obtains the later value completes before a receive that obtains the earlier one begins. -/
theorem c02_realtime_fifo (x : CExec Variant.good cap) (i j d : Nat) (a b : Msg) (ha : AcceptedAt x i a)
    (hb : AcceptedAt x j b) (hij : i < j) (hd : DeliveredAt x d b) (hrem : a ∉ (x.s (d + 1)).removed) :
    ∃ d', d' ≤ d ∧ DeliveredAt x d' a := by
  have hr := x.reach (d + 1)
  -- `b` is delivered at `d + 1`, hence accepted by then: `j < d + 1`
  have hbacc : b ∈ (x.s (d + 1)).accepted := delivered_sub_accepted _ hr b hd.2
  have hjd : j < d + 1 := by
    rcases Nat.lt_or_ge j (d + 1) with h | h
    · exact h
    · exact absurd ((x.grow_le h).accepted.subset hbacc) hb.1
  have hab := c02_accept_order x i j a b ha hb hij (d + 1) hjd
  have haacc : a ∈ (x.s (d + 1)).accepted := hab.subset (by simp)
  -- `a` is delivered or still inside the channel; the latter is overtaking
  have hord := (C02.c02_fifo _ hr).1
  have hmem : a ∈ (x.s (d + 1)).delivered ++ chanOrder (x.s (d + 1)) := by
    rw [← hord]; exact List.mem_filter.mpr ⟨haacc, by simpa using hrem⟩
  rcases List.mem_append.mp hmem with h | h
  · obtain ⟨d', hd', hda⟩ := delivered_at_some x a (d + 1) h
    exact ⟨d', by omega, hda⟩
  · exact absurd hd.2 (fun hbd => C02.c02_no_overtaking _ hr a b hab h hbd)

/-- The form with "never withdrawn". -/
theorem c02_realtime_fifo' (x : CExec Variant.good cap) (i j d : Nat) (a b : Msg) (ha : AcceptedAt x i a)
    (hb : AcceptedAt x j b) (hij : i < j) (hd : DeliveredAt x d b) (hrem : ∀ k, a ∉ (x.s k).removed) :
    ∃ d', d' ≤ d ∧ DeliveredAt x d' a :=
  c02_realtime_fifo x i j d a b ha hb hij hd (hrem _)

theorem pair_sublist_right {a b : Msg} {l1 l2 : List Msg} (hs : [a, b].Sublist (l1 ++ l2))
    (ha : a ∈ l2) (hd : (l1 ++ l2).Nodup) : [a, b].Sublist l2 := by
  rw [List.sublist_append_iff] at hs
  obtain ⟨s1, s2, he, h1, h2⟩ := hs
  have hdisj : ∀ x, x ∈ l1 → x ∈ l2 → False := by
    intro x hx1 hx2
    rw [List.nodup_append] at hd
    exact hd.2.2 x hx1 x hx2 rfl
  match s1, s2, he with
  | [], _, he => simp at he; subst he; exact h2
  | [x], s2, he =>
    simp at he; obtain ⟨rfl, rfl⟩ := he
    exact absurd ha (fun h => hdisj _ (h1.subset (by simp)) h)
  | [x, y], s2, he =>
    simp at he; obtain ⟨rfl, rfl, rfl⟩ := he
    exact absurd ha (fun h => hdisj _ (h1.subset (by simp)) h)
  | x :: y :: z :: r, s2, he => simp at he

/-- **C02 (a drain hands values out in acceptance order).** A single `drain_into` that returns both `a`
    and `b`, where `a` was accepted before `b`, returns `a` before `b`. -/
theorem c02_drain_order (s s' : State) (h : Reach Variant.good s) (n : Nat) (ms : List Msg)
    (e : step Variant.good s .drain = some (s', .drained n ms)) (a b : Msg)
    (hab : [a, b].Sublist s.accepted) (ha : a ∈ ms) (hb : b ∈ ms) : [a, b].Sublist ms := by
  have hrc : s.chan.recvCount ≠ 0 := by
    intro h0
    have := C19.c19_closed _ s _ h0 e
    simp at this
  have hms : ms = chanOrder s := by
    have := (C19.c19_drain _ s _ hrc e).1
    simp at this
    exact this.2
  subst hms
  obtain ⟨hord, hnd⟩ := C02.c02_fifo s h
  have hf := reach_fifo s h
  have hna : (!s.removed.contains a) = true := by
    simp; intro hr; exact (hf.removedSub a hr).2.2 ha
  have hnb : (!s.removed.contains b) = true := by
    simp; intro hr; exact (hf.removedSub b hr).2.2 hb
  have h1 : ([a, b].filter (fun m => !s.removed.contains m)).Sublist (s.accepted.filter (fun m => !s.removed.contains m)) :=
    hab.filter _
  have h2 : [a, b].filter (fun m => !s.removed.contains m) = [a, b] := by
    rw [List.filter_cons_of_pos (by simpa using hna), List.filter_cons_of_pos (by simpa using hnb)]; rfl
  rw [h2, hord] at h1
  have hnd2 : (s.delivered ++ chanOrder s).Nodup := by
    rw [← hord]; exact hnd.filter _
  exact pair_sublist_right h1 ha hnd2

/-- … along an execution: a `drain` step at instant `n`. -/
theorem c02_drain_order_exec (x : CExec Variant.good cap) (n cnt : Nat) (ms : List Msg)
    (e : step Variant.good (x.s n) .drain = some (x.s (n + 1), .drained cnt ms)) (i j : Nat) (a b : Msg)
    (ha : AcceptedAt x i a) (hb : AcceptedAt x j b) (hij : i < j) (ham : a ∈ ms) (hbm : b ∈ ms) :
    [a, b].Sublist ms := by
  have hr := x.reach n
  have hrc : (x.s n).chan.recvCount ≠ 0 := by
    intro h0
    have := C19.c19_closed _ _ _ h0 e
    simp at this
  have hms : ms = chanOrder (x.s n) := by
    have := (C19.c19_drain _ _ _ hrc e).1
    simp at this
    exact this.2
  have hbacc : b ∈ (x.s n).accepted := by
    have hord := (C02.c02_fifo _ hr).1
    have : b ∈ (x.s n).accepted.filter (fun m => !(x.s n).removed.contains m) := by
      rw [hord, ← hms]; simp [hbm]
    exact (List.mem_filter.mp this).1
  have hjn : j < n := by
    rcases Nat.lt_or_ge j n with h | h
    · exact h
    · exact absurd ((x.grow_le h).accepted.subset hbacc) hb.1
  exact c02_drain_order _ _ hr cnt ms e a b (c02_accept_order x i j a b ha hb hij n hjn) ham hbm

/-! ### C08 in real time -/

/-- No step changes the capacity. -/
theorem step_capacity {s : State} {l : Label} {p : State × Res} (e : step v s l = some p) :
    p.1.chan.capacity = s.chan.capacity := by
  by_cases hl : Label.isPlain l = true
  · exact (step_quiet hl e).1.1
  · cases l <;> simp [Label.isPlain] at hl <;> simp only [step] at e
    case clone side => cases side <;> simp only at e <;> step_leaves e <;> simp [cloneCS] <;> split <;> rfl
    case dropHandle side =>
      cases side <;> simp only at e <;> step_leaves e <;>
        simp [dropCS, terminateAll] <;> grind
    case close =>
      step_leaves e
      · rfl
      · rename_i heq
        unfold closeCS at heq
        split at heq <;> cases heq
        simp

theorem _root_.Kanal.C06.CExec.capacity (x : CExec v cap) (n : Nat) : (x.s n).chan.capacity = cap := by
  induction n with
  | zero => rw [x.init]; rfl
  | succ n ih =>
    cases hl : x.l n with
    | none => rw [x.next_none hl]; exact ih
    | some lab =>
      obtain ⟨r, e⟩ := x.next_some hl
      have := step_capacity e
      simp only at this
      rw [this]; exact ih

/-- **C08 (capacity in real time).** At every instant of an execution on a channel bounded to `c`: the values
    accepted and not withdrawn are exactly those delivered, those in the buffer and those waiting in blocked /
    pending senders' slots; hence (accepted, not withdrawn, not waiting in a blocked sender) − (delivered) is the
    buffer length, which is at most `c`.  A send reports success only for a value counted on the left. -/
theorem c08_realtime (x : CExec Variant.good (some c)) (n : Nat) :
    ((x.s n).accepted.filter (fun m => !(x.s n).removed.contains m)).length =
      (x.s n).delivered.length + (x.s n).chan.queue.length + (sendWaiters (x.s n).chan).length ∧
    (x.s n).chan.queue.length ≤ c ∧
    ((x.s n).accepted.filter (fun m => !(x.s n).removed.contains m)).length - (sendWaiters (x.s n).chan).length -
      (x.s n).delivered.length ≤ c := by
  obtain ⟨h1, h2⟩ := C08.c08_backpressure _ (x.reach n)
  have hq : (x.s n).chan.queue.length ≤ c := by
    unfold WithinCap at h2
    rw [x.capacity n] at h2
    exact h2
  exact ⟨h1, hq, by omega⟩

/-- **C08 (rendezvous in real time).** With capacity 0, at every instant every value that was accepted, not
    withdrawn and is not waiting in a blocked / pending sender's slot has been delivered: the accepted,
    non-withdrawn values are the delivered ones followed by the blocked senders' values. -/
theorem c08_realtime_rendezvous (x : CExec Variant.good (some 0)) (n : Nat) :
    (x.s n).chan.queue = [] ∧
    (x.s n).accepted.filter (fun m => !(x.s n).removed.contains m) =
      (x.s n).delivered ++ (sendWaiters (x.s n).chan).map (x.s n).slotMsg := by
  have hq : (x.s n).chan.queue = [] := by
    have := (c08_realtime x n).2.1
    exact List.eq_nil_of_length_eq_zero (by omega)
  refine ⟨hq, ?_⟩
  rw [(C02.c02_fifo _ (x.reach n)).1, chanOrder, hq]
  rfl

/-! ### C10 in real time -/

/-- Once closed, closed for ever. -/
theorem step_closedOnce {s : State} {l : Label} {p : State × Res} (e : step v s l = some p)
    (h : s.closedOnce = true) : p.1.closedOnce = true := by
  by_cases hl : Label.isPlain l = true
  · rw [(step_quiet hl e).2.2.2]; exact h
  · cases l <;> simp [Label.isPlain] at hl <;> simp only [step] at e
    case clone side => cases side <;> simp only at e <;> step_leaves e <;> exact h
    case dropHandle side =>
      cases side <;> simp only at e <;> step_leaves e <;>
        simp [h]
    case close =>
      step_leaves e
      · exact h
      · simp

/-- **C10 (close in real time).** If a `close()` succeeds at instant `n`, then at every later instant `k > n`:
    the channel is marked closed, both counts are zero and `is_closed()` holds; nothing has been delivered since
    `close()` returned; and whatever operation happens at instant `k` — every send of either flavour fails with
    the closed error, every receive / try-receive / drain fails with the closed error leaving the state unchanged,
    a future polled for the first time completes with the closed error (a stream: ends), a second `close()` reports
    the close error. -/
theorem c10_realtime (x : CExec Variant.good cap) (n : Nat)
    (e : step Variant.good (x.s n) .close = some (x.s (n + 1), .unit)) (k : Nat) (hk : n < k) :
    (x.s k).closedOnce = true ∧ (x.s k).chan.closed = true ∧
    (x.s k).chan.sendCount = 0 ∧ (x.s k).chan.recvCount = 0 ∧
    (x.s k).delivered = (x.s (n + 1)).delivered ∧
    (∀ m kind opt p, step Variant.good (x.s k) (.send m kind opt) = some p → p.2 = .err .closed) ∧
    (∀ m opt rt p, step Variant.good (x.s k) (.trySend m opt rt) = some p → p.2 = .err .closed) ∧
    (∀ kind ex p, step Variant.good (x.s k) (.recv kind ex) = some p → p.2 = .err .closed ∧ p.1 = x.s k) ∧
    (∀ rt p, step Variant.good (x.s k) (.tryRecv rt) = some p → p.2 = .err .closed ∧ p.1 = x.s k) ∧
    (∀ p, step Variant.good (x.s k) .drain = some p → p = (x.s k, .err .closed)) ∧
    (∀ f w p g, step Variant.good (x.s k) (.pollSend f w) = some p → (x.s k).sigs[f]? = some g → g.fut = .zero →
        p.2 = .err .closed) ∧
    (∀ f w p g, step Variant.good (x.s k) (.pollRecv f w) = some p → (x.s k).sigs[f]? = some g → g.fut = .zero →
        p.2 = .err .closed ∨ p.2 = .streamEnd) ∧
    (∀ p, step Variant.good (x.s k) .close = some p → p = (x.s k, .err .closeErr)) := by
  -- closed at `n + 1`
  have h1 : (x.s (n + 1)).closedOnce = true := by
    have ho := C10.c10_once _ _ (x.reach n) _ e
    cases hc : (x.s n).closedOnce with
    | false => exact (ho.1 hc).2
    | true => have := ho.2 hc; simp at this
  -- and at every later instant, with the same delivery log
  have h2 : ∀ d, (x.s (n + 1 + d)).closedOnce = true ∧ (x.s (n + 1 + d)).delivered = (x.s (n + 1)).delivered := by
    intro d
    induction d with
    | zero => exact ⟨h1, rfl⟩
    | succ d ih =>
      cases hl : x.l (n + 1 + d) with
      | none =>
        show (x.s (n + 1 + d + 1)).closedOnce = true ∧ (x.s (n + 1 + d + 1)).delivered = _
        rw [x.next_none hl]; exact ih
      | some lab =>
        obtain ⟨r, es⟩ := x.next_some hl
        exact ⟨step_closedOnce es ih.1,
          (C10.c10_no_delivery_after _ _ (x.reach _) ih.1 lab _ es).trans ih.2⟩
  obtain ⟨d, rfl⟩ : ∃ d, k = n + 1 + d := ⟨k - (n + 1), by omega⟩
  obtain ⟨hc, hdel⟩ := h2 d
  have hr := x.reach (n + 1 + d)
  obtain ⟨hs0, hr0⟩ := (countInv_reach _ _ hr).2 hc
  obtain ⟨a1, a2, a3, a4, a5, -, -, -⟩ := C10.c10_after _ _ hr hc
  obtain ⟨b1, b2⟩ := C10.c10_after_futures _ _ hr hc
  exact ⟨hc, by simp [Chan.closed, hs0, hr0], hs0, hr0, hdel, a1, a2, a3, a4, a5, b1, b2,
    fun p ep => (C10.c10_once _ _ hr p ep).2 hc⟩

/-! ### Non-vacuity -/

/-- Capacity 2: two sends (both buffered), two receives. -/
def rdemoLs : List Label := [.send 1 .sync false, .send 2 .sync false, .tryRecv false, .tryRecv false]

def rdemoS : Nat → State
  | 0 => State.init (some 2)
  | n + 1 => match rdemoLs[n]? with
    | some lab => match step Variant.good (rdemoS n) lab with
      | some p => p.1
      | none => rdemoS n
    | none => rdemoS n

theorem rdemoLs_tail (k : Nat) : rdemoLs[4 + k]? = none :=
  List.getElem?_eq_none (by simp [rdemoLs])

def rdemo : CExec Variant.good (some 2) where
  s := rdemoS
  l := fun n => rdemoLs[n]?
  init := rfl
  next := fun n => by
    match n with
    | 0 => exact step_fst_of_isSome (s := rdemoS 0) (l := .send 1 .sync false) (by decide)
    | 1 => exact step_fst_of_isSome (s := rdemoS 1) (l := .send 2 .sync false) (by decide)
    | 2 => exact step_fst_of_isSome (s := rdemoS 2) (l := .tryRecv false) (by decide)
    | 3 => exact step_fst_of_isSome (s := rdemoS 3) (l := .tryRecv false) (by decide)
    | n + 4 =>
      have h : rdemoLs[n + 4]? = none := by rw [Nat.add_comm]; exact rdemoLs_tail n
      simp only [h]
      rw [rdemoS, h]

theorem rdemo_facts : AcceptedAt rdemo 0 1 ∧ AcceptedAt rdemo 1 2 ∧ DeliveredAt rdemo 3 2 ∧ DeliveredAt rdemo 2 1 ∧
    1 ∉ (rdemo.s 4).removed := by
  refine ⟨⟨?_, ?_⟩, ⟨?_, ?_⟩, ⟨?_, ?_⟩, ⟨?_, ?_⟩, ?_⟩ <;> decide

/-- Theorem `c02_realtime_fifo` applied to the concrete execution: value 2 is taken at instant 3, so value 1
    (accepted earlier) is taken at an instant `≤ 3` (in fact at 2). -/
example : ∃ d', d' ≤ 3 ∧ DeliveredAt rdemo d' 1 :=
  c02_realtime_fifo rdemo 0 1 3 1 2 rdemo_facts.1 rdemo_facts.2.1 (by decide) rdemo_facts.2.2.1 rdemo_facts.2.2.2.2

example : [1, 2].Sublist (rdemo.s 7).accepted :=
  c02_accept_order rdemo 0 1 1 2 rdemo_facts.1 rdemo_facts.2.1 (by decide) 7 (by decide)

example : (rdemo.s 2).chan.queue.length ≤ 2 := (c08_realtime rdemo 2).2.1

end Kanal.RealTime

#print axioms Kanal.C06.CExec.grow
#print axioms Kanal.RealTime.accepted_prefix
#print axioms Kanal.RealTime.delivered_prefix
#print axioms Kanal.RealTime.accepted_at_some
#print axioms Kanal.RealTime.delivered_at_some
#print axioms Kanal.RealTime.c02_accept_order
#print axioms Kanal.RealTime.c02_realtime_fifo
#print axioms Kanal.RealTime.c02_realtime_fifo'
#print axioms Kanal.RealTime.c02_drain_order
#print axioms Kanal.RealTime.c02_drain_order_exec
#print axioms Kanal.C06.CExec.capacity
#print axioms Kanal.RealTime.c08_realtime
#print axioms Kanal.RealTime.c08_realtime_rendezvous
#print axioms Kanal.RealTime.step_closedOnce
#print axioms Kanal.RealTime.c10_realtime
#print axioms Kanal.RealTime.rdemo_facts
