/-
  C08 — capacity is respected: back-pressure and rendezvous.
-/
import Kanal.Lemmas.All
import Kanal.Tie

namespace Kanal.C08
open Kanal Chan

/-- **C08 (length).** The buffer never holds more than the capacity (any capacity, any reachable
    state, any variant of the cleanup facts); `len()` is that length. -/
theorem c08_len (v : Variant) (s : State) (h : Reach v s) : s.chan.WithinCap ∧ s.chan.len = s.chan.queue.length := by
  refine ⟨?_, rfl⟩
  induction h with
  | init cap => exact (inv_new cap).cap
  | step hr e ih =>
    have : ∀ s, Reach v s → s.chan.Inv := by
      intro s hs
      induction hs with
      | init cap => exact inv_new cap
      | step _ e ih => exact step_chanInv ih e
    exact (step_chanInv (this _ hr) e).cap

/-- Every reachable state satisfies the list discipline. -/
theorem reach_chanInv (v : Variant) (s : State) (h : Reach v s) : s.chan.Inv := by
  induction h with
  | init cap => exact inv_new cap
  | step _ e ih => exact step_chanInv ih e

/-- **C08 (a waiter waits for a reason).** Senders are blocked/pending only while the buffer is
    full; receivers only while it is empty. -/
theorem c08_wait_justified (v : Variant) (s : State) (h : Reach v s) (hw : s.chan.waitList ≠ []) :
    (s.chan.recvBlocking = false → s.chan.hasRoom = false) ∧ (s.chan.recvBlocking = true → s.chan.queue = []) :=
  ⟨(reach_chanInv v s h).sendWait hw, (reach_chanInv v s h).recvWait hw⟩

/-- **C08 (refusal).** A non-blocking send on an open channel is refused (and a blocking one has to
    wait) exactly when no receiver is waiting and the buffer has no room. -/
theorem c08_full_iff (c : Chan) (m : Msg) :
    (c.sendPre m).2 = .full ↔ c.recvCount ≠ 0 ∧ (c.recvBlocking = false ∨ c.waitList = []) ∧ c.hasRoom = false := by
  unfold sendPre nextRecv hasRoom
  by_cases hr : c.recvCount = 0
  · simp [hr]; split <;> simp
  · cases hb : c.recvBlocking <;> simp [hr]
    · cases hc : c.capacity <;> simp [hc, hasRoom] <;> split <;> simp_all
    · cases hw : c.waitList <;> simp
      cases hc : c.capacity <;> simp [hc, hasRoom] <;> split <;> simp_all

/-- **C08 (unbounded).** An unbounded channel never refuses a send and never makes one wait. -/
theorem c08_unbounded (c : Chan) (m : Msg) (hc : c.capacity = none) : (c.sendPre m).2 ≠ .full := by
  intro h
  have := (c08_full_iff c m).mp h
  simp [hasRoom, hc] at this

/-- **C08 (rendezvous).** With capacity 0 nothing is ever buffered: a send succeeds at once only by
    handing its value to a receiver that is already waiting; otherwise it registers and succeeds
    only when a receiver takes the value out of its slot. -/
theorem c08_rendezvous (v : Variant) (s : State) (h : Reach v s) (hc : s.chan.capacity = some 0) (m : Msg) :
    s.chan.queue = [] ∧ (s.chan.sendPre m).2 ≠ .buffered := by
  have hcap := (c08_len v s h).1
  unfold WithinCap at hcap
  rw [hc] at hcap
  have hq : s.chan.queue = [] := by simpa using hcap
  refine ⟨hq, ?_⟩
  intro hb
  unfold sendPre at hb
  split at hb
  · split at hb <;> simp at hb
  · split at hb
    · simp at hb
    · rename_i c1 heq
      have hn := nextRecv_none heq
      split at hb
      · rename_i hroom
        unfold hasRoom at hroom
        rw [hn.2.2.1, hc] at hroom
        simp at hroom
      · simp at hb

/-- **C08 (back-pressure).** At every instant: (values accepted and not withdrawn, whose send is
    not currently blocked) − (values taken by receive operations) = buffer length ≤ capacity.
    A send reports success only for a value counted on the left, so successful sends exceed
    values taken by at most the capacity. -/
theorem c08_backpressure (s : State) (h : Reach Variant.good s) :
    (s.accepted.filter (fun m => !s.removed.contains m)).length =
      s.delivered.length + s.chan.queue.length + (sendWaiters s.chan).length ∧ s.chan.WithinCap := by
  have := (reach_fifo s h).order
  refine ⟨?_, (c08_len _ s h).1⟩
  rw [this]; simp [chanOrder]; omega

/-- `is_full()` agrees with the buffer length. -/
theorem c08_is_full (c : Chan) : c.isFull = true ↔ c.capacity = some c.queue.length := by
  unfold isFull; cases c.capacity <;> simp

/-- All eight admission tests in the source are the modelled `len < capacity`, after the closed test
    and the search for a waiting receiver. -/
theorem c08_this_tree : Generated.admission.map (·.2) = List.replicate 8 .lt ∧
    Generated.send_guards.map (·.2) = List.replicate 8 (.eq, .eq, true) :=
  ⟨Tie.admission_ok, Tie.send_guards_ok⟩

/-- Non-vacuity: capacity 1: the second send must wait, and the count equation has every term non-zero. -/
example : ∃ s rs, run Variant.good (State.init (some 1))
    [.send 1 .sync false, .send 2 .sync false, .tryRecv false, .send 3 .sync false] = some (s, rs) ∧
    rs = [.unit, .blocked 0, .val 1, .blocked 1] ∧ s.chan.queue = [2] ∧ sendWaiters s.chan = [1] := by
  refine ⟨_, _, rfl, ?_, ?_, ?_⟩ <;> decide

end Kanal.C08

#print axioms Kanal.C08.c08_len
#print axioms Kanal.C08.c08_wait_justified
#print axioms Kanal.C08.c08_full_iff
#print axioms Kanal.C08.c08_unbounded
#print axioms Kanal.C08.c08_rendezvous
#print axioms Kanal.C08.c08_backpressure
#print axioms Kanal.C08.c08_is_full
#print axioms Kanal.C08.c08_this_tree
