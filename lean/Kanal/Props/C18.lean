/-
  C18 — single-threaded behaviour equals a simple reference channel.

  The reference *is* `Kanal.seqStep` (the atomic channel read sequentially); the
  property's quantifier (all call sequences) is covered by the sequential
  differential, exhaustively to a length bound and randomly beyond.  The
  theorems here make the oracle a reference worth the name: it is a function,
  it is defined exactly on the calls safe Rust can make, and on a channel
  without waiters it is the textbook bounded FIFO queue.
-/
import Kanal.Seq
import Kanal.Lemmas.ChanInv

namespace Kanal.C18
open Kanal Chan

/-- The calls safe Rust can make in state `s` (a live handle of the right side,
    a fresh message, an existing future/waiter of the right kind). -/
def Enabled (s : State) : Label → Prop
  | .send m kind _ => s.liveS ≠ 0 ∧ s.cust m = .fresh ∧ kind ≠ .async
  | .trySend m _ _ => s.liveS ≠ 0 ∧ s.cust m = .fresh
  | .recv kind _ => s.liveR ≠ 0 ∧ kind ≠ .async
  | .tryRecv _ => s.liveR ≠ 0
  | .drain => s.liveR ≠ 0
  | .complete i => ∃ g, s.sigs[i]? = some g ∧ g.alive = true ∧ g.kind ≠ .async ∧ g.st ≠ .pending
  | .expire i => ∃ g, s.sigs[i]? = some g ∧ g.alive = true ∧ g.kind = .timed ∧ g.st = .pending
  | .finalize i => ∃ g, s.sigs[i]? = some g ∧ g.claimed = true ∧ g.st = .pending
  | .newSendFut m => s.liveS ≠ 0 ∧ s.cust m = .fresh
  | .pollSend f _ => ∃ g, s.sigs[f]? = some g ∧ g.alive = true ∧ g.kind = .async ∧ g.role = .send ∧
      (g.fut = .zero → g.slot.isSome)
  | .dropSendFut f => ∃ g, s.sigs[f]? = some g ∧ g.alive = true ∧ g.kind = .async ∧ g.role = .send
  | .newRecvFut _ => s.liveR ≠ 0
  | .pollRecv f _ => ∃ g, s.sigs[f]? = some g ∧ g.alive = true ∧ g.kind = .async ∧ g.role = .recv
  | .dropRecvFut f => ∃ g, s.sigs[f]? = some g ∧ g.alive = true ∧ g.kind = .async ∧ g.role = .recv
  | .dropHandle .send => s.liveS ≠ 0 ∧ (s.liveS = 1 → s.aliveSigs .send = 0)
  | .dropHandle .recv => s.liveR ≠ 0 ∧ (s.liveR = 1 → s.aliveSigs .recv = 0)
  | .clone .send | .convert .send | .isDisconnected .send => s.liveS ≠ 0
  | .clone .recv | .convert .recv | .isDisconnected .recv | .isTerminated => s.liveR ≠ 0
  | .close | .len | .isEmpty | .isFull | .capacity | .isBounded | .senderCount | .receiverCount
  | .isClosed => s.liveS + s.liveR ≠ 0

/-- The oracle is total on exactly the calls safe Rust can make: it never gets
    stuck and never answers a call that cannot be made. -/
theorem c18_total (v : Variant) (s : State) (l : Label) :
    (step v s l).isSome ↔ Enabled s l := by
  cases l <;> simp only [step, Enabled]
  case send m kind opt => by_cases h1 : s.liveS = 0 <;> by_cases h2 : s.cust m = .fresh <;> by_cases h3 : kind = .async <;> simp [h1, h2, h3]
  case trySend m opt rt =>
    by_cases h1 : s.liveS = 0 <;> by_cases h2 : s.cust m = .fresh <;> simp [h1, h2]
    split <;> simp
  case recv kind e =>
    by_cases h1 : s.liveR = 0 <;> by_cases h3 : kind = .async <;> simp [h1, h3]
    split <;> simp
  case tryRecv => by_cases h1 : s.liveR = 0 <;> simp [h1]
  case drain =>
    by_cases h1 : s.liveR = 0 <;> simp [h1]
    split <;> simp
  case complete i =>
    cases hg : s.sigs[i]? with
    | none => simp
    | some g =>
      by_cases h1 : g.alive = true <;> by_cases h2 : g.kind = .async <;> by_cases h3 : g.st = .pending <;> simp [h1, h2, h3]
      all_goals (repeat' split) <;> simp
  case expire i =>
    cases hg : s.sigs[i]? with
    | none => simp
    | some g =>
      by_cases h1 : g.alive = true <;> by_cases h2 : g.kind = .timed <;> by_cases h3 : g.st = .pending <;> simp [h1, h2, h3]
      all_goals (repeat' split) <;> simp
  case finalize i =>
    cases hg : s.sigs[i]? with
    | none => simp
    | some g => by_cases h1 : g.claimed = true <;> by_cases h3 : g.st = .pending <;> simp [h1, h3]
  case newSendFut m => by_cases h1 : s.liveS = 0 <;> by_cases h2 : s.cust m = .fresh <;> simp [h1, h2, State.newSig]
  case pollSend f w =>
    cases hg : s.sigs[f]? with
    | none => simp
    | some g =>
      by_cases h1 : g.alive = true <;> by_cases h2 : g.kind = .async <;> by_cases h3 : g.role = .send <;> simp [h1, h2, h3]
      cases hf : g.fut <;> simp
      · cases hs : g.slot <;> simp
        repeat' split
        all_goals simp
      · repeat' split
        all_goals simp
  case dropSendFut f =>
    cases hg : s.sigs[f]? with
    | none => simp
    | some g =>
      by_cases h1 : g.alive = true <;> by_cases h2 : g.kind = .async <;> by_cases h3 : g.role = .send <;> simp [h1, h2, h3]
      repeat' split
      all_goals simp
  case newRecvFut st => by_cases h1 : s.liveR = 0 <;> simp [h1, State.newSig]
  case pollRecv f w =>
    cases hg : s.sigs[f]? with
    | none => simp
    | some g =>
      by_cases h1 : g.alive = true <;> by_cases h2 : g.kind = .async <;> by_cases h3 : g.role = .recv <;> simp [h1, h2, h3]
      repeat' split
      all_goals simp
  case dropRecvFut f =>
    cases hg : s.sigs[f]? with
    | none => simp
    | some g =>
      by_cases h1 : g.alive = true <;> by_cases h2 : g.kind = .async <;> by_cases h3 : g.role = .recv <;> simp [h1, h2, h3]
      repeat' split
      all_goals simp
  case clone side => cases side <;> simp <;> split <;> simp_all
  case dropHandle side => cases side <;> simp <;> (repeat' split) <;> simp_all <;> grind
  case convert side => cases side <;> simp <;> split <;> simp_all
  case close =>
    by_cases h : s.liveS + s.liveR = 0
    · simp [h]
    · simp only [h, if_false]
      split <;> simp <;> omega
  case isDisconnected side => cases side <;> simp <;> split <;> simp_all
  all_goals (split <;> simp_all <;> omega)


/-- Non-vacuity of `c18_total`: a concrete reachable state enables both families. -/
example : Enabled (State.init (some 1)) (.send 7 .sync false) ∧ Enabled (State.init (some 1)) (.tryRecv false) := by
  simp [Enabled, State.init]

/-- The oracle is a function of the state and the call: one call, one result. -/
theorem c18_deterministic (v : Variant) (s : State) (l : Label) (a b : State × Res)
    (ha : step v s l = some a) (hb : step v s l = some b) : a = b := by
  rw [ha] at hb; cases hb; rfl

/-! ### On a channel without waiters the oracle is the textbook bounded FIFO queue -/

/-- A send on an open channel with nobody waiting appends to the buffer iff there is room;
    otherwise it is `full` and the buffer is unchanged. -/
theorem c18_queue_send (c : Chan) (m : Msg) (hw : c.waitList = []) (hr : c.recvCount ≠ 0) :
    (c.hasRoom = true → (c.sendPre m).2 = .buffered ∧ (c.sendPre m).1.queue = c.queue ++ [m]) ∧
    (c.hasRoom = false → (c.sendPre m).2 = .full ∧ (c.sendPre m).1.queue = c.queue) ∧
    (c.sendPre m).1.waitList = [] := by
  unfold sendPre nextRecv hasRoom
  cases hb : c.recvBlocking <;> cases hc : c.capacity <;> simp [hw, hr, hc] <;> split <;> simp_all

/-- A receive with nobody waiting pops the head of the buffer; on an empty buffer it
    takes nothing. -/
theorem c18_queue_recv (c : Chan) (slot : SigId → Msg) (t e : Bool) (hw : c.waitList = []) (hr : c.recvCount ≠ 0) :
    (∀ v q, c.queue = v :: q → (c.recvPre slot t e).2 = .fromQueue v none ∧ (c.recvPre slot t e).1.queue = q) ∧
    (c.queue = [] → (c.recvPre slot t e).1.queue = [] ∧
      ((c.recvPre slot t e).2 = .empty ∨ (c.recvPre slot t e).2 = .errSendClosed ∨ (c.recvPre slot t e).2 = .timeout)) ∧
    (c.recvPre slot t e).1.waitList = [] := by
  unfold recvPre nextSend
  cases hq : c.queue <;> cases hb : c.recvBlocking <;> simp [hw, hr] <;> (repeat' split) <;> simp_all

/-- The observers are the list's. -/
theorem c18_observers (c : Chan) :
    c.len = c.queue.length ∧ c.isEmpty = c.queue.isEmpty ∧
    (c.isFull = true ↔ c.capacity = some c.queue.length) ∧
    (c.isBounded = true ↔ c.capacity ≠ none) := by
  refine ⟨rfl, rfl, ?_, ?_⟩
  · unfold isFull; cases c.capacity <;> simp
  · unfold isBounded; cases c.capacity <;> simp

/-- Non-vacuity: a two-place channel holding one value accepts a second and delivers the first. -/
example :
    let c : Chan := { Chan.new (some 2) with queue := [5] }
    (c.sendPre 6).1.queue = [5, 6] ∧ (c.recvPre (fun _ => 0) false false).2 = .fromQueue 5 none := by
  decide

end Kanal.C18

#print axioms Kanal.C18.c18_total
#print axioms Kanal.C18.c18_deterministic
#print axioms Kanal.C18.c18_queue_send
#print axioms Kanal.C18.c18_queue_recv
#print axioms Kanal.C18.c18_observers
