/-
  C07 — the hand-off is memory-safe: no data race, no access after the waiter is gone.
  (Shares the signal-protocol model `Kanal.SigM` and its invariant with C06.)

  What the channel-level model (`Kanal.step`) assumes about a hand-off — that between a peer's
  critical section and its final store nobody but that peer touches the popped waiter's slot,
  that the waiter resumes only after the final store and then sees everything the peer did,
  and that the peer never touches the signal after its final store — is what is proved here
  about the protocol `wait / wait_timeout / poll / async_blocking_wait` vs. `wake`, for every
  interleaving of the waiter and the peer, spurious unparks included, for all three waiter
  kinds and both final states, under the orderings extracted from the source.

  [partial] The memory model is values-SC + happens-before flags on the extracted
  release/acquire edges (not full C11: no load buffering, release sequences or SC fences —
  none is used by kanal).  That `ptr::read/write` inside an ordered access is itself free of
  UB is Rust's semantics.
-/
import Kanal.SigM
import Kanal.Tie

namespace Kanal.C07
open Kanal Kanal.SigM

/-- The orderings are strong enough (what `Tie.signal_ords_ok` establishes for the source). -/
structure GoodOrds (o : Ords) : Prop where
  fence    : o.spinFence.isAcquire = true
  starvS   : o.starvCasSucc.isRelease = true
  starvF   : o.starvCasFail.isAcquire = true
  parkL    : o.parkLoad.isAcquire = true
  timedL   : o.timeoutFinal.isAcquire = true
  wakeS    : o.wakeCasSucc.isRelease = true
  wakeF    : o.wakeCasFail.isAcquire = true
  storeS   : o.wakeStoreSync.isRelease = true
  storeA   : o.wakeStoreAsync.isRelease = true

/-- The protocol invariant. -/
structure Inv (s : State) : Prop where
  noRace    : s.racy = false
  noDangle  : s.dangling = false
  finalIs   : s.st.isFinal = true → s.st = s.fin ∧ s.finRelease = true
  peerOut   : s.st.isFinal = true → (s.ppc = .done ∨ s.ppc = .unpark ∨ s.ppc = .wake)
  peerDone  : (s.ppc = .done ∨ s.ppc = .unpark ∨ s.ppc = .wake) → s.st.isFinal = true
  doneSees  : ∀ v sy, s.wpc = .done v sy → v = s.st ∧ s.st.isFinal = true ∧ (s.slotTouched = true → sy = true)
  fenceSees : ∀ v, s.wpc = .fence v → v = s.st ∧ s.st.isFinal = true
  goneFinal : s.wpc = .gone → s.st.isFinal = true
  aliveIff  : s.alive = true ↔ s.wpc ≠ .gone
  starv     : (s.st = .starvation ∨ s.ppc = .readHandle ∨ s.ppc = .storeSync) → s.cellWritten = true ∧ s.starvRelease = true
  cellSync  : (s.ppc = .readHandle) → s.peerSyncCell = true
  parkSt    : (s.wpc = .park ∨ s.wpc = .parked ∨ s.wpc = .parkLoad) → s.st ≠ .locked ∧ s.kind ≠ .async
  tokenDone : s.token = true → s.ppc = .done
  wakeup    : (s.wpc = .park ∨ s.wpc = .parked) → s.ppc = .done → s.token = true
  touched   : s.slotTouched = true → s.payload = true
  finTerm   : s.fin.isFinal = true ∧ (s.fin = .terminated → s.payload = false)
  arms      : (s.kind = .async → s.ppc ≠ .cas ∧ s.ppc ≠ .readHandle ∧ s.ppc ≠ .storeSync ∧ s.ppc ≠ .unpark ∧
                 s.wpc ≠ .publish ∧ s.wpc ≠ .casStarv ∧ s.wpc ≠ .timedFinal ∧ s.wpc ≠ .timedIsTerm) ∧
              (s.kind ≠ .async → s.ppc ≠ .cloneWaker ∧ s.ppc ≠ .storeAsync ∧ s.ppc ≠ .wake)
  timedPc   : (s.wpc = .timedFinal ∨ s.wpc = .timedIsTerm) → s.kind = .timed
  accessPc  : s.ppc = .access → s.payload = true ∧ s.slotTouched = false
  wokenLe   : s.woken ≤ 1 ∧ (s.woken = 1 ↔ (s.kind = .async ∧ s.ppc = .done))

theorem inv_init (kind : WKind) (fin : St) (payload : Bool) (hf : fin.isFinal = true)
    (ht : fin = .terminated → payload = false) : Inv (init kind fin payload) := by
  cases kind <;> cases payload <;> constructor <;> simp_all [init, St.isFinal]

set_option maxHeartbeats 1000000 in
theorem inv_step {o : Ords} (ho : GoodOrds o) {s s' : State} {e : Ev} (h : Inv s) (hs : step o s e = some s') : Inv s' := by
  obtain ⟨h1, h2, h3, h4, h5, h6, h7, h8, h9, h10, h11, h12, h13, h14, h15, h16, h17, h18, h19, h20⟩ := h
  obtain ⟨o1, o2, o3, o4, o5, o6, o7, o8, o9⟩ := ho
  cases e <;> simp only [step] at hs
  all_goals (repeat' (split at hs))
  all_goals first | (cases hs; done) | skip
  all_goals cases hs
  all_goals constructor
  all_goals simp_all [touch, St.isFinal]
  all_goals grind

end Kanal.C07
