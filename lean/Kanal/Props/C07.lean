/-
  C07 — the hand-off is memory-safe: no data race, no access after the waiter is gone.
  (Shares the signal-protocol model `Kanal.SigM` and its invariant with C06.)

  What the channel-level model (`Kanal.step`) assumes about a hand-off — that between a peer's
  critical section and its final store nobody but that peer touches the popped waiter's slot,
  that the waiter resumes only after the final store and then sees everything the peer did,
  and that the peer never touches the signal after its final store — is what is proved here
  about the protocol `wait / wait_timeout / poll / async_blocking_wait` vs. `wake`, for every
  interleaving of the waiter and the peer, spurious unparks included, for all three waiter
  kinds and both final states, under the orderings extracted from the source.

  [partial] The memory model is values-SC + happens-before flags on the extracted
  release/acquire edges (not full C11: no load buffering, release sequences or SC fences —
  none is used by kanal).  That `ptr::read/write` inside an ordered access is itself free of
  UB is Rust's semantics.
-/
import Kanal.SigM
import Kanal.Tie

namespace Kanal.C07
open Kanal Kanal.SigM

/-- The orderings are strong enough (what `Tie.signal_ords_ok` establishes for the source). -/
structure GoodOrds (o : Ords) : Prop where
  fence    : o.spinFence.isAcquire = true
  starvS   : o.starvCasSucc.isRelease = true
  starvF   : o.starvCasFail.isAcquire = true
  parkL    : o.parkLoad.isAcquire = true
  timedL   : o.timeoutFinal.isAcquire = true
  wakeS    : o.wakeCasSucc.isRelease = true
  wakeF    : o.wakeCasFail.isAcquire = true
  storeS   : o.wakeStoreSync.isRelease = true
  storeA   : o.wakeStoreAsync.isRelease = true

theorem St.final_cases (x : St) : (x.isFinal = true ∧ (x = .unlocked ∨ x = .terminated)) ∨ (x.isFinal = false ∧ (x = .locked ∨ x = .starvation)) := by
  cases x <;> simp [St.isFinal]

/-- Proof pattern: open the step, discard disabled branches, name the new state. -/
macro "sig_open" hs:ident : tactic =>
  `(tactic| (
    simp only [step] at $hs:ident
    (repeat' (split at $hs:ident))
    all_goals first | (cases $hs:ident; done) | skip
    all_goals cases $hs:ident))

/-! ### Layer A — the state word and the peer's position -/

structure InvA (s : State) : Prop where
  finalIs  : s.st.isFinal = true → s.st = s.fin
  peerOut  : s.st.isFinal = true → (s.ppc = .done ∨ s.ppc = .unpark ∨ s.ppc = .wake)
  peerDone : (s.ppc = .done ∨ s.ppc = .unpark ∨ s.ppc = .wake) → s.st.isFinal = true
  finFinal : s.fin.isFinal = true
  armA     : s.kind = .async → (s.ppc ≠ .cas ∧ s.ppc ≠ .readHandle ∧ s.ppc ≠ .storeSync ∧ s.ppc ≠ .unpark)
  armS     : s.kind ≠ .async → (s.ppc ≠ .cloneWaker ∧ s.ppc ≠ .storeAsync ∧ s.ppc ≠ .wake)
  wpcA     : s.kind = .async → (s.wpc ≠ .publish ∧ s.wpc ≠ .casStarv ∧ s.wpc ≠ .timedFinal ∧ s.wpc ≠ .timedIsTerm ∧
                s.wpc ≠ .park ∧ s.wpc ≠ .parked ∧ s.wpc ≠ .parkLoad)
  starvPc  : s.st = .starvation → (s.wpc = .park ∨ s.wpc = .parked ∨ s.wpc = .parkLoad)

theorem invA_init (kind : WKind) (fin : St) (payload : Bool) (hf : fin.isFinal = true) : InvA (init kind fin payload) := by
  cases kind <;> cases payload <;> constructor <;> simp_all [init, St.isFinal]

theorem invA_step {o : Ords} {s s' : State} {e : Ev} (h : InvA s) (hs : step o s e = some s') : InvA s' := by
  obtain ⟨h1, h2, h3, h4, h5, h6, h7, h8⟩ := h
  have hc := St.final_cases s.st
  have hf := St.final_cases s.fin
  cases e <;> sig_open hs
  all_goals constructor
  all_goals grind [touch, St.isFinal]

/-! ### The full protocol invariant -/

structure Inv (s : State) : Prop where
  a         : InvA s
  noRace    : s.racy = false
  noDangle  : s.dangling = false
  finRel    : s.st.isFinal = true → s.finRelease = true
  doneSees  : ∀ v sy, s.wpc = .done v sy → v = s.st ∧ s.st.isFinal = true ∧ (s.slotTouched = true → sy = true)
  fenceSees : ∀ v, s.wpc = .fence v → v = s.st ∧ s.st.isFinal = true
  goneFinal : s.wpc = .gone → s.st.isFinal = true
  aliveIff  : s.alive = true ↔ s.wpc ≠ .gone
  starv     : (s.st = .starvation ∨ s.ppc = .readHandle ∨ s.ppc = .storeSync ∨ s.ppc = .unpark) → s.cellWritten = true ∧ s.starvRelease = true
  cellPc    : s.wpc = .casStarv → s.cellWritten = true
  cellSync  : (s.ppc = .readHandle) → s.peerSyncCell = true
  parkSt    : (s.wpc = .park ∨ s.wpc = .parked ∨ s.wpc = .parkLoad) → s.st ≠ .locked
  tokenDone : s.token = true → s.ppc = .done
  wakeup    : (s.wpc = .park ∨ s.wpc = .parked) → s.ppc = .done → s.token = true
  touched   : s.slotTouched = true → s.payload = true
  finTerm   : s.fin = .terminated → s.payload = false
  timedPc   : (s.wpc = .timedFinal ∨ s.wpc = .timedIsTerm) → s.kind = .timed
  accessPc  : s.ppc = .access → s.payload = true ∧ s.slotTouched = false
  wokenLe   : s.woken ≤ 1 ∧ (s.woken = 1 ↔ (s.kind = .async ∧ s.ppc = .done))

theorem inv_init (kind : WKind) (fin : St) (payload : Bool) (hf : fin.isFinal = true)
    (ht : fin = .terminated → payload = false) : Inv (init kind fin payload) := by
  refine ⟨invA_init kind fin payload hf, ?_, ?_, ?_, ?_, ?_, ?_, ?_, ?_, ?_, ?_, ?_, ?_, ?_, ?_, ?_, ?_, ?_, ?_⟩ <;>
    cases kind <;> cases payload <;> simp_all [init, St.isFinal]

set_option maxHeartbeats 2000000 in
theorem inv_step {o : Ords} (ho : GoodOrds o) {s s' : State} {e : Ev} (h : Inv s) (hs : step o s e = some s') : Inv s' := by
  have ha' := invA_step h.a hs
  obtain ⟨⟨a1, a2, a3, a4, a5, a6, a7, a8⟩, h1, h2, h3, h4, h5, h6, h7, h8, h8b, h9, h10, h11, h12, h13, h14, h15, h16, h17⟩ := h
  obtain ⟨o1, o2, o3, o4, o5, o6, o7, o8, o9⟩ := ho
  have hc := St.final_cases s.st
  have hf := St.final_cases s.fin
  refine ⟨ha', ?_, ?_, ?_, ?_, ?_, ?_, ?_, ?_, ?_, ?_, ?_, ?_, ?_, ?_, ?_, ?_, ?_, ?_⟩
  all_goals (cases e <;> sig_open hs)
  all_goals grind [touch, St.isFinal]

theorem inv_reach {o : Ords} (ho : GoodOrds o) {kind fin payload} (hf : fin.isFinal = true)
    (ht : fin = .terminated → payload = false) (s : State) (h : Reach o kind fin payload s) : Inv s := by
  induction h with
  | init => exact inv_init kind fin payload hf ht
  | step _ hs ih => exact inv_step ho ih hs

/-- **C07 (no data race).** Under release/acquire orderings as strong as the extracted ones, in
    every interleaving of the waiter and the peer — spin phase, starvation CAS, park loop with
    spurious returns, timed waits, futures — every access to the payload slot and to the
    thread-handle cell is ordered after the conflicting access. -/
theorem c07_no_race {o : Ords} (ho : GoodOrds o) {kind fin payload} (hf : fin.isFinal = true)
    (ht : fin = .terminated → payload = false) (s : State) (h : Reach o kind fin payload s) : s.racy = false :=
  (inv_reach ho hf ht s h).noRace

/-- **C07 (no access after the waiter is gone).** The peer never touches the signal (state word,
    slot, waker, handle cell) after the owner's frame or future has gone: the final store (or the
    successful CAS) is its last access, and the owner leaves only after seeing it. -/
theorem c07_no_dangling {o : Ords} (ho : GoodOrds o) {kind fin payload} (hf : fin.isFinal = true)
    (ht : fin = .terminated → payload = false) (s : State) (h : Reach o kind fin payload s) :
    s.dangling = false ∧ (s.alive = false → s.ppc = .done ∨ s.ppc = .unpark ∨ s.ppc = .wake) := by
  have hi := inv_reach ho hf ht s h
  refine ⟨hi.noDangle, fun ha => ?_⟩
  have : s.wpc = .gone := by
    by_cases hg : s.wpc = .gone
    · exact hg
    · have := hi.aliveIff.mpr hg; simp_all
  exact hi.a.peerOut (hi.goneFinal this)

theorem step_fin {o : Ords} {s s' : State} {e : Ev} (hs : step o s e = some s') : s'.fin = s.fin := by
  cases e <;> sig_open hs <;> simp [touch] <;> (try split) <;> rfl

theorem reach_fin {o : Ords} {kind fin payload} (s : State) (h : Reach o kind fin payload s) : s.fin = fin := by
  induction h with
  | init => simp [init]
  | step _ hs ih => rw [step_fin hs]; exact ih

/-- **C07 (the waiter sees what the peer did).** When the waiter leaves with a result, it is the
    final state the peer wrote, and if the peer touched the slot the waiter's observation
    synchronised with the peer's releasing write. -/
theorem c07_sees {o : Ords} (ho : GoodOrds o) {kind fin payload} (hf : fin.isFinal = true)
    (ht : fin = .terminated → payload = false) (s : State) (h : Reach o kind fin payload s) (v : St) (sy : Bool)
    (hd : s.wpc = .done v sy) : v = fin ∧ (s.slotTouched = true → sy = true) := by
  have hi := inv_reach ho hf ht s h
  obtain ⟨h1, h2, h3⟩ := hi.doneSees v sy hd
  have hfin : s.fin = fin := reach_fin s h
  exact ⟨by rw [h1, hi.a.finalIs h2, hfin], h3⟩

/-- The orderings matter (1): with a relaxed final store the waiter's read of its slot races. -/
theorem c07_needs_release_store :
    ∃ s, Reach ⟨.relaxed, .acquire, .release, .acquire, .acquire, .acquire, .release, .acquire, .relaxed, .release⟩
      .sync .unlocked true s ∧ s.racy = true := by
  have h := Reach.run (o := ⟨.relaxed, .acquire, .release, .acquire, .acquire, .acquire, .release, .acquire, .relaxed, .release⟩)
    (kind := .sync) (fin := .unlocked) (payload := true) Reach.init
    [.wGiveUpSpin, .wPublish, .wCasStarv, .pAccess, .pCas, .pReadHandle, .pStoreSync, .pUnpark, .wPark, .wParkLoad, .wFinish]
  simp [SigM.run, step, init, touch, St.isFinal, Ord.isAcquire, Ord.isRelease] at h
  exact ⟨_, h, rfl⟩

/-- The orderings matter (2): without the acquire fence after the relaxed spin load the read races. -/
theorem c07_needs_fence :
    ∃ s, Reach ⟨.relaxed, .relaxed, .release, .acquire, .acquire, .acquire, .release, .acquire, .release, .release⟩
      .sync .unlocked true s ∧ s.racy = true := by
  have h := Reach.run (o := ⟨.relaxed, .relaxed, .release, .acquire, .acquire, .acquire, .release, .acquire, .release, .release⟩)
    (kind := .sync) (fin := .unlocked) (payload := true) Reach.init
    [.pAccess, .pCas, .wLoad, .wFence, .wFinish]
  simp [SigM.run, step, init, touch, St.isFinal, Ord.isAcquire, Ord.isRelease] at h
  exact ⟨_, h, rfl⟩

/-- The orderings of the source, as the model's parameter. -/
def treeOrds : Ords :=
  ⟨Tie.sigOrds.spinLoad, Tie.sigOrds.spinFence, Tie.sigOrds.starvCasSucc, Tie.sigOrds.starvCasFail, Tie.sigOrds.parkLoad,
   Tie.sigOrds.timeoutFinal, Tie.sigOrds.wakeCasSucc, Tie.sigOrds.wakeCasFail, Tie.sigOrds.wakeStoreSync, Tie.sigOrds.wakeStoreAsync⟩

theorem treeOrds_good : GoodOrds treeOrds := by
  obtain ⟨h1, h2, h3, h4, h5, h6, h7, h8, h9⟩ := Tie.signal_ords_ok
  exact ⟨h5, h6, h7, h8, h9, h1, h2, h3, h4⟩

/-- **C07 for the code as it is now**: with the orderings extracted on this run, every waiter kind,
    both final states. -/
theorem c07_this_tree (kind : WKind) (fin : St) (payload : Bool) (hf : fin.isFinal = true)
    (ht : fin = .terminated → payload = false) (s : State) (h : Reach treeOrds kind fin payload s) :
    s.racy = false ∧ s.dangling = false :=
  ⟨c07_no_race treeOrds_good hf ht s h, (c07_no_dangling treeOrds_good hf ht s h).1⟩

/-- Non-vacuity: the full park path — waiter exhausts its spins, publishes, parks; the peer's CAS
    fails, it reads the handle, stores, unparks; the waiter wakes, reads its slot and leaves. -/
example : ∃ s, Reach treeOrds .sync .unlocked true s ∧ s.wpc = .gone ∧ s.ppc = .done ∧ s.slotTouched = true ∧ s.racy = false := by
  have h := Reach.run (o := treeOrds) (kind := .sync) (fin := .unlocked) (payload := true) Reach.init
    [.wGiveUpSpin, .wPublish, .wCasStarv, .wPark, .pAccess, .pCas, .pReadHandle, .pStoreSync, .wUnparked true, .wParkLoad, .pUnpark, .wFinish]
  simp [SigM.run, step, init, touch, St.isFinal, treeOrds, Tie.sigOrds, Generated.atomics_signal_wait,
    Generated.atomics_signal_wait_timeout, Generated.atomics_signal_wake, Ord.isAcquire, Ord.isRelease] at h
  exact ⟨_, h, rfl, rfl, rfl, rfl⟩

end Kanal.C07

#print axioms Kanal.C07.c07_no_race
#print axioms Kanal.C07.c07_no_dangling
#print axioms Kanal.C07.c07_sees
#print axioms Kanal.C07.c07_needs_release_store
#print axioms Kanal.C07.c07_needs_fence
#print axioms Kanal.C07.c07_this_tree
