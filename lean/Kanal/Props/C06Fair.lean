/-
  C06 (fairness layer) — from "always enabled + rank decreases" to "eventually returns".

  `C06.lean` proves for the signal protocol (`Kanal.SigM`) that once the peer has finished the
  waiter always has an enabled step (`c06_waiter_enabled`), that the peer always has one until it
  is done (`c06_peer_enabled`), and that every waiter step decreases `rank` once the peer is done
  (`c06_rank_decreases`).  Here the temporal step is formalised: infinite stuttering executions,
  weak fairness of the two parties, and the theorems

    * `c06_peer_finishes`       — under `FairPeer` the peer reaches `done` and stays there;
    * `c06_eventually_returns`  — under `FairPeer` and `FairWaiter` the waiter reaches `gone`
                                   (the blocked call has returned / the future has completed)
                                   and stays there;
    * `c06_bounded_after_peer`  — once the peer is done, `rank s ≤ 7` own steps of the waiter suffice;
    * a concrete fair execution (non-vacuity) and the instance for the orderings of the tree.
-/
import Kanal.Props.C06

namespace Kanal.C06
open Kanal Kanal.SigM Kanal.C07

/-! ### Executions and weak fairness -/

/-- An infinite execution of the protocol; `e n = none`: nobody moves at instant `n` (stutter). -/
structure Exec (o : Ords) (kind : WKind) (fin : St) (payload : Bool) where
  s : Nat → SigM.State
  e : Nat → Option Ev
  init : s 0 = SigM.init kind fin payload
  next : ∀ n, match e n with
              | some ev => SigM.step o (s n) ev = some (s (n + 1))
              | none => s (n + 1) = s n

variable {o : Ords} {kind : WKind} {fin : St} {payload : Bool}

/-- Weak fairness for the peer: as long as it is not done (its next step is then enabled, by
    `c06_peer_enabled`), it eventually moves. -/
def FairPeer (x : Exec o kind fin payload) : Prop :=
  ∀ n, (x.s n).ppc ≠ .done → ∃ m, n ≤ m ∧ ∃ ev, x.e m = some ev ∧ Ev.isWaiter ev = false

/-- Weak fairness for the waiter, demanded only once the peer has finished (from then on some own
    step of the waiter is always enabled, by `c06_waiter_enabled`): it eventually moves. -/
def FairWaiter (x : Exec o kind fin payload) : Prop :=
  ∀ n, (x.s n).ppc = .done → (x.s n).wpc ≠ .gone →
    ∃ m, n ≤ m ∧ ∃ ev, x.e m = some ev ∧ Ev.isWaiter ev = true

theorem Exec.next_some (x : Exec o kind fin payload) {n : Nat} {ev : Ev} (h : x.e n = some ev) :
    SigM.step o (x.s n) ev = some (x.s (n + 1)) := by
  have := x.next n
  rw [h] at this
  exact this

theorem Exec.next_none (x : Exec o kind fin payload) {n : Nat} (h : x.e n = none) :
    x.s (n + 1) = x.s n := by
  have := x.next n
  rw [h] at this
  exact this

/-- Every state of an execution is reachable. -/
theorem Exec.reach (x : Exec o kind fin payload) : ∀ n, SigM.Reach o kind fin payload (x.s n) := by
  intro n
  induction n with
  | zero => rw [x.init]; exact SigM.Reach.init
  | succ n ih =>
    cases h : x.e n with
    | none => rw [x.next_none h]; exact ih
    | some ev => exact SigM.Reach.step ih (x.next_some h)

/-! ### The peer finishes -/

/-- Number of steps the peer still has to do (an upper bound). -/
def prank (s : SigM.State) : Nat :=
  match s.ppc with
  | .access => 8
  | .cas => 7
  | .readHandle => 6
  | .storeSync => 5
  | .unpark => 4
  | .cloneWaker => 3
  | .storeAsync => 2
  | .wake => 1
  | .done => 0

theorem prank_zero (s : SigM.State) : prank s = 0 ↔ s.ppc = .done := by
  cases h : s.ppc <;> simp [prank, h]

theorem prank_le (s : SigM.State) : prank s ≤ 8 := by
  cases h : s.ppc <;> simp [prank, h]

/-- A waiter step does not move the peer. -/
theorem step_waiter_ppc {s s' : SigM.State} {ev : Ev} (hs : SigM.step o s ev = some s')
    (hw : Ev.isWaiter ev = true) : s'.ppc = s.ppc := by
  cases ev <;> simp [Ev.isWaiter] at hw <;> sig_open hs <;> rfl

/-- A peer step strictly decreases the peer rank. -/
theorem step_peer_prank {s s' : SigM.State} {ev : Ev} (hs : SigM.step o s ev = some s')
    (hw : Ev.isWaiter ev = false) : prank s' < prank s := by
  cases ev <;> simp [Ev.isWaiter] at hw <;> sig_open hs
  all_goals (simp only [prank]; grind)

/-- A peer step does not move the waiter. -/
theorem step_peer_wpc {s s' : SigM.State} {ev : Ev} (hs : SigM.step o s ev = some s')
    (hw : Ev.isWaiter ev = false) : s'.wpc = s.wpc := by
  cases ev <;> simp [Ev.isWaiter] at hw <;> sig_open hs
  all_goals grind [touch]

/-- Once the peer is done no peer event is enabled. -/
theorem step_peer_done {s : SigM.State} {ev : Ev} (hd : s.ppc = .done) (hw : Ev.isWaiter ev = false) :
    SigM.step o s ev = none := by
  cases h : SigM.step o s ev with
  | none => rfl
  | some s' =>
    have := step_peer_prank h hw
    have := (prank_zero s).mpr hd
    omega

theorem Exec.prank_succ_le (x : Exec o kind fin payload) (n : Nat) :
    prank (x.s (n + 1)) ≤ prank (x.s n) := by
  cases h : x.e n with
  | none => rw [x.next_none h]; exact Nat.le_refl _
  | some ev =>
    have hs := x.next_some h
    cases hw : Ev.isWaiter ev with
    | true => simp only [prank, step_waiter_ppc hs hw]; exact Nat.le_refl _
    | false => exact Nat.le_of_lt (step_peer_prank hs hw)

/-- The peer rank never increases along an execution. -/
theorem Exec.prank_mono (x : Exec o kind fin payload) {n m : Nat} (h : n ≤ m) :
    prank (x.s m) ≤ prank (x.s n) := by
  induction h with
  | refl => exact Nat.le_refl _
  | step _ ih => exact Nat.le_trans (x.prank_succ_le _) ih

/-- `done` is stable for the peer. -/
theorem Exec.done_stable (x : Exec o kind fin payload) {n m : Nat} (h : n ≤ m)
    (hd : (x.s n).ppc = .done) : (x.s m).ppc = .done := by
  have h1 := x.prank_mono h
  have h2 := (prank_zero _).mpr hd
  exact (prank_zero _).mp (by omega)

theorem peer_finishes_aux (x : Exec o kind fin payload) (hfair : FairPeer x) :
    ∀ k n, prank (x.s n) ≤ k → ∃ m, n ≤ m ∧ (x.s m).ppc = .done := by
  intro k
  induction k with
  | zero => intro n hk; exact ⟨n, Nat.le_refl _, (prank_zero _).mp (by omega)⟩
  | succ k ih =>
    intro n hk
    by_cases hd : (x.s n).ppc = .done
    · exact ⟨n, Nat.le_refl _, hd⟩
    · obtain ⟨m, hnm, ev, hev, hw⟩ := hfair n hd
      have h1 := step_peer_prank (x.next_some hev) hw
      have h2 := x.prank_mono hnm
      obtain ⟨m', hm', hdone⟩ := ih (m + 1) (by omega)
      exact ⟨m', by omega, hdone⟩

/-- **C06 (the peer finishes).** In every execution in which the peer is scheduled weakly fairly,
    the peer reaches `done` — after at most 8 of its own steps, without ever waiting for the
    waiter — and stays there.  (No assumption on the orderings or on `fin` is needed for this.) -/
theorem c06_peer_finishes (x : Exec o kind fin payload) (hfair : FairPeer x) :
    ∃ n, (x.s n).ppc = .done ∧ ∀ m, n ≤ m → (x.s m).ppc = .done := by
  obtain ⟨n, -, hd⟩ := peer_finishes_aux x hfair 8 0 (prank_le _)
  exact ⟨n, hd, fun m hm => x.done_stable hm hd⟩

/-! ### The waiter returns -/

theorem rank_zero (s : SigM.State) : rank s = 0 ↔ s.wpc = .gone := by
  cases h : s.wpc <;> simp [rank, h]
  split <;> omega

theorem rank_le (s : SigM.State) : rank s ≤ 7 := by
  cases h : s.wpc <;> simp [rank, h]
  split <;> omega

/-- Once the waiter is gone none of its events is enabled. -/
theorem step_waiter_gone {s : SigM.State} {ev : Ev} (hg : s.wpc = .gone) (hw : Ev.isWaiter ev = true) :
    SigM.step o s ev = none := by
  cases ev <;> simp [Ev.isWaiter] at hw <;> simp [SigM.step, hg]

/-- `gone` is stable. -/
theorem step_gone {s s' : SigM.State} {ev : Ev} (hs : SigM.step o s ev = some s') (hg : s.wpc = .gone) :
    s'.wpc = .gone := by
  cases hw : Ev.isWaiter ev with
  | true => rw [step_waiter_gone hg hw] at hs; cases hs
  | false => rw [step_peer_wpc hs hw]; exact hg

theorem Exec.gone_stable (x : Exec o kind fin payload) {n m : Nat} (h : n ≤ m)
    (hg : (x.s n).wpc = .gone) : (x.s m).wpc = .gone := by
  induction h with
  | refl => exact hg
  | @step m _ ih =>
    cases he : x.e m with
    | none => rw [x.next_none he]; exact ih
    | some ev => exact step_gone (x.next_some he) ih

section
variable (ho : GoodOrds o) (hf : fin.isFinal = true) (ht : fin = .terminated → payload = false)
include ho hf ht

/-- After the peer is done, the waiter's rank never increases. -/
theorem Exec.rank_succ_le (x : Exec o kind fin payload) (n : Nat) (hd : (x.s n).ppc = .done) :
    rank (x.s (n + 1)) ≤ rank (x.s n) := by
  cases h : x.e n with
  | none => rw [x.next_none h]; exact Nat.le_refl _
  | some ev =>
    have hs := x.next_some h
    cases hw : Ev.isWaiter ev with
    | true => exact Nat.le_of_lt (c06_rank_decreases ho hf ht _ _ (x.reach n) hd ev hw hs).1
    | false => rw [step_peer_done hd hw] at hs; cases hs

theorem Exec.rank_mono (x : Exec o kind fin payload) {n m : Nat} (h : n ≤ m)
    (hd : (x.s n).ppc = .done) : rank (x.s m) ≤ rank (x.s n) := by
  induction h with
  | refl => exact Nat.le_refl _
  | @step m hnm ih =>
    exact Nat.le_trans (x.rank_succ_le ho hf ht m (x.done_stable hnm hd)) ih

theorem eventually_returns_aux (x : Exec o kind fin payload) (hfair : FairWaiter x) :
    ∀ k n, (x.s n).ppc = .done → rank (x.s n) ≤ k → ∃ m, n ≤ m ∧ (x.s m).wpc = .gone := by
  intro k
  induction k with
  | zero => intro n _ hk; exact ⟨n, Nat.le_refl _, (rank_zero _).mp (by omega)⟩
  | succ k ih =>
    intro n hd hk
    by_cases hg : (x.s n).wpc = .gone
    · exact ⟨n, Nat.le_refl _, hg⟩
    · obtain ⟨m, hnm, ev, hev, hw⟩ := hfair n hd hg
      have hdm := x.done_stable hnm hd
      have h1 := c06_rank_decreases ho hf ht _ _ (x.reach m) hdm ev hw (x.next_some hev)
      have h2 := x.rank_mono ho hf ht hnm hd
      obtain ⟨m', hm', hgone⟩ := ih (m + 1) h1.2 (by omega)
      exact ⟨m', by omega, hgone⟩

/-- **C06 (eventual completion under weak fairness).** In every execution of the signal protocol
    in which the peer and — once the peer has finished — the waiter are scheduled weakly fairly,
    the waiter reaches `gone`: the blocked `send`/`recv` has returned, the timed call has returned,
    the future has completed.  It then stays `gone`, and the peer is done at that point. -/
theorem c06_eventually_returns (x : Exec o kind fin payload) (hp : FairPeer x) (hw : FairWaiter x) :
    ∃ n, (x.s n).wpc = .gone ∧ (x.s n).ppc = .done ∧ ∀ m, n ≤ m → (x.s m).wpc = .gone := by
  obtain ⟨n0, hd, -⟩ := c06_peer_finishes x hp
  obtain ⟨n, hn, hg⟩ := eventually_returns_aux ho hf ht x hw 7 n0 hd (rank_le _)
  exact ⟨n, hg, x.done_stable hn hd, fun m hm => x.gone_stable hm hg⟩

/-- Number of waiter events in a schedule. -/
def waiterSteps (es : List Ev) : Nat := (es.filter Ev.isWaiter).length

/-- **C06 (bounded completion after the peer).** From a reachable state in which the peer is done,
    any run that contains at least `rank s` (≤ 7) steps of the waiter ends with the waiter gone. -/
theorem c06_bounded_after_peer (s s' : SigM.State) (h : SigM.Reach o kind fin payload s)
    (hd : s.ppc = .done) (es : List Ev) (hrun : SigM.run o s es = some s')
    (hn : rank s ≤ waiterSteps es) : s'.wpc = .gone := by
  induction es generalizing s with
  | nil =>
    simp [SigM.run] at hrun
    subst hrun
    exact (rank_zero _).mp (by simp [waiterSteps] at hn; exact hn)
  | cons e es ih =>
    simp only [SigM.run] at hrun
    split at hrun
    · rename_i s1 hs
      cases hw : Ev.isWaiter e with
      | true =>
        have h1 := c06_rank_decreases ho hf ht _ _ h hd e hw hs
        refine ih s1 (SigM.Reach.step h hs) h1.2 hrun ?_
        simp [waiterSteps, hw] at hn
        simp only [waiterSteps]
        omega
      | false => rw [step_peer_done hd hw] at hs; cases hs
    · cases hrun

/-- … in particular 7 own steps always suffice. -/
theorem c06_seven_steps_suffice (s s' : SigM.State) (h : SigM.Reach o kind fin payload s)
    (hd : s.ppc = .done) (es : List Ev) (hrun : SigM.run o s es = some s')
    (hn : 7 ≤ waiterSteps es) : s'.wpc = .gone :=
  c06_bounded_after_peer ho hf ht s s' h hd es hrun (Nat.le_trans (rank_le s) hn)

end

/-! ### Non-vacuity: a fair execution exists; the instance for this tree -/

/-- The full park path: the waiter exhausts its spins, publishes, parks; the peer's CAS fails, it
    reads the handle, stores, unparks; the waiter wakes (spuriously, before the unpark), reloads,
    reads its slot and leaves. -/
def demoEvs : List Ev :=
  [.wGiveUpSpin, .wPublish, .wCasStarv, .wPark, .pAccess, .pCas, .pReadHandle, .pStoreSync,
   .wUnparked true, .wParkLoad, .pUnpark, .wFinish]

def demoS : Nat → SigM.State
  | 0 => SigM.init .sync .unlocked true
  | n + 1 => match demoEvs[n]? with
    | some ev => (SigM.step treeOrds (demoS n) ev).getD (demoS n)
    | none => demoS n

theorem demoEvs_tail (k : Nat) : demoEvs[12 + k]? = none :=
  List.getElem?_eq_none (by simp [demoEvs])

theorem demoS_tail (k : Nat) : demoS (12 + k) = demoS 12 := by
  induction k with
  | zero => rfl
  | succ k ih =>
    show demoS ((12 + k) + 1) = demoS 12
    rw [demoS, demoEvs_tail k]
    exact ih

/-- The schedule `demoEvs` followed by stuttering for ever, as an execution. -/
def demo : Exec treeOrds .sync .unlocked true where
  s := demoS
  e := fun n => demoEvs[n]?
  init := rfl
  next := fun n => by
    match n with
    | 0 | 1 | 2 | 3 | 4 | 5 | 6 | 7 | 8 | 9 | 10 | 11 => exact rfl
    | n + 12 =>
      have h : demoEvs[n + 12]? = none := by rw [Nat.add_comm]; exact demoEvs_tail n
      simp only [h]
      rw [demoS, h]

theorem demo_end : (demoS 12).ppc = .done ∧ (demoS 12).wpc = .gone := ⟨rfl, rfl⟩

theorem demo_fairPeer : FairPeer demo := by
  intro n hn
  by_cases h : n ≤ 10
  · exact ⟨10, h, .pUnpark, rfl, rfl⟩
  · exfalso; apply hn
    by_cases h11 : n = 11
    · subst h11; rfl
    · obtain ⟨k, rfl⟩ : ∃ k, n = 12 + k := ⟨n - 12, by omega⟩
      show (demoS (12 + k)).ppc = .done
      rw [demoS_tail]; rfl

theorem demo_fairWaiter : FairWaiter demo := by
  intro n _ hg
  by_cases h : n ≤ 11
  · exact ⟨11, h, .wFinish, rfl, rfl⟩
  · exfalso; apply hg
    obtain ⟨k, rfl⟩ : ∃ k, n = 12 + k := ⟨n - 12, by omega⟩
    show (demoS (12 + k)).wpc = .gone
    rw [demoS_tail]; rfl

/-- **Non-vacuity**: a fair execution exists (and it passes through the parked state). -/
theorem c06_fair_exec_exists :
    ∃ x : Exec treeOrds .sync .unlocked true, FairPeer x ∧ FairWaiter x ∧ (x.s 5).wpc = .parked :=
  ⟨demo, demo_fairPeer, demo_fairWaiter, rfl⟩

/-- **C06 fairness theorems for the code as it is now**: with the orderings extracted on this run,
    every waiter kind, both final states. -/
theorem c06_fair_this_tree (kind : WKind) (fin : St) (payload : Bool) (hf : fin.isFinal = true)
    (ht : fin = .terminated → payload = false) (x : Exec treeOrds kind fin payload)
    (hp : FairPeer x) (hw : FairWaiter x) :
    ∃ n, (x.s n).wpc = .gone ∧ (x.s n).ppc = .done ∧ ∀ m, n ≤ m → (x.s m).wpc = .gone :=
  c06_eventually_returns treeOrds_good hf ht x hp hw

example : ∃ n, (demo.s n).wpc = .gone :=
  let ⟨n, h, _⟩ := c06_fair_this_tree .sync .unlocked true rfl (by intro h; cases h) demo demo_fairPeer demo_fairWaiter
  ⟨n, h⟩

end Kanal.C06

#print axioms Kanal.C06.Exec.reach
#print axioms Kanal.C06.c06_peer_finishes
#print axioms Kanal.C06.c06_eventually_returns
#print axioms Kanal.C06.c06_bounded_after_peer
#print axioms Kanal.C06.c06_seven_steps_suffice
#print axioms Kanal.C06.demo_fairPeer
#print axioms Kanal.C06.demo_fairWaiter
#print axioms Kanal.C06.c06_fair_exec_exists
#print axioms Kanal.C06.c06_fair_this_tree
