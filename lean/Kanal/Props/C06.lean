/-
  C06 — progress: a blocked or pending operation always completes when it can.

  Two layers.
  (1) Channel level (`Kanal.step`): a waiter stays in the wait list only while it cannot be
      completed (receivers: buffer empty; senders: buffer full; both sides alive); close and the
      last handle of a side empty the list, terminating everybody; a waiter that a peer has
      claimed can always be finalised, and a finalised waiter can always complete.
  (2) Signal level (`Kanal.SigM`): once the peer has done its part the waiter is never left
      parked without a token (no lost wake-up, spurious unparks and the spin→park transition
      included), a future's registered waker is woken exactly once, and every own step of the
      waiter strictly decreases a rank — so under a weakly fair scheduler it returns.

  [partial] "eventually" under weak fairness is the standard consequence of "some own step is
  always enabled" + "every own step decreases the rank"; that last inference is not formalised.
  That the OS honours `unpark` and the executor honours `wake` is modelled by the token / the
  wake log.
-/
import Kanal.Props.C07
import Kanal.Props.C08
import Kanal.Lemmas.All

namespace Kanal.C06
open Kanal

/-! ### (1) Channel level -/

/-- **C06 (a listed waiter is one that cannot complete yet).** In every reachable state, if somebody
    is in the wait list then both sides still have handles, and the list holds receivers only on an
    empty buffer (so no value and no blocked sender is available to them) and senders only on a
    full one (so no room and no waiting receiver). -/
theorem c06_justified_wait (s : State) (h : Reach Variant.good s) (hw : s.chan.waitList ≠ []) :
    s.chan.sendCount ≠ 0 ∧ s.chan.recvCount ≠ 0 ∧
    (s.chan.recvBlocking = true → s.chan.queue = []) ∧
    (s.chan.recvBlocking = false → s.chan.hasRoom = false) ∧
    (∀ i ∈ s.chan.waitList, ∃ g, s.sigs[i]? = some g ∧ g.role = s.chan.listRole ∧ g.st = .pending ∧ g.alive = true) := by
  have hs := reach_struct s h
  refine ⟨fun h0 => hw (hs.half (Or.inl h0)), fun h0 => hw (hs.half (Or.inr h0)),
    hs.chanInv.recvWait hw, hs.chanInv.sendWait hw, ?_⟩
  intro i hi
  obtain ⟨g, hg, hl⟩ := hs.listed i hi
  exact ⟨g, hg, hl.role, hl.pending, hl.alive⟩

/-- **C06 (nobody is forgotten).** A registered operation that is neither decided nor claimed is in
    the wait list — so the next matching peer, a close, or the last handle drop will find it. -/
theorem c06_registered_is_listed (s : State) (h : Reach Variant.good s) (i : Nat) (g : Sig)
    (hg : s.sigs[i]? = some g) (ha : g.alive = true) (hp : g.st = .pending) (hc : g.claimed = false)
    (hf : g.kind = .async → g.fut = .waiting) : i ∈ s.chan.waitList :=
  (reach_struct s h).unlisted i g hg ha hp hc hf

/-- **C06 (a claimed waiter gets its final state; a final waiter can return).** The peer that popped
    a waiter can always perform its final store, and then the blocked call can always complete. -/
theorem c06_claimed_then_final (s : State) (h : Reach Variant.good s) (i : Nat) (g : Sig)
    (hg : s.sigs[i]? = some g) (hc : g.claimed = true) :
    ∃ p, step Variant.good s (.finalize i) = some p ∧
      ∃ g', p.1.sigs[i]? = some g' ∧ g'.st = .ok ∧ g'.claimed = false ∧ g'.alive = true := by
  have hso := (reach_struct s h).sigOK i g hg
  obtain ⟨ha, hp, -⟩ := hso.claimed hc
  have e : step Variant.good s (.finalize i) =
      some ((s.setSig i { g with claimed := false }).finalize i .ok, .unit) := by simp [step, hg, hc, hp]
  refine ⟨_, e, ?_⟩
  simp [State.finalize_get, hg, ha]

theorem c06_final_completes (v : Variant) (s : State) (i : Nat) (g : Sig) (hg : s.sigs[i]? = some g)
    (ha : g.alive = true) (hk : g.kind ≠ .async) (hf : g.st ≠ .pending) :
    (step v s (.complete i)).isSome = true := by
  simp only [step, hg]
  simp [ha, hk, hf]
  repeat' split
  all_goals simp

/-! ### (2) Signal level -/
open Kanal.SigM Kanal.C07

/-- **C06 (no lost wake-up).** Once the peer has finished, a parked (or about-to-park) waiter has its
    park token, and a future's registered waker has been woken exactly once. -/
theorem c06_no_lost_wakeup {o : Ords} (ho : GoodOrds o) {kind fin payload} (hf : fin.isFinal = true)
    (ht : fin = .terminated → payload = false) (s : SigM.State) (h : SigM.Reach o kind fin payload s)
    (hd : s.ppc = .done) :
    ((s.wpc = .park ∨ s.wpc = .parked) → s.token = true) ∧ (s.kind = .async → s.woken = 1) ∧
    s.st.isFinal = true ∧ s.st = fin := by
  have hi := inv_reach ho hf ht s h
  have hfin := hi.a.peerDone (Or.inl hd)
  refine ⟨fun hp => hi.wakeup hp hd, fun hk => hi.wokenLe.2.mpr ⟨hk, hd⟩, hfin, ?_⟩
  rw [hi.a.finalIs hfin, reach_fin s h]

/-- How far the waiter is from returning once the state is final. -/
def rank (s : SigM.State) : Nat :=
  match s.wpc with
  | .gone => 0
  | .done _ _ => 1
  | .fence _ => 2
  | .parkLoad => 2
  | .casStarv => 2
  | .publish => 3
  | .park => 3
  | .parked => 3
  | .spin => if s.kind = .timed then 7 else 4
  | .timedIsTerm => 5
  | .timedFinal => 6

def Ev.isWaiter : Ev → Bool
  | .wLoad | .wFence | .wGiveUpSpin | .wTimedFinal | .wTimedIsTerm | .wPublish | .wCasStarv
  | .wPark | .wUnparked _ | .wParkLoad | .wFinish => true
  | _ => false

/-- **C06 (every own step brings the waiter closer).** Once the peer has finished, every enabled step
    of the waiter strictly decreases `rank` — through the spin phase, the spin→park transition, the
    park loop with spurious returns, the timed fallback — and the peer stays finished. -/
theorem c06_rank_decreases {o : Ords} (ho : GoodOrds o) {kind fin payload} (hf : fin.isFinal = true)
    (ht : fin = .terminated → payload = false) (s s' : SigM.State) (h : SigM.Reach o kind fin payload s)
    (hd : s.ppc = .done) (e : Ev) (he : Ev.isWaiter e = true) (hs : SigM.step o s e = some s') :
    rank s' < rank s ∧ s'.ppc = .done := by
  have hi := inv_reach ho hf ht s h
  have hfin := hi.a.peerDone (Or.inl hd)
  have hc := St.final_cases s.st
  obtain ⟨⟨a1, a2, a3, a4, a5, a6, a7, a8⟩, h1, h2, h3, h4, h5, h6, h7, h8, h8b, h9, h10, h11, h12, h13, h14, h15, h16, h17⟩ := hi
  cases e <;> simp [Ev.isWaiter] at he <;> sig_open hs
  all_goals (simp only [rank]; grind [St.isFinal])

/-- **C06 (the waiter is never stuck).** Once the peer has finished and until the waiter has
    returned, some step of the waiter is enabled. -/
theorem c06_waiter_enabled {o : Ords} (ho : GoodOrds o) {kind fin payload} (hf : fin.isFinal = true)
    (ht : fin = .terminated → payload = false) (s : SigM.State) (h : SigM.Reach o kind fin payload s)
    (hd : s.ppc = .done) (hg : s.wpc ≠ .gone) :
    ∃ e, Ev.isWaiter e = true ∧ (SigM.step o s e).isSome = true := by
  have hi := inv_reach ho hf ht s h
  have htok := hi.wakeup
  cases hw : s.wpc with
  | spin => exact ⟨.wLoad, rfl, by simp [SigM.step, hw]⟩
  | fence v => exact ⟨.wFence, rfl, by simp [SigM.step, hw]⟩
  | timedFinal => exact ⟨.wTimedFinal, rfl, by simp [SigM.step, hw]⟩
  | timedIsTerm => exact ⟨.wTimedIsTerm, rfl, by simp [SigM.step, hw]⟩
  | publish => exact ⟨.wPublish, rfl, by simp [SigM.step, hw]⟩
  | casStarv => exact ⟨.wCasStarv, rfl, by simp [SigM.step, hw]⟩
  | park => exact ⟨.wPark, rfl, by simp [SigM.step, hw]⟩
  | parked =>
    have := htok (Or.inr hw) hd
    exact ⟨.wUnparked false, rfl, by simp [SigM.step, hw, this]⟩
  | parkLoad => exact ⟨.wParkLoad, rfl, by simp [SigM.step, hw]⟩
  | done v sy => exact ⟨.wFinish, rfl, by simp [SigM.step, hw]⟩
  | gone => exact absurd hw hg

/-- **C06 (the peer never waits).** Until it is done the peer always has its next step enabled:
    it never blocks on the waiter. -/
theorem c06_peer_enabled (o : Ords) (s : SigM.State) (hd : s.ppc ≠ .done) :
    ∃ e, Ev.isWaiter e = false ∧ (SigM.step o s e).isSome = true := by
  cases hp : s.ppc with
  | access => exact ⟨.pAccess, rfl, by simp [SigM.step, hp]⟩
  | cas => exact ⟨.pCas, rfl, by simp [SigM.step, hp]⟩
  | readHandle => exact ⟨.pReadHandle, rfl, by simp [SigM.step, hp]⟩
  | storeSync => exact ⟨.pStoreSync, rfl, by simp [SigM.step, hp]⟩
  | unpark => exact ⟨.pUnpark, rfl, by simp [SigM.step, hp]⟩
  | cloneWaker => exact ⟨.pCloneWaker, rfl, by simp [SigM.step, hp]⟩
  | storeAsync => exact ⟨.pStoreAsync, rfl, by simp [SigM.step, hp]⟩
  | wake => exact ⟨.pWake, rfl, by simp [SigM.step, hp]⟩
  | done => exact absurd hp hd

/-- Without the `unpark` after a failed CAS the waiter is left parked for ever (what "no lost
    wake-up" excludes): a model run of such a peer ends with the waiter parked and no token. -/
theorem c06_fails_without_unpark :
    (SigM.run treeOrds (SigM.init .sync .unlocked true)
        [.wGiveUpSpin, .wPublish, .wCasStarv, .wPark, .pAccess, .pCas, .pReadHandle, .pStoreSync]).map
      (fun s => (s.wpc, s.token, s.st, s.ppc)) = some (.parked, false, .unlocked, .unpark) := by
  simp [SigM.run, SigM.step, SigM.init, touch]

theorem c06_this_tree : Generated.wake_sync_sequence = [.cas, .readHandle, .store, .unpark] ∧
    Generated.wake_sync_unpark_only_on_cas_failure = true ∧ Generated.wait_park_in_loop = true ∧
    Generated.wait_publish_before_cas = true ∧ Generated.wake_async_sequence = [.cloneWaker, .store, .wake] ∧
    Generated.d4_send_waker_refresh_under_lock = true ∧ Generated.d5_recv_waker_refresh_under_lock = true := by
  have := Tie.signal_structure; have := Tie.variant_good; simp_all

end Kanal.C06

#print axioms Kanal.C06.c06_justified_wait
#print axioms Kanal.C06.c06_registered_is_listed
#print axioms Kanal.C06.c06_claimed_then_final
#print axioms Kanal.C06.c06_final_completes
#print axioms Kanal.C06.c06_no_lost_wakeup
#print axioms Kanal.C06.c06_rank_decreases
#print axioms Kanal.C06.c06_waiter_enabled
#print axioms Kanal.C06.c06_peer_enabled
#print axioms Kanal.C06.c06_fails_without_unpark
#print axioms Kanal.C06.c06_this_tree
