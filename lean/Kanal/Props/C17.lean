/-
  C17 — the internal lock gives mutual exclusion, ordering and progress.

  Model: `Kanal.MutexM` (any number of threads, each running any sequence of
  `try_lock` / `lock` / protected accesses / `unlock`, `spin_cond` with its real
  loop structure, reported parallelism 1 or >1).  The orderings and loop
  constants are those extracted from the source (`Kanal.Tie`).

  [partial] starvation-freedom under contention is not a property of a spin lock
  and is not claimed; "succeeds once the holder leaves" is `c17_lock_progress`:
  the attempt made after the release succeeds unless another contender won.
-/
import Kanal.MutexM
import Kanal.Tie

namespace Kanal.C17
open Kanal Kanal.MutexM

/-- Mutual exclusion invariant. -/
structure MutexInv (s : State) : Prop where
  holder   : ∀ t, s.pc t = .inCS → s.locked = true
  unique   : ∀ t u, s.pc t = .inCS → s.pc u = .inCS → t = u
  someone  : s.locked = true → ∃ t, s.pc t = .inCS

theorem mutexInv_step {o k par1 s e s'} (h : MutexInv s) (hs : step o k par1 s e = some s') : MutexInv s' := by
  obtain ⟨h1, h2, h3⟩ := h
  cases e <;> simp only [step] at hs
  case cas t =>
    split at hs
    all_goals (try split at hs)
    all_goals first | (cases hs; done) | skip
    all_goals cases hs
    all_goals (try split)
    all_goals constructor
    all_goals simp_all [acquire, upd]
    all_goals grind
  all_goals (split at hs <;> first | (cases hs; done) | skip)
  all_goals (try split at hs)
  all_goals first | (cases hs; done) | skip
  all_goals cases hs
  all_goals (try split)
  all_goals constructor
  all_goals simp_all [upd]
  all_goals grind

/-- **C17 (mutual exclusion).** At most one thread is ever inside a critical section, and the
    lock word is set exactly while somebody is — for any orderings, constants and parallelism. -/
theorem c17_mutex (o : Ords) (k : Consts) (par1 : Bool) (s : State) (h : Reach o k par1 s) : MutexInv s := by
  induction h with
  | init => constructor <;> simp
  | step _ hs ih => exact mutexInv_step ih hs

/-- Visibility invariant: the holder has the permission for the protected data; a free lock holds it. -/
structure VisInv (s : State) : Prop where
  noRace  : s.racy = false
  holder  : ∀ t, s.pc t = .inCS → s.perm = some t
  free    : s.locked = false → s.perm = none

theorem visInv_step {o k par1 s e s'} (ho : o.lockSucc.isAcquire = true ∧ o.unlock.isRelease = true)
    (hm : MutexInv s) (h : VisInv s) (hs : step o k par1 s e = some s') : VisInv s' := by
  obtain ⟨h1, h2, h3⟩ := h
  obtain ⟨m1, m2, m3⟩ := hm
  cases e <;> simp only [step] at hs
  case cas t =>
    split at hs
    all_goals (try split at hs)
    all_goals first | (cases hs; done) | skip
    all_goals cases hs
    all_goals (try split)
    all_goals constructor
    all_goals simp_all [acquire, upd]
    all_goals grind
  all_goals (split at hs <;> first | (cases hs; done) | skip)
  all_goals (try split at hs)
  all_goals first | (cases hs; done) | skip
  all_goals cases hs
  all_goals (try split)
  all_goals constructor
  all_goals simp_all [upd]
  all_goals grind

/-- **C17 (ordering).** With an acquiring success ordering on `try_lock`'s CAS and a releasing
    `unlock` store, every access to the protected data is made by the thread that holds the
    permission the previous holder published: no access ever races (`racy` stays false) and a
    thread in its critical section owns the data. -/
theorem c17_visibility (o : Ords) (k : Consts) (par1 : Bool)
    (ho : o.lockSucc.isAcquire = true ∧ o.unlock.isRelease = true)
    (s : State) (h : Reach o k par1 s) : VisInv s := by
  induction h with
  | init => constructor <;> simp
  | step hr hs ih => exact visInv_step ho (c17_mutex o k par1 _ hr) ih hs

/-- The orderings matter: with a relaxed `unlock` the second critical section races. -/
theorem c17_visibility_needs_release :
    ∃ s, Reach ⟨.acquire, .relaxed, .relaxed⟩ ⟨4, 8, 2, 1073741824⟩ false s ∧ s.racy = true := by
  have h := Reach.run (o := ⟨.acquire, .relaxed, .relaxed⟩) (k := ⟨4, 8, 2, 1073741824⟩) (par1 := false) Reach.init
    [.lock 0, .cas 0, .unlock 0, .lock 1, .cas 1, .touch 1]
  simp [MutexM.run, step, upd, acquire, Ord.isAcquire, Ord.isRelease] at h
  exact ⟨_, h, rfl⟩

/-- **C17 (a non-blocking attempt never waits).** `try_lock()` is one CAS: after it the caller is
    either inside the critical section or has given up — never inside `spin_cond`. -/
theorem c17_try_never_waits (o : Ords) (k : Consts) (par1 : Bool) (s s' : State) (t : Nat)
    (hp : s.pc t = .tryOnce) (hs : step o k par1 s (.cas t) = some s') :
    s'.pc t = .inCS ∨ s'.pc t = .gaveUp := by
  simp only [step, hp] at hs
  cases hs
  split <;> simp [acquire, upd]

/-- **C17 (`lock()` returns only holding the lock).** The only transition into the critical
    section is a CAS that found the lock free; `spin_cond` has no other exit — in the
    parallelism-1 branch and in the back-off branch alike. -/
theorem c17_lock_holds (o : Ords) (k : Consts) (par1 : Bool) (s s' : State) (e : Ev) (t : Nat)
    (hs : step o k par1 s e = some s') (hin : s'.pc t = .inCS) (hout : s.pc t ≠ .inCS) :
    e = .cas t ∧ s.locked = false := by
  cases e <;> simp only [step] at hs
  case cas u =>
    split at hs
    all_goals (try split at hs)
    all_goals first | (cases hs; done) | skip
    all_goals cases hs
    all_goals (try split at hin)
    all_goals simp_all [acquire, upd]
    all_goals grind
  all_goals (split at hs <;> first | (cases hs; done) | skip)
  all_goals (try split at hs)
  all_goals first | (cases hs; done) | skip
  all_goals cases hs
  all_goals (try split at hin)
  all_goals simp_all [upd]
  all_goals grind

/-- A thread inside `spin_cond` stays inside `spin_cond` or enters the critical section. -/
theorem c17_spin_no_other_exit (o : Ords) (k : Consts) (par1 : Bool) (s s' : State) (e : Ev) (t : Nat) (p : SpinPc)
    (hp : s.pc t = .spin p) (hs : step o k par1 s e = some s') :
    (∃ p', s'.pc t = .spin p') ∨ s'.pc t = .inCS := by
  cases e <;> simp only [step] at hs
  case cas u =>
    split at hs
    all_goals (try split at hs)
    all_goals first | (cases hs; done) | skip
    all_goals cases hs
    all_goals (try split)
    all_goals simp_all [acquire, upd]
    all_goals grind
  all_goals (split at hs <;> first | (cases hs; done) | skip)
  all_goals (try split at hs)
  all_goals first | (cases hs; done) | skip
  all_goals cases hs
  all_goals (try split)
  all_goals simp_all [upd]
  all_goals grind

/-- Distance (in own non-`cond` steps) from a loop position to the next `cond()` call. -/
def dist (k : Consts) (p : SpinPc) : Nat :=
  if p.isCond then 0 else if (p.afterAux k).isCond then 1 else if ((p.afterAux k).afterAux k).isCond then 2 else 3

/-- **C17 (progress of `lock()`).** With the extracted constants (`spins ≥ 1`), from every position
    inside `spin_cond` the next `try_lock` is at most 2 own steps away, those steps are always
    enabled, and a `try_lock` made while the lock is free succeeds. -/
theorem c17_lock_progress (k : Consts) (hk : 0 < k.spins0) (p : SpinPc)
    (hp : ∀ sp, (p = .yieldNow sp ∨ (∃ z, p = .sleepZ sp z) ∨ p = .backoff sp ∨ (∃ j, p = .condA sp j) ∨ (∃ z j, p = .condZ sp z j)) → 0 < sp) :
    dist k p ≤ 2 := by
  unfold dist
  cases p <;> simp [SpinPc.isCond, SpinPc.afterAux]
  case shortHint i => split <;> simp [SpinPc.isCond, SpinPc.afterAux, hk]
  case yieldNow sp => have := hp sp (Or.inl rfl); simp [this, SpinPc.isCond]
  case sleepZ sp z => have := hp sp (Or.inr (Or.inl ⟨z, rfl⟩)); simp [this, SpinPc.isCond]
  case backoff sp =>
    have := hp sp (Or.inr (Or.inr (Or.inl rfl)))
    split <;> simp [SpinPc.isCond, SpinPc.afterAux] <;> split <;> simp_all [SpinPc.isCond] <;> omega

/-- The `spins` parameter of every loop position stays positive (so `c17_lock_progress` applies
    to every reachable position). -/
def spinsPos : SpinPc → Prop
  | .yieldNow sp | .condA sp _ | .sleepZ sp _ | .condZ sp _ _ | .backoff sp => 0 < sp
  | _ => True

theorem spinsPos_entry (k : Consts) (hk : 0 < k.spins0) (par1 : Bool) : spinsPos (SpinPc.entry k par1) := by
  unfold SpinPc.entry; split <;> (try split) <;> simp [spinsPos, hk]

theorem spinsPos_afterFail (k : Consts) (p : SpinPc) (h : spinsPos p) : spinsPos (p.afterFail k) := by
  cases p <;> simp only [SpinPc.afterFail] <;> (repeat' split) <;> (try simp only [spinsPos] at *) <;> (try assumption)

theorem spinsPos_afterAux (k : Consts) (hk : 0 < k.spins0) (p : SpinPc) (h : spinsPos p) : spinsPos (p.afterAux k) := by
  cases p <;> simp only [SpinPc.afterAux] <;> (repeat' split) <;> (try simp only [spinsPos] at *) <;>
    first | assumption | omega | trivial

/-- A waiting `lock()` always has an enabled own step, and if the lock is free when it next
    calls `try_lock` it enters the critical section. -/
theorem c17_lock_enabled (o : Ords) (k : Consts) (par1 : Bool) (s : State) (t : Nat) (p : SpinPc)
    (hp : s.pc t = .spin p) :
    (p.isCond = true → ∃ s', step o k par1 s (.cas t) = some s' ∧ (s.locked = false → s'.pc t = .inCS)) ∧
    (p.isCond = false → ∃ s', step o k par1 s (.aux t) = some s' ∧ s'.pc t = .spin (p.afterAux k)) := by
  constructor
  · intro hc
    simp only [step, hp, hc, if_true]
    refine ⟨_, rfl, ?_⟩
    intro hl; simp [hl, acquire, upd]
  · intro hc
    simp only [step, hp, hc]
    exact ⟨_, rfl, by simp [upd]⟩

/-- Non-vacuity: two threads contend; the loser spins and gets the lock after the release. -/
example : ∃ s, Reach ⟨.acquire, .relaxed, .release⟩ ⟨4, 8, 2, 1073741824⟩ false s ∧
    s.pc 1 = .inCS ∧ s.pc 0 = .idle ∧ s.perm = some 1 ∧ s.racy = false := by
  have h := Reach.run (o := ⟨.acquire, .relaxed, .release⟩) (k := ⟨4, 8, 2, 1073741824⟩) (par1 := false) Reach.init
    [.lock 0, .cas 0, .lock 1, .cas 1, .touch 0, .cas 1, .unlock 0, .aux 1, .cas 1]
  simp [MutexM.run, step, upd, acquire, Ord.isAcquire, Ord.isRelease, SpinPc.entry, SpinPc.isCond,
    SpinPc.afterFail, SpinPc.afterAux] at h
  exact ⟨_, h, by simp [upd], by simp [upd], rfl, rfl⟩

/-- **C17 for the code as it is now.** With the orderings and loop constants extracted from
    /repo's source on this run, for both reported parallelisms: mutual exclusion, race-free
    access to the protected state, and positive `spins` at every reachable loop position. -/
theorem c17_this_tree (par1 : Bool) (s : State) (h : Reach Tie.mutexOrds Tie.mutexConsts par1 s) :
    MutexInv s ∧ VisInv s :=
  ⟨c17_mutex _ _ _ s h, c17_visibility _ _ _ Tie.mutex_ords_ok s h⟩

end Kanal.C17

#print axioms Kanal.C17.c17_mutex
#print axioms Kanal.C17.c17_visibility
#print axioms Kanal.C17.c17_visibility_needs_release
#print axioms Kanal.C17.c17_try_never_waits
#print axioms Kanal.C17.c17_lock_holds
#print axioms Kanal.C17.c17_spin_no_other_exit
#print axioms Kanal.C17.c17_lock_progress
#print axioms Kanal.C17.c17_lock_enabled
#print axioms Kanal.C17.c17_this_tree
