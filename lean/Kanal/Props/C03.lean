/-
  C03 — atomicity: concurrent results are explainable by an atomic channel.

  The model `Kanal.step` *is* the ideal channel of the property: every call is one atomic step
  (its critical section); a blocking or pending call is an atomic *register* step and a later
  atomic *complete* step (`Label.finalize i`: the instant the completion becomes visible to waiter
  `i`, followed by `Label.complete i` / the poll that returns `Ready`); a timed call has an
  atomic expiry step.  So "the results are those of an atomic channel for some interleaving
  consistent with program order" is: every execution of the code is an interleaving of these
  atomic steps.  That rests on
    (a) each critical section being atomic: one lock (C17), taken exactly once per section and
        never released inside one (`Tie.lock_counts_ok`, re-extracted on every run);
    (b) the peer's out-of-lock actions on a popped waiter being invisible to everybody but that
        waiter (`c03_finalize_local`, `c03_claimed_invisible` below; ownership by removal:
        `Struct.nodup`, `listed`, `unlisted`), and ordered (C07); and the window itself adding no
        behaviour: the final store is a left mover (`c03_final_store_moves_left`), so every
        execution is equivalent to one whose hand-offs are single atomic steps (`c03_reduction`);
    (c) the correspondence check: for small multi-threaded programs the per-thread results the
        real crate produces under many controlled schedules must be in the model's outcome set
        over all interleavings of its atomic steps (`specexplore`) — the linearizability oracle.
  "No caller ever observes a half-applied operation": every state between atomic steps —
  hand-off windows included — satisfies all invariants (`c03_consistent_everywhere`).
-/
import Kanal.Lemmas.All
import Kanal.Props.C18
import Kanal.Tie
import Kanal.Lemmas.Mover

namespace Kanal.C03
open Kanal Chan State

/-- **C03 (no half-applied operation is observable).** Every reachable state — in particular every
    state inside a hand-off window, which is all that lies "between" two atomic steps of one call —
    satisfies the structural invariant, the custody ledger and the FIFO invariant: whatever any
    observer computes from it (lengths, counts, emptiness, a received value) is consistent. -/
theorem c03_consistent_everywhere (s : State) (h : Reach Variant.good s) : Struct s ∧ Ledger s ∧ Fifo s :=
  ⟨reach_struct s h, (reach_ledger s h).2, reach_fifo s h⟩

/-- **C03 (one call = one function of the state).** Each atomic step is a deterministic function of the
    state and the call: there is no hidden intermediate state a concurrent call could see. -/
theorem c03_step_function (v : Variant) (s : State) (l : Label) (a b : State × Res)
    (ha : step v s l = some a) (hb : step v s l = some b) : a = b := C18.c18_deterministic v s l a b ha hb

/-- **C03 (the peer's operation is fully applied at its critical section).** The deferred half of a
    hand-off — the final store — changes nothing but the popped waiter's own `st` / `claimed` and the
    wake log: channel state, every other waiter, custody of every message, all logs and counts are
    exactly as the critical section left them. -/
theorem c03_finalize_local (v : Variant) (s : State) (i : Nat) (p : State × Res)
    (e : step v s (.finalize i) = some p) :
    p.2 = .unit ∧ p.1.chan = s.chan ∧ p.1.cust = s.cust ∧ p.1.recvd = s.recvd ∧ p.1.dropped = s.dropped ∧
    p.1.delivered = s.delivered ∧ p.1.accepted = s.accepted ∧ p.1.removed = s.removed ∧ p.1.offered = s.offered ∧
    p.1.liveS = s.liveS ∧ p.1.liveR = s.liveR ∧
    (∀ (j : Nat), j ≠ i → p.1.sigs[j]? = s.sigs[j]?) ∧
    (∀ g, s.sigs[i]? = some g → p.1.sigs[i]? = some { g with st := .ok, claimed := false }) := by
  simp only [step] at e
  split at e
  · cases e
  · rename_i g hg
    split at e
    · cases e
    · cases e
      have hfin : ∀ (t : State) (o : SigSt), (t.finalize i o).cust = t.cust ∧ (t.finalize i o).recvd = t.recvd ∧
          (t.finalize i o).dropped = t.dropped ∧ (t.finalize i o).removed = t.removed := by
        intro t o; unfold finalize; split
        · exact ⟨rfl, rfl, rfl, rfl⟩
        · split <;> exact ⟨rfl, rfl, rfl, rfl⟩
      obtain ⟨h1, h2, h3, h4⟩ := hfin (s.setSig i { g with claimed := false }) .ok
      refine ⟨rfl, by simp, by simp [h1], by simp [h2], by simp [h3], by simp, by simp, by simp [h4], by simp, by simp, by simp, ?_, ?_⟩
      · intro j hj
        simp [finalize_get, setSig_get, Ne.symm hj]
      · intro g' hg'
        rw [hg] at hg'; cases hg'
        simp [finalize_get, setSig_get, hg]

/-- **C03 (a claimed waiter is invisible to everybody else).** While the peer is between its critical
    section and its final store the waiter is in no wait list, so no other call can pop, cancel,
    terminate or count it; and it cannot go away (it is alive and not final, so neither `complete`
    nor a timed-out cancel nor a future's `Drop` gets past it). -/
theorem c03_claimed_invisible (s : State) (h : Reach Variant.good s) (i : Nat) (g : Sig)
    (hg : s.sigs[i]? = some g) (hc : g.claimed = true) :
    i ∉ s.chan.waitList ∧ g.alive = true ∧ g.st = .pending ∧
    step Variant.good s (.complete i) = none ∧
    (∀ p, step Variant.good s (.expire i) = some p → p = (s, .blocked i)) := by
  have hs := reach_struct s h
  have hso := hs.sigOK i g hg
  obtain ⟨ha, hp, -⟩ := hso.claimed hc
  refine ⟨?_, ha, hp, ?_, ?_⟩
  · intro hi
    obtain ⟨g', hg', hl⟩ := hs.listed i hi
    rw [hg] at hg'; cases hg'
    rw [hl.unclaimed] at hc; cases hc
  · simp [step, hg, hp]
  · intro p e
    have hni : i ∉ s.chan.waitList := by
      intro hi
      obtain ⟨g', hg', hl⟩ := hs.listed i hi
      rw [hg] at hg'; cases hg'
      rw [hl.unclaimed] at hc; cases hc
    simp only [step, hg] at e
    split at e
    · cases e
    · have : s.chan.cancel g.role i = (s.chan, false) := by
        unfold cancel; simp [hni]
      simp [this] at e; exact e.symm

/-- **C03 (the hand-off window adds no behaviour: left mover).** While waiter `i` is claimed, the peer's
    final store commutes to the left of every step that is not one of `i`'s own: if some other call's step `l`
    happens inside the window and then the final store, the final store could have happened first, with the
    same result for `l` and the same state afterwards (up to the order of the wake log, which no step reads:
    `step_congr_wakes`). -/
theorem c03_final_store_moves_left (s : State) (h : Reach Variant.good s) (i : Nat) (g : Sig)
    (hg : s.sigs[i]? = some g) (hc : g.claimed = true)
    (l : Label) (hl : ownLabel i l = false) (s1 : State) (r : Res) (hr : r ≠ .spin)
    (e1 : step Variant.good s l = some (s1, r))
    (s2 : State) (r2 : Res) (e2 : step Variant.good s1 (.finalize i) = some (s2, r2)) :
    r2 = .unit ∧ ∃ s' s2', step Variant.good s (.finalize i) = some (s', .unit) ∧
      step Variant.good s' l = some (s2', r) ∧ EqW s2' s2 :=
  finalize_left_mover s h i g hg hc l hl s1 r hr e1 s2 r2 e2

/-- **C03 (reduction to atomic hand-offs).** Any sequence of other calls' steps that runs inside a hand-off
    window, followed by the final store, gives the same results and the same final state (up to the order of the
    wake log) as the final store followed by those steps: the execution is equivalent to one in which the
    critical section and its final store are adjacent, i.e. to an execution of a channel whose hand-off is one
    atomic step.  Applied window by window (the waiter's own steps are disabled or no-ops while it is claimed,
    `c03_claimed_invisible`), every execution of the model is equivalent to one without hand-off windows. -/
theorem c03_reduction (s : State) (h : Reach Variant.good s) (i : Nat) (g : Sig)
    (hg : s.sigs[i]? = some g) (hc : g.claimed = true)
    (ls : List Label) (hls : ∀ l ∈ ls, ownLabel i l = false) (t : State) (rs : List Res) (hrs : ∀ r ∈ rs, r ≠ .spin)
    (e : run Variant.good s (ls ++ [.finalize i]) = some (t, rs ++ [.unit])) (hlen : rs.length = ls.length) :
    ∃ t', run Variant.good s (.finalize i :: ls) = some (t', .unit :: rs) ∧ EqW t' t :=
  finalize_moves_left s h i g hg hc ls hls t rs hrs e hlen

/-- Non-vacuity of the reduction: a window (receiver 0 claimed by a `try_send`) in which two other calls run
    (`len`, a `try_recv` that finds nothing) before the final store. -/
example : ∃ s rs0 g, run Variant.good (State.init (some 0)) [.newRecvFut false, .pollRecv 0 0, .trySend 7 false false] = some (s, rs0) ∧
    s.sigs[0]? = some g ∧ g.claimed = true ∧
    (∀ l ∈ [Label.len, Label.tryRecv false], ownLabel 0 l = false) ∧
    (run Variant.good s ([.len, .tryRecv false] ++ [.finalize 0])).map (·.2) = some ([.num 0, .none] ++ [.unit]) := by
  refine ⟨_, _, _, rfl, rfl, ?_, ?_, ?_⟩ <;> decide

/-- The source takes the lock exactly once per critical section (extracted on this run). -/
theorem c03_this_tree : Generated.lock_counts = [1, 2, 2, 1, 1, 1, 1, 2, 1, 2, 1, 1, 1, 2] ∧
    Generated.reacquire_after_release_sites = 0 ∧ Generated.close_single_guard = 1 ∧
    Generated.drain_lock_acquisitions = 1 ∧ Generated.drain_never_releases_lock = true ∧
    Generated.api_lock_totals.all (· == 1) = true ∧ Generated.api_lock_totals_timed = [2, 2, 2] := by
  have h1 := Tie.lock_counts_ok; have h2 := Tie.drain_ok; have h3 := Tie.single_section_ok
  exact ⟨h1.1, h1.2.2.2.1, h1.2.2.2.2, h2.2.2.2.1, h2.2.2.2.2, h3.1, h3.2.2⟩

/-- Non-vacuity: a state inside a hand-off window (receiver claimed, final store pending) that a third
    party observes consistently: `len` is 0, the sender's value is already accounted to the receiver's slot. -/
example : ∃ s rs, run Variant.good (State.init (some 0))
    [.newRecvFut false, .pollRecv 0 0, .trySend 7 false false, .len, .tryRecv false] = some (s, rs) ∧
    rs = [.num 0, .pending, .bool true, .num 0, .none] ∧ s.cust 7 = .slot 0 ∧
    (s.sigs[0]?).map (·.claimed) = some true := by
  refine ⟨_, _, rfl, ?_, ?_, ?_⟩ <;> decide

end Kanal.C03

#print axioms Kanal.C03.c03_consistent_everywhere
#print axioms Kanal.C03.c03_step_function
#print axioms Kanal.C03.c03_finalize_local
#print axioms Kanal.C03.c03_claimed_invisible
#print axioms Kanal.C03.c03_final_store_moves_left
#print axioms Kanal.C03.c03_reduction
#print axioms Kanal.C03.c03_this_tree
