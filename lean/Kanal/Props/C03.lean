/-
  C03 — atomicity: concurrent results are explainable by an atomic channel.

  The model `Kanal.step` *is* the ideal channel of the property: every call is one atomic step
  (its critical section); a blocking or pending call is an atomic *register* step and a later
  atomic *complete* step (`Label.finalize i`: the instant the completion becomes visible to waiter
  `i`, followed by `Label.complete i` / the poll that returns `Ready`); a timed call has an
  atomic expiry step.  So "the results are those of an atomic channel for some interleaving
  consistent with program order" is: every execution of the code is an interleaving of these
  atomic steps.  That rests on
    (a) each critical section being atomic: one lock (C17), taken exactly once per section and
        never released inside one (`Tie.lock_counts_ok`, re-extracted on every run);
    (b) the peer's out-of-lock actions on a popped waiter being invisible to everybody but that
        waiter (`c03_finalize_local`, `c03_claimed_invisible` below; ownership by removal:
        `Struct.nodup`, `listed`, `unlisted`), and ordered (C07);
    (c) the correspondence check: for small multi-threaded programs the per-thread results the
        real crate produces under many controlled schedules must be in the model's outcome set
        over all interleavings of its atomic steps (`specexplore`) — the linearizability oracle.
  "No caller ever observes a half-applied operation": every state between atomic steps —
  hand-off windows included — satisfies all invariants (`c03_consistent_everywhere`).
-/
import Kanal.Lemmas.All
import Kanal.Props.C18
import Kanal.Tie

namespace Kanal.C03
open Kanal Chan State

/-- **C03 (no half-applied operation is observable).** Every reachable state — in particular every
    state inside a hand-off window, which is all that lies "between" two atomic steps of one call —
    satisfies the structural invariant, the custody ledger and the FIFO invariant: whatever any
    observer computes from it (lengths, counts, emptiness, a received value) is consistent. -/
theorem c03_consistent_everywhere (s : State) (h : Reach Variant.good s) : Struct s ∧ Ledger s ∧ Fifo s :=
  ⟨reach_struct s h, (reach_ledger s h).2, reach_fifo s h⟩

/-- **C03 (one call = one function of the state).** Each atomic step is a deterministic function of the
    state and the call: there is no hidden intermediate state a concurrent call could see. -/
theorem c03_step_function (v : Variant) (s : State) (l : Label) (a b : State × Res)
    (ha : step v s l = some a) (hb : step v s l = some b) : a = b := C18.c18_deterministic v s l a b ha hb

/-- **C03 (the peer's operation is fully applied at its critical section).** The deferred half of a
    hand-off — the final store — changes nothing but the popped waiter's own `st` / `claimed` and the
    wake log: channel state, every other waiter, custody of every message, all logs and counts are
    exactly as the critical section left them. -/
theorem c03_finalize_local (v : Variant) (s : State) (i : Nat) (p : State × Res)
    (e : step v s (.finalize i) = some p) :
    p.2 = .unit ∧ p.1.chan = s.chan ∧ p.1.cust = s.cust ∧ p.1.recvd = s.recvd ∧ p.1.dropped = s.dropped ∧
    p.1.delivered = s.delivered ∧ p.1.accepted = s.accepted ∧ p.1.removed = s.removed ∧ p.1.offered = s.offered ∧
    p.1.liveS = s.liveS ∧ p.1.liveR = s.liveR ∧
    (∀ (j : Nat), j ≠ i → p.1.sigs[j]? = s.sigs[j]?) ∧
    (∀ g, s.sigs[i]? = some g → p.1.sigs[i]? = some { g with st := .ok, claimed := false }) := by
  simp only [step] at e
  split at e
  · cases e
  · rename_i g hg
    split at e
    · cases e
    · cases e
      have hfin : ∀ (t : State) (o : SigSt), (t.finalize i o).cust = t.cust ∧ (t.finalize i o).recvd = t.recvd ∧
          (t.finalize i o).dropped = t.dropped ∧ (t.finalize i o).removed = t.removed := by
        intro t o; unfold finalize; split
        · exact ⟨rfl, rfl, rfl, rfl⟩
        · split <;> exact ⟨rfl, rfl, rfl, rfl⟩
      obtain ⟨h1, h2, h3, h4⟩ := hfin (s.setSig i { g with claimed := false }) .ok
      refine ⟨rfl, by simp, by simp [h1], by simp [h2], by simp [h3], by simp, by simp, by simp [h4], by simp, by simp, by simp, ?_, ?_⟩
      · intro j hj
        simp [finalize_get, setSig_get, Ne.symm hj]
      · intro g' hg'
        rw [hg] at hg'; cases hg'
        simp [finalize_get, setSig_get, hg]

/-- **C03 (a claimed waiter is invisible to everybody else).** While the peer is between its critical
    section and its final store the waiter is in no wait list, so no other call can pop, cancel,
    terminate or count it; and it cannot go away (it is alive and not final, so neither `complete`
    nor a timed-out cancel nor a future's `Drop` gets past it). -/
theorem c03_claimed_invisible (s : State) (h : Reach Variant.good s) (i : Nat) (g : Sig)
    (hg : s.sigs[i]? = some g) (hc : g.claimed = true) :
    i ∉ s.chan.waitList ∧ g.alive = true ∧ g.st = .pending ∧
    step Variant.good s (.complete i) = none ∧
    (∀ p, step Variant.good s (.expire i) = some p → p = (s, .blocked i)) := by
  have hs := reach_struct s h
  have hso := hs.sigOK i g hg
  obtain ⟨ha, hp, -⟩ := hso.claimed hc
  refine ⟨?_, ha, hp, ?_, ?_⟩
  · intro hi
    obtain ⟨g', hg', hl⟩ := hs.listed i hi
    rw [hg] at hg'; cases hg'
    rw [hl.unclaimed] at hc; cases hc
  · simp [step, hg, hp]
  · intro p e
    have hni : i ∉ s.chan.waitList := by
      intro hi
      obtain ⟨g', hg', hl⟩ := hs.listed i hi
      rw [hg] at hg'; cases hg'
      rw [hl.unclaimed] at hc; cases hc
    simp only [step, hg] at e
    split at e
    · cases e
    · have : s.chan.cancel g.role i = (s.chan, false) := by
        unfold cancel; simp [hni]
      simp [this] at e; exact e.symm

/-- The source takes the lock exactly once per critical section (extracted on this run). -/
theorem c03_this_tree : Generated.lock_counts = [1, 2, 2, 1, 1, 1, 1, 2, 1, 2, 1, 1, 1, 2] ∧
    Generated.reacquire_after_release_sites = 0 ∧ Generated.close_single_guard = 1 ∧
    Generated.drain_lock_acquisitions = 1 ∧ Generated.drain_never_releases_lock = true := by
  have := Tie.lock_counts_ok; have := Tie.drain_ok; simp_all

/-- Non-vacuity: a state inside a hand-off window (receiver claimed, final store pending) that a third
    party observes consistently: `len` is 0, the sender's value is already accounted to the receiver's slot. -/
example : ∃ s rs, run Variant.good (State.init (some 0))
    [.newRecvFut false, .pollRecv 0 0, .trySend 7 false false, .len, .tryRecv false] = some (s, rs) ∧
    rs = [.num 0, .pending, .bool true, .num 0, .none] ∧ s.cust 7 = .slot 0 ∧
    (s.sigs[0]?).map (·.claimed) = some true := by
  refine ⟨_, _, rfl, ?_, ?_, ?_⟩ <;> decide

end Kanal.C03

#print axioms Kanal.C03.c03_consistent_everywhere
#print axioms Kanal.C03.c03_step_function
#print axioms Kanal.C03.c03_finalize_local
#print axioms Kanal.C03.c03_claimed_invisible
#print axioms Kanal.C03.c03_this_tree
