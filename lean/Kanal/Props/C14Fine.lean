/-
  C14 (realtime part, on the translated code) — the `*_realtime` entry points take the lock with ONE `try_lock` and, if it is
  busy, return "not done" without touching the logical state, a signal, or the caller's value; and a thread standing at a
  `tryLock` node is never blocked by whoever holds the lock (in the interleaving machine of `Kanal.Machine` it always has a step).
  `TieCode.try_send_realtime`, `try_send_option_realtime`, `try_recv_realtime` prove that these trees are the Rust functions.
-/
import Kanal.Sections

namespace Kanal.C14
open Kanal Kanal.Machine

/-- `try_send_realtime` / `try_send_option_realtime`: (after the `None` check of the Option variant) one `tryLock`; busy ⇒ `Ok(false)` at once. -/
theorem c14_send_realtime_busy (opt : Bool) (x : Ctx) :
    ∃ k : Option Chan → Act, Fine.trySend opt true x = Fine.guardNone opt (.tryLock k) ∧ k none = .ret (.bool false) :=
  ⟨_, rfl, rfl⟩

/-- `try_recv_realtime`: one `tryLock`; busy ⇒ `Ok(None)` at once. -/
theorem c14_recv_realtime_busy :
    ∃ k : Option Chan → Act, Fine.tryRecv true = .tryLock k ∧ k none = .ret .none :=
  ⟨_, rfl, rfl⟩

/-- The blocking variants start with `lock` instead (so the difference between the two families is exactly the acquisition). -/
theorem c14_nonrealtime_locks (opt : Bool) (x : Ctx) :
    (∃ k, Fine.trySend opt false x = Fine.guardNone opt (.lock k)) ∧ (∃ k, Fine.tryRecv false = .lock k) :=
  ⟨⟨_, rfl⟩, ⟨_, rfl⟩⟩

/-- On the busy path nothing is published: a `tryLock` that finds the lock busy contributes no critical section. -/
theorem c14_busy_no_section (k : Option Chan → Act) (b p : Chan) (h : Sec (k none) none b p → False) :
    Sec (.tryLock k) none b p → ∃ b', Sec (k (some b')) (some b') b p := by
  intro hs
  rcases sec_tryLock.mp hs with h1 | h2
  · exact h1
  · exact absurd h2 h

/-- **Never waits for the lock**: in the interleaving machine a thread at a `tryLock` node has an enabled step in every
    configuration, whoever holds the lock (a thread at a `lock` node has one only while the lock is free). -/
theorem c14_tryLock_never_waits (P : Programs) (g : Cfg) (i : Nat) (k : Option Chan → Act)
    (h : g.threads[i]? = some ⟨.tryLock k, none⟩) : ∃ g', Step P g g' := by
  cases hh : g.holder with
  | none => exact ⟨_, Step.tryLockOk h hh⟩
  | some j => exact ⟨_, Step.tryLockBusy h (by simp [hh])⟩

/-- … and when the lock is busy that step is the give-up branch: the state, the holder and the log are untouched. -/
theorem c14_tryLock_busy_step (P : Programs) (g g' : Cfg) (i : Nat) (k : Option Chan → Act)
    (h : g.threads[i]? = some ⟨.tryLock k, none⟩) (hb : g.holder ≠ none)
    (hs : g' = { g with threads := g.threads.set i ⟨k none, none⟩ }) :
    Step P g g' ∧ g'.chan = g.chan ∧ g'.holder = g.holder ∧ g'.log = g.log := by
  subst hs
  exact ⟨Step.tryLockBusy h hb, rfl, rfl, rfl⟩

end Kanal.C14

#print axioms Kanal.C14.c14_send_realtime_busy
#print axioms Kanal.C14.c14_recv_realtime_busy
#print axioms Kanal.C14.c14_nonrealtime_locks
#print axioms Kanal.C14.c14_busy_no_section
#print axioms Kanal.C14.c14_tryLock_never_waits
#print axioms Kanal.C14.c14_tryLock_busy_step
