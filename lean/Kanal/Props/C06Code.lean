/-
  C06 for the CODE: liveness of infinite segment-atomic executions of the fine-grained code model.

  `Kanal.Refine` shows that the code (`Kanal.Fine`), run segment by segment (`codeStep`), never leaves the channel model
  (`seg_sim`, `code_refines_spec`).  `Props/C06Chan.lean` proves the eventualities of C06 for infinite stuttering executions
  of the channel model (`CExec`).  Here the two are composed.

  * `CodeExec cap` — an infinite schedule `d : Nat → Option Seg` with the code states `g` it produces (`codeStep`), every
    segment `Enabled` in the model state reached so far (`shadow`: derived from the schedule).  `CodeExec.sim`: the shadowed
    states are reachable and `core`-equal to the code states.  `CodeExec.prefix_exec`: every prefix is a finite execution of
    `Refine/Exec.lean` (`EnabledAlong`, `specEnd`, `codeEnd`).
  * `CodeExec.toCExec` — the `CExec .good cap` it refines, at the SAME index (`Seg.labels` never yields more than one label;
    the one label-less segment, `expireWaiter` on an `ok` signal, is a stutter of the model); `toCExec_core`.
  * `CodeFairFinalize`, `CodeFairComplete` — WEAK fairness on the code execution (a segment that stays enabled in the code
    state is eventually taken); they imply `FairFinalize` / `FairComplete` of `toCExec` (`CodeExec.fairFinalize`,
    `CodeExec.fairComplete`; classical; the waiter's record cannot change while the segment is not taken: `claimed_step`,
    `final_step`).
  * `code_final_eventually_returns`, `code_claimed_eventually_returns`, `code_close_eventually_releases`,
    `code_last_drop_eventually_releases`, `code_send_eventually_wakes_receiver`, `code_trySend_eventually_wakes_receiver`,
    `code_returned_stays` — all six theorems of `C06Chan` (and `c06_returned_stays`), about the code state `x.g` and the
    code's results `x.res`: "returned" is `alive = false` in `(x.g k).sigs[i]`, "returns `v`" is `x.res k = some (.val v)`
    for the `resumeWaiter` segment of waiter `i` (instead of the ghost log `recvd`, which `core` does not compare).
  * `codeDemo` — a concrete fair `CodeExec` (rendezvous hand-off), `codeDemo_receiver_returns`.
  * `MachExec cap` — the same for the closed machine of `Refine/Mach.lean` (`machStep`: raw polls, parked continuations):
    `MachExec.sim`, `MachExec.toCodeExec`, `mach_*` versions of all theorems on the machine's shared state, `machDemo`.
-/
import Kanal.Refine
import Kanal.Props.C06Chan

namespace Kanal.C06
open Kanal Chan State Refine Bridge

/-! ### Infinite code executions -/

/-- The model state an infinite schedule of segments has led to after `n` steps (`nxt d s`: the `Spec.step` of the label of
    segment `d`; a label-less segment and a stutter leave the model where it is). -/
def shadow (cap : Option Nat) (d : Nat → Option Seg) : Nat → State
  | 0 => State.init cap
  | n + 1 =>
    match d n with
    | some sg => nxt sg (shadow cap d n)
    | none => shadow cap d n

/-- An infinite segment-atomic execution of the code model from a fresh channel: at step `n` segment `d n` is run on the code
    state `g n` (`none`: nobody moves), and every segment taken is `Enabled` in the model state reached so far (`shadow`;
    that state is derived from the schedule, it is no extra datum). -/
structure CodeExec (cap : Option Nat) where
  d : Nat → Option Seg
  g : Nat → State
  init : g 0 = State.init cap
  next : ∀ n, g (n + 1) = match d n with
                          | some sg => (codeStep sg (g n)).1
                          | none => g n
  enabled : ∀ n sg, d n = some sg → Enabled sg (shadow cap d n)

variable {cap : Option Nat}

/-- the model state shadowed at step `n` -/
def CodeExec.m (x : CodeExec cap) (n : Nat) : State := shadow cap x.d n

/-- what the caller of the segment run at step `n` sees -/
def CodeExec.res (x : CodeExec cap) (n : Nat) : Option Res :=
  match x.d n with
  | some sg => (codeStep sg (x.g n)).2
  | none => none

theorem CodeExec.m_zero (x : CodeExec cap) : x.m 0 = State.init cap := rfl

theorem CodeExec.m_none (x : CodeExec cap) {n : Nat} (h : x.d n = none) : x.m (n + 1) = x.m n := by
  simp only [CodeExec.m, shadow, h]

theorem CodeExec.m_some (x : CodeExec cap) {n : Nat} {sg : Seg} (h : x.d n = some sg) :
    x.m (n + 1) = nxt sg (x.m n) := by
  simp only [CodeExec.m, shadow, h]

theorem CodeExec.g_none (x : CodeExec cap) {n : Nat} (h : x.d n = none) : x.g (n + 1) = x.g n := by
  rw [x.next n, h]

theorem CodeExec.g_some (x : CodeExec cap) {n : Nat} {sg : Seg} (h : x.d n = some sg) :
    x.g (n + 1) = (codeStep sg (x.g n)).1 := by
  rw [x.next n, h]

/-- **The code never leaves the model**: every shadowed model state is reachable, and the code state has the same `core`
    (channel, waiter records, wake log). -/
theorem CodeExec.sim (x : CodeExec cap) : ∀ n, Reach .good (x.m n) ∧ core (x.g n) = core (x.m n) := by
  intro n
  induction n with
  | zero => rw [x.m_zero, x.init]; exact ⟨Reach.init cap, rfl⟩
  | succ n ih =>
    cases h : x.d n with
    | none => rw [x.m_none h, x.g_none h]; exact ih
    | some sg =>
      obtain ⟨s', r, h1, h2, -⟩ := seg_sim ih.1 ih.2 sg (x.enabled n sg h)
      have e : nxt sg (x.m n) = s' := by simp [nxt, h1]
      rw [x.m_some h, x.g_some h, e]
      exact ⟨specSeg_reach ih.1 h1, h2⟩

theorem CodeExec.reach (x : CodeExec cap) (n : Nat) : Reach .good (x.m n) := (x.sim n).1
theorem CodeExec.core_eq (x : CodeExec cap) (n : Nat) : core (x.g n) = core (x.m n) := (x.sim n).2
theorem CodeExec.sigs_eq (x : CodeExec cap) (n : Nat) : (x.g n).sigs = (x.m n).sigs := core_sigs (x.core_eq n)
theorem CodeExec.chan_eq (x : CodeExec cap) (n : Nat) : (x.g n).chan = (x.m n).chan := core_chan (x.core_eq n)

/-- one step of a code execution, with the model's step it is the image of and the common result -/
theorem CodeExec.step_some (x : CodeExec cap) {n : Nat} {sg : Seg} (h : x.d n = some sg) :
    ∃ r, specSeg sg (x.m n) = some (x.m (n + 1), r) ∧ x.res n = some r := by
  obtain ⟨s', r, h1, -, h3⟩ := seg_sim (x.reach n) (x.core_eq n) sg (x.enabled n sg h)
  have e : nxt sg (x.m n) = s' := by simp [nxt, h1]
  refine ⟨r, ?_, ?_⟩
  · rw [x.m_some h, e]; exact h1
  · simp only [CodeExec.res, h]; exact h3

/-! ### The execution of the channel model a code execution refines

  `Seg.labels` yields exactly one label, except for `expireWaiter` on a signal that is already `ok` (no label: the waiter
  merely moves from `wait_timeout` on to `wait`).  No segment has more than one label, so the model execution runs at the
  same index; a label-less segment is a stutter of the model. -/

theorem labels_le_one (sg : Seg) (s : State) : sg.labels s = [] ∨ ∃ l, sg.labels s = [l] := by
  cases sg <;> simp only [Seg.labels] <;> try exact Or.inr ⟨_, rfl⟩
  split
  · split
    · exact Or.inr ⟨_, rfl⟩
    · exact Or.inr ⟨_, rfl⟩
    · exact Or.inl rfl
  · exact Or.inr ⟨_, rfl⟩

/-- the label of the model at step `n` -/
def CodeExec.lab (x : CodeExec cap) (n : Nat) : Option Label :=
  match x.d n with
  | some sg => (sg.labels (x.m n)).head?
  | none => none

/-- **The `CExec` a code execution refines.** -/
def CodeExec.toCExec (x : CodeExec cap) : CExec Variant.good cap where
  s := x.m
  l := x.lab
  init := rfl
  next := fun n => by
    cases h : x.d n with
    | none => simp only [CodeExec.lab, h]; exact x.m_none h
    | some sg =>
      obtain ⟨r, h1, -⟩ := x.step_some h
      simp only [CodeExec.lab, h]
      unfold specSeg at h1
      split at h1
      · rename_i hl
        simp only [hl, List.head?_nil]
        simp only [Option.some.injEq, Prod.mk.injEq] at h1
        exact h1.1.symm
      · rename_i l hl
        simp only [hl, List.head?_cons]
        exact ⟨r, h1⟩
      · cases h1

@[simp] theorem CodeExec.toCExec_s (x : CodeExec cap) (n : Nat) : x.toCExec.s n = x.m n := rfl
@[simp] theorem CodeExec.toCExec_l (x : CodeExec cap) (n : Nat) : x.toCExec.l n = x.lab n := rfl

/-- TASK item 2: code state and refined model execution agree on `core` at every index. -/
theorem CodeExec.toCExec_core (x : CodeExec cap) (n : Nat) : core (x.g n) = core (x.toCExec.s n) := x.core_eq n

theorem CodeExec.lab_of_labels (x : CodeExec cap) {n : Nat} {sg : Seg} {l : Label} (h : x.d n = some sg)
    (hl : sg.labels (x.m n) = [l]) : x.lab n = some l := by
  simp only [CodeExec.lab, h, hl, List.head?_cons]

theorem CodeExec.labels_of_lab (x : CodeExec cap) {n : Nat} {l : Label} (h : x.lab n = some l) :
    ∃ sg, x.d n = some sg ∧ sg.labels (x.m n) = [l] := by
  cases hd : x.d n with
  | none => simp only [CodeExec.lab, hd] at h; cases h
  | some sg =>
    refine ⟨sg, rfl, ?_⟩
    simp only [CodeExec.lab, hd] at h
    rcases labels_le_one sg (x.m n) with h0 | ⟨l', h1⟩
    · rw [h0] at h; cases h
    · rw [h1] at h; simp only [List.head?_cons, Option.some.injEq] at h; rw [h1, h]

/-! ### Who a waiter is does not change along a code execution -/

theorem CodeExec.frame3 (x : CodeExec cap) (n : Nat) : Frame3 (x.m n) (x.m (n + 1)) := by
  cases h : x.d n with
  | none => rw [x.m_none h]; exact Frame3.refl _
  | some sg =>
    obtain ⟨r, h1, -⟩ := x.step_some h
    exact spec_frame3 (x.reach n) (x.enabled n sg h) h1

theorem CodeExec.frame3_le (x : CodeExec cap) {n k : Nat} (h : n ≤ k) : Frame3 (x.m n) (x.m k) := by
  induction h with
  | refl => exact Frame3.refl _
  | step _ ih => exact ih.trans (x.frame3 _)

/-- the kind (sync / timed / async) of waiter `i` is the same at all instants at which its record exists -/
theorem CodeExec.kind_const (x : CodeExec cap) {a b i : Nat} {ga gb : Sig} (ha : (x.m a).sigs[i]? = some ga)
    (hb : (x.m b).sigs[i]? = some gb) : ga.kind = gb.kind := by
  rcases Nat.le_total a b with h | h
  · have := x.frame3_le h i (lt_of_sig ha)
    rw [ha, hb] at this
    simp only [Option.map_some, Option.some.injEq, stat3, Prod.mk.injEq] at this
    exact this.2.1.symm
  · have := x.frame3_le h i (lt_of_sig hb)
    rw [ha, hb] at this
    simp only [Option.map_some, Option.some.injEq, stat3, Prod.mk.injEq] at this
    exact this.2.1

/-! ### Fairness, stated on the code execution -/

/-- The blocked call of waiter `i` can resume and return: it is an alive sync / timed waiter whose signal is final.
    This is the enabledness of `resumeWaiter` for `i` (`resumable_iff_enabled`); it only looks at the waiter record. -/
def Resumable (s : State) (i : SigId) : Prop :=
  ∃ a, s.sigs[i]? = some a ∧ a.alive = true ∧ a.kind ≠ .async ∧ a.st ≠ .pending

theorem resumable_iff_enabled (s : State) (e : Env) : Resumable s e.x.me ↔ Enabled (.resumeWaiter e false) s := by
  constructor
  · rintro ⟨a, h1, h2, h3, h4⟩; exact ⟨a, h1, h2, h3, h4, fun h => by cases h⟩
  · rintro ⟨a, h1, h2, h3, h4, -⟩; exact ⟨a, h1, h2, h3, h4⟩

/-- **Weak fairness of the peer's final store** (code level): if from some step on the segment `storeFinal i` — the second
    half of the hand-off to waiter `i`, run by the peer that popped `i` — is enabled in the code state for ever, it is
    eventually taken.  (The peer never waits for anybody between its critical section and its final store:
    `c06_peer_finishes`.) -/
def CodeFairFinalize (x : CodeExec cap) (i : SigId) : Prop :=
  ∀ n, (∀ k, n ≤ k → Enabled (.storeFinal i) (x.g k)) → ∃ m, n ≤ m ∧ x.d m = some (.storeFinal i)

/-- **Weak fairness of the blocked call** (code level): if from some step on the call of waiter `i` can resume and return
    (`Resumable`: the enabledness of its `resumeWaiter` segment) for ever, its thread is eventually scheduled: a segment
    `resumeWaiter e late` with `e.x.me = i` is taken. -/
def CodeFairComplete (x : CodeExec cap) (i : SigId) : Prop :=
  ∀ n, (∀ k, n ≤ k → Resumable (x.g k) i) →
    ∃ m e late, n ≤ m ∧ x.d m = some (.resumeWaiter e late) ∧ e.x.me = i

/-- The call of waiter `i` has returned at step `k`: its frame is retired in the CODE state. -/
def CodeReturned (x : CodeExec cap) (i k : Nat) : Prop :=
  ∃ a, (x.g k).sigs[i]? = some a ∧ a.alive = false

/-- At step `k` the thread of the blocked call `i` runs: it resumes from its `wait` (`resumeWaiter`) or its
    `wait_timeout` gives up (`expireWaiter`). -/
def CallRunsAt (x : CodeExec cap) (i k : Nat) : Prop :=
  ∃ sg, x.d k = some sg ∧
    ((∃ e late, sg = .resumeWaiter e late ∧ e.x.me = i) ∨ (∃ e, sg = .expireWaiter e ∧ e.x.me = i))

theorem CodeExec.returned_iff (x : CodeExec cap) (i k : Nat) : CodeReturned x i k ↔ Returned x.toCExec i k := by
  unfold CodeReturned Returned
  rw [x.sigs_eq k]; rfl

/-- TASK item 3: the code-level assumption implies the model-level one (no side condition). -/
theorem CodeExec.fairComplete (x : CodeExec cap) (i : Nat) (h : CodeFairComplete x i) : FairComplete x.toCExec i := by
  intro n g hg ha hk hf
  apply Classical.byContradiction
  intro hno
  have hstep : ∀ k lab p, (x.toCExec.s k).sigs[i]? = some g → step Variant.good (x.toCExec.s k) lab = some p →
      lab ≠ .complete i → p.1.sigs[i]? = some g := by
    intro k lab p hgk e hne
    rcases final_step (x.toCExec.reach k) hgk ha hk hf e with ⟨rfl, -⟩ | ⟨-, h2⟩
    · exact absurd rfl hne
    · exact h2
  have hall : ∀ d, (x.m (n + d)).sigs[i]? = some g := by
    intro d
    rcases x.toCExec.until i g _ hstep n hg d with ⟨k, h1, -, h3, -⟩ | hd
    · exact absurd ⟨k, h1, h3⟩ hno
    · exact hd
  obtain ⟨m, e, late, hm, hd, he⟩ := h n (by
    intro k hk'
    obtain ⟨d, rfl⟩ : ∃ d, k = n + d := ⟨k - n, by omega⟩
    exact ⟨g, by rw [x.sigs_eq]; exact hall d, ha, hk, hf⟩)
  exact hno ⟨m, hm, x.lab_of_labels hd (by simp only [Seg.labels, he])⟩

/-- TASK item 3: the code-level assumption implies the model-level one, for a waiter that is sync / timed (at some, hence
    every, instant at which it exists). -/
theorem CodeExec.fairFinalize (x : CodeExec cap) (i : Nat) (h : CodeFairFinalize x i) {n0 : Nat} {g0 : Sig}
    (hg0 : (x.g n0).sigs[i]? = some g0) (hk0 : g0.kind ≠ .async) : FairFinalize x.toCExec i := by
  intro n g hg hc
  have hk : g.kind ≠ .async := by
    rw [x.sigs_eq] at hg0
    rw [x.kind_const hg hg0]; exact hk0
  apply Classical.byContradiction
  intro hno
  have hstep : ∀ k lab p, (x.toCExec.s k).sigs[i]? = some g → step Variant.good (x.toCExec.s k) lab = some p →
      lab ≠ .finalize i → p.1.sigs[i]? = some g := by
    intro k lab p hgk e hne
    rcases claimed_step (x.toCExec.reach k) hgk hc hk e with ⟨rfl, -⟩ | ⟨-, h2⟩
    · exact absurd rfl hne
    · exact h2
  have hall : ∀ d, (x.m (n + d)).sigs[i]? = some g := by
    intro d
    rcases x.toCExec.until i g _ hstep n hg d with ⟨k, h1, -, h3, -⟩ | hd
    · exact absurd ⟨k, h1, h3⟩ hno
    · exact hd
  obtain ⟨m, hm, hd⟩ := h n (by
    intro k hk'
    obtain ⟨d, rfl⟩ : ∃ d, k = n + d := ⟨k - n, by omega⟩
    exact ⟨g, by rw [x.sigs_eq]; exact hall d, hc,
      (C03.c03_claimed_invisible _ (x.reach (n + d)) i g (hall d) hc).2.2.1⟩)
  exact hno ⟨m, hm, x.lab_of_labels hd rfl⟩

/-! ### The eventualities for the code -/

/-- a segment whose label is `complete i` is a step of the thread of call `i` -/
theorem seg_of_complete {sg : Seg} {s : State} {i : Nat} (h : sg.labels s = [.complete i]) :
    (∃ e late, sg = .resumeWaiter e late ∧ e.x.me = i) ∨
    (∃ e g, sg = .expireWaiter e ∧ e.x.me = i ∧ s.sigs[i]? = some g ∧ g.st = .term) := by
  cases sg <;> simp only [Seg.labels, List.cons.injEq, and_true, reduceCtorEq] at h
  case callObserve o => cases o <;> simp [Obs.label] at h
  case resumeWaiter e late => cases h; exact Or.inl ⟨e, late, rfl, rfl⟩
  case expireWaiter e =>
    right
    split at h
    · rename_i g hg
      split at h
      · simp at h
      · rename_i ht
        simp only [List.cons.injEq, Label.complete.injEq, and_true] at h
        subst h
        exact ⟨e, g, rfl, rfl, hg, ht⟩
      · simp at h
    · simp at h

/-- a segment whose label is `finalize i` is the peer's final store into `i` -/
theorem seg_of_finalize {sg : Seg} {s : State} {i : Nat} (h : sg.labels s = [.finalize i]) : sg = .storeFinal i := by
  cases sg <;> simp only [Seg.labels, List.cons.injEq, and_true, reduceCtorEq] at h
  case callObserve o => cases o <;> simp [Obs.label] at h
  case storeFinal j => cases h; rfl
  case expireWaiter e =>
    split at h
    · split at h <;> simp at h
    · simp at h

/-- **A returned call stays returned** (code state). -/
theorem code_returned_stays (x : CodeExec cap) (i n : Nat) (h : CodeReturned x i n) :
    ∀ k, n ≤ k → CodeReturned x i k := fun k hk =>
  (x.returned_iff i k).2 (c06_returned_stays x.toCExec i n ((x.returned_iff i n).1 h) k hk)

/-- The completion of a final waiter: its thread runs at some step `k` from the unchanged record, retires the frame, and a
    receiver whose signal says `ok` gets the value in its slot as the result of a `resumeWaiter` segment. -/
theorem code_final_returns_at (x : CodeExec cap) (i : Nat) (hfc : CodeFairComplete x i) (n : Nat) (a : Sig)
    (ha : (x.g n).sigs[i]? = some a) (hal : a.alive = true) (hk : a.kind ≠ .async) (hf : a.st ≠ .pending) :
    ∃ k, n ≤ k ∧ CallRunsAt x i k ∧ (x.g k).sigs[i]? = some a ∧ CodeReturned x i (k + 1) ∧
      (∀ v, a.role = .recv → a.st = .ok → a.slot = some v →
        x.res k = some (.val v) ∧ (∃ e late, x.d k = some (.resumeWaiter e late) ∧ e.x.me = i)) := by
  rw [x.sigs_eq] at ha
  obtain ⟨k, hnk, hl, hgk⟩ := final_completes_at x.toCExec i (x.fairComplete i hfc) n a ha hal hk hf
  obtain ⟨sg, hd, hlab⟩ := x.labels_of_lab hl
  obtain ⟨r, h1, hres⟩ := x.step_some hd
  have e : step Variant.good (x.m k) (.complete i) = some (x.m (k + 1), r) := by
    unfold specSeg at h1; rw [hlab] at h1; exact h1
  rcases final_step (x.reach k) hgk hal hk hf e with ⟨-, h2, h3⟩ | ⟨h1', -⟩
  · refine ⟨k, hnk, ⟨sg, hd, ?_⟩, by rw [x.sigs_eq]; exact hgk, (x.returned_iff i (k + 1)).2 h2, ?_⟩
    · rcases seg_of_complete hlab with h | ⟨e, g, h1, h2, -⟩
      · exact Or.inl h
      · exact Or.inr ⟨e, h1, h2⟩
    · intro v hr ho hs
      have hv : r = .val v := (h3 v hr ho hs).1
      refine ⟨by rw [hres, hv], ?_⟩
      rcases seg_of_complete hlab with ⟨e, late, rfl, he⟩ | ⟨e, g, _, _, hg, ht⟩
      · exact ⟨e, late, hd, he⟩
      · change (x.m k).sigs[i]? = some a at hgk
        rw [hgk] at hg; cases hg; rw [ho] at ht; cases ht
  · exact absurd rfl h1'

/-- **C06 for the code (a call whose signal is final returns).**  In an infinite segment-atomic execution of the code in
    which the blocked call of waiter `i` is scheduled weakly fairly: if at step `n` the code state holds an alive sync / timed
    waiter `i` whose signal is final (`ok` or terminated), then at some later step `k` its thread runs (`CallRunsAt`) and
    afterwards the frame is retired in the code state (`alive = false`).  A receiver with `ok` returns the value in its slot:
    the code's result at step `k` is `.val v`. -/
theorem code_final_eventually_returns (x : CodeExec cap) (i : Nat) (hfc : CodeFairComplete x i) (n : Nat) (a : Sig)
    (ha : (x.g n).sigs[i]? = some a) (hal : a.alive = true) (hk : a.kind ≠ .async) (hf : a.st ≠ .pending) :
    ∃ k, n ≤ k ∧ CallRunsAt x i k ∧ CodeReturned x i (k + 1) ∧
      (∀ v, a.role = .recv → a.st = .ok → a.slot = some v → x.res k = some (.val v)) := by
  obtain ⟨k, h1, h2, -, h4, h5⟩ := code_final_returns_at x i hfc n a ha hal hk hf
  exact ⟨k, h1, h2, h4, fun v hr ho hs => (h5 v hr ho hs).1⟩

/-- **C06 for the code (a claimed waiter returns).**  Under weak fairness of the peer's final store and of the blocked call:
    if at step `n` the code state holds an alive sync / timed waiter `i` that a peer has claimed (popped in its critical
    section), then at a later step `j` the peer's `storeFinal i` segment runs, at a step `k > j` the waiter's thread runs,
    and then its frame is retired in the code state; a claimed receiver returns the value the peer put into its slot
    (result `.val v` of a `resumeWaiter` segment). -/
theorem code_claimed_eventually_returns (x : CodeExec cap) (i : Nat) (hff : CodeFairFinalize x i)
    (hfc : CodeFairComplete x i) (n : Nat) (a : Sig) (ha : (x.g n).sigs[i]? = some a) (hal : a.alive = true)
    (hk : a.kind ≠ .async) (hc : a.claimed = true) :
    ∃ j k, n ≤ j ∧ j < k ∧ x.d j = some (.storeFinal i) ∧ CallRunsAt x i k ∧ CodeReturned x i (k + 1) ∧
      (∀ v, a.role = .recv → a.slot = some v →
        x.res k = some (.val v) ∧ (∃ e late, x.d k = some (.resumeWaiter e late) ∧ e.x.me = i)) := by
  have ha' := ha
  rw [x.sigs_eq] at ha'
  obtain ⟨j, hnj, hl, hgj⟩ := claimed_finalized_at x.toCExec i (x.fairFinalize i hff ha hk) n a ha' hk hc
  obtain ⟨sg, hd, hlab⟩ := x.labels_of_lab hl
  obtain rfl := seg_of_finalize hlab
  obtain ⟨r, e⟩ := x.toCExec.next_some hl
  rcases claimed_step (x.reach j) hgj hc hk e with ⟨-, h2⟩ | ⟨h1, -⟩
  · have h2' : (x.g (j + 1)).sigs[i]? = some { a with st := .ok, claimed := false } := by rw [x.sigs_eq]; exact h2
    obtain ⟨k, hk1, hk2, -, hk4, hk5⟩ := code_final_returns_at x i hfc (j + 1) _ h2' hal hk (by simp)
    exact ⟨j, k, hnj, by omega, hd, hk2, hk4, fun v hr hs => hk5 v hr rfl hs⟩
  · exact absurd rfl h1

/-- TASK item 3, first bullet, in its plainest form: a claimed waiter's frame is eventually retired in the code state. -/
theorem code_claimed_eventually_retired (x : CodeExec cap) (i : Nat) (hff : CodeFairFinalize x i)
    (hfc : CodeFairComplete x i) (n : Nat) (a : Sig) (ha : (x.g n).sigs[i]? = some a) (hal : a.alive = true)
    (hk : a.kind ≠ .async) (hc : a.claimed = true) :
    ∃ k, n < k ∧ ∃ a', (x.g k).sigs[i]? = some a' ∧ a'.alive = false := by
  obtain ⟨j, k, h1, h2, -, -, h5, -⟩ := code_claimed_eventually_returns x i hff hfc n a ha hal hk hc
  exact ⟨k + 1, by omega, h5⟩

/-- **C06 for the code (close releases every blocked call).**  If at step `n` the segment `callClose` runs and succeeds
    (the code's result is `.unit`), every sync / timed call listed in the code state's wait list at that moment has its signal
    terminated by that segment and eventually returns: its thread runs, its frame is retired. -/
theorem code_close_eventually_releases (x : CodeExec cap) (n : Nat) (hd : x.d n = some .callClose)
    (hr : x.res n = some .unit) (i : Nat) (hi : i ∈ (x.g n).chan.waitList) (a : Sig)
    (ha : (x.g n).sigs[i]? = some a) (hk : a.kind ≠ .async) (hfc : CodeFairComplete x i) :
    (x.g (n + 1)).sigs[i]? = some { a with st := .term } ∧
    ∃ k, n < k ∧ CallRunsAt x i k ∧ CodeReturned x i (k + 1) := by
  obtain ⟨r, h1, hres⟩ := x.step_some hd
  rw [hr] at hres; cases hres
  have e : step Variant.good (x.toCExec.s n) .close = some (x.toCExec.s (n + 1), .unit) := h1
  rw [x.chan_eq] at hi
  have ha' := ha
  rw [x.sigs_eq] at ha'
  have hrel := (c06_close_eventually_releases x.toCExec n e i hi a ha' hk (x.fairComplete i hfc)).1
  obtain ⟨g', hg', hlg⟩ := (reach_struct _ (x.reach n)).listed i hi
  rw [ha'] at hg'; cases hg'
  have hrel' : (x.g (n + 1)).sigs[i]? = some { a with st := .term } := by rw [x.sigs_eq]; exact hrel
  obtain ⟨k, hk1, hk2, -, hk4, -⟩ := code_final_returns_at x i hfc (n + 1) _ hrel' hlg.alive hk (by simp)
  exact ⟨hrel', k, by omega, hk2, hk4⟩

/-- **C06 for the code (the last handle of a side releases every blocked call).**  If at step `n` the segment
    `callDropHandle side` drops the last handle of `side` while the other side lives, every sync / timed call listed in the
    code state's wait list eventually returns. -/
theorem code_last_drop_eventually_releases (x : CodeExec cap) (n : Nat) (side : Side)
    (hd : x.d n = some (.callDropHandle side))
    (hlast : (side = .send → (x.g n).chan.sendCount = 1 ∧ (x.g n).chan.recvCount ≠ 0) ∧
             (side = .recv → (x.g n).chan.recvCount = 1 ∧ (x.g n).chan.sendCount ≠ 0))
    (i : Nat) (hi : i ∈ (x.g n).chan.waitList) (a : Sig) (ha : (x.g n).sigs[i]? = some a)
    (hk : a.kind ≠ .async) (hfc : CodeFairComplete x i) :
    (x.g (n + 1)).sigs[i]? = some { a with st := .term } ∧
    ∃ k, n < k ∧ CallRunsAt x i k ∧ CodeReturned x i (k + 1) := by
  obtain ⟨r, h1, -⟩ := x.step_some hd
  have e : step Variant.good (x.toCExec.s n) (.dropHandle side) = some (x.toCExec.s (n + 1), r) := h1
  rw [x.chan_eq] at hi hlast
  have ha' := ha
  rw [x.sigs_eq] at ha'
  have hrel := (c06_last_drop_eventually_releases x.toCExec n side r e hlast i hi a ha' hk (x.fairComplete i hfc)).1
  obtain ⟨g', hg', hlg⟩ := (reach_struct _ (x.reach n)).listed i hi
  rw [ha'] at hg'; cases hg'
  have hrel' : (x.g (n + 1)).sigs[i]? = some { a with st := .term } := by rw [x.sigs_eq]; exact hrel
  obtain ⟨k, hk1, hk2, -, hk4, -⟩ := code_final_returns_at x i hfc (n + 1) _ hrel' hlg.alive hk (by simp)
  exact ⟨hrel', k, by omega, hk2, hk4⟩

/-- a send of either flavour that finds the sync / timed receiver `i` first in the wait list -/
theorem code_handoff_wakes (x : CodeExec cap) (i : Nat) (hff : CodeFairFinalize x i) (hfc : CodeFairComplete x i)
    (n : Nat) (m : Msg) {l : Label} (hl : x.lab n = some l)
    (hl' : (∃ kind opt, l = .send m kind opt) ∨ (∃ opt rt, l = .trySend m opt rt)) (rest : List Nat)
    (hw : (x.g n).chan.waitList = i :: rest) (hb : (x.g n).chan.recvBlocking = true)
    (hk : ∀ a, (x.g n).sigs[i]? = some a → a.kind ≠ .async) :
    (∃ a', (x.g (n + 1)).sigs[i]? = some a' ∧ a'.claimed = true ∧ a'.slot = some m) ∧
    ∃ j k, n < j ∧ j < k ∧ x.d j = some (.storeFinal i) ∧ CodeReturned x i (k + 1) ∧ x.res k = some (.val m) ∧
      ∃ e late, x.d k = some (.resumeWaiter e late) ∧ e.x.me = i := by
  obtain ⟨r, e⟩ := x.toCExec.next_some hl
  rw [x.chan_eq] at hw hb
  obtain ⟨g, hg, ha, hr, -, hg'⟩ := send_claims_head (x.reach n) hw hb hl' e
  have hkg : g.kind ≠ .async := hk g (by rw [x.sigs_eq]; exact hg)
  have hg2 : (x.g (n + 1)).sigs[i]? = some { g with slot := some m, claimed := true } := by rw [x.sigs_eq]; exact hg'
  refine ⟨⟨_, hg2, rfl, rfl⟩, ?_⟩
  obtain ⟨j, k, h1, h2, h3, -, h5, h6⟩ := code_claimed_eventually_returns x i hff hfc (n + 1) _ hg2 ha hkg rfl
  obtain ⟨h7, h8⟩ := h6 m hr rfl
  exact ⟨j, k, by omega, h2, h3, h5, h7, h8⟩

/-- **C06 for the code (a send wakes the waiting receiver).**  If at step `n` a `startSend` segment (`send` /
    `send_timeout` / `send_option_timeout` of value `e.x.m`) runs while the sync / timed receiver `i` is first in the code
    state's wait list, then after the segment `i` is claimed with the value in its slot, and — the peer's final store and
    `i`'s thread being scheduled weakly fairly — the sender's `storeFinal i` runs at a step `j`, receiver `i`'s
    `resumeWaiter` runs at a step `k > j`, returns that value, and its frame is retired. -/
theorem code_send_eventually_wakes_receiver (x : CodeExec cap) (i : Nat) (hff : CodeFairFinalize x i)
    (hfc : CodeFairComplete x i) (n : Nat) (e : Env) (hd : x.d n = some (.startSend e)) (rest : List Nat)
    (hw : (x.g n).chan.waitList = i :: rest) (hb : (x.g n).chan.recvBlocking = true)
    (hk : ∀ a, (x.g n).sigs[i]? = some a → a.kind ≠ .async) :
    (∃ a', (x.g (n + 1)).sigs[i]? = some a' ∧ a'.claimed = true ∧ a'.slot = some e.x.m) ∧
    ∃ j k, n < j ∧ j < k ∧ x.d j = some (.storeFinal i) ∧ CodeReturned x i (k + 1) ∧ x.res k = some (.val e.x.m) ∧
      ∃ e' late, x.d k = some (.resumeWaiter e' late) ∧ e'.x.me = i :=
  code_handoff_wakes x i hff hfc n e.x.m (x.lab_of_labels hd rfl) (Or.inl ⟨_, _, rfl⟩) rest hw hb hk

/-- The same for the segment `callTrySend` (`try_send` / `try_send_option` / the realtime variants). -/
theorem code_trySend_eventually_wakes_receiver (x : CodeExec cap) (i : Nat) (hff : CodeFairFinalize x i)
    (hfc : CodeFairComplete x i) (n : Nat) (c : Ctx) (opt rt : Bool) (hd : x.d n = some (.callTrySend c opt rt))
    (rest : List Nat) (hw : (x.g n).chan.waitList = i :: rest) (hb : (x.g n).chan.recvBlocking = true)
    (hk : ∀ a, (x.g n).sigs[i]? = some a → a.kind ≠ .async) :
    (∃ a', (x.g (n + 1)).sigs[i]? = some a' ∧ a'.claimed = true ∧ a'.slot = some c.m) ∧
    ∃ j k, n < j ∧ j < k ∧ x.d j = some (.storeFinal i) ∧ CodeReturned x i (k + 1) ∧ x.res k = some (.val c.m) ∧
      ∃ e' late, x.d k = some (.resumeWaiter e' late) ∧ e'.x.me = i :=
  code_handoff_wakes x i hff hfc n c.m (x.lab_of_labels hd rfl) (Or.inr ⟨_, _, rfl⟩) rest hw hb hk

/-! ### Prefixes: a `CodeExec` is a limit of the finite executions of `Kanal.Refine.Exec` -/

/-- the segments taken before step `n` -/
def CodeExec.segs (x : CodeExec cap) : Nat → List Seg
  | 0 => []
  | n + 1 =>
    match x.d n with
    | some sg => x.segs n ++ [sg]
    | none => x.segs n

theorem codeEnd_snoc (ds : List Seg) (d : Seg) (g : State) : codeEnd (ds ++ [d]) g = (codeStep d (codeEnd ds g)).1 := by
  induction ds generalizing g with
  | nil => rfl
  | cons d0 ds ih => simp only [List.cons_append, codeEnd]; exact ih _

theorem enabledAlong_snoc {s : State} (hr : Reach .good s) (ds : List Seg) (d : Seg) (he : EnabledAlong ds s) :
    Reach .good (specEnd ds s) ∧ specEnd (ds ++ [d]) s = nxt d (specEnd ds s) ∧
    (Enabled d (specEnd ds s) → EnabledAlong (ds ++ [d]) s) := by
  induction ds generalizing s with
  | nil =>
    refine ⟨hr, ?_, fun h => ⟨h, fun _ _ => trivial⟩⟩
    simp only [List.nil_append, specEnd, nxt]
    cases specSeg d s <;> rfl
  | cons d0 ds ih =>
    obtain ⟨hd0, hrest⟩ := he
    obtain ⟨s', r, h1, -, -⟩ := seg_sim hr rfl d0 hd0
    obtain ⟨i1, i2, i3⟩ := ih (specSeg_reach hr h1) (hrest _ h1)
    simp only [List.cons_append, specEnd, h1]
    refine ⟨i1, i2, fun h => ⟨hd0, fun p hp => ?_⟩⟩
    rw [h1] at hp; cases hp
    exact i3 h

/-- Every prefix of a `CodeExec` is a finite execution in the sense of `Kanal.Refine.Exec` (`EnabledAlong` from the fresh
    channel), `x.m n` is the model state it ends in and `x.g n` the code state — so `code_refines_spec` applies to it. -/
theorem CodeExec.prefix_exec (x : CodeExec cap) (n : Nat) :
    EnabledAlong (x.segs n) (State.init cap) ∧ specEnd (x.segs n) (State.init cap) = x.m n ∧
    codeEnd (x.segs n) (State.init cap) = x.g n := by
  induction n with
  | zero => exact ⟨trivial, rfl, x.init.symm⟩
  | succ n ih =>
    obtain ⟨i1, i2, i3⟩ := ih
    cases h : x.d n with
    | none => simp only [CodeExec.segs, h]; rw [x.m_none h, x.g_none h]; exact ⟨i1, i2, i3⟩
    | some sg =>
      simp only [CodeExec.segs, h]
      obtain ⟨-, j2, j3⟩ := enabledAlong_snoc (Reach.init cap) (x.segs n) sg i1
      refine ⟨j3 (by rw [i2]; exact x.enabled n sg h), ?_, ?_⟩
      · rw [j2, i2, x.m_some h]
      · rw [codeEnd_snoc, i3, x.g_some h]

/-! ### Non-vacuity: a fair code execution -/

/-- Rendezvous channel: a `recv()` blocks (segment `startRecv`), a `send(7)` hands its value over to it (`startSend`: the
    receiver is claimed, value in its slot), the sender's final store (`storeFinal 0`), the receiver resumes and returns
    (`resumeWaiter`); then nobody moves. -/
def codeDemoR : Env := { x := { me := 0 } }
def codeDemoS : Env := { x := { m := 7, me := 1 } }
def codeDemoDs : List Seg := [.startRecv codeDemoR, .startSend codeDemoS, .storeFinal 0, .resumeWaiter codeDemoR false]
def codeDemoD (n : Nat) : Option Seg := codeDemoDs[n]?

def codeDemoG : Nat → State
  | 0 => State.init (some 0)
  | n + 1 =>
    match codeDemoD n with
    | some sg => (codeStep sg (codeDemoG n)).1
    | none => codeDemoG n

theorem codeDemoD_tail (k : Nat) : codeDemoD (4 + k) = none := List.getElem?_eq_none (by simp [codeDemoDs])

theorem codeDemoG_tail (k : Nat) : codeDemoG (4 + k) = codeDemoG 4 := by
  induction k with
  | zero => rfl
  | succ k ih =>
    show codeDemoG ((4 + k) + 1) = codeDemoG 4
    rw [codeDemoG, codeDemoD_tail k]
    exact ih

/-- the schedule `codeDemoDs` followed by stuttering for ever, as a code execution -/
def codeDemo : CodeExec (some 0) where
  d := codeDemoD
  g := codeDemoG
  init := rfl
  next := fun _ => rfl
  enabled := fun n sg h => by
    match n with
    | 0 => cases h; exact ⟨by decide, by decide, by decide⟩
    | 1 => cases h; exact ⟨by decide, by decide, by decide, by decide⟩
    | 2 => cases h; exact ⟨_, rfl, by decide, by decide⟩
    | 3 => cases h; exact ⟨_, rfl, by decide, by decide, by decide, by decide⟩
    | n + 4 =>
      have h0 : codeDemoD (n + 4) = none := by rw [Nat.add_comm]; exact codeDemoD_tail n
      rw [h0] at h; cases h

theorem codeDemo_sig3 : (codeDemoG 3).sigs[0]?.map (·.claimed) = some false := by decide
theorem codeDemo_sig4 : (codeDemoG 4).sigs[0]?.map (fun a => (a.claimed, a.alive)) = some (false, false) := by decide

theorem codeDemo_fairFinalize : CodeFairFinalize codeDemo 0 := by
  intro n h
  by_cases h2 : n ≤ 2
  · exact ⟨2, h2, rfl⟩
  · exfalso
    obtain ⟨a, ha, hc, -⟩ := h n (Nat.le_refl _)
    by_cases h3 : n = 3
    · subst h3
      have := codeDemo_sig3
      change (codeDemoG 3).sigs[0]? = some a at ha
      rw [ha] at this
      simp [hc] at this
    · obtain ⟨k, rfl⟩ : ∃ k, n = 4 + k := ⟨n - 4, by omega⟩
      have := codeDemo_sig4
      change (codeDemoG (4 + k)).sigs[0]? = some a at ha
      rw [codeDemoG_tail] at ha
      rw [ha] at this
      simp [hc] at this

theorem codeDemo_fairComplete : CodeFairComplete codeDemo 0 := by
  intro n h
  by_cases h3 : n ≤ 3
  · exact ⟨3, codeDemoR, false, h3, rfl, rfl⟩
  · exfalso
    obtain ⟨a, ha, hal, -, -⟩ := h n (Nat.le_refl _)
    obtain ⟨k, rfl⟩ : ∃ k, n = 4 + k := ⟨n - 4, by omega⟩
    have := codeDemo_sig4
    change (codeDemoG (4 + k)).sigs[0]? = some a at ha
    rw [codeDemoG_tail] at ha
    rw [ha] at this
    simp [hal] at this

/-- **Non-vacuity**: a fair code execution exists in which a receiver blocks (step 1: listed in the code state's wait list)
    and a send claims it (step 2). -/
theorem c06_fair_codeExec_exists :
    ∃ x : CodeExec (some 0), CodeFairFinalize x 0 ∧ CodeFairComplete x 0 ∧
      (x.g 1).chan.waitList = [0] ∧ (x.g 2).sigs[0]?.map (·.claimed) = some true :=
  ⟨codeDemo, codeDemo_fairFinalize, codeDemo_fairComplete, by decide, by decide⟩

/-- The transferred send theorem applied to the concrete code execution: the sender's `storeFinal 0` runs, receiver 0's
    `resumeWaiter` returns the value 7, its frame is retired in the code state. -/
theorem codeDemo_receiver_returns :
    ∃ j k, 1 < j ∧ j < k ∧ codeDemo.d j = some (.storeFinal 0) ∧ CodeReturned codeDemo 0 (k + 1) ∧
      codeDemo.res k = some (.val 7) ∧
      ∃ e' late, codeDemo.d k = some (.resumeWaiter e' late) ∧ e'.x.me = 0 :=
  (code_send_eventually_wakes_receiver codeDemo 0 codeDemo_fairFinalize codeDemo_fairComplete 1 codeDemoS rfl []
    (by decide) (by decide) (by
      intro a ha
      have : (codeDemoG 1).sigs[0]?.map (·.kind) = some .sync := by decide
      change (codeDemoG 1).sigs[0]? = some a at ha
      rw [ha] at this
      simp at this
      simp [this])).2

/-- … and what the code computes along it. -/
example : (List.range 5).map codeDemo.res = [some (.blocked 0), some .unit, some .unit, some (.val 7), none] := by decide

/-! ## The closed machine (`Refine/Mach.lean`)

  The code state of the machine is the shared state as the code leaves it (`codeStepRaw`: the polls do not `forget`, so
  finished futures keep stale bytes) together with the table of suspended calls; `resumeWaiter` / `expireWaiter` run the
  continuation that was parked.  Its executions refine the same model execution (`mach_sim`); the relation is `MInv`
  (`UpToStale` + `ContsOK`) instead of `core`-equality.  For sync / timed waiters — the subject of C06 — the records of the
  machine's shared state and of the model coincide (`UpToStale.same`, `SigOK.syncFut`), so everything above transfers. -/

theorem specSeg_unlate (sg : Seg) (s : State) : specSeg sg.unlate s = specSeg sg s := by cases sg <;> rfl

theorem nxt_unlate (sg : Seg) (s : State) : nxt sg.unlate s = nxt sg s := by simp only [nxt, specSeg_unlate]

/-- the schedule without the `late` flags (the machine ignores them) -/
def unlateD (d : Nat → Option Seg) (n : Nat) : Option Seg := (d n).map Seg.unlate

theorem shadow_unlate (cap : Option Nat) (d : Nat → Option Seg) (n : Nat) : shadow cap (unlateD d) n = shadow cap d n := by
  induction n with
  | zero => rfl
  | succ n ih =>
    simp only [shadow, unlateD]
    cases d n with
    | none => exact ih
    | some sg => simp only [Option.map_some, nxt_unlate]; rw [← ih]

/-- the code run along a schedule -/
def codeRun (cap : Option Nat) (d : Nat → Option Seg) : Nat → State
  | 0 => State.init cap
  | n + 1 =>
    match d n with
    | some sg => (codeStep sg (codeRun cap d n)).1
    | none => codeRun cap d n

/-- An infinite segment-atomic execution of the closed machine from a fresh channel (nobody suspended). -/
structure MachExec (cap : Option Nat) where
  d : Nat → Option Seg
  c : Nat → Code
  init : c 0 = Code.init cap
  next : ∀ n, c (n + 1) = match d n with
                          | some sg => (machStep sg (c n)).1
                          | none => c n
  enabled : ∀ n sg, d n = some sg → MEnabled sg (c n) (shadow cap d n)

/-- the model state shadowed at step `n` -/
def MachExec.m (y : MachExec cap) (n : Nat) : State := shadow cap y.d n

/-- what the caller of the segment run at step `n` sees -/
def MachExec.res (y : MachExec cap) (n : Nat) : Option Res :=
  match y.d n with
  | some sg => (machStep sg (y.c n)).2
  | none => none

/-- **The machine never leaves the model.** -/
theorem MachExec.sim (y : MachExec cap) : ∀ n, Reach .good (y.m n) ∧ MInv (y.c n) (y.m n) := by
  intro n
  induction n with
  | zero =>
    show Reach .good (State.init cap) ∧ MInv (y.c 0) (State.init cap)
    rw [y.init]
    exact ⟨Reach.init cap, UpToStale.refl _, fun _ _ h => by cases h⟩
  | succ n ih =>
    cases h : y.d n with
    | none =>
      have e1 : y.m (n + 1) = y.m n := by simp only [MachExec.m, shadow, h]
      have e2 : y.c (n + 1) = y.c n := by rw [y.next n, h]
      rw [e1, e2]; exact ih
    | some sg =>
      obtain ⟨s', r, h1, h2, -⟩ := mach_sim ih.1 ih.2 sg (y.enabled n sg h)
      have e1 : y.m (n + 1) = s' := by
        show shadow cap y.d (n + 1) = s'
        simp only [shadow, h]
        show nxt sg (y.m n) = s'
        simp [nxt, h1]
      have e2 : y.c (n + 1) = (machStep sg (y.c n)).1 := by rw [y.next n, h]
      rw [e1, e2]
      exact ⟨specSeg_reach ih.1 h1, h2⟩

/-- The code execution (of `codeStep`) with the same schedule: it shadows the same model states. -/
def MachExec.toCodeExec (y : MachExec cap) : CodeExec cap where
  d := unlateD y.d
  g := codeRun cap (unlateD y.d)
  init := rfl
  next := fun _ => rfl
  enabled := fun n sg h => by
    rw [shadow_unlate]
    cases hd : y.d n with
    | none => simp only [unlateD, hd, Option.map_none] at h; cases h
    | some sg0 =>
      simp only [unlateD, hd, Option.map_some, Option.some.injEq] at h
      subst h
      exact (y.enabled n sg0 hd).1

theorem MachExec.m_eq (y : MachExec cap) (n : Nat) : y.toCodeExec.m n = y.m n := shadow_unlate cap y.d n

theorem MachExec.reach (y : MachExec cap) (n : Nat) : Reach .good (y.m n) := (y.sim n).1
theorem MachExec.upto (y : MachExec cap) (n : Nat) : UpToStale (y.c n).st (y.m n) := (y.sim n).2.st

/-! #### what `UpToStale` preserves -/

theorem clr_fields {a b : Sig} (h : clr a = clr b) :
    a.alive = b.alive ∧ a.kind = b.kind ∧ a.st = b.st ∧ a.claimed = b.claimed ∧ a.role = b.role ∧ a.fut = b.fut := by
  cases a; cases b
  simp only [clr, Sig.mk.injEq] at h
  simp [h]

/-- the two states have the same waiter records up to their slots -/
def ClrEq (t s : State) : Prop := ∀ i : SigId, (t.sigs[i]?).map clr = (s.sigs[i]?).map clr

theorem ClrEq.symm {t s : State} (h : ClrEq t s) : ClrEq s t := fun i => (h i).symm

theorem ClrEq.get {t s : State} (h : ClrEq t s) {i : SigId} {a : Sig} (ha : t.sigs[i]? = some a) :
    ∃ b, s.sigs[i]? = some b ∧ clr a = clr b := by
  have := h i
  rw [ha] at this
  cases hs : s.sigs[i]? with
  | none => rw [hs] at this; cases this
  | some b => rw [hs] at this; exact ⟨b, rfl, by simpa using this⟩

theorem ClrEq.storeFinal {t s : State} (h : ClrEq t s) {i : SigId} (he : Enabled (.storeFinal i) t) :
    Enabled (.storeFinal i) s := by
  obtain ⟨a, ha, h1, h2⟩ := he
  obtain ⟨b, hb, hab⟩ := h.get ha
  obtain ⟨-, -, f3, f4, -⟩ := clr_fields hab
  exact ⟨b, hb, by rw [← f4]; exact h1, by rw [← f3]; exact h2⟩

theorem ClrEq.resumable {t s : State} (h : ClrEq t s) {i : SigId} (he : Resumable t i) : Resumable s i := by
  obtain ⟨a, ha, h1, h2, h3⟩ := he
  obtain ⟨b, hb, hab⟩ := h.get ha
  obtain ⟨f1, f2, f3, -⟩ := clr_fields hab
  exact ⟨b, hb, by rw [← f1]; exact h1, by rw [← f2]; exact h2, by rw [← f3]; exact h3⟩

theorem ClrEq.dead {t s : State} (h : ClrEq t s) {i : SigId} (he : ∃ a, t.sigs[i]? = some a ∧ a.alive = false) :
    ∃ b, s.sigs[i]? = some b ∧ b.alive = false := by
  obtain ⟨a, ha, h1⟩ := he
  obtain ⟨b, hb, hab⟩ := h.get ha
  exact ⟨b, hb, by rw [← (clr_fields hab).1]; exact h1⟩

/-- the record of a sync / timed waiter is the same in the machine's shared state and in the model -/
theorem upToStale_rec_iff {t s : State} (u : UpToStale t s) (hr : Reach .good s) {i : SigId} {a : Sig}
    (hk : a.kind ≠ .async) : t.sigs[i]? = some a ↔ s.sigs[i]? = some a := by
  constructor
  · intro ha
    obtain ⟨b, hb, hab⟩ := ClrEq.get (t := t) (s := s) u.sig ha
    have hkb : b.kind ≠ .async := by rw [← (clr_fields hab).2.1]; exact hk
    have hf := ((reach_str hr).sigOK i b hb).syncFut hkb
    have := u.same i b hb (by rw [hf]; decide)
    rw [ha] at this; cases this; exact hb
  · intro hb
    have hf := ((reach_str hr).sigOK i a hb).syncFut hk
    exact u.same i a hb (by rw [hf]; decide)

/-! #### fairness and the eventualities for the machine -/

/-- weak fairness of the peer's final store, on the machine's shared state -/
def MachFairFinalize (y : MachExec cap) (i : SigId) : Prop :=
  ∀ n, (∀ k, n ≤ k → Enabled (.storeFinal i) (y.c k).st) → ∃ m, n ≤ m ∧ y.d m = some (.storeFinal i)

/-- weak fairness of the blocked call, on the machine's shared state -/
def MachFairComplete (y : MachExec cap) (i : SigId) : Prop :=
  ∀ n, (∀ k, n ≤ k → Resumable (y.c k).st i) →
    ∃ m e late, n ≤ m ∧ y.d m = some (.resumeWaiter e late) ∧ e.x.me = i

/-- the frame of call `i` is retired in the machine's shared state -/
def MachReturned (y : MachExec cap) (i k : Nat) : Prop :=
  ∃ a, (y.c k).st.sigs[i]? = some a ∧ a.alive = false

def MachCallRunsAt (y : MachExec cap) (i k : Nat) : Prop :=
  ∃ sg, y.d k = some sg ∧
    ((∃ e late, sg = .resumeWaiter e late ∧ e.x.me = i) ∨ (∃ e, sg = .expireWaiter e ∧ e.x.me = i))

theorem MachExec.clrEq (y : MachExec cap) (n : Nat) : ClrEq (y.c n).st (y.toCodeExec.g n) := by
  intro i
  rw [y.toCodeExec.sigs_eq, y.m_eq]
  exact (y.upto n).sig i

theorem MachExec.rec_iff (y : MachExec cap) (n : Nat) {i : SigId} {a : Sig} (hk : a.kind ≠ .async) :
    (y.c n).st.sigs[i]? = some a ↔ (y.toCodeExec.g n).sigs[i]? = some a := by
  rw [y.toCodeExec.sigs_eq, y.m_eq]
  exact upToStale_rec_iff (y.upto n) (y.reach n) hk

theorem MachExec.chan_eq (y : MachExec cap) (n : Nat) : (y.c n).st.chan = (y.toCodeExec.g n).chan := by
  rw [y.toCodeExec.chan_eq, y.m_eq]
  exact (y.upto n).chan

theorem MachExec.returned_iff (y : MachExec cap) (i k : Nat) : MachReturned y i k ↔ CodeReturned y.toCodeExec i k :=
  ⟨fun h => (y.clrEq k).dead h, fun h => (y.clrEq k).symm.dead h⟩

theorem MachExec.d_unlate (y : MachExec cap) {n : Nat} {sg : Seg} (h : y.d n = some sg) :
    y.toCodeExec.d n = some sg.unlate := by
  show (y.d n).map Seg.unlate = _
  rw [h]; rfl

theorem MachExec.d_of_unlate (y : MachExec cap) {n : Nat} {sg' : Seg} (h : y.toCodeExec.d n = some sg') :
    ∃ sg, y.d n = some sg ∧ sg.unlate = sg' := by
  change (y.d n).map Seg.unlate = some sg' at h
  cases hd : y.d n with
  | none => rw [hd] at h; cases h
  | some sg => rw [hd] at h; exact ⟨sg, rfl, by simpa using h⟩

theorem unlate_storeFinal {sg : Seg} {i : SigId} (h : sg.unlate = .storeFinal i) : sg = .storeFinal i := by
  cases sg <;> simp [Seg.unlate] at h ⊢
  exact h

theorem unlate_resume {sg : Seg} {e : Env} {late : Bool} (h : sg.unlate = .resumeWaiter e late) :
    ∃ late', sg = .resumeWaiter e late' := by
  cases sg <;> simp [Seg.unlate] at h ⊢
  exact h.1

theorem unlate_expire {sg : Seg} {e : Env} (h : sg.unlate = .expireWaiter e) : sg = .expireWaiter e := by
  cases sg <;> simp [Seg.unlate] at h ⊢
  exact h

theorem MachExec.storeFinal_iff (y : MachExec cap) (i j : Nat) :
    y.toCodeExec.d j = some (.storeFinal i) ↔ y.d j = some (.storeFinal i) := by
  constructor
  · intro h
    obtain ⟨sg, hd, hu⟩ := y.d_of_unlate h
    rw [hd, unlate_storeFinal hu]
  · intro h; exact y.d_unlate h

theorem MachExec.resume_of (y : MachExec cap) {i k : Nat}
    (h : ∃ e late, y.toCodeExec.d k = some (.resumeWaiter e late) ∧ e.x.me = i) :
    ∃ e late, y.d k = some (.resumeWaiter e late) ∧ e.x.me = i := by
  obtain ⟨e, late, hd, he⟩ := h
  obtain ⟨sg, hd', hu⟩ := y.d_of_unlate hd
  obtain ⟨late', rfl⟩ := unlate_resume hu
  exact ⟨e, late', hd', he⟩

theorem MachExec.runs_of (y : MachExec cap) {i k : Nat} (h : CallRunsAt y.toCodeExec i k) : MachCallRunsAt y i k := by
  obtain ⟨sg', hd, hc⟩ := h
  obtain ⟨sg, hd', hu⟩ := y.d_of_unlate hd
  refine ⟨sg, hd', ?_⟩
  rcases hc with ⟨e, late, rfl, he⟩ | ⟨e, rfl, he⟩
  · obtain ⟨late', rfl⟩ := unlate_resume hu
    exact Or.inl ⟨e, late', rfl, he⟩
  · exact Or.inr ⟨e, unlate_expire hu, he⟩

/-- machine and `codeStep` execution report the same results -/
theorem MachExec.res_eq (y : MachExec cap) (n : Nat) : y.res n = y.toCodeExec.res n := by
  cases h : y.d n with
  | none =>
    have h' : y.toCodeExec.d n = none := by show (y.d n).map Seg.unlate = _; rw [h]; rfl
    simp only [MachExec.res, CodeExec.res, h, h']
  | some sg =>
    obtain ⟨s', r, h1, -, h3⟩ := mach_sim (y.reach n) (y.sim n).2 sg (y.enabled n sg h)
    obtain ⟨r', h1', h3'⟩ := y.toCodeExec.step_some (y.d_unlate h)
    rw [y.m_eq, specSeg_unlate, h1] at h1'
    cases h1'
    rw [h3']
    simp only [MachExec.res, h]; exact h3

theorem MachExec.fairFinalize (y : MachExec cap) (i : Nat) (h : MachFairFinalize y i) :
    CodeFairFinalize y.toCodeExec i := by
  intro n hen
  obtain ⟨m, hm, hd⟩ := h n (fun k hk => (y.clrEq k).symm.storeFinal (hen k hk))
  exact ⟨m, hm, y.d_unlate hd⟩

theorem MachExec.fairComplete (y : MachExec cap) (i : Nat) (h : MachFairComplete y i) :
    CodeFairComplete y.toCodeExec i := by
  intro n hen
  obtain ⟨m, e, late, hm, hd, he⟩ := h n (fun k hk => (y.clrEq k).symm.resumable (hen k hk))
  exact ⟨m, e, false, hm, y.d_unlate hd, he⟩

/-- a claimed waiter (of any kind) has the same record in the machine's shared state and in the model -/
theorem upToStale_claimed {t s : State} (u : UpToStale t s) (hr : Reach .good s) {i : SigId} {b : Sig}
    (hb : s.sigs[i]? = some b) (hc : b.claimed = true) : t.sigs[i]? = some b := by
  have hso := (reach_str hr).sigOK i b hb
  refine u.same i b hb ?_
  by_cases hk : b.kind = .async
  · rw [(hso.claimed hc).2.2 hk]; decide
  · rw [hso.syncFut hk]; decide

theorem MachExec.kind_of (y : MachExec cap) {n i : Nat}
    (hk : ∀ a, (y.c n).st.sigs[i]? = some a → a.kind ≠ .async) :
    ∀ a, (y.toCodeExec.g n).sigs[i]? = some a → a.kind ≠ .async := by
  intro a ha
  obtain ⟨b, hb, hab⟩ := (y.clrEq n).symm.get ha
  rw [(clr_fields hab).2.1]; exact hk b hb

/-- **A returned call stays returned** (machine). -/
theorem mach_returned_stays (y : MachExec cap) (i n : Nat) (h : MachReturned y i n) :
    ∀ k, n ≤ k → MachReturned y i k := fun k hk =>
  (y.returned_iff i k).2 (code_returned_stays y.toCodeExec i n ((y.returned_iff i n).1 h) k hk)

/-- **C06 for the closed machine (a call whose signal is final returns).** -/
theorem mach_final_eventually_returns (y : MachExec cap) (i : Nat) (hfc : MachFairComplete y i) (n : Nat) (a : Sig)
    (ha : (y.c n).st.sigs[i]? = some a) (hal : a.alive = true) (hk : a.kind ≠ .async) (hf : a.st ≠ .pending) :
    ∃ k, n ≤ k ∧ MachCallRunsAt y i k ∧ MachReturned y i (k + 1) ∧
      (∀ v, a.role = .recv → a.st = .ok → a.slot = some v → y.res k = some (.val v)) := by
  obtain ⟨k, h1, h2, h3, h4⟩ := code_final_eventually_returns y.toCodeExec i (y.fairComplete i hfc) n a
    ((y.rec_iff n hk).1 ha) hal hk hf
  exact ⟨k, h1, y.runs_of h2, (y.returned_iff i (k + 1)).2 h3, fun v hr ho hs => by rw [y.res_eq]; exact h4 v hr ho hs⟩

/-- **C06 for the closed machine (a claimed waiter returns).**  The continuation run at step `k` is the one the call
    parked when it suspended. -/
theorem mach_claimed_eventually_returns (y : MachExec cap) (i : Nat) (hff : MachFairFinalize y i)
    (hfc : MachFairComplete y i) (n : Nat) (a : Sig) (ha : (y.c n).st.sigs[i]? = some a) (hal : a.alive = true)
    (hk : a.kind ≠ .async) (hc : a.claimed = true) :
    ∃ j k, n ≤ j ∧ j < k ∧ y.d j = some (.storeFinal i) ∧ MachCallRunsAt y i k ∧ MachReturned y i (k + 1) ∧
      (∀ v, a.role = .recv → a.slot = some v →
        y.res k = some (.val v) ∧ (∃ e late, y.d k = some (.resumeWaiter e late) ∧ e.x.me = i)) := by
  obtain ⟨j, k, h1, h2, h3, h4, h5, h6⟩ := code_claimed_eventually_returns y.toCodeExec i (y.fairFinalize i hff)
    (y.fairComplete i hfc) n a ((y.rec_iff n hk).1 ha) hal hk hc
  refine ⟨j, k, h1, h2, (y.storeFinal_iff i j).1 h3, y.runs_of h4, (y.returned_iff i (k + 1)).2 h5, fun v hr hs => ?_⟩
  obtain ⟨h7, h8⟩ := h6 v hr hs
  exact ⟨by rw [y.res_eq]; exact h7, y.resume_of h8⟩

/-- **C06 for the closed machine (close releases every blocked call).** -/
theorem mach_close_eventually_releases (y : MachExec cap) (n : Nat) (hd : y.d n = some .callClose)
    (hr : y.res n = some .unit) (i : Nat) (hi : i ∈ (y.c n).st.chan.waitList) (a : Sig)
    (ha : (y.c n).st.sigs[i]? = some a) (hk : a.kind ≠ .async) (hfc : MachFairComplete y i) :
    (y.c (n + 1)).st.sigs[i]? = some { a with st := .term } ∧
    ∃ k, n < k ∧ MachCallRunsAt y i k ∧ MachReturned y i (k + 1) := by
  rw [y.res_eq] at hr
  rw [y.chan_eq] at hi
  obtain ⟨h1, k, h2, h3, h4⟩ := code_close_eventually_releases y.toCodeExec n (y.d_unlate hd) hr i hi a
    ((y.rec_iff n hk).1 ha) hk (y.fairComplete i hfc)
  exact ⟨(y.rec_iff (n + 1) (a := { a with st := .term }) hk).2 h1, k, h2, y.runs_of h3, (y.returned_iff i (k + 1)).2 h4⟩

/-- **C06 for the closed machine (the last handle of a side releases every blocked call).** -/
theorem mach_last_drop_eventually_releases (y : MachExec cap) (n : Nat) (side : Side)
    (hd : y.d n = some (.callDropHandle side))
    (hlast : (side = .send → (y.c n).st.chan.sendCount = 1 ∧ (y.c n).st.chan.recvCount ≠ 0) ∧
             (side = .recv → (y.c n).st.chan.recvCount = 1 ∧ (y.c n).st.chan.sendCount ≠ 0))
    (i : Nat) (hi : i ∈ (y.c n).st.chan.waitList) (a : Sig) (ha : (y.c n).st.sigs[i]? = some a)
    (hk : a.kind ≠ .async) (hfc : MachFairComplete y i) :
    (y.c (n + 1)).st.sigs[i]? = some { a with st := .term } ∧
    ∃ k, n < k ∧ MachCallRunsAt y i k ∧ MachReturned y i (k + 1) := by
  rw [y.chan_eq] at hi hlast
  obtain ⟨h1, k, h2, h3, h4⟩ := code_last_drop_eventually_releases y.toCodeExec n side (y.d_unlate hd) hlast i hi a
    ((y.rec_iff n hk).1 ha) hk (y.fairComplete i hfc)
  exact ⟨(y.rec_iff (n + 1) (a := { a with st := .term }) hk).2 h1, k, h2, y.runs_of h3, (y.returned_iff i (k + 1)).2 h4⟩

theorem MachExec.claimed_of (y : MachExec cap) {n i : Nat} {m : Msg}
    (h : ∃ a', (y.toCodeExec.g n).sigs[i]? = some a' ∧ a'.claimed = true ∧ a'.slot = some m) :
    ∃ a', (y.c n).st.sigs[i]? = some a' ∧ a'.claimed = true ∧ a'.slot = some m := by
  obtain ⟨a', h1, h2, h3⟩ := h
  rw [y.toCodeExec.sigs_eq, y.m_eq] at h1
  exact ⟨a', upToStale_claimed (y.upto n) (y.reach n) h1 h2, h2, h3⟩

/-- **C06 for the closed machine (a send wakes the waiting receiver).** -/
theorem mach_send_eventually_wakes_receiver (y : MachExec cap) (i : Nat) (hff : MachFairFinalize y i)
    (hfc : MachFairComplete y i) (n : Nat) (e : Env) (hd : y.d n = some (.startSend e)) (rest : List Nat)
    (hw : (y.c n).st.chan.waitList = i :: rest) (hb : (y.c n).st.chan.recvBlocking = true)
    (hk : ∀ a, (y.c n).st.sigs[i]? = some a → a.kind ≠ .async) :
    (∃ a', (y.c (n + 1)).st.sigs[i]? = some a' ∧ a'.claimed = true ∧ a'.slot = some e.x.m) ∧
    ∃ j k, n < j ∧ j < k ∧ y.d j = some (.storeFinal i) ∧ MachReturned y i (k + 1) ∧ y.res k = some (.val e.x.m) ∧
      ∃ e' late, y.d k = some (.resumeWaiter e' late) ∧ e'.x.me = i := by
  rw [y.chan_eq] at hw hb
  obtain ⟨h0, j, k, h1, h2, h3, h4, h5, h6⟩ := code_send_eventually_wakes_receiver y.toCodeExec i (y.fairFinalize i hff)
    (y.fairComplete i hfc) n e (y.d_unlate hd) rest hw hb (y.kind_of hk)
  exact ⟨y.claimed_of h0, j, k, h1, h2, (y.storeFinal_iff i j).1 h3, (y.returned_iff i (k + 1)).2 h4,
    by rw [y.res_eq]; exact h5, y.resume_of h6⟩

/-- The same for `callTrySend`. -/
theorem mach_trySend_eventually_wakes_receiver (y : MachExec cap) (i : Nat) (hff : MachFairFinalize y i)
    (hfc : MachFairComplete y i) (n : Nat) (c : Ctx) (opt rt : Bool) (hd : y.d n = some (.callTrySend c opt rt))
    (rest : List Nat) (hw : (y.c n).st.chan.waitList = i :: rest) (hb : (y.c n).st.chan.recvBlocking = true)
    (hk : ∀ a, (y.c n).st.sigs[i]? = some a → a.kind ≠ .async) :
    (∃ a', (y.c (n + 1)).st.sigs[i]? = some a' ∧ a'.claimed = true ∧ a'.slot = some c.m) ∧
    ∃ j k, n < j ∧ j < k ∧ y.d j = some (.storeFinal i) ∧ MachReturned y i (k + 1) ∧ y.res k = some (.val c.m) ∧
      ∃ e' late, y.d k = some (.resumeWaiter e' late) ∧ e'.x.me = i := by
  rw [y.chan_eq] at hw hb
  obtain ⟨h0, j, k, h1, h2, h3, h4, h5, h6⟩ := code_trySend_eventually_wakes_receiver y.toCodeExec i
    (y.fairFinalize i hff) (y.fairComplete i hfc) n c opt rt (y.d_unlate hd) rest hw hb (y.kind_of hk)
  exact ⟨y.claimed_of h0, j, k, h1, h2, (y.storeFinal_iff i j).1 h3, (y.returned_iff i (k + 1)).2 h4,
    by rw [y.res_eq]; exact h5, y.resume_of h6⟩

/-! #### non-vacuity for the machine: the same schedule -/

def machDemoC : Nat → Code
  | 0 => Code.init (some 0)
  | n + 1 =>
    match codeDemoD n with
    | some sg => (machStep sg (machDemoC n)).1
    | none => machDemoC n

theorem machDemoC_tail (k : Nat) : machDemoC (4 + k) = machDemoC 4 := by
  induction k with
  | zero => rfl
  | succ k ih =>
    show machDemoC ((4 + k) + 1) = machDemoC 4
    rw [machDemoC, codeDemoD_tail k]
    exact ih

def machDemo : MachExec (some 0) where
  d := codeDemoD
  c := machDemoC
  init := rfl
  next := fun _ => rfl
  enabled := fun n sg h => by
    match n with
    | 0 => cases h; exact ⟨⟨by decide, by decide, by decide⟩, trivial⟩
    | 1 => cases h; exact ⟨⟨by decide, by decide, by decide, by decide⟩, trivial⟩
    | 2 => cases h; exact ⟨⟨_, rfl, by decide, by decide⟩, trivial⟩
    | 3 => cases h; exact ⟨⟨_, rfl, by decide, by decide, by decide, by decide⟩, by decide⟩
    | n + 4 =>
      have h0 : codeDemoD (n + 4) = none := by rw [Nat.add_comm]; exact codeDemoD_tail n
      rw [h0] at h; cases h

theorem machDemo_sig3 : (machDemoC 3).st.sigs[0]?.map (·.claimed) = some false := by decide
theorem machDemo_sig4 : (machDemoC 4).st.sigs[0]?.map (fun a => (a.claimed, a.alive)) = some (false, false) := by decide

theorem machDemo_fairFinalize : MachFairFinalize machDemo 0 := by
  intro n h
  by_cases h2 : n ≤ 2
  · exact ⟨2, h2, rfl⟩
  · exfalso
    obtain ⟨a, ha, hc, -⟩ := h n (Nat.le_refl _)
    by_cases h3 : n = 3
    · subst h3
      have := machDemo_sig3
      change (machDemoC 3).st.sigs[0]? = some a at ha
      rw [ha] at this
      simp [hc] at this
    · obtain ⟨k, rfl⟩ : ∃ k, n = 4 + k := ⟨n - 4, by omega⟩
      have := machDemo_sig4
      change (machDemoC (4 + k)).st.sigs[0]? = some a at ha
      rw [machDemoC_tail] at ha
      rw [ha] at this
      simp [hc] at this

theorem machDemo_fairComplete : MachFairComplete machDemo 0 := by
  intro n h
  by_cases h3 : n ≤ 3
  · exact ⟨3, codeDemoR, false, h3, rfl, rfl⟩
  · exfalso
    obtain ⟨a, ha, hal, -, -⟩ := h n (Nat.le_refl _)
    obtain ⟨k, rfl⟩ : ∃ k, n = 4 + k := ⟨n - 4, by omega⟩
    have := machDemo_sig4
    change (machDemoC (4 + k)).st.sigs[0]? = some a at ha
    rw [machDemoC_tail] at ha
    rw [ha] at this
    simp [hal] at this

/-- the machine's receiver returns 7, running the continuation `startRecv` parked -/
theorem machDemo_receiver_returns :
    ∃ j k, 1 < j ∧ j < k ∧ machDemo.d j = some (.storeFinal 0) ∧ MachReturned machDemo 0 (k + 1) ∧
      machDemo.res k = some (.val 7) ∧ ∃ e' late, machDemo.d k = some (.resumeWaiter e' late) ∧ e'.x.me = 0 :=
  (mach_send_eventually_wakes_receiver machDemo 0 machDemo_fairFinalize machDemo_fairComplete 1 codeDemoS rfl []
    (by decide) (by decide) (by
      intro a ha
      have : (machDemoC 1).st.sigs[0]?.map (·.kind) = some .sync := by decide
      change (machDemoC 1).st.sigs[0]? = some a at ha
      rw [ha] at this
      simp at this
      simp [this])).2

example : (List.range 5).map machDemo.res = [some (.blocked 0), some .unit, some .unit, some (.val 7), none] := by decide

end Kanal.C06

#print axioms Kanal.C06.CodeExec.sim
#print axioms Kanal.C06.CodeExec.toCExec_core
#print axioms Kanal.C06.CodeExec.prefix_exec
#print axioms Kanal.C06.CodeExec.kind_const
#print axioms Kanal.C06.CodeExec.fairComplete
#print axioms Kanal.C06.CodeExec.fairFinalize
#print axioms Kanal.C06.code_returned_stays
#print axioms Kanal.C06.code_final_eventually_returns
#print axioms Kanal.C06.code_claimed_eventually_returns
#print axioms Kanal.C06.code_claimed_eventually_retired
#print axioms Kanal.C06.code_close_eventually_releases
#print axioms Kanal.C06.code_last_drop_eventually_releases
#print axioms Kanal.C06.code_send_eventually_wakes_receiver
#print axioms Kanal.C06.code_trySend_eventually_wakes_receiver
#print axioms Kanal.C06.codeDemo_fairFinalize
#print axioms Kanal.C06.codeDemo_fairComplete
#print axioms Kanal.C06.c06_fair_codeExec_exists
#print axioms Kanal.C06.codeDemo_receiver_returns
#print axioms Kanal.C06.MachExec.sim
#print axioms Kanal.C06.MachExec.fairFinalize
#print axioms Kanal.C06.MachExec.fairComplete
#print axioms Kanal.C06.mach_returned_stays
#print axioms Kanal.C06.mach_final_eventually_returns
#print axioms Kanal.C06.mach_claimed_eventually_returns
#print axioms Kanal.C06.mach_close_eventually_releases
#print axioms Kanal.C06.mach_last_drop_eventually_releases
#print axioms Kanal.C06.mach_send_eventually_wakes_receiver
#print axioms Kanal.C06.mach_trySend_eventually_wakes_receiver
#print axioms Kanal.C06.machDemo_fairFinalize
#print axioms Kanal.C06.machDemo_fairComplete
#print axioms Kanal.C06.machDemo_receiver_returns
