/-
  C11 — disconnect happens exactly when the last handle of a side goes.

  `liveS` / `liveR` are the ledgers of live handles; by C12 they equal the counters the code
  tests while the channel is open.
-/
import Kanal.Lemmas.All
import Kanal.Lemmas.Stable
import Kanal.Props.C12
import Kanal.Tie

namespace Kanal.C11
open Kanal Chan State

/-- The receive critical section answers `SendClosed` only when the sender count is zero. -/
theorem recvPre_sendClosed {c c1 : Chan} {f t e} (h : c.recvPre f t e = (c1, .errSendClosed)) : c.sendCount = 0 := by
  unfold recvPre at h
  split at h
  · cases h
  · split at h
    · split at h <;> cases h
    · split at h
      · cases h
      · rename_i heq
        have hn := nextSend_none heq
        split at h
        · cases h
        · split at h
          · rename_i hz; cases h; simp at hz; rw [← hn.2.2.2.2.1]; exact hz
          · cases h

/-- The send critical section answers `ReceiveClosed` only when the receiver count is zero. -/
theorem sendPre_recvClosed {c c1 : Chan} {m} (h : c.sendPre m = (c1, .errRecvClosed)) : c.recvCount = 0 ∧ c.sendCount ≠ 0 := by
  unfold sendPre at h
  split at h
  · rename_i hz; split at h <;> cases h; simp_all
  · split at h
    · cases h
    · split at h <;> cases h

/-- **C11 (no disconnect while a handle lives).** On an open channel with at least one live sender
    handle no receive operation of any kind reports the send-side disconnect and receivers'
    `is_disconnected()` is false; symmetrically for senders while a receiver handle lives. -/
theorem c11_alive (v : Variant) (s : State) (h : Reach v s) (ho : s.closedOnce = false) :
    (s.liveS ≠ 0 → ∀ f t e c1, s.chan.recvPre f t e ≠ (c1, .errSendClosed)) ∧
    (s.liveS ≠ 0 → s.chan.isDisconnectedR = false) ∧
    (s.liveR ≠ 0 → ∀ m c1, s.chan.sendPre m ≠ (c1, .errRecvClosed)) ∧
    (s.liveR ≠ 0 → s.chan.isDisconnectedS = false) := by
  obtain ⟨h1, h2⟩ := (countInv_reach v s h).1 ho
  refine ⟨?_, ?_, ?_, ?_⟩
  · intro hl f t e c1 he; have := recvPre_sendClosed he; omega
  · intro hl; simp [isDisconnectedR]; omega
  · intro hl m c1 he; have := (sendPre_recvClosed he).1; omega
  · intro hl; simp [isDisconnectedS]; omega

/-- **C11 (receivers drain, then see the disconnect).** After the last sender is gone (sender count
    zero, receivers alive) nobody waits, every receive takes the head of what was accepted, in
    order, and only on an empty buffer reports `SendClosed`. -/
theorem c11_drain_then_error (s : State) (h : Reach Variant.good s) (hs0 : s.chan.sendCount = 0)
    (hr : s.chan.recvCount ≠ 0) (f : SigId → Msg) :
    s.chan.waitList = [] ∧
    (∀ v q, s.chan.queue = v :: q → (s.chan.recvPre f false false).2 = .fromQueue v none ∧
        (s.chan.recvPre f false false).1.queue = q) ∧
    (s.chan.queue = [] → (s.chan.recvPre f false false).2 = .errSendClosed) := by
  have hw := (reach_struct s h).half (Or.inl hs0)
  refine ⟨hw, ?_, ?_⟩
  · intro v q hq
    unfold recvPre nextSend
    cases hb : s.chan.recvBlocking <;> simp [hr, hq, hw]
  · intro hq
    unfold recvPre nextSend
    cases hb : s.chan.recvBlocking <;> simp [hr, hq, hw, hs0]

/-- **C11 (blocked operations are released).** The drop of the last handle of a side, with the other
    side still alive, terminates every blocked or pending operation and empties the wait list. -/
theorem c11_release (v : Variant) (s : State) (side : Side) (p : State × Res)
    (e : step v s (.dropHandle side) = some p)
    (hlast : (side = .send → s.chan.sendCount = 1 ∧ s.chan.recvCount ≠ 0) ∧
             (side = .recv → s.chan.recvCount = 1 ∧ s.chan.sendCount ≠ 0)) :
    p.1.chan.waitList = [] ∧
    (∀ i ∈ s.chan.waitList, ∀ g, s.sigs[i]? = some g → p.1.sigs[i]? = some { g with st := .term }) := by
  simp only [step] at e
  cases side
  · obtain ⟨h1, h2⟩ := hlast.1 rfl
    have hd : s.chan.dropCS .send = ({ s.chan with sendCount := 0, waitList := [] }, s.chan.waitList) := by
      simp [dropCS, h1, h2, terminateAll]
    simp only [hd] at e
    step_leaves e
    all_goals (refine ⟨by simp [dropMsgs_core], ?_⟩; intro i hi g hg; simp [terminateList_get, hi, hg])
  · obtain ⟨h1, h2⟩ := hlast.2 rfl
    have hd : s.chan.dropCS .recv = ({ s.chan with recvCount := 0, waitList := [] }, s.chan.waitList) := by
      simp [dropCS, h1, h2, terminateAll]
    simp only [hd] at e
    step_leaves e
    all_goals (refine ⟨by simp [dropMsgs_core], ?_⟩; intro i hi g hg; simp [terminateList_get, hi, hg])

/-- **C11 (no receivers).** After the last receiver is gone every send fails with `ReceiveClosed`
    and gives its value to nobody: it is handed back (Option variants) or destroyed once, and —
    by `cust_stable` — never moves again, so no receiver ever obtains it. -/
theorem c11_no_receivers (s : State) (h : Reach Variant.good s) (hr0 : s.chan.recvCount = 0)
    (hs : s.chan.sendCount ≠ 0) (m : Msg) (kind : Kind) (opt : Bool) (p : State × Res)
    (e : step Variant.good s (.send m kind opt) = some p) :
    p.2 = .err .recvClosed ∧ (p.1.cust m = .callerS ∨ p.1.cust m = .gone) ∧ m ∉ p.1.recvd ∧
    (∀ ls s' rs, run Variant.good p.1 ls = some (s', rs) → m ∉ s'.recvd) := by
  have hpre : s.chan.sendPre m = (s.chan, .errRecvClosed) := by simp [sendPre, hr0, hs]
  simp only [step] at e
  split at e
  · cases e
  · cases e
    have hp : Reach Variant.good (sendStep s m opt (some { role := .send, kind := kind, opt := opt })).1 :=
      Reach.step h (l := .send m kind opt) (by simp only [step]; simp_all)
    have hc : (sendStep s m opt (some { role := .send, kind := kind, opt := opt })).1.cust m = .callerS ∨
        (sendStep s m opt (some { role := .send, kind := kind, opt := opt })).1.cust m = .gone := by
      simp only [sendStep, hpre, failBack]; split <;> simp [setCust, dropMsg, upd]
    refine ⟨by simp [sendStep, hpre], hc, ?_, ?_⟩
    · intro hm
      have := ((reach_ledger _ hp).2.recvdCust m).mp hm
      rcases hc with hc | hc <;> rw [hc] at this <;> cases this
    · intro ls s' rs hrun hm
      have hst := cust_stable_run hp ls s' rs hrun m (by rcases hc with hc | hc <;> simp [hc])
      have hr' := Reach.run hp ls s' rs hrun
      have := ((reach_ledger _ hr').2.recvdCust m).mp hm
      rw [hst] at this
      rcases hc with hc | hc <;> rw [hc] at this <;> cases this

theorem c11_this_tree :
    Generated.drop_terminate_guards = [(true, .eq, false, .ne), (true, .eq, false, .ne), (false, .eq, true, .ne), (false, .eq, true, .ne)] ∧
    Generated.recv_guards.map (·.2) = List.replicate 6 (.eq, .eq, true) := by
  have := Tie.counts_ok; have := Tie.recv_guards_ok; simp_all

/-- Non-vacuity: two buffered values, the only sender drops, a blocked receive future elsewhere is … (here: drained then SendClosed). -/
example : ∃ s rs, run Variant.good (State.init (some 2))
    [.send 1 .sync false, .send 2 .sync false, .dropHandle .send, .tryRecv false, .tryRecv false, .tryRecv false] = some (s, rs) ∧
    rs = [.unit, .unit, .unit, .val 1, .val 2, .err .sendClosed] := by
  refine ⟨_, _, rfl, ?_⟩; decide

end Kanal.C11

#print axioms Kanal.C11.c11_alive
#print axioms Kanal.C11.c11_drain_then_error
#print axioms Kanal.C11.c11_release
#print axioms Kanal.C11.c11_no_receivers
#print axioms Kanal.C11.c11_this_tree
