/-
  C15 — dropping a future at any point is safe and leaves the channel consistent.

  `Label.dropSendFut f` / `Label.dropRecvFut f` are the futures' `Drop`; they can be taken in
  any state of the future, in any reachable state of the model: never polled (`zero`),
  pending and still listed, pending but claimed by a peer whose final store has not happened
  yet (then `Drop` spins: answer `.spin`, nothing changes, it is retried), completed by the peer
  but not yet polled, finished.
-/
import Kanal.Lemmas.All
import Kanal.Lemmas.Stable
import Kanal.Tie

namespace Kanal.C15
open Kanal Chan State

/-! ### Technical lemmas -/

/-- Whether the waiter is listed decides what `cancel` does. -/
theorem c15_cancel_listed {s : State} (hst : Struct s) {f : Nat} {g : Sig} (hg : s.sigs[f]? = some g) :
    (f ∈ s.chan.waitList → s.chan.cancel g.role f = ({ s.chan with waitList := s.chan.waitList.erase f }, true) ∧
        g.claimed = false ∧ g.st = .pending ∧ f ∉ s.chan.waitList.erase f ∧ (g.role = .recv → g.slot = none)) ∧
    (f ∉ s.chan.waitList → s.chan.cancel g.role f = (s.chan, false)) := by
  constructor
  · intro hin
    obtain ⟨g0, hg0, hl⟩ := hst.listed f hin
    rw [hg] at hg0; cases hg0
    refine ⟨?_, hl.unclaimed, hl.pending, fun h => ?_, hl.recvSlot⟩
    · have hr := hl.role
      unfold Chan.listRole at hr
      unfold cancel
      cases hb : s.chan.recvBlocking <;> simp_all
    · exact (List.Nodup.mem_erase_iff hst.nodup).mp h |>.1 rfl
  · intro hin
    unfold cancel; simp [hin]

/-- `c15_send_drop` without the clause about continuations. -/
theorem c15_send_drop_core (s : State) (hr : Reach Variant.good s) (f : Nat) (g : Sig)
    (hg : s.sigs[f]? = some g) (p : State × Res) (e : step Variant.good s (.dropSendFut f) = some p) :
    (g.fut = .waiting → g.st = .pending → g.claimed = true → p = (s, .spin)) ∧
    (p.2 = .unit →
      (∃ g', p.1.sigs[f]? = some g' ∧ g'.alive = false ∧ g'.slot = none ∧ g'.claimed = false) ∧
      f ∉ p.1.chan.waitList ∧ p.1.chan.waitList = s.chan.waitList.erase f ∧
      p.1.chan.queue = s.chan.queue ∧ p.1.recvd = s.recvd ∧ p.1.delivered = s.delivered ∧
      (∀ m, g.slot = some m → p.1.dropped = s.dropped ++ [m] ∧ p.1.cust m = .gone) ∧
      (g.slot = none → p.1.dropped = s.dropped ∧ p.1.cust = s.cust)) := by
  have hst := reach_struct s hr
  obtain ⟨hsd, hl⟩ := reach_ledger s hr
  simp only [step, hg] at e
  split at e
  · cases e
  rename_i hen
  obtain ⟨ha, hk, hrole⟩ : g.alive = true ∧ g.kind = .async ∧ g.role = .send := by simpa using hen
  have hok := hst.sigOK f g hg
  have hcan := c15_cancel_listed hst hg
  rw [hrole] at hcan
  have hdone : g.fut = .done → g.slot = none := hsd f g hg hrole
  have hcl : g.claimed = true → g.st = .pending ∧ g.fut = .waiting := fun h =>
    ⟨(hok.claimed h).2.1, (hok.claimed h).2.2 hk⟩
  have htk : g.st = .ok → g.slot = none := fun h => hok.sendTaken hrole (Or.inl h)
  have hact : f ∈ s.chan.waitList → g.fut = .waiting := by
    intro hin
    obtain ⟨g0, hg0, hl⟩ := hst.listed f hin
    rw [hg] at hg0; cases hg0
    exact (hl.fut hk).1
  by_cases hin : f ∈ s.chan.waitList
  · obtain ⟨h1, h2, h3, h4, -⟩ := hcan.1 hin
    have h5 := hact hin
    simp only [h1, h5] at e
    step_leaves e
    all_goals (clear hcan h1 hen hact)
    all_goals (simp [hg, upd])
    all_goals simp_all
  · have h1 := hcan.2 hin
    simp only [h1] at e
    step_leaves e
    all_goals (clear hcan h1 hen hact)
    all_goals (simp [hg, upd])
    all_goals (try simp_all)
    all_goals exact (List.erase_of_not_mem hin).symm

/-- A destroyed value is never received, along any continuation. -/
theorem c15_gone_never_received {s : State} (hr : Reach Variant.good s) {m : Msg} (hm : s.cust m = .gone)
    (ls : List Label) (s' : State) (rs : List Res) (hrun : run Variant.good s ls = some (s', rs)) : m ∉ s'.recvd := by
  intro hin
  have hst := cust_stable_run hr ls s' rs hrun m (by simp [hm])
  have hr' := Reach.run hr ls s' rs hrun
  have := ((reach_ledger _ hr').2.recvdCust m).mp hin
  rw [hst, hm] at this; cases this

/-- The send body touches only the receive waiter it pops from the wait list. -/
theorem c15_sendStep_untouched (s : State) (m : Msg) (o : Bool) (reg : Option Sig) (i : Nat) (g : Sig)
    (hg : s.sigs[i]? = some g) (hnl : i ∉ s.chan.waitList) :
    (sendStep s m o reg).1.sigs[i]? = some g := by
  have hne : i ≠ s.sigs.length := Nat.ne_of_lt (lt_of_get?_some hg)
  unfold sendStep
  simp only
  split
  case h_3 c1 r heq =>
    have hp := (sendPre_pops heq).1.wl
    have : r ≠ i := by rintro rfl; apply hnl; rw [hp]; simp [poppedS]
    simp [deliverTo_get, hg, this]
  all_goals (try split)
  all_goals simp [append_single_get, hg, hne]

/-- The receive body touches only the send waiter it pops from the wait list. -/
theorem c15_recvStep_untouched (s : State) (t e : Bool) (i : Nat) (g : Sig)
    (hg : s.sigs[i]? = some g) (hnl : i ∉ s.chan.waitList) :
    (recvStep s t e).1.sigs[i]? = some g := by
  unfold recvStep
  split <;> rename_i heq
  · split
    · simp [hg]
    · obtain ⟨hp, -⟩ := recvPre_popped heq (Or.inl rfl)
      rename_i p
      have : p ≠ i := by rintro rfl; exact hnl hp
      simp [takeFrom_get, hg, this]
  · obtain ⟨hp, -⟩ := recvPre_popped (v := 0) heq (Or.inr rfl)
    rename_i p
    have : p ≠ i := by rintro rfl; exact hnl hp
    simp [claimFrom_get, hg, this]
  · simp [hg]

/-! ### The property -/

/-- **C15 (send future).** Dropping a send future: never polled → its value is destroyed once;
    pending and still listed → it is removed from the wait list (the others keep their order) and
    its value destroyed once, never delivered; claimed but not yet finalised → `Drop` waits
    (`.spin`, nothing changes); already completed by a receiver (`ok`) → the value was delivered,
    the sender destroys nothing; terminated → destroyed once; finished → nothing.  In every
    completed case the future is dead afterwards, out of the wait list, its slot empty. -/
theorem c15_send_drop (s : State) (hr : Reach Variant.good s) (f : Nat) (g : Sig)
    (hg : s.sigs[f]? = some g) (p : State × Res) (e : step Variant.good s (.dropSendFut f) = some p) :
    (g.fut = .waiting → g.st = .pending → g.claimed = true → p = (s, .spin)) ∧
    (p.2 = .unit →
      (∃ g', p.1.sigs[f]? = some g' ∧ g'.alive = false ∧ g'.slot = none ∧ g'.claimed = false) ∧
      f ∉ p.1.chan.waitList ∧ p.1.chan.waitList = s.chan.waitList.erase f ∧
      p.1.chan.queue = s.chan.queue ∧ p.1.recvd = s.recvd ∧ p.1.delivered = s.delivered ∧
      (∀ m, g.slot = some m → p.1.dropped = s.dropped ++ [m] ∧ p.1.cust m = .gone ∧
          (∀ ls s' rs, run Variant.good p.1 ls = some (s', rs) → m ∉ s'.recvd)) ∧
      (g.slot = none → p.1.dropped = s.dropped ∧ p.1.cust = s.cust)) := by
  obtain ⟨h1, h2⟩ := c15_send_drop_core s hr f g hg p e
  refine ⟨h1, fun hu => ?_⟩
  obtain ⟨a1, a2, a3, a4, a5, a6, a7, a8⟩ := h2 hu
  refine ⟨a1, a2, a3, a4, a5, a6, fun m hm => ?_, a8⟩
  obtain ⟨b1, b2⟩ := a7 m hm
  exact ⟨b1, b2, c15_gone_never_received (Reach.step hr e) b2⟩

/-- **C15 (receive future).** Dropping a receive future consumes at most one value — exactly when a
    sender had already completed the hand-off into it — and that value is destroyed exactly once;
    otherwise nothing is consumed.  Afterwards the future is dead and out of the wait list, the
    other waiters keep their order.  While a sender has claimed it but not finalised, `Drop` waits. -/
theorem c15_recv_drop (s : State) (hr : Reach Variant.good s) (f : Nat) (g : Sig)
    (hg : s.sigs[f]? = some g) (p : State × Res) (e : step Variant.good s (.dropRecvFut f) = some p) :
    (g.fut = .waiting → g.st = .pending → g.claimed = true → p = (s, .spin)) ∧
    (p.2 = .unit →
      (∃ g', p.1.sigs[f]? = some g' ∧ g'.alive = false ∧ g'.slot = none ∧ g'.claimed = false) ∧
      f ∉ p.1.chan.waitList ∧ p.1.chan.waitList = s.chan.waitList.erase f ∧
      p.1.chan.queue = s.chan.queue ∧ p.1.recvd = s.recvd ∧
      (∀ m, g.slot = some m → p.1.dropped = s.dropped ++ [m] ∧ p.1.cust m = .gone) ∧
      (g.slot = none → p.1.dropped = s.dropped ∧ p.1.cust = s.cust)) := by
  have hst := reach_struct s hr
  simp only [step, hg] at e
  split at e
  · cases e
  rename_i hen
  obtain ⟨ha, hk, hrole⟩ : g.alive = true ∧ g.kind = .async ∧ g.role = .recv := by simpa using hen
  have hok := hst.sigOK f g hg
  have hcan := c15_cancel_listed hst hg
  rw [hrole] at hcan
  have hcl : g.claimed = true → g.st = .pending ∧ g.fut = .waiting := fun h =>
    ⟨(hok.claimed h).2.1, (hok.claimed h).2.2 hk⟩
  have hB : g.st = .term → g.slot = none := by
    intro c
    have h1 := hok.recvHolds hrole
    have h2 := hok.finalUnclaimed (by simp [c])
    cases hsl : g.slot <;> simp_all
  have hC : g.fut ≠ .waiting → g.slot = none := by
    intro c
    have h1 := hok.recvHolds hrole
    cases hsl : g.slot <;> simp_all
  have hfin : g.st ≠ .pending → g.claimed = false := hok.finalUnclaimed
  by_cases hin : f ∈ s.chan.waitList
  · obtain ⟨h1, h2, h3, h4, h5⟩ := hcan.1 hin
    have h5 := h5 rfl
    have h6 : g.fut = .waiting := by
      obtain ⟨g0, hg0, hl⟩ := hst.listed f hin
      rw [hg] at hg0; cases hg0
      exact (hl.fut hk).1
    simp only [h1, h6] at e
    step_leaves e
    all_goals (clear hcan h1 hen)
    all_goals (simp [hg])
    all_goals simp_all
  · have h1 := hcan.2 hin
    simp only [h1] at e
    step_leaves e
    all_goals (clear hcan h1 hen)
    all_goals (simp [hg, upd])
    all_goals (try simp_all)
    all_goals first
      | exact (List.erase_of_not_mem hin).symm
      | (refine ⟨(List.erase_of_not_mem hin).symm, ?_⟩
         cases hs : g.st <;> simp_all)

/-- **C15 (no access after the drop).** A dead waiter is never touched again: no later step
    finalises it, delivers into it or takes from it — its table entry never changes. -/
theorem c15_dead_untouched (v : Variant) (s : State) (hst : Struct s) (i : Nat) (g : Sig)
    (hg : s.sigs[i]? = some g) (hd : g.alive = false) (l : Label) (p : State × Res)
    (e : step v s l = some p) : p.1.sigs[i]? = some g := by
  have hne : i ≠ s.sigs.length := Nat.ne_of_lt (lt_of_get?_some hg)
  have hnl : i ∉ s.chan.waitList := by
    intro hin
    obtain ⟨g0, hg0, hl⟩ := hst.listed i hin
    rw [hg] at hg0; cases hg0
    have := hl.alive; simp_all
  have hcl : g.claimed = false := ((hst.sigOK i g hg).dead hd).2
  cases l <;> simp only [step] at e
  case send m kind opt => step_leaves e; exact c15_sendStep_untouched _ _ _ _ _ _ hg hnl
  case trySend m opt rt =>
    have := c15_sendStep_untouched s m opt none i g hg hnl
    step_leaves e <;> (try rename_i heq) <;> (try rw [heq] at this) <;> exact this
  case recv kind ex =>
    have hg1 := c15_recvStep_untouched s (kind == .timed) ex i g hg hnl
    have hne1 : i ≠ (recvStep s (kind == .timed) ex).1.sigs.length := Nat.ne_of_lt (lt_of_get?_some hg1)
    step_leaves e
    · simp [append_single_get, hne1, hg1]
    · exact hg1
  case tryRecv rt => step_leaves e; exact c15_recvStep_untouched s false false i g hg hnl
  case drain =>
    step_leaves e
    · exact hg
    · rename_i heq
      have := (drainCS_what heq).2 i
      simp [foldl_takeFrom_get, hg]
      intro hin; exact absurd (this hin).1 hnl
  case close =>
    step_leaves e
    · exact hg
    · rename_i heq
      have := (closeCS_spec heq).1
      subst this
      simp [terminateList_get, hg, hnl]
  case dropHandle side =>
    have hsp := (dropCS_spec s.chan side).1
    have hni : i ∉ (s.chan.dropCS side).2 := by
      rcases hsp with h | h <;> rw [h.1] <;> simp [hnl]
    cases side <;> simp only at e <;> step_leaves e <;> simp [hg, terminateList_get, hni]
  case pollRecv f w =>
    have hg1 := c15_recvStep_untouched s false false i g hg hnl
    step_leaves e
    all_goals (simp [hg, hg1])
    all_goals (intro hfi; subst hfi; simp_all)
  case pollSend f w =>
    step_leaves e
    all_goals (try (simp [hg]))
    all_goals (try (intro hfi; subst hfi; simp_all; done))
    rename_i r heq
    have hp := (sendPre_pops heq).1.wl
    have : r ≠ i := by rintro rfl; apply hnl; rw [hp]; simp [poppedS]
    simp [deliverTo_get, hg, this]
    intro hfi; subst hfi; simp_all
  case clone side => cases side <;> simp only at e <;> step_leaves e <;> simp [hg]
  case convert side => cases side <;> simp only at e <;> step_leaves e <;> simp [hg]
  case isDisconnected side => cases side <;> simp only at e <;> step_leaves e <;> simp [hg]
  all_goals step_leaves e
  all_goals (simp [hg, hne, append_single_get, finalize_get])
  all_goals (try (intro hfi; subst hfi; simp_all; done))
  split <;> simp_all

theorem c15_this_tree : Generated.send_future_drop_cancels = true ∧ Generated.recv_future_drop_cancels = true ∧
    Generated.d3_stream_rearm = true := by
  have := Tie.variant_good; simp_all

/-- Non-vacuity: a pending send future claimed by a receiver: drop spins; after the final store drop returns, value delivered once, not destroyed. -/
example : ∃ s rs, run Variant.good (State.init (some 0))
    [.newSendFut 1, .pollSend 0 0, .tryRecv false, .dropSendFut 0, .finalize 0, .dropSendFut 0] = some (s, rs) ∧
    rs = [.num 0, .pending, .val 1, .spin, .unit, .unit] ∧ s.recvd = [1] ∧ s.dropped = [] := by
  refine ⟨_, _, rfl, ?_, ?_, ?_⟩ <;> decide

end Kanal.C15

#print axioms Kanal.C15.c15_send_drop
#print axioms Kanal.C15.c15_recv_drop
#print axioms Kanal.C15.c15_dead_untouched
#print axioms Kanal.C15.c15_this_tree
