/-
  C05 — every message is destroyed exactly once, whatever path it takes.

  `dropped` is the drop log of the model (one entry per destructor run), `recvd` the values
  handed to receiving callers (who then own and destroy them), `callerS` custody the values
  handed back to the sender through its `Option`.  Quantification as in C01: every reachable
  state of the model of the repaired tree.
-/
import Kanal.Lemmas.All
import Kanal.Props.C18
import Kanal.Tie

namespace Kanal.C05
open Kanal Chan State

/-- **C05 (at most once).** No value is destroyed twice by the channel or the sending side, a
    destroyed value was never handed to a receiver, and a value in the buffer or in a slot has
    not been destroyed. -/
theorem c05_at_most_once (s : State) (h : Reach Variant.good s) :
    s.dropped.Nodup ∧ (∀ m ∈ s.dropped, s.cust m = .gone ∧ m ∉ s.recvd ∧ m ∉ s.chan.queue) := by
  obtain ⟨-, hl⟩ := reach_ledger s h
  refine ⟨hl.droppedNodup, fun m hm => ?_⟩
  have hc := (hl.droppedCust m).mp hm
  refine ⟨hc, fun hr => ?_, fun hq => ?_⟩
  · have := (hl.recvdCust m).mp hr; rw [hc] at this; cases this
  · have := hl.queueCust m hq; rw [hc] at this; cases this

/-- No path forgets a value without destroying it (`leaked` custody is unreachable). -/
theorem c05_never_leaked (s : State) (h : Reach Variant.good s) (m : Msg) : s.cust m ≠ .leaked :=
  (reach_ledger s h).2.noLeak m

theorem sendPre_handoff_mem {c c1 : Chan} {m r} (h : c.sendPre m = (c1, .handoff r)) : r ∈ c.waitList := by
  unfold sendPre at h
  split at h
  · split at h <;> cases h
  · split at h
    · rename_i heq; cases h
      have := nextRecv_some heq
      rw [this.2.1]; simp
    · split at h <;> cases h

/-- Outcome of the shared send body, by branch: what the caller is told and where the value went. -/
theorem sendStep_outcome (s : State) (m : Msg) (opt : Bool) (reg : Option Sig) (hs : Struct s) (hf : s.cust m = .fresh) :
    let p := sendStep s m opt reg
    -- failure / refusal: handed back (Option variants) or destroyed once, in nobody's hands
    ((p.2 = .err .closed ∨ p.2 = .err .recvClosed ∨ p.2 = .bool false) →
        (opt = true → p.1.cust m = .callerS ∧ p.1.dropped = s.dropped) ∧
        (opt = false → p.1.cust m = .gone ∧ p.1.dropped = s.dropped ++ [m])) ∧
    -- success or registration: taken by the channel, not destroyed, not handed back
    ((p.2 = .unit ∨ ∃ i, p.2 = .blocked i) →
        (p.1.cust m = .queued ∨ ∃ i, p.1.cust m = .slot i) ∧ p.1.dropped = s.dropped) ∧
    -- nothing else can be answered
    (p.2 = .err .closed ∨ p.2 = .err .recvClosed ∨ p.2 = .bool false ∨ p.2 = .unit ∨ ∃ i, p.2 = .blocked i) := by
  unfold sendStep
  simp only
  split
  case h_3 c1 r heq =>
    obtain ⟨g, hg, -⟩ := hs.listed r (sendPre_handoff_mem heq)
    simp [deliverTo, hg, setCust, upd]
  all_goals (try split)
  all_goals simp [failBack, dropMsg, setCust, upd, newSig]
  all_goals (try (cases opt <;> simp [upd]))

/-- **C05 (Option variants).** `send_option_timeout` / `try_send_option*` leave the value with the
    caller (`Some` stays) exactly when they report failure or refusal; they take it (`None`)
    exactly when they report success or go on waiting (for the timed variant the later outcome is
    covered by `c13`).  The non-Option variants destroy a failed value exactly once. -/
theorem c05_option (s : State) (hr : Reach Variant.good s) (m : Msg) (kind : Kind) (opt : Bool) (p : State × Res)
    (e : step Variant.good s (.send m kind opt) = some p) :
    ((p.2 = .err .closed ∨ p.2 = .err .recvClosed) →
        (opt = true → p.1.cust m = .callerS ∧ p.1.dropped = s.dropped) ∧
        (opt = false → p.1.cust m = .gone ∧ p.1.dropped = s.dropped ++ [m])) ∧
    ((p.2 = .unit ∨ ∃ i, p.2 = .blocked i) → (p.1.cust m = .queued ∨ ∃ i, p.1.cust m = .slot i) ∧ p.1.dropped = s.dropped) := by
  simp only [step] at e
  split at e
  · cases e
  · rename_i hn
    cases e
    have hf : s.cust m = .fresh := by
      by_cases hf : s.cust m = .fresh
      · exact hf
      · exact absurd (Or.inr (Or.inl hf)) hn
    have := sendStep_outcome s m opt (some { role := .send, kind := kind, opt := opt }) (reach_struct s hr) hf
    exact ⟨fun h => this.1 (by rcases h with h | h <;> simp [h]), this.2.1⟩

theorem c05_try_option (s : State) (hr : Reach Variant.good s) (m : Msg) (opt rt : Bool) (p : State × Res)
    (e : step Variant.good s (.trySend m opt rt) = some p) :
    ((p.2 = .err .closed ∨ p.2 = .err .recvClosed ∨ p.2 = .bool false) →
        (opt = true → p.1.cust m = .callerS ∧ p.1.dropped = s.dropped) ∧
        (opt = false → p.1.cust m = .gone ∧ p.1.dropped = s.dropped ++ [m])) ∧
    (p.2 = .bool true → (p.1.cust m = .queued ∨ ∃ i, p.1.cust m = .slot i) ∧ p.1.dropped = s.dropped) := by
  simp only [step] at e
  split at e
  · cases e
  · rename_i hn
    have hf : s.cust m = .fresh := by
      by_cases hf : s.cust m = .fresh
      · exact hf
      · exact absurd (Or.inr hf) hn
    have := sendStep_outcome s m opt none (reach_struct s hr) hf
    generalize hq : sendStep s m opt none = q at this e
    obtain ⟨s1, r⟩ := q
    simp only at this
    cases r <;> simp at e <;> subst e <;> simp_all

/-- Once every handle is gone the buffer is empty (the last handle drop destroys it). -/
theorem gone_queue_empty (s : State) (h : Reach Variant.good s) : s.liveS + s.liveR = 0 → s.chan.queue = [] := by
  refine Reach.induct (P := fun s => s.liveS + s.liveR = 0 → s.chan.queue = []) ?_ ?_ s h
  · intro cap; simp [State.init]
  · intro s0 l p hr ih e hz
    have hs0 := reach_struct s0 hr
    by_cases hl : Label.isPlain l = true
    · obtain ⟨-, h2, h3, -⟩ := step_quiet hl e
      have hz0 : s0.liveS + s0.liveR = 0 := by omega
      -- no plain label is enabled without a live handle
      have hen := (C18.c18_total Variant.good s0 l).mp (by rw [e]; rfl)
      exfalso
      have hb := hs0.borrow
      cases l <;> simp [Label.isPlain] at hl <;> simp only [C18.Enabled] at hen
      all_goals first
        | omega
        | (obtain ⟨g, hg, hrest⟩ := hen
           have hso := hs0.sigOK _ g hg
           have := hb _ g hg
           cases hr' : g.role <;> simp_all <;> omega)
        | (obtain ⟨g, hg, hc, -⟩ := hen
           have hso := hs0.sigOK _ g hg
           have ha := (hso.claimed hc).1
           have := hb _ g hg ha
           cases hr' : g.role <;> simp_all <;> omega)
        | (rename_i side; cases side <;> simp [C18.Enabled] at hen <;> omega)
    · cases l <;> simp [Label.isPlain] at hl <;> simp only [step] at e
      case clone side => cases side <;> simp only at e <;> step_leaves e <;> (simp at hz)
      case dropHandle side =>
        cases side <;> simp only at e <;> step_leaves e
        all_goals first
          | (simp; done)
          | (simp at hz; simp_all; done)
          | (simp at hz; omega)
      case close =>
        step_leaves e
        all_goals (simp at hz; omega)

/-- Once every handle is gone nothing is left inside the channel. -/
theorem gone_empty (s : State) (h : Reach Variant.good s) (hz : s.liveS + s.liveR = 0) :
    s.chan.queue = [] ∧ ∀ (i : Nat) (g : Sig), s.sigs[i]? = some g → g.slot = none := by
  have hs := reach_struct s h
  refine ⟨gone_queue_empty s h hz, ?_⟩
  intro i g hg
  have := hs.borrow i g hg
  have hso := hs.sigOK i g hg
  by_cases ha : g.alive = true
  · have := this ha
    cases hr : g.role <;> simp_all <;> omega
  · exact (hso.dead (by simpa using ha)).1

/-- **C05 (no leak).** When the last handle of the channel is gone, every value ever given to it
    has been received, destroyed exactly once, or handed back to its sender. -/
theorem c05_no_leak (s : State) (h : Reach Variant.good s) (hz : s.liveS + s.liveR = 0) (m : Msg)
    (hm : m ∈ s.offered) :
    (m ∈ s.recvd ∧ m ∉ s.dropped) ∨ (m ∈ s.dropped ∧ m ∉ s.recvd) ∨ s.cust m = .callerS := by
  obtain ⟨-, hl⟩ := reach_ledger s h
  obtain ⟨hq, hsl⟩ := gone_empty s h hz
  have hne := (hl.offeredCust m).mp hm
  cases hc : s.cust m with
  | fresh => exact absurd hc hne
  | callerS => exact Or.inr (Or.inr rfl)
  | queued => have := hl.custQueue m hc; rw [hq] at this; cases this
  | slot i => obtain ⟨g, hg, hs⟩ := hl.custSlot m i hc; rw [hsl i g hg] at hs; cases hs
  | callerR =>
    refine Or.inl ⟨(hl.recvdCust m).mpr hc, fun hd => ?_⟩
    have := (hl.droppedCust m).mp hd; rw [hc] at this; cases this
  | gone =>
    refine Or.inr (Or.inl ⟨(hl.droppedCust m).mpr hc, fun hr => ?_⟩)
    have := (hl.recvdCust m).mp hr; rw [hc] at this; cases this
  | leaked => exact absurd hc (hl.noLeak m)

/-- The defects this property caught, as theorems about the defective variants. -/
theorem c05_fails_without_timeout_drop :
    (run vD1 (State.init (some 0)) d1Labels).map (fun p => (p.2, p.1.cust 1, p.1.dropped)) =
      some ([.blocked 0, .err .timeout], .leaked, []) := d1_leaks

theorem c05_this_tree : Generated.d1_timeout_drops = true ∧ Generated.d2_option_value_in_maybeuninit = true ∧
    Generated.send_drops_on_failure = true ∧ Generated.send_future_drop_cancels = true ∧
    Generated.recv_future_drop_cancels = true := by
  have := Tie.variant_good; simp_all

/-- Non-vacuity: a full run that ends with all handles gone and one value each received, dropped by close… -/
example : ∃ s rs, run Variant.good (State.init (some 2))
    [.send 1 .sync false, .send 2 .sync false, .tryRecv false, .dropHandle .send, .dropHandle .recv] = some (s, rs) ∧
    s.liveS + s.liveR = 0 ∧ s.recvd = [1] ∧ s.dropped = [2] := by
  refine ⟨_, _, rfl, ?_, ?_, ?_⟩ <;> decide

end Kanal.C05

#print axioms Kanal.C05.c05_at_most_once
#print axioms Kanal.C05.c05_never_leaked
#print axioms Kanal.C05.c05_option
#print axioms Kanal.C05.c05_try_option
#print axioms Kanal.C05.c05_no_leak
#print axioms Kanal.C05.c05_fails_without_timeout_drop
#print axioms Kanal.C05.c05_this_tree
