/-
  C04 — payload integrity for every message type and transfer path.

  Byte model `Kanal.PtrM`: for every pointer size `P > 0`, every size `n` (zero-sized, smaller
  than, equal to, larger than a pointer) and every value of `n` initialised bytes, each way a
  value travels through a `KanalPtr` yields exactly those bytes, none of them uninitialised:
  into a blocked sync receiver's slot, out of a blocked sync sender's slot, into a pending
  receive future, out of a pending send future.  (The buffer path is a Rust move of `T` inside
  `VecDeque<T>`.)  Together with C01 (the slot a waiter reads after `UNLOCKED` holds exactly the
  value decided for it) and C07 (that read is ordered after the peer's write) this gives
  "never stale, torn or uninitialised".

  [partial] That rustc lays a given `T` out in `size_of::<T>()` bytes and that
  `ptr::read/write/copy_nonoverlapping` move exactly those bytes is Rust's semantics; alignment
  plays no part in the copy logic and is not modelled (the integrity runs of the check cover
  over-aligned and padded types on the real crate).
-/
import Kanal.PtrM
import Kanal.Tie

namespace Kanal.C04
open Kanal Kanal.PtrM

theorem load_store (m : Mem) (a : Nat) (v : List Byte) : load (store m a v) a v.length = v.map some := by
  unfold load store
  apply List.ext_getElem?
  intro i
  simp only [List.getElem?_map]
  by_cases hi : i < v.length
  · simp [hi]
  · simp [hi]

theorem take_inline (v : List Byte) (k : Nat) : (v.map some ++ List.replicate k none).take v.length = v.map some := by
  have : (v.map some).length = v.length := by simp
  rw [List.take_append_of_le_length (by omega), ← this, List.take_length]

/-- Value of each kind of size test in each size class. -/
theorem tests_big {n P : Nat} (h : n > P) :
    SizeTest.holds (.gt, true) n P = true ∧ SizeTest.holds (.gt, false) n P = true ∧ SizeTest.holds (.eq, false) n P = false := by
  have : n ≠ 0 := by omega
  simp [SizeTest.holds, Cmp.eval, h, this] <;> omega

theorem tests_small {n P : Nat} (h1 : ¬ n > P) (h0 : n > 0) :
    SizeTest.holds (.gt, true) n P = false ∧ SizeTest.holds (.gt, false) n P = true ∧ SizeTest.holds (.eq, false) n P = false := by
  have : n ≠ 0 := by omega
  simp [SizeTest.holds, Cmp.eval, h1, h0, this] <;> omega

theorem tests_zst (P : Nat) :
    SizeTest.holds (.gt, true) 0 P = false ∧ SizeTest.holds (.gt, false) 0 P = false ∧ SizeTest.holds (.eq, false) 0 P = true := by
  simp [SizeTest.holds, Cmp.eval]

/-- Case split on the size class, with every test evaluated. -/
macro "size_classes" v:ident P:ident : tactic =>
  `(tactic| (
    by_cases h1 : ($v).length > $P
    · obtain ⟨t1, t2, t3⟩ := tests_big h1
      simp [t1, t2, t3, load_store, take_inline]
    · by_cases h0 : ($v).length > 0
      · obtain ⟨t1, t2, t3⟩ := tests_small h1 h0
        simp [t1, t2, t3, load_store, take_inline]
        try (exact ⟨_, _, ⟨rfl, rfl⟩, by simp [take_inline]⟩)
      · have hz : ($v).length = 0 := by omega
        have hnil : $v = [] := List.length_eq_zero_iff.mp hz
        subst hnil
        obtain ⟨t1, t2, t3⟩ := tests_zst $P
        simp [t1, t2, t3]))

/-- **C04 (written directly into a blocked sync receiver's slot).** The sender's `KanalPtr::write`
    followed by the receiver's final read (`ret.assume_init()` for big types, the signal's word
    otherwise) yields exactly the value sent — for every size class. -/
theorem c04_into_sync_receiver (P : Nat) (m : Mem) (a : Nat) (v : List Byte) :
    ∃ m' w', PtrM.write SizeCfg.good m (newWriteAddr SizeCfg.good a v.length P) v P = some (m', w') ∧
      recvFinalRead SizeCfg.good SizeCfg.good.recvFinal m' w' a v.length P = some (v.map some) ∧
      recvFinalRead SizeCfg.good SizeCfg.good.recvTimeoutFinal m' w' a v.length P = some (v.map some) := by
  simp only [PtrM.write, newWriteAddr, recvFinalRead, PtrM.read, storeValue, SizeCfg.good]
  size_classes v P

/-- **C04 (read directly out of a blocked sync sender's slot).** `KanalPtr::new_from(addr)` at
    registration and the receiver's `KanalPtr::read` yield exactly the bytes of the sender's value. -/
theorem c04_from_sync_sender (P : Nat) (m : Mem) (a : Nat) (v : List Byte) (hm : load m a v.length = v.map some) :
    PtrM.read SizeCfg.good m (newFrom SizeCfg.good m a v.length P) v.length P = some (v.map some) := by
  simp only [PtrM.read, newFrom, storeAsKanalPtr, SizeCfg.good]
  by_cases h1 : v.length > P
  · obtain ⟨t1, t2, t3⟩ := tests_big h1
    simp [t1, t2, t3, hm]
  · by_cases h0 : v.length > 0
    · obtain ⟨t1, t2, t3⟩ := tests_small h1 h0
      simp [t1, t2, t3, hm, take_inline]
    · have hz : v.length = 0 := by omega
      have hnil : v = [] := List.length_eq_zero_iff.mp hz
      subst hnil
      obtain ⟨t1, t2, t3⟩ := tests_zst P
      simp [t1, t2, t3]

/-- **C04 (out of a pending send future).** Whatever the size class, the word the future offers once
    registered lets the receiver read exactly the value given to `send`, and the future's own
    `read_local_data` (used when it completes synchronously) reads the same bytes. -/
theorem c04_from_send_future (P : Nat) (m : Mem) (a : Nat) (v : List Byte) :
    ∃ w, sendFutWord SizeCfg.good v a P = some w ∧
      PtrM.read SizeCfg.good (sendFutMem SizeCfg.good m v a P) w v.length P = some (v.map some) ∧
      futRead SizeCfg.good SizeCfg.good.sendFutRead (sendFutMem SizeCfg.good m v a P) w a v.length P = some (v.map some) := by
  simp only [sendFutWord, sendFutMem, newOwned, newUnchecked, futRead, PtrM.read, storeValue, SizeCfg.good]
  size_classes v P

/-- **C04 (into a pending receive future).** -/
theorem c04_into_recv_future (P : Nat) (m : Mem) (a : Nat) (v : List Byte) :
    ∃ m' w', PtrM.write SizeCfg.good m (recvFutWord SizeCfg.good a v.length P) v P = some (m', w') ∧
      futRead SizeCfg.good SizeCfg.good.recvFutRead m' w' a v.length P = some (v.map some) := by
  simp only [PtrM.write, recvFutWord, newUnchecked, futRead, PtrM.read, storeValue, SizeCfg.good]
  size_classes v P

/-- **C04 (zero-sized types touch nothing).** For `n = 0` a write changes neither memory nor the word
    (no access through a possibly misaligned or dangling address), and a read yields the empty value. -/
theorem c04_zst (P : Nat) (m : Mem) (w : Word) :
    PtrM.write SizeCfg.good m w [] P = some (m, w) ∧ PtrM.read SizeCfg.good m w 0 P = some [] ∧
    (∀ src, PtrM.copy SizeCfg.good m w src 0 P = some (m, w)) := by
  simp [PtrM.write, PtrM.read, PtrM.copy, SizeCfg.good, SizeTest.holds, Cmp.eval]

/-- **C04 (never uninitialised).** Every byte a transfer yields is an initialised byte of the value
    (immediate from the equalities above; stated for the record). -/
theorem c04_no_uninit (v : List Byte) : ∀ b ∈ v.map some, b ≠ none := by
  intro b hb; simp at hb; obtain ⟨x, -, rfl⟩ := hb; simp

/-- The comparison matters: with `>=` instead of `>` in `KanalPtr::read`, a pointer-sized value read
    out of a blocked sender's slot is wrong (the inline bytes are dereferenced as an address). -/
theorem c04_fails_with_ge :
    PtrM.read { SizeCfg.good with readBig := (.ge, true) } (fun _ => none)
      (newFrom SizeCfg.good (store (fun _ => none) 100 [1, 2, 3, 4]) 100 4 4) 4 4 ≠ some ([1, 2, 3, 4].map some) := by
  decide

/-- **C04 for the code as it is now**: the size tests extracted from the source on this run are the
    ones these theorems are about. -/
theorem c04_this_tree : Tie.sizeCfg = SizeCfg.good := Tie.size_tests_ok.1

/-- Non-vacuity: a 3-byte value through a 2-byte pointer (indirect) and a 2-byte value (inline). -/
example : PtrM.read SizeCfg.good (store (fun _ => none) 10 [7, 8, 9]) (newFrom SizeCfg.good (store (fun _ => none) 10 [7, 8, 9]) 10 3 2) 3 2
      = some [some 7, some 8, some 9] ∧
    PtrM.read SizeCfg.good (fun _ => none) (newFrom SizeCfg.good (store (fun _ => none) 10 [7, 8]) 10 2 2) 2 2 = some [some 7, some 8] := by
  decide

end Kanal.C04

#print axioms Kanal.C04.c04_into_sync_receiver
#print axioms Kanal.C04.c04_from_sync_sender
#print axioms Kanal.C04.c04_from_send_future
#print axioms Kanal.C04.c04_into_recv_future
#print axioms Kanal.C04.c04_zst
#print axioms Kanal.C04.c04_no_uninit
#print axioms Kanal.C04.c04_fails_with_ge
#print axioms Kanal.C04.c04_this_tree
