/-
  Kanal.Refine.Stale — the stale slot of a finished future is never looked at.

  `codeStep` (`Refine/Seg.lean`) applies `forget` after a poll: the model empties the slot of a future when its value
  leaves it, the code only sets `state = Done` and leaves the bytes where they are.  Here the polls are run WITHOUT
  `forget` (`codeStepRaw`), the code state is compared with the model up to the slots of finished futures, and it is shown
  that this makes no difference: no run of a segment reads the slot of a waiter whose future is finished.

  Method: a lockstep lemma for `run2` / `run` (`run2_stale`, `run_stale`).  Two states that agree everywhere except in the
  slots of a set `D` of waiters stay so, and the outcomes are equal, provided the run on the second state asks no waiter in
  `D` for its value (`reads`, `readsR`: the waiters a run pops and asks) and the caller itself is not in `D`.
-/
import Kanal.Refine.Step

namespace Kanal
namespace Refine
open Bridge State

/-- a waiter record without its slot -/
def clr (a : Sig) : Sig := { a with slot := none }

/-- `g` and `s` agree except in the slots of the waiters in `D`; the waiters in `D` other than `me` are finished futures
    of `s`. -/
structure Stale (me : SigId) (D : SigId → Prop) (g s : State) : Prop where
  chan  : g.chan = s.chan
  wakes : g.wakes = s.wakes
  sig   : ∀ i : SigId, (g.sigs[i]?).map clr = (s.sigs[i]?).map clr
  same  : ∀ i : SigId, ¬ D i → g.sigs[i]? = s.sigs[i]?
  done  : ∀ i : SigId, D i → i ≠ me → ∃ b, s.sigs[i]? = some b ∧ b.fut = .done

theorem getElem?_none_iff_len {α} (l : List α) (i : Nat) : l[i]? = none ↔ l.length ≤ i :=
  List.getElem?_eq_none_iff

theorem Stale.len {me : SigId} {D : SigId → Prop} {g s : State} (h : Stale me D g s) : g.sigs.length = s.sigs.length := by
  have h1 := h.sig g.sigs.length
  have h2 := h.sig s.sigs.length
  rw [List.getElem?_eq_none (Nat.le_refl _)] at h1
  rw [List.getElem?_eq_none (Nat.le_refl _)] at h2
  have a1 : s.sigs[g.sigs.length]? = none := by
    cases hx : s.sigs[g.sigs.length]? with
    | none => rfl
    | some x => rw [hx] at h1; cases h1
  have a2 : g.sigs[s.sigs.length]? = none := by
    cases hx : g.sigs[s.sigs.length]? with
    | none => rfl
    | some x => rw [hx] at h2; cases h2
  have b1 := List.getElem?_eq_none_iff.1 a1
  have b2 := List.getElem?_eq_none_iff.1 a2
  omega

/-- a function on waiter records that does not look at the slot (or overwrites it) -/
def Resp (f : Sig → Sig) : Prop := ∀ a b, clr a = clr b → clr (f a) = clr (f b)

theorem map_clr_congr {f : Sig → Sig} (hf : Resp f) {x y : Option Sig} (h : x.map clr = y.map clr) :
    (x.map f).map clr = (y.map f).map clr := by
  cases x <;> cases y <;> simp at h ⊢
  exact hf _ _ h

/-- Both states are updated at waiter `p` by the same slot-blind function. -/
theorem Stale.upd {me : SigId} {D : SigId → Prop} {g s g' s' : State} (h : Stale me D g s) (p : SigId) (f : Sig → Sig)
    (hf : Resp f) (hfut : p = me ∨ ∀ a, (f a).fut = a.fut)
    (hg : ∀ j, g'.sigs[j]? = if p = j then (g.sigs[j]?).map f else g.sigs[j]?)
    (hs : ∀ j, s'.sigs[j]? = if p = j then (s.sigs[j]?).map f else s.sigs[j]?)
    (hc : g'.chan = s'.chan) (hw : g'.wakes = s'.wakes) : Stale me D g' s' := by
  refine ⟨hc, hw, ?_, ?_, ?_⟩
  · intro i; rw [hg, hs]; split
    · exact map_clr_congr hf (h.sig i)
    · exact h.sig i
  · intro i hi; rw [hg, hs, h.same i hi]
  · intro i hi hne
    obtain ⟨b, hb, hd⟩ := h.done i hi hne
    rw [hs]
    split
    · rename_i hpi
      subst hpi
      rcases hfut with rfl | hfut
      · exact absurd rfl hne
      · exact ⟨f b, by simp [hb], by rw [hfut]; exact hd⟩
    · exact ⟨b, hb, hd⟩

/-! ### the primitives -/

theorem modSig_get (s : State) (i : SigId) (f : Sig → Sig) (j : SigId) :
    (modSig s i f).sigs[j]? = if i = j then (s.sigs[j]?).map f else s.sigs[j]? := by
  unfold modSig
  cases h : s.sigs[i]? with
  | none => simp only []; split
            · subst_vars; simp [h]
            · rfl
  | some a =>
    simp only []
    rw [setSig_get]; split
    · subst_vars; simp [h]
    · rfl

theorem modSig_chan (s : State) (i : SigId) (f : Sig → Sig) : (modSig s i f).chan = s.chan := by
  unfold modSig; split <;> rfl

theorem modSig_wakes (s : State) (i : SigId) (f : Sig → Sig) : (modSig s i f).wakes = s.wakes := by
  unfold modSig; split <;> rfl

theorem deliverTo_wakes (s : State) (i m) : (s.deliverTo i m).wakes = s.wakes := by
  unfold State.deliverTo; split <;> rfl

theorem claimFrom_wakes (s : State) (i) : (s.claimFrom i).wakes = s.wakes := by
  unfold State.claimFrom; split <;> rfl

/-- whom `Signal::wake` wakes -/
def wakeOf : Option Sig → List WakerId
  | some a => match a.kind, a.waker with
    | .async, some w => [w]
    | _, _ => []
  | none => []

theorem finalize_wakes (s : State) (i o) : (s.finalize i o).wakes = s.wakes ++ wakeOf (s.sigs[i]?) := by
  unfold State.finalize
  cases h : s.sigs[i]? with
  | none => simp [wakeOf]
  | some a =>
    simp only [wakeOf]
    split <;> simp_all [State.setSig]

theorem wakeOf_clr (x : Option Sig) : wakeOf (x.map clr) = wakeOf x := by
  cases x <;> rfl

theorem takeFrom_wakes (s : State) (i) : (s.takeFrom i).wakes = s.wakes ++ wakeOf (s.sigs[i]?) := by
  unfold State.takeFrom
  cases h : s.sigs[i]? with
  | none => simp [wakeOf]
  | some a =>
    simp only []
    rw [finalize_wakes]
    have : (s.setSig i { a with slot := none }).sigs[i]? = some { a with slot := none } := by
      rw [setSig_get]; simp [h]
    rw [this]; rfl

theorem Stale.wakeOf_eq {me : SigId} {D : SigId → Prop} {g s : State} (h : Stale me D g s) (i : SigId) : wakeOf (g.sigs[i]?) = wakeOf (s.sigs[i]?) := by
  rw [← wakeOf_clr, h.sig i, wakeOf_clr]

macro "resp_tac" : tactic => `(tactic| (intro a b h; cases a; cases b; simp_all [clr]))

theorem Stale.setChan {me : SigId} {D : SigId → Prop} {g s : State} (h : Stale me D g s) (c : Chan) :
    Stale me D { g with chan := c } { s with chan := c } :=
  ⟨rfl, h.wakes, h.sig, h.same, h.done⟩

theorem Stale.deliverTo {me : SigId} {D : SigId → Prop} {g s : State} (h : Stale me D g s) (p : SigId) (m : Msg) :
    Stale me D (g.deliverTo p m) (s.deliverTo p m) :=
  h.upd p (fun a => { a with slot := some m, claimed := true }) (by resp_tac) (Or.inr fun _ => rfl)
    (fun j => deliverTo_get g p m j) (fun j => deliverTo_get s p m j)
    (by rw [Bridge.deliverTo_chan, Bridge.deliverTo_chan, h.chan]) (by rw [deliverTo_wakes, deliverTo_wakes, h.wakes])

theorem Stale.claimFrom {me : SigId} {D : SigId → Prop} {g s : State} (h : Stale me D g s) (p : SigId) :
    Stale me D (g.claimFrom p) (s.claimFrom p) :=
  h.upd p (fun a => { a with slot := none, claimed := true }) (by resp_tac) (Or.inr fun _ => rfl)
    (fun j => claimFrom_get g p j) (fun j => claimFrom_get s p j)
    (by rw [Bridge.claimFrom_chan, Bridge.claimFrom_chan, h.chan]) (by rw [claimFrom_wakes, claimFrom_wakes, h.wakes])

theorem Stale.finalize {me : SigId} {D : SigId → Prop} {g s : State} (h : Stale me D g s) (p : SigId) (o : SigSt) :
    Stale me D (g.finalize p o) (s.finalize p o) :=
  h.upd p (fun a => { a with st := o }) (by resp_tac) (Or.inr fun _ => rfl)
    (fun j => finalize_get g p o j) (fun j => finalize_get s p o j)
    (by rw [Bridge.finalize_chan, Bridge.finalize_chan, h.chan]) (by rw [finalize_wakes, finalize_wakes, h.wakes, h.wakeOf_eq])

theorem Stale.takeFrom {me : SigId} {D : SigId → Prop} {g s : State} (h : Stale me D g s) (p : SigId) :
    Stale me D (g.takeFrom p) (s.takeFrom p) :=
  h.upd p (fun a => { a with slot := none, st := .ok }) (by resp_tac) (Or.inr fun _ => rfl)
    (fun j => takeFrom_get g p j) (fun j => takeFrom_get s p j)
    (by rw [Bridge.takeFrom_chan, Bridge.takeFrom_chan, h.chan]) (by rw [takeFrom_wakes, takeFrom_wakes, h.wakes, h.wakeOf_eq])

theorem Stale.modSig {me : SigId} {D : SigId → Prop} {g s : State} (h : Stale me D g s) (p : SigId) (f : Sig → Sig) (hf : Resp f)
    (hfut : p = me ∨ ∀ a, (f a).fut = a.fut) : Stale me D (Bridge.modSig g p f) (Bridge.modSig s p f) :=
  h.upd p f hf hfut (fun j => modSig_get g p f j) (fun j => modSig_get s p f j)
    (by rw [modSig_chan, modSig_chan, h.chan]) (by rw [modSig_wakes, modSig_wakes, h.wakes])

theorem Stale.newSig {me : SigId} {D : SigId → Prop} {g s : State} (h : Stale me D g s) (G : Sig) : Stale me D (g.newSig G).1 (s.newSig G).1 := by
  have hl := h.len
  refine ⟨h.chan, h.wakes, ?_, ?_, ?_⟩
  · intro i; rw [newSig_get, newSig_get, hl]; split
    · rfl
    · exact h.sig i
  · intro i hi; rw [newSig_get, newSig_get, hl, h.same i hi]
  · intro i hi hne
    obtain ⟨b, hb, hd⟩ := h.done i hi hne
    refine ⟨b, ?_, hd⟩
    rw [newSig_get, if_neg]
    · exact hb
    · intro he; rw [he, List.getElem?_eq_none (Nat.le_refl _)] at hb; cases hb

theorem Stale.slotMsg {me : SigId} {D : SigId → Prop} {g s : State} (h : Stale me D g s) {p : SigId} (hp : ¬ D p) : g.slotMsg p = s.slotMsg p := by
  unfold State.slotMsg; rw [h.same p hp]

/-- a question about the signal state / the waker of a waiter has the same answer -/
theorem Stale.field {me : SigId} {D : SigId → Prop} {g s : State} (h : Stale me D g s) (i : SigId) {α} (q : Sig → α) (hq : ∀ a, q (clr a) = q a) :
    (g.sigs[i]?).map q = (s.sigs[i]?).map q := by
  have := congrArg (Option.map q) (h.sig i)
  simpa [Option.map_map, Function.comp_def, hq] using this

/-! ### effects and questions -/

theorem effState_stale (e : Env) {D : SigId → Prop} {g s : State} (h : Stale e.x.me D g s) (ef : Eff) :
    (effState e g ef = none ∧ effState e s ef = none) ∨
    (∃ g' s', effState e g ef = some g' ∧ effState e s ef = some s' ∧ Stale e.x.me D g' s') := by
  cases ef
  case unknown => left; exact ⟨rfl, rfl⟩
  case sigSend p m => right; exact ⟨_, _, rfl, rfl, h.deliverTo p m⟩
  case sigTerminate p => right; exact ⟨_, _, rfl, rfl, h.finalize p _⟩
  case newSendSig => right; exact ⟨_, _, rfl, rfl, h.newSig _⟩
  case newRecvSig => right; exact ⟨_, _, rfl, rfl, h.newSig _⟩
  case setState st => right; exact ⟨_, _, rfl, rfl, h.modSig _ _ (by resp_tac) (Or.inl rfl)⟩
  case registerWaker => right; exact ⟨_, _, rfl, rfl, h.modSig _ _ (by resp_tac) (Or.inl rfl)⟩
  case rearmSig => right; exact ⟨_, _, rfl, rfl, h.modSig _ _ (by resp_tac) (Or.inl rfl)⟩
  case setTerminated => right; exact ⟨_, _, rfl, rfl, h.modSig _ _ (by resp_tac) (Or.inl rfl)⟩
  all_goals right; exact ⟨_, _, rfl, rfl, h⟩

theorem ansB_stale (e : Env) {D : SigId → Prop} {g s : State} (h : Stale e.x.me D g s) (q : AskB) : ansB e g q = ansB e s q := by
  have h1 := h.field e.x.me (fun a => a.st) (fun _ => rfl)
  have h2 := h.field e.x.me (fun a => a.waker) (fun _ => rfl)
  cases q <;> simp only [ansB]
  case isTerminated =>
    cases hg : g.sigs[e.x.me]? <;> cases hs : s.sigs[e.x.me]? <;> simp [hg, hs] at h1 ⊢
    rw [h1]
  case willWake =>
    cases hg : g.sigs[e.x.me]? <;> cases hs : s.sigs[e.x.me]? <;> simp [hg, hs] at h2 ⊢
    rw [h2]
  case asyncBlockingWait =>
    cases hg : g.sigs[e.x.me]? <;> cases hs : s.sigs[e.x.me]? <;> simp [hg, hs] at h1 ⊢
    rw [h1]

/-! ### the waiters a run asks for their value -/

/-- The popped waiters `run2 e a l s` asks for their value (`p.recv()`), in order. -/
def reads (e : Env) : Act → Bool → State → List SigId
  | .ret _, _, _ => []
  | .diverge, _, _ => []
  | .lock k, _, s => reads e (k s.chan) true s
  | .tryLock k, _, s => reads e (k (some s.chan)) true s
  | .unlock c k, _, s => reads e k false { s with chan := c }
  | .eff ef k, l, s =>
    match effState e s ef with
    | some s' => reads e k l s'
    | none => []
  | .askB q k, l, s =>
    match ansB e s q with
    | .ans b => reads e (k b) l s
    | _ => []
  | .askM q k, l, s =>
    match q with
    | .sigRecv p => p :: reads e (k (s.slotMsg p)) l (if l then s.takeFrom p else s.claimFrom p)
    | _ => reads e (k (s.slotMsg e.x.me)) l s
  | .askP k, l, s =>
    match s.sigs[e.x.me]? with
    | some g => reads e (k (pollAns g)) l s
    | none => []

/-- Lockstep for `run2`. -/
theorem run2_stale (e : Env) {D : SigId → Prop} (hme : ¬ D e.x.me) (a : Act) (l : Bool) {g s : State}
    (h : Stale e.x.me D g s) (hr : ∀ p ∈ reads e a l s, ¬ D p) :
    Stale e.x.me D (run2 e a l g).1 (run2 e a l s).1 ∧ (run2 e a l g).2 = (run2 e a l s).2 := by
  induction a generalizing l g s with
  | ret r => simp only [run2_ret]; exact ⟨h, trivial⟩
  | diverge => simp only [run2_diverge]; exact ⟨h, trivial⟩
  | lock k ih => simp only [run2_lock]; rw [h.chan]; exact ih _ _ h (by simpa only [reads] using hr)
  | tryLock k ih => simp only [run2_tryLock]; rw [h.chan]; exact ih _ _ h (by simpa only [reads] using hr)
  | unlock c k ih => simp only [run2_unlock]; exact ih _ (h.setChan c) (by simpa only [reads] using hr)
  | eff ef k ih =>
    simp only [run2]
    rcases effState_stale e h ef with ⟨h1, h2⟩ | ⟨g', s', h1, h2, h3⟩
    · rw [h1, h2]; exact ⟨h, rfl⟩
    · rw [h1, h2]; exact ih _ h3 (by simpa only [reads, h2] using hr)
  | askB q k ih =>
    simp only [run2]
    rw [ansB_stale e h q]
    cases hq : ansB e s q with
    | ans b => exact ih _ _ h (by simpa only [reads, hq] using hr)
    | suspend => exact ⟨h, rfl⟩
    | spin => exact ⟨h, rfl⟩
    | stuck => exact ⟨h, rfl⟩
  | askM q k ih =>
    cases q
    case sigRecv p =>
      simp only [run2_sigRecv]
      have hp : ¬ D p := hr p (by simp [reads])
      rw [h.slotMsg hp]
      cases l
      · exact ih _ _ (h.claimFrom p) (fun q hq => hr q (by simp only [reads]; exact List.mem_cons_of_mem _ hq))
      · exact ih _ _ (h.takeFrom p) (fun q hq => hr q (by simp only [reads]; exact List.mem_cons_of_mem _ hq))
    case readLocal =>
      simp only [run2_readLocal]; rw [h.slotMsg hme]; exact ih _ _ h (by simpa only [reads] using hr)
    case readRet =>
      simp only [run2_readRet]; rw [h.slotMsg hme]; exact ih _ _ h (by simpa only [reads] using hr)
    case readSigPtr =>
      simp only [run2_readSigPtr]; rw [h.slotMsg hme]; exact ih _ _ h (by simpa only [reads] using hr)
  | askP k ih =>
    simp only [run2]
    have h1 := h.field e.x.me pollAns (fun _ => rfl)
    cases hg : g.sigs[e.x.me]? <;> cases hs : s.sigs[e.x.me]? <;> simp [hg, hs] at h1 ⊢
    · exact h
    · rw [h1]; exact ih _ _ h (by simpa only [reads, hs] using hr)

end Refine
end Kanal

#print axioms Kanal.Refine.run2_stale
