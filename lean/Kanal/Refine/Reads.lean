/-
  Kanal.Refine.Reads — which waiters the trees of `Kanal.Fine` ask for their value: only waiters they have just popped
  from the wait list.  (Input to the lockstep lemmas of `Refine/Stale.lean`.)
-/
import Kanal.Refine.Stale

namespace Kanal
namespace Refine
open Bridge State

/-! ### `Bridge.run` -/

/-- The popped waiters `Bridge.run a l s vec` asks for their value. -/
def readsR : Act → Bool → State → List SigId
  | .ret _, _, _ => []
  | .diverge, _, _ => []
  | .lock k, _, s => readsR (k s.chan) true s
  | .tryLock k, _, s => readsR (k (some s.chan)) true s
  | .unlock c k, _, s => readsR k false { s with chan := c }
  | .eff (.sigSend p m) k, l, s => readsR k l (s.deliverTo p m)
  | .eff (.sigTerminate p) k, l, s => readsR k l (s.finalize p .term)
  | .eff .takeData k, l, s => readsR k l s
  | .eff (.vecReserve _) k, l, s => readsR k l s
  | .eff (.vecPush _) k, l, s => readsR k l s
  | .eff _ _, _, _ => []
  | .askM (.sigRecv p) k, l, s => p :: readsR (k (s.slotMsg p)) l (if l then s.takeFrom p else s.claimFrom p)
  | .askM _ _, _, _ => []
  | .askB .dataIsNone k, l, s => readsR (k false) l s
  | .askB _ _, _, _ => []
  | .askP _, _, _ => []

/-- Lockstep for `Bridge.run`. -/
theorem run_stale {me : SigId} {D : SigId → Prop} (a : Act) (l : Bool) {g s : State}
    (h : Stale me D g s) (hr : ∀ p ∈ readsR a l s, ¬ D p) (vec : List Msg) :
    Stale me D (Bridge.run a l g vec).1 (Bridge.run a l s vec).1 ∧
      (Bridge.run a l g vec).2 = (Bridge.run a l s vec).2 := by
  induction a generalizing l g s vec with
  | ret r => simp only [run_ret]; exact ⟨h, trivial⟩
  | diverge => simp only [Bridge.run]; exact ⟨h, trivial⟩
  | lock k ih => simp only [run_lock]; rw [h.chan]; exact ih _ _ h (by simpa only [readsR] using hr) _
  | tryLock k ih => simp only [run_tryLock]; rw [h.chan]; exact ih _ _ h (by simpa only [readsR] using hr) _
  | unlock c k ih => simp only [run_unlock]; exact ih _ (h.setChan c) (by simpa only [readsR] using hr) _
  | eff ef k ih =>
    cases ef
    case sigSend p m => simp only [run_sigSend]; exact ih _ (h.deliverTo p m) (by simpa only [readsR] using hr) _
    case sigTerminate p => simp only [run_sigTerminate]; exact ih _ (h.finalize p _) (by simpa only [readsR] using hr) _
    case takeData => simp only [run_takeData]; exact ih _ h (by simpa only [readsR] using hr) _
    case vecReserve n => simp only [run_vecReserve]; exact ih _ h (by simpa only [readsR] using hr) _
    case vecPush m => simp only [run_vecPush]; exact ih _ h (by simpa only [readsR] using hr) _
    all_goals simp only [Bridge.run]; exact ⟨h, trivial⟩
  | askB q k ih =>
    cases q
    case dataIsNone => simp only [run_dataIsNone]; exact ih _ _ h (by simpa only [readsR] using hr) _
    all_goals simp only [Bridge.run]; exact ⟨h, trivial⟩
  | askM q k ih =>
    cases q
    case sigRecv p =>
      simp only [run_sigRecv]
      have hp : ¬ D p := hr p (by simp [readsR])
      rw [h.slotMsg hp]
      cases l
      · exact ih _ _ (h.claimFrom p) (fun q hq => hr q (by simp only [readsR]; exact List.mem_cons_of_mem _ hq)) _
      · exact ih _ _ (h.takeFrom p) (fun q hq => hr q (by simp only [readsR]; exact List.mem_cons_of_mem _ hq)) _
    all_goals simp only [Bridge.run]; exact ⟨h, trivial⟩
  | askP k ih => simp only [Bridge.run]; exact ⟨h, trivial⟩

/-! ### trees that ask no popped waiter -/

/-- no `p.recv()` anywhere in the tree -/
def NoRead : Act → Prop
  | .ret _ => True
  | .diverge => True
  | .lock k => ∀ c, NoRead (k c)
  | .tryLock k => ∀ c, NoRead (k c)
  | .unlock _ k => NoRead k
  | .eff _ k => NoRead k
  | .askB _ k => ∀ b, NoRead (k b)
  | .askM q k => (match q with | .sigRecv _ => False | _ => True) ∧ ∀ m, NoRead (k m)
  | .askP k => ∀ r, NoRead (k r)

theorem reads_noRead (e : Env) {a : Act} (h : NoRead a) (l : Bool) (s : State) : reads e a l s = [] := by
  induction a generalizing l s with
  | ret r => rfl
  | diverge => rfl
  | lock k ih => simp only [reads]; exact ih _ (h _) _ _
  | tryLock k ih => simp only [reads]; exact ih _ (h _) _ _
  | unlock c k ih => simp only [reads]; exact ih h _ _
  | eff ef k ih => simp only [reads]; split
                   · exact ih h _ _
                   · rfl
  | askB q k ih => simp only [reads]; split
                   · exact ih _ (h _) _ _
                   · rfl
  | askM q k ih =>
    cases q
    case sigRecv p => exact absurd h.1 (by simp)
    all_goals simp only [reads]; exact ih _ (h.2 _) _ _
  | askP k ih => simp only [reads]; split
                 · exact ih _ (h _) _ _
                 · rfl

theorem readsR_noRead {a : Act} (h : NoRead a) (l : Bool) (s : State) : readsR a l s = [] := by
  induction a generalizing l s with
  | ret r => rfl
  | diverge => rfl
  | lock k ih => simp only [readsR]; exact ih _ (h _) _ _
  | tryLock k ih => simp only [readsR]; exact ih _ (h _) _ _
  | unlock c k ih => simp only [readsR]; exact ih h _ _
  | eff ef k ih => cases ef <;> simp only [readsR] <;> first | exact ih h _ _ | rfl
  | askB q k ih => cases q <;> simp only [readsR] <;> first | exact ih _ (h _) _ _ | rfl
  | askM q k ih =>
    cases q
    case sigRecv p => exact absurd h.1 (by simp)
    all_goals simp only [readsR]
  | askP k ih => rfl


/-! ### `NoRead` for the trees of `Kanal.Fine` -/

section noRead
variable {k : Act}

@[simp] theorem noRead_ret (r : Res) : NoRead (.ret r) := trivial
@[simp] theorem noRead_unlock (c : Chan) : NoRead (.unlock c k) ↔ NoRead k := Iff.rfl
@[simp] theorem noRead_eff (ef : Eff) : NoRead (.eff ef k) ↔ NoRead k := Iff.rfl
theorem noRead_askB (q : AskB) (f : Bool → Act) : NoRead (.askB q f) ↔ ∀ b, NoRead (f b) := Iff.rfl
theorem noRead_lock (f : Chan → Act) : NoRead (.lock f) ↔ ∀ c, NoRead (f c) := Iff.rfl

theorem noRead_terminate (l : List SigId) (h : NoRead k) : NoRead (Fine.terminate l k) := by
  unfold Fine.terminate
  induction l with
  | nil => exact h
  | cons i l ih => simp only [Act.forEach_cons, noRead_eff]; exact ih

theorem noRead_dropData (h : NoRead k) : NoRead (Fine.dropData k) := by
  unfold Fine.dropData; intro b; cases b <;> simp [h]

theorem noRead_dropLocal (h : NoRead k) : NoRead (Fine.dropLocal k) := by
  unfold Fine.dropLocal; intro b; cases b <;> simp [h]

theorem noRead_failBack (opt : Bool) (h : NoRead k) : NoRead (Fine.failBack opt k) := by
  unfold Fine.failBack; cases opt <;> simp [h, noRead_dropData]

theorem noRead_guardNone (opt : Bool) (h : NoRead k) : NoRead (Fine.guardNone opt k) := by
  unfold Fine.guardNone; cases opt
  · simpa using h
  · simp only [if_true]; intro b; cases b <;> simp [h]

theorem noRead_take (opt : Bool) (h : NoRead k) : NoRead (Fine.take opt k) := by
  unfold Fine.take; cases opt <;> simp [h]

theorem noRead_acquire (rt : Bool) {busy : Act} {f : Chan → Act} (hb : NoRead busy) (hf : ∀ c, NoRead (f c)) :
    NoRead (Fine.acquire rt busy f) := by
  unfold Fine.acquire; cases rt
  · simp only [Bool.false_eq_true, if_false]; exact hf
  · simp only [if_true]; intro oc; cases oc
    · exact hb
    · exact hf _

theorem noRead_sendErr (c : Chan) : NoRead (Fine.sendErr c) := by
  unfold Fine.sendErr; simp only [noRead_unlock]; split <;> simp

theorem noRead_register (h : NoRead k) : NoRead (Fine.register k) := by
  unfold Fine.register; simp only [noRead_eff]; intro b; cases b <;> simp [h]

theorem noRead_readOwn : NoRead Fine.readOwn := by
  unfold Fine.readOwn; intro b; cases b <;> simp [NoRead]

end noRead

theorem noRead_trySend (opt rt : Bool) (x : Ctx) : NoRead (Fine.trySend opt rt x) := by
  unfold Fine.trySend
  refine noRead_guardNone _ (noRead_acquire _ (by simp) fun c => ?_)
  split <;> simp [noRead_sendErr, noRead_take]

theorem noRead_close : NoRead Fine.close := by
  unfold Fine.close; intro c; simp only
  split
  · simp
  · exact noRead_terminate _ (by simp)

theorem noRead_dropHandle (side : Side) : NoRead (Fine.dropHandle side) := by
  unfold Fine.dropHandle; intro c; exact noRead_terminate _ (by simp)

theorem noRead_cloneHandle (side : Side) : NoRead (Fine.cloneHandle side) := by
  unfold Fine.cloneHandle; intro c; simp

theorem noRead_observe (f : Chan → Res) : NoRead (Fine.observe f) := by
  unfold Fine.observe; intro c; simp

theorem noRead_sendK (b : Bool) : NoRead (sendK b) := by
  unfold sendK; cases b <;> simp [noRead_dropData]

theorem noRead_timedSendK2 (opt b : Bool) : NoRead (timedSendK2 opt b) := by
  unfold timedSendK2; cases b <;> simp [noRead_failBack]

theorem noRead_timedSendK (opt : Bool) (x : Ctx) (b : Bool) : NoRead (timedSendK opt x b) := by
  unfold timedSendK; cases b
  · simp only [Bool.false_eq_true, if_false]
    intro t; cases t
    · simp only [Bool.false_eq_true, if_false]
      intro c; dsimp only; split
      · simp [noRead_failBack]
      · simp only [noRead_unlock]; intro ok; cases ok <;> simp [noRead_failBack]
    · simp [noRead_failBack]
  · simp

theorem noRead_send (timed opt : Bool) (x : Ctx) : NoRead (Fine.send timed opt x) := by
  unfold Fine.send
  refine noRead_guardNone _ ?_
  have key : ∀ c : Chan, NoRead (match c.sendCS x.m x.me with
      | (_, .errClosed) | (_, .errRecvClosed) => Fine.sendErr c
      | (c1, .handoff r) => .unlock c1 (Fine.take opt (.eff (.sigSend r x.m) (.ret .unit)))
      | (c1, .buffered) => Fine.take opt (.unlock c1 (.ret .unit))
      | (c1, .full) =>
        .eff (if opt then .wrapTaken else .wrapData) <| .eff .newSendSig <| .unlock c1 <|
          if timed then Fine.timedSendTail opt x
          else .askB .wait fun ok => if ok then .ret .unit else Fine.dropData (.ret (.err .closed))) := by
    intro c
    split
    · exact noRead_sendErr c
    · exact noRead_sendErr c
    · simp [noRead_take]
    · simp [noRead_take]
    · simp only [noRead_eff, noRead_unlock]
      cases timed
      · simp only [Bool.false_eq_true, if_false]; exact fun b => noRead_sendK b
      · simp only [if_true, timedSendTail_eq]; exact fun b => noRead_timedSendK opt x b
  cases timed
  · exact key
  · exact key

theorem noRead_recvK (b : Bool) : NoRead (recvK b) := by
  unfold recvK; cases b <;> simp [noRead_readOwn]

theorem noRead_timedRecvK2 (b : Bool) : NoRead (timedRecvK2 b) := by
  unfold timedRecvK2; cases b <;> simp [noRead_readOwn]

theorem noRead_timedRecvK (x : Ctx) (b : Bool) : NoRead (timedRecvK x b) := by
  unfold timedRecvK; cases b
  · simp only [Bool.false_eq_true, if_false]
    intro t; cases t
    · simp only [Bool.false_eq_true, if_false]
      intro c; dsimp only; split
      · simp
      · simp only [noRead_unlock]; intro ok; cases ok <;> simp [noRead_readOwn]
    · simp
  · simp [noRead_readOwn]

theorem noRead_contOf (a : Sig) (late : Bool) (x : Ctx) (b : Bool) : NoRead (contOf a late x b) := by
  unfold contOf
  cases a.role <;> cases late <;> simp only [Bool.false_eq_true, if_false, if_true]
  · unfold sendCont; split
    · exact noRead_timedSendK _ _ _
    · exact noRead_sendK _
  · exact noRead_timedSendK2 _ _
  · unfold recvCont; split
    · exact noRead_timedRecvK _ _
    · exact noRead_recvK _
  · exact noRead_timedRecvK2 _

theorem noRead_timedContOf (a : Sig) (x : Ctx) (b : Bool) : NoRead (timedContOf a x b) := by
  unfold timedContOf
  cases a.role
  · exact noRead_timedSendK _ _ _
  · exact noRead_timedRecvK _ _

theorem noRead_pollSend (x : Ctx) : NoRead (Fine.pollSend x) := by
  unfold Fine.pollSend
  split
  · intro c; simp only
    split <;> simp [noRead_dropLocal, noRead_register]
  · intro r
    cases r with
    | none =>
      simp only
      intro same; cases same
      · simp only [Bool.false_eq_true, if_false]
        intro c; dsimp only; split
        · simp
        · simp only [noRead_unlock, noRead_eff]; intro ok; cases ok <;> simp [noRead_dropLocal]
      · simp
    | some ok => cases ok <;> simp [noRead_dropLocal]
  · simp

theorem noRead_dropSendFut (x : Ctx) : NoRead (Fine.dropSendFut x) := by
  unfold Fine.dropSendFut
  split
  · simp
  · split
    · intro c; dsimp only; simp only [noRead_unlock]
      split
      · exact noRead_dropLocal (by simp)
      · intro ok; cases ok <;> simp [noRead_dropLocal]
    · exact noRead_dropLocal (by simp)

theorem noRead_dropRecvFut (x : Ctx) : NoRead (Fine.dropRecvFut x) := by
  unfold Fine.dropRecvFut
  split
  · intro c; dsimp only; simp only [noRead_unlock]
    split
    · simp
    · intro ok; cases ok <;> simp [noRead_dropLocal]
  · simp


/-! ### the trees that do ask popped waiters: the receive family and `drain_into` -/

/-- The common head of every receive asks at most the sender it has just popped from the wait list.
    `wrap`, `cf` only act on the caller's own signal; `onNone` asks nobody. -/
theorem reads_recvHead (e : Env) (s : State) (wrap cf : Act → Act) (onNone : Chan → Act)
    (hw : ∀ k l s', ∃ s'', reads e (wrap k) l s' = reads e k l s'')
    (hcf : ∀ k l s', ∃ s'', reads e (cf k) l s' = reads e k l s'')
    (hn : ∀ c1, NoRead (onNone c1)) :
    ∀ p ∈ reads e (Fine.recvHead s.chan wrap cf onNone) true s, p ∈ s.chan.waitList := by
  intro p hp
  unfold Fine.recvHead at hp
  split at hp
  · obtain ⟨s'', h⟩ := hcf (.unlock s.chan (.ret (.err .closed))) true s
    rw [h] at hp; simp [reads] at hp
  · split at hp
    · rename_i v q hq
      split at hp
      · rename_i c1 p' hn'
        simp only [reads, if_true] at hp
        obtain ⟨s'', h⟩ := hw (.ret (.val v)) false
          { s.takeFrom p' with chan := { c1 with queue := c1.queue ++ [s.slotMsg p'] } }
        rw [h] at hp
        simp only [reads, List.mem_cons, List.not_mem_nil, or_false] at hp
        subst hp
        exact nextSend_some_mem (c := { s.chan with queue := q }) hn'
      · rename_i c1 hn'
        simp only [reads] at hp
        obtain ⟨s'', h⟩ := hw (.ret (.val v)) false { s with chan := c1 }
        rw [h] at hp; simp [reads] at hp
    · split at hp
      · rename_i c1 p' hn'
        simp only [reads] at hp
        obtain ⟨s'', h⟩ := hw (.askM (.sigRecv p') fun m => .ret (.val m)) false { s with chan := c1 }
        rw [h] at hp
        simp only [reads, List.mem_cons, List.not_mem_nil, or_false] at hp
        subst hp
        exact nextSend_some_mem hn'
      · rw [reads_noRead e (hn _)] at hp; cases hp

theorem reads_id_transparent (e : Env) : ∀ (k : Act) (l : Bool) (s' : State), ∃ s'', reads e (id k) l s' = reads e k l s'' :=
  fun _ _ s' => ⟨s', rfl⟩

theorem reads_setState_transparent (e : Env) (st : FutSt) :
    ∀ (k : Act) (l : Bool) (s' : State), ∃ s'', reads e ((fun k => Act.eff (.setState st) k) k) l s' = reads e k l s'' :=
  fun _ _ s' => ⟨modSig s' e.x.me fun g => { g with fut := st }, by simp [reads, effState]⟩

theorem noRead_recvOnNone (timed : Bool) (x : Ctx) (c1 : Chan) :
    NoRead ((fun k => if timed then Act.askB .expired fun ex => if ex then .unlock c1 (.ret (.err .timeout)) else k else k) <|
      if c1.sendCount == 0 then .unlock c1 (.ret (.err .sendClosed))
      else .eff .newRetSlot <| .eff .newRecvSig <| .unlock (c1.pushWaiter x.me) <|
        if timed then Fine.timedRecvTail x
        else .askB .wait fun ok => if ok then Fine.readOwn else .ret (.err .closed)) := by
  have key : NoRead (if c1.sendCount == 0 then Act.unlock c1 (.ret (.err .sendClosed))
      else .eff .newRetSlot <| .eff .newRecvSig <| .unlock (c1.pushWaiter x.me) <|
        if timed then Fine.timedRecvTail x
        else .askB .wait fun ok => if ok then Fine.readOwn else .ret (.err .closed)) := by
    split
    · simp
    · simp only [noRead_eff, noRead_unlock]
      cases timed
      · simp only [Bool.false_eq_true, if_false]; exact fun b => noRead_recvK b
      · simp only [if_true, timedRecvTail_eq]; exact fun b => noRead_timedRecvK x b
  cases timed
  · exact key
  · simp only [if_true]
    intro ex; cases ex
    · exact key
    · simp

/-- `recv` / `recv_timeout` up to return or first wait -/
theorem reads_recv (e : Env) (timed : Bool) (x : Ctx) (s : State) :
    ∀ p ∈ reads e (Fine.recv timed x) false s, p ∈ s.chan.waitList := by
  unfold Fine.recv
  cases timed
  · simp only [Bool.false_eq_true, if_false, reads]
    exact reads_recvHead e s id id _ (reads_id_transparent e) (reads_id_transparent e)
      (fun c1 => by have := noRead_recvOnNone false x c1; simp only [Bool.false_eq_true, if_false] at this; exact this)
  · simp only [if_true, reads, effState]
    exact reads_recvHead e s id id _ (reads_id_transparent e) (reads_id_transparent e)
      (fun c1 => by have := noRead_recvOnNone true x c1; simp only [if_true] at this; exact this)

theorem noRead_pollOnNone (x : Ctx) (c1 : Chan) :
    NoRead (if c1.sendCount == 0 then Act.eff (.setState .done) (.unlock c1 (.ret (.err .sendClosed)))
      else Fine.register (.unlock (c1.pushWaiter x.me) (.ret .pending))) := by
  split
  · simp
  · exact noRead_register (by simp)

/-- one round of `ReceiveFuture::poll` from `Zero` -/
theorem reads_pollZero (e : Env) (x : Ctx) (again : Act) (s : State) :
    ∀ p ∈ reads e (Fine.pollRecvRound x .zero again) false s, p ∈ s.chan.waitList := by
  have key := reads_recvHead e s _ _ _ (reads_setState_transparent e .done) (reads_setState_transparent e .done)
    (noRead_pollOnNone x)
  simpa only [Fine.pollRecvRound, reads] using key

theorem noRead_pollWaiting (x : Ctx) (again : Act) : NoRead (Fine.pollRecvRound x .waiting again) := by
  simp only [Fine.pollRecvRound]
  intro r
  cases r with
  | none =>
    dsimp only
    intro same; cases same
    · simp only [Bool.false_eq_true, if_false]
      intro c; dsimp only; split
      · simp
      · simp only [noRead_unlock, noRead_eff]; intro ok; cases ok <;> simp [NoRead]
    · simp
  | some ok => cases ok <;> simp [NoRead]

/-- `ReceiveFuture::poll` -/
theorem reads_pollRecv (e : Env) (x : Ctx) (s : State) :
    ∀ p ∈ reads e (Fine.pollRecv x) false s, p ∈ s.chan.waitList := by
  unfold Fine.pollRecv
  cases hst : x.st
  · exact reads_pollZero e x _ s
  · rw [reads_noRead e (noRead_pollWaiting x _)]; intro p hp; cases hp
  · simp only [Fine.pollRecvRound]
    split
    · intro p hp
      simp only [reads, effState] at hp
      have := reads_pollZero e x .diverge _ p (by simpa only [Fine.pollRecvRound, reads] using hp)
      simpa only [modSig_chan] using this
    · intro p hp; cases hp

theorem noRead_nextK (r : Res) : NoRead (nextK r) := by
  cases r <;> simp [nextK]

theorem reads_bind (e : Env) (f : Res → Act) (hf : ∀ r, NoRead (f r)) (a : Act) (l : Bool) (s : State) :
    reads e (a.bind f) l s = reads e a l s := by
  induction a generalizing l s with
  | ret r => simp only [Act.bind, reads]; exact reads_noRead e (hf r) _ _
  | diverge => rfl
  | lock k ih => simp only [Act.bind, reads]; exact ih _ _ _
  | tryLock k ih => simp only [Act.bind, reads]; exact ih _ _ _
  | unlock c k ih => simp only [Act.bind, reads]; exact ih _ _
  | eff ef k ih => simp only [Act.bind, reads]; split
                   · exact ih _ _
                   · rfl
  | askB q k ih => simp only [Act.bind, reads]; split
                   · exact ih _ _ _
                   · rfl
  | askM q k ih => cases q <;> simp only [Act.bind, reads] <;> rw [ih]
  | askP k ih => simp only [Act.bind, reads]; split
                 · exact ih _ _ _
                 · rfl

/-- `ReceiveStream::poll_next` -/
theorem reads_pollNext (e : Env) (x : Ctx) (s : State) :
    ∀ p ∈ reads e (Fine.pollNext x) false s, p ∈ s.chan.waitList := by
  rw [pollNext_tree]
  split
  · intro p hp; cases hp
  · rw [reads_bind e nextK noRead_nextK]; exact reads_pollRecv e x s

/-- `try_recv`, `try_recv_realtime` -/
theorem readsR_tryRecv (rt : Bool) (s : State) : ∀ p ∈ readsR (Fine.tryRecv rt) false s, p ∈ s.chan.waitList := by
  have key : ∀ p ∈ readsR (Fine.recvHead s.chan id id fun c1 =>
      if c1.sendCount == 0 then .unlock c1 (.ret (.err .sendClosed)) else .unlock c1 (.ret .none)) true s,
      p ∈ s.chan.waitList := by
    intro p hp
    unfold Fine.recvHead at hp
    split at hp
    · simp [readsR] at hp
    · split at hp
      · rename_i v q hq
        split at hp
        · rename_i c1 p' hn'
          simp only [readsR, id, List.mem_cons, List.not_mem_nil, or_false] at hp
          subst hp
          exact nextSend_some_mem (c := { s.chan with queue := q }) hn'
        · simp [readsR] at hp
      · split at hp
        · rename_i c1 p' hn'
          simp only [readsR, id, List.mem_cons, List.not_mem_nil, or_false] at hp
          subst hp
          exact nextSend_some_mem hn'
        · dsimp only at hp; split at hp <;> simp [readsR] at hp
  unfold Fine.tryRecv Fine.acquire
  cases rt
  · simp only [Bool.false_eq_true, if_false, readsR]; exact key
  · simp only [if_true, readsR]; exact key

theorem readsR_drainQueue (q : List Msg) (k : Act) (l : Bool) (s : State) :
    readsR (Fine.drainQueue q k) l s = readsR k l s := by
  unfold Fine.drainQueue
  induction q with
  | nil => rfl
  | cons v q ih => simp only [Act.forEach_cons, readsR]; exact ih

theorem readsR_drainSenders (l : List SigId) (k : Act) (s : State) :
    readsR (Fine.drainSenders l k) true s = l ++ readsR k true (l.foldl State.takeFrom s) := by
  unfold Fine.drainSenders
  induction l generalizing s with
  | nil => rfl
  | cons p l ih => simp only [Act.forEach_cons, readsR, if_true, List.foldl_cons, List.cons_append]; rw [ih]

theorem drainCS_senders_sub {c c1 : Chan} {q l n} (h : c.drainCS = some (c1, q, l, n)) : ∀ p ∈ l, p ∈ c.waitList := by
  unfold Chan.drainCS Chan.popAllSenders at h
  split at h
  · cases h
  · split at h <;> simp at h <;> obtain ⟨-, -, rfl, -⟩ := h <;> simp

/-- `drain_into` -/
theorem readsR_drain (x : Ctx) (s : State) : ∀ p ∈ readsR (Fine.drain x) false s, p ∈ s.chan.waitList := by
  intro p hp
  unfold Fine.drain at hp
  simp only [readsR] at hp
  split at hp
  · simp [readsR] at hp
  · rename_i c1 q senders n hd
    have hres : ∀ k : Act, readsR (if n > x.vcap - x.vlen then Act.eff (.vecReserve (x.vlen + n - (x.vcap - x.vlen))) k else k) true s =
        readsR k true s := by
      intro k; split <;> simp [readsR]
    rw [hres, readsR_drainQueue, readsR_drainSenders] at hp
    simp only [readsR, List.append_nil] at hp
    exact drainCS_senders_sub hd p hp

end Refine
end Kanal
