/-
  Kanal.Refine.Raw — the refinement theorem with the polls run as they are (no `forget`): the code state then agrees with
  the model up to the slots of finished futures (`UpToStale`), and that is an invariant of segment-atomic executions.
-/
import Kanal.Refine.Reads
import Kanal.Refine.Exec

namespace Kanal
namespace Refine
open Bridge State

/-- `codeStep` with the polls as `run2` leaves them: nothing but `run` / `run2` / `resume` / `runDrop` on the trees of
    `Kanal.Fine` (and `State.newSig` / `State.finalize` for the three segments without a tree). -/
def codeStepRaw : Seg → State → State × Option Res
  | .pollSend e, g =>
    ((run2 e (Fine.pollSend e.x) false g).1, ofOut2 e.x.me (run2 e (Fine.pollSend e.x) false g).2)
  | .pollRecv e, g =>
    ((run2 e (Fine.pollRecv e.x) false g).1, ofOut2 e.x.me (run2 e (Fine.pollRecv e.x) false g).2)
  | .pollNext e, g =>
    ((run2 e (Fine.pollNext e.x) false g).1, ofOut2 e.x.me (run2 e (Fine.pollNext e.x) false g).2)
  | d, g => codeStep d g

/-- the finished futures of `s` -/
def DoneAt (s : State) (i : SigId) : Prop := ∃ b, s.sigs[i]? = some b ∧ b.fut = .done

/-- The code state `g` is the model state `s` up to the slots of the finished futures of `s`: same `chan`, same wake
    log, the same waiter records except that a finished future may still hold the bytes of a value that has left it. -/
structure UpToStale (g s : State) : Prop where
  chan  : g.chan = s.chan
  wakes : g.wakes = s.wakes
  sig   : ∀ i : SigId, (g.sigs[i]?).map clr = (s.sigs[i]?).map clr
  same  : ∀ (i : SigId) (b : Sig), s.sigs[i]? = some b → b.fut ≠ .done → g.sigs[i]? = some b

theorem UpToStale.refl (s : State) : UpToStale s s := ⟨rfl, rfl, fun _ => rfl, fun _ _ h _ => h⟩

theorem UpToStale.of_core {g s : State} (h : core g = core s) : UpToStale g s := by
  have hs := core_sigs h
  exact ⟨core_chan h, core_wakes h, fun i => by rw [hs], fun i b hb _ => by rw [hs]; exact hb⟩

/-- `UpToStale` is the lockstep relation for `D` = the finished futures of `s` (whoever the caller is). -/
theorem UpToStale.stale {g s : State} (h : UpToStale g s) (me : SigId) : Stale me (DoneAt s) g s := by
  refine ⟨h.chan, h.wakes, h.sig, ?_, fun i hi _ => hi⟩
  intro i hi
  cases hs : s.sigs[i]? with
  | none =>
    have := h.sig i; rw [hs] at this
    cases hg : g.sigs[i]? with
    | none => rfl
    | some a => rw [hg] at this; cases this
  | some b =>
    exact h.same i b hs (fun hd => hi ⟨b, hs, hd⟩)

theorem fs_fut (a : Sig) : (fs a).fut = a.fut := by unfold fs; split <;> rfl
theorem clr_fs (a : Sig) : clr (fs a) = clr a := by unfold fs; split <;> rfl
theorem fs_of_not_done {a : Sig} (h : a.fut ≠ .done) : fs a = a := by unfold fs; rw [if_neg h]

/-- Closing a segment: the two runs are in lockstep (`Stale`), the run on the model state ends `core`-equal to the
    model's next state — possibly after `forget` — so the run on the code state ends `UpToStale` it. -/
theorem close_raw {me : SigId} {D : SigId → Prop} {g' t' s' : State} (h : Stale me D g' t')
    (hme : D me → ∀ b, t'.sigs[me]? = some b → b.fut = .done)
    (hc : core t' = core s' ∨ core (forget t' me) = core s') : UpToStale g' s' := by
  have hts : ∀ i : SigId, (s'.sigs[i]? = if me = i then (t'.sigs[i]?).map fs else t'.sigs[i]?) ∨
      s'.sigs[i]? = t'.sigs[i]? := by
    intro i
    rcases hc with hc | hc
    · right; rw [core_sigs hc]
    · left; rw [← core_sigs hc, forget_eq, modSig_get]
  have hchan : t'.chan = s'.chan := by
    rcases hc with hc | hc
    · exact core_chan hc
    · rw [← core_chan hc, forget_eq, modSig_chan]
  have hwakes : t'.wakes = s'.wakes := by
    rcases hc with hc | hc
    · exact core_wakes hc
    · rw [← core_wakes hc, forget_eq, modSig_wakes]
  have hclr : ∀ i : SigId, (t'.sigs[i]?).map clr = (s'.sigs[i]?).map clr := by
    intro i
    rcases hts i with h1 | h1
    · rw [h1]; split
      · cases t'.sigs[i]? <;> simp [clr_fs]
      · rfl
    · rw [h1]
  have hsame : ∀ (i : SigId) (b : Sig), s'.sigs[i]? = some b → b.fut ≠ .done → t'.sigs[i]? = some b := by
    intro i b hb hd
    rcases hts i with h1 | h1
    · rw [h1] at hb
      split at hb
      · cases ht : t'.sigs[i]? with
        | none => rw [ht] at hb; cases hb
        | some a =>
          rw [ht] at hb; simp only [Option.map_some, Option.some.injEq] at hb
          have : a.fut ≠ .done := by rw [← fs_fut, hb]; exact hd
          rw [fs_of_not_done this] at hb; rw [hb]
      · exact hb
    · rw [← h1]; exact hb
  refine ⟨h.chan.trans hchan, h.wakes.trans hwakes, fun i => (h.sig i).trans (hclr i), ?_⟩
  intro i b hb hd
  have ht := hsame i b hb hd
  by_cases hi : D i
  · exfalso
    by_cases him : i = me
    · subst him; exact hd (hme hi b ht)
    · obtain ⟨b', hb', hd'⟩ := h.done i hi him
      rw [ht] at hb'; cases hb'; exact hd hd'
  · rw [h.same i hi]; exact ht

/-! ### what reachable states give -/

/-- a listed waiter is no finished future -/
theorem listed_not_done {s : State} (hr : Reach .good s) {p : SigId} (hp : p ∈ s.chan.waitList) : ¬ DoneAt s p := by
  rintro ⟨b, hb, hd⟩
  have hl := listed_rec (reach_str hr) hb hp
  by_cases hk : b.kind = .async
  · have := (hl.fut hk).1; rw [hd] at this; cases this
  · have := ((reach_str hr).sigOK p b hb).syncFut hk; rw [hd] at this; cases this

theorem len_not_done (s : State) : ¬ DoneAt s s.sigs.length := by
  rintro ⟨b, hb, -⟩
  rw [List.getElem?_eq_none (Nat.le_refl _)] at hb; cases hb

theorem sync_not_done {s : State} (hr : Reach .good s) {i : SigId} {b : Sig} (hb : s.sigs[i]? = some b)
    (hk : b.kind ≠ .async) : ¬ DoneAt s i := by
  rintro ⟨b', hb', hd⟩
  rw [hb] at hb'; cases hb'
  have := ((reach_str hr).sigOK i b hb).syncFut hk; rw [hd] at this; cases this

theorem not_done_of {s : State} {i : SigId} {b : Sig} (hb : s.sigs[i]? = some b) (hd : b.fut ≠ .done) : ¬ DoneAt s i := by
  rintro ⟨b', hb', hd'⟩
  rw [hb] at hb'; cases hb'; exact hd hd'

/-! ### the segments -/

/-- what `seg_sim_raw` says -/
def SimRaw (d : Seg) (g s : State) : Prop :=
  ∃ s' r, specSeg d s = some (s', r) ∧ UpToStale (codeStepRaw d g).1 s' ∧ (codeStepRaw d g).2 = some r

/-- calls of one critical section -/
theorem raw_single {s g : State} (hr : Reach .good s) (hc : UpToStale g s) {d : Seg} {a : Act}
    (hd : ∀ t, codeStepRaw d t = single a t) (hd' : ∀ t, codeStep d t = single a t) (hreads : ∀ p ∈ readsR a false s, p ∈ s.chan.waitList)
    (hs : SimSelf d s) : SimRaw d g s := by
  obtain ⟨s', r, h1, h2, h3⟩ := hs
  have hl := run_stale a false (hc.stale s.sigs.length) (fun p hp => listed_not_done hr (hreads p hp)) []
  refine ⟨s', r, h1, ?_, ?_⟩
  · rw [hd]
    exact close_raw hl.1 (fun h => absurd h (len_not_done s)) (Or.inl (by
      have : codeStep d s = single a s := hd' s
      rw [this] at h2; exact h2))
  · have h4 : (codeStep d s).2 = (single a s).2 := by rw [show codeStep d s = single a s from hd' s]
    rw [hd]; unfold single; rw [hl.2]; rw [h4] at h3; exact h3

theorem noReadR {a : Act} (h : NoRead a) (s : State) : ∀ p ∈ readsR a false s, p ∈ s.chan.waitList := by
  rw [readsR_noRead h]; intro p hp; cases hp


theorem resume_stale (e : Env) {D : SigId → Prop} (hme : ¬ D e.x.me) (k : Bool → Act) (b : Bool) {g s : State}
    (h : Stale e.x.me D g s) (hr : ∀ p ∈ reads e (k b) false s, ¬ D p) :
    Stale e.x.me D (resume e k b g).1 (resume e k b s).1 ∧ (resume e k b g).2 = (resume e k b s).2 := by
  obtain ⟨h1, h2⟩ := run2_stale e hme (k b) false h hr
  unfold resume
  rcases hs : run2 e (k b) false s with ⟨s', o⟩
  rcases hg : run2 e (k b) false g with ⟨g', o'⟩
  rw [hs, hg] at h1 h2
  simp only at h1 h2
  subst h2
  cases o' <;> simp only <;>
    first
    | exact ⟨h1.modSig _ _ (by resp_tac) (Or.inl rfl), trivial⟩
    | exact ⟨h1, trivial⟩
    | exact ⟨h1, rfl⟩

theorem retireFut_stale {me : SigId} {D : SigId → Prop} {g s : State} (h : Stale me D g s) :
    Stale me D (retireFut g me) (retireFut s me) :=
  h.modSig _ _ (by resp_tac) (Or.inl rfl)

/-- `runDrop` in lockstep, given the lockstep of the `run2` inside -/
theorem runDrop_stale_of (e : Env) {D : SigId → Prop} (a : Act) {g s : State}
    (h : Stale e.x.me D (run2 e a false g).1 (run2 e a false s).1 ∧ (run2 e a false g).2 = (run2 e a false s).2) :
    Stale e.x.me D (runDrop e a g).1 (runDrop e a s).1 ∧ (runDrop e a g).2 = (runDrop e a s).2 := by
  obtain ⟨h1, h2⟩ := h
  unfold runDrop
  rcases hs : run2 e a false s with ⟨s', o⟩
  rcases hg : run2 e a false g with ⟨g', o'⟩
  rw [hs, hg] at h1 h2
  simp only at h1 h2
  subst h2
  cases o' <;> simp only <;>
    first
    | exact ⟨retireFut_stale h1, trivial⟩
    | exact ⟨h1, trivial⟩
    | exact ⟨h1, rfl⟩

/-- Closing a segment whose code is `P` (a `run2`, `resume` or `runDrop`) and whose `codeStep` is `P` or `forget ∘ P`. -/
theorem raw_close2 {s g : State} {d : Seg} {me : SigId} {D : SigId → Prop} {P : State → State × Out2}
    (hd : ∀ t, codeStepRaw d t = ((P t).1, ofOut2 me (P t).2))
    (hl : Stale me D (P g).1 (P s).1 ∧ (P g).2 = (P s).2)
    (hme : D me → ∀ b, (P s).1.sigs[me]? = some b → b.fut = .done)
    (hs : ∃ s' r, specSeg d s = some (s', r) ∧
      (core (P s).1 = core s' ∨ core (forget (P s).1 me) = core s') ∧ ofOut2 me (P s).2 = some r) :
    SimRaw d g s := by
  obtain ⟨s', r, h1, h2, h3⟩ := hs
  refine ⟨s', r, h1, ?_, ?_⟩
  · rw [hd]; exact close_raw hl.1 hme h2
  · rw [hd]; simp only; rw [hl.2]; exact h3

/-- the lockstep of a `run2` whose caller is no finished future -/
theorem lock2 {s g : State} (hr : Reach .good s) (hc : UpToStale g s) (e : Env) (a : Act)
    (hme : ¬ DoneAt s e.x.me) (hreads : ∀ p ∈ reads e a false s, p ∈ s.chan.waitList) :
    Stale e.x.me (DoneAt s) (run2 e a false g).1 (run2 e a false s).1 ∧
      (run2 e a false g).2 = (run2 e a false s).2 :=
  run2_stale e hme a false (hc.stale _) (fun p hp => listed_not_done hr (hreads p hp))

theorem noRead2 (e : Env) {a : Act} (h : NoRead a) (s : State) : ∀ p ∈ reads e a false s, p ∈ s.chan.waitList := by
  rw [reads_noRead e h]; intro p hp; cases hp

theorem raw_startSend {s g : State} (hr : Reach .good s) (hc : UpToStale g s) {e : Env}
    (he : Enabled (.startSend e) s) : SimRaw (.startSend e) g s := by
  obtain ⟨s', r, h1, h2, h3⟩ := sim_startSend he
  have hme : ¬ DoneAt s e.x.me := by rw [he.2.2.2]; exact len_not_done s
  exact raw_close2 (P := fun t => run2 e (Fine.send (e.kind == .timed) e.opt e.x) false t) (fun _ => rfl)
    (lock2 hr hc e _ hme (noRead2 e (noRead_send _ _ _) s)) (fun h => absurd h hme) ⟨s', r, h1, Or.inl h2, h3⟩

theorem raw_startRecv {s g : State} (hr : Reach .good s) (hc : UpToStale g s) {e : Env}
    (he : Enabled (.startRecv e) s) : SimRaw (.startRecv e) g s := by
  obtain ⟨s', r, h1, h2, h3⟩ := sim_startRecv he
  have hme : ¬ DoneAt s e.x.me := by rw [he.2.2]; exact len_not_done s
  exact raw_close2 (P := fun t => run2 e (Fine.recv (e.kind == .timed) e.x) false t) (fun _ => rfl)
    (lock2 hr hc e _ hme (reads_recv e _ _ s)) (fun h => absurd h hme) ⟨s', r, h1, Or.inl h2, h3⟩

theorem raw_resume {s g : State} (hr : Reach .good s) (hc : UpToStale g s) {e : Env} {late : Bool}
    (he : Enabled (.resumeWaiter e late) s) : SimRaw (.resumeWaiter e late) g s := by
  obtain ⟨s', r, h1, h2, h3⟩ := sim_resume hr he
  obtain ⟨b, hb, -, hk, -, -⟩ := he
  have hme : ¬ DoneAt s e.x.me := sync_not_done hr hb hk
  have hgb : g.sigs[e.x.me]? = some b := by rw [(hc.stale e.x.me).same _ hme]; exact hb
  have hl := resume_stale e hme (contOf b late e.x) (b.st == .ok) (hc.stale e.x.me)
    (fun p hp => by rw [reads_noRead e (noRead_contOf _ _ _ _)] at hp; cases hp)
  simp only [codeStep, hb] at h2 h3
  refine ⟨s', r, h1, ?_, ?_⟩
  · simp only [codeStepRaw, codeStep, hgb]
    exact close_raw hl.1 (fun h => absurd h hme) (Or.inl h2)
  · simp only [codeStepRaw, codeStep, hgb]; rw [hl.2]; exact h3

theorem raw_expire {s g : State} (hr : Reach .good s) (hc : UpToStale g s) {e : Env}
    (he : Enabled (.expireWaiter e) s) : SimRaw (.expireWaiter e) g s := by
  obtain ⟨s', r, h1, h2, h3⟩ := sim_expire hr he
  obtain ⟨b, hb, -, hk⟩ := he
  have hme : ¬ DoneAt s e.x.me := sync_not_done hr hb (by rw [hk]; simp)
  have hgb : g.sigs[e.x.me]? = some b := by rw [(hc.stale e.x.me).same _ hme]; exact hb
  have hl := resume_stale e hme (timedContOf b e.x) false (hc.stale e.x.me)
    (fun p hp => by rw [reads_noRead e (noRead_timedContOf _ _ _)] at hp; cases hp)
  simp only [codeStep, hb] at h2 h3
  refine ⟨s', r, h1, ?_, ?_⟩
  · simp only [codeStepRaw, codeStep, hgb]
    exact close_raw hl.1 (fun h => absurd h hme) (Or.inl h2)
  · simp only [codeStepRaw, codeStep, hgb]; rw [hl.2]; exact h3

theorem raw_storeFinal {s g : State} (hc : UpToStale g s) {i : SigId}
    (he : Enabled (.storeFinal i) s) : SimRaw (.storeFinal i) g s := by
  obtain ⟨s', r, h1, h2, h3⟩ := sim_storeFinal he
  have hl : Stale s.sigs.length (DoneAt s) (storeFinal g i) (storeFinal s i) :=
    (((hc.stale s.sigs.length).modSig i (fun a => { a with claimed := false }) (by resp_tac)
      (Or.inr fun _ => rfl))).finalize i .ok
  exact ⟨s', r, h1, close_raw hl (fun h => absurd h (len_not_done s)) (Or.inl h2), h3⟩

theorem raw_newSendFut {s g : State} (hc : UpToStale g s) {m : Msg}
    (he : Enabled (.newSendFut m) s) : SimRaw (.newSendFut m) g s := by
  obtain ⟨s', r, h1, h2, h3⟩ := sim_newSendFut he
  have hst := hc.stale s.sigs.length
  refine ⟨s', r, h1, close_raw (hst.newSig _) (fun h => absurd h (len_not_done s)) (Or.inl h2), ?_⟩
  simp only [codeStepRaw, codeStep] at h3 ⊢; rw [hst.len]; exact h3

theorem raw_newRecvFut {s g : State} (hc : UpToStale g s) {st : Bool}
    (he : Enabled (.newRecvFut st) s) : SimRaw (.newRecvFut st) g s := by
  obtain ⟨s', r, h1, h2, h3⟩ := sim_newRecvFut he
  have hst := hc.stale s.sigs.length
  refine ⟨s', r, h1, close_raw (hst.newSig _) (fun h => absurd h (len_not_done s)) (Or.inl h2), ?_⟩
  simp only [codeStepRaw, codeStep] at h3 ⊢; rw [hst.len]; exact h3

theorem raw_convert {s g : State} (hc : UpToStale g s) {side : Side}
    (he : Enabled (.callConvert side) s) : SimRaw (.callConvert side) g s := by
  obtain ⟨s', r, h1, h2, h3⟩ := sim_convert he
  exact ⟨s', r, h1, close_raw (hc.stale s.sigs.length) (fun h => absurd h (len_not_done s)) (Or.inl h2), h3⟩

theorem raw_drain {s g : State} (hr : Reach .good s) (hc : UpToStale g s) {x : Ctx}
    (he : Enabled (.callDrain x) s) : SimRaw (.callDrain x) g s := by
  obtain ⟨s', r, h1, h2, h3⟩ := sim_drain hr he
  have hl := run_stale (Fine.drain x) false (hc.stale s.sigs.length)
    (fun p hp => listed_not_done hr (readsR_drain x s p hp)) []
  refine ⟨s', r, h1, close_raw hl.1 (fun h => absurd h (len_not_done s)) (Or.inl h2), ?_⟩
  simp only [codeStepRaw, codeStep] at h3 ⊢; rw [hl.2]; exact h3


/-! ### futures -/

theorem lock_ret {me : SigId} {D : SigId → Prop} {g s : State} (e : Env) {a : Act} {r0 : Res} (ht : a = .ret r0)
    (h : Stale me D g s) :
    Stale me D (run2 e a false g).1 (run2 e a false s).1 ∧ (run2 e a false g).2 = (run2 e a false s).2 := by
  subst ht; simp only [run2_ret]; exact ⟨h, trivial⟩

theorem doneAt_fut {s : State} {i : SigId} {b : Sig} (h : DoneAt s i) (hb : s.sigs[i]? = some b) : b.fut = .done := by
  obtain ⟨b', hb', hd⟩ := h
  rw [hb] at hb'; cases hb'; exact hd

theorem raw_pollSend {s g : State} (hr : Reach .good s) (hc : UpToStale g s) {e : Env}
    (he : Enabled (.pollSend e) s) : SimRaw (.pollSend e) g s := by
  obtain ⟨s', r, h1, h2, h3⟩ := sim_pollSend hr he
  obtain ⟨b, hb, -, -, -, hst, -, -⟩ := he
  by_cases hd : b.fut = .done
  · have ht : Fine.pollSend e.x = .ret .panic := by simp [Fine.pollSend, hst, hd]
    refine raw_close2 (P := fun t => run2 e (Fine.pollSend e.x) false t) (fun _ => rfl)
      (lock_ret e ht (hc.stale _)) ?_ ⟨s', r, h1, Or.inr h2, h3⟩
    intro h b' hb'
    simp only [ht, run2_ret] at hb'
    exact doneAt_fut h hb'
  · have hme := not_done_of hb hd
    exact raw_close2 (P := fun t => run2 e (Fine.pollSend e.x) false t) (fun _ => rfl)
      (lock2 hr hc e _ hme (noRead2 e (noRead_pollSend _) s)) (fun h => absurd h hme) ⟨s', r, h1, Or.inr h2, h3⟩

theorem raw_pollRecv {s g : State} (hr : Reach .good s) (hc : UpToStale g s) {e : Env}
    (he : Enabled (.pollRecv e) s) : SimRaw (.pollRecv e) g s := by
  obtain ⟨s', r, h1, h2, h3⟩ := sim_pollRecv hr he
  obtain ⟨b, hb, -, -, -, hst, his, -, -⟩ := he
  by_cases hd : b.fut = .done
  · have ht : Fine.pollRecv e.x = .ret .panic := by simp [Fine.pollRecv, Fine.pollRecvRound, hst, hd, his]
    refine raw_close2 (P := fun t => run2 e (Fine.pollRecv e.x) false t) (fun _ => rfl)
      (lock_ret e ht (hc.stale _)) ?_ ⟨s', r, h1, Or.inr h2, h3⟩
    intro h b' hb'
    simp only [ht, run2_ret] at hb'
    exact doneAt_fut h hb'
  · have hme := not_done_of hb hd
    exact raw_close2 (P := fun t => run2 e (Fine.pollRecv e.x) false t) (fun _ => rfl)
      (lock2 hr hc e _ hme (reads_pollRecv e _ s)) (fun h => absurd h hme) ⟨s', r, h1, Or.inr h2, h3⟩

/-- re-arming: the caller's record is overwritten wherever the two states may differ, so it leaves `D` -/
theorem Stale.modSig_clean {me : SigId} {D : SigId → Prop} {g s : State} (h : Stale me D g s) (f : Sig → Sig)
    (hf : ∀ a b, clr a = clr b → f a = f b) :
    Stale me (fun i => D i ∧ i ≠ me) (Bridge.modSig g me f) (Bridge.modSig s me f) := by
  refine ⟨by rw [modSig_chan, modSig_chan, h.chan], by rw [modSig_wakes, modSig_wakes, h.wakes], ?_, ?_, ?_⟩
  · intro i; rw [modSig_get, modSig_get]; split
    · exact map_clr_congr (fun a b hab => by rw [hf a b hab]) (h.sig i)
    · exact h.sig i
  · intro i hi; rw [modSig_get, modSig_get]; split
    · have := h.sig i
      cases hg : g.sigs[i]? <;> cases hs : s.sigs[i]? <;> simp [hg, hs] at this ⊢
      exact hf _ _ this
    · rename_i hne
      exact h.same i (fun hD => hi ⟨hD, fun he => hne he.symm⟩)
  · intro i hi hne
    obtain ⟨b, hb, hd⟩ := h.done i hi.1 hne
    refine ⟨b, ?_, hd⟩
    rw [modSig_get, if_neg (fun he => hne he.symm)]; exact hb

theorem pollNext_done_tree {x : Ctx} (ht : x.terminated = false) (hst : x.st = .done) (his : x.isStream = true) :
    Fine.pollNext x =
      .eff .rearmSig (.eff (.setState .zero) ((Fine.pollRecvRound x .zero .diverge).bind nextK)) := by
  rw [pollNext_tree]
  simp [ht, Fine.pollRecv, hst, Fine.pollRecvRound, his, Act.bind]

theorem raw_pollNext {s g : State} (hr : Reach .good s) (hc : UpToStale g s) {e : Env}
    (he : Enabled (.pollNext e) s) : SimRaw (.pollNext e) g s := by
  obtain ⟨s', r, h1, h2, h3⟩ := sim_pollNext hr he
  obtain ⟨b, hb, -, -, -, hst, his, -, hte, -⟩ := he
  by_cases hterm : e.x.terminated = true
  · have ht : Fine.pollNext e.x = .ret .streamEnd := by simp [Fine.pollNext, hterm]
    refine raw_close2 (P := fun t => run2 e (Fine.pollNext e.x) false t) (fun _ => rfl)
      (lock_ret e ht (hc.stale _)) ?_ ⟨s', r, h1, Or.inr h2, h3⟩
    intro h b' hb'
    simp only [ht, run2_ret] at hb'
    exact doneAt_fut h hb'
  · have hterm' : e.x.terminated = false := by simpa using hterm
    by_cases hd : b.fut = .done
    · have ht := pollNext_done_tree hterm' (hst.trans hd) his
      have hst2 := ((hc.stale e.x.me).modSig_clean
        (fun a => { a with st := .pending, slot := none, waker := none }) (by resp_tac)).modSig e.x.me
        (fun a => { a with fut := .zero }) (by resp_tac) (Or.inl rfl)
      have hl := run2_stale e (D := fun i => DoneAt s i ∧ i ≠ e.x.me) (fun h => h.2 rfl)
        ((Fine.pollRecvRound e.x .zero .diverge).bind nextK) false hst2 (by
          intro p hp
          rw [reads_bind e nextK noRead_nextK] at hp
          have := reads_pollZero e e.x .diverge _ p hp
          simp only [modSig_chan] at this
          exact fun h => listed_not_done hr this h.1)
      refine raw_close2 (D := fun i => DoneAt s i ∧ i ≠ e.x.me)
        (P := fun t => run2 e (Fine.pollNext e.x) false t) (fun _ => rfl) ?_ (fun h => absurd rfl h.2)
        ⟨s', r, h1, Or.inr h2, h3⟩
      simp only [ht, run2_rearmSig, run2_setState]
      exact hl
    · have hme := not_done_of hb hd
      exact raw_close2 (P := fun t => run2 e (Fine.pollNext e.x) false t) (fun _ => rfl)
        (lock2 hr hc e _ hme (reads_pollNext e _ s)) (fun h => absurd h hme) ⟨s', r, h1, Or.inr h2, h3⟩

theorem retireFut_fut {s : State} {i : SigId} {b : Sig} (h : (retireFut s i).sigs[i]? = some b) : b.fut = .done := by
  unfold retireFut at h
  rw [modSig_get] at h
  simp only [if_true] at h
  cases hs : s.sigs[i]? with
  | none => rw [hs] at h; cases h
  | some a => rw [hs] at h; simp only [Option.map_some, Option.some.injEq] at h; rw [← h]

theorem raw_dropSendFut {s g : State} (hr : Reach .good s) (hc : UpToStale g s) {e : Env}
    (he : Enabled (.dropSendFut e) s) : SimRaw (.dropSendFut e) g s := by
  obtain ⟨s', r, h1, h2, h3⟩ := sim_dropSendFut he
  obtain ⟨b, hb, -, -, -, hst⟩ := he
  by_cases hd : b.fut = .done
  · have ht : Fine.dropSendFut e.x = .ret .unit := by simp [Fine.dropSendFut, hst, hd]
    refine raw_close2 (P := fun t => runDrop e (Fine.dropSendFut e.x) t) (fun _ => rfl)
      (runDrop_stale_of e _ (lock_ret e ht (hc.stale _))) ?_ ⟨s', r, h1, Or.inl h2, h3⟩
    intro _ b' hb'
    simp only [ht, runDrop, run2_ret] at hb'
    exact retireFut_fut hb'
  · have hme := not_done_of hb hd
    exact raw_close2 (P := fun t => runDrop e (Fine.dropSendFut e.x) t) (fun _ => rfl)
      (runDrop_stale_of e _ (lock2 hr hc e _ hme (noRead2 e (noRead_dropSendFut _) s))) (fun h => absurd h hme)
      ⟨s', r, h1, Or.inl h2, h3⟩

theorem raw_dropRecvFut {s g : State} (hr : Reach .good s) (hc : UpToStale g s) {e : Env}
    (he : Enabled (.dropRecvFut e) s) : SimRaw (.dropRecvFut e) g s := by
  obtain ⟨s', r, h1, h2, h3⟩ := sim_dropRecvFut he
  obtain ⟨b, hb, -, -, -, hst⟩ := he
  by_cases hd : b.fut = .done
  · have ht : Fine.dropRecvFut e.x = .ret .unit := by simp [Fine.dropRecvFut, hst, hd]
    refine raw_close2 (P := fun t => runDrop e (Fine.dropRecvFut e.x) t) (fun _ => rfl)
      (runDrop_stale_of e _ (lock_ret e ht (hc.stale _))) ?_ ⟨s', r, h1, Or.inl h2, h3⟩
    intro _ b' hb'
    simp only [ht, runDrop, run2_ret] at hb'
    exact retireFut_fut hb'
  · have hme := not_done_of hb hd
    exact raw_close2 (P := fun t => runDrop e (Fine.dropRecvFut e.x) t) (fun _ => rfl)
      (runDrop_stale_of e _ (lock2 hr hc e _ hme (noRead2 e (noRead_dropRecvFut _) s))) (fun h => absurd h hme)
      ⟨s', r, h1, Or.inl h2, h3⟩

/-- One-step simulation for the code as it is: `s` a reachable model state, `g` a code state that is `s` up to the slots of
    finished futures, `d` enabled in `s`.  The model steps; the code, run through `d` from `g` WITHOUT `forget`, ends in a
    state that is the model's next state up to the slots of finished futures, with the same result. -/
theorem seg_sim_raw {s g : State} (hr : Reach .good s) (hc : UpToStale g s) (d : Seg) (he : Enabled d s) :
    ∃ s' r, specSeg d s = some (s', r) ∧ UpToStale (codeStepRaw d g).1 s' ∧ (codeStepRaw d g).2 = some r := by
  cases d with
  | callTrySend x opt rt =>
    exact raw_single hr hc (fun _ => rfl) (fun _ => rfl) (noReadR (noRead_trySend _ _ _) s) (sim_trySend he)
  | callTryRecv rt => exact raw_single hr hc (fun _ => rfl) (fun _ => rfl) (readsR_tryRecv rt s) (sim_tryRecv he)
  | callDrain x => exact raw_drain hr hc he
  | callClose => exact raw_single hr hc (fun _ => rfl) (fun _ => rfl) (noReadR noRead_close s) (sim_close he)
  | callClone side =>
    exact raw_single hr hc (fun _ => rfl) (fun _ => rfl) (noReadR (noRead_cloneHandle _) s) (sim_clone he)
  | callDropHandle side =>
    exact raw_single hr hc (fun _ => rfl) (fun _ => rfl) (noReadR (noRead_dropHandle _) s) (sim_dropHandle he)
  | callObserve o =>
    exact raw_single hr hc (fun _ => rfl) (fun _ => rfl) (noReadR (noRead_observe _) s) (sim_observe he)
  | callConvert side => exact raw_convert hc he
  | startSend e => exact raw_startSend hr hc he
  | startRecv e => exact raw_startRecv hr hc he
  | resumeWaiter e late => exact raw_resume hr hc he
  | expireWaiter e => exact raw_expire hr hc he
  | storeFinal i => exact raw_storeFinal hc he
  | newSendFut m => exact raw_newSendFut hc he
  | newRecvFut st => exact raw_newRecvFut hc he
  | pollSend e => exact raw_pollSend hr hc he
  | pollRecv e => exact raw_pollRecv hr hc he
  | pollNext e => exact raw_pollNext hr hc he
  | dropSendFut e => exact raw_dropSendFut hr hc he
  | dropRecvFut e => exact raw_dropRecvFut hr hc he


/-! ### executions -/

/-- The code as it is, run through a list of segments: the state after each segment and what its caller saw. -/
def codeTraceRaw : List Seg → State → List (State × Option Res)
  | [], _ => []
  | d :: ds, g => codeStepRaw d g :: codeTraceRaw ds (codeStepRaw d g).1

def codeEndRaw : List Seg → State → State
  | [], g => g
  | d :: ds, g => codeEndRaw ds (codeStepRaw d g).1

/-- code and model agree on one segment: the code state is the model state up to the slots of finished futures, the
    results are equal -/
def AgreeRaw (c : State × Option Res) (m : State × Res) : Prop := UpToStale c.1 m.1 ∧ c.2 = some m.2

inductive AgreeAllRaw : List (State × Option Res) → List (State × Res) → Prop
  | nil : AgreeAllRaw [] []
  | cons {c m cs ms} : AgreeRaw c m → AgreeAllRaw cs ms → AgreeAllRaw (c :: cs) (m :: ms)

theorem code_refines_spec_raw_from {s g : State} (hr : Reach .good s) (hc : UpToStale g s) (ds : List Seg)
    (he : EnabledAlong ds s) :
    ∃ tr, specTrace ds s = some tr ∧ AgreeAllRaw (codeTraceRaw ds g) tr ∧
      UpToStale (codeEndRaw ds g) (specEnd ds s) := by
  induction ds generalizing s g with
  | nil => exact ⟨[], rfl, AgreeAllRaw.nil, hc⟩
  | cons d ds ih =>
    obtain ⟨hd, hrest⟩ := he
    obtain ⟨s', r, h1, h2, h3⟩ := seg_sim_raw hr hc d hd
    obtain ⟨tr, t1, t2, t3⟩ := ih (specSeg_reach hr h1) h2 (hrest _ h1)
    refine ⟨(s', r) :: tr, ?_, AgreeAllRaw.cons ⟨h2, h3⟩ t2, ?_⟩
    · simp only [specTrace, h1, t1]
    · simp only [codeEndRaw, specEnd, h1]; exact t3

/-- **Executions, for the code as it is** (`codeStepRaw`: nothing but `run` / `run2` / `resume` / `runDrop` on the trees of
    `Kanal.Fine`, no `forget`).  For every list of segments `ds`, each enabled in the model state reached so far, from a
    fresh channel: the model can follow, the results are equal segment by segment, and after each segment the code state
    is the model state up to the slots of finished futures (`UpToStale`: same `chan`, same wake log, the same waiter
    records except that a future with `fut = .done` may still hold the bytes of the value that has left it).
    This removes exclusion 3 of `Kanal/Refine.lean`: those bytes are never looked at again. -/
theorem code_refines_spec_raw (cap : Option Nat) (ds : List Seg) (he : EnabledAlong ds (State.init cap)) :
    ∃ tr, specTrace ds (State.init cap) = some tr ∧
      AgreeAllRaw (codeTraceRaw ds (State.init cap)) tr ∧
      UpToStale (codeEndRaw ds (State.init cap)) (specEnd ds (State.init cap)) :=
  code_refines_spec_raw_from (Reach.init cap) (UpToStale.refl _) ds he

/-- The wait-list discipline along every segment-atomic execution of the code as it is: no duplicates, only alive,
    pending waiters of the one role the list currently holds, and the buffer within capacity. -/
theorem code_waitList_ok_raw (cap : Option Nat) (ds : List Seg) (he : EnabledAlong ds (State.init cap)) :
    ∀ c ∈ codeTraceRaw ds (State.init cap),
      c.1.chan.waitList.Nodup ∧
      (∀ i ∈ c.1.chan.waitList, ∃ a, c.1.sigs[i]? = some a ∧ a.alive = true ∧ a.st = .pending ∧
          a.role = (if c.1.chan.recvBlocking then Role.recv else Role.send)) ∧
      (∀ n, c.1.chan.capacity = some n → c.1.chan.queue.length ≤ n) := by
  obtain ⟨tr, h1, h2, -⟩ := code_refines_spec_raw cap ds he
  have hreach := specTrace_reach (Reach.init cap) h1
  generalize codeTraceRaw ds (State.init cap) = ct at h2
  clear h1
  induction h2 with
  | nil => intro c hc; cases hc
  | @cons c0 m0 cs ms hab _ ih =>
    intro c hc
    rcases List.mem_cons.1 hc with rfl | hc
    · have hm : Reach .good m0.1 := hreach _ (List.mem_cons_self ..)
      have hs := reach_str hm
      have hu := hab.1
      rw [hu.chan]
      refine ⟨hs.nodup, ?_, ?_⟩
      · intro i hi
        obtain ⟨a, ha, hl⟩ := hs.listed i hi
        have hnd : a.fut ≠ .done := fun hd => listed_not_done hm hi ⟨a, ha, hd⟩
        exact ⟨a, hu.same i a ha hnd, hl.alive, hl.pending, hl.role⟩
      · intro n hn
        have := hs.chanInv.cap
        unfold Chan.WithinCap at this
        rw [hn] at this; exact this
    · exact ih (fun m hm => hreach m (List.mem_cons_of_mem _ hm)) c hc

end Refine
end Kanal

#print axioms Kanal.Refine.seg_sim_raw
#print axioms Kanal.Refine.code_refines_spec_raw
#print axioms Kanal.Refine.code_waitList_ok_raw
