/-
  Kanal.Refine.Step — one-step simulation: an enabled segment, run on a code state that is `core`-equal to a reachable
  model state, does what `Spec.step` does for the segment's label.
-/
import Kanal.Refine.Seg
import Kanal.Lemmas.All

namespace Kanal
namespace Refine
open Bridge State

/-! ### what reachable states give -/

theorem reach_struct' {s : State} (hr : Reach .good s) : Struct' s := struct'_reach .good rfl s hr

theorem reach_str {s : State} (hr : Reach .good s) : Struct s := (reach_struct' hr).base

/-- A finished future holds no value: for a send future this is `SendDone` (`Lemmas/Ledger`), for a receive future it
    follows from `SigOK.recvHolds`; a sync / timed waiter never has `fut = .done` (`SigOK.syncFut`). -/
theorem done_empty {s : State} (hr : Reach .good s) {i : Nat} {g : Sig} (hg : s.sigs[i]? = some g)
    (hd : g.fut = .done) : g.slot = none := by
  have hok := (reach_str hr).sigOK i g hg
  cases hrole : g.role
  · exact (reach_ledger s hr).1 i g hg hrole hd
  · cases hs : g.slot with
    | none => rfl
    | some m =>
      exfalso
      have h3 := (hok.recvHolds hrole (by simp [hs])).2.2
      by_cases hk : g.kind = .async
      · have := h3 hk; rw [hd] at this; cases this
      · have := hok.syncFut hk; rw [hd] at this; cases this

/-- In a reachable model state `forget` has nothing to forget. -/
theorem forget_self {s : State} (hr : Reach .good s) (i : SigId) : forget s i = s := by
  rw [forget_eq]
  unfold modSig
  cases hg : s.sigs[i]? with
  | none => rfl
  | some g =>
    simp only []
    have : fs g = g := by
      unfold fs
      split
      · rename_i hd
        have := done_empty hr hg hd
        cases g; simp_all
      · rfl
    rw [this]; exact setSig_self hg

/-- a listed waiter, as its record says -/
theorem listed_rec {s : State} (hs : Struct s) {i : Nat} {g : Sig} (hg : s.sigs[i]? = some g)
    (hi : i ∈ s.chan.waitList) : Listed s.chan g := by
  obtain ⟨g', hg', hl⟩ := hs.listed i hi
  rw [hg] at hg'; cases hg'; exact hl

theorem sigExists_of_listed {s : State} (hs : Struct s) {i : Nat} {g : Sig} (hg : s.sigs[i]? = some g)
    (hi : i ∈ s.chan.waitList) : s.chan.sigExists g.role i = true := by
  have hl := listed_rec hs hg hi
  have hr := hl.role
  unfold Chan.sigExists
  unfold Chan.listRole at hr
  cases hb : s.chan.recvBlocking <;> simp [hb] at hr <;> simp [hr, hi]

/-- an alive, pending, unclaimed future that has registered is in the wait list -/
theorem sigExists_of_unclaimed {s : State} (hs : Struct s) {i : Nat} {g : Sig} (hg : s.sigs[i]? = some g)
    (ha : g.alive = true) (hp : g.st = .pending) (hc : g.claimed = false) (hf : g.fut = .waiting) :
    s.chan.sigExists g.role i = true :=
  sigExists_of_listed hs hg (hs.unlisted i g hg ha hp hc (fun _ => hf))

/-! ### `Spec.step` answers `.spin` to a poll only inside the hand-off window, with another waker -/

theorem pollSend_not_spin {s s' : State} (hs : Struct s) {f w : Nat} {g : Sig} (hg : s.sigs[f]? = some g)
    (hx : g.claimed = true → g.waker = some w) : step .good s (.pollSend f w) ≠ some (s', .spin) := by
  intro h
  have hex := fun ha hp hc hf => sigExists_of_unclaimed hs hg ha hp hc hf
  rcases g with ⟨role, kind, gopt, st, slot, orig, waker, fut, isStream, streamEnded, alive, claimed⟩
  simp only [step, hg] at h
  simp only at hx hex
  split at h
  · cases h
  rename_i hen
  simp only [not_or, Bool.not_eq_true', Decidable.not_not] at hen
  obtain ⟨ha, hk, hr⟩ := hen
  simp at ha
  subst ha hr
  cases fut
  · cases slot
    · cases h
    · rename_i m
      simp only at h
      rcases hp : s.chan.sendPre m with ⟨c1, b⟩
      rw [hp] at h
      cases b <;> simp at h
  · cases st
    · simp only [Variant.good] at h
      split at h
      · simp at h
      · rename_i hw
        split at h
        · simp at h
        · rename_i hne
          cases claimed
          · exact hne (hex rfl rfl rfl rfl)
          · exact hw (hx rfl)
    · simp at h
    · cases slot <;> simp at h
  · simp at h

theorem pollRecv_not_spin {s s' : State} (hs : Struct s) {f w : Nat} {g : Sig} (hg : s.sigs[f]? = some g)
    (hx : g.claimed = true → g.waker = some w) : step .good s (.pollRecv f w) ≠ some (s', .spin) := by
  intro h
  have hex := fun ha hp hc hf => sigExists_of_unclaimed hs hg ha hp hc hf
  rcases g with ⟨role, kind, gopt, st, slot, orig, waker, fut, isStream, streamEnded, alive, claimed⟩
  simp only [step, hg] at h
  simp only at hx hex
  split at h
  · cases h
  rename_i hen
  simp only [not_or, Bool.not_eq_true', Decidable.not_not] at hen
  obtain ⟨ha, hk, hr⟩ := hen
  simp at ha
  subst ha hr
  split at h
  · simp at h
  cases fut
  · simp only [rearm] at h
    rcases hp : recvStep s false false with ⟨s1, b⟩
    rw [hp] at h
    cases b <;> simp [recvRes] at h <;> (try split at h) <;> simp at h
  · simp only [rearm] at h
    cases st
    · simp only at h
      split at h
      · simp at h
      · rename_i hw
        split at h
        · simp at h
        · rename_i hne
          cases claimed
          · exact hne (hex rfl rfl rfl rfl)
          · exact hw (hx rfl)
    · cases slot <;> simp at h <;> (try split at h) <;> (try simp at h)
    · simp at h <;> (try split at h) <;> (try simp at h)
  · simp only [rearm, Variant.good] at h
    cases isStream
    · simp at h
    · simp only [if_true] at h
      rcases hp : recvStep s false false with ⟨s1, b⟩
      rw [hp] at h
      cases b <;> simp [recvRes] at h

/-! ### the segments, run on the model state itself -/

/-- what `seg_sim` says, with the code state = the model state -/
def SimSelf (d : Seg) (s : State) : Prop :=
  ∃ s' r, specSeg d s = some (s', r) ∧ core (codeStep d s).1 = core s' ∧ (codeStep d s).2 = some r

theorem sim_trySend {s : State} {x opt rt} (he : Enabled (.callTrySend x opt rt) s) : SimSelf (.callTrySend x opt rt) s := by
  obtain ⟨hl, hf⟩ := he
  obtain ⟨s', r, h1, h2, h3⟩ := trySend_bridge .good s x opt rt hl hf
  exact ⟨s', r, h1, h3, by simp only [codeStep, single, h2, ofOut]⟩

theorem sim_tryRecv {s : State} {rt} (he : Enabled (.callTryRecv rt) s) : SimSelf (.callTryRecv rt) s := by
  obtain ⟨s', r, h1, h2, h3⟩ := tryRecv_bridge .good s rt he
  exact ⟨s', r, h1, h3, by simp only [codeStep, single, h2, ofOut]⟩

theorem sim_drain {s : State} (hr : Reach .good s) {x} (he : Enabled (.callDrain x) s) : SimSelf (.callDrain x) s := by
  rcases drain_bridge .good s x he (reach_str hr).nodup with ⟨s', n, ms, h1, h2, h3, h4⟩ | ⟨h1, h2, h3, h4⟩
  · refine ⟨s', .drained n ms, h1, h4, ?_⟩
    simp only [codeStep]
    rw [show (Bridge.run (Fine.drain x) false s []).2 = (ms, .ret (.num n)) from Prod.ext h3 h2]
    rfl
  · refine ⟨s, .err .closed, h1, h4, ?_⟩
    simp only [codeStep]
    rw [show (Bridge.run (Fine.drain x) false s []).2 = ([], .ret (.err .closed)) from Prod.ext h3 h2]
    rfl

theorem sim_close {s : State} (he : Enabled .callClose s) : SimSelf .callClose s := by
  obtain ⟨s', r, h1, h2, h3⟩ := close_bridge .good s he
  exact ⟨s', r, h1, h3, by simp only [codeStep, single, h2, ofOut]⟩

theorem sim_clone {s : State} {side} (he : Enabled (.callClone side) s) : SimSelf (.callClone side) s := by
  obtain ⟨s', h1, h2, h3⟩ := clone_bridge .good s side (by cases side <;> exact he)
  exact ⟨s', .unit, h1, h3, by simp only [codeStep, single, h2, ofOut]⟩

theorem dropHandle_enabled {s : State} {side : Side} (h1 : live s side ≠ 0)
    (h2 : ¬ (live s side = 1 ∧ s.aliveSigs side ≠ 0)) : ∃ p, step .good s (.dropHandle side) = some p := by
  cases hstep : step .good s (.dropHandle side) with
  | some p => exact ⟨p, rfl⟩
  | none =>
    exfalso
    cases side <;> simp only [live] at h1 h2 <;> simp only [step] at hstep <;>
      rw [if_neg (by intro h; rcases h with h | h; exact h1 h; exact h2 h)] at hstep <;>
      (split at hstep <;> cases hstep)

theorem sim_dropHandle {s : State} {side} (he : Enabled (.callDropHandle side) s) : SimSelf (.callDropHandle side) s := by
  obtain ⟨h1, h2, h3⟩ := he
  obtain ⟨⟨s', r⟩, hp⟩ := dropHandle_enabled h1 h2
  obtain ⟨h4, h5⟩ := dropHandle_bridge .good s s' side r hp h3
  exact ⟨s', r, hp, h5, by simp only [codeStep, single, h4, ofOut]⟩

theorem sim_of_observes {s : State} {o : Obs} (h : Observes .good s o.label o.fn) : SimSelf (.callObserve o) s :=
  ⟨s, o.fn s.chan, h.1, by simp only [codeStep, single, h.2], by simp only [codeStep, single, h.2, ofOut]⟩

theorem sim_observe {s : State} {o} (he : Enabled (.callObserve o) s) : SimSelf (.callObserve o) s := by
  apply sim_of_observes
  cases o with
  | len => exact observe_len .good s he
  | isEmpty => exact observe_isEmpty .good s he
  | isFull => exact observe_isFull .good s he
  | capacity => exact observe_capacity .good s he
  | isBounded => exact observe_isBounded .good s he
  | senderCount => exact observe_senderCount .good s he
  | receiverCount => exact observe_receiverCount .good s he
  | isClosed => exact observe_isClosed .good s he
  | isDisconnected side =>
    cases side
    · exact observe_isDisconnectedS .good s he
    · exact observe_isDisconnectedR .good s he
  | isTerminated => exact observe_isTerminated .good s he

/-- `to_sync` / `to_async` / `as_sync` / `as_async` reinterpret the handle; no code touches the shared state, and
    `Spec.step (.convert side)` is the identity on the state. -/
theorem sim_convert {s : State} {side} (he : Enabled (.callConvert side) s) : SimSelf (.callConvert side) s := by
  refine ⟨s, .unit, ?_, rfl, rfl⟩
  cases side <;> simp only [Enabled, live] at he <;> simp [specSeg, Seg.labels, step, he]

theorem sim_startSend {s : State} {e} (he : Enabled (.startSend e) s) : SimSelf (.startSend e) s := by
  obtain ⟨hk, hl, hf, hme⟩ := he
  obtain ⟨s', r, h1, h2, h3⟩ := send_first_bridge e s hk hl hf hme
  refine ⟨s', r, h1, h2, ?_⟩
  rcases h3 with ⟨rfl, h4⟩ | ⟨_, h4⟩ <;> simp only [codeStep, h4, ofOut2]

theorem sim_startRecv {s : State} {e} (he : Enabled (.startRecv e) s) : SimSelf (.startRecv e) s := by
  obtain ⟨hk, hl, hme⟩ := he
  obtain ⟨s', r, h1, h2, h3⟩ := recv_first_bridge e s hk hl hme
  refine ⟨s', r, h1, h2, ?_⟩
  rcases h3 with ⟨rfl, h4⟩ | ⟨_, h4⟩ <;> simp only [codeStep, h4, ofOut2]

/-- `SigOK.recvReady` for a sync / timed receive waiter: its signal says `ok` only when the value is there -/
theorem recv_ready {s : State} (hr : Reach .good s) {i : Nat} {g : Sig} (hg : s.sigs[i]? = some g)
    (ha : g.alive = true) (hk : g.kind ≠ .async) (hrole : g.role = .recv) : g.st = .ok → g.slot.isSome = true :=
  fun hst => ((reach_str hr).sigOK i g hg).recvReady hrole hst ha (fun h => absurd h hk)

theorem sim_resume {s : State} (hr : Reach .good s) {e late} (he : Enabled (.resumeWaiter e late) s) :
    SimSelf (.resumeWaiter e late) s := by
  obtain ⟨g, hg, ha, hk, hst, -⟩ := he
  unfold SimSelf
  simp only [codeStep, hg]
  cases hrole : g.role
  · cases late
    · obtain ⟨s', r, h1, h2, h3⟩ := complete_send_bridge e g.opt s g hg ha hk hst hrole
      simp only [contOf, hrole, Bool.false_eq_true, if_false]
      exact ⟨s', r, h1, h3, by rw [h2]; rfl⟩
    · obtain ⟨s', r, h1, h2, h3⟩ := complete_send_bridge2 e g.opt s g hg ha hk hst hrole
      simp only [contOf, hrole, if_true]
      exact ⟨s', r, h1, h3, by rw [h2]; rfl⟩
  · have hslot := recv_ready hr hg ha hk hrole
    cases late
    · obtain ⟨s', r, h1, h2, h3⟩ := complete_recv_bridge e s g hg ha hk hst hrole hslot
      simp only [contOf, hrole, Bool.false_eq_true, if_false]
      exact ⟨s', r, h1, h3, by rw [h2]; rfl⟩
    · obtain ⟨s', r, h1, h2, h3⟩ := complete_recv_bridge2 e s g hg ha hk hst hrole hslot
      simp only [contOf, hrole, if_true]
      exact ⟨s', r, h1, h3, by rw [h2]; rfl⟩

/-- a resumed waiter whose signal is final returns (it does not suspend again) -/
theorem resume_ret {s : State} (hr : Reach .good s) {e late} (he : Enabled (.resumeWaiter e late) s) {a : Sig}
    (ha : s.sigs[e.x.me]? = some a) : ∃ r, (resume e (contOf a late e.x) (a.st == .ok) s).2 = .ret r := by
  obtain ⟨g, hg, hal, hk, hst, -⟩ := he
  rw [ha] at hg; cases hg
  cases hrole : a.role
  · cases late
    · obtain ⟨s', r, h1, h2, h3⟩ := complete_send_bridge e a.opt s a ha hal hk hst hrole
      simp only [contOf, hrole, Bool.false_eq_true, if_false]
      exact ⟨r, h2⟩
    · obtain ⟨s', r, h1, h2, h3⟩ := complete_send_bridge2 e a.opt s a ha hal hk hst hrole
      simp only [contOf, hrole, if_true]
      exact ⟨r, h2⟩
  · have hslot := recv_ready hr ha hal hk hrole
    cases late
    · obtain ⟨s', r, h1, h2, h3⟩ := complete_recv_bridge e s a ha hal hk hst hrole hslot
      simp only [contOf, hrole, Bool.false_eq_true, if_false]
      exact ⟨r, h2⟩
    · obtain ⟨s', r, h1, h2, h3⟩ := complete_recv_bridge2 e s a ha hal hk hst hrole hslot
      simp only [contOf, hrole, if_true]
      exact ⟨r, h2⟩

/-- a waiter whose signal is final is not in the wait list (`Listed.pending`) -/
theorem final_not_listed {s : State} (hr : Reach .good s) {i : Nat} {g : Sig} (hg : s.sigs[i]? = some g)
    (hst : g.st ≠ .pending) : i ∉ s.chan.waitList :=
  fun hi => hst (listed_rec (reach_str hr) hg hi).pending

theorem sim_expire {s : State} (hr : Reach .good s) {e} (he : Enabled (.expireWaiter e) s) :
    SimSelf (.expireWaiter e) s := by
  obtain ⟨g, hg, ha, hk⟩ := he
  unfold SimSelf
  simp only [codeStep, specSeg, Seg.labels, hg]
  cases hrole : g.role
  · simp only [timedContOf, hrole]
    cases hst : g.st
    · obtain ⟨s', r, h1, h2, h3⟩ := expire_send_bridge e g.opt s g hg ha hk hst hrole
      refine ⟨s', r, h1, h2, ?_⟩
      rcases h3 with ⟨rfl, h4⟩ | ⟨_, h4⟩ <;> simp only [h4, ofOut2]
    · have hne : g.st ≠ .pending := by rw [hst]; simp
      rcases timed_final_send_bridge e g.opt s g hg ha hk hne hrole (fun _ => final_not_listed hr hg hne) with
        ⟨_, h2, h3⟩ | ⟨h1, _⟩
      · exact ⟨s, .blocked e.x.me, rfl, h3, by simp only [h2, ofOut2]⟩
      · rw [hst] at h1; cases h1
    · have hne : g.st ≠ .pending := by rw [hst]; simp
      rcases timed_final_send_bridge e g.opt s g hg ha hk hne hrole (fun _ => final_not_listed hr hg hne) with
        ⟨h1, _⟩ | ⟨_, s', r, h1, h2, h3⟩
      · rw [hst] at h1; cases h1
      · exact ⟨s', r, h1, h3, by simp only [h2, ofOut2]⟩
  · simp only [timedContOf, hrole]
    cases hst : g.st
    · obtain ⟨s', r, h1, h2, h3⟩ := expire_recv_bridge e s g hg ha hk hst hrole
      refine ⟨s', r, h1, h2, ?_⟩
      rcases h3 with ⟨rfl, h4⟩ | ⟨_, h4⟩ <;> simp only [h4, ofOut2]
    · have hne : g.st ≠ .pending := by rw [hst]; simp
      rcases timed_final_recv_bridge e s g hg ha hk hne hrole (fun _ => final_not_listed hr hg hne) with
        ⟨_, h2, h3⟩ | ⟨h1, _⟩
      · exact ⟨s, .blocked e.x.me, rfl, h3, by simp only [h2, ofOut2]⟩
      · rw [hst] at h1; cases h1
    · have hne : g.st ≠ .pending := by rw [hst]; simp
      rcases timed_final_recv_bridge e s g hg ha hk hne hrole (fun _ => final_not_listed hr hg hne) with
        ⟨h1, _⟩ | ⟨_, s', r, h1, h2, h3⟩
      · rw [hst] at h1; cases h1
      · exact ⟨s', r, h1, h3, by simp only [h2, ofOut2]⟩

/-- The missing small bridge for `.finalize i`: the model's step is, on `core`, the code's final store. -/
theorem sim_storeFinal {s : State} {i} (he : Enabled (.storeFinal i) s) : SimSelf (.storeFinal i) s := by
  obtain ⟨g, hg, hc, hp⟩ := he
  refine ⟨(s.setSig i { g with claimed := false }).finalize i .ok, .unit, ?_, ?_, rfl⟩
  · simp [specSeg, Seg.labels, step, hg, hc, hp]
  · simp only [codeStep, storeFinal, modSig_of hg]

/-- The missing small bridge for `.newSendFut m`: the future's waiter record is allocated, nothing else of `core` changes. -/
theorem sim_newSendFut {s : State} {m} (he : Enabled (.newSendFut m) s) : SimSelf (.newSendFut m) s := by
  obtain ⟨hl, hf⟩ := he
  unfold SimSelf
  simp only [specSeg, Seg.labels, step, hl, hf, codeStep, State.newSig]
  rw [if_neg (by simp)]
  refine ⟨_, _, rfl, ?_, rfl⟩
  simp [core, State.setCust]

/-- The missing small bridge for `.newRecvFut stream`. -/
theorem sim_newRecvFut {s : State} {st} (he : Enabled (.newRecvFut st) s) : SimSelf (.newRecvFut st) s := by
  unfold SimSelf
  simp only [Enabled] at he
  simp only [specSeg, Seg.labels, step, he, codeStep, State.newSig]
  refine ⟨_, _, rfl, ?_, rfl⟩
  simp [core]


/-- a future that has not registered (or has finished) is not in the wait list (`Listed.fut`) -/
theorem unregistered_not_listed {s : State} (hr : Reach .good s) {i : Nat} {g : Sig} (hg : s.sigs[i]? = some g)
    (hk : g.kind = .async) (hf : g.fut ≠ .waiting) : i ∉ s.chan.waitList :=
  fun hi => hf ((listed_rec (reach_str hr) hg hi).fut hk).1

/-- `SigOK.recvReady` for a registered receive future -/
theorem recv_ready_fut {s : State} (hr : Reach .good s) {i : Nat} {g : Sig} (hg : s.sigs[i]? = some g)
    (ha : g.alive = true) (hrole : g.role = .recv) : g.fut = .waiting → g.st = .ok → g.slot.isSome = true :=
  fun hf hst => ((reach_str hr).sigOK i g hg).recvReady hrole hst ha (fun _ => hf)

theorem sim_pollSend {s : State} (hr : Reach .good s) {e} (he : Enabled (.pollSend e) s) : SimSelf (.pollSend e) s := by
  obtain ⟨g, hg, ha, hk, hrole, hst, hm, hx⟩ := he
  obtain ⟨s', r, h1, h2⟩ := pollSend_bridge e s g hg ha hk hrole hst hm
  rcases h2 with ⟨rfl, _⟩ | ⟨_, h3, h4⟩
  · exact absurd h1 (pollSend_not_spin (reach_str hr) hg hx)
  · have hr' : Reach .good s' := Reach.step hr h1
    rw [forget_self hr'] at h4
    exact ⟨s', r, h1, h4, by simp only [codeStep, h3, ofOut2]⟩

theorem sim_pollRecv {s : State} (hr : Reach .good s) {e} (he : Enabled (.pollRecv e) s) : SimSelf (.pollRecv e) s := by
  obtain ⟨g, hg, ha, hk, hrole, hst, his, hns, hx⟩ := he
  obtain ⟨s', r, h1, h2⟩ := pollRecv_bridge e s g hg ha hk hrole hst his hns
    (fun hz => unregistered_not_listed hr hg hk (by rw [hz]; simp)) (recv_ready_fut hr hg ha hrole)
  rcases h2 with ⟨rfl, _⟩ | ⟨_, h3, h4⟩
  · exact absurd h1 (pollRecv_not_spin (reach_str hr) hg hx)
  · have hr' : Reach .good s' := Reach.step hr h1
    rw [forget_self hr'] at h4
    exact ⟨s', r, h1, h4, by simp only [codeStep, h3, ofOut2]⟩

theorem sim_pollNext {s : State} (hr : Reach .good s) {e} (he : Enabled (.pollNext e) s) : SimSelf (.pollNext e) s := by
  obtain ⟨g, hg, ha, hk, hrole, hst, his, hgs, hte, hx⟩ := he
  obtain ⟨s', r, h1, h2⟩ := pollNext_tree_bridge e s g hg ha hk hrole hst his hgs hte
    (fun hz => unregistered_not_listed hr hg hk hz) (recv_ready_fut hr hg ha hrole)
  rcases h2 with ⟨rfl, _⟩ | ⟨_, h3, h4⟩
  · exact absurd h1 (pollRecv_not_spin (reach_str hr) hg hx)
  · have hr' : Reach .good s' := Reach.step hr h1
    rw [forget_self hr'] at h4
    exact ⟨s', r, h1, h4, by simp only [codeStep, h3, ofOut2]⟩

theorem sim_dropSendFut {s : State} {e} (he : Enabled (.dropSendFut e) s) : SimSelf (.dropSendFut e) s := by
  obtain ⟨g, hg, ha, hk, hrole, hst⟩ := he
  obtain ⟨s', r, h1, h2, h3⟩ := dropSendFut_bridge e s g hg ha hk hrole hst
  refine ⟨s', r, h1, h2, ?_⟩
  rcases h3 with ⟨rfl, h4⟩ | ⟨_, h4⟩ <;> simp only [codeStep, h4, ofOut2]

theorem sim_dropRecvFut {s : State} {e} (he : Enabled (.dropRecvFut e) s) : SimSelf (.dropRecvFut e) s := by
  obtain ⟨g, hg, ha, hk, hrole, hst⟩ := he
  obtain ⟨s', r, h1, h2, h3⟩ := dropRecvFut_bridge e s g hg ha hk hrole hst
  refine ⟨s', r, h1, h2, ?_⟩
  rcases h3 with ⟨rfl, h4⟩ | ⟨_, h4⟩ <;> simp only [codeStep, h4, ofOut2]

theorem sim_self {s : State} (hr : Reach .good s) (d : Seg) (he : Enabled d s) : SimSelf d s := by
  cases d with
  | callTrySend x opt rt => exact sim_trySend he
  | callTryRecv rt => exact sim_tryRecv he
  | callDrain x => exact sim_drain hr he
  | callClose => exact sim_close he
  | callClone side => exact sim_clone he
  | callDropHandle side => exact sim_dropHandle he
  | callObserve o => exact sim_observe he
  | callConvert side => exact sim_convert he
  | startSend e => exact sim_startSend he
  | startRecv e => exact sim_startRecv he
  | resumeWaiter e late => exact sim_resume hr he
  | expireWaiter e => exact sim_expire hr he
  | storeFinal i => exact sim_storeFinal he
  | newSendFut m => exact sim_newSendFut he
  | newRecvFut st => exact sim_newRecvFut he
  | pollSend e => exact sim_pollSend hr he
  | pollRecv e => exact sim_pollRecv hr he
  | pollNext e => exact sim_pollNext hr he
  | dropSendFut e => exact sim_dropSendFut he
  | dropRecvFut e => exact sim_dropRecvFut he

/-- TASK item 5, **one-step simulation**.  `s` a reachable state of the model, `g` any code state with the same `core`,
    `d` a segment enabled in `s`: the model has a step for the label of `d` (for the one label-less segment: stays), and
    the code, run through `d` from `g`, ends `core`-equal to the model's next state with the same result
    (a call that waits: both say `.blocked me`; a drop that busy-waits in the hand-off window: both say `.spin`). -/
theorem seg_sim {s g : State} (hr : Reach .good s) (hc : core g = core s) (d : Seg) (he : Enabled d s) :
    ∃ s' r, specSeg d s = some (s', r) ∧ core (codeStep d g).1 = core s' ∧ (codeStep d g).2 = some r := by
  obtain ⟨s', r, h1, h2, h3⟩ := sim_self hr d he
  obtain ⟨c1, c2⟩ := codeStep_congr d hc
  exact ⟨s', r, h1, c1.trans h2, c2.trans h3⟩

/-- the model's side of a segment stays among the reachable states -/
theorem specSeg_reach {s s' : State} {r : Res} (hr : Reach .good s) {d : Seg} (h : specSeg d s = some (s', r)) :
    Reach .good s' := by
  unfold specSeg at h
  split at h
  · cases h; exact hr
  · exact Reach.step hr h
  · cases h

end Refine
end Kanal

#print axioms Kanal.Refine.seg_sim
