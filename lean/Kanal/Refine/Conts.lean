/-
  Kanal.Refine.Conts — the continuation a blocked call is resumed with (`contOf` / `timedContOf` of its waiter record) is
  the continuation the segment that suspended it handed back.
-/
import Kanal.Refine.Step

namespace Kanal
namespace Refine
open Bridge State

theorem step_send_blocked {s s' : State} {m : Msg} {kind : Kind} {opt : Bool} {i : SigId}
    (h : step .good s (.send m kind opt) = some (s', .blocked i)) :
    s'.sigs[i]? = some { role := .send, kind := kind, opt := opt, slot := some m, orig := some m } := by
  simp only [step] at h
  split at h
  · cases h
  simp only [sendStep, Option.some.injEq] at h
  rcases hp : s.chan.sendPre m with ⟨c1, b⟩
  rw [hp] at h
  cases b <;> simp [State.newSig, State.setCust] at h
  obtain ⟨rfl, rfl⟩ := h
  simp

theorem step_recv_blocked {s s' : State} {kind : Kind} {ex : Bool} {i : SigId}
    (h : step .good s (.recv kind ex) = some (s', .blocked i)) :
    s'.sigs[i]? = some { role := .recv, kind := kind } := by
  simp only [step] at h
  split at h
  · cases h
  rcases hp : recvStep s (kind == .timed) ex with ⟨s1, b⟩
  rw [hp] at h
  cases b <;> simp [recvRes, State.newSig] at h
  obtain ⟨rfl, rfl⟩ := h
  simp

theorem step_expire_blocked {s s' : State} {i j : SigId}
    (h : step .good s (.expire i) = some (s', .blocked j)) : s' = s := by
  simp only [step] at h
  split at h
  · cases h
  split at h
  · cases h
  split at h
  · simp at h; exact h.1.symm
  · rename_i g _ _ _ _
    split at h
    · split at h <;> (try split at h) <;> simp at h
    · simp at h

/-- `startSend` suspends with the continuation `contOf` computes from the waiter record it has just created. -/
theorem startSend_cont {s g : State} (hc : core g = core s) {e : Env} (he : Enabled (.startSend e) s) {k : Bool → Act}
    (h : (run2 e (Fine.send (e.kind == .timed) e.opt e.x) false g).2 = .blocked k) :
    ∃ a, a = { role := .send, kind := e.kind, opt := e.opt, slot := some e.x.m, orig := some e.x.m } ∧
      (codeStep (.startSend e) g).1.sigs[e.x.me]? = some a ∧ k = contOf a false e.x := by
  obtain ⟨hk, hl, hf, hme⟩ := he
  obtain ⟨c1, c2⟩ := run2_congr e (Fine.send (e.kind == .timed) e.opt e.x) false hc
  obtain ⟨s', r, h1, h2, h3⟩ := send_first_bridge e s hk hl hf hme
  rw [c2] at h
  rcases h3 with ⟨rfl, h4⟩ | ⟨_, h4⟩
  · rw [h4] at h
    have hrec := step_send_blocked h1
    refine ⟨{ role := .send, kind := e.kind, opt := e.opt, slot := some e.x.m, orig := some e.x.m }, rfl, ?_, ?_⟩
    · simp only [codeStep]; rw [core_sigs (c1.trans h2)]; exact hrec
    · simp only [Out2.blocked.injEq] at h; rw [← h]; rfl
  · rw [h4] at h; cases h

/-- likewise `startRecv` -/
theorem startRecv_cont {s g : State} (hc : core g = core s) {e : Env} (he : Enabled (.startRecv e) s) {k : Bool → Act}
    (h : (run2 e (Fine.recv (e.kind == .timed) e.x) false g).2 = .blocked k) :
    ∃ a, a = { role := .recv, kind := e.kind } ∧
      (codeStep (.startRecv e) g).1.sigs[e.x.me]? = some a ∧ k = contOf a false e.x := by
  obtain ⟨hk, hl, hme⟩ := he
  obtain ⟨c1, c2⟩ := run2_congr e (Fine.recv (e.kind == .timed) e.x) false hc
  obtain ⟨s', r, h1, h2, h3⟩ := recv_first_bridge e s hk hl hme
  rw [c2] at h
  rcases h3 with ⟨rfl, h4⟩ | ⟨_, h4⟩
  · rw [h4] at h
    have hrec := step_recv_blocked h1
    refine ⟨{ role := .recv, kind := e.kind }, rfl, ?_, ?_⟩
    · simp only [codeStep]; rw [core_sigs (c1.trans h2)]; exact hrec
    · simp only [Out2.blocked.injEq] at h; rw [← h]; rfl
  · rw [h4] at h; cases h

/-- A timed waiter whose `wait_timeout` gives up and that suspends again (its cancel found the signal claimed, or the
    signal is already `ok`) does so with the `late` continuation of its — unchanged — waiter record. -/
theorem expire_cont {s g : State} (hr : Reach .good s) (hc : core g = core s) {e : Env}
    (he : Enabled (.expireWaiter e) s) {a : Sig} (ha : g.sigs[e.x.me]? = some a) {k : Bool → Act}
    (h : (resume e (timedContOf a e.x) false g).2 = .blocked k) :
    (codeStep (.expireWaiter e) g).1.sigs[e.x.me]? = some a ∧ k = contOf a true e.x := by
  obtain ⟨g0, hg, hal, hk⟩ := he
  have hag : a = g0 := by rw [core_sigs hc, hg] at ha; cases ha; rfl
  subst hag
  obtain ⟨c1, c2⟩ := resume_congr e (timedContOf a e.x) false hc
  rw [c2] at h
  have hfin : ∀ hne : a.st ≠ .pending, e.x.me ∉ s.chan.waitList := fun hne => final_not_listed hr hg hne
  have key : core (resume e (timedContOf a e.x) false s).1 = core s ∧ k = contOf a true e.x := by
    cases hrole : a.role
    · simp only [timedContOf, hrole] at h ⊢
      simp only [contOf, hrole, if_true]
      by_cases hst : a.st = .pending
      · obtain ⟨s', r, h1, h2, h3⟩ := expire_send_bridge e a.opt s a hg hal hk hst hrole
        rcases h3 with ⟨rfl, h4⟩ | ⟨rfl, h4⟩
        · rw [h4] at h; simp only [Out2.blocked.injEq] at h
          exact ⟨by rw [h2, step_expire_blocked h1], h.symm⟩
        · rw [h4] at h; cases h
      · rcases timed_final_send_bridge e a.opt s a hg hal hk hst hrole (fun _ => hfin hst) with
          ⟨_, h2, h3⟩ | ⟨_, s', r, _, h2, _⟩
        · rw [h2] at h; simp only [Out2.blocked.injEq] at h; exact ⟨h3, h.symm⟩
        · rw [h2] at h; cases h
    · simp only [timedContOf, hrole] at h ⊢
      simp only [contOf, hrole, if_true]
      by_cases hst : a.st = .pending
      · obtain ⟨s', r, h1, h2, h3⟩ := expire_recv_bridge e s a hg hal hk hst hrole
        rcases h3 with ⟨rfl, h4⟩ | ⟨rfl, h4⟩
        · rw [h4] at h; simp only [Out2.blocked.injEq] at h
          exact ⟨by rw [h2, step_expire_blocked h1], h.symm⟩
        · rw [h4] at h; cases h
      · rcases timed_final_recv_bridge e s a hg hal hk hst hrole (fun _ => hfin hst) with
          ⟨_, h2, h3⟩ | ⟨_, s', r, _, h2, _⟩
        · rw [h2] at h; simp only [Out2.blocked.injEq] at h; exact ⟨h3, h.symm⟩
        · rw [h2] at h; cases h
  refine ⟨?_, key.2⟩
  simp only [codeStep, ha]
  rw [core_sigs (c1.trans key.1)]; exact hg

end Refine
end Kanal

#print axioms Kanal.Refine.startSend_cont
#print axioms Kanal.Refine.startRecv_cont
#print axioms Kanal.Refine.expire_cont
