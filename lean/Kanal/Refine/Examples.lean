/-
  Kanal.Refine.Examples — non-vacuity: concrete segment lists that are `EnabledAlong` from a fresh channel, and what the code
  computes on them.
-/
import Kanal.Refine.Raw
import Kanal.Refine.Mach

namespace Kanal
namespace Refine
open Bridge State

/-- the model state after segment `d` (stays put if the label is not enabled) -/
def nxt (d : Seg) (s : State) : State := ((specSeg d s).getD (s, .unit)).1

theorem enabledAlong_cons {d : Seg} {ds : List Seg} {s : State} (h1 : Enabled d s) (h3 : EnabledAlong ds (nxt d s)) :
    EnabledAlong (d :: ds) s := by
  refine ⟨h1, fun p hp => ?_⟩
  have : nxt d s = p.1 := by simp [nxt, hp]
  rw [← this]; exact h3

namespace Ex

/-! #### 1. a rendezvous hand-off: `send(5)` blocks, `try_recv` takes the value (hand-off window), the receiver stores the
    final state, the sender resumes -/

def eS : Env := { x := { m := 5, me := 0 } }
def ds1 : List Seg := [.startSend eS, .callTryRecv false, .storeFinal 0, .resumeWaiter eS false, .callObserve .len]
def s0 : State := State.init (some 0)

theorem en1 : EnabledAlong ds1 s0 :=
  enabledAlong_cons ⟨by decide, by decide, by decide, by decide⟩ <|
  enabledAlong_cons (show _ ≠ _ by decide) <|
  enabledAlong_cons ⟨_, rfl, by decide, by decide⟩ <|
  enabledAlong_cons ⟨_, rfl, by decide, by decide, by decide, by decide⟩ <|
  enabledAlong_cons (show _ ≠ _ by decide) trivial

example := code_refines_spec (some 0) ds1 en1
example := code_refines_spec_raw (some 0) ds1 en1
example : (codeTrace ds1 s0).map (·.2) =
    [some (.blocked 0), some (.val 5), some .unit, some .unit, some (.num 0)] := by decide
example : labelsAlong ds1 s0 = [.send 5 .sync false, .tryRecv false, .finalize 0, .complete 0, .len] := by decide
example : resultsAlong ds1 s0 = [.blocked 0, .val 5, .unit, .unit, .num 0] := by decide

/-! #### 2. a timed send whose deadline passes after the receiver took the value: the label-less segment -/

def eT : Env := { x := { m := 5, me := 0 }, kind := .timed }
def ds2 : List Seg := [.startSend eT, .callTryRecv false, .storeFinal 0, .expireWaiter eT, .resumeWaiter eT true]

theorem en2 : EnabledAlong ds2 s0 :=
  enabledAlong_cons ⟨by decide, by decide, by decide, by decide⟩ <|
  enabledAlong_cons (show _ ≠ _ by decide) <|
  enabledAlong_cons ⟨_, rfl, by decide, by decide⟩ <|
  enabledAlong_cons ⟨_, rfl, by decide, by decide⟩ <|
  enabledAlong_cons ⟨_, rfl, by decide, by decide, by decide, by decide⟩ trivial

example : (codeTrace ds2 s0).map (·.2) =
    [some (.blocked 0), some (.val 5), some .unit, some (.blocked 0), some .unit] := by decide
example : labelsAlong ds2 s0 = [.send 5 .timed false, .tryRecv false, .finalize 0, .complete 0] := by decide

/-! #### 3. futures: a send future registers, a stream takes its value, is polled again (re-arms, registers), the
    sender's poll completes; the finished send future keeps its bytes in the raw run -/

def eF (st : FutSt) : Env := { x := { m := 7, me := 0, st := st }, kind := .async, w := 3 }
def eR (st : FutSt) : Env := { x := { me := 1, st := st, isStream := true }, kind := .async, w := 4 }
def ds3 : List Seg :=
  [.newSendFut 7, .pollSend (eF .zero), .newRecvFut true, .pollNext (eR .zero), .storeFinal 0,
   .pollSend (eF .waiting), .pollNext (eR .done), .dropSendFut (eF .done)]

theorem en3 : EnabledAlong ds3 s0 :=
  enabledAlong_cons ⟨by decide, by decide⟩ <|
  enabledAlong_cons ⟨_, rfl, by decide, by decide, by decide, by decide, by decide, by decide⟩ <|
  enabledAlong_cons (show _ ≠ _ by decide) <|
  enabledAlong_cons ⟨_, rfl, by decide, by decide, by decide, by decide, by decide, by decide, by decide, by decide⟩ <|
  enabledAlong_cons ⟨_, rfl, by decide, by decide⟩ <|
  enabledAlong_cons ⟨_, rfl, by decide, by decide, by decide, by decide, by decide, by decide⟩ <|
  enabledAlong_cons ⟨_, rfl, by decide, by decide, by decide, by decide, by decide, by decide, by decide, by decide⟩ <|
  enabledAlong_cons ⟨_, rfl, by decide, by decide, by decide, by decide⟩ trivial

example : (codeTrace ds3 s0).map (·.2) =
    [some (.num 0), some .pending, some (.num 1), some (.val 7), some .unit, some .unit, some .pending, some .unit] := by
  decide
example : (codeTraceRaw ds3 s0).map (·.2) = (codeTrace ds3 s0).map (·.2) := by decide

/-! #### 4. the stale slot: a send future on a buffered channel completes at its first poll; the code leaves the bytes in
    the future (`codeStepRaw`), the model and `codeStep` empty the slot; nobody looks at it again -/

def s1 : State := State.init (some 1)
def ds4 : List Seg := [.newSendFut 7, .pollSend (eF .zero), .callTryRecv false, .pollSend (eF .done), .dropSendFut (eF .done)]

theorem en4 : EnabledAlong ds4 s1 :=
  enabledAlong_cons ⟨by decide, by decide⟩ <|
  enabledAlong_cons ⟨_, rfl, by decide, by decide, by decide, by decide, by decide, by decide⟩ <|
  enabledAlong_cons (show _ ≠ _ by decide) <|
  enabledAlong_cons ⟨_, rfl, by decide, by decide, by decide, by decide, by decide, by decide⟩ <|
  enabledAlong_cons ⟨_, rfl, by decide, by decide, by decide, by decide⟩ trivial

example : (codeTraceRaw ds4 s1).map (·.2) = [some (.num 0), some .unit, some (.val 7), some .panic, some .unit] := by decide
example : (codeTraceRaw ds4 s1).map (fun c => c.1.sigs.map (·.slot)) = [[some 7], [some 7], [some 7], [some 7], [none]] := by
  decide
example : (codeTrace ds4 s1).map (fun c => c.1.sigs.map (·.slot)) = [[some 7], [none], [none], [none], [none]] := by decide
example := code_refines_spec_raw (some 1) ds4 en4


/-! #### 5. the closed machine on examples 1 and 2: the continuation parked by `startSend` / `expireWaiter` is the one run -/

theorem menabledAlong_cons {d : Seg} {ds : List Seg} {c : Code} {s : State} (h1 : MEnabled d c s)
    (h3 : MEnabledAlong ds (machStep d c).1 (nxt d s)) : MEnabledAlong (d :: ds) c s := by
  refine ⟨h1, fun p hp => ?_⟩
  have : nxt d s = p.1 := by simp [nxt, hp]
  rw [← this]; exact h3

theorem men1 : MEnabledAlong ds1 (Code.init (some 0)) s0 :=
  menabledAlong_cons ⟨⟨by decide, by decide, by decide, by decide⟩, trivial⟩ <|
  menabledAlong_cons ⟨(show _ ≠ _ by decide), trivial⟩ <|
  menabledAlong_cons ⟨⟨_, rfl, by decide, by decide⟩, trivial⟩ <|
  menabledAlong_cons ⟨⟨_, rfl, by decide, by decide, by decide, by decide⟩, by decide⟩ <|
  menabledAlong_cons ⟨(show _ ≠ _ by decide), trivial⟩ trivial

example := mach_refines_spec (some 0) ds1 men1
example : (machTrace ds1 (Code.init (some 0))).map (·.2) =
    [some (.blocked 0), some (.val 5), some .unit, some .unit, some (.num 0)] := by decide

theorem men2 : MEnabledAlong ds2 (Code.init (some 0)) s0 :=
  menabledAlong_cons ⟨⟨by decide, by decide, by decide, by decide⟩, trivial⟩ <|
  menabledAlong_cons ⟨(show _ ≠ _ by decide), trivial⟩ <|
  menabledAlong_cons ⟨⟨_, rfl, by decide, by decide⟩, trivial⟩ <|
  menabledAlong_cons ⟨⟨_, rfl, by decide, by decide⟩, ⟨_, rfl, rfl⟩⟩ <|
  menabledAlong_cons ⟨⟨_, rfl, by decide, by decide, by decide, by decide⟩, by decide⟩ trivial

example := mach_refines_spec (some 0) ds2 men2
example : (machTrace ds2 (Code.init (some 0))).map (·.2) =
    [some (.blocked 0), some (.val 5), some .unit, some (.blocked 0), some .unit] := by decide

end Ex
end Refine
end Kanal
