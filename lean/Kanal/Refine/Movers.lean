/-
  Kanal.Refine.Movers — the post-unlock half of a hand-off (`deliverTo p m` / `claimFrom p`) commutes with every segment
  another call can run between the popper's critical section and that effect.

  * `Mv p sl g s`  — `g` is `s` after the peer effect on waiter `p` (`slot := sl`, `claimed := true`), up to ghost state.
  * `Good U a`     — syntactic discipline of a tree: every `q.send(m)` / `q.recv()` addresses a waiter in `U`, every
                     published `Chan` lists only waiters in `U`, given that every `Chan` it locks does.
  * `run2_mv`, `run_mv` — lockstep: a `Good U` tree run by a caller other than `p`, with `p ∉ U`, keeps `Mv` and answers
                     the same.
  * `good_*`       — every tree of `Kanal.Fine` is `Good` for `U` = the wait list (plus the caller's own signal).
  * `own_*`        — the segments of `p`'s OWNER (expiry, polls, drops) evaluated on any state where `p` is popped.
  * `seg_mover`    — the commutation for every segment; `deliverTo_mover`, `claimFrom_mover` in the form of the task.
  * `front`, `peer`, `back`, `split_eq` — the split of a hand-off segment.
  * `gap_mover`, `split_handoff` — executions.
-/
import Kanal.Refine.Raw

namespace Kanal
namespace Refine
open Bridge State

/-! ### the relation -/

/-- the peer effect on the popped waiter's record -/
def pe (sl : Option Msg) (a : Sig) : Sig := { a with slot := sl, claimed := true }

/-- `g` is `s` after the peer effect on waiter `p` (which exists), as far as `core` goes. -/
structure Mv (p : SigId) (sl : Option Msg) (g s : State) : Prop where
  chan  : g.chan = s.chan
  wakes : g.wakes = s.wakes
  lt    : p < s.sigs.length
  sig   : ∀ j : SigId, g.sigs[j]? = if p = j then (s.sigs[j]?).map (pe sl) else s.sigs[j]?

section mv
variable {p : SigId} {sl : Option Msg} {g s : State}

theorem Mv.ne (h : Mv p sl g s) {j : SigId} (hj : j ≠ p) : g.sigs[j]? = s.sigs[j]? := by
  rw [h.sig j, if_neg (fun e => hj e.symm)]

theorem Mv.len (h : Mv p sl g s) : g.sigs.length = s.sigs.length := by
  have key : ∀ j : Nat, g.sigs[j]? = none ↔ s.sigs[j]? = none := by
    intro j; rw [h.sig j]; split <;> simp
  have h1 := (key g.sigs.length).1 (List.getElem?_eq_none (Nat.le_refl _))
  have h2 := (key s.sigs.length).2 (List.getElem?_eq_none (Nat.le_refl _))
  have := List.getElem?_eq_none_iff.1 h1
  have := List.getElem?_eq_none_iff.1 h2
  omega

/-- Both states are updated at waiter `q` by the same function, which is either applied elsewhere or blind to slot and
    `claimed`. -/
theorem Mv.upd {g' s' : State} (h : Mv p sl g s) (q : SigId) (f : Sig → Sig)
    (hf : q ≠ p ∨ ∀ a, f (pe sl a) = pe sl (f a))
    (hg : ∀ j, g'.sigs[j]? = if q = j then (g.sigs[j]?).map f else g.sigs[j]?)
    (hs : ∀ j, s'.sigs[j]? = if q = j then (s.sigs[j]?).map f else s.sigs[j]?)
    (hc : g'.chan = s'.chan) (hw : g'.wakes = s'.wakes) : Mv p sl g' s' := by
  refine ⟨hc, hw, ?_, ?_⟩
  · have ha := List.getElem?_eq_getElem h.lt
    have : ∃ b, s'.sigs[p]? = some b := by rw [hs p, ha]; split <;> simp
    obtain ⟨b, hb⟩ := this
    exact lt_of_sig hb
  · intro j; rw [hg, hs, h.sig j]
    by_cases hq : q = j
    · by_cases hp : p = j
      · rcases hf with hf | hf
        · exact absurd (hq.trans hp.symm) hf
        · simp only [hq, hp, if_true]; cases s.sigs[j]? <;> simp [hf]
      · simp [hq, hp]
    · simp [hq]

theorem Mv.wakeOf_eq (h : Mv p sl g s) (i : SigId) : wakeOf (g.sigs[i]?) = wakeOf (s.sigs[i]?) := by
  rw [h.sig i]; split
  · cases s.sigs[i]? <;> rfl
  · rfl

theorem Mv.setChan (h : Mv p sl g s) (c : Chan) : Mv p sl { g with chan := c } { s with chan := c } :=
  ⟨rfl, h.wakes, h.lt, h.sig⟩

theorem Mv.deliverTo (h : Mv p sl g s) {q : SigId} (hq : q ≠ p) (m : Msg) : Mv p sl (g.deliverTo q m) (s.deliverTo q m) :=
  h.upd q (fun a => { a with slot := some m, claimed := true }) (Or.inl hq)
    (fun j => deliverTo_get g q m j) (fun j => deliverTo_get s q m j)
    (by rw [Bridge.deliverTo_chan, Bridge.deliverTo_chan, h.chan]) (by rw [deliverTo_wakes, deliverTo_wakes, h.wakes])

theorem Mv.claimFrom (h : Mv p sl g s) {q : SigId} (hq : q ≠ p) : Mv p sl (g.claimFrom q) (s.claimFrom q) :=
  h.upd q (fun a => { a with slot := none, claimed := true }) (Or.inl hq)
    (fun j => claimFrom_get g q j) (fun j => claimFrom_get s q j)
    (by rw [Bridge.claimFrom_chan, Bridge.claimFrom_chan, h.chan]) (by rw [claimFrom_wakes, claimFrom_wakes, h.wakes])

theorem Mv.takeFrom (h : Mv p sl g s) {q : SigId} (hq : q ≠ p) : Mv p sl (g.takeFrom q) (s.takeFrom q) :=
  h.upd q (fun a => { a with slot := none, st := .ok }) (Or.inl hq)
    (fun j => takeFrom_get g q j) (fun j => takeFrom_get s q j)
    (by rw [Bridge.takeFrom_chan, Bridge.takeFrom_chan, h.chan])
    (by rw [takeFrom_wakes, takeFrom_wakes, h.wakes, h.wakeOf_eq])

/-- the final store commutes with the peer effect even on `p` itself -/
theorem Mv.finalize (h : Mv p sl g s) (q : SigId) (o : SigSt) : Mv p sl (g.finalize q o) (s.finalize q o) :=
  h.upd q (fun a => { a with st := o }) (Or.inr fun _ => rfl)
    (fun j => finalize_get g q o j) (fun j => finalize_get s q o j)
    (by rw [Bridge.finalize_chan, Bridge.finalize_chan, h.chan])
    (by rw [finalize_wakes, finalize_wakes, h.wakes, h.wakeOf_eq])

theorem Mv.modSig (h : Mv p sl g s) (q : SigId) (f : Sig → Sig) (hf : q ≠ p ∨ ∀ a, f (pe sl a) = pe sl (f a)) :
    Mv p sl (Bridge.modSig g q f) (Bridge.modSig s q f) :=
  h.upd q f hf (fun j => modSig_get g q f j) (fun j => modSig_get s q f j)
    (by rw [modSig_chan, modSig_chan, h.chan]) (by rw [modSig_wakes, modSig_wakes, h.wakes])

theorem Mv.newSig (h : Mv p sl g s) (G : Sig) : Mv p sl (g.newSig G).1 (s.newSig G).1 := by
  have hl := h.len
  refine ⟨h.chan, h.wakes, ?_, ?_⟩
  · have : (s.newSig G).1.sigs.length = s.sigs.length + 1 := by simp [State.newSig]
    rw [this]; exact Nat.lt_succ_of_lt h.lt
  · intro j; rw [newSig_get, newSig_get, hl, h.sig j]
    have hlt : (p : Nat) < s.sigs.length := h.lt
    by_cases hj : (j : Nat) = s.sigs.length
    · have hne : ¬ p = s.sigs.length := fun e => by rw [e] at hlt; exact Nat.lt_irrefl _ hlt
      simp [hj, hne]
    · simp [hj]

theorem Mv.slotMsg (h : Mv p sl g s) {q : SigId} (hq : q ≠ p) : g.slotMsg q = s.slotMsg q := by
  unfold State.slotMsg; rw [h.ne hq]

/-- `Mv` is `core`-equality with the peer effect applied -/
theorem Mv.core_eq (h : Mv p sl g s) : core g = core (Bridge.modSig s p (pe sl)) := by
  apply core_mk
  · rw [modSig_chan]; exact h.chan
  · apply List.ext_getElem?; intro j; rw [h.sig j, modSig_get]
  · rw [modSig_wakes]; exact h.wakes

theorem Mv.of_core (hlt : p < s.sigs.length) (h : core g = core (Bridge.modSig s p (pe sl))) : Mv p sl g s :=
  ⟨by rw [core_chan h, modSig_chan], by rw [core_wakes h, modSig_wakes], hlt,
   fun j => by rw [core_sigs h, modSig_get]⟩

theorem mv_deliverTo (hlt : p < s.sigs.length) (m : Msg) : Mv p (some m) (s.deliverTo p m) s :=
  ⟨Bridge.deliverTo_chan s p m, deliverTo_wakes s p m, hlt, fun j => deliverTo_get s p m j⟩

theorem mv_claimFrom (hlt : p < s.sigs.length) : Mv p none (s.claimFrom p) s :=
  ⟨Bridge.claimFrom_chan s p, claimFrom_wakes s p, hlt, fun j => claimFrom_get s p j⟩

end mv

/-! ### the discipline of a tree -/

/-- Every `q.send(m)` / `q.recv()` of the tree addresses a waiter in `U` and every `Chan` it publishes lists only waiters
    in `U`, provided every `Chan` it finds under the lock lists only waiters in `U`. -/
def Good (U : SigId → Prop) : Act → Prop
  | .ret _ => True
  | .diverge => True
  | .lock k => ∀ c : Chan, (∀ q ∈ c.waitList, U q) → Good U (k c)
  | .tryLock k => ∀ oc : Option Chan, (∀ c, oc = some c → ∀ q ∈ c.waitList, U q) → Good U (k oc)
  | .unlock c k => (∀ q ∈ c.waitList, U q) ∧ Good U k
  | .eff ef k => (match ef with | .sigSend q _ => U q | _ => True) ∧ Good U k
  | .askB _ k => ∀ b, Good U (k b)
  | .askM q k => (match q with | .sigRecv q => U q | _ => True) ∧ ∀ m, Good U (k m)
  | .askP k => ∀ r, Good U (k r)

theorem effState_mv (e : Env) {p : SigId} {sl : Option Msg} {g s : State} (hme : e.x.me ≠ p) (h : Mv p sl g s) (ef : Eff)
    (hq : ∀ q m, ef = .sigSend q m → q ≠ p) :
    (effState e g ef = none ∧ effState e s ef = none) ∨
    (∃ g' s', effState e g ef = some g' ∧ effState e s ef = some s' ∧ Mv p sl g' s' ∧ s'.chan = s.chan) := by
  cases ef
  case unknown => left; exact ⟨rfl, rfl⟩
  case sigSend q m => right; exact ⟨_, _, rfl, rfl, h.deliverTo (hq q m rfl) m, Bridge.deliverTo_chan _ _ _⟩
  case sigTerminate q => right; exact ⟨_, _, rfl, rfl, h.finalize q _, Bridge.finalize_chan _ _ _⟩
  case newSendSig => right; exact ⟨_, _, rfl, rfl, h.newSig _, rfl⟩
  case newRecvSig => right; exact ⟨_, _, rfl, rfl, h.newSig _, rfl⟩
  case setState st => right; exact ⟨_, _, rfl, rfl, h.modSig _ _ (Or.inl hme), modSig_chan _ _ _⟩
  case registerWaker => right; exact ⟨_, _, rfl, rfl, h.modSig _ _ (Or.inl hme), modSig_chan _ _ _⟩
  case rearmSig => right; exact ⟨_, _, rfl, rfl, h.modSig _ _ (Or.inl hme), modSig_chan _ _ _⟩
  case setTerminated => right; exact ⟨_, _, rfl, rfl, h.modSig _ _ (Or.inl hme), modSig_chan _ _ _⟩
  all_goals right; exact ⟨_, _, rfl, rfl, h, rfl⟩

theorem ansB_mv (e : Env) {p : SigId} {sl : Option Msg} {g s : State} (hme : e.x.me ≠ p) (h : Mv p sl g s) (q : AskB) :
    ansB e g q = ansB e s q := by
  cases q <;> simp only [ansB, h.ne hme]

/-- Lockstep for `run2`: a `Good U` tree, run by a caller other than `p`, with `p` outside `U`. -/
theorem run2_mv (e : Env) {p : SigId} {sl : Option Msg} {U : SigId → Prop} (hp : ¬ U p) (hme : e.x.me ≠ p)
    (a : Act) (l : Bool) {g s : State} (hG : Good U a) (h : Mv p sl g s) (hw : ∀ q ∈ s.chan.waitList, U q) :
    Mv p sl (run2 e a l g).1 (run2 e a l s).1 ∧ (run2 e a l g).2 = (run2 e a l s).2 := by
  induction a generalizing l g s with
  | ret r => simp only [run2_ret]; exact ⟨h, trivial⟩
  | diverge => simp only [run2_diverge]; exact ⟨h, trivial⟩
  | lock k ih => simp only [run2_lock]; rw [h.chan]; exact ih _ _ (hG _ hw) h hw
  | tryLock k ih =>
    simp only [run2_tryLock]; rw [h.chan]
    exact ih _ _ (hG _ (fun c hc => by cases hc; exact hw)) h hw
  | unlock c k ih => simp only [run2_unlock]; exact ih _ hG.2 (h.setChan c) hG.1
  | eff ef k ih =>
    simp only [run2]
    have hq : ∀ q m, ef = .sigSend q m → q ≠ p := by
      intro q m he hqp; subst he; subst hqp; exact hp hG.1
    rcases effState_mv e hme h ef hq with ⟨h1, h2⟩ | ⟨g', s', h1, h2, h3, h4⟩
    · rw [h1, h2]; exact ⟨h, rfl⟩
    · rw [h1, h2]; exact ih _ hG.2 h3 (by rw [h4]; exact hw)
  | askB q k ih =>
    simp only [run2]
    rw [ansB_mv e hme h q]
    cases hq : ansB e s q with
    | ans b => exact ih _ _ (hG b) h hw
    | suspend => exact ⟨h, rfl⟩
    | spin => exact ⟨h, rfl⟩
    | stuck => exact ⟨h, rfl⟩
  | askM q k ih =>
    cases q
    case sigRecv q =>
      simp only [run2_sigRecv]
      have hqp : q ≠ p := by intro e; subst e; exact hp hG.1
      rw [h.slotMsg hqp]
      cases l
      · exact ih _ _ (hG.2 _) (h.claimFrom hqp) (by simpa [Bridge.claimFrom_chan] using hw)
      · exact ih _ _ (hG.2 _) (h.takeFrom hqp) (by simpa [Bridge.takeFrom_chan] using hw)
    case readLocal => simp only [run2_readLocal]; rw [h.slotMsg hme]; exact ih _ _ (hG.2 _) h hw
    case readRet => simp only [run2_readRet]; rw [h.slotMsg hme]; exact ih _ _ (hG.2 _) h hw
    case readSigPtr => simp only [run2_readSigPtr]; rw [h.slotMsg hme]; exact ih _ _ (hG.2 _) h hw
  | askP k ih =>
    simp only [run2]
    rw [h.ne hme]
    cases hs : s.sigs[e.x.me]? with
    | none => exact ⟨h, rfl⟩
    | some a => exact ih _ _ (hG _) h hw

/-- Lockstep for `Bridge.run`. -/
theorem run_mv {p : SigId} {sl : Option Msg} {U : SigId → Prop} (hp : ¬ U p)
    (a : Act) (l : Bool) {g s : State} (hG : Good U a) (h : Mv p sl g s) (hw : ∀ q ∈ s.chan.waitList, U q)
    (vec : List Msg) :
    Mv p sl (Bridge.run a l g vec).1 (Bridge.run a l s vec).1 ∧ (Bridge.run a l g vec).2 = (Bridge.run a l s vec).2 := by
  induction a generalizing l g s vec with
  | ret r => simp only [run_ret]; exact ⟨h, trivial⟩
  | diverge => simp only [Bridge.run]; exact ⟨h, trivial⟩
  | lock k ih => simp only [run_lock]; rw [h.chan]; exact ih _ _ (hG _ hw) h hw _
  | tryLock k ih =>
    simp only [run_tryLock]; rw [h.chan]
    exact ih _ _ (hG _ (fun c hc => by cases hc; exact hw)) h hw _
  | unlock c k ih => simp only [run_unlock]; exact ih _ hG.2 (h.setChan c) hG.1 _
  | eff ef k ih =>
    cases ef
    case sigSend q m =>
      simp only [run_sigSend]
      have hqp : q ≠ p := by intro e; subst e; exact hp hG.1
      exact ih _ hG.2 (h.deliverTo hqp m) (by simpa [Bridge.deliverTo_chan] using hw) _
    case sigTerminate q =>
      simp only [run_sigTerminate]
      exact ih _ hG.2 (h.finalize q _) (by simpa [Bridge.finalize_chan] using hw) _
    case takeData => simp only [run_takeData]; exact ih _ hG.2 h hw _
    case vecReserve n => simp only [run_vecReserve]; exact ih _ hG.2 h hw _
    case vecPush m => simp only [run_vecPush]; exact ih _ hG.2 h hw _
    all_goals simp only [Bridge.run]; exact ⟨h, trivial⟩
  | askB q k ih =>
    cases q
    case dataIsNone => simp only [run_dataIsNone]; exact ih _ _ (hG _) h hw _
    all_goals simp only [Bridge.run]; exact ⟨h, trivial⟩
  | askM q k ih =>
    cases q
    case sigRecv q =>
      simp only [run_sigRecv]
      have hqp : q ≠ p := by intro e; subst e; exact hp hG.1
      rw [h.slotMsg hqp]
      cases l
      · exact ih _ _ (hG.2 _) (h.claimFrom hqp) (by simpa [Bridge.claimFrom_chan] using hw) _
      · exact ih _ _ (hG.2 _) (h.takeFrom hqp) (by simpa [Bridge.takeFrom_chan] using hw) _
    all_goals simp only [Bridge.run]; exact ⟨h, trivial⟩
  | askP k ih => simp only [Bridge.run]; exact ⟨h, trivial⟩

/-! ### the critical sections only shrink the wait list, except for the caller's own signal -/

theorem nextRecv_sub (c : Chan) :
    (∀ q ∈ c.nextRecv.1.waitList, q ∈ c.waitList) ∧ (∀ r, c.nextRecv.2 = some r → r ∈ c.waitList) := by
  unfold Chan.nextRecv; split
  · simp
  · split <;> simp_all

theorem nextSend_sub (c : Chan) :
    (∀ q ∈ c.nextSend.1.waitList, q ∈ c.waitList) ∧ (∀ r, c.nextSend.2 = some r → r ∈ c.waitList) := by
  unfold Chan.nextSend; split
  · simp
  · split <;> simp_all

theorem sendPre_sub (c : Chan) (m : Msg) :
    (∀ q ∈ (c.sendPre m).1.waitList, q ∈ c.waitList) ∧ (∀ r, (c.sendPre m).2 = .handoff r → r ∈ c.waitList) := by
  have h := nextRecv_sub c
  unfold Chan.sendPre
  split
  · refine ⟨fun q hq => hq, fun r hr => ?_⟩
    dsimp only at hr; split at hr <;> cases hr
  · split
    · rename_i c1 first heq; rw [heq] at h; simpa using h
    · rename_i c1 heq; rw [heq] at h; split <;> simp <;> exact h.1

theorem sendCS_sub (c : Chan) (m : Msg) (me : SigId) :
    (∀ q ∈ (c.sendCS m me).1.waitList, q ∈ c.waitList ∨ q = me) ∧
    (∀ r, (c.sendCS m me).2 = .handoff r → r ∈ c.waitList) := by
  have h := sendPre_sub c m
  unfold Chan.sendCS
  split
  · rename_i c1 heq; rw [heq] at h
    refine ⟨fun q hq => ?_, fun r hr => by cases hr⟩
    simp only [Chan.pushWaiter, List.mem_append, List.mem_singleton] at hq
    rcases hq with hq | hq
    · exact Or.inl (h.1 q hq)
    · exact Or.inr hq
  · exact ⟨fun q hq => Or.inl (h.1 q hq), h.2⟩

theorem cancel_sub (c : Chan) (r : Role) (i : SigId) : ∀ q ∈ (c.cancel r i).1.waitList, q ∈ c.waitList := by
  unfold Chan.cancel; split
  · intro q hq; exact List.mem_of_mem_erase hq
  · intro q hq; exact hq

theorem dropCS_sub (c : Chan) (side : Side) :
    (∀ q ∈ (c.dropCS side).1.waitList, q ∈ c.waitList) ∧ (∀ q ∈ (c.dropCS side).2, q ∈ c.waitList) := by
  unfold Chan.dropCS Chan.terminateAll
  cases side <;> simp only [] <;> split <;> (try split) <;> simp

theorem cloneCS_waitList (c : Chan) (side : Side) : (c.cloneCS side).waitList = c.waitList := by
  unfold Chan.cloneCS; cases side <;> simp only [] <;> split <;> rfl

theorem closeCS_sub {c c1 : Chan} {l : List SigId} {q : List Msg} (h : c.closeCS = some (c1, l, q)) :
    c1.waitList = [] ∧ l = c.waitList := by
  unfold Chan.closeCS at h
  split at h
  · cases h
  · simp at h; obtain ⟨rfl, rfl, -⟩ := h; exact ⟨rfl, rfl⟩

theorem drainCS_sub {c c1 : Chan} {q l n} (h : c.drainCS = some (c1, q, l, n)) :
    (∀ x ∈ c1.waitList, x ∈ c.waitList) ∧ (∀ x ∈ l, x ∈ c.waitList) := by
  refine ⟨?_, drainCS_senders_sub h⟩
  unfold Chan.drainCS Chan.popAllSenders at h
  split at h
  · cases h
  · split at h <;> simp at h <;> obtain ⟨rfl, -, -, -⟩ := h <;> simp

/-! ### `Good` for the trees of `Kanal.Fine` -/

section good
variable {U : SigId → Prop} {k : Act}

@[simp] theorem good_ret (r : Res) : Good U (.ret r) := trivial
theorem good_unlock (c : Chan) : Good U (.unlock c k) ↔ (∀ q ∈ c.waitList, U q) ∧ Good U k := Iff.rfl

theorem good_terminate (l : List SigId) (h : Good U k) : Good U (Fine.terminate l k) := by
  unfold Fine.terminate
  induction l with
  | nil => exact h
  | cons i l ih => simp only [Act.forEach_cons]; exact ⟨trivial, ih⟩

theorem good_dropData (h : Good U k) : Good U (Fine.dropData k) := by
  unfold Fine.dropData; intro b; cases b <;> simp [h] <;> exact ⟨trivial, h⟩

theorem good_dropLocal (h : Good U k) : Good U (Fine.dropLocal k) := by
  unfold Fine.dropLocal; intro b; cases b <;> simp [Good, h]

theorem good_failBack (opt : Bool) (h : Good U k) : Good U (Fine.failBack opt k) := by
  unfold Fine.failBack; cases opt <;> simp [Good, h, good_dropData]

theorem good_guardNone (opt : Bool) (h : Good U k) : Good U (Fine.guardNone opt k) := by
  unfold Fine.guardNone; cases opt
  · simpa using h
  · simp only [if_true]; intro b; cases b <;> simp [h]

theorem good_take (opt : Bool) (h : Good U k) : Good U (Fine.take opt k) := by
  unfold Fine.take; cases opt <;> simp [Good, h]

theorem good_acquire (rt : Bool) {busy : Act} {f : Chan → Act} (hb : Good U busy)
    (hf : ∀ c, (∀ q ∈ c.waitList, U q) → Good U (f c)) : Good U (Fine.acquire rt busy f) := by
  unfold Fine.acquire; cases rt
  · simp only [Bool.false_eq_true, if_false]; exact hf
  · simp only [if_true]; intro oc hoc; cases oc
    · exact hb
    · exact hf _ (hoc _ rfl)

theorem good_sendErr (c : Chan) (hc : ∀ q ∈ c.waitList, U q) : Good U (Fine.sendErr c) := by
  unfold Fine.sendErr; refine ⟨hc, ?_⟩; split <;> trivial

theorem good_register (h : Good U k) : Good U (Fine.register k) := by
  unfold Fine.register; refine ⟨trivial, fun b => ?_⟩; cases b <;> simp [Good, h]

theorem good_readOwn : Good U Fine.readOwn := by
  unfold Fine.readOwn; intro b; cases b <;> simp [Good]

end good

section goodTrees
variable (U : SigId → Prop)

theorem good_trySend (opt rt : Bool) (x : Ctx) : Good U (Fine.trySend opt rt x) := by
  unfold Fine.trySend
  refine good_guardNone _ (good_acquire _ (by simp) fun c hc => ?_)
  have h := sendPre_sub c x.m
  split
  · exact good_sendErr c hc
  · exact good_sendErr c hc
  · rename_i c1 r heq; rw [heq] at h
    exact ⟨fun q hq => hc q (h.1 q hq), good_take _ ⟨hc r (h.2 r rfl), trivial⟩⟩
  · rename_i c1 heq; rw [heq] at h
    exact good_take _ ⟨fun q hq => hc q (h.1 q hq), trivial⟩
  · rename_i c1 heq; rw [heq] at h
    exact ⟨fun q hq => hc q (h.1 q hq), trivial⟩

theorem good_close : Good U Fine.close := by
  unfold Fine.close; intro c hc; dsimp only
  split
  · exact ⟨hc, trivial⟩
  · rename_i c1 l q heq
    obtain ⟨h1, -⟩ := closeCS_sub heq
    exact good_terminate _ ⟨(by rw [h1]; intro q hq; cases hq), trivial⟩

theorem good_dropHandle (side : Side) : Good U (Fine.dropHandle side) := by
  unfold Fine.dropHandle; intro c hc
  exact good_terminate _ ⟨fun q hq => hc q ((dropCS_sub c side).1 q hq), trivial⟩

theorem good_cloneHandle (side : Side) : Good U (Fine.cloneHandle side) := by
  unfold Fine.cloneHandle; intro c hc
  exact ⟨by rw [cloneCS_waitList]; exact hc, trivial⟩

theorem good_observe (f : Chan → Res) : Good U (Fine.observe f) := by
  unfold Fine.observe; intro c hc; exact ⟨hc, trivial⟩

theorem good_recvHead (c : Chan) (hc : ∀ q ∈ c.waitList, U q) (wrap cf : Act → Act) (onNone : Chan → Act)
    (hw : ∀ k, Good U k → Good U (wrap k)) (hcf : ∀ k, Good U k → Good U (cf k))
    (hn : ∀ c1 : Chan, (∀ q ∈ c1.waitList, U q) → Good U (onNone c1)) :
    Good U (Fine.recvHead c wrap cf onNone) := by
  unfold Fine.recvHead
  split
  · exact hcf _ ⟨hc, trivial⟩
  · split
    · rename_i v q hq
      have h := nextSend_sub { c with queue := q }
      split
      · rename_i c1 p heq; rw [heq] at h
        exact ⟨hc p (h.2 p rfl), fun m => ⟨fun q hq => hc q (h.1 q hq), hw _ trivial⟩⟩
      · rename_i c1 heq; rw [heq] at h
        exact ⟨fun q hq => hc q (h.1 q hq), hw _ trivial⟩
    · have h := nextSend_sub c
      split
      · rename_i c1 p heq; rw [heq] at h
        exact ⟨fun q hq => hc q (h.1 q hq), hw _ ⟨hc p (h.2 p rfl), fun m => trivial⟩⟩
      · rename_i c1 heq; rw [heq] at h
        exact hn c1 (fun q hq => hc q (h.1 q hq))

theorem good_tryRecv (rt : Bool) : Good U (Fine.tryRecv rt) := by
  unfold Fine.tryRecv
  refine good_acquire _ (by simp) fun c hc => ?_
  refine good_recvHead U c hc id id _ (fun k h => h) (fun k h => h) (fun c1 hc1 => ?_)
  split <;> exact ⟨hc1, trivial⟩

theorem good_drainQueue (q : List Msg) {k : Act} (h : Good U k) : Good U (Fine.drainQueue q k) := by
  unfold Fine.drainQueue
  induction q with
  | nil => exact h
  | cons v q ih => simp only [Act.forEach_cons]; exact ⟨trivial, ih⟩

theorem good_drainSenders (l : List SigId) (hl : ∀ p ∈ l, U p) {k : Act} (h : Good U k) :
    Good U (Fine.drainSenders l k) := by
  unfold Fine.drainSenders
  induction l with
  | nil => exact h
  | cons p l ih =>
    simp only [Act.forEach_cons]
    exact ⟨hl p (List.mem_cons_self ..), fun m => ⟨trivial, ih (fun q hq => hl q (List.mem_cons_of_mem _ hq))⟩⟩

theorem good_drain (x : Ctx) : Good U (Fine.drain x) := by
  unfold Fine.drain; intro c hc; dsimp only
  split
  · exact ⟨hc, trivial⟩
  · rename_i c1 q senders n hd
    obtain ⟨h1, h2⟩ := drainCS_sub hd
    have key : Good U (Fine.drainQueue q <| Fine.drainSenders senders <| .unlock c1 (.ret (.num n))) :=
      good_drainQueue U _ (good_drainSenders U _ (fun p hp => hc p (h2 p hp)) ⟨fun q hq => hc q (h1 q hq), trivial⟩)
    split
    · exact ⟨trivial, key⟩
    · exact key

theorem good_sendK (b : Bool) : Good U (sendK b) := by
  unfold sendK; cases b <;> simp [good_dropData]

theorem good_timedSendK2 (opt b : Bool) : Good U (timedSendK2 opt b) := by
  unfold timedSendK2; cases b <;> simp [good_failBack]

theorem good_timedSendK (opt : Bool) (x : Ctx) (b : Bool) : Good U (timedSendK opt x b) := by
  unfold timedSendK; cases b
  · simp only [Bool.false_eq_true, if_false]
    intro t; cases t
    · simp only [Bool.false_eq_true, if_false]
      intro c hc; dsimp only
      have hs : ∀ q ∈ (c.cancel .send x.me).1.waitList, U q := fun q hq => hc q (cancel_sub c _ _ q hq)
      split
      · exact ⟨hs, good_failBack _ trivial⟩
      · refine ⟨hs, fun ok => ?_⟩; cases ok <;> simp [good_failBack]
    · simp [good_failBack]
  · simp

theorem good_recvK (b : Bool) : Good U (recvK b) := by
  unfold recvK; cases b <;> simp [good_readOwn]

theorem good_timedRecvK2 (b : Bool) : Good U (timedRecvK2 b) := by
  unfold timedRecvK2; cases b <;> simp [good_readOwn]

theorem good_timedRecvK (x : Ctx) (b : Bool) : Good U (timedRecvK x b) := by
  unfold timedRecvK; cases b
  · simp only [Bool.false_eq_true, if_false]
    intro t; cases t
    · simp only [Bool.false_eq_true, if_false]
      intro c hc; dsimp only
      have hs : ∀ q ∈ (c.cancel .recv x.me).1.waitList, U q := fun q hq => hc q (cancel_sub c _ _ q hq)
      split
      · exact ⟨hs, trivial⟩
      · refine ⟨hs, fun ok => ?_⟩; cases ok <;> simp [good_readOwn]
    · simp
  · simp [good_readOwn]

theorem good_contOf (a : Sig) (late : Bool) (x : Ctx) (b : Bool) : Good U (contOf a late x b) := by
  unfold contOf
  cases a.role <;> cases late <;> simp only [Bool.false_eq_true, if_false, if_true]
  · unfold sendCont; split
    · exact good_timedSendK U _ _ _
    · exact good_sendK U _
  · exact good_timedSendK2 U _ _
  · unfold recvCont; split
    · exact good_timedRecvK U _ _
    · exact good_recvK U _
  · exact good_timedRecvK2 U _

theorem good_timedContOf (a : Sig) (x : Ctx) (b : Bool) : Good U (timedContOf a x b) := by
  unfold timedContOf
  cases a.role
  · exact good_timedSendK U _ _ _
  · exact good_timedRecvK U _ _

theorem good_send (timed opt : Bool) (x : Ctx) (hme : U x.me) : Good U (Fine.send timed opt x) := by
  unfold Fine.send
  refine good_guardNone _ ?_
  have key : Good U (.lock fun c => match c.sendCS x.m x.me with
      | (_, .errClosed) | (_, .errRecvClosed) => Fine.sendErr c
      | (c1, .handoff r) => .unlock c1 (Fine.take opt (.eff (.sigSend r x.m) (.ret .unit)))
      | (c1, .buffered) => Fine.take opt (.unlock c1 (.ret .unit))
      | (c1, .full) =>
        .eff (if opt then .wrapTaken else .wrapData) <| .eff .newSendSig <| .unlock c1 <|
          if timed then Fine.timedSendTail opt x
          else .askB .wait fun ok => if ok then .ret .unit else Fine.dropData (.ret (.err .closed))) := by
    intro c hc
    have h := sendCS_sub c x.m x.me
    have hU : ∀ c1 : Chan, (∀ q ∈ c1.waitList, q ∈ c.waitList ∨ q = x.me) → ∀ q ∈ c1.waitList, U q := by
      intro c1 h1 q hq
      rcases h1 q hq with h2 | h2
      · exact hc q h2
      · rw [h2]; exact hme
    dsimp only
    split
    · exact good_sendErr c hc
    · exact good_sendErr c hc
    · rename_i c1 r heq; rw [heq] at h
      exact ⟨hU c1 h.1, good_take _ ⟨hc r (h.2 r rfl), trivial⟩⟩
    · rename_i c1 heq; rw [heq] at h
      exact good_take _ ⟨hU c1 h.1, trivial⟩
    · rename_i c1 heq; rw [heq] at h
      refine ⟨by cases opt <;> trivial, trivial, hU c1 h.1, ?_⟩
      cases timed
      · simp only [Bool.false_eq_true, if_false]; exact fun b => good_sendK U b
      · simp only [if_true, timedSendTail_eq]; exact fun b => good_timedSendK U opt x b
  cases timed
  · exact key
  · exact ⟨trivial, key⟩

theorem good_recvOnNone (timed : Bool) (x : Ctx) (hme : U x.me) (c1 : Chan) (hc1 : ∀ q ∈ c1.waitList, U q) :
    Good U ((fun k => if timed then Act.askB .expired fun ex => if ex then .unlock c1 (.ret (.err .timeout)) else k else k) <|
      if c1.sendCount == 0 then .unlock c1 (.ret (.err .sendClosed))
      else .eff .newRetSlot <| .eff .newRecvSig <| .unlock (c1.pushWaiter x.me) <|
        if timed then Fine.timedRecvTail x
        else .askB .wait fun ok => if ok then Fine.readOwn else .ret (.err .closed)) := by
  have key : Good U (if c1.sendCount == 0 then Act.unlock c1 (.ret (.err .sendClosed))
      else .eff .newRetSlot <| .eff .newRecvSig <| .unlock (c1.pushWaiter x.me) <|
        if timed then Fine.timedRecvTail x
        else .askB .wait fun ok => if ok then Fine.readOwn else .ret (.err .closed)) := by
    split
    · exact ⟨hc1, trivial⟩
    · refine ⟨trivial, trivial, ?_, ?_⟩
      · intro q hq
        simp only [Chan.pushWaiter, List.mem_append, List.mem_singleton] at hq
        rcases hq with hq | hq
        · exact hc1 q hq
        · rw [hq]; exact hme
      · cases timed
        · simp only [Bool.false_eq_true, if_false]; exact fun b => good_recvK U b
        · simp only [if_true, timedRecvTail_eq]; exact fun b => good_timedRecvK U x b
  cases timed
  · exact key
  · simp only [if_true]
    intro ex; cases ex
    · exact key
    · exact ⟨hc1, trivial⟩

theorem good_recv (timed : Bool) (x : Ctx) (hme : U x.me) : Good U (Fine.recv timed x) := by
  unfold Fine.recv
  have key : Good U (.lock fun c => Fine.recvHead c id id fun c1 =>
      (fun k => if timed then Act.askB .expired fun e => if e then .unlock c1 (.ret (.err .timeout)) else k else k) <|
      if c1.sendCount == 0 then .unlock c1 (.ret (.err .sendClosed))
      else .eff .newRetSlot <| .eff .newRecvSig <| .unlock (c1.pushWaiter x.me) <|
        if timed then Fine.timedRecvTail x
        else .askB .wait fun ok => if ok then Fine.readOwn else .ret (.err .closed)) := by
    intro c hc
    exact good_recvHead U c hc id id _ (fun k h => h) (fun k h => h) (fun c1 hc1 => good_recvOnNone U timed x hme c1 hc1)
  cases timed
  · exact key
  · exact ⟨trivial, key⟩

theorem good_pollSend (x : Ctx) (hme : U x.me) : Good U (Fine.pollSend x) := by
  unfold Fine.pollSend
  split
  · intro c hc; dsimp only
    have h := sendCS_sub c x.m x.me
    have hU : ∀ c1 : Chan, (∀ q ∈ c1.waitList, q ∈ c.waitList ∨ q = x.me) → ∀ q ∈ c1.waitList, U q := by
      intro c1 h1 q hq
      rcases h1 q hq with h2 | h2
      · exact hc q h2
      · rw [h2]; exact hme
    split
    · exact ⟨hc, trivial, good_dropLocal trivial⟩
    · exact ⟨hc, trivial, good_dropLocal trivial⟩
    · rename_i c1 r heq; rw [heq] at h
      exact ⟨hU c1 h.1, trivial, trivial, hc r (h.2 r rfl), trivial⟩
    · rename_i c1 heq; rw [heq] at h
      exact ⟨trivial, trivial, hU c1 h.1, trivial⟩
    · rename_i c1 heq; rw [heq] at h
      exact good_register ⟨hU c1 h.1, trivial⟩
  · intro r
    cases r with
    | none =>
      dsimp only
      intro same; cases same
      · simp only [Bool.false_eq_true, if_false]
        intro c hc; dsimp only; split
        · exact ⟨trivial, hc, trivial⟩
        · refine ⟨hc, trivial, fun ok => ?_⟩; cases ok <;> simp [good_dropLocal]
      · simp
    | some ok => cases ok <;> simp [Good] <;> exact good_dropLocal trivial
  · simp

theorem good_pollOnNone (x : Ctx) (hme : U x.me) (c1 : Chan) (hc1 : ∀ q ∈ c1.waitList, U q) :
    Good U (if c1.sendCount == 0 then Act.eff (.setState .done) (.unlock c1 (.ret (.err .sendClosed)))
      else Fine.register (.unlock (c1.pushWaiter x.me) (.ret .pending))) := by
  split
  · exact ⟨trivial, hc1, trivial⟩
  · refine good_register ⟨?_, trivial⟩
    intro q hq
    simp only [Chan.pushWaiter, List.mem_append, List.mem_singleton] at hq
    rcases hq with hq | hq
    · exact hc1 q hq
    · rw [hq]; exact hme

theorem good_pollRound (x : Ctx) (hme : U x.me) (st : FutSt) (again : Act) (ha : Good U again) :
    Good U (Fine.pollRecvRound x st again) := by
  cases st
  · simp only [Fine.pollRecvRound]
    intro c hc
    exact good_recvHead U c hc _ _ _ (fun k h => ⟨trivial, h⟩) (fun k h => ⟨trivial, h⟩)
      (fun c1 hc1 => good_pollOnNone U x hme c1 hc1)
  · simp only [Fine.pollRecvRound]
    intro r
    cases r with
    | none =>
      dsimp only
      intro same; cases same
      · simp only [Bool.false_eq_true, if_false]
        intro c hc; dsimp only; split
        · exact ⟨trivial, hc, trivial⟩
        · refine ⟨hc, trivial, fun ok => ?_⟩; cases ok <;> simp [Good]
      · simp
    | some ok => cases ok <;> simp [Good]
  · simp only [Fine.pollRecvRound]
    split
    · exact ⟨trivial, trivial, ha⟩
    · trivial

theorem good_pollRecv (x : Ctx) (hme : U x.me) : Good U (Fine.pollRecv x) := by
  unfold Fine.pollRecv
  exact good_pollRound U x hme _ _ (good_pollRound U x hme _ _ trivial)

theorem good_bind (f : Res → Act) (hf : ∀ r, Good U (f r)) (a : Act) (h : Good U a) : Good U (a.bind f) := by
  induction a with
  | ret r => exact hf r
  | diverge => trivial
  | lock k ih => intro c hc; exact ih _ (h c hc)
  | tryLock k ih => intro oc hoc; exact ih _ (h oc hoc)
  | unlock c k ih => exact ⟨h.1, ih h.2⟩
  | eff ef k ih => exact ⟨h.1, ih h.2⟩
  | askB q k ih => intro b; exact ih _ (h b)
  | askM q k ih => exact ⟨h.1, fun m => ih _ (h.2 m)⟩
  | askP k ih => intro r; exact ih _ (h r)

theorem good_nextK (r : Res) : Good U (nextK r) := by
  cases r <;> simp [nextK, Good]

theorem good_pollNext (x : Ctx) (hme : U x.me) : Good U (Fine.pollNext x) := by
  rw [pollNext_tree]
  split
  · trivial
  · exact good_bind U _ (good_nextK U) _ (good_pollRecv U x hme)

theorem good_dropSendFut (x : Ctx) : Good U (Fine.dropSendFut x) := by
  unfold Fine.dropSendFut
  split
  · trivial
  · split
    · intro c hc; dsimp only
      refine ⟨fun q hq => hc q (cancel_sub c _ _ q hq), ?_⟩
      split
      · exact good_dropLocal trivial
      · intro ok; cases ok <;> simp [good_dropLocal]
    · exact good_dropLocal trivial

theorem good_dropRecvFut (x : Ctx) : Good U (Fine.dropRecvFut x) := by
  unfold Fine.dropRecvFut
  split
  · intro c hc; dsimp only
    refine ⟨fun q hq => hc q (cancel_sub c _ _ q hq), ?_⟩
    split
    · trivial
    · intro ok; cases ok <;> simp [good_dropLocal]
  · trivial

end goodTrees

/-! ### the segments of the popped waiter's owner -/

/-- the poll of a claimed-or-popped future with another waker: `state = Done`, then busy-wait -/
def spun (t : State) (me : SigId) : State := Bridge.modSig t me fun g => { g with fut := .done }

section own
variable (e : Env) {t : State} {a : Sig}

theorem own_expire (ht : t.sigs[e.x.me]? = some a) (hst : a.st = .pending) (hnl : e.x.me ∉ t.chan.waitList) :
    codeStepRaw (.expireWaiter e) t = (t, some (.blocked e.x.me)) := by
  have hterm : (a.st == .term) = false := by rw [hst]; rfl
  simp only [codeStepRaw, codeStep, ht]
  unfold timedContOf
  cases a.role <;>
    simp [resume, timedSendK, timedRecvK, run2_isTerminated _ _ _ ht, hterm, cancel_not_mem hnl, ofOut2]

theorem sigExists_not_mem {c : Chan} {r : Role} {i : SigId} (h : i ∉ c.waitList) : c.sigExists r i = false := by
  unfold Chan.sigExists; simp [h]

theorem own_run2_pollSend (ht : t.sigs[e.x.me]? = some a) (hst : a.st = .pending) (hx : e.x.st = .waiting)
    (hnl : e.x.me ∉ t.chan.waitList) :
    run2 e (Fine.pollSend e.x) false t =
      if a.waker = some e.w then (t, .ret .pending) else (spun t e.x.me, .spin) := by
  have hlt := lt_of_sig ht
  simp only [Fine.pollSend, hx, run2_askP _ _ _ ht, pollAns, hst]
  by_cases hw : a.waker = some e.w
  · simp [hw, run2_willWake _ _ _ ht]
  · simp [hw, sigExists_not_mem hnl, run2_willWake _ _ _ ht, modSig, ht, spun]
    exact run2_abw_set_pending e false { t with chan := t.chan } { a with fut := .done } hlt hst _

theorem own_run2_pollRecv (ht : t.sigs[e.x.me]? = some a) (hst : a.st = .pending) (hx : e.x.st = .waiting)
    (hnl : e.x.me ∉ t.chan.waitList) :
    run2 e (Fine.pollRecv e.x) false t =
      if a.waker = some e.w then (t, .ret .pending) else (spun t e.x.me, .spin) := by
  have hlt := lt_of_sig ht
  simp only [Fine.pollRecv, Fine.pollRecvRound, hx, run2_askP _ _ _ ht, pollAns, hst]
  by_cases hw : a.waker = some e.w
  · simp [hw, run2_willWake _ _ _ ht]
  · simp [hw, sigExists_not_mem hnl, run2_willWake _ _ _ ht, modSig, ht, spun]
    exact run2_abw_set_pending e false { t with chan := t.chan } { a with fut := .done } hlt hst _

theorem own_run2_pollNext (ht : t.sigs[e.x.me]? = some a) (hst : a.st = .pending) (hx : e.x.st = .waiting)
    (hnl : e.x.me ∉ t.chan.waitList) :
    run2 e (Fine.pollNext e.x) false t =
      if e.x.terminated then (t, .ret .streamEnd)
      else if a.waker = some e.w then (t, .ret .pending) else (spun t e.x.me, .spin) := by
  rw [pollNext_eq, pollNext_unfold, own_run2_pollRecv e ht hst hx hnl]
  split
  · rfl
  · split <;> rfl

theorem own_dropSendFut (ht : t.sigs[e.x.me]? = some a) (hst : a.st = .pending) (hx : e.x.st = .waiting)
    (hnl : e.x.me ∉ t.chan.waitList) :
    codeStepRaw (.dropSendFut e) t = (t, some .spin) := by
  simp only [codeStepRaw, codeStep, runDrop, Fine.dropSendFut, hx]
  simp [cancel_not_mem hnl]
  rw [run2_abw_pending e false { t with chan := t.chan } ht hst]
  simp [ofOut2]

theorem own_dropRecvFut (ht : t.sigs[e.x.me]? = some a) (hst : a.st = .pending) (hx : e.x.st = .waiting)
    (hnl : e.x.me ∉ t.chan.waitList) :
    codeStepRaw (.dropRecvFut e) t = (t, some .spin) := by
  simp only [codeStepRaw, codeStep, runDrop, Fine.dropRecvFut, hx]
  simp [cancel_not_mem hnl]
  rw [run2_abw_pending e false { t with chan := t.chan } ht hst]
  simp [ofOut2]

end own

/-! ### the commutation, segment by segment -/

/-- Waiter `p` is *popped but not yet served*: it exists, its signal is still pending, it is in nobody's list; and if it is
    a future, it is registered (`fut = waiting`) — true of every waiter that has been in the wait list (`Listed.fut`), and
    needed: the `Drop` of a future that was never polled retires it without looking at the signal, and empties the slot. -/
structure Popped (p : SigId) (s : State) : Prop where
  ex : ∃ a, s.sigs[p]? = some a ∧ a.st = .pending ∧ (a.kind = .async → a.fut = .waiting)
  unlisted : p ∉ s.chan.waitList

section segs
variable {p : SigId} {sl : Option Msg} {g s : State}

theorem Mv.at_p (h : Mv p sl g s) {a : Sig} (hs : s.sigs[p]? = some a) : g.sigs[p]? = some (pe sl a) := by
  rw [h.sig p]; simp [hs]

theorem Mv.ne_len (h : Mv p sl g s) {i : SigId} (hi : i = s.sigs.length) : i ≠ p := by
  intro e; have := h.lt; rw [← e, hi] at this; exact Nat.lt_irrefl _ this

theorem single_mv {U : SigId → Prop} (hp : ¬ U p) (a : Act) (hG : Good U a) (h : Mv p sl g s)
    (hw : ∀ q ∈ s.chan.waitList, U q) :
    Mv p sl (single a g).1 (single a s).1 ∧ (single a g).2 = (single a s).2 := by
  obtain ⟨h1, h2⟩ := run_mv hp a false hG h hw []
  exact ⟨h1, by unfold single; rw [h2]⟩

theorem pair_mv (me : SigId) {P Q : State × Out2} (h : Mv p sl P.1 Q.1 ∧ P.2 = Q.2) :
    Mv p sl (P.1, ofOut2 me P.2).1 (Q.1, ofOut2 me Q.2).1 ∧ (P.1, ofOut2 me P.2).2 = (Q.1, ofOut2 me Q.2).2 :=
  ⟨h.1, by simp only [h.2]⟩

theorem resume_mv (e : Env) {U : SigId → Prop} (hp : ¬ U p) (hme : e.x.me ≠ p) (k : Bool → Act) (b : Bool)
    (hG : Good U (k b)) (h : Mv p sl g s) (hw : ∀ q ∈ s.chan.waitList, U q) :
    Mv p sl (resume e k b g).1 (resume e k b s).1 ∧ (resume e k b g).2 = (resume e k b s).2 := by
  obtain ⟨h1, h2⟩ := run2_mv e hp hme (k b) false hG h hw
  unfold resume
  rcases hg : run2 e (k b) false g with ⟨g', o⟩
  rcases hs : run2 e (k b) false s with ⟨s', o'⟩
  rw [hg, hs] at h1 h2
  simp only at h1 h2
  subst h2
  cases o <;> simp only <;>
    first | exact ⟨h1.modSig _ _ (Or.inl hme), trivial⟩ | exact ⟨h1, trivial⟩ | exact ⟨h1, rfl⟩

theorem runDrop_mv (e : Env) {U : SigId → Prop} (hp : ¬ U p) (hme : e.x.me ≠ p) (a : Act)
    (hG : Good U a) (h : Mv p sl g s) (hw : ∀ q ∈ s.chan.waitList, U q) :
    Mv p sl (runDrop e a g).1 (runDrop e a s).1 ∧ (runDrop e a g).2 = (runDrop e a s).2 := by
  obtain ⟨h1, h2⟩ := run2_mv e hp hme a false hG h hw
  unfold runDrop
  rcases hg : run2 e a false g with ⟨g', o⟩
  rcases hs : run2 e a false s with ⟨s', o'⟩
  rw [hg, hs] at h1 h2
  simp only at h1 h2
  subst h2
  cases o <;> simp only <;>
    first | exact ⟨h1.modSig _ _ (Or.inl hme), trivial⟩ | exact ⟨h1, trivial⟩ | exact ⟨h1, rfl⟩

/-- the universe of a caller with signal `me`: the listed waiters and `me` -/
def UU (s : State) (me : SigId) : SigId → Prop := fun q => q ∈ s.chan.waitList ∨ q = me

theorem not_UU (hp : Popped p s) {me : SigId} (hme : me ≠ p) : ¬ UU s me p := by
  rintro (h | h)
  · exact hp.unlisted h
  · exact hme h.symm

theorem UU_list (s : State) (me : SigId) : ∀ q ∈ s.chan.waitList, UU s me q := fun _ hq => Or.inl hq

/-- **Commutation, general form.**  `g` is `s` after the peer effect on the popped waiter `p`; any enabled segment other
    than `p`'s final store keeps it so and answers the same. -/
theorem seg_mover (d : Seg) (h : Mv p sl g s) (hp : Popped p s) (he : Enabled d s) (hd : d ≠ .storeFinal p) :
    Mv p sl (codeStepRaw d g).1 (codeStepRaw d s).1 ∧ (codeStepRaw d g).2 = (codeStepRaw d s).2 := by
  obtain ⟨a, hsa, hst, hfut⟩ := hp.ex
  have hga := h.at_p hsa
  have hgnl : p ∉ g.chan.waitList := by rw [h.chan]; exact hp.unlisted
  have hW : ¬ (fun q => q ∈ s.chan.waitList) p := hp.unlisted
  have hWl : ∀ q ∈ s.chan.waitList, (fun q => q ∈ s.chan.waitList) q := fun _ hq => hq
  cases d with
  | callTrySend x opt rt => exact single_mv hW _ (good_trySend _ opt rt x) h hWl
  | callTryRecv rt => exact single_mv hW _ (good_tryRecv _ rt) h hWl
  | callDrain x =>
    obtain ⟨h1, h2⟩ := run_mv hW (Fine.drain x) false (good_drain _ x) h hWl []
    exact ⟨h1, by simp only [codeStepRaw, codeStep]; rw [h2]⟩
  | callClose => exact single_mv hW _ (good_close _) h hWl
  | callClone side => exact single_mv hW _ (good_cloneHandle _ side) h hWl
  | callDropHandle side => exact single_mv hW _ (good_dropHandle _ side) h hWl
  | callObserve o => exact single_mv hW _ (good_observe _ o.fn) h hWl
  | callConvert side => exact ⟨h, rfl⟩
  | startSend e =>
    have hme : e.x.me ≠ p := h.ne_len he.2.2.2
    exact pair_mv _ (run2_mv e (not_UU hp hme) hme _ false (good_send _ _ _ _ (Or.inr rfl)) h (UU_list s _))
  | startRecv e =>
    have hme : e.x.me ≠ p := h.ne_len he.2.2
    exact pair_mv _ (run2_mv e (not_UU hp hme) hme _ false (good_recv _ _ _ (Or.inr rfl)) h (UU_list s _))
  | resumeWaiter e late =>
    obtain ⟨b, hb, -, -, hbst, -⟩ := he
    have hme : e.x.me ≠ p := by
      intro e'; rw [e', hsa] at hb; cases hb; exact hbst hst
    simp only [codeStepRaw, codeStep]; rw [h.ne hme, hb]
    exact pair_mv _ (resume_mv e (not_UU hp hme) hme _ _ (good_contOf _ _ _ _ _) h (UU_list s _))
  | expireWaiter e =>
    obtain ⟨b, hb, -, -⟩ := he
    by_cases hme : e.x.me = p
    · subst hme
      rw [own_expire e (a := pe sl a) hga hst hgnl, own_expire e hsa hst hp.unlisted]
      exact ⟨h, rfl⟩
    · simp only [codeStepRaw, codeStep]; rw [h.ne hme, hb]
      exact pair_mv _ (resume_mv e (not_UU hp hme) hme _ _ (good_timedContOf _ _ _ _) h (UU_list s _))
  | storeFinal i =>
    have hi : i ≠ p := fun e' => hd (by rw [e'])
    exact ⟨(h.modSig i _ (Or.inl hi)).finalize i .ok, rfl⟩
  | newSendFut m => exact ⟨h.newSig _, by simp only [codeStepRaw, codeStep]; rw [h.len]⟩
  | newRecvFut st => exact ⟨h.newSig _, by simp only [codeStepRaw, codeStep]; rw [h.len]⟩
  | pollSend e =>
    obtain ⟨b, hb, -, hk, -, hx, -, -⟩ := he
    by_cases hme : e.x.me = p
    · subst hme; rw [hsa] at hb; cases hb
      have hx' : e.x.st = .waiting := hx.trans (hfut hk)
      simp only [codeStepRaw]
      have hwk : (pe sl a).waker = a.waker := rfl
      rw [own_run2_pollSend e (a := pe sl a) hga hst hx' hgnl, own_run2_pollSend e hsa hst hx' hp.unlisted, hwk]
      by_cases hw : a.waker = some e.w
      · simp only [hw, ↓reduceIte]; exact ⟨h, trivial⟩
      · simp only [hw, ↓reduceIte]; exact ⟨h.modSig _ _ (Or.inr fun _ => rfl), trivial⟩
    · exact pair_mv _ (run2_mv e (not_UU hp hme) hme _ false (good_pollSend _ _ (Or.inr rfl)) h (UU_list s _))
  | pollRecv e =>
    obtain ⟨b, hb, -, hk, -, hx, -, -⟩ := he
    by_cases hme : e.x.me = p
    · subst hme; rw [hsa] at hb; cases hb
      have hx' : e.x.st = .waiting := hx.trans (hfut hk)
      simp only [codeStepRaw]
      have hwk : (pe sl a).waker = a.waker := rfl
      rw [own_run2_pollRecv e (a := pe sl a) hga hst hx' hgnl, own_run2_pollRecv e hsa hst hx' hp.unlisted, hwk]
      by_cases hw : a.waker = some e.w
      · simp only [hw, ↓reduceIte]; exact ⟨h, trivial⟩
      · simp only [hw, ↓reduceIte]; exact ⟨h.modSig _ _ (Or.inr fun _ => rfl), trivial⟩
    · exact pair_mv _ (run2_mv e (not_UU hp hme) hme _ false (good_pollRecv _ _ (Or.inr rfl)) h (UU_list s _))
  | pollNext e =>
    obtain ⟨b, hb, -, hk, -, hx, -, -⟩ := he
    by_cases hme : e.x.me = p
    · subst hme; rw [hsa] at hb; cases hb
      have hx' : e.x.st = .waiting := hx.trans (hfut hk)
      simp only [codeStepRaw]
      have hwk : (pe sl a).waker = a.waker := rfl
      rw [own_run2_pollNext e (a := pe sl a) hga hst hx' hgnl, own_run2_pollNext e hsa hst hx' hp.unlisted, hwk]
      by_cases hte : e.x.terminated = true
      · simp only [hte, ↓reduceIte]; exact ⟨h, trivial⟩
      · by_cases hw : a.waker = some e.w
        · simp only [hte, hw, Bool.false_eq_true, ↓reduceIte]; exact ⟨h, trivial⟩
        · simp only [hte, hw, Bool.false_eq_true, ↓reduceIte]; exact ⟨h.modSig _ _ (Or.inr fun _ => rfl), trivial⟩
    · exact pair_mv _ (run2_mv e (not_UU hp hme) hme _ false (good_pollNext _ _ (Or.inr rfl)) h (UU_list s _))
  | dropSendFut e =>
    obtain ⟨b, hb, -, hk, -, hx⟩ := he
    by_cases hme : e.x.me = p
    · subst hme; rw [hsa] at hb; cases hb
      have hx' : e.x.st = .waiting := hx.trans (hfut hk)
      rw [own_dropSendFut e (a := pe sl a) hga hst hx' hgnl, own_dropSendFut e hsa hst hx' hp.unlisted]
      exact ⟨h, rfl⟩
    · exact pair_mv _ (runDrop_mv e (not_UU hp hme) hme _ (good_dropSendFut _ _) h (UU_list s _))
  | dropRecvFut e =>
    obtain ⟨b, hb, -, hk, -, hx⟩ := he
    by_cases hme : e.x.me = p
    · subst hme; rw [hsa] at hb; cases hb
      have hx' : e.x.st = .waiting := hx.trans (hfut hk)
      rw [own_dropRecvFut e (a := pe sl a) hga hst hx' hgnl, own_dropRecvFut e hsa hst hx' hp.unlisted]
      exact ⟨h, rfl⟩
    · exact pair_mv _ (runDrop_mv e (not_UU hp hme) hme _ (good_dropRecvFut _ _) h (UU_list s _))

end segs

/-! ### the commutation in terms of `deliverTo` / `claimFrom` -/

theorem Popped.lt {p : SigId} {s : State} (hp : Popped p s) : p < s.sigs.length := by
  obtain ⟨a, ha, -⟩ := hp.ex; exact lt_of_sig ha

/-- **`deliverTo p m` commutes with every segment of another call** (every enabled `d'` except `p`'s own final store;
    `d'` may be a segment of `p`'s owner). -/
theorem deliverTo_mover {p : SigId} {s : State} (m : Msg) (d' : Seg) (hp : Popped p s) (he : Enabled d' s)
    (hd : d' ≠ .storeFinal p) :
    core (codeStepRaw d' (s.deliverTo p m)).1 = core ((codeStepRaw d' s).1.deliverTo p m) ∧
      (codeStepRaw d' (s.deliverTo p m)).2 = (codeStepRaw d' s).2 := by
  obtain ⟨h1, h2⟩ := seg_mover d' (mv_deliverTo hp.lt m) hp he hd
  exact ⟨h1.core_eq.trans (mv_deliverTo h1.lt m).core_eq.symm, h2⟩

/-- **`claimFrom p` commutes with every segment of another call.** -/
theorem claimFrom_mover {p : SigId} {s : State} (d' : Seg) (hp : Popped p s) (he : Enabled d' s)
    (hd : d' ≠ .storeFinal p) :
    core (codeStepRaw d' (s.claimFrom p)).1 = core ((codeStepRaw d' s).1.claimFrom p) ∧
      (codeStepRaw d' (s.claimFrom p)).2 = (codeStepRaw d' s).2 := by
  obtain ⟨h1, h2⟩ := seg_mover d' (mv_claimFrom hp.lt) hp he hd
  exact ⟨h1.core_eq.trans (mv_claimFrom h1.lt).core_eq.symm, h2⟩

/-! ### executions -/

/-- The segments that fall into the gap: each is enabled in the state reached so far, none is `p`'s final store, and `p`
    is still popped-but-not-served there. -/
def GapAlong (p : SigId) : List Seg → State → Prop
  | [], _ => True
  | d :: ds, s => Popped p s ∧ Enabled d s ∧ d ≠ .storeFinal p ∧ GapAlong p ds (codeStepRaw d s).1

theorem gap_mover {p : SigId} {sl : Option Msg} (ds : List Seg) {g s : State} (h : Mv p sl g s)
    (hgap : GapAlong p ds s) :
    Mv p sl (codeEndRaw ds g) (codeEndRaw ds s) ∧
      (codeTraceRaw ds g).map (·.2) = (codeTraceRaw ds s).map (·.2) := by
  induction ds generalizing g s with
  | nil => exact ⟨h, rfl⟩
  | cons d ds ih =>
    obtain ⟨hp, he, hd, hrest⟩ := hgap
    obtain ⟨h1, h2⟩ := seg_mover d h hp he hd
    obtain ⟨h3, h4⟩ := ih h1 hrest
    exact ⟨h3, by simp only [codeTraceRaw, List.map_cons, h2, h4]⟩

/-! ### the split of a hand-off segment -/

/-- the hand-off the send-side critical section decides on: the published `Chan` and the popped receiver -/
def sendPeer (c : Chan) (m : Msg) : Option (Chan × SigId) :=
  match c.sendPre m with
  | (c1, .handoff r) => some (c1, r)
  | _ => none

/-- the rendezvous the receive-side critical section decides on: empty buffer, a blocked sender popped -/
def recvPeer (c : Chan) : Option (Chan × SigId) :=
  if c.recvCount == 0 then none
  else match c.queue with
    | [] => (match c.nextSend with
      | (c1, some p) => some (c1, p)
      | _ => none)
    | _ :: _ => none

/-- The peer effect segment `d` performs after its unlock when started in `s`: the popped waiter and the value written to
    its slot (`some m`: `deliverTo`; `none`: `claimFrom`).  `none`: the segment has no such effect there (or is not split). -/
def peer : Seg → State → Option (SigId × Option Msg)
  | .callTrySend x _ _, s => (sendPeer s.chan x.m).map fun cr => (cr.2, some x.m)
  | .startSend e, s => (sendPeer s.chan e.x.m).map fun cr => (cr.2, some e.x.m)
  | .callTryRecv _, s => (recvPeer s.chan).map fun cp => (cp.2, none)
  | .startRecv _, s => (recvPeer s.chan).map fun cp => (cp.2, none)
  | _, _ => none

/-- the state after the critical section of `d`, before the peer effect -/
def front : Seg → State → State
  | .callTrySend x opt rt, s =>
    match sendPeer s.chan x.m with
    | some (c1, _) => { s with chan := c1 }
    | none => (codeStepRaw (.callTrySend x opt rt) s).1
  | .startSend e, s =>
    match sendPeer s.chan e.x.m with
    | some (c1, _) => { s with chan := c1 }
    | none => (codeStepRaw (.startSend e) s).1
  | .callTryRecv rt, s =>
    match recvPeer s.chan with
    | some (c1, _) => { s with chan := c1 }
    | none => (codeStepRaw (.callTryRecv rt) s).1
  | .startRecv e, s =>
    match recvPeer s.chan with
    | some (c1, _) => { s with chan := c1 }
    | none => (codeStepRaw (.startRecv e) s).1
  | d, s => (codeStepRaw d s).1

/-- the peer effect as a state transformer -/
def back : Option (SigId × Option Msg) → State → State
  | some (r, some m), t => t.deliverTo r m
  | some (p, none), t => t.claimFrom p
  | none, t => t

theorem split_trySend (x : Ctx) (opt rt : Bool) (s : State) :
    (codeStepRaw (.callTrySend x opt rt) s).1 = back (peer (.callTrySend x opt rt) s) (front (.callTrySend x opt rt) s) := by
  simp only [peer, front, sendPeer]
  rcases h : s.chan.sendPre x.m with ⟨c1, b⟩
  cases b <;> simp only [Option.map_none, Option.map_some, back]
  simp only [codeStepRaw, codeStep, single, Fine.trySend, Fine.guardNone, Fine.acquire, Fine.take]
  cases opt <;> cases rt <;> simp [h]

theorem split_startSend (e : Env) (s : State) :
    (codeStepRaw (.startSend e) s).1 = back (peer (.startSend e) s) (front (.startSend e) s) := by
  simp only [peer, front, sendPeer]
  rcases h : s.chan.sendPre e.x.m with ⟨c1, b⟩
  cases b <;> simp only [Option.map_none, Option.map_some, back]
  simp only [codeStepRaw, codeStep, Fine.send, Fine.guardNone, Fine.take, Chan.sendCS]
  cases e.opt <;> cases (e.kind == Kind.timed) <;> simp [h]

theorem split_tryRecv (rt : Bool) (s : State) :
    (codeStepRaw (.callTryRecv rt) s).1 = back (peer (.callTryRecv rt) s) (front (.callTryRecv rt) s) := by
  simp only [peer, front, recvPeer]
  by_cases h0 : s.chan.recvCount = 0
  · simp [h0, back]
  · simp only [h0, beq_iff_eq, if_false]
    rcases hq : s.chan.queue with _ | ⟨v, q⟩
    · simp only []
      rcases hn : s.chan.nextSend with ⟨c1, _ | p⟩
      · simp [back]
      · simp only [Option.map_some, back]
        simp only [codeStepRaw, codeStep, single, Fine.tryRecv, Fine.acquire, Fine.recvHead]
        cases rt <;> simp [h0, hq, hn]
    · simp [back]

theorem split_startRecv (e : Env) (s : State) :
    (codeStepRaw (.startRecv e) s).1 = back (peer (.startRecv e) s) (front (.startRecv e) s) := by
  simp only [peer, front, recvPeer]
  by_cases h0 : s.chan.recvCount = 0
  · simp [h0, back]
  · simp only [h0, beq_iff_eq, if_false]
    rcases hq : s.chan.queue with _ | ⟨v, q⟩
    · simp only []
      rcases hn : s.chan.nextSend with ⟨c1, _ | p⟩
      · simp [back]
      · simp only [Option.map_some, back]
        simp only [codeStepRaw, codeStep, Fine.recv, Fine.recvHead]
        cases (e.kind == Kind.timed) <;> simp [h0, hq, hn]
    · simp [back]

/-- **The split** (task item 1): a segment is its critical section followed by its peer effect.  Split here:
    `callTrySend`, `startSend` (hand-off branch), `callTryRecv`, `startRecv` (rendezvous branch); for every other segment
    and branch `peer = none` and `front` is the whole segment. -/
theorem split_eq (d : Seg) (s : State) : (codeStepRaw d s).1 = back (peer d s) (front d s) := by
  cases d with
  | callTrySend x opt rt => exact split_trySend x opt rt s
  | startSend e => exact split_startSend e s
  | callTryRecv rt => exact split_tryRecv rt s
  | startRecv e => exact split_startRecv e s
  | _ => rfl

theorem mv_back {p : SigId} {sl : Option Msg} {t : State} (hlt : p < t.sigs.length) :
    Mv p sl (back (some (p, sl)) t) t := by
  cases sl with
  | none => exact mv_claimFrom hlt
  | some m => exact mv_deliverTo hlt m

theorem nextRecv_pop {c c1 : Chan} {r : SigId} (h : c.nextRecv = (c1, some r)) : c.waitList = r :: c1.waitList := by
  unfold Chan.nextRecv at h
  split at h
  · simp at h
  · split at h <;> simp at h
    rename_i hw; obtain ⟨rfl, rfl⟩ := h; exact hw

theorem nextSend_pop {c c1 : Chan} {r : SigId} (h : c.nextSend = (c1, some r)) : c.waitList = r :: c1.waitList := by
  unfold Chan.nextSend at h
  split at h
  · simp at h
  · split at h <;> simp at h
    rename_i hw; obtain ⟨rfl, rfl⟩ := h; exact hw

theorem sendPeer_pop {c c1 : Chan} {m : Msg} {r : SigId} (h : sendPeer c m = some (c1, r)) :
    c.waitList = r :: c1.waitList := by
  unfold sendPeer at h
  rcases hsp : c.sendPre m with ⟨c', b⟩
  rw [hsp] at h
  cases b <;> simp at h
  obtain ⟨rfl, rfl⟩ := h
  unfold Chan.sendPre at hsp
  split at hsp
  · simp at hsp; obtain ⟨-, h2⟩ := hsp; split at h2 <;> cases h2
  · split at hsp
    · rename_i heq; simp at hsp; obtain ⟨rfl, rfl⟩ := hsp; exact nextRecv_pop heq
    · split at hsp <;> simp at hsp

theorem recvPeer_pop {c c1 : Chan} {r : SigId} (h : recvPeer c = some (c1, r)) : c.waitList = r :: c1.waitList := by
  unfold recvPeer at h
  split at h
  · cases h
  · split at h
    · split at h
      · rename_i heq; simp at h; obtain ⟨rfl, rfl⟩ := h; exact nextSend_pop heq
      · cases h
    · cases h

/-- The waiter a split segment pops was listed; with a duplicate-free wait list (`Struct.nodup`) it is unlisted after the
    critical section, and the critical section leaves the waiter table alone. -/
theorem peer_popped {d : Seg} {s : State} {p : SigId} {sl : Option Msg} (hn : s.chan.waitList.Nodup)
    (hpeer : peer d s = some (p, sl)) :
    p ∈ s.chan.waitList ∧ p ∉ (front d s).chan.waitList ∧ (front d s).sigs = s.sigs := by
  have key : ∀ (c1 : Chan) (r : SigId), s.chan.waitList = r :: c1.waitList → r ∈ s.chan.waitList ∧ r ∉ c1.waitList := by
    intro c1 r hw
    rw [hw] at hn ⊢
    exact ⟨List.mem_cons_self .., (List.nodup_cons.1 hn).1⟩
  cases d <;> simp only [peer] at hpeer <;> try (cases hpeer)
  case callTrySend x opt rt =>
    rcases hsp : sendPeer s.chan x.m with _ | ⟨c1, r⟩
    · rw [hsp] at hpeer; cases hpeer
    · rw [hsp] at hpeer; simp at hpeer; obtain ⟨rfl, -⟩ := hpeer
      have := key _ _ (sendPeer_pop hsp)
      simp only [front, hsp]; exact ⟨this.1, this.2, trivial⟩
  case startSend e =>
    rcases hsp : sendPeer s.chan e.x.m with _ | ⟨c1, r⟩
    · rw [hsp] at hpeer; cases hpeer
    · rw [hsp] at hpeer; simp at hpeer; obtain ⟨rfl, -⟩ := hpeer
      have := key _ _ (sendPeer_pop hsp)
      simp only [front, hsp]; exact ⟨this.1, this.2, trivial⟩
  case callTryRecv rt =>
    rcases hsp : recvPeer s.chan with _ | ⟨c1, r⟩
    · rw [hsp] at hpeer; cases hpeer
    · rw [hsp] at hpeer; simp at hpeer; obtain ⟨rfl, -⟩ := hpeer
      have := key _ _ (recvPeer_pop hsp)
      simp only [front, hsp]; exact ⟨this.1, this.2, trivial⟩
  case startRecv e =>
    rcases hsp : recvPeer s.chan with _ | ⟨c1, r⟩
    · rw [hsp] at hpeer; cases hpeer
    · rw [hsp] at hpeer; simp at hpeer; obtain ⟨rfl, -⟩ := hpeer
      have := key _ _ (recvPeer_pop hsp)
      simp only [front, hsp]; exact ⟨this.1, this.2, trivial⟩

/-- **Corollary** (task item 3).  A code execution in which the hand-off segment `d` is split — its critical section
    (`front`), then the segments `ds` of other calls, then its peer effect (`back`) — ends `core`-equal to the
    segment-atomic execution `d :: ds` (`back` right after `front`), and the segments `ds` return the same results. -/
theorem split_handoff (d : Seg) (ds : List Seg) (s : State) {p : SigId} {sl : Option Msg}
    (hpeer : peer d s = some (p, sl)) (hgap : GapAlong p ds (front d s)) :
    core (back (peer d s) (codeEndRaw ds (front d s))) = core (codeEndRaw (d :: ds) s) ∧
      (codeTraceRaw ds (front d s)).map (·.2) = ((codeTraceRaw (d :: ds) s).tail).map (·.2) := by
  simp only [codeEndRaw, codeTraceRaw, List.tail_cons]
  rw [split_eq d s, hpeer]
  cases ds with
  | nil => exact ⟨rfl, rfl⟩
  | cons d' ds' =>
    have hlt := hgap.1.lt
    obtain ⟨h1, h2⟩ := gap_mover (d' :: ds') (mv_back (sl := sl) hlt) hgap
    exact ⟨(mv_back h1.lt).core_eq.trans h1.core_eq.symm, h2.symm⟩

/-! ### why `Popped` asks a future to be registered (`fut = waiting`)

  A receive future that was created and never polled is pending and unlisted with `fut = zero`.  Its `Drop` returns at
  once and retires the future, slot included; `deliverTo` does not commute with that.  (Not a reachable hand-off: only
  listed waiters are popped, and a listed future is registered.) -/

def cexS : State := ((State.init (some 0)).newSig { role := .recv, kind := .async }).1
def cexD : Seg := .dropRecvFut { x := { me := 0, st := .zero }, kind := .async }
example : Enabled cexD cexS := ⟨_, rfl, rfl, rfl, rfl, rfl⟩
example : (codeStepRaw cexD (cexS.deliverTo 0 5)).1.sigs.map (·.slot) = [none] ∧
    ((codeStepRaw cexD cexS).1.deliverTo 0 5).sigs.map (·.slot) = [some 5] := by decide

end Refine
end Kanal

#print axioms Kanal.Refine.run2_mv
#print axioms Kanal.Refine.run_mv
#print axioms Kanal.Refine.seg_mover
#print axioms Kanal.Refine.deliverTo_mover
#print axioms Kanal.Refine.claimFrom_mover
#print axioms Kanal.Refine.gap_mover
#print axioms Kanal.Refine.split_eq
#print axioms Kanal.Refine.split_handoff
#print axioms Kanal.Refine.peer_popped
