/-
  Kanal.Refine.Congr — the interpreters of `Kanal.Bridge` / `Kanal.Bridge2` depend on the state only through `core`.

  `run`, `run2`, `resume`, `runDrop` (and the frame operations `retire`, `retireFut`, `forget`) read and write only
  `chan`, `sigs`, `wakes`; the ghost fields of `State` are carried along (and written by `deliverTo`), never read.
  Hence: core-equal start states give core-equal end states and the *same* outcome (same constructor, same result,
  same continuation — the continuation is a subtree of the tree that was run, not a function of the state).
-/
import Kanal.Bridge2

namespace Kanal
namespace Refine
open Bridge State

theorem core_chan {s t : State} (h : core s = core t) : s.chan = t.chan := ((core_eq_iff s t).1 h).1
theorem core_sw {s t : State} (h : core s = core t) : SW s t := ((core_eq_iff s t).1 h).2
theorem core_sigs {s t : State} (h : core s = core t) : s.sigs = t.sigs := (core_sw h).1
theorem core_wakes {s t : State} (h : core s = core t) : s.wakes = t.wakes := (core_sw h).2

theorem core_mk {s t : State} (hc : s.chan = t.chan) (hs : s.sigs = t.sigs) (hw : s.wakes = t.wakes) :
    core s = core t := core_congr hc ⟨hs, hw⟩

/-! ### the state primitives -/

theorem slotMsg_congr {s t : State} (h : core s = core t) (p : SigId) : s.slotMsg p = t.slotMsg p := by
  unfold State.slotMsg; rw [core_sigs h]

theorem deliverTo_core {s t : State} (h : core s = core t) (p : SigId) (m : Msg) :
    core (s.deliverTo p m) = core (t.deliverTo p m) :=
  core_congr (by rw [deliverTo_chan, deliverTo_chan, core_chan h]) (deliverTo_sw (core_sw h) p m)

theorem finalize_core {s t : State} (h : core s = core t) (p : SigId) (o : SigSt) :
    core (s.finalize p o) = core (t.finalize p o) :=
  core_congr (by rw [finalize_chan, finalize_chan, core_chan h]) (finalize_sw (core_sw h) p o)

theorem claimFrom_core {s t : State} (h : core s = core t) (p : SigId) :
    core (s.claimFrom p) = core (t.claimFrom p) :=
  core_congr (by rw [claimFrom_chan, claimFrom_chan, core_chan h]) (claimFrom_sw (core_sw h) p)

theorem takeFrom_core {s t : State} (h : core s = core t) (p : SigId) :
    core (s.takeFrom p) = core (t.takeFrom p) :=
  core_congr (by rw [takeFrom_chan, takeFrom_chan, core_chan h]) (takeFrom_sw (core_sw h) p)

theorem setChan_core {s t : State} (h : core s = core t) (c : Chan) :
    core { s with chan := c } = core { t with chan := c } := by
  have hs := core_sigs h; have hw := core_wakes h
  exact core_mk rfl hs hw

theorem newSig_core {s t : State} (h : core s = core t) (g : Sig) :
    core (s.newSig g).1 = core (t.newSig g).1 := by
  have hc := core_chan h; have hs := core_sigs h; have hw := core_wakes h
  exact core_mk hc (by simp [State.newSig, hs]) hw

theorem modSig_core {s t : State} (h : core s = core t) (i : SigId) (f : Sig → Sig) :
    core (modSig s i f) = core (modSig t i f) := by
  have hc := core_chan h; have hs := core_sigs h; have hw := core_wakes h
  unfold modSig; rw [hs]
  split
  · exact core_mk hc (by simp [State.setSig, hs]) hw
  · exact h

theorem retire_core {s t : State} (h : core s = core t) (i : SigId) : core (retire s i) = core (retire t i) :=
  modSig_core h i _

theorem retireFut_core {s t : State} (h : core s = core t) (i : SigId) : core (retireFut s i) = core (retireFut t i) :=
  modSig_core h i _

theorem forget_core {s t : State} (h : core s = core t) (i : SigId) : core (forget s i) = core (forget t i) :=
  modSig_core h i _

/-! ### effects and questions -/

theorem effState_congr (e : Env) {s t : State} (h : core s = core t) (ef : Eff) :
    (effState e s ef = none ∧ effState e t ef = none) ∨
    (∃ s' t', effState e s ef = some s' ∧ effState e t ef = some t' ∧ core s' = core t') := by
  cases ef
  case unknown => left; exact ⟨rfl, rfl⟩
  case sigSend p m => right; exact ⟨_, _, rfl, rfl, deliverTo_core h p m⟩
  case sigTerminate p => right; exact ⟨_, _, rfl, rfl, finalize_core h p _⟩
  case newSendSig => right; exact ⟨_, _, rfl, rfl, newSig_core h _⟩
  case newRecvSig => right; exact ⟨_, _, rfl, rfl, newSig_core h _⟩
  case setState st => right; exact ⟨_, _, rfl, rfl, modSig_core h _ _⟩
  case registerWaker => right; exact ⟨_, _, rfl, rfl, modSig_core h _ _⟩
  case rearmSig => right; exact ⟨_, _, rfl, rfl, modSig_core h _ _⟩
  case setTerminated => right; exact ⟨_, _, rfl, rfl, modSig_core h _ _⟩
  all_goals right; exact ⟨_, _, rfl, rfl, h⟩

theorem ansB_congr (e : Env) {s t : State} (h : core s = core t) (q : AskB) : ansB e s q = ansB e t q := by
  cases q <;> simp only [ansB, core_sigs h]

/-! ### `run2`, `resume`, `runDrop` -/

/-- TASK item 4 for `run2`: core-equal start states, core-equal end states, the same outcome. -/
theorem run2_congr (e : Env) (a : Act) (l : Bool) {s t : State} (h : core s = core t) :
    core (run2 e a l s).1 = core (run2 e a l t).1 ∧ (run2 e a l s).2 = (run2 e a l t).2 := by
  induction a generalizing l s t with
  | ret r => simp only [run2_ret]; exact ⟨h, trivial⟩
  | diverge => simp only [run2_diverge]; exact ⟨h, trivial⟩
  | lock k ih => simp only [run2_lock]; rw [core_chan h]; exact ih _ _ h
  | tryLock k ih => simp only [run2_tryLock]; rw [core_chan h]; exact ih _ _ h
  | unlock c k ih => simp only [run2_unlock]; exact ih _ (setChan_core h c)
  | eff ef k ih =>
    simp only [run2]
    rcases effState_congr e h ef with ⟨h1, h2⟩ | ⟨s', t', h1, h2, h3⟩
    · rw [h1, h2]; exact ⟨h, rfl⟩
    · rw [h1, h2]; exact ih _ h3
  | askB q k ih =>
    simp only [run2]
    rw [ansB_congr e h q]
    split
    · exact ih _ _ h
    · exact ⟨h, rfl⟩
    · exact ⟨h, rfl⟩
    · exact ⟨h, rfl⟩
  | askM q k ih =>
    cases q
    case sigRecv p =>
      simp only [run2_sigRecv]
      rw [slotMsg_congr h p]
      cases l
      · exact ih _ _ (claimFrom_core h p)
      · exact ih _ _ (takeFrom_core h p)
    case readLocal => simp only [run2_readLocal]; rw [slotMsg_congr h]; exact ih _ _ h
    case readRet => simp only [run2_readRet]; rw [slotMsg_congr h]; exact ih _ _ h
    case readSigPtr => simp only [run2_readSigPtr]; rw [slotMsg_congr h]; exact ih _ _ h
  | askP k ih =>
    simp only [run2]
    rw [core_sigs h]
    split
    · exact ih _ _ h
    · exact ⟨h, rfl⟩

theorem resume_congr (e : Env) (k : Bool → Act) (b : Bool) {s t : State} (h : core s = core t) :
    core (resume e k b s).1 = core (resume e k b t).1 ∧ (resume e k b s).2 = (resume e k b t).2 := by
  obtain ⟨h1, h2⟩ := run2_congr e (k b) false h
  unfold resume
  rcases hs : run2 e (k b) false s with ⟨s', o⟩
  rcases ht : run2 e (k b) false t with ⟨t', o'⟩
  rw [hs, ht] at h1 h2
  simp only at h1 h2
  subst h2
  cases o <;> simp only <;> first | exact ⟨retire_core h1 _, trivial⟩ | exact ⟨h1, trivial⟩ | exact ⟨h1, rfl⟩

theorem runDrop_congr (e : Env) (a : Act) {s t : State} (h : core s = core t) :
    core (runDrop e a s).1 = core (runDrop e a t).1 ∧ (runDrop e a s).2 = (runDrop e a t).2 := by
  obtain ⟨h1, h2⟩ := run2_congr e a false h
  unfold runDrop
  rcases hs : run2 e a false s with ⟨s', o⟩
  rcases ht : run2 e a false t with ⟨t', o'⟩
  rw [hs, ht] at h1 h2
  simp only at h1 h2
  subst h2
  cases o <;> simp only <;> first | exact ⟨retireFut_core h1 _, trivial⟩ | exact ⟨h1, trivial⟩ | exact ⟨h1, rfl⟩

/-! ### `run` -/

/-- TASK item 4 for `run` (single-section calls; `vec` is what `drain_into` pushes). -/
theorem run_congr (a : Act) (l : Bool) {s t : State} (h : core s = core t) (vec : List Msg) :
    core (Bridge.run a l s vec).1 = core (Bridge.run a l t vec).1 ∧
      (Bridge.run a l s vec).2 = (Bridge.run a l t vec).2 := by
  induction a generalizing l s t vec with
  | ret r => simp only [run_ret]; exact ⟨h, trivial⟩
  | diverge => simp only [Bridge.run]; exact ⟨h, trivial⟩
  | lock k ih => simp only [run_lock]; rw [core_chan h]; exact ih _ _ h _
  | tryLock k ih => simp only [run_tryLock]; rw [core_chan h]; exact ih _ _ h _
  | unlock c k ih => simp only [run_unlock]; exact ih _ (setChan_core h c) _
  | eff ef k ih =>
    cases ef
    case sigSend p m => simp only [run_sigSend]; exact ih _ (deliverTo_core h p m) _
    case sigTerminate p => simp only [run_sigTerminate]; exact ih _ (finalize_core h p _) _
    case takeData => simp only [run_takeData]; exact ih _ h _
    case vecReserve n => simp only [run_vecReserve]; exact ih _ h _
    case vecPush m => simp only [run_vecPush]; exact ih _ h _
    all_goals simp only [Bridge.run]; exact ⟨h, trivial⟩
  | askB q k ih =>
    cases q
    case dataIsNone => simp only [run_dataIsNone]; exact ih _ _ h _
    all_goals simp only [Bridge.run]; exact ⟨h, trivial⟩
  | askM q k ih =>
    cases q
    case sigRecv p =>
      simp only [run_sigRecv]
      rw [slotMsg_congr h p]
      cases l
      · exact ih _ _ (claimFrom_core h p) _
      · exact ih _ _ (takeFrom_core h p) _
    all_goals simp only [Bridge.run]; exact ⟨h, trivial⟩
  | askP k ih => simp only [Bridge.run]; exact ⟨h, trivial⟩

end Refine
end Kanal

#print axioms Kanal.Refine.run2_congr
#print axioms Kanal.Refine.run_congr
#print axioms Kanal.Refine.resume_congr
#print axioms Kanal.Refine.runDrop_congr
