/-
  Kanal.Refine.Last — exclusion 1 (the drop of the last handle of all) only cuts off the very end of an execution: once no
  handle is left, no segment is enabled.
-/
import Kanal.Refine.Step

namespace Kanal
namespace Refine
open Bridge State

theorem alive_live {s : State} (hr : Reach .good s) {i : Nat} {g : Sig} (hg : s.sigs[i]? = some g)
    (ha : g.alive = true) : s.liveS + s.liveR ≠ 0 := by
  have hb := (reach_str hr).borrow i g hg ha
  cases hrole : g.role
  · have := hb.1 hrole; omega
  · have := hb.2 hrole; omega

/-- In a reachable state every enabled segment needs a live handle: its own, or the one its waiter / future borrows
    (`Borrow`); a claimed waiter is alive (`SigOK.claimed`). -/
theorem enabled_live {s : State} (hr : Reach .good s) {d : Seg} (he : Enabled d s) : s.liveS + s.liveR ≠ 0 := by
  cases d with
  | callTrySend x opt rt => have := he.1; omega
  | callTryRecv rt => have : s.liveR ≠ 0 := he; omega
  | callDrain x => have : s.liveR ≠ 0 := he; omega
  | callClose => exact he
  | callClone side => cases side <;> (have : _ ≠ 0 := he) <;> simp only [live] at this <;> omega
  | callDropHandle side => have := he.2.2; omega
  | callObserve o =>
    cases o with
    | isDisconnected side => cases side <;> (have : _ ≠ 0 := he) <;> omega
    | isTerminated => have : s.liveR ≠ 0 := he; omega
    | _ => exact he
  | callConvert side => cases side <;> (have : _ ≠ 0 := he) <;> simp only [live] at this <;> omega
  | startSend e => have := he.2.1; omega
  | startRecv e => have := he.2.1; omega
  | resumeWaiter e late => obtain ⟨g, hg, ha, -⟩ := he; exact alive_live hr hg ha
  | expireWaiter e => obtain ⟨g, hg, ha, -⟩ := he; exact alive_live hr hg ha
  | storeFinal i =>
    obtain ⟨g, hg, hc, -⟩ := he
    exact alive_live hr hg (((reach_str hr).sigOK i g hg).claimed hc).1
  | newSendFut m => have := he.1; omega
  | newRecvFut st => have : s.liveR ≠ 0 := he; omega
  | pollSend e => obtain ⟨g, hg, ha, -⟩ := he; exact alive_live hr hg ha
  | pollRecv e => obtain ⟨g, hg, ha, -⟩ := he; exact alive_live hr hg ha
  | pollNext e => obtain ⟨g, hg, ha, -⟩ := he; exact alive_live hr hg ha
  | dropSendFut e => obtain ⟨g, hg, ha, -⟩ := he; exact alive_live hr hg ha
  | dropRecvFut e => obtain ⟨g, hg, ha, -⟩ := he; exact alive_live hr hg ha

end Refine
end Kanal

#print axioms Kanal.Refine.enabled_live
