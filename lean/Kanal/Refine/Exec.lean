/-
  Kanal.Refine.Exec — whole executions: the code, run segment by segment from a fresh channel, never leaves the model.
-/
import Kanal.Refine.Step

namespace Kanal
namespace Refine
open Bridge State

/-- The code run through a list of segments: the state after each segment and what its caller saw. -/
def codeTrace : List Seg → State → List (State × Option Res)
  | [], _ => []
  | d :: ds, g => codeStep d g :: codeTrace ds (codeStep d g).1

/-- the code state after all of them -/
def codeEnd : List Seg → State → State
  | [], g => g
  | d :: ds, g => codeEnd ds (codeStep d g).1

/-- The model run through the same segments (`specSeg`: the `Spec.step` of the segment's label); `none` if a label is
    not enabled. -/
def specTrace : List Seg → State → Option (List (State × Res))
  | [], _ => some []
  | d :: ds, s =>
    match specSeg d s with
    | none => none
    | some p =>
      match specTrace ds p.1 with
      | none => none
      | some tr => some (p :: tr)

/-- the model state after all of them -/
def specEnd : List Seg → State → State
  | [], s => s
  | d :: ds, s =>
    match specSeg d s with
    | none => s
    | some p => specEnd ds p.1

/-- the labels of `Spec` the segments are the images of, along the model's run -/
def labelsAlong : List Seg → State → List Label
  | [], _ => []
  | d :: ds, s =>
    d.labels s ++ (match specSeg d s with
      | none => []
      | some p => labelsAlong ds p.1)

/-- the model's results for those labels (everything in `specTrace` but the entries of label-less segments) -/
def resultsAlong : List Seg → State → List Res
  | [], _ => []
  | d :: ds, s =>
    match specSeg d s with
    | none => []
    | some p => (if (d.labels s).isEmpty then [] else [p.2]) ++ resultsAlong ds p.1

/-- every segment is enabled in the model state reached so far -/
def EnabledAlong : List Seg → State → Prop
  | [], _ => True
  | d :: ds, s => Enabled d s ∧ ∀ p, specSeg d s = some p → EnabledAlong ds p.1

/-- code and model agree on one segment: `core`-equal states, the same result -/
def Agree (c : State × Option Res) (m : State × Res) : Prop := core c.1 = core m.1 ∧ c.2 = some m.2

/-- code and model agree segment by segment -/
inductive AgreeAll : List (State × Option Res) → List (State × Res) → Prop
  | nil : AgreeAll [] []
  | cons {c m cs ms} : Agree c m → AgreeAll cs ms → AgreeAll (c :: cs) (m :: ms)

theorem specTrace_cons {d : Seg} {ds : List Seg} {s : State} {tr : List (State × Res)}
    (h : specTrace (d :: ds) s = some tr) :
    ∃ p tr', specSeg d s = some p ∧ specTrace ds p.1 = some tr' ∧ tr = p :: tr' := by
  simp only [specTrace] at h
  cases h1 : specSeg d s with
  | none => rw [h1] at h; cases h
  | some p =>
    rw [h1] at h
    simp only at h
    cases h2 : specTrace ds p.1 with
    | none => rw [h2] at h; cases h
    | some tr' =>
      rw [h2] at h
      simp only [Option.some.injEq] at h
      exact ⟨p, tr', rfl, h2, h.symm⟩

/-- Executions, from any reachable model state and any `core`-equal code state. -/
theorem code_refines_spec_from {s g : State} (hr : Reach .good s) (hc : core g = core s) (ds : List Seg)
    (he : EnabledAlong ds s) :
    ∃ tr, specTrace ds s = some tr ∧ AgreeAll (codeTrace ds g) tr ∧
      core (codeEnd ds g) = core (specEnd ds s) := by
  induction ds generalizing s g with
  | nil => exact ⟨[], rfl, AgreeAll.nil, hc⟩
  | cons d ds ih =>
    obtain ⟨hd, hrest⟩ := he
    obtain ⟨s', r, h1, h2, h3⟩ := seg_sim hr hc d hd
    obtain ⟨tr, t1, t2, t3⟩ := ih (specSeg_reach hr h1) h2 (hrest _ h1)
    refine ⟨(s', r) :: tr, ?_, AgreeAll.cons ⟨h2, h3⟩ t2, ?_⟩
    · simp only [specTrace, h1, t1]
    · simp only [codeEnd, specEnd, h1]; exact t3

/-- TASK item 6, **executions**.  For every list of segments `ds`, each enabled in the model state reached so far
    (`EnabledAlong`), from a fresh channel of any capacity: the model can follow (`specTrace … = some tr`), and the code run
    through `ds` (`codeTrace`) and the model run through the labels of `ds` agree segment by segment — the same result,
    `core`-equal states — and so do the final states. -/
theorem code_refines_spec (cap : Option Nat) (ds : List Seg) (he : EnabledAlong ds (State.init cap)) :
    ∃ tr, specTrace ds (State.init cap) = some tr ∧
      AgreeAll (codeTrace ds (State.init cap)) tr ∧
      core (codeEnd ds (State.init cap)) = core (specEnd ds (State.init cap)) :=
  code_refines_spec_from (Reach.init cap) rfl ds he

/-! ### the model's run is a run of `Spec` labels -/

theorem run_append (v : Variant) (s : State) (l1 l2 : List Label) :
    Kanal.run v s (l1 ++ l2) =
      match Kanal.run v s l1 with
      | none => none
      | some (s1, rs1) =>
        match Kanal.run v s1 l2 with
        | none => none
        | some (s2, rs2) => some (s2, rs1 ++ rs2) := by
  induction l1 generalizing s with
  | nil =>
    simp only [List.nil_append, Kanal.run]
    cases Kanal.run v s l2 with
    | none => rfl
    | some p => rfl
  | cons l l1 ih =>
    simp only [List.cons_append, Kanal.run]
    cases step v s l with
    | none => rfl
    | some p =>
      simp only [ih]
      cases Kanal.run v p.1 l1 with
      | none => rfl
      | some q =>
        simp only []
        cases Kanal.run v q.1 l2 with
        | none => rfl
        | some q2 => rfl

/-- `specTrace` is `Kanal.run .good` on the labels of the segments: same final state, same results. -/
theorem specTrace_run {ds : List Seg} {s : State} {tr : List (State × Res)} (h : specTrace ds s = some tr) :
    Kanal.run .good s (labelsAlong ds s) = some (specEnd ds s, resultsAlong ds s) := by
  induction ds generalizing s tr with
  | nil => rfl
  | cons d ds ih =>
    obtain ⟨p, tr', h1, h2, -⟩ := specTrace_cons h
    have ih' := ih h2
    simp only [labelsAlong, specEnd, resultsAlong, h1]
    rw [run_append]
    unfold specSeg at h1
    split at h1
    · rename_i hl
      cases h1
      simp only [hl, Kanal.run, List.isEmpty_nil, if_true, List.nil_append]
      simp only at ih'
      rw [ih']
    · rename_i l hl
      simp only [hl, Kanal.run, h1, ih', List.isEmpty_cons, Bool.false_eq_true, if_false]
    · cases h1

/-- `code_refines_spec` with the model's side as a run of `Spec.step` through the labels of `ds`. -/
theorem code_refines_spec_run (cap : Option Nat) (ds : List Seg) (he : EnabledAlong ds (State.init cap)) :
    ∃ s', Kanal.run .good (State.init cap) (labelsAlong ds (State.init cap)) =
        some (s', resultsAlong ds (State.init cap)) ∧
      Reach .good s' ∧ core (codeEnd ds (State.init cap)) = core s' := by
  obtain ⟨tr, h1, -, h3⟩ := code_refines_spec cap ds he
  have h := specTrace_run h1
  exact ⟨_, h, Reach.run (Reach.init cap) _ _ _ h, h3⟩

/-! ### invariants of `core` hold along every segment-atomic code execution -/

/-- every model state in the trace is reachable -/
theorem specTrace_reach {ds : List Seg} {s : State} (hr : Reach .good s) {tr : List (State × Res)}
    (h : specTrace ds s = some tr) : ∀ m ∈ tr, Reach .good m.1 := by
  induction ds generalizing s tr with
  | nil => cases h; intro m hm; cases hm
  | cons d ds ih =>
    obtain ⟨p, tr', h1, h2, rfl⟩ := specTrace_cons h
    have hp : Reach .good p.1 := specSeg_reach (r := p.2) hr h1
    intro m hm
    rcases List.mem_cons.1 hm with rfl | hm
    · exact hp
    · exact ih hp h2 m hm

/-- The part of `Struct` (`Lemmas/Defs.lean`) that is a function of `core`: the wait list is duplicate-free, every listed
    waiter exists and is `Listed` (alive, pending, unclaimed, of the one role the list currently holds, a sender with
    its value, a receiver without, a future registered with a waker), the list is empty on a half-closed channel, and
    `Chan.Inv` (buffer within capacity; receivers wait only on an empty buffer, senders only on a full one). -/
structure CoreInv (c : Bridge.Core) : Prop where
  nodup  : c.chan.waitList.Nodup
  listed : ∀ i ∈ c.chan.waitList, ∃ a, c.sigs[i]? = some a ∧ Listed c.chan a
  half   : (c.chan.sendCount = 0 ∨ c.chan.recvCount = 0) → c.chan.waitList = []
  inv    : c.chan.Inv
  sigOK  : ∀ (i : Nat) (a : Sig), c.sigs[i]? = some a → SigOK a

theorem coreInv_of_reach {s : State} (hr : Reach .good s) : CoreInv (core s) :=
  let h := reach_str hr
  ⟨h.nodup, h.listed, h.half, h.chanInv, h.sigOK⟩

/-- TASK item 6, corollary: every state the code passes through in a segment-atomic execution from a fresh channel
    satisfies `CoreInv`. -/
theorem code_coreInv (cap : Option Nat) (ds : List Seg) (he : EnabledAlong ds (State.init cap)) :
    ∀ c ∈ codeTrace ds (State.init cap), CoreInv (core c.1) := by
  obtain ⟨tr, h1, h2, -⟩ := code_refines_spec cap ds he
  have hreach := specTrace_reach (Reach.init cap) h1
  generalize codeTrace ds (State.init cap) = ct at h2
  clear h1
  induction h2 with
  | nil => intro c hc; cases hc
  | cons hab _ ih =>
    intro c hc
    rcases List.mem_cons.1 hc with rfl | hc
    · rw [hab.1]; exact coreInv_of_reach (hreach _ (List.mem_cons_self ..))
    · exact ih (fun m hm => hreach m (List.mem_cons_of_mem _ hm)) c hc

/-- The same, spelled out: in every code state of such an execution the wait list has no duplicates and contains only
    alive, pending waiters of one role, and the buffer respects the capacity. -/
theorem code_waitList_ok (cap : Option Nat) (ds : List Seg) (he : EnabledAlong ds (State.init cap)) :
    ∀ c ∈ codeTrace ds (State.init cap),
      c.1.chan.waitList.Nodup ∧
      (∀ i ∈ c.1.chan.waitList, ∃ a, c.1.sigs[i]? = some a ∧ a.alive = true ∧ a.st = .pending ∧
          a.role = (if c.1.chan.recvBlocking then Role.recv else Role.send)) ∧
      (∀ n, c.1.chan.capacity = some n → c.1.chan.queue.length ≤ n) := by
  intro c hc
  have h := code_coreInv cap ds he c hc
  refine ⟨h.nodup, ?_, ?_⟩
  · intro i hi
    obtain ⟨a, ha, hl⟩ := h.listed i hi
    exact ⟨a, ha, hl.alive, hl.pending, hl.role⟩
  · intro n hn
    have := h.inv.cap
    unfold Chan.WithinCap at this
    simp only [core] at this
    rw [hn] at this; exact this

end Refine
end Kanal

#print axioms Kanal.Refine.code_refines_spec
#print axioms Kanal.Refine.code_refines_spec_run
#print axioms Kanal.Refine.code_coreInv
#print axioms Kanal.Refine.code_waitList_ok
