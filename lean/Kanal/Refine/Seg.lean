/-
  Kanal.Refine.Seg — segments of code, their labels, their execution, their enabledness.
  (The overview, the `Seg` ↔ `Label` table and the list of exclusions are in the header of `Kanal/Refine.lean`.)
-/
import Kanal.Refine.Congr

namespace Kanal
namespace Refine
open Bridge State

/-- The eleven observers (`len`, `is_empty`, …): one guard each. -/
inductive Obs where
  | len | isEmpty | isFull | capacity | isBounded | senderCount | receiverCount | isClosed
  | isDisconnected (side : Side) | isTerminated
  deriving DecidableEq, Repr, Inhabited

def Obs.label : Obs → Label
  | .len => .len | .isEmpty => .isEmpty | .isFull => .isFull | .capacity => .capacity | .isBounded => .isBounded
  | .senderCount => .senderCount | .receiverCount => .receiverCount | .isClosed => .isClosed
  | .isDisconnected side => .isDisconnected side | .isTerminated => .isTerminated

/-- what the observer computes under the lock (the argument of `Fine.observe`) -/
def Obs.fn : Obs → Chan → Res
  | .len => fun c => .num c.len
  | .isEmpty => fun c => .bool c.isEmpty
  | .isFull => fun c => .bool c.isFull
  | .capacity => fun c => .cap c.capacity
  | .isBounded => fun c => .bool c.isBounded
  | .senderCount => fun c => .num c.sendCount
  | .receiverCount => fun c => .num c.recvCount
  | .isClosed => fun c => .bool c.closed
  | .isDisconnected .send => fun c => .bool c.isDisconnectedS
  | .isDisconnected .recv => fun c => .bool c.isDisconnectedR
  | .isTerminated => fun c => .bool c.isTerminated

/-- the handle the observer is called through exists -/
def Obs.live (s : State) : Obs → Prop
  | .isDisconnected .send => s.liveS ≠ 0
  | .isDisconnected .recv => s.liveR ≠ 0
  | .isTerminated => s.liveR ≠ 0
  | _ => s.liveS + s.liveR ≠ 0

/-- live handles of a side -/
def live (s : State) : Side → Nat
  | .send => s.liveS
  | .recv => s.liveR

/-- A *segment*: a piece of code that runs from a call's start, or from the point where a blocked call / a future is
    resumed, up to its return or its next suspension.  `Env` / `Ctx` carry what the caller passes and what the
    environment answers (the value, the caller's own signal id, the waker, the clock, the future's fields). -/
inductive Seg where
  -- calls that consist of one critical section
  | callTrySend (x : Ctx) (opt rt : Bool)   -- `try_send`, `try_send_option`, `try_send_realtime`, `try_send_option_realtime`
  | callTryRecv (rt : Bool)                 -- `try_recv`, `try_recv_realtime`
  | callDrain (x : Ctx)                     -- `drain_into`
  | callClose                               -- `close`
  | callClone (side : Side)                 -- `clone`, `clone_sync`, `clone_async`
  | callDropHandle (side : Side)            -- `Drop` of a handle
  | callObserve (o : Obs)                   -- the observers
  | callConvert (side : Side)               -- `to_sync` / `to_async` / `as_sync` / `as_async` (takes no lock)
  -- blocking and timed calls
  | startSend (e : Env)                     -- `send` / `send_timeout` / `send_option_timeout` up to return or first wait
  | startRecv (e : Env)                     -- `recv` / `recv_timeout` up to return or first wait
  | resumeWaiter (e : Env) (late : Bool)    -- a blocked waiter whose signal is final resumes and returns
                                            -- (`late`: it waits at the `wait` its failed cancel fell back to)
  | expireWaiter (e : Env)                  -- `wait_timeout` of a timed waiter gives up
  -- the second half of a hand-off
  | storeFinal (i : SigId)                  -- the peer that popped waiter `i` stores its final state and wakes it
  -- futures
  | newSendFut (m : Msg)                    -- `send(m)` of an async sender: the future is created (no lock)
  | newRecvFut (stream : Bool)              -- `recv()` / `stream()` of an async receiver
  | pollSend (e : Env)                      -- `SendFuture::poll`
  | pollRecv (e : Env)                      -- `ReceiveFuture::poll` (plain future)
  | pollNext (e : Env)                      -- `ReceiveStream::poll_next`
  | dropSendFut (e : Env)                   -- `Drop for SendFuture`
  | dropRecvFut (e : Env)                   -- `Drop for ReceiveFuture`

/-! ### the labels of a segment -/

/-- The atomic labels of `Spec` a segment is the image of, in the model state it starts from: exactly one, except that
    `wait_timeout` giving up on a signal that is already `ok` is no step of the model at all (the waiter merely moves on
    to `wait`; the model does not distinguish the two waits). -/
def Seg.labels : Seg → State → List Label
  | .callTrySend x opt rt, _ => [.trySend x.m opt rt]
  | .callTryRecv rt, _ => [.tryRecv rt]
  | .callDrain _, _ => [.drain]
  | .callClose, _ => [.close]
  | .callClone side, _ => [.clone side]
  | .callDropHandle side, _ => [.dropHandle side]
  | .callObserve o, _ => [o.label]
  | .callConvert side, _ => [.convert side]
  | .startSend e, _ => [.send e.x.m e.kind e.opt]
  | .startRecv e, _ => [.recv e.kind e.expired]
  | .resumeWaiter e _, _ => [.complete e.x.me]
  | .expireWaiter e, s =>
    match s.sigs[e.x.me]? with
    | some g =>
      match g.st with
      | .pending => [.expire e.x.me]
      | .term => [.complete e.x.me]
      | .ok => []
    | none => [.expire e.x.me]
  | .storeFinal i, _ => [.finalize i]
  | .newSendFut m, _ => [.newSendFut m]
  | .newRecvFut stream, _ => [.newRecvFut stream]
  | .pollSend e, _ => [.pollSend e.x.me e.w]
  | .pollRecv e, _ => [.pollRecv e.x.me e.w]
  | .pollNext e, _ => [.pollRecv e.x.me e.w]
  | .dropSendFut e, _ => [.dropSendFut e.x.me]
  | .dropRecvFut e, _ => [.dropRecvFut e.x.me]

/-- the signal of the caller, where the segment has one -/
def Seg.me : Seg → SigId
  | .startSend e | .startRecv e | .resumeWaiter e _ | .expireWaiter e
  | .pollSend e | .pollRecv e | .pollNext e | .dropSendFut e | .dropRecvFut e => e.x.me
  | .storeFinal i => i
  | _ => 0

/-- The model's side of a segment: the `Spec.step` of its label; for the label-less segment the model stays where it is
    and the call still waits. -/
def specSeg (d : Seg) (s : State) : Option (State × Res) :=
  match d.labels s with
  | [] => some (s, .blocked d.me)
  | [l] => step .good s l
  | _ => none

/-! ### executing a segment -/

/-- what the caller sees of `Bridge.run`'s outcome -/
def ofOut : Bridge.Out → Option Res
  | .ret r => some r
  | _ => none

/-- what the caller sees of `run2`'s outcome: a result, or the call (still) waits on its signal `me`, or it busy-waits
    (`spin`); `none`: the tree got stuck or diverged (never the case for an enabled segment, see `seg_sim`) -/
def ofOut2 (me : SigId) : Out2 → Option Res
  | .ret r => some r
  | .blocked _ => some (.blocked me)
  | .spin => some .spin
  | _ => none

/-- a call of one critical section: run its tree -/
def single (a : Act) (g : State) : State × Option Res :=
  ((Bridge.run a false g []).1, ofOut (Bridge.run a false g []).2.2)

/-- `drain_into` reports a count and pushes to the caller's vector; `Spec` reports both as `.drained n ms` -/
def drainRes : List Msg × Bridge.Out → Option Res
  | (vec, .ret (.num n)) => some (.drained n vec)
  | (_, o) => ofOut o

/-- The continuation a blocked waiter is suspended with, from its waiter record (role, kind, `opt`) and where it waits:
    at the `wait` / `wait_timeout` of its call (`sendCont`, `recvCont` — what `startSend` / `startRecv` hand back, see
    `startSend_cont`, `startRecv_cont`), or (`late`) at the `wait` a timed call falls back to when its cancel finds the
    signal claimed (`timedSendK2`, `timedRecvK2` — what `expireWaiter` hands back, see `expire_cont`). -/
def contOf (a : Sig) (late : Bool) (x : Ctx) : Bool → Act :=
  match a.role with
  | .send => if late then timedSendK2 a.opt else sendCont (a.kind == .timed) a.opt x
  | .recv => if late then timedRecvK2 else recvCont (a.kind == .timed) x

/-- the continuation of a timed waiter at `wait_timeout` -/
def timedContOf (a : Sig) (x : Ctx) : Bool → Act :=
  match a.role with
  | .send => timedSendK a.opt x
  | .recv => timedRecvK x

/-- The second half of `p.send(m)` / `p.recv()` on a popped waiter outside the lock: the final store and the wake-up.
    `run` / `run2` interpret the effect `sigSend` / the question `sigRecv` (outside the lock) as the first half only
    (`deliverTo` / `claimFrom`: the slot is written / read, the waiter is `claimed`); this is the other half, by the same
    `State.finalize` they use for `t.terminate()`. -/
def storeFinal (g : State) (i : SigId) : State :=
  (modSig g i fun a => { a with claimed := false }).finalize i .ok

/-- Executing a segment on a code state.  Everything is `run` / `run2` / `resume` / `runDrop` of a tree of `Kanal.Fine`,
    except: `callConvert` (no code touches the shared state), `newSendFut` / `newRecvFut` (allocate the future's waiter
    record with `State.newSig`, as `run2` does for `newSendSig` / `newRecvSig`), `storeFinal` (above); and the polls
    apply `forget` to the polled future afterwards (its value has left it; see the header of `Kanal/Refine.lean`).
    A resumed waiter's `wait` answers `true` iff its signal says `ok`; `wait_timeout` giving up answers `false`. -/
def codeStep : Seg → State → State × Option Res
  | .callTrySend x opt rt, g => single (Fine.trySend opt rt x) g
  | .callTryRecv rt, g => single (Fine.tryRecv rt) g
  | .callDrain x, g => ((Bridge.run (Fine.drain x) false g []).1, drainRes (Bridge.run (Fine.drain x) false g []).2)
  | .callClose, g => single Fine.close g
  | .callClone side, g => single (Fine.cloneHandle side) g
  | .callDropHandle side, g => single (Fine.dropHandle side) g
  | .callObserve o, g => single (Fine.observe o.fn) g
  | .callConvert _, g => (g, some .unit)
  | .startSend e, g =>
    ((run2 e (Fine.send (e.kind == .timed) e.opt e.x) false g).1,
     ofOut2 e.x.me (run2 e (Fine.send (e.kind == .timed) e.opt e.x) false g).2)
  | .startRecv e, g =>
    ((run2 e (Fine.recv (e.kind == .timed) e.x) false g).1,
     ofOut2 e.x.me (run2 e (Fine.recv (e.kind == .timed) e.x) false g).2)
  | .resumeWaiter e late, g =>
    match g.sigs[e.x.me]? with
    | some a =>
      ((resume e (contOf a late e.x) (a.st == .ok) g).1, ofOut2 e.x.me (resume e (contOf a late e.x) (a.st == .ok) g).2)
    | none => (g, none)
  | .expireWaiter e, g =>
    match g.sigs[e.x.me]? with
    | some a => ((resume e (timedContOf a e.x) false g).1, ofOut2 e.x.me (resume e (timedContOf a e.x) false g).2)
    | none => (g, none)
  | .storeFinal i, g => (storeFinal g i, some .unit)
  | .newSendFut m, g =>
    ((g.newSig { role := .send, kind := .async, slot := some m, orig := some m }).1, some (.num g.sigs.length))
  | .newRecvFut stream, g =>
    ((g.newSig { role := .recv, kind := .async, isStream := stream }).1, some (.num g.sigs.length))
  | .pollSend e, g =>
    (forget (run2 e (Fine.pollSend e.x) false g).1 e.x.me, ofOut2 e.x.me (run2 e (Fine.pollSend e.x) false g).2)
  | .pollRecv e, g =>
    (forget (run2 e (Fine.pollRecv e.x) false g).1 e.x.me, ofOut2 e.x.me (run2 e (Fine.pollRecv e.x) false g).2)
  | .pollNext e, g =>
    (forget (run2 e (Fine.pollNext e.x) false g).1 e.x.me, ofOut2 e.x.me (run2 e (Fine.pollNext e.x) false g).2)
  | .dropSendFut e, g =>
    ((runDrop e (Fine.dropSendFut e.x) g).1, ofOut2 e.x.me (runDrop e (Fine.dropSendFut e.x) g).2)
  | .dropRecvFut e, g =>
    ((runDrop e (Fine.dropRecvFut e.x) g).1, ofOut2 e.x.me (runDrop e (Fine.dropRecvFut e.x) g).2)

/-! ### enabledness -/

/-- When a segment may run, in terms of the model state: the enabledness conditions of its label in `Spec.step` (caller
    errors safe Rust cannot commit: a live handle, a fresh message tag, an existing waiter of the right role and kind),
    the agreement of what the caller passes with the waiter record (`Ctx` fields of a future, the fresh signal id), and
    the exclusions carried over from the bridge theorems (marked EXCL; listed in the header of `Kanal/Refine.lean`).
    No invariant of reachable states is in here: those are discharged from `Reach` in `seg_sim`.
    (`late = true → g.kind = .timed` in `resumeWaiter` is not needed by any bridge; it only restricts the descriptor to
    continuations that exist: only a timed call has a `wait` to fall back to.) -/
def Enabled : Seg → State → Prop
  | .callTrySend x _ _, s => s.liveS ≠ 0 ∧ s.cust x.m = .fresh
  | .callTryRecv _, s => s.liveR ≠ 0
  | .callDrain _, s => s.liveR ≠ 0
  | .callClose, s => s.liveS + s.liveR ≠ 0
  | .callClone side, s => live s side ≠ 0
  | .callDropHandle side, s =>
    live s side ≠ 0 ∧ ¬ (live s side = 1 ∧ s.aliveSigs side ≠ 0) ∧
    1 < s.liveS + s.liveR                      -- EXCL: not the last handle of all
  | .callObserve o, s => o.live s
  | .callConvert side, s => live s side ≠ 0
  | .startSend e, s => e.kind ≠ .async ∧ s.liveS ≠ 0 ∧ s.cust e.x.m = .fresh ∧ e.x.me = s.sigs.length
  | .startRecv e, s => e.kind ≠ .async ∧ s.liveR ≠ 0 ∧ e.x.me = s.sigs.length
  | .resumeWaiter e late, s =>
    ∃ g, s.sigs[e.x.me]? = some g ∧ g.alive = true ∧ g.kind ≠ .async ∧ g.st ≠ .pending ∧ (late = true → g.kind = .timed)
  | .expireWaiter e, s => ∃ g, s.sigs[e.x.me]? = some g ∧ g.alive = true ∧ g.kind = .timed
  | .storeFinal i, s => ∃ g, s.sigs[i]? = some g ∧ g.claimed = true ∧ g.st = .pending
  | .newSendFut m, s => s.liveS ≠ 0 ∧ s.cust m = .fresh
  | .newRecvFut _, s => s.liveR ≠ 0
  | .pollSend e, s =>
    ∃ g, s.sigs[e.x.me]? = some g ∧ g.alive = true ∧ g.kind = .async ∧ g.role = .send ∧
      e.x.st = g.fut ∧ (g.fut = .zero → g.slot = some e.x.m) ∧
      (g.claimed = true → g.waker = some e.w)   -- EXCL: no poll with another waker inside the hand-off window
  | .pollRecv e, s =>
    ∃ g, s.sigs[e.x.me]? = some g ∧ g.alive = true ∧ g.kind = .async ∧ g.role = .recv ∧
      e.x.st = g.fut ∧ e.x.isStream = false ∧ g.isStream = false ∧
      (g.claimed = true → g.waker = some e.w)   -- EXCL
  | .pollNext e, s =>
    ∃ g, s.sigs[e.x.me]? = some g ∧ g.alive = true ∧ g.kind = .async ∧ g.role = .recv ∧
      e.x.st = g.fut ∧ e.x.isStream = true ∧ g.isStream = true ∧ e.x.terminated = g.streamEnded ∧
      (g.claimed = true → g.waker = some e.w)   -- EXCL
  | .dropSendFut e, s =>
    ∃ g, s.sigs[e.x.me]? = some g ∧ g.alive = true ∧ g.kind = .async ∧ g.role = .send ∧ e.x.st = g.fut
  | .dropRecvFut e, s =>
    ∃ g, s.sigs[e.x.me]? = some g ∧ g.alive = true ∧ g.kind = .async ∧ g.role = .recv ∧ e.x.st = g.fut

/-! ### `codeStep` depends on the code state only through `core` -/

theorem single_congr (a : Act) {g s : State} (h : core g = core s) :
    core (single a g).1 = core (single a s).1 ∧ (single a g).2 = (single a s).2 := by
  obtain ⟨h1, h2⟩ := run_congr a false h []
  exact ⟨h1, by unfold single; rw [h2]⟩

theorem pair_congr2 (me : SigId) {p q : State × Out2} (h : core p.1 = core q.1 ∧ p.2 = q.2) :
    core (p.1, ofOut2 me p.2).1 = core (q.1, ofOut2 me q.2).1 ∧ (p.1, ofOut2 me p.2).2 = (q.1, ofOut2 me q.2).2 :=
  ⟨h.1, by simp only [h.2]⟩

/-- TASK item 4 for whole segments. -/
theorem codeStep_congr (d : Seg) {g s : State} (h : core g = core s) :
    core (codeStep d g).1 = core (codeStep d s).1 ∧ (codeStep d g).2 = (codeStep d s).2 := by
  cases d with
  | callTrySend x opt rt => exact single_congr _ h
  | callTryRecv rt => exact single_congr _ h
  | callDrain x =>
    obtain ⟨h1, h2⟩ := run_congr (Fine.drain x) false h []
    exact ⟨h1, by simp only [codeStep]; rw [h2]⟩
  | callClose => exact single_congr _ h
  | callClone side => exact single_congr _ h
  | callDropHandle side => exact single_congr _ h
  | callObserve o => exact single_congr _ h
  | callConvert side => exact ⟨h, rfl⟩
  | startSend e => exact pair_congr2 _ (run2_congr e _ false h)
  | startRecv e => exact pair_congr2 _ (run2_congr e _ false h)
  | resumeWaiter e late =>
    simp only [codeStep]; rw [core_sigs h]
    split
    · exact pair_congr2 _ (resume_congr e _ _ h)
    · exact ⟨h, rfl⟩
  | expireWaiter e =>
    simp only [codeStep]; rw [core_sigs h]
    split
    · exact pair_congr2 _ (resume_congr e _ _ h)
    · exact ⟨h, rfl⟩
  | storeFinal i => exact ⟨finalize_core (modSig_core h _ _) _ _, rfl⟩
  | newSendFut m => exact ⟨newSig_core h _, by simp only [codeStep]; rw [core_sigs h]⟩
  | newRecvFut st => exact ⟨newSig_core h _, by simp only [codeStep]; rw [core_sigs h]⟩
  | pollSend e =>
    obtain ⟨h1, h2⟩ := run2_congr e (Fine.pollSend e.x) false h
    exact ⟨forget_core h1 _, by simp only [codeStep]; rw [h2]⟩
  | pollRecv e =>
    obtain ⟨h1, h2⟩ := run2_congr e (Fine.pollRecv e.x) false h
    exact ⟨forget_core h1 _, by simp only [codeStep]; rw [h2]⟩
  | pollNext e =>
    obtain ⟨h1, h2⟩ := run2_congr e (Fine.pollNext e.x) false h
    exact ⟨forget_core h1 _, by simp only [codeStep]; rw [h2]⟩
  | dropSendFut e => exact pair_congr2 _ (runDrop_congr e _ h)
  | dropRecvFut e => exact pair_congr2 _ (runDrop_congr e _ h)

end Refine
end Kanal

#print axioms Kanal.Refine.codeStep_congr
