/-
  Kanal.Refine.Mach — the closed machine: the continuations of blocked calls are part of the code state.

  In `codeStep` / `codeStepRaw` a blocked call is resumed with the continuation `contOf` computes from its waiter record and
  the descriptor's `late` flag.  Here the code state carries a table of continuations: a call that suspends parks the
  continuation `run2` / `resume` hands back (`Out2.blocked k`) under its signal id, `resumeWaiter` / `expireWaiter` run
  whatever is parked there (the `late` flag of the descriptor is ignored).  `mach_sim` / `mach_refines_spec`: this machine
  refines `Spec` too — the parked continuation always is `contOf record late` for the right `late`.
-/
import Kanal.Refine.Raw
import Kanal.Refine.Conts

namespace Kanal
namespace Refine
open Bridge State

/-! ### no run changes who a waiter is -/

/-- the fields of a waiter record fixed at its creation that `contOf` depends on -/
def stat3 (a : Sig) : Role × Kind × Bool := (a.role, a.kind, a.opt)

/-- every waiter of `t` still exists in `t'` with the same role, kind and `opt` -/
def Frame3 (t t' : State) : Prop :=
  ∀ i : SigId, i < t.sigs.length → (t'.sigs[i]?).map stat3 = (t.sigs[i]?).map stat3

theorem Frame3.refl (t : State) : Frame3 t t := fun _ _ => rfl

theorem Frame3.len {t t' : State} (h : Frame3 t t') : t.sigs.length ≤ t'.sigs.length := by
  rcases Nat.lt_or_ge t'.sigs.length t.sigs.length with hlt | hge
  · exfalso
    have := h t'.sigs.length hlt
    rw [List.getElem?_eq_none (Nat.le_refl _), List.getElem?_eq_getElem hlt] at this
    cases this
  · exact hge

theorem Frame3.trans {a b c : State} (h1 : Frame3 a b) (h2 : Frame3 b c) : Frame3 a c :=
  fun i hi => (h2 i (Nat.lt_of_lt_of_le hi h1.len)).trans (h1 i hi)

theorem Frame3.of_sigs {t t' : State} (h : t'.sigs = t.sigs) : Frame3 t t' := fun i _ => by rw [h]

theorem Frame3.of_core {t t' : State} (h : core t' = core t) : Frame3 t t' := Frame3.of_sigs (core_sigs h)

theorem Frame3.upd {t t' : State} (p : SigId) (f : Sig → Sig)
    (h : ∀ j, t'.sigs[j]? = if p = j then (t.sigs[j]?).map f else t.sigs[j]?)
    (hf : ∀ a, stat3 (f a) = stat3 a) : Frame3 t t' := by
  intro i _
  rw [h]; split
  · cases t.sigs[i]? <;> simp [hf]
  · rfl

theorem frame3_deliverTo (s : State) (p m) : Frame3 s (s.deliverTo p m) :=
  Frame3.upd p _ (fun j => deliverTo_get s p m j) (fun _ => rfl)
theorem frame3_claimFrom (s : State) (p) : Frame3 s (s.claimFrom p) :=
  Frame3.upd p _ (fun j => claimFrom_get s p j) (fun _ => rfl)
theorem frame3_takeFrom (s : State) (p) : Frame3 s (s.takeFrom p) :=
  Frame3.upd p _ (fun j => takeFrom_get s p j) (fun _ => rfl)
theorem frame3_finalize (s : State) (p o) : Frame3 s (s.finalize p o) :=
  Frame3.upd p _ (fun j => finalize_get s p o j) (fun _ => rfl)
theorem frame3_modSig (s : State) (p) (f : Sig → Sig) (hf : ∀ a, stat3 (f a) = stat3 a) : Frame3 s (modSig s p f) :=
  Frame3.upd p f (fun j => modSig_get s p f j) hf
theorem frame3_newSig (s : State) (G : Sig) : Frame3 s (s.newSig G).1 := by
  intro i hi; rw [newSig_get, if_neg (Nat.ne_of_lt hi)]

theorem effState_frame3 (e : Env) (s : State) (ef : Eff) {s' : State} (h : effState e s ef = some s') : Frame3 s s' := by
  cases ef <;> simp only [effState, Option.some.injEq, reduceCtorEq] at h <;> subst h
  case sigSend p m => exact frame3_deliverTo s p m
  case sigTerminate p => exact frame3_finalize s p _
  case newSendSig => exact frame3_newSig s _
  case newRecvSig => exact frame3_newSig s _
  case setState st => exact frame3_modSig s _ _ (fun _ => rfl)
  case registerWaker => exact frame3_modSig s _ _ (fun _ => rfl)
  case rearmSig => exact frame3_modSig s _ _ (fun _ => rfl)
  case setTerminated => exact frame3_modSig s _ _ (fun _ => rfl)
  all_goals exact Frame3.refl _

theorem run2_frame3 (e : Env) (a : Act) (l : Bool) (s : State) : Frame3 s (run2 e a l s).1 := by
  induction a generalizing l s with
  | ret r => exact Frame3.refl s
  | diverge => exact Frame3.refl s
  | lock k ih => simp only [run2_lock]; exact ih _ _ _
  | tryLock k ih => simp only [run2_tryLock]; exact ih _ _ _
  | unlock c k ih =>
    simp only [run2_unlock]
    exact Frame3.trans (b := { s with chan := c }) (Frame3.of_sigs rfl) (ih _ _)
  | eff ef k ih =>
    simp only [run2]
    cases h : effState e s ef with
    | none => exact Frame3.refl s
    | some s' => exact (effState_frame3 e s ef h).trans (ih _ _)
  | askB q k ih =>
    simp only [run2]
    split
    · exact ih _ _ _
    · exact Frame3.refl s
    · exact Frame3.refl s
    · exact Frame3.refl s
  | askM q k ih =>
    cases q
    case sigRecv p =>
      simp only [run2_sigRecv]
      cases l
      · exact (frame3_claimFrom s p).trans (ih _ _ _)
      · exact (frame3_takeFrom s p).trans (ih _ _ _)
    case readLocal => simp only [run2_readLocal]; exact ih _ _ _
    case readRet => simp only [run2_readRet]; exact ih _ _ _
    case readSigPtr => simp only [run2_readSigPtr]; exact ih _ _ _
  | askP k ih =>
    simp only [run2]
    split
    · exact ih _ _ _
    · exact Frame3.refl s

theorem run_frame3 (a : Act) (l : Bool) (s : State) (vec : List Msg) : Frame3 s (Bridge.run a l s vec).1 := by
  induction a generalizing l s vec with
  | ret r => exact Frame3.refl s
  | diverge => exact Frame3.refl s
  | lock k ih => simp only [run_lock]; exact ih _ _ _ _
  | tryLock k ih => simp only [run_tryLock]; exact ih _ _ _ _
  | unlock c k ih =>
    simp only [run_unlock]
    exact Frame3.trans (b := { s with chan := c }) (Frame3.of_sigs rfl) (ih _ _ _)
  | eff ef k ih =>
    cases ef
    case sigSend p m => simp only [run_sigSend]; exact (frame3_deliverTo s p m).trans (ih _ _ _)
    case sigTerminate p => simp only [run_sigTerminate]; exact (frame3_finalize s p _).trans (ih _ _ _)
    case takeData => simp only [run_takeData]; exact ih _ _ _
    case vecReserve n => simp only [run_vecReserve]; exact ih _ _ _
    case vecPush m => simp only [run_vecPush]; exact ih _ _ _
    all_goals exact Frame3.refl s
  | askB q k ih =>
    cases q
    case dataIsNone => simp only [run_dataIsNone]; exact ih _ _ _ _
    all_goals exact Frame3.refl s
  | askM q k ih =>
    cases q
    case sigRecv p =>
      simp only [run_sigRecv]
      cases l
      · exact (frame3_claimFrom s p).trans (ih _ _ _ _)
      · exact (frame3_takeFrom s p).trans (ih _ _ _ _)
    all_goals exact Frame3.refl s
  | askP k ih => exact Frame3.refl s

theorem resume_frame3 (e : Env) (k : Bool → Act) (b : Bool) (s : State) : Frame3 s (resume e k b s).1 := by
  have h := run2_frame3 e (k b) false s
  unfold resume
  rcases hq : run2 e (k b) false s with ⟨s', o⟩
  rw [hq] at h
  cases o <;> first | exact h.trans (frame3_modSig _ _ _ (fun _ => rfl)) | exact h

theorem runDrop_frame3 (e : Env) (a : Act) (s : State) : Frame3 s (runDrop e a s).1 := by
  have h := run2_frame3 e a false s
  unfold runDrop
  rcases hq : run2 e a false s with ⟨s', o⟩
  rw [hq] at h
  cases o <;> first | exact h.trans (frame3_modSig _ _ _ (fun _ => rfl)) | exact h

/-- no segment changes the role, kind or `opt` of an existing waiter -/
theorem codeStepRaw_frame3 (d : Seg) (s : State) : Frame3 s (codeStepRaw d s).1 := by
  cases d with
  | callTrySend x opt rt => exact run_frame3 _ _ _ _
  | callTryRecv rt => exact run_frame3 _ _ _ _
  | callDrain x => exact run_frame3 _ _ _ _
  | callClose => exact run_frame3 _ _ _ _
  | callClone side => exact run_frame3 _ _ _ _
  | callDropHandle side => exact run_frame3 _ _ _ _
  | callObserve o => exact run_frame3 _ _ _ _
  | callConvert side => exact Frame3.refl s
  | startSend e => exact run2_frame3 _ _ _ _
  | startRecv e => exact run2_frame3 _ _ _ _
  | resumeWaiter e late =>
    simp only [codeStepRaw, codeStep]; split
    · exact resume_frame3 _ _ _ _
    · exact Frame3.refl s
  | expireWaiter e =>
    simp only [codeStepRaw, codeStep]; split
    · exact resume_frame3 _ _ _ _
    · exact Frame3.refl s
  | storeFinal i =>
    exact (frame3_modSig s i (fun a => { a with claimed := false }) (fun _ => rfl)).trans (frame3_finalize _ i .ok)
  | newSendFut m => exact frame3_newSig s _
  | newRecvFut st => exact frame3_newSig s _
  | pollSend e => exact run2_frame3 _ _ _ _
  | pollRecv e => exact run2_frame3 _ _ _ _
  | pollNext e => exact run2_frame3 _ _ _ _
  | dropSendFut e => exact runDrop_frame3 _ _ _
  | dropRecvFut e => exact runDrop_frame3 _ _ _


/-! ### the machine -/

/-- The code state of the closed machine: the shared state and the suspended blocking calls (the continuation each was
    suspended with, under its signal id). -/
structure Code where
  st    : State
  conts : SigId → Option (Bool → Act)

/-- a call that suspends parks its continuation; a call that returns leaves -/
def park (conts : SigId → Option (Bool → Act)) (me : SigId) : Out2 → SigId → Option (Bool → Act)
  | .blocked k => fun i => if i = me then some k else conts i
  | .ret _ => fun i => if i = me then none else conts i
  | _ => conts

/-- One segment of the machine.  Like `codeStepRaw`, except that a resumed / expiring waiter runs the continuation parked
    under its signal id (the `late` flag of the descriptor is ignored), and suspending calls park theirs. -/
def machStep : Seg → Code → Code × Option Res
  | .startSend e, c =>
    (⟨(run2 e (Fine.send (e.kind == .timed) e.opt e.x) false c.st).1,
       park c.conts e.x.me (run2 e (Fine.send (e.kind == .timed) e.opt e.x) false c.st).2⟩,
     ofOut2 e.x.me (run2 e (Fine.send (e.kind == .timed) e.opt e.x) false c.st).2)
  | .startRecv e, c =>
    (⟨(run2 e (Fine.recv (e.kind == .timed) e.x) false c.st).1,
       park c.conts e.x.me (run2 e (Fine.recv (e.kind == .timed) e.x) false c.st).2⟩,
     ofOut2 e.x.me (run2 e (Fine.recv (e.kind == .timed) e.x) false c.st).2)
  | .resumeWaiter e _, c =>
    match c.conts e.x.me, c.st.sigs[e.x.me]? with
    | some k, some a =>
      (⟨(resume e k (a.st == .ok) c.st).1, park c.conts e.x.me (resume e k (a.st == .ok) c.st).2⟩,
       ofOut2 e.x.me (resume e k (a.st == .ok) c.st).2)
    | _, _ => (c, none)
  | .expireWaiter e, c =>
    match c.conts e.x.me with
    | some k =>
      (⟨(resume e k false c.st).1, park c.conts e.x.me (resume e k false c.st).2⟩,
       ofOut2 e.x.me (resume e k false c.st).2)
    | none => (c, none)
  | d, c => (⟨(codeStepRaw d c.st).1, c.conts⟩, (codeStepRaw d c.st).2)

/-- every parked continuation is `contOf` of the waiter record under its id, for one of the two places a call can wait at -/
def ContsOK (conts : SigId → Option (Bool → Act)) (s : State) : Prop :=
  ∀ i k, conts i = some k → ∃ a late, s.sigs[i]? = some a ∧ a.kind ≠ .async ∧ (late = true → a.kind = .timed) ∧
    k = contOf a late { me := i }

/-- the machine's state matches the model's -/
structure MInv (c : Code) (s : State) : Prop where
  st    : UpToStale c.st s
  conts : ContsOK c.conts s

/-- forget the descriptor's `late` flag -/
def Seg.unlate : Seg → Seg
  | .resumeWaiter e _ => .resumeWaiter e false
  | d => d

/-- Enabledness for the machine: `Enabled` (without the `late` flag), and for a resumption that there is a suspended call
    under that id; for an expiry that this call waits at its `wait_timeout` (a fact about the thread the model state does
    not record: after a failed cancel a timed call waits at `wait`, which has no deadline). -/
def MEnabled (d : Seg) (c : Code) (s : State) : Prop :=
  Enabled d.unlate s ∧
  match d with
  | .resumeWaiter e _ => (c.conts e.x.me).isSome = true
  | .expireWaiter e => ∃ a, s.sigs[e.x.me]? = some a ∧ c.conts e.x.me = some (timedContOf a e.x)
  | _ => True

theorem contOf_me (a : Sig) (late : Bool) (x : Ctx) : contOf a late x = contOf a late { me := x.me } := rfl

theorem contOf_stat3 {a b : Sig} (h : stat3 a = stat3 b) (late : Bool) (x : Ctx) : contOf a late x = contOf b late x := by
  simp only [stat3, Prod.mk.injEq] at h
  obtain ⟨h1, h2, h3⟩ := h
  unfold contOf; rw [h1, h2, h3]

theorem stat3_clr (a : Sig) : stat3 (clr a) = stat3 a := rfl

theorem UpToStale.stat3 {t s : State} (h : UpToStale t s) (i : SigId) : (s.sigs[i]?).map stat3 = (t.sigs[i]?).map stat3 := by
  have := congrArg (Option.map Refine.stat3) (h.sig i)
  simpa [Option.map_map, Function.comp_def, stat3_clr] using this.symm

/-- the model's step does not change who a waiter is -/
theorem spec_frame3 {s s' : State} {r : Res} (hr : Reach .good s) {d : Seg} (he : Enabled d s)
    (h : specSeg d s = some (s', r)) : Frame3 s s' := by
  obtain ⟨s'', r'', h1, h2, -⟩ := seg_sim_raw hr (UpToStale.refl s) d he
  rw [h] at h1; cases h1
  intro i hi
  rw [h2.stat3 i]; exact codeStepRaw_frame3 d s i hi

theorem contsOK_frame {conts : SigId → Option (Bool → Act)} {s s' : State} (h : ContsOK conts s) (hf : Frame3 s s') :
    ContsOK conts s' := by
  intro i k hk
  obtain ⟨a, late, ha, hka, hl, rfl⟩ := h i k hk
  have := hf i (lt_of_sig ha)
  rw [ha] at this
  cases ha' : s'.sigs[i]? with
  | none => rw [ha'] at this; cases this
  | some a' =>
    rw [ha'] at this
    simp only [Option.map_some, Option.some.injEq] at this
    have h3 := this
    simp only [stat3, Prod.mk.injEq] at this
    exact ⟨a', late, rfl, by rw [this.2.1]; exact hka, fun h => by rw [this.2.1]; exact hl h, (contOf_stat3 h3 late _).symm⟩

theorem contsOK_park {conts : SigId → Option (Bool → Act)} {s' : State} (h : ContsOK conts s') (me : SigId) (out : Out2)
    (hb : ∀ k, out = .blocked k → ∃ a late, s'.sigs[me]? = some a ∧ a.kind ≠ .async ∧
      (late = true → a.kind = .timed) ∧ k = contOf a late { me := me }) :
    ContsOK (park conts me out) s' := by
  intro i k hk
  cases out with
  | blocked k' =>
    simp only [park] at hk
    split at hk
    · rename_i hi; subst hi; cases hk; exact hb k rfl
    · exact h i k hk
  | ret r =>
    simp only [park] at hk
    split at hk
    · cases hk
    · exact h i k hk
  | spin => exact h i k hk
  | stuck => exact h i k hk
  | diverge => exact h i k hk

/-- segments that neither park nor run a parked continuation -/
theorem mach_other {s : State} {c : Code} (hr : Reach .good s) (hI : MInv c s) {d : Seg} (he : Enabled d s)
    (hm : machStep d c = (⟨(codeStepRaw d c.st).1, c.conts⟩, (codeStepRaw d c.st).2)) :
    ∃ s' r, specSeg d s = some (s', r) ∧ MInv (machStep d c).1 s' ∧ (machStep d c).2 = some r := by
  obtain ⟨s', r, h1, h2, h3⟩ := seg_sim_raw hr hI.st d he
  refine ⟨s', r, h1, ?_, by rw [hm]; exact h3⟩
  rw [hm]
  exact ⟨h2, contsOK_frame hI.conts (spec_frame3 hr he h1)⟩

/-- One-step simulation for the closed machine. -/
theorem mach_sim {s : State} {c : Code} (hr : Reach .good s) (hI : MInv c s) (d : Seg) (he : MEnabled d c s) :
    ∃ s' r, specSeg d s = some (s', r) ∧ MInv (machStep d c).1 s' ∧ (machStep d c).2 = some r := by
  obtain ⟨he, hm⟩ := he
  cases d with
  | startSend e =>
    obtain ⟨s', r, h1, h2, h3⟩ := seg_sim_raw hr hI.st (.startSend e) he
    refine ⟨s', r, h1, ⟨h2, ?_⟩, h3⟩
    have hme : ¬ DoneAt s e.x.me := by rw [he.2.2.2]; exact len_not_done s
    have hout := (lock2 hr hI.st e _ hme (noRead2 e (noRead_send (e.kind == .timed) e.opt e.x) s)).2
    refine contsOK_park (contsOK_frame hI.conts (spec_frame3 hr he h1)) _ _ ?_
    intro k hk
    rw [hout] at hk
    obtain ⟨a, rfl, ha, hka⟩ := startSend_cont (g := s) rfl he hk
    obtain ⟨s'', r'', g1, g2, -⟩ := sim_startSend he
    rw [h1] at g1; cases g1
    rw [core_sigs g2] at ha
    exact ⟨_, false, ha, he.1, (fun h => by cases h), hka⟩
  | startRecv e =>
    obtain ⟨s', r, h1, h2, h3⟩ := seg_sim_raw hr hI.st (.startRecv e) he
    refine ⟨s', r, h1, ⟨h2, ?_⟩, h3⟩
    have hme : ¬ DoneAt s e.x.me := by rw [he.2.2]; exact len_not_done s
    have hout := (lock2 hr hI.st e _ hme (reads_recv e (e.kind == .timed) e.x s)).2
    refine contsOK_park (contsOK_frame hI.conts (spec_frame3 hr he h1)) _ _ ?_
    intro k hk
    rw [hout] at hk
    obtain ⟨a, rfl, ha, hka⟩ := startRecv_cont (g := s) rfl he hk
    obtain ⟨s'', r'', g1, g2, -⟩ := sim_startRecv he
    rw [h1] at g1; cases g1
    rw [core_sigs g2] at ha
    exact ⟨_, false, ha, he.1, (fun h => by cases h), hka⟩
  | resumeWaiter e l =>
    simp only at hm
    obtain ⟨a, ha, hal, hka, hst, -⟩ := he
    cases hck : c.conts e.x.me with
    | none => rw [hck] at hm; cases hm
    | some k =>
      obtain ⟨a0, late, ha0, -, hl0, rfl⟩ := hI.conts _ _ hck
      rw [ha] at ha0; cases ha0
      have he' : Enabled (.resumeWaiter e late) s := ⟨a, ha, hal, hka, hst, hl0⟩
      have hme : ¬ DoneAt s e.x.me := sync_not_done hr ha hka
      have hgb : c.st.sigs[e.x.me]? = some a := by rw [(hI.st.stale e.x.me).same _ hme]; exact ha
      have hms : machStep (.resumeWaiter e l) c =
          (⟨(codeStepRaw (.resumeWaiter e late) c.st).1,
             park c.conts e.x.me (resume e (contOf a late e.x) (a.st == .ok) c.st).2⟩,
           (codeStepRaw (.resumeWaiter e late) c.st).2) := by
        simp only [machStep, hck, hgb, codeStepRaw, codeStep, ← contOf_me]
      obtain ⟨s', r, h1, h2, h3⟩ := seg_sim_raw hr hI.st (.resumeWaiter e late) he'
      refine ⟨s', r, h1, ?_, by rw [hms]; exact h3⟩
      rw [hms]
      refine ⟨h2, contsOK_park (contsOK_frame hI.conts (spec_frame3 hr he' h1)) _ _ ?_⟩
      intro k hk
      have hl := (resume_stale e hme (contOf a late e.x) (a.st == .ok) (hI.st.stale e.x.me)
        (fun p hp => by rw [reads_noRead e (noRead_contOf _ _ _ _)] at hp; cases hp)).2
      rw [hl] at hk
      obtain ⟨r0, hr0⟩ := resume_ret hr he' ha
      rw [hr0] at hk; cases hk
  | expireWaiter e =>
    simp only at hm
    obtain ⟨a, ha, hck⟩ := hm
    have he0 := he
    obtain ⟨a0, ha0, hal, hkt⟩ := he
    rw [ha] at ha0; cases ha0
    have hme : ¬ DoneAt s e.x.me := sync_not_done hr ha (by rw [hkt]; simp)
    have hgb : c.st.sigs[e.x.me]? = some a := by rw [(hI.st.stale e.x.me).same _ hme]; exact ha
    have hms : machStep (.expireWaiter e) c =
        (⟨(codeStepRaw (.expireWaiter e) c.st).1,
           park c.conts e.x.me (resume e (timedContOf a e.x) false c.st).2⟩,
         (codeStepRaw (.expireWaiter e) c.st).2) := by
      simp only [machStep, hck, hgb, codeStepRaw, codeStep]
    obtain ⟨s', r, h1, h2, h3⟩ := seg_sim_raw hr hI.st (.expireWaiter e) he0
    refine ⟨s', r, h1, ?_, by rw [hms]; exact h3⟩
    rw [hms]
    refine ⟨h2, contsOK_park (contsOK_frame hI.conts (spec_frame3 hr he0 h1)) _ _ ?_⟩
    intro k hk
    have hl := (resume_stale e hme (timedContOf a e.x) false (hI.st.stale e.x.me)
      (fun p hp => by rw [reads_noRead e (noRead_timedContOf _ _ _)] at hp; cases hp)).2
    rw [hl] at hk
    obtain ⟨hrec, hk'⟩ := expire_cont (g := s) hr rfl he0 ha hk
    obtain ⟨s'', r'', g1, g2, -⟩ := sim_expire hr he0
    rw [h1] at g1; cases g1
    rw [core_sigs g2] at hrec
    exact ⟨a, true, hrec, by rw [hkt]; simp, fun _ => hkt, hk'⟩
  | callTrySend x opt rt => exact mach_other hr hI he rfl
  | callTryRecv rt => exact mach_other hr hI he rfl
  | callDrain x => exact mach_other hr hI he rfl
  | callClose => exact mach_other hr hI he rfl
  | callClone side => exact mach_other hr hI he rfl
  | callDropHandle side => exact mach_other hr hI he rfl
  | callObserve o => exact mach_other hr hI he rfl
  | callConvert side => exact mach_other hr hI he rfl
  | storeFinal i => exact mach_other hr hI he rfl
  | newSendFut m => exact mach_other hr hI he rfl
  | newRecvFut st => exact mach_other hr hI he rfl
  | pollSend e => exact mach_other hr hI he rfl
  | pollRecv e => exact mach_other hr hI he rfl
  | pollNext e => exact mach_other hr hI he rfl
  | dropSendFut e => exact mach_other hr hI he rfl
  | dropRecvFut e => exact mach_other hr hI he rfl


/-! ### executions of the machine -/

/-- a fresh machine: a fresh channel, nobody suspended -/
def Code.init (cap : Option Nat) : Code := ⟨State.init cap, fun _ => none⟩

/-- the machine run through a list of segments: its shared state after each segment and what the caller saw -/
def machTrace : List Seg → Code → List (State × Option Res)
  | [], _ => []
  | d :: ds, c => ((machStep d c).1.st, (machStep d c).2) :: machTrace ds (machStep d c).1

/-- every segment is enabled for the machine, in the machine / model states reached so far -/
def MEnabledAlong : List Seg → Code → State → Prop
  | [], _, _ => True
  | d :: ds, c, s => MEnabled d c s ∧ ∀ p, specSeg d s = some p → MEnabledAlong ds (machStep d c).1 p.1

theorem mach_refines_spec_from {s : State} {c : Code} (hr : Reach .good s) (hI : MInv c s) (ds : List Seg)
    (he : MEnabledAlong ds c s) :
    ∃ tr, specTrace ds s = some tr ∧ AgreeAllRaw (machTrace ds c) tr := by
  induction ds generalizing s c with
  | nil => exact ⟨[], rfl, AgreeAllRaw.nil⟩
  | cons d ds ih =>
    obtain ⟨hd, hrest⟩ := he
    obtain ⟨s', r, h1, h2, h3⟩ := mach_sim hr hI d hd
    obtain ⟨tr, t1, t2⟩ := ih (specSeg_reach hr h1) h2 (hrest _ h1)
    exact ⟨(s', r) :: tr, by simp only [specTrace, h1, t1], AgreeAllRaw.cons ⟨h2.st, h3⟩ t2⟩

/-- **Executions of the closed machine.**  The code state consists of the shared state and the table of suspended calls;
    a blocked call is resumed with exactly the continuation it was suspended with.  From a fresh channel, for every list
    of segments each enabled for the machine (`MEnabledAlong`): the model can follow, with the same results, and after
    each segment the machine's shared state is the model state up to the slots of finished futures. -/
theorem mach_refines_spec (cap : Option Nat) (ds : List Seg) (he : MEnabledAlong ds (Code.init cap) (State.init cap)) :
    ∃ tr, specTrace ds (State.init cap) = some tr ∧ AgreeAllRaw (machTrace ds (Code.init cap)) tr :=
  mach_refines_spec_from (Reach.init cap) ⟨UpToStale.refl _, fun _ _ h => by cases h⟩ ds he

end Refine
end Kanal

#print axioms Kanal.Refine.mach_sim
#print axioms Kanal.Refine.mach_refines_spec
