/-
  Kanal.NoDangle — no call returns (and no future dies) while its own signal can still be touched by a peer.

  A blocked call's signal lives in the caller's stack frame, a future's signal inside the future.  While the signal id
  `me` is in the channel's wait list, or a peer has popped it and not yet stored the final state, a peer may write
  through it ("exposed").  `Reg me t st` is a discipline of the tree `t`, for ALL answers of the environment:

  * a signal becomes exposed by publishing a wait list that contains it (`unlock`);
  * it stops being exposed when the caller itself took it out of the list under the lock (it was in the list found, it
    is not in the list published), when `wait` / `async_blocking_wait` returned, when `wait_timeout` / `is_terminated`
    answered `true`, or when `poll` answered `Ready`;
  * a call may return while exposed only with `Poll::Pending` (the future stays alive, pinned);
  * `self.sig = Signal::new_async()` is only allowed while not exposed.

  Hypotheses of the `lock` / `tryLock` rules (what the caller may assume about the state it finds):
    (1) a signal that is not exposed is not in the wait list;
    (2) the wait list is duplicate-free (`Kanal/Lemmas/Struct.lean`, `CoreP.nodup`: true in every reachable state).
  (2) is needed: `cancel_*_signal` removes ONE occurrence (`List.erase`), so "I removed it" means "it is gone" only in a
  duplicate-free list.

  That a sync / timed / try call never answers `Pending` at all is the separate predicate `NoPending` (so for those
  calls `Reg` says: it never returns while exposed).

  ADJUSTMENT (reported): `Fine.pollNext x` with `x.terminated = true` and `x.st = .waiting` returns `streamEnd`
  immediately, so `Reg x.me (Fine.pollNext x) { reg := x.st == .waiting }` is FALSE for such an `x`
  (`not_reg_pollNext_terminated_waiting`).  That `Ctx` is not a state of a stream object: `terminated` is only ever set
  after the wrapped future answered `Ready(Err)`, in state `done`.  The rules are unchanged; `reg_pollNext` carries the
  hypothesis `x.terminated = true → x.st = .done`, and `streamInv_pollNext` proves that `poll_next` preserves it
  (`StreamInv`: at every return, `terminated → state = done`, tracking `setState` / `setTerminated`).
-/
import Kanal.Fine

namespace Kanal
namespace NoDangle
open Chan (SendBranch RecvBranch)

structure RegSt where
  cur : Option Chan := none   -- state bound by the critical section in progress
  reg : Bool := false         -- "exposed": my signal may be in the wait list, or claimed by a peer that has not finished

/-- `reg` after publishing `pub`, having found `found`. -/
def unlockReg (me : SigId) (found pub : Chan) (reg : Bool) : Bool :=
  if pub.waitList.contains me then true else if found.waitList.contains me then false else reg

/-- `reg` after the environment answered `ans` to `q`. -/
def askBReg (q : AskB) (ans reg : Bool) : Bool :=
  match q with
  | .wait | .asyncBlockingWait => false
  | .waitTimeout | .isTerminated => !ans && reg
  | .willWake | .needsDrop | .sizeGtPtr | .expired | .dataIsNone | .unknown _ => reg

inductive Reg (me : SigId) : Act → RegSt → Prop where
  | ret {r reg} : (reg = true → r = .pending) → Reg me (.ret r) ⟨none, reg⟩
  | diverge {st} : Reg me .diverge st
  | lock {k reg} : (∀ c : Chan, (reg = false → me ∉ c.waitList) → c.waitList.Nodup → Reg me (k c) ⟨some c, reg⟩) →
      Reg me (.lock k) ⟨none, reg⟩
  | tryLock {k reg} : (∀ c : Chan, (reg = false → me ∉ c.waitList) → c.waitList.Nodup → Reg me (k (some c)) ⟨some c, reg⟩) →
      Reg me (k none) ⟨none, reg⟩ → Reg me (.tryLock k) ⟨none, reg⟩
  | unlock {c1 k c reg} : Reg me k ⟨none, unlockReg me c c1 reg⟩ → Reg me (.unlock c1 k) ⟨some c, reg⟩
  | eff {e k st} : (e = .rearmSig → st.reg = false) → Reg me k st → Reg me (.eff e k) st
  | askB {q k cur reg} : (∀ b, Reg me (k b) ⟨cur, askBReg q b reg⟩) → Reg me (.askB q k) ⟨cur, reg⟩
  | askM {q k st} : (∀ m, Reg me (k m) st) → Reg me (.askM q k) st
  | askP {k cur reg} : Reg me (k none) ⟨cur, reg⟩ → (∀ b, Reg me (k (some b)) ⟨cur, false⟩) → Reg me (.askP k) ⟨cur, reg⟩

/-- No return with `Poll::Pending`. -/
inductive NoPending : Act → Prop where
  | ret {r} : r ≠ .pending → NoPending (.ret r)
  | diverge : NoPending .diverge
  | lock {k} : (∀ c, NoPending (k c)) → NoPending (.lock k)
  | tryLock {k} : (∀ c, NoPending (k c)) → NoPending (.tryLock k)
  | unlock {c k} : NoPending k → NoPending (.unlock c k)
  | eff {e k} : NoPending k → NoPending (.eff e k)
  | askB {q k} : (∀ b, NoPending (k b)) → NoPending (.askB q k)
  | askM {q k} : (∀ m, NoPending (k m)) → NoPending (.askM q k)
  | askP {k} : (∀ r, NoPending (k r)) → NoPending (.askP k)

variable {me : SigId}

/-! ### `Reg` and `NoPending` as rewriting rules -/

@[simp] theorem reg_ret {r cur reg} : Reg me (.ret r) ⟨cur, reg⟩ ↔ cur = none ∧ (reg = true → r = .pending) :=
  ⟨fun h => by cases h with | ret h => exact ⟨rfl, h⟩, by rintro ⟨rfl, h⟩; exact .ret h⟩
@[simp] theorem reg_diverge {st} : Reg me .diverge st ↔ True := ⟨fun _ => trivial, fun _ => .diverge⟩
@[simp] theorem reg_lock {k cur reg} : Reg me (.lock k) ⟨cur, reg⟩ ↔
    cur = none ∧ ∀ c : Chan, (reg = false → me ∉ c.waitList) → c.waitList.Nodup → Reg me (k c) ⟨some c, reg⟩ :=
  ⟨fun h => by cases h with | lock h => exact ⟨rfl, h⟩, by rintro ⟨rfl, h⟩; exact .lock h⟩
@[simp] theorem reg_tryLock {k cur reg} : Reg me (.tryLock k) ⟨cur, reg⟩ ↔
    cur = none ∧ (∀ c : Chan, (reg = false → me ∉ c.waitList) → c.waitList.Nodup → Reg me (k (some c)) ⟨some c, reg⟩) ∧
      Reg me (k none) ⟨none, reg⟩ :=
  ⟨fun h => by cases h with | tryLock h1 h2 => exact ⟨rfl, h1, h2⟩, by rintro ⟨rfl, h1, h2⟩; exact .tryLock h1 h2⟩
theorem reg_unlock {c1 k cur reg} : Reg me (.unlock c1 k) ⟨cur, reg⟩ ↔
    ∃ c, cur = some c ∧ Reg me k ⟨none, unlockReg me c c1 reg⟩ :=
  ⟨fun h => by cases h with | unlock h => exact ⟨_, rfl, h⟩, by rintro ⟨c, rfl, h⟩; exact .unlock h⟩
@[simp] theorem reg_unlock_some {c1 k c reg} : Reg me (.unlock c1 k) ⟨some c, reg⟩ ↔ Reg me k ⟨none, unlockReg me c c1 reg⟩ :=
  ⟨fun h => by cases h with | unlock h => exact h, .unlock⟩
@[simp] theorem reg_unlock_none {c1 k reg} : Reg me (.unlock c1 k) ⟨none, reg⟩ ↔ False :=
  ⟨fun h => (by cases h), False.elim⟩
@[simp] theorem reg_eff {e k st} : Reg me (.eff e k) st ↔ (e = .rearmSig → st.reg = false) ∧ Reg me k st :=
  ⟨fun h => by cases h with | eff h1 h2 => exact ⟨h1, h2⟩, fun ⟨h1, h2⟩ => .eff h1 h2⟩
@[simp] theorem reg_askB {q k cur reg} : Reg me (.askB q k) ⟨cur, reg⟩ ↔ ∀ b, Reg me (k b) ⟨cur, askBReg q b reg⟩ :=
  ⟨fun h => by cases h with | askB h => exact h, .askB⟩
@[simp] theorem reg_askM {q k st} : Reg me (.askM q k) st ↔ ∀ m, Reg me (k m) st :=
  ⟨fun h => by cases h with | askM h => exact h, .askM⟩
@[simp] theorem reg_askP {k cur reg} : Reg me (.askP k) ⟨cur, reg⟩ ↔
    Reg me (k none) ⟨cur, reg⟩ ∧ ∀ b, Reg me (k (some b)) ⟨cur, false⟩ :=
  ⟨fun h => by cases h with | askP h1 h2 => exact ⟨h1, h2⟩, fun ⟨h1, h2⟩ => .askP h1 h2⟩
@[simp] theorem reg_ite {c : Prop} [Decidable c] {t e : Act} {st} :
    Reg me (if c then t else e) st ↔ (c → Reg me t st) ∧ (¬ c → Reg me e st) := by
  split <;> simp [*]

@[simp] theorem np_ret {r} : NoPending (.ret r) ↔ r ≠ .pending :=
  ⟨fun h => by cases h with | ret h => exact h, .ret⟩
@[simp] theorem np_diverge : NoPending .diverge ↔ True := ⟨fun _ => trivial, fun _ => .diverge⟩
@[simp] theorem np_lock {k} : NoPending (.lock k) ↔ ∀ c, NoPending (k c) :=
  ⟨fun h => by cases h with | lock h => exact h, .lock⟩
@[simp] theorem np_tryLock {k} : NoPending (.tryLock k) ↔ ∀ c, NoPending (k c) :=
  ⟨fun h => by cases h with | tryLock h => exact h, .tryLock⟩
@[simp] theorem np_unlock {c k} : NoPending (.unlock c k) ↔ NoPending k :=
  ⟨fun h => by cases h with | unlock h => exact h, .unlock⟩
@[simp] theorem np_eff {e k} : NoPending (.eff e k) ↔ NoPending k :=
  ⟨fun h => by cases h with | eff h => exact h, .eff⟩
@[simp] theorem np_askB {q k} : NoPending (.askB q k) ↔ ∀ b, NoPending (k b) :=
  ⟨fun h => by cases h with | askB h => exact h, .askB⟩
@[simp] theorem np_askM {q k} : NoPending (.askM q k) ↔ ∀ m, NoPending (k m) :=
  ⟨fun h => by cases h with | askM h => exact h, .askM⟩
@[simp] theorem np_askP {k} : NoPending (.askP k) ↔ ∀ r, NoPending (k r) :=
  ⟨fun h => by cases h with | askP h => exact h, .askP⟩
@[simp] theorem np_ite {c : Prop} [Decidable c] {t e : Act} :
    NoPending (if c then t else e) ↔ (c → NoPending t) ∧ (¬ c → NoPending e) := by
  split <;> simp [*]

/-! ### `unlockReg`, `askBReg` -/

@[simp] theorem zero_beq_waiting : (FutSt.zero == FutSt.waiting) = false := by decide
@[simp] theorem done_beq_waiting : (FutSt.done == FutSt.waiting) = false := by decide

@[simp] theorem askBReg_wait (a r) : askBReg .wait a r = false := rfl
@[simp] theorem askBReg_abw (a r) : askBReg .asyncBlockingWait a r = false := rfl
@[simp] theorem askBReg_waitTimeout (a r) : askBReg .waitTimeout a r = (!a && r) := rfl
@[simp] theorem askBReg_isTerminated (a r) : askBReg .isTerminated a r = (!a && r) := rfl
@[simp] theorem askBReg_willWake (a r) : askBReg .willWake a r = r := rfl
@[simp] theorem askBReg_needsDrop (a r) : askBReg .needsDrop a r = r := rfl
@[simp] theorem askBReg_sizeGtPtr (a r) : askBReg .sizeGtPtr a r = r := rfl
@[simp] theorem askBReg_expired (a r) : askBReg .expired a r = r := rfl
@[simp] theorem askBReg_dataIsNone (a r) : askBReg .dataIsNone a r = r := rfl
@[simp] theorem askBReg_unknown (t a r) : askBReg (.unknown t) a r = r := rfl

/-- publishing a list without `me`, not exposed before: still not exposed -/
theorem unlockReg_out {found pub : Chan} (h : me ∉ pub.waitList) : unlockReg me found pub false = false := by
  simp [unlockReg, h]
/-- publishing a list with `me`: exposed -/
theorem unlockReg_in {found pub : Chan} {reg} (h : me ∈ pub.waitList) : unlockReg me found pub reg = true := by
  unfold unlockReg
  have : pub.waitList.contains me = true := by simpa using h
  rw [this]; simp
/-- publishing the list found, exposed before: still exposed -/
theorem unlockReg_same {c : Chan} : unlockReg me c c true = true := by
  unfold unlockReg; split <;> simp [*]

theorem cancel_true {c : Chan} {r : Role} (hn : c.waitList.Nodup) (h : (c.cancel r me).2 = true) :
    me ∈ c.waitList ∧ me ∉ (c.cancel r me).1.waitList := by
  unfold Chan.cancel at h ⊢
  split at h
  · rename_i hc
    simp only [Bool.and_eq_true] at hc
    rw [if_pos (by simp only [Bool.and_eq_true]; exact hc)]
    have hm : me ∈ c.waitList := by simpa using hc.2
    refine ⟨hm, ?_⟩
    simp only
    intro hx
    exact ((hn.mem_erase_iff).mp hx).1 rfl
  · simp at h

theorem cancel_false {c : Chan} {r : Role} (h : (c.cancel r me).2 = false) : (c.cancel r me).1 = c := by
  unfold Chan.cancel at h ⊢
  split at h
  · simp at h
  · rename_i hc; rw [if_neg hc]

/-- a successful cancel under the lock ends the exposure -/
theorem unlockReg_cancel_true {c : Chan} {r : Role} {reg} (hn : c.waitList.Nodup) (h : (c.cancel r me).2 = true) :
    unlockReg me c (c.cancel r me).1 reg = false := by
  obtain ⟨h1, h2⟩ := cancel_true hn h
  unfold unlockReg
  have e1 : (c.cancel r me).1.waitList.contains me = false := by simpa using h2
  have e2 : c.waitList.contains me = true := by simpa using h1
  rw [e1, e2]; simp
/-- a failed cancel does not -/
theorem unlockReg_cancel_false {c : Chan} {r : Role} (h : (c.cancel r me).2 = false) :
    unlockReg me c (c.cancel r me).1 true = true := by
  rw [cancel_false h]; exact unlockReg_same

/-! ### the combinators of `Fine` -/

theorem reg_forEach_eff {α : Type} (l : List α) (f : α → Eff) (hf : ∀ a, f a ≠ .rearmSig) (k : Act) {st} :
    Reg me (Act.forEach l (fun a next => .eff (f a) next) k) st ↔ Reg me k st := by
  induction l with
  | nil => simp
  | cons a l ih => simp [ih, hf]

@[simp] theorem reg_terminate (l : List SigId) (k : Act) {st} : Reg me (Fine.terminate l k) st ↔ Reg me k st := by
  unfold Fine.terminate; exact reg_forEach_eff l _ (by simp) k
@[simp] theorem reg_drainQueue (q : List Msg) (k : Act) {st} : Reg me (Fine.drainQueue q k) st ↔ Reg me k st := by
  unfold Fine.drainQueue; exact reg_forEach_eff q _ (by simp) k
@[simp] theorem reg_drainSenders (l : List SigId) (k : Act) {st} : Reg me (Fine.drainSenders l k) st ↔ Reg me k st := by
  unfold Fine.drainSenders
  induction l with
  | nil => simp
  | cons a l ih => simp [ih]
@[simp] theorem reg_dropData (k : Act) {cur reg} : Reg me (Fine.dropData k) ⟨cur, reg⟩ ↔ Reg me k ⟨cur, reg⟩ := by
  unfold Fine.dropData; simp
@[simp] theorem reg_dropLocal (k : Act) {cur reg} : Reg me (Fine.dropLocal k) ⟨cur, reg⟩ ↔ Reg me k ⟨cur, reg⟩ := by
  unfold Fine.dropLocal; simp
@[simp] theorem reg_failBack (o : Bool) (k : Act) {cur reg} : Reg me (Fine.failBack o k) ⟨cur, reg⟩ ↔ Reg me k ⟨cur, reg⟩ := by
  unfold Fine.failBack; cases o <;> simp
@[simp] theorem reg_take (o : Bool) (k : Act) {st} : Reg me (Fine.take o k) st ↔ Reg me k st := by
  unfold Fine.take; cases o <;> simp
@[simp] theorem reg_guardNone (o : Bool) (k : Act) : Reg me (Fine.guardNone o k) ⟨none, false⟩ ↔ Reg me k ⟨none, false⟩ := by
  unfold Fine.guardNone; cases o <;> simp
@[simp] theorem reg_register (k : Act) {cur reg} : Reg me (Fine.register k) ⟨cur, reg⟩ ↔ Reg me k ⟨cur, reg⟩ := by
  unfold Fine.register; simp
@[simp] theorem reg_readOwn : Reg me Fine.readOwn ⟨none, false⟩ := by
  unfold Fine.readOwn; simp

theorem np_forEach_eff {α : Type} (l : List α) (f : α → Eff) (k : Act) :
    NoPending (Act.forEach l (fun a next => .eff (f a) next) k) ↔ NoPending k := by
  induction l with
  | nil => simp
  | cons a l ih => simp [ih]
@[simp] theorem np_terminate (l : List SigId) (k : Act) : NoPending (Fine.terminate l k) ↔ NoPending k := by
  unfold Fine.terminate; exact np_forEach_eff l _ k
@[simp] theorem np_drainQueue (q : List Msg) (k : Act) : NoPending (Fine.drainQueue q k) ↔ NoPending k := by
  unfold Fine.drainQueue; exact np_forEach_eff q _ k
@[simp] theorem np_drainSenders (l : List SigId) (k : Act) : NoPending (Fine.drainSenders l k) ↔ NoPending k := by
  unfold Fine.drainSenders
  induction l with
  | nil => simp
  | cons a l ih => simp [ih]
@[simp] theorem np_dropData (k : Act) : NoPending (Fine.dropData k) ↔ NoPending k := by
  unfold Fine.dropData; simp
@[simp] theorem np_failBack (o : Bool) (k : Act) : NoPending (Fine.failBack o k) ↔ NoPending k := by
  unfold Fine.failBack; cases o <;> simp
@[simp] theorem np_take (o : Bool) (k : Act) : NoPending (Fine.take o k) ↔ NoPending k := by
  unfold Fine.take; cases o <;> simp
@[simp] theorem np_guardNone (o : Bool) (k : Act) : NoPending (Fine.guardNone o k) ↔ NoPending k := by
  unfold Fine.guardNone; cases o <;> simp
@[simp] theorem np_readOwn : NoPending Fine.readOwn := by
  unfold Fine.readOwn; simp

/-! ### what the critical sections do to the wait list -/

theorem nextRecv_sub (c : Chan) (s : SigId) (h : s ∈ c.nextRecv.1.waitList) : s ∈ c.waitList := by
  unfold Chan.nextRecv at h
  split at h
  · exact h
  · split at h
    · rename_i hw; rw [hw]; exact List.mem_cons_of_mem _ h
    · exact h

theorem nextSend_sub (c : Chan) (s : SigId) (h : s ∈ c.nextSend.1.waitList) : s ∈ c.waitList := by
  unfold Chan.nextSend at h
  split at h
  · exact h
  · split at h
    · rename_i hw; rw [hw]; exact List.mem_cons_of_mem _ h
    · exact h

theorem nextSend_none {c c1 : Chan} (h : c.nextSend = (c1, none)) : c1.waitList = c.waitList := by
  unfold Chan.nextSend at h
  split at h
  · simp at h; rw [← h]
  · split at h
    · simp at h
    · simp at h; rw [← h]

theorem sendPre_sub (c : Chan) (m : Msg) (s : SigId) (h : s ∈ (c.sendPre m).1.waitList) : s ∈ c.waitList := by
  unfold Chan.sendPre at h
  split at h
  · exact h
  · have := nextRecv_sub c s
    split at h
    · rename_i c1 f hn; rw [hn] at this; exact this h
    · rename_i c1 hn
      rw [hn] at this
      split at h <;> exact this h

/-- the first section of a blocking send: `full` pushes `me`; otherwise nothing is added -/
theorem sendCS_cases (c : Chan) (m : Msg) (s : SigId) :
    ((c.sendCS m s).2 = .full ∧ s ∈ (c.sendCS m s).1.waitList) ∨
    ((c.sendCS m s).2 ≠ .full ∧ ∀ t, t ∈ (c.sendCS m s).1.waitList → t ∈ c.waitList) := by
  unfold Chan.sendCS
  have := sendPre_sub c m
  rcases hp : c.sendPre m with ⟨c1, br⟩
  rw [hp] at this
  cases br <;> simp [Chan.pushWaiter] <;> exact this

theorem popAllSenders_sub (c : Chan) (s : SigId) (h : s ∈ c.popAllSenders.1.waitList) : s ∈ c.waitList := by
  unfold Chan.popAllSenders at h
  split at h
  · exact h
  · simp at h

theorem drainCS_sub {c c1 : Chan} {q l n} (hd : c.drainCS = some (c1, q, l, n)) (s : SigId) (h : s ∈ c1.waitList) :
    s ∈ c.waitList := by
  unfold Chan.drainCS at hd
  split at hd
  · simp at hd
  · simp at hd
    obtain ⟨rfl, -⟩ := hd
    exact popAllSenders_sub { c with queue := [] } s h

theorem closeCS_sub {c c1 : Chan} {l q} (hd : c.closeCS = some (c1, l, q)) (s : SigId) (h : s ∈ c1.waitList) :
    s ∈ c.waitList := by
  unfold Chan.closeCS at hd
  split at hd
  · simp at hd
  · simp at hd
    obtain ⟨rfl, -⟩ := hd
    simp at h

theorem cloneCS_waitList (c : Chan) (side : Side) : (c.cloneCS side).waitList = c.waitList := by
  unfold Chan.cloneCS
  cases side <;> simp <;> split <;> rfl

theorem dropCS_sub (c : Chan) (side : Side) (s : SigId) (h : s ∈ (c.dropCS side).1.waitList) : s ∈ c.waitList := by
  unfold Chan.dropCS Chan.terminateAll at h
  cases side <;> simp only at h <;> split at h <;> (try split at h) <;> first | exact h | simp at h


/-! ### handles, observers, non-blocking calls, drain -/

theorem reg_observe (me : SigId) (f : Chan → Res) : Reg me (Fine.observe f) {} := by
  unfold Fine.observe
  simp
  intro c hm _
  simp [unlockReg_out hm]

theorem reg_cloneHandle (me : SigId) (side : Side) : Reg me (Fine.cloneHandle side) {} := by
  unfold Fine.cloneHandle
  simp
  intro c hm _
  rw [unlockReg_out (by rw [cloneCS_waitList]; exact hm)]

theorem reg_dropHandle (me : SigId) (side : Side) : Reg me (Fine.dropHandle side) {} := by
  unfold Fine.dropHandle
  simp
  intro c hm _
  rw [unlockReg_out (fun h => hm (dropCS_sub c side me h))]

theorem reg_close (me : SigId) : Reg me Fine.close {} := by
  unfold Fine.close
  simp
  intro c hm _
  split
  · simp [unlockReg_out hm]
  · rename_i c1 l q hc
    simp
    rw [unlockReg_out (fun h => hm (closeCS_sub hc me h))]

theorem reg_sendErr {c : Chan} (hm : me ∉ c.waitList) : Reg me (Fine.sendErr c) ⟨some c, false⟩ := by
  unfold Fine.sendErr
  simp [unlockReg_out hm]

theorem reg_trySend (opt rt : Bool) (x : Ctx) : Reg x.me (Fine.trySend opt rt x) {} := by
  unfold Fine.trySend Fine.acquire
  have key : ∀ c : Chan, x.me ∉ c.waitList → Reg x.me
      (match c.sendPre x.m with
        | (_, .errClosed) | (_, .errRecvClosed) => Fine.sendErr c
        | (c1, .handoff r) => .unlock c1 (Fine.take opt (.eff (.sigSend r x.m) (.ret (.bool true))))
        | (c1, .buffered) => Fine.take opt (.unlock c1 (.ret (.bool true)))
        | (c1, .full) => .unlock c1 (.ret (.bool false))) ⟨some c, false⟩ := by
    intro c hm
    have hs := sendPre_sub c x.m x.me
    rcases hb : c.sendPre x.m with ⟨c1, br⟩
    rw [hb] at hs
    have ho : unlockReg x.me c c1 false = false := unlockReg_out (fun h => hm (hs h))
    cases br <;> simp [ho, reg_sendErr hm]
  simp
  cases rt <;> simp <;> intro c hm _ <;> exact key c hm

theorem reg_recvHead {c : Chan} {wrap closedFirst : Act → Act} {onNone : Chan → Act} (hm : me ∉ c.waitList)
    (hw : ∀ k, Reg me k ⟨none, false⟩ → Reg me (wrap k) ⟨none, false⟩)
    (hc : ∀ k, Reg me k ⟨some c, false⟩ → Reg me (closedFirst k) ⟨some c, false⟩)
    (hn : ∀ c1 : Chan, c1.waitList = c.waitList → Reg me (onNone c1) ⟨some c, false⟩) :
    Reg me (Fine.recvHead c wrap closedFirst onNone) ⟨some c, false⟩ := by
  unfold Fine.recvHead
  split
  · apply hc; simp [unlockReg_out hm]
  · split
    · rename_i v q hq
      have hs := nextSend_sub { c with queue := q } me
      split
      · rename_i c1 p hnx
        rw [hnx] at hs
        simp
        intro m
        rw [unlockReg_out (found := c) (pub := { c1 with queue := c1.queue ++ [m] }) (fun h => hm (hs h))]
        apply hw; simp
      · rename_i c1 hnx
        rw [hnx] at hs
        simp
        rw [unlockReg_out (fun h => hm (hs h))]
        apply hw; simp
    · have hs := nextSend_sub c me
      split
      · rename_i c1 p hnx
        rw [hnx] at hs
        simp
        rw [unlockReg_out (fun h => hm (hs h))]
        apply hw; simp
      · rename_i c1 hnx
        exact hn c1 (nextSend_none hnx)

theorem reg_tryRecv (me : SigId) (rt : Bool) : Reg me (Fine.tryRecv rt) {} := by
  unfold Fine.tryRecv Fine.acquire
  have key : ∀ c : Chan, me ∉ c.waitList → Reg me (Fine.recvHead c id id fun c1 =>
      if c1.sendCount == 0 then .unlock c1 (.ret (.err .sendClosed)) else .unlock c1 (.ret .none)) ⟨some c, false⟩ := by
    intro c hm
    apply reg_recvHead hm (fun k h => h) (fun k h => h)
    intro c1 hw
    have ho : unlockReg me c c1 false = false := unlockReg_out (by rw [hw]; exact hm)
    simp [ho]
  cases rt <;> simp [-beq_iff_eq] <;> intro c hm _ <;> exact key c hm

theorem reg_drain (x : Ctx) : Reg x.me (Fine.drain x) {} := by
  unfold Fine.drain
  simp
  intro c hm _
  split
  · simp [unlockReg_out hm]
  · rename_i c1 q l n hd
    have ho : unlockReg x.me c c1 false = false := unlockReg_out (fun h => hm (drainCS_sub hd x.me h))
    simp [ho]

/-! ### blocking and timed calls -/

/-- after `wait_timeout` gave up: still exposed until the cancel succeeded or `wait` returned -/
theorem reg_timedSendTail (opt : Bool) (x : Ctx) : Reg x.me (Fine.timedSendTail opt x) ⟨none, true⟩ := by
  unfold Fine.timedSendTail
  simp
  intro c hn h
  exact unlockReg_cancel_true hn h

theorem reg_timedRecvTail (x : Ctx) : Reg x.me (Fine.timedRecvTail x) ⟨none, true⟩ := by
  unfold Fine.timedRecvTail
  simp
  intro c hn h
  exact unlockReg_cancel_true hn h

theorem reg_send (timed opt : Bool) (x : Ctx) : Reg x.me (Fine.send timed opt x) {} := by
  unfold Fine.send
  have key : ∀ c : Chan, x.me ∉ c.waitList → Reg x.me
      (match c.sendCS x.m x.me with
        | (_, .errClosed) | (_, .errRecvClosed) => Fine.sendErr c
        | (c1, .handoff r) => .unlock c1 (Fine.take opt (.eff (.sigSend r x.m) (.ret .unit)))
        | (c1, .buffered) => Fine.take opt (.unlock c1 (.ret .unit))
        | (c1, .full) =>
          .eff (if opt then .wrapTaken else .wrapData) <| .eff .newSendSig <| .unlock c1 <|
            if timed then Fine.timedSendTail opt x
            else .askB .wait fun ok => if ok then .ret .unit else Fine.dropData (.ret (.err .closed))) ⟨some c, false⟩ := by
    intro c hm
    have hs := sendCS_cases c x.m x.me
    rcases hb : c.sendCS x.m x.me with ⟨c1, br⟩
    rw [hb] at hs
    rcases hs with ⟨hf, hin⟩ | ⟨hf, hsub⟩
    · simp at hf hin
      subst hf
      have hi : unlockReg x.me c c1 false = true := unlockReg_in hin
      cases opt <;> simp [hi, reg_timedSendTail]
    · have ho : unlockReg x.me c c1 false = false := unlockReg_out (fun h => hm (hsub _ h))
      cases br <;> simp [ho, reg_sendErr hm] at hf ⊢
  simp
  cases timed <;> simp <;> intro c hm _ <;> exact key c hm

theorem reg_recv (timed : Bool) (x : Ctx) : Reg x.me (Fine.recv timed x) {} := by
  unfold Fine.recv
  have key : ∀ c : Chan, x.me ∉ c.waitList → Reg x.me
      (Fine.recvHead c id id fun c1 =>
        (fun k => if timed then Act.askB .expired fun e => if e then .unlock c1 (.ret (.err .timeout)) else k else k) <|
        if c1.sendCount == 0 then .unlock c1 (.ret (.err .sendClosed))
        else .eff .newRetSlot <| .eff .newRecvSig <| .unlock (c1.pushWaiter x.me) <|
          if timed then Fine.timedRecvTail x
          else .askB .wait fun ok => if ok then Fine.readOwn else .ret (.err .closed)) ⟨some c, false⟩ := by
    intro c hm
    apply reg_recvHead hm (fun k h => h) (fun k h => h)
    intro c1 hw
    have ho : unlockReg x.me c c1 false = false := unlockReg_out (by rw [hw]; exact hm)
    have hi : unlockReg x.me c (c1.pushWaiter x.me) false = true := unlockReg_in (by simp [Chan.pushWaiter])
    cases timed <;> simp [ho, hi, reg_timedRecvTail]
  cases timed <;> simp [-beq_iff_eq] <;> intro c hm _ <;> exact key c hm

/-! ### futures -/

theorem reg_dropSendFut (x : Ctx) : Reg x.me (Fine.dropSendFut x) { reg := x.st == .waiting } := by
  unfold Fine.dropSendFut
  cases hst : x.st <;> simp
  intro c hn
  cases h : (c.cancel .send x.me).2
  · simp [unlockReg_cancel_false h]
  · simp [unlockReg_cancel_true hn h]

theorem reg_dropRecvFut (x : Ctx) : Reg x.me (Fine.dropRecvFut x) { reg := x.st == .waiting } := by
  unfold Fine.dropRecvFut
  cases hst : x.st <;> simp
  intro c hn
  cases h : (c.cancel .recv x.me).2
  · simp [unlockReg_cancel_false h]
  · simp [unlockReg_cancel_true hn h]

theorem reg_pollSend (x : Ctx) : Reg x.me (Fine.pollSend x) { reg := x.st == .waiting } := by
  unfold Fine.pollSend
  cases hst : x.st <;> simp
  · intro c hm _
    have hs := sendCS_cases c x.m x.me
    rcases hb : c.sendCS x.m x.me with ⟨c1, br⟩
    rw [hb] at hs
    rcases hs with ⟨hf, hin⟩ | ⟨hf, hsub⟩
    · simp at hf hin
      subst hf
      have hi : unlockReg x.me c c1 false = true := unlockReg_in hin
      simp [hi]
    · have ho : unlockReg x.me c c1 false = false := unlockReg_out (fun h => hm (hsub _ h))
      have ho' : unlockReg x.me c c false = false := unlockReg_out hm
      cases br <;> simp [ho, ho'] at hf ⊢

theorem reg_pollRecvRound_zero (x : Ctx) (again : Act) : Reg x.me (Fine.pollRecvRound x .zero again) ⟨none, false⟩ := by
  unfold Fine.pollRecvRound
  simp only [reg_lock, true_and]
  intro c hm _
  replace hm := hm trivial
  apply reg_recvHead hm (fun k h => by simp [h]) (fun k h => by simp [h])
  intro c1 hw
  have ho : unlockReg x.me c c1 false = false := unlockReg_out (by rw [hw]; exact hm)
  have hi : unlockReg x.me c (c1.pushWaiter x.me) false = true := unlockReg_in (by simp [Chan.pushWaiter])
  simp [ho, hi]

theorem reg_pollRecvRound_waiting (x : Ctx) (again : Act) : Reg x.me (Fine.pollRecvRound x .waiting again) ⟨none, true⟩ := by
  unfold Fine.pollRecvRound
  simp

/-- a finished stream future re-arms its signal: allowed, because it is not exposed -/
theorem reg_pollRecvRound_done (x : Ctx) (again : Act) (h : Reg x.me again ⟨none, false⟩) :
    Reg x.me (Fine.pollRecvRound x .done again) ⟨none, false⟩ := by
  unfold Fine.pollRecvRound
  simp [h]

theorem reg_pollRecv (x : Ctx) : Reg x.me (Fine.pollRecv x) { reg := x.st == .waiting } := by
  unfold Fine.pollRecv
  cases hst : x.st
  · exact reg_pollRecvRound_zero x _
  · exact reg_pollRecvRound_waiting x _
  · exact reg_pollRecvRound_done x _ (reg_pollRecvRound_zero x _)

/-- `Act.bind` with a continuation that returns at once and keeps `Pending` -/
theorem reg_bind {f : Res → Act} (hf : ∀ r reg, (reg = true → r = .pending) → Reg me (f r) ⟨none, reg⟩) :
    ∀ (a : Act) (st : RegSt), Reg me a st → Reg me (a.bind f) st := by
  intro a
  induction a with
  | ret r => intro ⟨cur, reg⟩ h; simp only [reg_ret] at h; obtain ⟨rfl, h⟩ := h; exact hf r reg h
  | diverge => intro st _; simp [Act.bind]
  | lock k ih =>
    intro ⟨cur, reg⟩ h; simp only [Act.bind, reg_lock] at h ⊢
    exact ⟨h.1, fun c h1 h2 => ih c _ (h.2 c h1 h2)⟩
  | tryLock k ih =>
    intro ⟨cur, reg⟩ h; simp only [Act.bind, reg_tryLock] at h ⊢
    exact ⟨h.1, fun c h1 h2 => ih _ _ (h.2.1 c h1 h2), ih _ _ h.2.2⟩
  | unlock c k ih =>
    intro ⟨cur, reg⟩ h; simp only [Act.bind, reg_unlock] at h ⊢
    obtain ⟨c0, hc, h⟩ := h
    exact ⟨c0, hc, ih _ h⟩
  | eff e k ih => intro st h; simp only [Act.bind, reg_eff] at h ⊢; exact ⟨h.1, ih _ h.2⟩
  | askB q k ih => intro ⟨cur, reg⟩ h; simp only [Act.bind, reg_askB] at h ⊢; exact fun b => ih b _ (h b)
  | askM q k ih => intro st h; simp only [Act.bind, reg_askM] at h ⊢; exact fun m => ih m _ (h m)
  | askP k ih =>
    intro ⟨cur, reg⟩ h; simp only [Act.bind, reg_askP] at h ⊢
    exact ⟨ih _ _ h.1, fun b => ih _ _ (h.2 b)⟩

/-- `poll_next`.  Hypothesis: the stream object's invariant `terminated → state = done` (see `streamInv_pollNext`). -/
theorem reg_pollNext (x : Ctx) (hinv : x.terminated = true → x.st = .done) :
    Reg x.me (Fine.pollNext x) { reg := x.st == .waiting } := by
  unfold Fine.pollNext
  split
  · rename_i ht; simp [hinv ht]
  · refine reg_bind ?_ _ _ (reg_pollRecv x)
    intro r reg h
    cases reg
    · cases r <;> simp
    · cases r <;> simp at h ⊢

/-- without it the statement is false: an ended stream answers `Ready(None)` at once, whatever the future's state -/
theorem not_reg_pollNext_terminated_waiting (x : Ctx) (ht : x.terminated = true) (hs : x.st = .waiting) :
    ¬ Reg x.me (Fine.pollNext x) { reg := x.st == .waiting } := by
  unfold Fine.pollNext
  simp [ht, hs]

/-! ### the rule is not vacuous -/

/-- `recv_timeout` whose fallback after a failed cancel asks `is_terminated` instead of `wait`, and returns -/
def badTimedRecv (me : SigId) : Act :=
  .lock fun c => .unlock (c.pushWaiter me) <|
    .askB .waitTimeout fun ok => if ok then Fine.readOwn else
    .lock fun c' =>
      if (c'.cancel .recv me).2 then .unlock (c'.cancel .recv me).1 (.ret (.err .timeout))
      else .unlock (c'.cancel .recv me).1 (.askB .isTerminated fun _ => .ret (.err .timeout))

theorem not_reg_badTimedRecv (me : SigId) : ¬ Reg me (badTimedRecv me) {} := by
  intro h
  unfold badTimedRecv at h
  rw [reg_lock] at h
  have h1 := h.2 (Chan.new none) (by simp [Chan.new]) (by simp [Chan.new])
  rw [reg_unlock_some, unlockReg_in (by simp [Chan.pushWaiter]), reg_askB] at h1
  have h2 := h1 false
  simp only [askBReg_waitTimeout, Bool.not_false, Bool.true_and, Bool.false_eq_true, if_false, reg_lock] at h2
  have h3 := h2.2 (Chan.new none) (by simp) (by simp [Chan.new])
  have hc : ((Chan.new none).cancel .recv me).2 = false := by simp [Chan.cancel, Chan.new]
  rw [hc] at h3
  simp only [Bool.false_eq_true, if_false, reg_unlock_some, unlockReg_cancel_false hc, reg_askB] at h3
  have h4 := h3 false
  simp at h4

/-- a `Drop` that returns right after the cancel, whether it succeeded or not (no `async_blocking_wait`) -/
def badDrop (me : SigId) : Act := .lock fun c => .unlock (c.cancel .recv me).1 (.ret .unit)

theorem not_reg_badDrop (me : SigId) : ¬ Reg me (badDrop me) { reg := true } := by
  intro h
  unfold badDrop at h
  rw [reg_lock] at h
  have h1 := h.2 (Chan.new none) (by simp) (by simp [Chan.new])
  have hc : ((Chan.new none).cancel .recv me).2 = false := by simp [Chan.cancel, Chan.new]
  rw [reg_unlock_some, unlockReg_cancel_false hc] at h1
  simp at h1

/-- a concrete state on which `send` does push its signal: `reg` becomes `true` on that path (a rendezvous channel
    with no receiver waiting), and returning right there would be rejected -/
example (x : Ctx) :
    x.me ∉ (Chan.new (some 0)).waitList ∧ (Chan.new (some 0)).waitList.Nodup ∧
    (Chan.new (some 0)).sendCS x.m x.me = ({ Chan.new (some 0) with waitList := [x.me] }, .full) ∧
    unlockReg x.me (Chan.new (some 0)) ((Chan.new (some 0)).sendCS x.m x.me).1 false = true ∧
    ¬ Reg x.me (.unlock ((Chan.new (some 0)).sendCS x.m x.me).1 (.ret .unit)) ⟨some (Chan.new (some 0)), false⟩ := by
  have e : (Chan.new (some 0)).sendCS x.m x.me = ({ Chan.new (some 0) with waitList := [x.me] }, .full) := by
    simp [Chan.new, Chan.sendCS, Chan.sendPre, Chan.nextRecv, Chan.hasRoom, Chan.pushWaiter]
  refine ⟨by simp [Chan.new], by simp [Chan.new], e, ?_, ?_⟩
  · rw [e]; exact unlockReg_in (by simp)
  · rw [e, reg_unlock_some, unlockReg_in (by simp)]; simp

/-! ### sync / timed / try calls and the `Drop`s never answer `Pending` -/

theorem np_sendErr (c : Chan) : NoPending (Fine.sendErr c) := by
  unfold Fine.sendErr; simp

theorem np_recvHead {c : Chan} {wrap closedFirst : Act → Act} {onNone : Chan → Act}
    (hw : ∀ k, NoPending k → NoPending (wrap k)) (hc : ∀ k, NoPending k → NoPending (closedFirst k))
    (hn : ∀ c1, NoPending (onNone c1)) : NoPending (Fine.recvHead c wrap closedFirst onNone) := by
  unfold Fine.recvHead
  split
  · apply hc; simp
  · split
    · split
      · simp; apply hw; simp
      · simp; apply hw; simp
    · split
      · simp; apply hw; simp
      · apply hn

theorem np_observe (f : Chan → Res) (hf : ∀ c, f c ≠ .pending) : NoPending (Fine.observe f) := by
  unfold Fine.observe; simp [hf]
theorem np_cloneHandle (side : Side) : NoPending (Fine.cloneHandle side) := by
  unfold Fine.cloneHandle; simp
theorem np_dropHandle (side : Side) : NoPending (Fine.dropHandle side) := by
  unfold Fine.dropHandle; simp
theorem np_close : NoPending Fine.close := by
  unfold Fine.close; simp; intro c; split <;> simp

theorem np_trySend (opt rt : Bool) (x : Ctx) : NoPending (Fine.trySend opt rt x) := by
  unfold Fine.trySend Fine.acquire
  simp
  cases rt <;> simp
  · intro c
    rcases hb : c.sendPre x.m with ⟨c1, br⟩
    cases br <;> simp [np_sendErr]
  · intro oc
    cases oc <;> simp
    rename_i c
    rcases hb : c.sendPre x.m with ⟨c1, br⟩
    cases br <;> simp [np_sendErr]

theorem np_tryRecv (rt : Bool) : NoPending (Fine.tryRecv rt) := by
  unfold Fine.tryRecv Fine.acquire
  cases rt <;> simp
  · intro c; apply np_recvHead <;> simp
  · intro oc; cases oc <;> simp
    apply np_recvHead <;> simp

theorem np_timedSendTail (opt : Bool) (x : Ctx) : NoPending (Fine.timedSendTail opt x) := by
  unfold Fine.timedSendTail; simp
theorem np_timedRecvTail (x : Ctx) : NoPending (Fine.timedRecvTail x) := by
  unfold Fine.timedRecvTail; simp

theorem np_send (timed opt : Bool) (x : Ctx) : NoPending (Fine.send timed opt x) := by
  unfold Fine.send
  simp
  cases timed <;> simp
  all_goals
    intro c
    rcases hb : c.sendCS x.m x.me with ⟨c1, br⟩
    cases br <;> simp [np_sendErr, np_timedSendTail]

theorem np_recv (timed : Bool) (x : Ctx) : NoPending (Fine.recv timed x) := by
  unfold Fine.recv
  cases timed <;> simp <;> intro c <;> apply np_recvHead <;> simp [np_timedRecvTail]

theorem np_drain (x : Ctx) : NoPending (Fine.drain x) := by
  unfold Fine.drain
  simp
  intro c
  split <;> simp

theorem np_dropSendFut (x : Ctx) : NoPending (Fine.dropSendFut x) := by
  unfold Fine.dropSendFut Fine.dropLocal; simp
theorem np_dropRecvFut (x : Ctx) : NoPending (Fine.dropRecvFut x) := by
  unfold Fine.dropRecvFut Fine.dropLocal; simp

/-! ### the stream object's invariant: `terminated → state = done`

  `Track Q t st term`: along every path of `t`, started with `self.state = st` and `self.terminated = term`, following
  the `setState` / `setTerminated` effects, every return `r` satisfies `Q r st' term'`. -/

def effSt : Eff → FutSt → FutSt
  | .setState s, _ => s
  | _, st => st

def effTerm : Eff → Bool → Bool
  | .setTerminated, _ => true
  | _, t => t

inductive Track (Q : Res → FutSt → Bool → Prop) : Act → FutSt → Bool → Prop where
  | ret {r st t} : Q r st t → Track Q (.ret r) st t
  | diverge {st t} : Track Q .diverge st t
  | lock {k st t} : (∀ c, Track Q (k c) st t) → Track Q (.lock k) st t
  | tryLock {k st t} : (∀ c, Track Q (k c) st t) → Track Q (.tryLock k) st t
  | unlock {c k st t} : Track Q k st t → Track Q (.unlock c k) st t
  | eff {e k st t} : Track Q k (effSt e st) (effTerm e t) → Track Q (.eff e k) st t
  | askB {q k st t} : (∀ b, Track Q (k b) st t) → Track Q (.askB q k) st t
  | askM {q k st t} : (∀ m, Track Q (k m) st t) → Track Q (.askM q k) st t
  | askP {k st t} : (∀ r, Track Q (k r) st t) → Track Q (.askP k) st t

variable {Q : Res → FutSt → Bool → Prop}

@[simp] theorem tr_ret {r st t} : Track Q (.ret r) st t ↔ Q r st t :=
  ⟨fun h => by cases h with | ret h => exact h, .ret⟩
@[simp] theorem tr_diverge {st t} : Track Q .diverge st t ↔ True := ⟨fun _ => trivial, fun _ => .diverge⟩
@[simp] theorem tr_lock {k st t} : Track Q (.lock k) st t ↔ ∀ c, Track Q (k c) st t :=
  ⟨fun h => by cases h with | lock h => exact h, .lock⟩
@[simp] theorem tr_tryLock {k st t} : Track Q (.tryLock k) st t ↔ ∀ c, Track Q (k c) st t :=
  ⟨fun h => by cases h with | tryLock h => exact h, .tryLock⟩
@[simp] theorem tr_unlock {c k st t} : Track Q (.unlock c k) st t ↔ Track Q k st t :=
  ⟨fun h => by cases h with | unlock h => exact h, .unlock⟩
@[simp] theorem tr_eff {e k st t} : Track Q (.eff e k) st t ↔ Track Q k (effSt e st) (effTerm e t) :=
  ⟨fun h => by cases h with | eff h => exact h, .eff⟩
@[simp] theorem tr_askB {q k st t} : Track Q (.askB q k) st t ↔ ∀ b, Track Q (k b) st t :=
  ⟨fun h => by cases h with | askB h => exact h, .askB⟩
@[simp] theorem tr_askM {q k st t} : Track Q (.askM q k) st t ↔ ∀ m, Track Q (k m) st t :=
  ⟨fun h => by cases h with | askM h => exact h, .askM⟩
@[simp] theorem tr_askP {k st t} : Track Q (.askP k) st t ↔ ∀ r, Track Q (k r) st t :=
  ⟨fun h => by cases h with | askP h => exact h, .askP⟩
@[simp] theorem tr_ite {c : Prop} [Decidable c] {a b : Act} {st t} :
    Track Q (if c then a else b) st t ↔ (c → Track Q a st t) ∧ (¬ c → Track Q b st t) := by
  split <;> simp [*]

theorem tr_bind {Q' : Res → FutSt → Bool → Prop} {f : Res → Act} (hf : ∀ r st t, Q r st t → Track Q' (f r) st t) :
    ∀ (a : Act) (st : FutSt) (t : Bool), Track Q a st t → Track Q' (a.bind f) st t := by
  intro a
  induction a with
  | ret r => intro st t h; exact hf r st t (tr_ret.mp h)
  | diverge => intro st t _; simp [Act.bind]
  | lock k ih => intro st t h; simp only [Act.bind, tr_lock] at h ⊢; exact fun c => ih c _ _ (h c)
  | tryLock k ih => intro st t h; simp only [Act.bind, tr_tryLock] at h ⊢; exact fun c => ih c _ _ (h c)
  | unlock c k ih => intro st t h; simp only [Act.bind, tr_unlock] at h ⊢; exact ih _ _ h
  | eff e k ih => intro st t h; simp only [Act.bind, tr_eff] at h ⊢; exact ih _ _ h
  | askB q k ih => intro st t h; simp only [Act.bind, tr_askB] at h ⊢; exact fun b => ih b _ _ (h b)
  | askM q k ih => intro st t h; simp only [Act.bind, tr_askM] at h ⊢; exact fun m => ih m _ _ (h m)
  | askP k ih => intro st t h; simp only [Act.bind, tr_askP] at h ⊢; exact fun r => ih r _ _ (h r)

/-- what `ReceiveFuture::poll` guarantees to the stream: an error is answered in state `done`; `terminated` untouched -/
def ErrDone (r : Res) (st : FutSt) (t : Bool) : Prop := t = false ∧ ∀ e, r = .err e → st = .done

theorem tr_recvHead {c : Chan} {wrap closedFirst : Act → Act} {onNone : Chan → Act} {st t}
    (hw : ∀ k, (∀ st, Track ErrDone k st false) → Track ErrDone (wrap k) st t)
    (hc : Track ErrDone (closedFirst (.unlock c (.ret (.err .closed)))) st t)
    (hn : ∀ c1, Track ErrDone (onNone c1) st t) : Track ErrDone (Fine.recvHead c wrap closedFirst onNone) st t := by
  unfold Fine.recvHead
  split
  · exact hc
  · split
    · split
      · simp; apply hw; simp [ErrDone]
      · simp; apply hw; simp [ErrDone]
    · split
      · simp; apply hw; simp [ErrDone]
      · apply hn

theorem tr_pollRecvRound_zero (x : Ctx) (again : Act) (st : FutSt) :
    Track ErrDone (Fine.pollRecvRound x .zero again) st false := by
  unfold Fine.pollRecvRound
  simp only [tr_lock]
  intro c
  apply tr_recvHead
  · intro k hk; simp [effSt, effTerm, hk]
  · simp [effSt, effTerm, ErrDone]
  · intro c1; simp [Fine.register, effSt, effTerm, ErrDone]

theorem tr_pollRecvRound_done (x : Ctx) (again : Act) (st : FutSt) (h : ∀ st, Track ErrDone again st false) :
    Track ErrDone (Fine.pollRecvRound x .done again) st false := by
  unfold Fine.pollRecvRound
  simp [effSt, effTerm, ErrDone, h]

theorem tr_pollRecv (x : Ctx) : Track ErrDone (Fine.pollRecv x) x.st false := by
  unfold Fine.pollRecv
  cases hst : x.st
  · exact tr_pollRecvRound_zero x _ _
  · unfold Fine.pollRecvRound
    simp only [tr_askP]
    intro r; cases r <;> simp [effSt, effTerm, ErrDone]
  · exact tr_pollRecvRound_done x _ _ (tr_pollRecvRound_zero x _)

/-- `poll_next` preserves the stream invariant (it is the only function that writes `terminated`; a new stream starts
    with `terminated = false`), so the hypothesis of `reg_pollNext` holds at every call -/
theorem streamInv_pollNext (x : Ctx) (hinv : x.terminated = true → x.st = .done) :
    Track (fun _ st t => t = true → st = .done) (Fine.pollNext x) x.st x.terminated := by
  unfold Fine.pollNext
  split
  · simpa using hinv
  · rename_i ht
    have hf : x.terminated = false := by simpa using ht
    rw [hf]
    refine tr_bind ?_ _ _ _ (tr_pollRecv x)
    intro r st t ⟨h1, h2⟩
    subst h1
    cases r <;> simp [effSt, effTerm]
    exact h2 _ rfl

end NoDangle
end Kanal

#print axioms Kanal.NoDangle.reg_send
#print axioms Kanal.NoDangle.reg_recv
#print axioms Kanal.NoDangle.reg_trySend
#print axioms Kanal.NoDangle.reg_tryRecv
#print axioms Kanal.NoDangle.reg_drain
#print axioms Kanal.NoDangle.reg_close
#print axioms Kanal.NoDangle.reg_dropHandle
#print axioms Kanal.NoDangle.reg_cloneHandle
#print axioms Kanal.NoDangle.reg_observe
#print axioms Kanal.NoDangle.reg_pollSend
#print axioms Kanal.NoDangle.reg_pollRecv
#print axioms Kanal.NoDangle.reg_pollNext
#print axioms Kanal.NoDangle.reg_dropSendFut
#print axioms Kanal.NoDangle.reg_dropRecvFut
#print axioms Kanal.NoDangle.not_reg_badTimedRecv
#print axioms Kanal.NoDangle.not_reg_badDrop
#print axioms Kanal.NoDangle.not_reg_pollNext_terminated_waiting
#print axioms Kanal.NoDangle.streamInv_pollNext
#print axioms Kanal.NoDangle.np_send
#print axioms Kanal.NoDangle.np_recv
#print axioms Kanal.NoDangle.np_trySend
#print axioms Kanal.NoDangle.np_tryRecv
#print axioms Kanal.NoDangle.np_drain
#print axioms Kanal.NoDangle.np_close
#print axioms Kanal.NoDangle.np_dropHandle
#print axioms Kanal.NoDangle.np_cloneHandle
#print axioms Kanal.NoDangle.np_observe
#print axioms Kanal.NoDangle.np_dropSendFut
#print axioms Kanal.NoDangle.np_dropRecvFut
