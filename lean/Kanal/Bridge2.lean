/-
  Kanal.Bridge2 — the bridge for blocking calls and futures.

  `Kanal.Bridge.run` gives up on everything only a blocking call or a future does.  `run2` executes those too, with the
  caller's identity made explicit (`Env`): effects on the caller's own signal act on waiter `x.me` of the model's waiter
  table, questions the code asks its own signal are answered from that waiter, `wait` / `wait_timeout` suspend and hand
  back the continuation (`Out2.blocked k`) — the point where `Spec.step` answers `.blocked me` — and `resume` runs a
  continuation to the end and retires the caller's frame the way `.complete` / `.expire` do.

  The theorems say, for `Variant.good`: each label of `Spec.step` that belongs to a blocking call or a future
  (`.send .recv .complete .expire .pollSend .pollRecv .dropSendFut .dropRecvFut`) and the corresponding tree of
  `Kanal.Fine` give the same result and the same `core` (`chan`, waiter table, wake log).

  What the comparison ignores:
  * the ghost fields of `State` (custody, logs, ledgers), as in `Kanal.Bridge`; the waiter table is compared in full
    (`orig` included) — except
  * in the three poll theorems the `slot` of the polled future once it is finished (`forget`): `Spec.step` empties it
    when the value leaves, the code only sets `state = Done`;
  * where `Spec.step` answers `.spin` (poll with another waker / drop inside the hand-off window) the tree gives
    `Out2.spin`; the states are then not compared for polls (the code has already set `state = Done`), and are equal
    for drops.
  `data.is_none()` is answered `false` (safe callers pass `Some`), `needs_drop` and `size_of::<T>() > size_of::<*mut T>()`
  are parameters no theorem constrains.
-/
import Kanal.Bridge

namespace Kanal
namespace Bridge
open State

set_option linter.unusedSimpArgs false

/-- Who runs the tree and what the environment answers. -/
structure Env where
  x         : Ctx                -- `x.m` the value, `x.me` the caller's own signal, `x.st`, `x.isStream`
  kind      : Kind := .sync      -- how a signal created by this call waits (`newSendSig` / `newRecvSig`)
  opt       : Bool := false      -- the Option-taking variant (recorded in a created send signal)
  w         : WakerId := 0       -- the waker this `poll` was given
  expired   : Bool := false      -- `Instant::now() > deadline` at the pre-check of `recv_timeout`
  needsDrop : Bool := false      -- `needs_drop::<T>()`          (no theorem depends on it)
  sizeGtPtr : Bool := false      -- `size_of::<T>() > size_of::<*mut T>()`   (no theorem depends on it)

/-- What running a tree yields. -/
inductive Out2 where
  | ret (r : Res)
  | blocked (k : Bool → Act)   -- suspended at `wait` / `wait_timeout`; `k` is the rest of the call
  | spin                       -- `async_blocking_wait` on a signal that is still pending: busy-waits for the peer's final store
  | stuck                      -- an expression without a rule, or the caller's own signal does not exist
  | diverge
  deriving Inhabited

/-- Update waiter `i` (nothing happens if it does not exist). -/
def modSig (s : State) (i : SigId) (f : Sig → Sig) : State :=
  match s.sigs[i]? with
  | some g => s.setSig i (f g)
  | none => s

/-- Effects.  Those that only concern the custody of a value (which `Spec` tracks in ghost state) change nothing. -/
def effState (e : Env) (s : State) : Eff → Option State
  | .sigSend p m => some (s.deliverTo p m)
  | .sigTerminate p => some (s.finalize p .term)
  | .newSendSig => some (s.newSig { role := .send, kind := e.kind, opt := e.opt, slot := some e.x.m, orig := some e.x.m }).1
  | .newRecvSig => some (s.newSig { role := .recv, kind := e.kind }).1
  | .setState st => some (modSig s e.x.me fun g => { g with fut := st })
  | .registerWaker => some (modSig s e.x.me fun g => { g with waker := some e.w })
  | .rearmSig => some (modSig s e.x.me fun g => { g with st := .pending, slot := none, waker := none })
  | .setTerminated => some (modSig s e.x.me fun g => { g with streamEnded := true })
  | .unknown _ => none
  | _ => some s

/-- How a Boolean question is answered. -/
inductive Ans where
  | ans (b : Bool) | suspend | spin | stuck

def ansB (e : Env) (s : State) : AskB → Ans
  | .wait => .suspend
  | .waitTimeout => .suspend
  | .isTerminated => match s.sigs[e.x.me]? with | some g => .ans (g.st == .term) | none => .stuck
  | .willWake => match s.sigs[e.x.me]? with | some g => .ans (g.waker == some e.w) | none => .stuck
  | .asyncBlockingWait =>
    match s.sigs[e.x.me]? with
    | some g => if g.st == .pending then .spin else .ans (g.st == .ok)
    | none => .stuck
  | .needsDrop => .ans e.needsDrop
  | .sizeGtPtr => .ans e.sizeGtPtr
  | .expired => .ans e.expired
  | .dataIsNone => .ans false      -- safe callers pass `Some` (as in `Bridge.run`)
  | .unknown _ => .stuck

/-- `Signal::poll` of the caller's own signal. -/
def pollAns (g : Sig) : Option Bool :=
  match g.st with
  | .pending => none
  | .ok => some true
  | .term => some false

/-- Sequential reading of a tree, including what only blocking calls and futures do.  `locked` as in `Bridge.run`. -/
def run2 (e : Env) : Act → Bool → State → State × Out2
  | .ret r, _, s => (s, .ret r)
  | .diverge, _, s => (s, .diverge)
  | .lock k, _, s => run2 e (k s.chan) true s
  | .tryLock k, _, s => run2 e (k (some s.chan)) true s
  | .unlock c k, _, s => run2 e k false { s with chan := c }
  | .eff ef k, l, s =>
    match effState e s ef with
    | some s' => run2 e k l s'
    | none => (s, .stuck)
  | .askB q k, l, s =>
    match ansB e s q with
    | .ans b => run2 e (k b) l s
    | .suspend => (s, .blocked k)
    | .spin => (s, .spin)
    | .stuck => (s, .stuck)
  | .askM q k, l, s =>
    match q with
    | .sigRecv p => run2 e (k (s.slotMsg p)) l (if l then s.takeFrom p else s.claimFrom p)
    | _ => run2 e (k (s.slotMsg e.x.me)) l s          -- the caller reads the value in its own slot
  | .askP k, l, s =>
    match s.sigs[e.x.me]? with
    | some g => run2 e (k (pollAns g)) l s
    | none => (s, .stuck)

/-- The caller's frame ends (`.complete` / `.expire`). -/
def retire (s : State) (i : SigId) : State := modSig s i fun g => { g with alive := false, slot := none }

/-- The future is dropped (`.dropSendFut` / `.dropRecvFut`). -/
def retireFut (s : State) (i : SigId) : State := modSig s i fun g => { g with alive := false, slot := none, fut := .done }

/-- A suspended blocking call is resumed with the answer `b` of its `wait` / `wait_timeout`; when it returns, its frame is
    retired.  (It may suspend again: a timed waiter whose cancel found the signal claimed falls back to `wait`.) -/
def resume (e : Env) (k : Bool → Act) (b : Bool) (s : State) : State × Out2 :=
  match run2 e (k b) false s with
  | (s', .ret r) => (retire s' e.x.me, .ret r)
  | r => r

/-- `Drop` of a future: run the tree, then the future is gone. -/
def runDrop (e : Env) (a : Act) (s : State) : State × Out2 :=
  match run2 e a false s with
  | (s', .ret r) => (retireFut s' e.x.me, .ret r)
  | r => r

section run2Eqs
variable (e : Env) (l : Bool) (s : State)
@[simp] theorem run2_ret (r : Res) : run2 e (.ret r) l s = (s, .ret r) := by simp [run2]
@[simp] theorem run2_diverge : run2 e .diverge l s = (s, .diverge) := by simp [run2]
@[simp] theorem run2_lock (k : Chan → Act) : run2 e (.lock k) l s = run2 e (k s.chan) true s := by simp [run2]
@[simp] theorem run2_tryLock (k : Option Chan → Act) : run2 e (.tryLock k) l s = run2 e (k (some s.chan)) true s := by simp [run2]
@[simp] theorem run2_unlock (c : Chan) (k : Act) : run2 e (.unlock c k) l s = run2 e k false { s with chan := c } := by simp [run2]
@[simp] theorem run2_sigSend (p m) (k : Act) : run2 e (.eff (.sigSend p m) k) l s = run2 e k l (s.deliverTo p m) := by simp [run2, effState]
@[simp] theorem run2_sigTerminate (p) (k : Act) : run2 e (.eff (.sigTerminate p) k) l s = run2 e k l (s.finalize p .term) := by simp [run2, effState]
@[simp] theorem run2_newSendSig (k : Act) : run2 e (.eff .newSendSig k) l s =
    run2 e k l (s.newSig { role := .send, kind := e.kind, opt := e.opt, slot := some e.x.m, orig := some e.x.m }).1 := by simp [run2, effState]
@[simp] theorem run2_newRecvSig (k : Act) : run2 e (.eff .newRecvSig k) l s =
    run2 e k l (s.newSig { role := .recv, kind := e.kind }).1 := by simp [run2, effState]
@[simp] theorem run2_setState (st) (k : Act) : run2 e (.eff (.setState st) k) l s =
    run2 e k l (modSig s e.x.me fun g => { g with fut := st }) := by simp [run2, effState]
@[simp] theorem run2_registerWaker (k : Act) : run2 e (.eff .registerWaker k) l s =
    run2 e k l (modSig s e.x.me fun g => { g with waker := some e.w }) := by simp [run2, effState]
@[simp] theorem run2_rearmSig (k : Act) : run2 e (.eff .rearmSig k) l s =
    run2 e k l (modSig s e.x.me fun g => { g with st := .pending, slot := none, waker := none }) := by simp [run2, effState]
@[simp] theorem run2_setTerminated (k : Act) : run2 e (.eff .setTerminated k) l s =
    run2 e k l (modSig s e.x.me fun g => { g with streamEnded := true }) := by simp [run2, effState]
@[simp] theorem run2_vecReserve (n) (k : Act) : run2 e (.eff (.vecReserve n) k) l s = run2 e k l s := by simp [run2, effState]
@[simp] theorem run2_vecPush (n) (k : Act) : run2 e (.eff (.vecPush n) k) l s = run2 e k l s := by simp [run2, effState]
@[simp] theorem run2_wrapDataE (k : Act) : run2 e (.eff .wrapData k) l s = run2 e k l s := by simp [run2, effState]
@[simp] theorem run2_wrapTakenE (k : Act) : run2 e (.eff .wrapTaken k) l s = run2 e k l s := by simp [run2, effState]
@[simp] theorem run2_newRetSlotE (k : Act) : run2 e (.eff .newRetSlot k) l s = run2 e k l s := by simp [run2, effState]
@[simp] theorem run2_readClockE (k : Act) : run2 e (.eff .readClock k) l s = run2 e k l s := by simp [run2, effState]
@[simp] theorem run2_dropDataE (k : Act) : run2 e (.eff .dropData k) l s = run2 e k l s := by simp [run2, effState]
@[simp] theorem run2_giveBackE (k : Act) : run2 e (.eff .giveBack k) l s = run2 e k l s := by simp [run2, effState]
@[simp] theorem run2_dropLocalE (k : Act) : run2 e (.eff .dropLocal k) l s = run2 e k l s := by simp [run2, effState]
@[simp] theorem run2_setPtrE (k : Act) : run2 e (.eff .setPtr k) l s = run2 e k l s := by simp [run2, effState]
@[simp] theorem run2_takeDataE (k : Act) : run2 e (.eff .takeData k) l s = run2 e k l s := by simp [run2, effState]
@[simp] theorem run2_readLocalE (k : Act) : run2 e (.eff .readLocal k) l s = run2 e k l s := by simp [run2, effState]
@[simp] theorem run2_wait (k : Bool → Act) : run2 e (.askB .wait k) l s = (s, .blocked k) := by simp [run2, ansB]
@[simp] theorem run2_waitTimeout (k : Bool → Act) : run2 e (.askB .waitTimeout k) l s = (s, .blocked k) := by simp [run2, ansB]
@[simp] theorem run2_needsDrop (k : Bool → Act) : run2 e (.askB .needsDrop k) l s = run2 e (k e.needsDrop) l s := by simp [run2, ansB]
@[simp] theorem run2_sizeGtPtr (k : Bool → Act) : run2 e (.askB .sizeGtPtr k) l s = run2 e (k e.sizeGtPtr) l s := by simp [run2, ansB]
@[simp] theorem run2_expired (k : Bool → Act) : run2 e (.askB .expired k) l s = run2 e (k e.expired) l s := by simp [run2, ansB]
@[simp] theorem run2_dataIsNone (k : Bool → Act) : run2 e (.askB .dataIsNone k) l s = run2 e (k false) l s := by simp [run2, ansB]
theorem run2_isTerminated {g : Sig} (hg : s.sigs[e.x.me]? = some g) (k : Bool → Act) :
    run2 e (.askB .isTerminated k) l s = run2 e (k (g.st == .term)) l s := by simp [run2, ansB, hg]
theorem run2_willWake {g : Sig} (hg : s.sigs[e.x.me]? = some g) (k : Bool → Act) :
    run2 e (.askB .willWake k) l s = run2 e (k (g.waker == some e.w)) l s := by simp [run2, ansB, hg]
theorem run2_abw_pending {g : Sig} (hg : s.sigs[e.x.me]? = some g) (hp : g.st = .pending) (k : Bool → Act) :
    run2 e (.askB .asyncBlockingWait k) l s = (s, .spin) := by simp [run2, ansB, hg, hp]
theorem run2_abw_final {g : Sig} (hg : s.sigs[e.x.me]? = some g) (hp : g.st ≠ .pending) (k : Bool → Act) :
    run2 e (.askB .asyncBlockingWait k) l s = run2 e (k (g.st == .ok)) l s := by simp [run2, ansB, hg, hp]
theorem run2_askP {g : Sig} (hg : s.sigs[e.x.me]? = some g) (k : Option Bool → Act) :
    run2 e (.askP k) l s = run2 e (k (pollAns g)) l s := by simp [run2, hg]
@[simp] theorem run2_sigRecv (p) (k : Msg → Act) : run2 e (.askM (.sigRecv p) k) l s =
    run2 e (k (s.slotMsg p)) l (if l then s.takeFrom p else s.claimFrom p) := by simp [run2]
@[simp] theorem run2_readLocal (k : Msg → Act) : run2 e (.askM .readLocal k) l s = run2 e (k (s.slotMsg e.x.me)) l s := by simp [run2]
@[simp] theorem run2_readRet (k : Msg → Act) : run2 e (.askM .readRet k) l s = run2 e (k (s.slotMsg e.x.me)) l s := by simp [run2]
@[simp] theorem run2_readSigPtr (k : Msg → Act) : run2 e (.askM .readSigPtr k) l s = run2 e (k (s.slotMsg e.x.me)) l s := by simp [run2]
end run2Eqs


/-! ### 1. first critical section of a blocking send -/

/-- the rest of a blocked `send` after `wait` -/
def sendK : Bool → Act := fun ok => if ok then .ret .unit else Fine.dropData (.ret (.err .closed))

/-- the rest of a blocked `send_timeout` / `send_option_timeout` after `wait_timeout` -/
def timedSendK (opt : Bool) (x : Ctx) : Bool → Act := fun ok => if ok then .ret .unit else
  .askB .isTerminated fun t => if t then Fine.failBack opt (.ret (.err .closed)) else
  .lock fun c =>
    if (c.cancel .send x.me).2 then .unlock (c.cancel .send x.me).1 (Fine.failBack opt (.ret (.err .timeout)))
    else .unlock (c.cancel .send x.me).1
      (.askB .wait fun ok => if ok then .ret .unit else Fine.failBack opt (.ret (.err .closed)))

theorem timedSendTail_eq (opt : Bool) (x : Ctx) : Fine.timedSendTail opt x = .askB .waitTimeout (timedSendK opt x) := rfl

/-- the continuation a blocked send is suspended with -/
def sendCont (timed opt : Bool) (x : Ctx) : Bool → Act := if timed then timedSendK opt x else sendK

/-- `send` (`e.kind = .sync`), `send_timeout`, `send_option_timeout` (`e.kind = .timed`, `e.opt`) up to the point where
    the call returns or starts to wait.  Hypotheses: enabledness of the label (`hk hl hf`) and `hme`: the signal the call
    creates gets the next free index of the waiter table.  Conclusion: same `core` (exactly: the new waiter is the same
    record, `orig` included), and either both register (`.blocked e.x.me` / `Out2.blocked` with the continuation named
    above) or both return the same result. -/
theorem send_first_bridge (e : Env) (s : State) (hk : e.kind ≠ .async) (hl : s.liveS ≠ 0)
    (hf : s.cust e.x.m = .fresh) (hme : e.x.me = s.sigs.length) :
    ∃ s' r, step .good s (.send e.x.m e.kind e.opt) = some (s', r) ∧
      core (run2 e (Fine.send (e.kind == .timed) e.opt e.x) false s).1 = core s' ∧
      ((r = .blocked e.x.me ∧
          (run2 e (Fine.send (e.kind == .timed) e.opt e.x) false s).2 = .blocked (sendCont (e.kind == .timed) e.opt e.x)) ∨
       ((∀ i, r ≠ .blocked i) ∧ (run2 e (Fine.send (e.kind == .timed) e.opt e.x) false s).2 = .ret r)) := by
  rcases e with ⟨x, kind, opt, w, ex, nd, sz⟩
  simp only at hk hf hme ⊢
  simp only [step, hl, hf, hk, sendStep, Fine.send, Fine.guardNone, Fine.sendErr, Fine.take, Chan.sendCS,
    Fine.timedSendTail]
  rcases h : s.chan.sendPre x.m with ⟨c1, b⟩
  cases b
  · have := sendPre_errClosed h
    cases kind <;> (try exact absurd rfl hk) <;> cases opt <;> simp [h, this] <;>
      exact ⟨_, _, ⟨rfl, rfl⟩,
        (core_congr (by simp [failBack_chan]) ((failBack_sw _ _ _).trans' (by simp [SW]))).symm, by simp⟩
  · have := sendPre_errRecvClosed h
    cases kind <;> (try exact absurd rfl hk) <;> cases opt <;> simp [h, this] <;>
      exact ⟨_, _, ⟨rfl, rfl⟩,
        (core_congr (by simp [failBack_chan]) ((failBack_sw _ _ _).trans' (by simp [SW]))).symm, by simp⟩
  · cases kind <;> (try exact absurd rfl hk) <;> cases opt <;> simp [h] <;>
      exact ⟨_, _, ⟨rfl, rfl⟩, core_congr (by simp [deliverTo_chan]) (deliverTo_sw (by simp [SW]) _ _), by simp⟩
  · cases kind <;> (try exact absurd rfl hk) <;> cases opt <;> simp [h] <;>
      exact ⟨_, _, ⟨rfl, rfl⟩, core_congr rfl ⟨rfl, rfl⟩, by simp⟩
  · cases kind <;> (try exact absurd rfl hk) <;> cases opt <;> simp [h, State.newSig] <;>
      exact ⟨_, _, ⟨rfl, rfl⟩, by simp [core, hme, State.setCust], ⟨congrArg _ hme.symm, rfl⟩⟩


/-! ### 2. first critical section of a blocking receive -/

/-- the rest of a blocked `recv` after `wait` -/
def recvK : Bool → Act := fun ok => if ok then Fine.readOwn else .ret (.err .closed)

/-- the rest of a blocked `recv_timeout` after `wait_timeout` -/
def timedRecvK (x : Ctx) : Bool → Act := fun ok => if ok then Fine.readOwn else
  .askB .isTerminated fun t => if t then .ret (.err .closed) else
  .lock fun c =>
    if (c.cancel .recv x.me).2 then .unlock (c.cancel .recv x.me).1 (.ret (.err .timeout))
    else .unlock (c.cancel .recv x.me).1 (.askB .wait fun ok => if ok then Fine.readOwn else .ret (.err .closed))

theorem timedRecvTail_eq (x : Ctx) : Fine.timedRecvTail x = .askB .waitTimeout (timedRecvK x) := rfl

/-- the continuation a blocked receive is suspended with -/
def recvCont (timed : Bool) (x : Ctx) : Bool → Act := if timed then timedRecvK x else recvK

/-- `recv` (`e.kind = .sync`), `recv_timeout` (`e.kind = .timed`; `e.expired` is the clock's answer at the pre-check). -/
theorem recv_first_bridge (e : Env) (s : State) (hk : e.kind ≠ .async) (hl : s.liveR ≠ 0)
    (hme : e.x.me = s.sigs.length) :
    ∃ s' r, step .good s (.recv e.kind e.expired) = some (s', r) ∧
      core (run2 e (Fine.recv (e.kind == .timed) e.x) false s).1 = core s' ∧
      ((r = .blocked e.x.me ∧
          (run2 e (Fine.recv (e.kind == .timed) e.x) false s).2 = .blocked (recvCont (e.kind == .timed) e.x)) ∨
       ((∀ i, r ≠ .blocked i) ∧ (run2 e (Fine.recv (e.kind == .timed) e.x) false s).2 = .ret r)) := by
  rcases e with ⟨x, kind, opt, w, ex, nd, sz⟩
  simp only at hk hme ⊢
  simp only [step, hl, hk, recvStep, Fine.recv, Fine.recvHead, Chan.recvPre, Fine.timedRecvTail]
  by_cases h0 : s.chan.recvCount = 0
  · cases kind <;> (try exact absurd rfl hk) <;> simp [h0, recvRes] <;>
      exact ⟨_, _, ⟨rfl, rfl⟩, rfl, by simp⟩
  · rcases hq : s.chan.queue with _ | ⟨v, q⟩
    · rcases hn : s.chan.nextSend with ⟨c1, _ | p⟩
      · by_cases hs : c1.sendCount = 0
        · cases kind <;> (try exact absurd rfl hk) <;> cases ex <;> simp [h0, recvRes, hq, hn, hs] <;>
            exact ⟨_, _, ⟨rfl, rfl⟩, rfl, by simp⟩
        · cases kind <;> (try exact absurd rfl hk) <;> cases ex <;> simp [h0, recvRes, hq, hn, hs, State.newSig] <;>
            first
            | exact ⟨_, _, ⟨rfl, rfl⟩, by simp [core, hme], congrArg _ hme.symm, rfl⟩
            | exact ⟨_, _, ⟨rfl, rfl⟩, rfl, by simp⟩
      · cases kind <;> (try exact absurd rfl hk) <;> simp [h0, recvRes, hq, hn] <;>
          exact ⟨_, _, ⟨rfl, rfl⟩,
            core_congr (by simp [claimFrom_chan, State.giveR]) (claimFrom_sw (by simp [SW, State.giveR]) _),
            by simp, rfl⟩
    · rcases hn : Chan.nextSend { s.chan with queue := q } with ⟨c1, _ | p⟩
      · cases kind <;> (try exact absurd rfl hk) <;> simp [h0, recvRes, hq, hn] <;>
          exact ⟨_, _, ⟨rfl, rfl⟩, core_congr (by simp [State.giveR]) (by simp [SW, State.giveR]), by simp⟩
      · cases kind <;> (try exact absurd rfl hk) <;> simp [h0, recvRes, hq, hn] <;>
          refine ⟨_, _, ⟨rfl, rfl⟩, ?_, by simp⟩ <;>
          (apply core_congr
           · simp [takeFrom_chan, State.giveR, State.setCust]
           · exact SW.trans' (t := s.takeFrom p) ⟨rfl, rfl⟩
               (takeFrom_sw (by simp [SW, State.giveR, State.setCust]) _))



@[simp] theorem run2_FdropData (e : Env) (k : Act) (l : Bool) (s : State) :
    run2 e (Fine.dropData k) l s = run2 e k l s := by
  unfold Fine.dropData; simp only [run2_needsDrop]; split <;> simp

@[simp] theorem run2_FdropLocal (e : Env) (k : Act) (l : Bool) (s : State) :
    run2 e (Fine.dropLocal k) l s = run2 e k l s := by
  unfold Fine.dropLocal; simp only [run2_needsDrop]; split <;> simp

@[simp] theorem run2_FfailBack (e : Env) (opt : Bool) (k : Act) (l : Bool) (s : State) :
    run2 e (Fine.failBack opt k) l s = run2 e k l s := by
  unfold Fine.failBack; split <;> simp

@[simp] theorem run2_FreadOwn (e : Env) (l : Bool) (s : State) :
    run2 e Fine.readOwn l s = (s, .ret (.val (s.slotMsg e.x.me))) := by
  unfold Fine.readOwn; simp only [run2_sizeGtPtr]; split <;> simp

/-! ### 3. a blocked call sees its final state and returns -/

/-- A blocked send whose signal is final is resumed with the answer its `wait` / `wait_timeout` gives (`true` iff the
    state is `ok`; a timed waiter then asks `is_terminated`, answered from the state).  Hypotheses: enabledness of
    `.complete` (`ha hk hst`) and the role.  Same result and same `core` as `.complete`; `opt` is arbitrary (what happens
    to the value on failure is custody, i.e. ghost). -/
theorem complete_send_bridge (e : Env) (opt : Bool) (s : State) (g : Sig) (hg : s.sigs[e.x.me]? = some g)
    (ha : g.alive = true) (hk : g.kind ≠ .async) (hst : g.st ≠ .pending) (hr : g.role = .send) :
    ∃ s' r, step .good s (.complete e.x.me) = some (s', r) ∧
      (resume e (sendCont (g.kind == .timed) opt e.x) (g.st == .ok) s).2 = .ret r ∧
      core (resume e (sendCont (g.kind == .timed) opt e.x) (g.st == .ok) s).1 = core s' := by
  rcases g with ⟨role, kind, gopt, st, slot, orig, waker, fut, isStream, streamEnded, alive, claimed⟩
  simp only at ha hk hst hr ⊢
  subst ha hr
  simp only [step, hg, Variant.good]
  cases st <;> (try exact absurd rfl hst) <;> cases kind <;> (try exact absurd rfl hk) <;> cases slot <;>
    simp [resume, sendCont, sendK, timedSendK, retire, modSig, hg, run2_isTerminated _ _ _ hg] <;>
    first
    | exact ⟨_, _, ⟨rfl, rfl⟩, rfl, rfl⟩
    | exact ⟨_, _, ⟨rfl, rfl⟩, rfl, (core_failBack _ _ _).symm⟩


/-- `hslot`: a receive waiter whose signal says `ok` holds the delivered value — `SigOK.recvReady` of `Struct`, which
    holds in every reachable state.  Without it `Spec.step` answers `.panic` where the code reads the uninitialised slot. -/
theorem complete_recv_bridge (e : Env) (s : State) (g : Sig) (hg : s.sigs[e.x.me]? = some g)
    (ha : g.alive = true) (hk : g.kind ≠ .async) (hst : g.st ≠ .pending) (hr : g.role = .recv)
    (hslot : g.st = .ok → g.slot.isSome = true) :
    ∃ s' r, step .good s (.complete e.x.me) = some (s', r) ∧
      (resume e (recvCont (g.kind == .timed) e.x) (g.st == .ok) s).2 = .ret r ∧
      core (resume e (recvCont (g.kind == .timed) e.x) (g.st == .ok) s).1 = core s' := by
  rcases g with ⟨role, kind, gopt, st, slot, orig, waker, fut, isStream, streamEnded, alive, claimed⟩
  simp only at ha hk hst hr hslot ⊢
  subst ha hr
  simp only [step, hg, Variant.good]
  cases st <;> (try exact absurd rfl hst) <;> cases kind <;> (try exact absurd rfl hk) <;> cases slot <;>
    (try simp at hslot) <;>
    simp [resume, recvCont, recvK, timedRecvK, retire, modSig, hg, run2_isTerminated _ _ _ hg, State.slotMsg] <;>
    first
    | exact ⟨_, _, ⟨rfl, rfl⟩, rfl, rfl⟩
    | exact ⟨_, _, ⟨rfl, rfl⟩, rfl, core_congr rfl ⟨rfl, rfl⟩⟩


/-! ### 4. a timed waiter's deadline passes -/

theorem cancel_false {c c1 : Chan} {r i} (h : c.cancel r i = (c1, false)) : c1 = c := by
  unfold Chan.cancel at h; split at h <;> simp at h; exact h.symm

/-- the rest of a timed send whose cancel found the signal already claimed by a peer: it falls back to `wait` -/
def timedSendK2 (opt : Bool) : Bool → Act := fun ok => if ok then .ret .unit else Fine.failBack opt (.ret (.err .closed))

/-- likewise for a timed receive -/
def timedRecvK2 : Bool → Act := fun ok => if ok then Fine.readOwn else .ret (.err .closed)

/-- A timed send still pending when `wait_timeout` gives up (`false`), `is_terminated` says no (from the state), then the
    cancel section.  Hypotheses: enabledness of `.expire` (`ha hk hst`) and the role.  Either the cancel succeeds
    (`Timeout`, frame retired) or a peer has claimed the signal: `Spec.step` answers `.blocked`, the tree suspends again
    at `wait` with the continuation `timedSendK2` (resumed by `complete_send_bridge2`). -/
theorem expire_send_bridge (e : Env) (opt : Bool) (s : State) (g : Sig) (hg : s.sigs[e.x.me]? = some g)
    (ha : g.alive = true) (hk : g.kind = .timed) (hst : g.st = .pending) (hr : g.role = .send) :
    ∃ s' r, step .good s (.expire e.x.me) = some (s', r) ∧
      core (resume e (timedSendK opt e.x) false s).1 = core s' ∧
      ((r = .blocked e.x.me ∧ (resume e (timedSendK opt e.x) false s).2 = .blocked (timedSendK2 opt)) ∨
       (r = .err .timeout ∧ (resume e (timedSendK opt e.x) false s).2 = .ret r)) := by
  rcases g with ⟨role, kind, gopt, st, slot, orig, waker, fut, isStream, streamEnded, alive, claimed⟩
  simp only at ha hk hst hr ⊢
  subst ha hr hk hst
  simp only [step, hg, Variant.good]
  rcases hc : s.chan.cancel .send e.x.me with ⟨c1, b⟩
  cases b
  · cases cancel_false hc
    simp [resume, timedSendK, retire, modSig, hg, hc, run2_isTerminated _ _ _ hg]
    exact ⟨_, _, ⟨rfl, rfl⟩, rfl, rfl, rfl⟩
  · cases slot <;> cases gopt <;>
      simp [resume, timedSendK, retire, modSig, hg, hc, run2_isTerminated _ _ _ hg] <;>
      exact ⟨_, _, ⟨rfl, rfl⟩, by simp [core, State.setSig, State.setCust, State.dropMsg], rfl, rfl⟩


/-- the same for `recv_timeout` -/
theorem expire_recv_bridge (e : Env) (s : State) (g : Sig) (hg : s.sigs[e.x.me]? = some g)
    (ha : g.alive = true) (hk : g.kind = .timed) (hst : g.st = .pending) (hr : g.role = .recv) :
    ∃ s' r, step .good s (.expire e.x.me) = some (s', r) ∧
      core (resume e (timedRecvK e.x) false s).1 = core s' ∧
      ((r = .blocked e.x.me ∧ (resume e (timedRecvK e.x) false s).2 = .blocked timedRecvK2) ∨
       (r = .err .timeout ∧ (resume e (timedRecvK e.x) false s).2 = .ret r)) := by
  rcases g with ⟨role, kind, gopt, st, slot, orig, waker, fut, isStream, streamEnded, alive, claimed⟩
  simp only at ha hk hst hr ⊢
  subst ha hr hk hst
  simp only [step, hg, Variant.good]
  rcases hc : s.chan.cancel .recv e.x.me with ⟨c1, b⟩
  cases b
  · cases cancel_false hc
    simp [resume, timedRecvK, retire, modSig, hg, hc, run2_isTerminated _ _ _ hg]
    exact ⟨_, _, ⟨rfl, rfl⟩, rfl, rfl, rfl⟩
  · cases slot <;>
      simp [resume, timedRecvK, retire, modSig, hg, hc, run2_isTerminated _ _ _ hg] <;>
      exact ⟨_, _, ⟨rfl, rfl⟩, by simp [core, State.setSig], rfl, rfl⟩

/-- a timed waiter that fell back to `wait` (its cancel found the signal claimed) sees its final state -/
theorem complete_send_bridge2 (e : Env) (opt : Bool) (s : State) (g : Sig) (hg : s.sigs[e.x.me]? = some g)
    (ha : g.alive = true) (hk : g.kind ≠ .async) (hst : g.st ≠ .pending) (hr : g.role = .send) :
    ∃ s' r, step .good s (.complete e.x.me) = some (s', r) ∧
      (resume e (timedSendK2 opt) (g.st == .ok) s).2 = .ret r ∧
      core (resume e (timedSendK2 opt) (g.st == .ok) s).1 = core s' := by
  rcases g with ⟨role, kind, gopt, st, slot, orig, waker, fut, isStream, streamEnded, alive, claimed⟩
  simp only at ha hk hst hr ⊢
  subst ha hr
  simp only [step, hg, Variant.good]
  cases st <;> (try exact absurd rfl hst) <;> cases kind <;> (try exact absurd rfl hk) <;> cases slot <;>
    simp [resume, timedSendK2, retire, modSig, hg] <;>
    first
    | exact ⟨_, _, ⟨rfl, rfl⟩, rfl, rfl⟩
    | exact ⟨_, _, ⟨rfl, rfl⟩, rfl, (core_failBack _ _ _).symm⟩

theorem complete_recv_bridge2 (e : Env) (s : State) (g : Sig) (hg : s.sigs[e.x.me]? = some g)
    (ha : g.alive = true) (hk : g.kind ≠ .async) (hst : g.st ≠ .pending) (hr : g.role = .recv)
    (hslot : g.st = .ok → g.slot.isSome = true) :
    ∃ s' r, step .good s (.complete e.x.me) = some (s', r) ∧
      (resume e timedRecvK2 (g.st == .ok) s).2 = .ret r ∧
      core (resume e timedRecvK2 (g.st == .ok) s).1 = core s' := by
  rcases g with ⟨role, kind, gopt, st, slot, orig, waker, fut, isStream, streamEnded, alive, claimed⟩
  simp only at ha hk hst hr hslot ⊢
  subst ha hr
  simp only [step, hg]
  cases st <;> (try exact absurd rfl hst) <;> cases kind <;> (try exact absurd rfl hk) <;> cases slot <;>
    (try simp at hslot) <;>
    simp [resume, timedRecvK2, retire, modSig, hg, State.slotMsg] <;>
    first
    | exact ⟨_, _, ⟨rfl, rfl⟩, rfl, rfl⟩
    | exact ⟨_, _, ⟨rfl, rfl⟩, rfl, core_congr rfl ⟨rfl, rfl⟩⟩


/-! ### 5. polls -/

/-- The comparison for polls ignores one thing: the `slot` of the polled future once it is finished (`fut = .done`).
    `Spec.step` empties the slot when the future's value leaves it (that is how the model tracks the value's custody);
    the code only sets `state = Done` and reads / drops the value (`read_local_data`, `drop_local_data`, the latter only
    if `needs_drop::<T>()`), the bytes stay where they are and are never looked at again. -/
def forget (s : State) (f : SigId) : State :=
  modSig s f fun g => if g.fut = .done then { g with slot := none } else g

theorem lt_of_sig {s : State} {i : Nat} {g : Sig} (h : s.sigs[i]? = some g) : i < s.sigs.length := by
  rcases Nat.lt_or_ge i s.sigs.length with h' | h'
  · exact h'
  · rw [List.getElem?_eq_none h'] at h; cases h

/-- what `forget` does to the waiter -/
def fs (g : Sig) : Sig := if g.fut = .done then { g with slot := none } else g

theorem forget_eq (s : State) (f : SigId) : forget s f = modSig s f fs := rfl

/-- two states agree up to the slot of the finished future `f` -/
theorem core_forget_eq {s t : State} {f : SigId} {a b : Sig} (hc : s.chan = t.chan) (hw : s.wakes = t.wakes)
    (ha : s.sigs[f]? = some a) (hb : t.sigs[f]? = some b) (hab : fs a = fs b)
    (hs : ∀ x, s.sigs.set f x = t.sigs.set f x) : core (forget s f) = core (forget t f) := by
  simp only [forget_eq, modSig, ha, hb, core, State.setSig, hc, hw, hab, hs]

theorem run2_abw_set_pending (e : Env) (l : Bool) (s : State) (g : Sig) (hlt : e.x.me < s.sigs.length)
    (hp : g.st = .pending) (k : Bool → Act) :
    run2 e (.askB .asyncBlockingWait k) l (s.setSig e.x.me g) = (s.setSig e.x.me g, .spin) :=
  run2_abw_pending e l _ (List.getElem?_set_self hlt) hp k

/-- `deliverTo` respects "equal up to the slot of the finished future `f`" -/
theorem deliverTo_forget (s t : State) (f r : SigId) (m : Msg) (l : List Sig) (a : Sig) (sl : Option Msg)
    (hc : s.chan = t.chan) (hw : s.wakes = t.wakes) (hs : s.sigs = l.set f a)
    (ht : t.sigs = l.set f { a with slot := sl }) (hlt : f < l.length) (hd : a.fut = .done) :
    core (forget (s.deliverTo r m) f) = core (forget (t.deliverTo r m) f) := by
  have hfs : fs a = fs { a with slot := sl } := by simp [fs, hd]
  by_cases hrf : r = f
  · subst hrf
    have h1 : s.sigs[r]? = some a := by rw [hs]; exact List.getElem?_set_self hlt
    have h2 : t.sigs[r]? = some { a with slot := sl } := by rw [ht]; exact List.getElem?_set_self hlt
    unfold State.deliverTo; rw [h1, h2]
    refine core_forget_eq (a := { a with slot := some m, claimed := true })
      (b := { a with slot := some m, claimed := true }) hc hw ?_ ?_ rfl ?_
    · simp [State.setSig, State.setCust, hs, hlt]
    · simp [State.setSig, State.setCust, ht, hlt]
    · intro x; simp [State.setSig, State.setCust, hs, ht]
  · have h1 : s.sigs[r]? = l[r]? := by rw [hs]; exact List.getElem?_set_ne (Ne.symm hrf)
    have h2 : t.sigs[r]? = l[r]? := by rw [ht]; exact List.getElem?_set_ne (Ne.symm hrf)
    unfold State.deliverTo; rw [h1, h2]
    rcases l[r]? with _ | gr
    · refine core_forget_eq (a := a) (b := { a with slot := sl }) hc hw ?_ ?_ hfs ?_
      · simp [hs, hlt]
      · simp [ht, hlt]
      · intro x; simp [hs, ht]
    · refine core_forget_eq (a := a) (b := { a with slot := sl }) hc hw ?_ ?_ hfs ?_
      · simp only [State.setSig, State.setCust, hs]; rw [List.getElem?_set_ne hrf]; exact List.getElem?_set_self hlt
      · simp only [State.setSig, State.setCust, ht]; rw [List.getElem?_set_ne hrf]; exact List.getElem?_set_self hlt
      · intro x; simp [State.setSig, State.setCust, hs, ht, List.set_comm _ _ hrf]

/-- `SendFuture::poll`.  Hypotheses: enabledness of `.pollSend` (`ha hk hr`), `x.st` is the future's state, and `x.m` is the
    value the future holds while it has not registered (`hm`; `Spec.step` is not enabled without a value).
    No fact about reachable states is needed.  `Spec`'s `.spin` (a poll with another waker inside the hand-off window)
    is the tree's `async_blocking_wait` on a pending signal: `Out2.spin`, states not compared (the code has already set
    `state = Done` and now busy-waits for the peer's final store; the model leaves the step to the peer).
    Otherwise same result and same `core` up to `forget`. -/
theorem pollSend_bridge (e : Env) (s : State) (g : Sig) (hg : s.sigs[e.x.me]? = some g)
    (ha : g.alive = true) (hk : g.kind = .async) (hr : g.role = .send)
    (hst : e.x.st = g.fut) (hm : g.fut = .zero → g.slot = some e.x.m) :
    ∃ s' r, step .good s (.pollSend e.x.me e.w) = some (s', r) ∧
      ((r = .spin ∧ (run2 e (Fine.pollSend e.x) false s).2 = .spin) ∨
       (r ≠ .spin ∧ (run2 e (Fine.pollSend e.x) false s).2 = .ret r ∧
          core (forget (run2 e (Fine.pollSend e.x) false s).1 e.x.me) = core (forget s' e.x.me))) := by
  have hlt := lt_of_sig hg
  rcases g with ⟨role, kind, gopt, st, slot, orig, waker, fut, isStream, streamEnded, alive, claimed⟩
  simp only at ha hk hr hst hm ⊢
  subst ha hr hk
  cases fut
  · -- zero
    cases hm rfl
    simp only [step, hg, Fine.pollSend, hst, Chan.sendCS, Fine.register]
    rcases h : s.chan.sendPre e.x.m with ⟨c1, b⟩
    cases b
    · simp [h, modSig, hg]
      refine ⟨_, _, ⟨rfl, rfl⟩, by simp, rfl, ?_⟩
      refine core_forget_eq rfl rfl (List.getElem?_set_self hlt) (List.getElem?_set_self hlt) rfl ?_
      simp [State.dropMsg, State.setSig]
    · simp [h, modSig, hg]
      refine ⟨_, _, ⟨rfl, rfl⟩, by simp, rfl, ?_⟩
      refine core_forget_eq rfl rfl (List.getElem?_set_self hlt) (List.getElem?_set_self hlt) rfl ?_
      simp [State.dropMsg, State.setSig]
    · rename_i r
      simp [h, modSig, hg]
      refine ⟨_, _, ⟨rfl, rfl⟩, by simp, rfl, ?_⟩
      exact deliverTo_forget _ _ _ _ _ s.sigs
        { role := .send, kind := .async, opt := gopt, st := st, slot := some e.x.m, orig := orig, waker := waker,
          fut := .done, isStream := isStream, streamEnded := streamEnded, claimed := claimed }
        none rfl rfl rfl rfl hlt rfl
    · simp [h, modSig, hg]
      refine ⟨_, _, ⟨rfl, rfl⟩, by simp, rfl, ?_⟩
      refine core_forget_eq rfl rfl (List.getElem?_set_self hlt) (List.getElem?_set_self hlt) rfl ?_
      simp [State.setCust, State.setSig]
    · cases hz : e.sizeGtPtr <;> simp [h, modSig, hg, hz, List.getElem?_set_self hlt] <;>
        exact ⟨_, _, ⟨rfl, rfl⟩, by simp, rfl, by simp [forget_eq, modSig, State.setSig, hlt, fs, core]⟩
  · -- waiting
    simp only [step, hg, Fine.pollSend, hst, run2_askP _ _ _ hg, pollAns, Variant.good]
    cases st
    · -- pending
      by_cases hw : waker = some e.w
      · simp [hw, run2_willWake _ _ _ hg]
        exact ⟨_, _, ⟨rfl, rfl⟩, by simp, rfl, rfl⟩
      · by_cases hx : s.chan.sigExists .send e.x.me
        · simp [hw, hx, run2_willWake _ _ _ hg, modSig, hg]
          exact ⟨_, _, ⟨rfl, rfl⟩, by simp, rfl, rfl⟩
        · simp [hw, hx, run2_willWake _ _ _ hg, modSig, hg]
          rw [run2_abw_set_pending _ _ _ _ hlt rfl]
          exact ⟨_, _, ⟨rfl, rfl⟩, Or.inl ⟨rfl, rfl⟩⟩
    · cases slot <;> simp [modSig, hg] <;> exact ⟨_, _, ⟨rfl, rfl⟩, by simp, rfl, rfl⟩
    · cases slot <;> simp [modSig, hg] <;> refine ⟨_, _, ⟨rfl, rfl⟩, by simp, rfl, ?_⟩
      · rfl
      · refine core_forget_eq rfl rfl (List.getElem?_set_self hlt) (List.getElem?_set_self hlt) rfl ?_
        simp [State.dropMsg, State.setSig]
  · -- done
    simp [step, hg, Fine.pollSend, hst]
    exact ⟨_, _, ⟨rfl, rfl⟩, by simp, rfl, rfl⟩


theorem nextSend_some_mem {c c1 : Chan} {p : SigId} (h : c.nextSend = (c1, some p)) : p ∈ c.waitList := by
  unfold Chan.nextSend at h
  split at h
  · simp at h
  · split at h <;> simp at h
    rename_i hw; rw [hw]; simp [h.2]

theorem takeFrom_sigs_ne (s : State) (p i : SigId) (h : p ≠ i) : (s.takeFrom p).sigs[i]? = s.sigs[i]? := by
  unfold State.takeFrom; split
  · rfl
  · rw [finalize_sigs_ne _ _ _ _ h.symm]; simp [State.setSig, List.getElem?_set_ne h]

theorem slotMsg_setSig_ne (s : State) (p i : SigId) (G : Sig) (h : p ≠ i) : (s.setSig i G).slotMsg p = s.slotMsg p := by
  simp [State.slotMsg, State.setSig, List.getElem?_set_ne h.symm]

theorem claimFrom_setSig_comm (s : State) (p i : SigId) (G : Sig) (h : p ≠ i) :
    (s.setSig i G).claimFrom p = (s.claimFrom p).setSig i G := by
  unfold State.claimFrom
  have : (s.setSig i G).sigs[p]? = s.sigs[p]? := by simp [State.setSig, List.getElem?_set_ne h.symm]
  rw [this]
  rcases s.sigs[p]? with _ | gp
  · rfl
  · simp [State.setSig, List.set_comm _ _ h]

theorem core_forget_setSig_congr {s t : State} (hc : s.chan = t.chan) (h : SW s t) (i : SigId) (G : Sig) :
    core (forget (s.setSig i G) i) = core (forget (t.setSig i G) i) := by
  simp only [forget_eq, modSig, State.setSig, h.1]
  split <;> simp [core, hc, h.2]

/-- `pollRecv` of a plain (non-stream) receive future.
    `hnl`: a future that has not registered is not in the wait list (`Struct.listed`: a listed async waiter has
    `fut = .waiting`).  Needed because `Spec.step` writes the polled waiter back from its value *before* the critical
    section; if the section popped that very waiter the two would differ.
    `hslot`: a receive waiter whose signal says `ok` holds the value (`SigOK.recvReady`); otherwise `Spec.step` answers `.panic`. -/
theorem pollRecv_bridge (e : Env) (s : State) (g : Sig) (hg : s.sigs[e.x.me]? = some g)
    (ha : g.alive = true) (hk : g.kind = .async) (hr : g.role = .recv)
    (hst : e.x.st = g.fut) (his : e.x.isStream = false) (hns : g.isStream = false)
    (hnl : g.fut = .zero → e.x.me ∉ s.chan.waitList)
    (hslot : g.fut = .waiting → g.st = .ok → g.slot.isSome = true) :
    ∃ s' r, step .good s (.pollRecv e.x.me e.w) = some (s', r) ∧
      ((r = .spin ∧ (run2 e (Fine.pollRecv e.x) false s).2 = .spin) ∨
       (r ≠ .spin ∧ (run2 e (Fine.pollRecv e.x) false s).2 = .ret r ∧
          core (forget (run2 e (Fine.pollRecv e.x) false s).1 e.x.me) = core (forget s' e.x.me))) := by
  have hlt := lt_of_sig hg
  rcases g with ⟨role, kind, gopt, st, slot, orig, waker, fut, isStream, streamEnded, alive, claimed⟩
  simp only at ha hk hr hst hns hnl hslot ⊢
  subst ha hr hk hns
  cases fut
  · -- zero
    have hnl := hnl rfl
    simp only [step, hg, rearm, Fine.pollRecv, Fine.pollRecvRound, hst, recvStep, Chan.recvPre, Fine.recvHead,
      Fine.register, run2_lock]
    by_cases h0 : s.chan.recvCount = 0
    · simp [h0, recvRes, modSig, hg]
      exact ⟨_, _, ⟨rfl, rfl⟩, by simp, rfl, rfl⟩
    · simp only [h0, beq_iff_eq, if_false]
      rcases hq : s.chan.queue with _ | ⟨v, q⟩
      · simp only []
        rcases hn : s.chan.nextSend with ⟨c1, _ | p⟩
        · by_cases hs : c1.sendCount = 0
          · simp [recvRes, hs, modSig, hg]
            exact ⟨_, _, ⟨rfl, rfl⟩, by simp, rfl, rfl⟩
          · cases hz : e.sizeGtPtr <;> simp [recvRes, hs, modSig, hg, hz, List.getElem?_set_self hlt] <;>
              exact ⟨_, _, ⟨rfl, rfl⟩, by simp, rfl, by simp [forget_eq, modSig, State.setSig, hlt, fs, core]⟩
        · have hpf : p ≠ e.x.me := fun h => hnl (h ▸ nextSend_some_mem hn)
          simp [recvRes, modSig, hg]
          refine ⟨_, _, ⟨rfl, rfl⟩, by simp, congrArg _ (slotMsg_setSig_ne _ _ _ _ hpf), ?_⟩
          rw [claimFrom_setSig_comm _ _ _ _ hpf]
          exact core_forget_setSig_congr (by simp [claimFrom_chan, State.giveR])
            (claimFrom_sw (by simp [SW, State.giveR]) _) _ _
      · simp only []
        rcases hn : Chan.nextSend { s.chan with queue := q } with ⟨c1, _ | p⟩
        · simp [recvRes, modSig, hg]
          refine ⟨_, _, ⟨rfl, rfl⟩, by simp, rfl, ?_⟩
          exact core_forget_setSig_congr (by simp [State.giveR]) (by simp [SW, State.giveR]) _ _
        · have hpf : p ≠ e.x.me := fun h => hnl (h ▸ (show p ∈ s.chan.waitList from nextSend_some_mem (c := { s.chan with queue := q }) hn))
          simp [recvRes, modSig, hg, takeFrom_sigs_ne _ _ _ hpf]
          refine ⟨_, _, ⟨rfl, rfl⟩, by simp, rfl, ?_⟩
          refine core_forget_setSig_congr ?_ ?_ _ _
          · simp [takeFrom_chan, State.giveR, State.setCust]
          · exact SW.trans' (t := s.takeFrom p) ⟨rfl, rfl⟩
              (takeFrom_sw (by simp [SW, State.giveR, State.setCust]) _)
  · -- waiting
    have hslot := hslot rfl
    simp only [step, hg, rearm, Fine.pollRecv, Fine.pollRecvRound, hst, run2_askP _ _ _ hg, pollAns, Variant.good]
    cases st
    · -- pending
      by_cases hw : waker = some e.w
      · simp [hw, run2_willWake _ _ _ hg]
        exact ⟨_, _, ⟨rfl, rfl⟩, by simp, rfl, rfl⟩
      · by_cases hx : s.chan.sigExists .recv e.x.me
        · simp [hw, hx, run2_willWake _ _ _ hg, modSig, hg]
          exact ⟨_, _, ⟨rfl, rfl⟩, by simp, rfl, rfl⟩
        · simp [hw, hx, run2_willWake _ _ _ hg, modSig, hg]
          rw [run2_abw_set_pending _ _ _ _ hlt rfl]
          exact ⟨_, _, ⟨rfl, rfl⟩, Or.inl ⟨rfl, rfl⟩⟩
    · -- ok
      cases slot
      · simp at hslot
      · simp [modSig, hg, State.slotMsg]
        refine ⟨_, _, ⟨rfl, rfl⟩, by simp, ?_, ?_⟩
        · simp [State.setSig, List.getElem?_set_self hlt]
        · refine core_forget_eq rfl rfl (List.getElem?_set_self hlt) (List.getElem?_set_self hlt) rfl ?_
          simp [State.giveR, State.setSig]
    · -- term
      simp [modSig, hg]
      exact ⟨_, _, ⟨rfl, rfl⟩, by simp, rfl, rfl⟩
  · -- done
    simp [step, hg, rearm, Fine.pollRecv, Fine.pollRecvRound, hst, his]
    exact ⟨_, _, ⟨rfl, rfl⟩, by simp, rfl, rfl⟩


/-! ### 6. a future is dropped -/

/-- `Drop for SendFuture`.  Hypotheses: enabledness of `.dropSendFut` and `x.st` is the future's state.  Same `core`
    (exactly) and same result; `.spin` ↔ `Out2.spin` (drop inside the hand-off window), there with the state unchanged
    on both sides. -/
theorem dropSendFut_bridge (e : Env) (s : State) (g : Sig) (hg : s.sigs[e.x.me]? = some g)
    (ha : g.alive = true) (hk : g.kind = .async) (hr : g.role = .send) (hst : e.x.st = g.fut) :
    ∃ s' r, step .good s (.dropSendFut e.x.me) = some (s', r) ∧
      core (runDrop e (Fine.dropSendFut e.x) s).1 = core s' ∧
      ((r = .spin ∧ (runDrop e (Fine.dropSendFut e.x) s).2 = .spin) ∨
       (r ≠ .spin ∧ (runDrop e (Fine.dropSendFut e.x) s).2 = .ret r)) := by
  have hlt := lt_of_sig hg
  rcases g with ⟨role, kind, gopt, st, slot, orig, waker, fut, isStream, streamEnded, alive, claimed⟩
  simp only at ha hk hr hst ⊢
  subst ha hr hk
  cases fut
  · cases slot <;> simp [step, hg, Fine.dropSendFut, hst, runDrop, retireFut, modSig]
    all_goals
      first
      | exact ⟨_, _, ⟨rfl, rfl⟩, rfl, by simp, rfl⟩
      | exact ⟨_, _, ⟨rfl, rfl⟩, by simp [core, State.setSig, State.dropMsg], by simp, rfl⟩
  · simp only [step, hg, Fine.dropSendFut, hst, runDrop, run2_lock]
    rcases hc : s.chan.cancel .send e.x.me with ⟨c1, b⟩
    cases b
    · cases cancel_false hc
      cases st <;> cases slot <;>
        simp [hc, run2_abw_pending _ _ _ hg, run2_abw_final _ _ _ hg, retireFut, modSig, hg]
      all_goals
        first
        | exact ⟨_, _, ⟨rfl, rfl⟩, rfl, by simp, rfl⟩
        | exact ⟨_, _, ⟨rfl, rfl⟩, by simp [core, State.setSig, State.dropMsg], by simp, rfl⟩
    · cases slot <;> simp [hc, retireFut, modSig, hg]
      all_goals
        first
        | exact ⟨_, _, ⟨rfl, rfl⟩, rfl, by simp, rfl⟩
        | exact ⟨_, _, ⟨rfl, rfl⟩, by simp [core, State.setSig, State.dropMsg], by simp, rfl⟩
  · simp [step, hg, Fine.dropSendFut, hst, runDrop, retireFut, modSig]
    exact ⟨_, _, ⟨rfl, rfl⟩, rfl, by simp, rfl⟩


/-- `Drop for ReceiveFuture` -/
theorem dropRecvFut_bridge (e : Env) (s : State) (g : Sig) (hg : s.sigs[e.x.me]? = some g)
    (ha : g.alive = true) (hk : g.kind = .async) (hr : g.role = .recv) (hst : e.x.st = g.fut) :
    ∃ s' r, step .good s (.dropRecvFut e.x.me) = some (s', r) ∧
      core (runDrop e (Fine.dropRecvFut e.x) s).1 = core s' ∧
      ((r = .spin ∧ (runDrop e (Fine.dropRecvFut e.x) s).2 = .spin) ∨
       (r ≠ .spin ∧ (runDrop e (Fine.dropRecvFut e.x) s).2 = .ret r)) := by
  have hlt := lt_of_sig hg
  rcases g with ⟨role, kind, gopt, st, slot, orig, waker, fut, isStream, streamEnded, alive, claimed⟩
  simp only at ha hk hr hst ⊢
  subst ha hr hk
  cases fut
  · simp [step, hg, Fine.dropRecvFut, hst, runDrop, retireFut, modSig]
    exact ⟨_, _, ⟨rfl, rfl⟩, rfl, by simp, rfl⟩
  · simp only [step, hg, Fine.dropRecvFut, hst, runDrop, run2_lock]
    rcases hc : s.chan.cancel .recv e.x.me with ⟨c1, b⟩
    cases b
    · cases cancel_false hc
      cases st <;> cases slot <;>
        simp [hc, run2_abw_pending _ _ _ hg, run2_abw_final _ _ _ hg, retireFut, modSig, hg]
      all_goals
        first
        | exact ⟨_, _, ⟨rfl, rfl⟩, rfl, by simp, rfl⟩
        | exact ⟨_, _, ⟨rfl, rfl⟩, by simp [core, State.setSig, State.dropMsg], by simp, rfl⟩
    · simp [hc, retireFut, modSig, hg]
      exact ⟨_, _, ⟨rfl, rfl⟩, by simp [core, State.setSig], by simp, rfl⟩
  · simp [step, hg, Fine.dropRecvFut, hst, runDrop, retireFut, modSig]
    exact ⟨_, _, ⟨rfl, rfl⟩, rfl, by simp, rfl⟩

/-! ### 5b. streams -/

/-- what `ReceiveStream::poll_next` does with the result of the future's poll (the continuation in `Fine.pollNext`) -/
def nextK : Res → Act := fun r =>
  match r with
  | .pending => .ret .pending
  | .val d => .ret (.val d)
  | .err _ => .eff .setTerminated (.ret .streamEnd)
  | o => .ret o

/-- the wrapper of `poll_next` around the outcome of the future's poll: an error terminates the stream
    (`self.terminated = true`) and is reported as `Ready(None)`; everything else is passed on (a suspended tree keeps the
    wrapper in its continuation — `ReceiveFuture::poll` never suspends, this case only makes `pollNext_unfold` unconditional) -/
def wrapNext (me : SigId) : State × Out2 → State × Out2
  | (s', .ret (.err _)) => (modSig s' me fun g => { g with streamEnded := true }, .ret .streamEnd)
  | (s', .blocked k) => (s', .blocked fun b => (k b).bind nextK)
  | r => r

/-- `ReceiveStream::poll_next` read directly: a terminated stream answers `Ready(None)`; otherwise it polls its future and
    wraps the outcome.  `pollNext_eq` below shows that this is `run2` of the tree `Fine.pollNext`. -/
def pollNext (e : Env) (s : State) : State × Out2 :=
  if e.x.terminated then (s, .ret .streamEnd)
  else wrapNext e.x.me (run2 e (Fine.pollRecv e.x) false s)

/-- what `Spec.step (.pollRecv f w)` does for a stream whose future is (after re-arming) in state `Zero`; `G` is the
    waiter record it writes back -/
def specZeroStream (s : State) (G : Sig) (f : SigId) (w : WakerId) : State × Res :=
  match recvStep s false false with
  | (s1, .empty) =>
    (({ s1 with chan := s1.chan.pushWaiter f }).setSig f { G with fut := .waiting, waker := some w }, .pending)
  | (s1, b) =>
    match recvRes b .none s with
    | .err _ => (s1.setSig f { G with fut := .done, streamEnded := true }, .streamEnd)
    | r => (s1.setSig f { G with fut := .done }, r)

theorem step_pollRecv_stream_zero (s : State) (f : SigId) (w : WakerId) (g : Sig) (hg : s.sigs[f]? = some g)
    (ha : g.alive = true) (hk : g.kind = .async) (hr : g.role = .recv) (hs : g.isStream = true)
    (he : g.streamEnded = false) (hf : g.fut = .zero) :
    step .good s (.pollRecv f w) = some (specZeroStream s g f w) := by
  rcases g with ⟨role, kind, gopt, st, slot, orig, waker, fut, isStream, streamEnded, alive, claimed⟩
  simp only at ha hk hr hs he hf
  subst ha hk hr hs he hf
  simp only [step, hg, rearm, specZeroStream]
  rcases recvStep s false false with ⟨s1, b⟩
  cases b <;> simp [recvRes]

theorem step_pollRecv_stream_done (s : State) (f : SigId) (w : WakerId) (g : Sig) (hg : s.sigs[f]? = some g)
    (ha : g.alive = true) (hk : g.kind = .async) (hr : g.role = .recv) (hs : g.isStream = true)
    (he : g.streamEnded = false) (hf : g.fut = .done) :
    step .good s (.pollRecv f w) =
      some (specZeroStream s { g with fut := .zero, st := .pending, slot := none, waker := none } f w) := by
  rcases g with ⟨role, kind, gopt, st, slot, orig, waker, fut, isStream, streamEnded, alive, claimed⟩
  simp only at ha hk hr hs he hf
  subst ha hk hr hs he hf
  simp only [step, hg, rearm, specZeroStream, Variant.good]
  rcases recvStep s false false with ⟨s1, b⟩
  cases b <;> simp [recvRes]


theorem setSig_setSig (s : State) (i : SigId) (a b : Sig) : (s.setSig i a).setSig i b = s.setSig i b := by
  simp [State.setSig]

theorem setSig_self {s : State} {i : SigId} {g : Sig} (h : s.sigs[i]? = some g) : s.setSig i g = s := by
  have hlt := lt_of_sig h
  have : s.sigs.set i g = s.sigs := by
    apply List.ext_getElem?; intro j
    by_cases hj : i = j
    · subst hj; rw [List.getElem?_set_self hlt, h]
    · rw [List.getElem?_set_ne hj]
  simp [State.setSig, this]

theorem finalize_setSig_comm (s : State) (p i : SigId) (o : SigSt) (G : Sig) (h : p ≠ i) :
    (s.setSig i G).finalize p o = (s.finalize p o).setSig i G := by
  unfold State.finalize
  have : (s.setSig i G).sigs[p]? = s.sigs[p]? := by simp [State.setSig, List.getElem?_set_ne h.symm]
  rw [this]
  rcases s.sigs[p]? with _ | gp
  · rfl
  · simp only []
    split <;> simp [State.setSig, List.set_comm _ _ h]

theorem takeFrom_setSig_comm (s : State) (p i : SigId) (G : Sig) (h : p ≠ i) :
    (s.setSig i G).takeFrom p = (s.takeFrom p).setSig i G := by
  unfold State.takeFrom
  have : (s.setSig i G).sigs[p]? = s.sigs[p]? := by simp [State.setSig, List.getElem?_set_ne h.symm]
  rw [this]
  rcases s.sigs[p]? with _ | gp
  · rfl
  · simp only []
    rw [← finalize_setSig_comm _ _ _ _ _ h]
    congr 1
    simp [State.setSig, List.set_comm _ _ h]

theorem core_setSig_congr {s t : State} (hc : s.chan = t.chan) (h : SW s t) (i : SigId) (G : Sig) :
    core (s.setSig i G) = core (t.setSig i G) := by
  simp [core, State.setSig, hc, h.1, h.2]

theorem setSig_chan2 (s : State) (i : SigId) (g : Sig) : (s.setSig i g).chan = s.chan := rfl

theorem finalize_length (s : State) (p : SigId) (o : SigSt) : (s.finalize p o).sigs.length = s.sigs.length := by
  unfold State.finalize; split
  · rfl
  · split <;> simp [State.setSig]

theorem takeFrom_length (s : State) (p : SigId) : (s.takeFrom p).sigs.length = s.sigs.length := by
  unfold State.takeFrom; split
  · rfl
  · rw [finalize_length]; simp [State.setSig]

theorem pollNext_unfold (e : Env) (s : State) :
    pollNext e s = if e.x.terminated then (s, .ret .streamEnd) else wrapNext e.x.me (run2 e (Fine.pollRecv e.x) false s) := rfl

/-- the round of `ReceiveFuture::poll` from state `Zero`, on a state whose polled waiter is `G`, against `specZeroStream` -/
theorem zeroRound_stream (e : Env) (s : State) (G : Sig) (again : Act)
    (hlt : e.x.me < s.sigs.length) (hnl : e.x.me ∉ s.chan.waitList) :
    (wrapNext e.x.me (run2 e (Fine.pollRecvRound e.x .zero again) false (s.setSig e.x.me G))).2 =
        .ret (specZeroStream s G e.x.me e.w).2 ∧
    core (wrapNext e.x.me (run2 e (Fine.pollRecvRound e.x .zero again) false (s.setSig e.x.me G))).1 =
        core (specZeroStream s G e.x.me e.w).1 := by
  have hS : (s.setSig e.x.me G).sigs[e.x.me]? = some G := List.getElem?_set_self hlt
  simp only [specZeroStream, Fine.pollRecvRound, recvStep, Chan.recvPre, Fine.recvHead, Fine.register, run2_lock,
    setSig_chan2]
  by_cases h0 : s.chan.recvCount = 0
  · simp [h0, recvRes, modSig, hS, wrapNext]
    simp [core, State.setSig, hlt]
  · simp only [h0, beq_iff_eq, if_false]
    rcases hq : s.chan.queue with _ | ⟨v, q⟩
    · simp only []
      rcases hn : s.chan.nextSend with ⟨c1, _ | p⟩
      · by_cases hs : c1.sendCount = 0
        · simp [recvRes, hs, modSig, hS, wrapNext]
          simp [core, State.setSig, hlt]
        · cases hz : e.sizeGtPtr <;> simp [recvRes, hs, modSig, hS, hz, wrapNext] <;>
            simp [core, State.setSig, hlt]
      · have hpf : p ≠ e.x.me := fun h => hnl (h ▸ nextSend_some_mem hn)
        simp [recvRes, modSig, hS, wrapNext]
        refine ⟨by simp [State.slotMsg, State.setSig, List.getElem?_set_ne hpf.symm], ?_⟩
        have e1 : ({ s.setSig e.x.me G with chan := c1 } : State) =
            ({ s with chan := c1 } : State).setSig e.x.me G := rfl
        rw [e1, setSig_setSig, claimFrom_setSig_comm _ _ _ _ hpf]
        exact core_setSig_congr (by simp [claimFrom_chan, State.giveR])
          (claimFrom_sw (by simp [SW, State.giveR]) _) _ _
    · simp only []
      rcases hn : Chan.nextSend { s.chan with queue := q } with ⟨c1, _ | p⟩
      · simp [recvRes, modSig, hS, wrapNext]
        simp [core, State.setSig, hlt, State.giveR]
      · have hpf : p ≠ e.x.me :=
          fun h => hnl (h ▸ (show p ∈ s.chan.waitList from nextSend_some_mem (c := { s.chan with queue := q }) hn))
        have hT : ((s.takeFrom p).setSig e.x.me G).sigs[e.x.me]? = some G :=
          List.getElem?_set_self (by rw [takeFrom_length]; exact hlt)
        simp [recvRes, modSig, hS, wrapNext, takeFrom_setSig_comm _ _ _ _ hpf, hT, slotMsg_setSig_ne _ _ _ _ hpf]
        have e1 : ∀ c : Chan, ({ (s.takeFrom p).setSig e.x.me G with chan := c } : State) =
            ({ s.takeFrom p with chan := c } : State).setSig e.x.me G := fun _ => rfl
        rw [e1, setSig_setSig]
        refine core_setSig_congr ?_ ?_ _ _
        · simp [takeFrom_chan, State.giveR, State.setCust]
        · exact SW.trans' (t := s.takeFrom p) ⟨rfl, rfl⟩
            (takeFrom_sw (by simp [SW, State.giveR, State.setCust]) _)


theorem modSig_of {s : State} {i : SigId} {g : Sig} (h : s.sigs[i]? = some g) (f : Sig → Sig) :
    modSig s i f = s.setSig i (f g) := by
  simp [modSig, h]

theorem modSig_setSig (s : State) (i : SigId) (a : Sig) (f : Sig → Sig) (hlt : i < s.sigs.length) :
    modSig (s.setSig i a) i f = s.setSig i (f a) := by
  rw [modSig_of (g := a) (List.getElem?_set_self hlt), setSig_setSig]

theorem specZeroStream_ne_spin (s : State) (G : Sig) (f : SigId) (w : WakerId) :
    (specZeroStream s G f w).2 ≠ .spin := by
  unfold specZeroStream
  rcases h : recvStep s false false with ⟨s1, b⟩
  cases b <;> simp [recvRes]

theorem core_forget_of_core {s t : State} (h : core s = core t) (f : SigId) : core (forget s f) = core (forget t f) := by
  obtain ⟨hc, hs, hw⟩ := (core_eq_iff s t).1 h
  simp only [forget_eq, modSig, hs]
  split <;> simp [core, State.setSig, hc, hs, hw]

/-- `ReceiveStream::poll_next` (the hand-written `pollNext` around `Fine.pollRecv`) for a stream.
    `hte`: `x.terminated` is the stream's flag.  `hnl`: a future that is not registered (state `Zero` or `Done`) is not
    in the wait list (`Struct.listed`, as in `pollRecv_bridge`).  `hslot` as in `pollRecv_bridge`. -/
theorem pollNext_bridge (e : Env) (s : State) (g : Sig) (hg : s.sigs[e.x.me]? = some g)
    (ha : g.alive = true) (hk : g.kind = .async) (hr : g.role = .recv)
    (hst : e.x.st = g.fut) (his : e.x.isStream = true) (hgs : g.isStream = true) (hte : e.x.terminated = g.streamEnded)
    (hnl : g.fut ≠ .waiting → e.x.me ∉ s.chan.waitList)
    (hslot : g.fut = .waiting → g.st = .ok → g.slot.isSome = true) :
    ∃ s' r, step .good s (.pollRecv e.x.me e.w) = some (s', r) ∧
      ((r = .spin ∧ (pollNext e s).2 = .spin) ∨
       (r ≠ .spin ∧ (pollNext e s).2 = .ret r ∧
          core (forget (pollNext e s).1 e.x.me) = core (forget s' e.x.me))) := by
  have hlt := lt_of_sig hg
  by_cases hse1 : g.streamEnded = true
  · refine ⟨s, .streamEnd, ?_, Or.inr ⟨by simp, ?_, ?_⟩⟩
    · simp [step, hg, ha, hk, hr, hgs, hse1]
    · simp [pollNext_unfold, hte, hse1]
    · simp [pollNext_unfold, hte, hse1]
  · have hse : g.streamEnded = false := by simpa using hse1
    clear hse1
    have hterm : e.x.terminated = false := hte.trans hse
    rcases hf : g.fut with _ | _ | _
    · -- zero
      have hnl := hnl (by simp [hf])
      refine ⟨(specZeroStream s g e.x.me e.w).1, (specZeroStream s g e.x.me e.w).2,
        step_pollRecv_stream_zero s _ _ g hg ha hk hr hgs hse hf, Or.inr ⟨specZeroStream_ne_spin _ _ _ _, ?_⟩⟩
      have hz := zeroRound_stream e s g (Fine.pollRecvRound e.x .zero .diverge) hlt hnl
      rw [setSig_self hg] at hz
      simp only [pollNext_unfold, hterm, Fine.pollRecv, hst, hf, Bool.false_eq_true, if_false]
      exact ⟨hz.1, core_forget_of_core hz.2 _⟩
    · -- waiting
      have hslot := hslot hf
      rcases g with ⟨role, kind, gopt, st, slot, orig, waker, fut, isStream, streamEnded, alive, claimed⟩
      simp only at ha hk hr hst hgs hse hf hslot
      subst ha hr hk hgs hse hf
      simp only [step, hg, rearm, pollNext_unfold, hterm, Fine.pollRecv, Fine.pollRecvRound, hst, run2_askP _ _ _ hg, pollAns,
        Variant.good, Bool.false_eq_true, if_false]
      cases st
      · -- pending
        by_cases hw : waker = some e.w
        · simp [hw, run2_willWake _ _ _ hg, wrapNext]
          exact ⟨_, _, ⟨rfl, rfl⟩, by simp, rfl, rfl⟩
        · by_cases hx : s.chan.sigExists .recv e.x.me
          · simp [hw, hx, run2_willWake _ _ _ hg, modSig, hg, wrapNext]
            exact ⟨_, _, ⟨rfl, rfl⟩, by simp, rfl, rfl⟩
          · simp [hw, hx, run2_willWake _ _ _ hg, modSig, hg]
            rw [run2_abw_set_pending _ _ _ _ hlt rfl]
            exact ⟨_, _, ⟨rfl, rfl⟩, Or.inl ⟨rfl, rfl⟩⟩
      · -- ok
        cases slot
        · simp at hslot
        · simp [modSig, hg, State.slotMsg, wrapNext]
          refine ⟨_, _, ⟨rfl, rfl⟩, by simp, ?_, ?_⟩
          · simp [State.setSig, List.getElem?_set_self hlt]
          · refine core_forget_eq rfl rfl (List.getElem?_set_self hlt) (List.getElem?_set_self hlt) rfl ?_
            simp [State.giveR, State.setSig]
      · -- term
        simp [modSig, hg, wrapNext]
        refine ⟨_, _, ⟨rfl, rfl⟩, by simp, rfl, ?_⟩
        have : (s.setSig e.x.me
            { role := Role.recv, kind := Kind.async, opt := gopt, st := SigSt.term, slot := slot, orig := orig,
              waker := waker, fut := FutSt.done, isStream := true, claimed := claimed }).sigs[e.x.me]? = some _ :=
          List.getElem?_set_self hlt
        simp only [this, setSig_setSig]
    · -- done
      have hnl := hnl (by simp [hf])
      refine ⟨(specZeroStream s { g with fut := .zero, st := .pending, slot := none, waker := none } e.x.me e.w).1,
        (specZeroStream s { g with fut := .zero, st := .pending, slot := none, waker := none } e.x.me e.w).2,
        step_pollRecv_stream_done s _ _ g hg ha hk hr hgs hse hf, Or.inr ⟨specZeroStream_ne_spin _ _ _ _, ?_⟩⟩
      have hz := zeroRound_stream e s { g with fut := .zero, st := .pending, slot := none, waker := none } .diverge hlt hnl
      simp only [pollNext_unfold, hterm, Fine.pollRecv, hst, hf, Bool.false_eq_true, if_false]
      have : run2 e (Fine.pollRecvRound e.x .done (Fine.pollRecvRound e.x .zero .diverge)) false s =
          run2 e (Fine.pollRecvRound e.x .zero .diverge) false
            (s.setSig e.x.me { g with fut := .zero, st := .pending, slot := none, waker := none }) := by
        rw [show Fine.pollRecvRound e.x .done (Fine.pollRecvRound e.x .zero .diverge) =
          .eff .rearmSig (.eff (.setState .zero) (Fine.pollRecvRound e.x .zero .diverge)) by
            simp [Fine.pollRecvRound, his]]
        rw [run2_rearmSig, run2_setState, modSig_of hg, modSig_setSig _ _ _ _ hlt]
      rw [this]
      exact ⟨hz.1, core_forget_of_core hz.2 _⟩


/-! ### 5c. `poll_next` as a tree -/

/-- `run2` of a sequential composition, for a second part whose run does not depend on whether the lock is held
    (it asks no popped waiter for its value): run the first part; if it returns, run the second on the state it left;
    if it suspends, the second part stays in the continuation. -/
theorem run2_bind (e : Env) (f : Res → Act) (hf : ∀ r l l' s, run2 e (f r) l s = run2 e (f r) l' s)
    (a : Act) (l : Bool) (s : State) :
    run2 e (a.bind f) l s =
      match run2 e a l s with
      | (s', .ret r) => run2 e (f r) false s'
      | (s', .blocked k) => (s', .blocked fun b => (k b).bind f)
      | r => r := by
  induction a generalizing l s with
  | ret r => simp [Act.bind]; exact hf _ _ _ _
  | diverge => simp [Act.bind]
  | lock k ih => simp only [Act.bind, run2_lock]; exact ih _ _ _
  | tryLock k ih => simp only [Act.bind, run2_tryLock]; exact ih _ _ _
  | unlock c k ih => simp only [Act.bind, run2_unlock]; exact ih _ _
  | eff ef k ih =>
    simp only [Act.bind, run2]
    split
    · exact ih _ _
    · rfl
  | askB q k ih =>
    simp only [Act.bind, run2]
    split
    · exact ih _ _ _
    · rfl
    · rfl
    · rfl
  | askM q k ih =>
    cases q <;> simp only [Act.bind, run2_sigRecv, run2_readLocal, run2_readRet, run2_readSigPtr] <;> exact ih _ _ _
  | askP k ih =>
    simp only [Act.bind, run2]
    split
    · exact ih _ _ _
    · rfl


theorem pollNext_tree (x : Ctx) :
    Fine.pollNext x = if x.terminated then .ret .streamEnd else (Fine.pollRecv x).bind nextK := rfl

theorem nextK_flag (e : Env) (r : Res) (l l' : Bool) (s : State) : run2 e (nextK r) l s = run2 e (nextK r) l' s := by
  cases r <;> simp [nextK]

/-- The tree `Fine.pollNext` (the translation of `ReceiveStream::poll_next`), run by `run2`, is exactly `pollNext`:
    `Eff.setTerminated` acts as `streamEnded := true` on waiter `x.me`. -/
theorem pollNext_eq (e : Env) (s : State) : run2 e (Fine.pollNext e.x) false s = pollNext e s := by
  rw [pollNext_tree, pollNext_unfold]
  split
  · simp
  · rw [run2_bind e nextK (nextK_flag e)]
    rcases run2 e (Fine.pollRecv e.x) false s with ⟨s', o⟩
    cases o with
    | ret r => cases r <;> simp [wrapNext, nextK]
    | blocked k => simp [wrapNext]
    | spin => simp [wrapNext]
    | stuck => simp [wrapNext]
    | diverge => simp [wrapNext]

/-- `pollNext_bridge` for the tree: `ReceiveStream::poll_next` as translated from the source. -/
theorem pollNext_tree_bridge (e : Env) (s : State) (g : Sig) (hg : s.sigs[e.x.me]? = some g)
    (ha : g.alive = true) (hk : g.kind = .async) (hr : g.role = .recv)
    (hst : e.x.st = g.fut) (his : e.x.isStream = true) (hgs : g.isStream = true) (hte : e.x.terminated = g.streamEnded)
    (hnl : g.fut ≠ .waiting → e.x.me ∉ s.chan.waitList)
    (hslot : g.fut = .waiting → g.st = .ok → g.slot.isSome = true) :
    ∃ s' r, step .good s (.pollRecv e.x.me e.w) = some (s', r) ∧
      ((r = .spin ∧ (run2 e (Fine.pollNext e.x) false s).2 = .spin) ∨
       (r ≠ .spin ∧ (run2 e (Fine.pollNext e.x) false s).2 = .ret r ∧
          core (forget (run2 e (Fine.pollNext e.x) false s).1 e.x.me) = core (forget s' e.x.me))) := by
  rw [pollNext_eq]
  exact pollNext_bridge e s g hg ha hk hr hst his hgs hte hnl hslot


/-! ### 4b. a timed waiter whose deadline passes although its signal is already final -/

theorem cancel_not_mem {c : Chan} {r : Role} {i : SigId} (h : i ∉ c.waitList) : c.cancel r i = (c, false) := by
  unfold Chan.cancel; simp [h]

/-- `wait_timeout` of a timed send gives up (`false`) although the signal is already final (the deadline passed first).
    `is_terminated` is answered from the state.  Terminated: the call returns what `.complete` returns, same `core`.
    Otherwise (`ok`) the cancel section finds the waiter not listed — `hnl`, a fact about reachable states: a listed waiter
    is pending (`Struct.listed`, `Listed.pending`) — so the state is unchanged and the tree suspends at `wait` with
    `timedSendK2 opt`, where `complete_send_bridge2` applies. -/
theorem timed_final_send_bridge (e : Env) (opt : Bool) (s : State) (g : Sig) (hg : s.sigs[e.x.me]? = some g)
    (ha : g.alive = true) (hk : g.kind = .timed) (hst : g.st ≠ .pending) (hr : g.role = .send)
    (hnl : g.st = .ok → e.x.me ∉ s.chan.waitList) :
    (g.st = .ok ∧ (resume e (timedSendK opt e.x) false s).2 = .blocked (timedSendK2 opt) ∧
        core (resume e (timedSendK opt e.x) false s).1 = core s) ∨
    (g.st = .term ∧ ∃ s' r, step .good s (.complete e.x.me) = some (s', r) ∧
        (resume e (timedSendK opt e.x) false s).2 = .ret r ∧
        core (resume e (timedSendK opt e.x) false s).1 = core s') := by
  rcases g with ⟨role, kind, gopt, st, slot, orig, waker, fut, isStream, streamEnded, alive, claimed⟩
  simp only at ha hk hst hr hnl ⊢
  subst ha hr hk
  cases st
  · exact absurd rfl hst
  · left
    have hc := cancel_not_mem (r := .send) (hnl rfl)
    simp [resume, timedSendK, run2_isTerminated _ _ _ hg, hc]
    rfl
  · right
    simp only [step, hg, Variant.good]
    cases slot <;> simp [resume, timedSendK, retire, modSig, hg, run2_isTerminated _ _ _ hg] <;>
      first
      | exact ⟨_, _, ⟨rfl, rfl⟩, rfl, rfl⟩
      | exact ⟨_, _, ⟨rfl, rfl⟩, rfl, (core_failBack _ _ _).symm⟩

/-- the same for `recv_timeout` -/
theorem timed_final_recv_bridge (e : Env) (s : State) (g : Sig) (hg : s.sigs[e.x.me]? = some g)
    (ha : g.alive = true) (hk : g.kind = .timed) (hst : g.st ≠ .pending) (hr : g.role = .recv)
    (hnl : g.st = .ok → e.x.me ∉ s.chan.waitList) :
    (g.st = .ok ∧ (resume e (timedRecvK e.x) false s).2 = .blocked timedRecvK2 ∧
        core (resume e (timedRecvK e.x) false s).1 = core s) ∨
    (g.st = .term ∧ ∃ s' r, step .good s (.complete e.x.me) = some (s', r) ∧
        (resume e (timedRecvK e.x) false s).2 = .ret r ∧
        core (resume e (timedRecvK e.x) false s).1 = core s') := by
  rcases g with ⟨role, kind, gopt, st, slot, orig, waker, fut, isStream, streamEnded, alive, claimed⟩
  simp only at ha hk hst hr hnl ⊢
  subst ha hr hk
  cases st
  · exact absurd rfl hst
  · left
    have hc := cancel_not_mem (r := .recv) (hnl rfl)
    simp [resume, timedRecvK, run2_isTerminated _ _ _ hg, hc]
    rfl
  · right
    simp only [step, hg]
    cases slot <;> simp [resume, timedRecvK, retire, modSig, hg, run2_isTerminated _ _ _ hg] <;>
      exact ⟨_, _, ⟨rfl, rfl⟩, rfl, rfl⟩

/-! ### 7. non-vacuity: the hypotheses hold on concrete reachable states, and the trees compute what one expects -/

/-- the result, if the tree returned -/
def Out2.res? : Out2 → Option Res
  | .ret r => some r
  | _ => none

def Out2.isBlocked : Out2 → Bool
  | .blocked _ => true
  | _ => false

def Out2.isSpin : Out2 → Bool
  | .spin => true
  | _ => false

namespace Ex2

/-- follow a list of labels from a state (stays put on a label that is not enabled) -/
def after (s : State) (ls : List Label) : State :=
  ls.foldl (fun s l => ((step .good s l).getD (s, .unit)).1) s

/-- a rendezvous channel -/
def c0 : State := State.init (some 0)
/-- … on which `send(5)` blocks as waiter 0 -/
def c1 : State := after c0 [.send 5 .sync false]
/-- … whose value a `try_recv` takes; the receiver then stores `ok` -/
def c2 : State := after c1 [.tryRecv false, .finalize 0]
/-- a rendezvous channel with a `send_timeout(5)` blocked as waiter 0 -/
def c3 : State := after c0 [.send 5 .timed false]
/-- a rendezvous channel with a blocked `recv()` (waiter 0) that a `try_send(9)` has served and finalized -/
def c4 : State := after c0 [.recv .sync false, .trySend 9 false false, .finalize 0]
/-- a rendezvous channel with a fresh send future (waiter 0) for the value 7 -/
def c5 : State := after c0 [.newSendFut 7]
/-- … polled once with waker 3: registered -/
def c6 : State := after c5 [.pollSend 0 3]
/-- a rendezvous channel with a blocked `send(5)` (waiter 0) and a fresh receive future (waiter 1) -/
def c7 : State := after c1 [.newRecvFut false]

-- 1. first section of a blocking send / receive
example := send_first_bridge { x := { m := 5, me := 0 } } c0 (by decide) (by decide) (by decide) (by decide)
example : (run2 { x := { m := 5, me := 0 } } (Fine.send false false { m := 5, me := 0 }) false c0).2.isBlocked = true := by decide
example : (run2 { x := { m := 5, me := 0 } } (Fine.send false false { m := 5, me := 0 }) false c0).1.chan.waitList = [0] := by decide
example : core (run2 { x := { m := 5, me := 0 } } (Fine.send false false { m := 5, me := 0 }) false c0).1 = core c1 := by decide
example := recv_first_bridge { x := { me := 1 } } c1 (by decide) (by decide) (by decide)
example : (run2 { x := { me := 1 } } (Fine.recv false { me := 1 }) false c1).2.res? = some (.val 5) := by decide

-- 3. completion
example := complete_send_bridge { x := { me := 0 } } false c2 _ rfl (by decide) (by decide) (by decide) (by decide)
example : (resume { x := { me := 0 } } (sendCont false false { me := 0 }) true c2).2.res? = some .unit := by decide
example : core (resume { x := { me := 0 } } (sendCont false false { me := 0 }) true c2).1 = core (after c2 [.complete 0]) := by decide
example := complete_recv_bridge { x := { me := 0 } } c4 _ rfl (by decide) (by decide) (by decide) (by decide) (by decide)
example : (resume { x := { me := 0 } } (recvCont false { me := 0 }) true c4).2.res? = some (.val 9) := by decide

-- 4. expiry
example := expire_send_bridge { x := { me := 0 }, kind := .timed } false c3 _ rfl (by decide) (by decide) (by decide) (by decide)
example : (resume { x := { me := 0 }, kind := .timed } (timedSendK false { me := 0 }) false c3).2.res? = some (.err .timeout) := by decide
example : (resume { x := { me := 0 }, kind := .timed } (timedSendK false { me := 0 }) false c3).1.chan.waitList = [] := by decide

-- 5. polls
example := pollSend_bridge { x := { m := 7, me := 0, st := .zero }, w := 3 } c5 _ rfl (by decide) (by decide) (by decide) (by decide) (by decide)
example : (run2 { x := { m := 7, me := 0, st := .zero }, w := 3 } (Fine.pollSend { m := 7, me := 0, st := .zero }) false c5).2.res? = some .pending := by decide
example : core (run2 { x := { m := 7, me := 0, st := .zero }, w := 3 } (Fine.pollSend { m := 7, me := 0, st := .zero }) false c5).1 = core c6 := by decide
example := pollRecv_bridge { x := { me := 1, st := .zero }, w := 4 } c7 _ rfl (by decide) (by decide) (by decide) (by decide) (by decide) (by decide) (by decide) (by decide)
example : (run2 { x := { me := 1, st := .zero }, w := 4 } (Fine.pollRecv { me := 1, st := .zero }) false c7).2.res? = some (.val 5) := by decide

-- 6. drops
example := dropSendFut_bridge { x := { m := 7, me := 0, st := .waiting } } c6 _ rfl (by decide) (by decide) (by decide) (by decide)
example : (runDrop { x := { m := 7, me := 0, st := .waiting } } (Fine.dropSendFut { m := 7, me := 0, st := .waiting }) c6).2.res? = some .unit := by decide
example : core (runDrop { x := { m := 7, me := 0, st := .waiting } } (Fine.dropSendFut { m := 7, me := 0, st := .waiting }) c6).1 = core (after c6 [.dropSendFut 0]) := by decide


-- the hand-off window: a `try_recv` has claimed the registered send future 0 but not yet stored the final state
def c8 : State := after c6 [.tryRecv false]
example : ((step .good c8 (.pollSend 0 9)).map (·.2)) = some .spin := by decide
example : (run2 { x := { m := 7, me := 0, st := .waiting }, w := 9 } (Fine.pollSend { m := 7, me := 0, st := .waiting }) false c8).2.isSpin = true := by decide
example : ((step .good c8 (.dropSendFut 0)).map (·.2)) = some .spin := by decide
example : (runDrop { x := { m := 7, me := 0, st := .waiting } } (Fine.dropSendFut { m := 7, me := 0, st := .waiting }) c8).2.isSpin = true := by decide


-- 5b. streams
/-- a rendezvous channel with a blocked `send(5)` (waiter 0) and a stream (waiter 1) that has received the 5: its future is `Done` -/
def c9 : State := after c1 [.newRecvFut true, .pollRecv 1 4]
example : ((step .good c1 (.newRecvFut true)).map (·.2)) = some (.num 1) := by decide
example : (c9.sigs[1]?.map (·.fut)) = some .done := by decide
/-- polled again: the future re-arms, finds nothing and registers -/
example := pollNext_bridge { x := { me := 1, st := .done, isStream := true }, w := 6 } c9 _ rfl
  (by decide) (by decide) (by decide) (by decide) (by decide) (by decide) (by decide) (by decide) (by decide)
example : (pollNext { x := { me := 1, st := .done, isStream := true }, w := 6 } c9).2.res? = some .pending := by decide
example : core (pollNext { x := { me := 1, st := .done, isStream := true }, w := 6 } c9).1 = core (after c9 [.pollRecv 1 6]) := by decide
/-- a stream (waiter 0) on a channel whose last sender is gone: the stream ends -/
def c10 : State := after c0 [.newRecvFut true, .dropHandle .send]
example := pollNext_bridge { x := { me := 0, st := .zero, isStream := true }, w := 6 } c10 _ rfl
  (by decide) (by decide) (by decide) (by decide) (by decide) (by decide) (by decide) (by decide) (by decide)
example : (pollNext { x := { me := 0, st := .zero, isStream := true }, w := 6 } c10).2.res? = some .streamEnd := by decide
example : core (pollNext { x := { me := 0, st := .zero, isStream := true }, w := 6 } c10).1 = core (after c10 [.pollRecv 0 6]) := by decide
example : (pollNext { x := { me := 0, st := .done, isStream := true, terminated := true }, w := 6 } (after c10 [.pollRecv 0 6])).2.res?
    = some .streamEnd := by decide

-- 5c. the tree of `poll_next`
example := pollNext_tree_bridge { x := { me := 1, st := .done, isStream := true }, w := 6 } c9 _ rfl
  (by decide) (by decide) (by decide) (by decide) (by decide) (by decide) (by decide) (by decide) (by decide)
example : (run2 { x := { me := 0, st := .zero, isStream := true }, w := 6 }
    (Fine.pollNext { me := 0, st := .zero, isStream := true }) false c10).2.res? = some .streamEnd := by decide
example : core (run2 { x := { me := 0, st := .zero, isStream := true }, w := 6 }
    (Fine.pollNext { me := 0, st := .zero, isStream := true }) false c10).1 = core (after c10 [.pollRecv 0 6]) := by decide

-- 4b. the deadline of a timed send passes although a `try_recv` has already taken the value and stored `ok`
def c11 : State := after c3 [.tryRecv false, .finalize 0]
example := timed_final_send_bridge { x := { me := 0 }, kind := .timed } false c11 _ rfl (by decide) (by decide) (by decide) (by decide) (by decide)
example : (resume { x := { me := 0 }, kind := .timed } (timedSendK false { me := 0 }) false c11).2.isBlocked = true := by decide
example : (resume { x := { me := 0 }, kind := .timed } (timedSendK2 false) true c11).2.res? = some .unit := by decide
example : core (resume { x := { me := 0 }, kind := .timed } (timedSendK2 false) true c11).1 = core (after c11 [.complete 0]) := by decide

end Ex2

end Bridge
end Kanal

#print axioms Kanal.Bridge.send_first_bridge
#print axioms Kanal.Bridge.recv_first_bridge
#print axioms Kanal.Bridge.complete_send_bridge
#print axioms Kanal.Bridge.complete_recv_bridge
#print axioms Kanal.Bridge.complete_send_bridge2
#print axioms Kanal.Bridge.complete_recv_bridge2
#print axioms Kanal.Bridge.expire_send_bridge
#print axioms Kanal.Bridge.expire_recv_bridge
#print axioms Kanal.Bridge.pollSend_bridge
#print axioms Kanal.Bridge.pollRecv_bridge
#print axioms Kanal.Bridge.pollNext_bridge
#print axioms Kanal.Bridge.run2_bind
#print axioms Kanal.Bridge.pollNext_eq
#print axioms Kanal.Bridge.pollNext_tree_bridge
#print axioms Kanal.Bridge.timed_final_send_bridge
#print axioms Kanal.Bridge.timed_final_recv_bridge
#print axioms Kanal.Bridge.dropSendFut_bridge
#print axioms Kanal.Bridge.dropRecvFut_bridge
