/-
  Kanal.Disp — "the value passed to a send is disposed of exactly once".

  In Rust the value handed to a send is, at every moment, in one of three situations (`Own3`):

  * `auto`   — Rust's ownership takes care of it (a by-value parameter, a local, the caller's `Option`): if the function
               returns now it is dropped automatically or stays with the caller;
  * `manual` — it sits in a `MaybeUninit` (the blocked sender's stack slot, the future's `data` field): nothing drops it
               unless the code does so explicitly;
  * `gone`   — it was moved into the channel / to a peer, dropped explicitly, or handed back: touching it again is a
               double drop / use after move.

  `Disp m t st` is a discipline of the tree `t`, for ALL answers of the environment, about the value `m`:

  * `MaybeUninit::new(data)` needs `auto` and makes it `manual`; `read_local_data` needs `manual` and makes it `auto`;
  * `assume_init_drop`, `*data = Some(assume_init_read())`, `drop_local_data` need `manual` and make it `gone`;
  * `p.send(m)` needs `auto` (and must send THIS value) and makes it `gone`;
  * a critical section that publishes `queue ++ [m]` needs `auto` and makes it `gone`;
  * `wait` / `wait_timeout` / `async_blocking_wait` answering `true` and `poll` answering `Ready(true)` mean the peer took
    the value out of my slot: needs `manual`, makes it `gone`;
  * `needs_drop::<T>()` is only followed on the answer `true` (for a type without drop glue nothing can leak or be
    dropped twice);
  * a call may return with the value `manual` only with `Poll::Pending` (the future keeps it); returning with `manual`
    otherwise is a LEAK; any of the steps above on a `gone` value is a DOUBLE DROP / use after move.

  No rule of the task had to be adjusted: all of them hold as stated for `Fine.trySend`, `Fine.send` (with
  `Fine.timedSendTail`), `Fine.pollSend`, `Fine.dropSendFut`, without any hypothesis on the states bound by `lock`.
  The inductive definition factors the rules through the functions `unlockOwn`, `effPre`/`effPost`, `askBAsk`/`askBPre`/
  `askBPost` (as `NoDangle` does with `unlockReg`/`askBReg`); the theorems `disp_*_iff` below restate each rule literally
  as written in the task, so the factoring is checked, not trusted.
-/
import Kanal.Fine
import Kanal.TieCode

namespace Kanal
namespace Disp
open Chan (SendBranch)

inductive Own3 where
  | auto | manual | gone
  deriving DecidableEq, Repr

structure DSt where
  cur : Option Chan := none     -- the state bound by the critical section in progress
  v   : Own3

/-- the situation of the value after a section that bound `c` published `c1` -/
def unlockOwn (m : Msg) (c c1 : Chan) (v : Own3) : Own3 :=
  if c1.queue = c.queue ++ [m] then .gone else v

/-- what an effect requires of the value's situation -/
def effPre (m : Msg) : Eff → Own3 → Prop
  | .wrapData, v => v = .auto
  | .wrapTaken, v => v = .auto
  | .readLocal, v => v = .manual
  | .dropData, v => v = .manual
  | .giveBack, v => v = .manual
  | .dropLocal, v => v = .manual
  | .sigSend _ m', v => m' = m ∧ v = .auto
  | .sigTerminate _, _ => True
  | .newSendSig, _ => True
  | .newRetSlot, _ => True
  | .newRecvSig, _ => True
  | .readClock, _ => True
  | .setState _, _ => True
  | .setPtr, _ => True
  | .registerWaker, _ => True
  | .rearmSig, _ => True
  | .setTerminated, _ => True
  | .vecReserve _, _ => True
  | .vecPush _, _ => True
  | .takeData, _ => True
  | .unknown _, _ => True

/-- the value's situation after an effect -/
def effPost : Eff → Own3 → Own3
  | .wrapData, _ => .manual
  | .wrapTaken, _ => .manual
  | .readLocal, _ => .auto
  | .dropData, _ => .gone
  | .giveBack, _ => .gone
  | .dropLocal, _ => .gone
  | .sigSend _ _, _ => .gone
  | .sigTerminate _, v => v
  | .newSendSig, v => v
  | .newRetSlot, v => v
  | .newRecvSig, v => v
  | .readClock, v => v
  | .setState _, v => v
  | .setPtr, v => v
  | .registerWaker, v => v
  | .rearmSig, v => v
  | .setTerminated, v => v
  | .vecReserve _, v => v
  | .vecPush _, v => v
  | .takeData, v => v
  | .unknown _, v => v

/-- the questions whose answer `true` means "the peer took the value out of my slot" -/
def takes : AskB → Bool
  | .wait => true
  | .waitTimeout => true
  | .asyncBlockingWait => true
  | .isTerminated => false
  | .willWake => false
  | .needsDrop => false
  | .sizeGtPtr => false
  | .expired => false
  | .dataIsNone => false
  | .unknown _ => false

/-- the answers that are followed: `needs_drop::<T>()` only on `true` -/
def askBAsk (q : AskB) (b : Bool) : Prop := q = .needsDrop → b = true

def askBPre (q : AskB) (b : Bool) (v : Own3) : Prop := takes q = true → b = true → v = .manual

def askBPost (q : AskB) (b : Bool) (v : Own3) : Own3 := if takes q && b then .gone else v

inductive Disp (m : Msg) : Act → DSt → Prop where
  | ret {r v} : (v = .manual → r = .pending) → Disp m (.ret r) ⟨none, v⟩
  | diverge {st} : Disp m .diverge st
  | lock {k v} : (∀ c : Chan, Disp m (k c) ⟨some c, v⟩) → Disp m (.lock k) ⟨none, v⟩
  | tryLock {k v} : (∀ c : Chan, Disp m (k (some c)) ⟨some c, v⟩) → Disp m (k none) ⟨none, v⟩ → Disp m (.tryLock k) ⟨none, v⟩
  | unlock {c1 k c v} : (c1.queue = c.queue ++ [m] → v = .auto) → Disp m k ⟨none, unlockOwn m c c1 v⟩ →
      Disp m (.unlock c1 k) ⟨some c, v⟩
  | eff {e k cur v} : effPre m e v → Disp m k ⟨cur, effPost e v⟩ → Disp m (.eff e k) ⟨cur, v⟩
  | askB {q k cur v} : (∀ b, askBAsk q b → askBPre q b v) → (∀ b, askBAsk q b → Disp m (k b) ⟨cur, askBPost q b v⟩) →
      Disp m (.askB q k) ⟨cur, v⟩
  | askM {q k st} : (∀ a, Disp m (k a) st) → Disp m (.askM q k) st
  | askP {k cur v} : v = .manual → Disp m (k (some true)) ⟨cur, .gone⟩ → Disp m (k (some false)) ⟨cur, v⟩ →
      Disp m (k none) ⟨cur, v⟩ → Disp m (.askP k) ⟨cur, v⟩

variable {m : Msg}

/-! ### `Disp` as rewriting rules -/

@[simp] theorem disp_ret {r cur v} : Disp m (.ret r) ⟨cur, v⟩ ↔ cur = none ∧ (v = .manual → r = .pending) :=
  ⟨fun h => by cases h with | ret h => exact ⟨rfl, h⟩, by rintro ⟨rfl, h⟩; exact .ret h⟩
@[simp] theorem disp_diverge {st} : Disp m .diverge st ↔ True := ⟨fun _ => trivial, fun _ => .diverge⟩
@[simp] theorem disp_lock {k cur v} : Disp m (.lock k) ⟨cur, v⟩ ↔ cur = none ∧ ∀ c : Chan, Disp m (k c) ⟨some c, v⟩ :=
  ⟨fun h => by cases h with | lock h => exact ⟨rfl, h⟩, by rintro ⟨rfl, h⟩; exact .lock h⟩
@[simp] theorem disp_tryLock {k cur v} : Disp m (.tryLock k) ⟨cur, v⟩ ↔
    cur = none ∧ (∀ c : Chan, Disp m (k (some c)) ⟨some c, v⟩) ∧ Disp m (k none) ⟨none, v⟩ :=
  ⟨fun h => by cases h with | tryLock h1 h2 => exact ⟨rfl, h1, h2⟩, by rintro ⟨rfl, h1, h2⟩; exact .tryLock h1 h2⟩
theorem disp_unlock {c1 k cur v} : Disp m (.unlock c1 k) ⟨cur, v⟩ ↔
    ∃ c, cur = some c ∧ (c1.queue = c.queue ++ [m] → v = .auto) ∧ Disp m k ⟨none, unlockOwn m c c1 v⟩ :=
  ⟨fun h => by cases h with | unlock h1 h2 => exact ⟨_, rfl, h1, h2⟩, by rintro ⟨c, rfl, h1, h2⟩; exact .unlock h1 h2⟩
@[simp] theorem disp_unlock_none {c1 k v} : Disp m (.unlock c1 k) ⟨none, v⟩ ↔ False :=
  ⟨fun h => (by cases h), False.elim⟩
/-- the section pushed the value into the buffer -/
theorem disp_unlock_push {c1 k c v} (h : c1.queue = c.queue ++ [m]) :
    Disp m (.unlock c1 k) ⟨some c, v⟩ ↔ v = .auto ∧ Disp m k ⟨none, .gone⟩ := by
  rw [disp_unlock]
  constructor
  · rintro ⟨c', hc, h1, h2⟩
    cases hc
    refine ⟨h1 h, ?_⟩
    simpa [unlockOwn, h] using h2
  · rintro ⟨h1, h2⟩
    exact ⟨c, rfl, fun _ => h1, by simpa [unlockOwn, h] using h2⟩
/-- the section did not -/
theorem disp_unlock_keep {c1 k c v} (h : c1.queue ≠ c.queue ++ [m]) :
    Disp m (.unlock c1 k) ⟨some c, v⟩ ↔ Disp m k ⟨none, v⟩ := by
  rw [disp_unlock]
  constructor
  · rintro ⟨c', hc, -, h2⟩
    cases hc
    simpa [unlockOwn, h] using h2
  · intro h2
    exact ⟨c, rfl, fun e => absurd e h, by simpa [unlockOwn, h] using h2⟩
@[simp] theorem disp_unlock_some {c1 k c v} : Disp m (.unlock c1 k) ⟨some c, v⟩ ↔
    if c1.queue = c.queue ++ [m] then v = .auto ∧ Disp m k ⟨none, .gone⟩ else Disp m k ⟨none, v⟩ := by
  split
  · rename_i h; exact disp_unlock_push h
  · rename_i h; exact disp_unlock_keep h
@[simp] theorem disp_eff {e k cur v} : Disp m (.eff e k) ⟨cur, v⟩ ↔ effPre m e v ∧ Disp m k ⟨cur, effPost e v⟩ :=
  ⟨fun h => by cases h with | eff h1 h2 => exact ⟨h1, h2⟩, fun ⟨h1, h2⟩ => .eff h1 h2⟩
theorem disp_askB {q k cur v} : Disp m (.askB q k) ⟨cur, v⟩ ↔
    ∀ b, askBAsk q b → askBPre q b v ∧ Disp m (k b) ⟨cur, askBPost q b v⟩ :=
  ⟨fun h => by cases h with | askB h1 h2 => exact fun b hb => ⟨h1 b hb, h2 b hb⟩,
   fun h => .askB (fun b hb => (h b hb).1) (fun b hb => (h b hb).2)⟩
@[simp] theorem disp_askM {q k st} : Disp m (.askM q k) st ↔ ∀ a, Disp m (k a) st :=
  ⟨fun h => by cases h with | askM h => exact h, .askM⟩
@[simp] theorem disp_askP {k cur v} : Disp m (.askP k) ⟨cur, v⟩ ↔
    (v = .manual ∧ Disp m (k (some true)) ⟨cur, .gone⟩) ∧ Disp m (k (some false)) ⟨cur, v⟩ ∧ Disp m (k none) ⟨cur, v⟩ :=
  ⟨fun h => by cases h with | askP h1 h2 h3 h4 => exact ⟨⟨h1, h2⟩, h3, h4⟩, fun ⟨⟨h1, h2⟩, h3, h4⟩ => .askP h1 h2 h3 h4⟩
@[simp] theorem disp_ite {c : Prop} [Decidable c] {t e : Act} {st} :
    Disp m (if c then t else e) st ↔ (c → Disp m t st) ∧ (¬ c → Disp m e st) := by
  split <;> simp [*]

/-! ### the questions, one rule each -/

/-- `needs_drop::<T>()`: only the answer `true` is followed -/
@[simp] theorem disp_needsDrop {k cur v} : Disp m (.askB .needsDrop k) ⟨cur, v⟩ ↔ Disp m (k true) ⟨cur, v⟩ := by
  rw [disp_askB]
  constructor
  · intro h; simpa [askBPost, takes] using (h true (fun _ => rfl)).2
  · intro h b hb
    cases hb rfl
    exact ⟨by simp [askBPre, takes], by simpa [askBPost, takes] using h⟩

theorem disp_askB_takes {q k cur v} (hq : takes q = true) : Disp m (.askB q k) ⟨cur, v⟩ ↔
    (v = .manual ∧ Disp m (k true) ⟨cur, .gone⟩) ∧ Disp m (k false) ⟨cur, v⟩ := by
  have hn : q ≠ .needsDrop := by rintro rfl; simp [takes] at hq
  rw [disp_askB]
  constructor
  · intro h
    have h1 := h true (fun e => absurd e hn)
    have h2 := h false (fun e => absurd e hn)
    simp only [askBPre, askBPost, hq, Bool.and_true, Bool.and_false, if_true] at h1 h2
    exact ⟨⟨h1.1 trivial trivial, h1.2⟩, by simpa using h2.2⟩
  · rintro ⟨⟨h1, h2⟩, h3⟩ b _
    cases b
    · exact ⟨by simp [askBPre], by simpa [askBPost] using h3⟩
    · exact ⟨fun _ _ => h1, by simpa [askBPost, hq] using h2⟩

theorem disp_askB_pass {q k cur v} (hq : takes q = false) (hn : q ≠ .needsDrop) : Disp m (.askB q k) ⟨cur, v⟩ ↔
    ∀ b, Disp m (k b) ⟨cur, v⟩ := by
  rw [disp_askB]
  constructor
  · intro h b; simpa [askBPost, hq] using (h b (fun e => absurd e hn)).2
  · intro h b _; exact ⟨by simp [askBPre, hq], by simpa [askBPost, hq] using h b⟩

@[simp] theorem disp_wait {k cur v} : Disp m (.askB .wait k) ⟨cur, v⟩ ↔
    (v = .manual ∧ Disp m (k true) ⟨cur, .gone⟩) ∧ Disp m (k false) ⟨cur, v⟩ := disp_askB_takes rfl
@[simp] theorem disp_waitTimeout {k cur v} : Disp m (.askB .waitTimeout k) ⟨cur, v⟩ ↔
    (v = .manual ∧ Disp m (k true) ⟨cur, .gone⟩) ∧ Disp m (k false) ⟨cur, v⟩ := disp_askB_takes rfl
@[simp] theorem disp_asyncBlockingWait {k cur v} : Disp m (.askB .asyncBlockingWait k) ⟨cur, v⟩ ↔
    (v = .manual ∧ Disp m (k true) ⟨cur, .gone⟩) ∧ Disp m (k false) ⟨cur, v⟩ := disp_askB_takes rfl
@[simp] theorem disp_isTerminated {k cur v} : Disp m (.askB .isTerminated k) ⟨cur, v⟩ ↔ ∀ b, Disp m (k b) ⟨cur, v⟩ :=
  disp_askB_pass rfl (by simp)
@[simp] theorem disp_willWake {k cur v} : Disp m (.askB .willWake k) ⟨cur, v⟩ ↔ ∀ b, Disp m (k b) ⟨cur, v⟩ :=
  disp_askB_pass rfl (by simp)
@[simp] theorem disp_sizeGtPtr {k cur v} : Disp m (.askB .sizeGtPtr k) ⟨cur, v⟩ ↔ ∀ b, Disp m (k b) ⟨cur, v⟩ :=
  disp_askB_pass rfl (by simp)
@[simp] theorem disp_expired {k cur v} : Disp m (.askB .expired k) ⟨cur, v⟩ ↔ ∀ b, Disp m (k b) ⟨cur, v⟩ :=
  disp_askB_pass rfl (by simp)
@[simp] theorem disp_dataIsNone {k cur v} : Disp m (.askB .dataIsNone k) ⟨cur, v⟩ ↔ ∀ b, Disp m (k b) ⟨cur, v⟩ :=
  disp_askB_pass rfl (by simp)
@[simp] theorem disp_askB_unknown {t k cur v} : Disp m (.askB (.unknown t) k) ⟨cur, v⟩ ↔ ∀ b, Disp m (k b) ⟨cur, v⟩ :=
  disp_askB_pass rfl (by simp)

/-! ### the effects, one rule each -/

@[simp] theorem effPre_wrapData (v) : effPre m .wrapData v ↔ v = .auto := Iff.rfl
@[simp] theorem effPre_wrapTaken (v) : effPre m .wrapTaken v ↔ v = .auto := Iff.rfl
@[simp] theorem effPre_readLocal (v) : effPre m .readLocal v ↔ v = .manual := Iff.rfl
@[simp] theorem effPre_dropData (v) : effPre m .dropData v ↔ v = .manual := Iff.rfl
@[simp] theorem effPre_giveBack (v) : effPre m .giveBack v ↔ v = .manual := Iff.rfl
@[simp] theorem effPre_dropLocal (v) : effPre m .dropLocal v ↔ v = .manual := Iff.rfl
@[simp] theorem effPre_sigSend (p m' v) : effPre m (.sigSend p m') v ↔ m' = m ∧ v = .auto := Iff.rfl
@[simp] theorem effPre_sigTerminate (p v) : effPre m (.sigTerminate p) v ↔ True := Iff.rfl
@[simp] theorem effPre_newSendSig (v) : effPre m .newSendSig v ↔ True := Iff.rfl
@[simp] theorem effPre_newRetSlot (v) : effPre m .newRetSlot v ↔ True := Iff.rfl
@[simp] theorem effPre_newRecvSig (v) : effPre m .newRecvSig v ↔ True := Iff.rfl
@[simp] theorem effPre_readClock (v) : effPre m .readClock v ↔ True := Iff.rfl
@[simp] theorem effPre_setState (s v) : effPre m (.setState s) v ↔ True := Iff.rfl
@[simp] theorem effPre_setPtr (v) : effPre m .setPtr v ↔ True := Iff.rfl
@[simp] theorem effPre_registerWaker (v) : effPre m .registerWaker v ↔ True := Iff.rfl
@[simp] theorem effPre_rearmSig (v) : effPre m .rearmSig v ↔ True := Iff.rfl
@[simp] theorem effPre_setTerminated (v) : effPre m .setTerminated v ↔ True := Iff.rfl
@[simp] theorem effPre_vecReserve (n v) : effPre m (.vecReserve n) v ↔ True := Iff.rfl
@[simp] theorem effPre_vecPush (a v) : effPre m (.vecPush a) v ↔ True := Iff.rfl
@[simp] theorem effPre_takeData (v) : effPre m .takeData v ↔ True := Iff.rfl
@[simp] theorem effPre_unknown (t v) : effPre m (.unknown t) v ↔ True := Iff.rfl

@[simp] theorem effPost_wrapData (v) : effPost .wrapData v = .manual := rfl
@[simp] theorem effPost_wrapTaken (v) : effPost .wrapTaken v = .manual := rfl
@[simp] theorem effPost_readLocal (v) : effPost .readLocal v = .auto := rfl
@[simp] theorem effPost_dropData (v) : effPost .dropData v = .gone := rfl
@[simp] theorem effPost_giveBack (v) : effPost .giveBack v = .gone := rfl
@[simp] theorem effPost_dropLocal (v) : effPost .dropLocal v = .gone := rfl
@[simp] theorem effPost_sigSend (p a v) : effPost (.sigSend p a) v = .gone := rfl
@[simp] theorem effPost_sigTerminate (p v) : effPost (.sigTerminate p) v = v := rfl
@[simp] theorem effPost_newSendSig (v) : effPost .newSendSig v = v := rfl
@[simp] theorem effPost_newRetSlot (v) : effPost .newRetSlot v = v := rfl
@[simp] theorem effPost_newRecvSig (v) : effPost .newRecvSig v = v := rfl
@[simp] theorem effPost_readClock (v) : effPost .readClock v = v := rfl
@[simp] theorem effPost_setState (s v) : effPost (.setState s) v = v := rfl
@[simp] theorem effPost_setPtr (v) : effPost .setPtr v = v := rfl
@[simp] theorem effPost_registerWaker (v) : effPost .registerWaker v = v := rfl
@[simp] theorem effPost_rearmSig (v) : effPost .rearmSig v = v := rfl
@[simp] theorem effPost_setTerminated (v) : effPost .setTerminated v = v := rfl
@[simp] theorem effPost_vecReserve (n v) : effPost (.vecReserve n) v = v := rfl
@[simp] theorem effPost_vecPush (a v) : effPost (.vecPush a) v = v := rfl
@[simp] theorem effPost_takeData (v) : effPost .takeData v = v := rfl
@[simp] theorem effPost_unknown (t v) : effPost (.unknown t) v = v := rfl

/-! ### the rules, literally as stated in the task (the factoring through `unlockOwn`, `effPre`, … is checked here) -/

theorem disp_ret_iff {r st} : Disp m (.ret r) st ↔ st.cur = none ∧ (st.v = .manual → r = .pending) := by
  cases st; exact disp_ret
theorem disp_lock_iff {k st} : Disp m (.lock k) st ↔ st.cur = none ∧ ∀ c, Disp m (k c) { st with cur := some c } := by
  cases st; exact disp_lock
theorem disp_tryLock_iff {k st} : Disp m (.tryLock k) st ↔
    st.cur = none ∧ (∀ c, Disp m (k (some c)) { st with cur := some c }) ∧ Disp m (k none) st := by
  cases st; simp only [disp_tryLock]
  constructor
  · rintro ⟨rfl, h1, h2⟩; exact ⟨rfl, h1, h2⟩
  · rintro ⟨h0, h1, h2⟩; cases h0; exact ⟨rfl, h1, h2⟩
theorem disp_unlock_iff {c1 k st} : Disp m (.unlock c1 k) st ↔
    ∃ c, st.cur = some c ∧
      if c1.queue = c.queue ++ [m] then st.v = .auto ∧ Disp m k ⟨none, .gone⟩ else Disp m k ⟨none, st.v⟩ := by
  rcases st with ⟨cur, v⟩
  cases cur with
  | none => simp
  | some c => simp
theorem disp_wrap_iff {e k st} (he : e = .wrapData ∨ e = .wrapTaken) :
    Disp m (.eff e k) st ↔ st.v = .auto ∧ Disp m k { st with v := .manual } := by
  cases st; rcases he with rfl | rfl <;> simp
theorem disp_readLocal_iff {k st} :
    Disp m (.eff .readLocal k) st ↔ st.v = .manual ∧ Disp m k { st with v := .auto } := by
  cases st; simp
theorem disp_drop_iff {e k st} (he : e = .dropData ∨ e = .giveBack ∨ e = .dropLocal) :
    Disp m (.eff e k) st ↔ st.v = .manual ∧ Disp m k { st with v := .gone } := by
  cases st; rcases he with rfl | rfl | rfl <;> simp
theorem disp_sigSend_iff {p m' k st} :
    Disp m (.eff (.sigSend p m') k) st ↔ (m' = m ∧ st.v = .auto) ∧ Disp m k { st with v := .gone } := by
  cases st; simp
theorem disp_needsDrop_iff {k st} : Disp m (.askB .needsDrop k) st ↔ Disp m (k true) st := by
  cases st; simp
theorem disp_takes_iff {q k st} (hq : q = .wait ∨ q = .waitTimeout ∨ q = .asyncBlockingWait) :
    Disp m (.askB q k) st ↔ (st.v = .manual ∧ Disp m (k true) { st with v := .gone }) ∧ Disp m (k false) st := by
  cases st; rcases hq with rfl | rfl | rfl <;> simp
theorem disp_askP_iff {k st} : Disp m (.askP k) st ↔
    (st.v = .manual ∧ Disp m (k (some true)) { st with v := .gone }) ∧ Disp m (k (some false)) st ∧ Disp m (k none) st := by
  cases st; simp
/-- every other effect passes through -/
theorem disp_eff_other_iff {e k st} (h1 : e ≠ .wrapData) (h2 : e ≠ .wrapTaken) (h3 : e ≠ .readLocal) (h4 : e ≠ .dropData)
    (h5 : e ≠ .giveBack) (h6 : e ≠ .dropLocal) (h7 : ∀ p a, e ≠ .sigSend p a) : Disp m (.eff e k) st ↔ Disp m k st := by
  cases st; cases e <;> simp_all
/-- every other Boolean question passes through -/
theorem disp_askB_other_iff {q k st} (h1 : q ≠ .needsDrop) (h2 : q ≠ .wait) (h3 : q ≠ .waitTimeout)
    (h4 : q ≠ .asyncBlockingWait) : Disp m (.askB q k) st ↔ ∀ b, Disp m (k b) st := by
  cases st; cases q <;> simp_all

/-! ### the combinators of `Fine` -/

/-- `if needs_drop::<T>() { data.assume_init_drop() }`: needs a value in the slot, disposes of it -/
@[simp] theorem disp_dropData (k : Act) {cur v} :
    Disp m (Fine.dropData k) ⟨cur, v⟩ ↔ v = .manual ∧ Disp m k ⟨cur, .gone⟩ := by
  unfold Fine.dropData; simp
@[simp] theorem disp_dropLocal (k : Act) {cur v} :
    Disp m (Fine.dropLocal k) ⟨cur, v⟩ ↔ v = .manual ∧ Disp m k ⟨cur, .gone⟩ := by
  unfold Fine.dropLocal; simp
@[simp] theorem disp_failBack (o : Bool) (k : Act) {cur v} :
    Disp m (Fine.failBack o k) ⟨cur, v⟩ ↔ v = .manual ∧ Disp m k ⟨cur, .gone⟩ := by
  unfold Fine.failBack; cases o <;> simp
@[simp] theorem disp_take (o : Bool) (k : Act) {st} : Disp m (Fine.take o k) st ↔ Disp m k st := by
  cases st; unfold Fine.take; cases o <;> simp
/-- the `panic!()` of the Option variants happens while the value is still the caller's -/
@[simp] theorem disp_guardNone (o : Bool) (k : Act) :
    Disp m (Fine.guardNone o k) ⟨none, .auto⟩ ↔ Disp m k ⟨none, .auto⟩ := by
  unfold Fine.guardNone; cases o <;> simp
@[simp] theorem disp_register (k : Act) {cur v} : Disp m (Fine.register k) ⟨cur, v⟩ ↔ Disp m k ⟨cur, v⟩ := by
  unfold Fine.register; simp

/-! ### what the critical sections do to the buffer -/

theorem nextRecv_queue (c : Chan) : c.nextRecv.1.queue = c.queue := by
  unfold Chan.nextRecv
  split
  · rfl
  · split <;> rfl

/-- `sendPre` pushes `m` exactly in the `buffered` branch and leaves the buffer unchanged in the others -/
theorem sendPre_cases (c : Chan) (m : Msg) :
    ((c.sendPre m).2 = .buffered ∧ (c.sendPre m).1.queue = c.queue ++ [m]) ∨
    ((c.sendPre m).2 ≠ .buffered ∧ (c.sendPre m).1.queue = c.queue) := by
  unfold Chan.sendPre
  split
  · right; split <;> simp
  · have := nextRecv_queue c
    split
    · rename_i c1 f hn; rw [hn] at this; right; simpa using this
    · rename_i c1 hn
      rw [hn] at this
      split
      · left; simpa using this
      · right; simpa using this

/-- so does the first section of a blocking send (`push_send` touches the wait list only) -/
theorem sendCS_cases (c : Chan) (m : Msg) (s : SigId) :
    ((c.sendCS m s).2 = .buffered ∧ (c.sendCS m s).1.queue = c.queue ++ [m]) ∨
    ((c.sendCS m s).2 ≠ .buffered ∧ (c.sendCS m s).1.queue = c.queue) := by
  unfold Chan.sendCS
  have := sendPre_cases c m
  rcases hp : c.sendPre m with ⟨c1, br⟩
  rw [hp] at this
  cases br <;> simpa [Chan.pushWaiter] using this

/-- `cancel_send_signal` / `cancel_recv_signal` touch the wait list only -/
theorem cancel_queue (c : Chan) (r : Role) (s : SigId) : (c.cancel r s).1.queue = c.queue := by
  unfold Chan.cancel; split <;> rfl

theorem ne_push (q : List Msg) (a : Msg) : q ≠ q ++ [a] := by
  intro h
  have := congrArg List.length h
  simp at this

/-- publishing the buffer as found: the value stays where it is -/
theorem disp_unlock_same {c1 c : Chan} {k v} (h : c1.queue = c.queue) :
    Disp m (.unlock c1 k) ⟨some c, v⟩ ↔ Disp m k ⟨none, v⟩ :=
  disp_unlock_keep (by rw [h]; exact ne_push _ _)

/-! ### the send family -/

theorem disp_sendErr (c : Chan) {v} (hv : v ≠ .manual) : Disp m (Fine.sendErr c) ⟨some c, v⟩ := by
  unfold Fine.sendErr
  rw [disp_unlock_same rfl]
  simp [hv]

theorem disp_trySend (opt rt : Bool) (x : Ctx) : Disp x.m (Fine.trySend opt rt x) ⟨none, .auto⟩ := by
  unfold Fine.trySend Fine.acquire
  have key : ∀ c : Chan, Disp x.m
      (match c.sendPre x.m with
        | (_, .errClosed) | (_, .errRecvClosed) => Fine.sendErr c
        | (c1, .handoff r) => .unlock c1 (Fine.take opt (.eff (.sigSend r x.m) (.ret (.bool true))))
        | (c1, .buffered) => Fine.take opt (.unlock c1 (.ret (.bool true)))
        | (c1, .full) => .unlock c1 (.ret (.bool false))) ⟨some c, .auto⟩ := by
    intro c
    have hs := sendPre_cases c x.m
    rcases hb : c.sendPre x.m with ⟨c1, br⟩
    rw [hb] at hs
    rcases hs with ⟨hf, hq⟩ | ⟨hf, hq⟩
    · simp only at hf hq
      subst hf
      simp [disp_unlock_push hq]
    · simp only at hf hq
      cases br <;> simp [disp_unlock_same hq, -disp_unlock_some, disp_sendErr] at hf ⊢
  rw [disp_guardNone]
  cases rt <;> simp <;> intro c <;> exact key c

/-- after registration the value sits in the sender's stack slot: a timed sender that gave up gets it out again
    (`failBack`) on every path on which the peer did not take it -/
theorem disp_timedSendTail (opt : Bool) (x : Ctx) : Disp x.m (Fine.timedSendTail opt x) ⟨none, .manual⟩ := by
  unfold Fine.timedSendTail
  simp [disp_unlock_same (cancel_queue _ _ _), -disp_unlock_some]

theorem disp_send (timed opt : Bool) (x : Ctx) : Disp x.m (Fine.send timed opt x) ⟨none, .auto⟩ := by
  unfold Fine.send
  have key : ∀ c : Chan, Disp x.m
      (match c.sendCS x.m x.me with
        | (_, .errClosed) | (_, .errRecvClosed) => Fine.sendErr c
        | (c1, .handoff r) => .unlock c1 (Fine.take opt (.eff (.sigSend r x.m) (.ret .unit)))
        | (c1, .buffered) => Fine.take opt (.unlock c1 (.ret .unit))
        | (c1, .full) =>
          .eff (if opt then .wrapTaken else .wrapData) <| .eff .newSendSig <| .unlock c1 <|
            if timed then Fine.timedSendTail opt x
            else .askB .wait fun ok => if ok then .ret .unit else Fine.dropData (.ret (.err .closed))) ⟨some c, .auto⟩ := by
    intro c
    have hs := sendCS_cases c x.m x.me
    rcases hb : c.sendCS x.m x.me with ⟨c1, br⟩
    rw [hb] at hs
    rcases hs with ⟨hf, hq⟩ | ⟨hf, hq⟩
    · simp only at hf hq
      subst hf
      simp [disp_unlock_push hq]
    · simp only at hf hq
      cases br <;> simp [disp_unlock_same hq, -disp_unlock_some, disp_sendErr] at hf ⊢
      cases opt <;> simp [disp_timedSendTail]
  rw [disp_guardNone]
  cases timed <;> simp <;> intro c <;> exact key c

/-! ### the future -/

/-- what the future's `data` field holds on entry, by `self.state` -/
def init : FutSt → Own3
  | .zero => .manual
  | .waiting => .manual
  | .done => .gone

theorem disp_pollSend (x : Ctx) : Disp x.m (Fine.pollSend x) ⟨none, init x.st⟩ := by
  unfold Fine.pollSend
  cases hst : x.st <;> simp [init]
  · intro c
    have hs := sendCS_cases c x.m x.me
    rcases hb : c.sendCS x.m x.me with ⟨c1, br⟩
    rw [hb] at hs
    rcases hs with ⟨hf, hq⟩ | ⟨hf, hq⟩
    · simp only at hf hq
      subst hf
      simp [disp_unlock_push hq]
    · simp only at hf hq
      cases br <;> simp [disp_unlock_same hq, disp_unlock_same (c1 := c) (c := c) rfl, -disp_unlock_some] at hf ⊢

/-- `Drop for SendFuture` answers `.unit`, so it ends on every path with the value not `manual`: dropped here, taken by
    the peer, or already gone -/
theorem disp_dropSendFut (x : Ctx) : Disp x.m (Fine.dropSendFut x) ⟨none, init x.st⟩ := by
  unfold Fine.dropSendFut
  cases hst : x.st <;> simp [init, disp_unlock_same (cancel_queue _ _ _), -disp_unlock_some]

/-! ### the same, about the translated source -/

theorem gen_try_send (x : Ctx) :
    Disp x.m (Gen.shared_send_impl_try_send x) ⟨none, .auto⟩ ∧
    Disp x.m (Gen.shared_send_impl_try_send_option x) ⟨none, .auto⟩ ∧
    Disp x.m (Gen.shared_send_impl_try_send_realtime x) ⟨none, .auto⟩ ∧
    Disp x.m (Gen.shared_send_impl_try_send_option_realtime x) ⟨none, .auto⟩ := by
  rw [TieCode.try_send, TieCode.try_send_option, TieCode.try_send_realtime, TieCode.try_send_option_realtime]
  exact ⟨disp_trySend _ _ x, disp_trySend _ _ x, disp_trySend _ _ x, disp_trySend _ _ x⟩

theorem gen_send (x : Ctx) :
    Disp x.m (Gen.Sender_send x) ⟨none, .auto⟩ ∧
    Disp x.m (Gen.Sender_send_timeout x) ⟨none, .auto⟩ ∧
    Disp x.m (Gen.Sender_send_option_timeout x) ⟨none, .auto⟩ := by
  rw [TieCode.send, TieCode.send_timeout, TieCode.send_option_timeout]
  exact ⟨disp_send _ _ x, disp_send _ _ x, disp_send _ _ x⟩

theorem gen_send_future (x : Ctx) :
    Disp x.m (Gen.Future_SendFuture_poll x) ⟨none, init x.st⟩ ∧
    Disp x.m (Gen.Drop_SendFuture_drop x) ⟨none, init x.st⟩ := by
  rw [TieCode.poll_send, TieCode.drop_send_fut]
  exact ⟨disp_pollSend x, disp_dropSendFut x⟩

/-! ### the discipline is not vacuous -/

/-- `Fine.timedSendTail false x` with the leaf of the successful-cancel branch as a parameter -/
def timedTailWith (leaf : Act) (x : Ctx) : Act :=
  .askB .waitTimeout fun ok => if ok then .ret .unit else
  .askB .isTerminated fun t => if t then Fine.failBack false (.ret (.err .closed)) else
  .lock fun c =>
    if (c.cancel .send x.me).2 then .unlock (c.cancel .send x.me).1 leaf
    else .unlock (c.cancel .send x.me).1
      (.askB .wait fun ok => if ok then .ret .unit else Fine.failBack false (.ret (.err .closed)))

/-- `Fine.send timed false x` with what happens after registration as a parameter -/
def sendWith (timed : Bool) (tail : Act) (x : Ctx) : Act :=
  Fine.guardNone false <| (fun k => if timed then Act.eff .readClock k else k) <| .lock fun c =>
    match c.sendCS x.m x.me with
    | (_, .errClosed) | (_, .errRecvClosed) => Fine.sendErr c
    | (c1, .handoff r) => .unlock c1 (Fine.take false (.eff (.sigSend r x.m) (.ret .unit)))
    | (c1, .buffered) => Fine.take false (.unlock c1 (.ret .unit))
    | (c1, .full) => .eff .wrapData <| .eff .newSendSig <| .unlock c1 tail

/-- the two skeletons are the real trees when given the real leaves -/
theorem timedTailWith_good (x : Ctx) :
    timedTailWith (Fine.failBack false (.ret (.err .timeout))) x = Fine.timedSendTail false x := rfl
theorem sendWith_good_timed (x : Ctx) : sendWith true (Fine.timedSendTail false x) x = Fine.send true false x := rfl
theorem sendWith_good (x : Ctx) :
    sendWith false (.askB .wait fun ok => if ok then .ret .unit else Fine.dropData (.ret (.err .closed))) x =
      Fine.send false false x := rfl

/-- a rendezvous channel with no receiver waiting: `send` registers, and the tail runs with the value in the slot -/
theorem not_disp_sendWith (timed : Bool) (tail : Act) (x : Ctx) (h : ¬ Disp x.m tail ⟨none, .manual⟩) :
    ¬ Disp x.m (sendWith timed tail x) ⟨none, .auto⟩ := by
  intro hd
  apply h
  have e : (Chan.new (some 0)).sendCS x.m x.me = ({ Chan.new (some 0) with waitList := [x.me] }, .full) := by
    simp [Chan.new, Chan.sendCS, Chan.sendPre, Chan.nextRecv, Chan.hasRoom, Chan.pushWaiter]
  unfold sendWith at hd
  rw [disp_guardNone] at hd
  have hl : Disp x.m (.lock fun c =>
      match c.sendCS x.m x.me with
      | (_, .errClosed) | (_, .errRecvClosed) => Fine.sendErr c
      | (c1, .handoff r) => .unlock c1 (Fine.take false (.eff (.sigSend r x.m) (.ret .unit)))
      | (c1, .buffered) => Fine.take false (.unlock c1 (.ret .unit))
      | (c1, .full) => .eff .wrapData <| .eff .newSendSig <| .unlock c1 tail) ⟨none, .auto⟩ := by
    cases timed
    · simpa using hd
    · simpa using hd
  have h1 := (disp_lock.mp hl).2 (Chan.new (some 0))
  rw [e] at h1
  simp only [disp_eff, effPre_wrapData, effPost_wrapData, effPre_newSendSig, effPost_newSendSig, true_and] at h1
  exact (disp_unlock_keep (by simp [Chan.new])).mp h1

/-- DEFECT SHAPE 1 (`send_timeout` returning `Err(Timeout)` without giving the value back / dropping it): the tail whose
    successful-cancel branch just returns.  The value is still in the stack slot when the frame dies: a leak. -/
def badTimedTail (x : Ctx) : Act := timedTailWith (.ret (.err .timeout)) x

theorem not_disp_badTimedTail (x : Ctx) : ¬ Disp x.m (badTimedTail x) ⟨none, .manual⟩ := by
  intro h
  unfold badTimedTail timedTailWith at h
  rw [disp_waitTimeout] at h
  have h1 := h.2
  simp only [Bool.false_eq_true, if_false, disp_isTerminated] at h1
  have h2 := h1 false
  simp only [Bool.false_eq_true, if_false, disp_lock, true_and] at h2
  have h3 := h2 { Chan.new (some 0) with waitList := [x.me] }
  have hc : (({ Chan.new (some 0) with waitList := [x.me] } : Chan).cancel .send x.me).2 = true := by
    simp [Chan.cancel, Chan.new]
  rw [hc] at h3
  simp only [if_true] at h3
  rw [disp_unlock_same (cancel_queue _ _ _)] at h3
  simp at h3

/-- the whole `send_timeout` with that tail is rejected -/
theorem not_disp_badTimedSend (x : Ctx) : ¬ Disp x.m (sendWith true (badTimedTail x) x) ⟨none, .auto⟩ :=
  not_disp_sendWith true _ x (not_disp_badTimedTail x)

/-- DEFECT SHAPE 2: a tail that drops the value whatever `wait` answered — also on the path on which the peer took it
    out of the slot and success is reported: a double drop. -/
def badDropTail : Act :=
  .askB .wait fun ok => Fine.dropData (if ok then .ret .unit else .ret (.err .closed))

theorem not_disp_badDropTail : ¬ Disp m badDropTail ⟨none, .manual⟩ := by
  intro h
  unfold badDropTail at h
  rw [disp_wait] at h
  have h1 := h.1.2
  simp at h1

theorem not_disp_badDropSend (x : Ctx) : ¬ Disp x.m (sendWith false badDropTail x) ⟨none, .auto⟩ :=
  not_disp_sendWith false _ x not_disp_badDropTail

/-- the `unlock` rule fires: on a channel of capacity 1 with an empty buffer and a receiver handle alive,
    `Fine.trySend false false x` takes the `buffered` branch, the section publishes `queue ++ [x.m]`, the value becomes
    `gone` there, and the same section with the value in a `MaybeUninit` would be rejected -/
example (x : Ctx) :
    (Chan.new (some 1)).sendPre x.m = ({ Chan.new (some 1) with queue := [x.m] }, .buffered) ∧
    ((Chan.new (some 1)).sendPre x.m).1.queue = (Chan.new (some 1)).queue ++ [x.m] ∧
    unlockOwn x.m (Chan.new (some 1)) ((Chan.new (some 1)).sendPre x.m).1 .auto = .gone ∧
    ¬ Disp x.m (.unlock ((Chan.new (some 1)).sendPre x.m).1 (.ret (.bool true))) ⟨some (Chan.new (some 1)), .manual⟩ := by
  have e : (Chan.new (some 1)).sendPre x.m = ({ Chan.new (some 1) with queue := [x.m] }, .buffered) := by
    simp [Chan.new, Chan.sendPre, Chan.nextRecv, Chan.hasRoom]
  refine ⟨e, ?_, ?_, ?_⟩
  · rw [e]; simp [Chan.new]
  · rw [e]; simp [unlockOwn, Chan.new]
  · rw [e, disp_unlock_push (by simp [Chan.new])]; simp

end Disp
end Kanal

#print axioms Kanal.Disp.disp_trySend
#print axioms Kanal.Disp.disp_send
#print axioms Kanal.Disp.disp_timedSendTail
#print axioms Kanal.Disp.disp_pollSend
#print axioms Kanal.Disp.disp_dropSendFut
#print axioms Kanal.Disp.gen_try_send
#print axioms Kanal.Disp.gen_send
#print axioms Kanal.Disp.gen_send_future
#print axioms Kanal.Disp.sendPre_cases
#print axioms Kanal.Disp.sendCS_cases
#print axioms Kanal.Disp.cancel_queue
#print axioms Kanal.Disp.not_disp_badTimedTail
#print axioms Kanal.Disp.not_disp_badTimedSend
#print axioms Kanal.Disp.not_disp_badDropTail
#print axioms Kanal.Disp.not_disp_badDropSend
#print axioms Kanal.Disp.disp_unlock_iff
#print axioms Kanal.Disp.disp_takes_iff
