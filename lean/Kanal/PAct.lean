/-
  Kanal.PAct — target language of the protocol translator `extract/rs2proto.py` (DESIGN §4.1c): trees of atomic
  operations (with their orderings), protocol effects and questions to the environment.  One tree per function of
  src/signal.rs, src/mutex.rs and `spin_cond` of src/backoff.rs, in continuation-passing style.
-/
import Kanal.Basic

namespace Kanal

/-- `KanalWaker`: how the owner of a signal waits. -/
inductive WakerKind where
  | none | sync | async
  deriving DecidableEq, Repr, Inhabited

inductive PEff where
  | yieldStd | yieldSpin | spinHint | sleep     -- `yield_now_std()`, `yield_now()`, `spin_hint()`, `sleep(_)`
  | park | unpark                               -- `std::thread::park()`, `thread.unpark()`
  | writeHandle | readHandle                    -- the thread-handle cell of a sync waiter: `*waker.get() = Some(current())`, clone out of it
  | cloneWaker | wake                           -- the task waker of an async waiter
  | ptrWrite | ptrRead | ptrCopy                -- the payload slot (`KanalPtr`)
  | storeWaker | storePtr                       -- `register_waker` (clone the task's waker into the signal), `set_ptr`
  | unknown (text : String)
  deriving DecidableEq, Repr, Inhabited

inductive PAskB where
  | beforeDeadline      -- `Instant::now() < until`
  | parGt1 | parEq1     -- `get_parallelism() > 1`, `== 1`
  | stdWillWake         -- `Waker::will_wake` (standard library) between the registered waker and the one supplied
  deriving DecidableEq, Repr, Inhabited

/-- What the functions of `KanalPtr` do with the pointer-sized word and the memory behind it (src/pointer.rs). -/
inductive PtrOp where
  | zeroed          -- `zeroed()`: a zero-sized value out of nothing
  | readThrough     -- `ptr::read((*self.0.get()).assume_init())`: the word is an address
  | readInline      -- `ptr::read((*self.0.get()).as_ptr() as *const T)`: the word's own bytes are the value
  | writeThrough    -- `ptr::write((*self.0.get()).assume_init(), d)`
  | storeInline     -- `*self.0.get() = store_as_kanal_ptr(..)`
  | forget          -- `forget(d)`
  | copyThrough     -- `ptr::copy_nonoverlapping(d, (*self.0.get()).assume_init(), 1)`
  | wordAddr | wordInline | wordUninit      -- what the constructors put into the word
  | copyBytes       -- `store_as_kanal_ptr`: copy the value's bytes into the word
  | unreachable
  | unknown (text : String)
  deriving DecidableEq, Repr, Inhabited

/-- Protocol trees.  The word operated on is the signal's `state` (values 0 UNLOCKED, 1 TERMINATED, 2 LOCKED,
    3 LOCKED_STARVATION) in `Signal` functions and the lock flag (0 / 1) in `RawMutexLock` functions. -/
inductive PAct where
  | done (r : Option Bool)                       -- the call returns (`none`: unit / `Poll::Pending`)
  | unreachable                                  -- `unreachable!()`
  | diverge                                      -- a loop ran out of fuel
  | load (o : Ord) (k : Nat → PAct)
  | store (v : Nat) (o : Ord) (k : PAct)
  | cas (exp new : Nat) (so fo : Ord) (k : Option Nat → PAct)   -- `none`: success; `some v`: failure, `v` observed
  | fence (o : Ord) (k : PAct)
  | eff (e : PEff) (k : PAct)
  | askB (q : PAskB) (k : Bool → PAct)
  deriving Inhabited

namespace PAct

/-- `for _ in 0..n { body }`: `body next`; `next` and what follows the loop are thunks, so that a tree is only built as
    far as it is walked (the trees are also executed: `Main/ProtoSearch.lean`). -/
def forN : Nat → ((Unit → PAct) → PAct) → (Unit → PAct) → PAct
  | 0, _, rest => rest ()
  | n + 1, body, rest => body (fun _ => forN n body rest)

/-- `loop` / `while` with loop-carried state and fuel. -/
def loopN {σ : Type} : Nat → (σ → (σ → PAct) → PAct) → σ → PAct
  | 0, _, _ => .diverge
  | n + 1, body, s => body s (loopN n body)

@[simp] theorem forN_zero (body : (Unit → PAct) → PAct) (rest : Unit → PAct) : forN 0 body rest = rest () := rfl
theorem forN_succ (n : Nat) (body : (Unit → PAct) → PAct) (rest : Unit → PAct) :
    forN (n + 1) body rest = body (fun _ => forN n body rest) := rfl
theorem loopN_succ {σ : Type} (n : Nat) (body : σ → (σ → PAct) → PAct) (s : σ) : loopN (n + 1) body s = body s (loopN n body) := rfl

end PAct
end Kanal
