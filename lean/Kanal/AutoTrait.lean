/-
  Kanal.AutoTrait — side model for C20: Rust's auto-trait derivation for `Send` / `Sync` over
  kanal's types.  kanal's own ADTs (fields) and `unsafe impl`s (with their bounds) come from the
  extractor (`Generated.adtFields`, `Generated.unsafeAutoImpls`); the rules for std / lock_api
  types are a fixed table (trusted; cross-checked against rustc by the compiler probes).

  The verdict depends on the message type `T` only through the two bits `T: Send`, `T: Sync`.
-/
import Kanal.Generated

namespace Kanal.AutoTrait
open Kanal.Generated

inductive Tr where
  | send | sync
  deriving DecidableEq, Repr

/-- Does an `unsafe impl` decide the trait for this ADT?  `some b`: yes, and the impl applies iff `b`
    (its bounds on `T` are met); when its bounds are not met the type does NOT get the auto trait
    (an explicit impl, even a conditional one, switches the structural derivation off). -/
def implVerdict (impls : List (Adt × Bool × Bool × Bool)) (a : Adt) (tr : Tr) (sendT syncT : Bool) : Option Bool :=
  match impls.find? (fun i => i.1 == a && i.2.1 == (tr == .send)) with
  | some (_, _, needSend, needSync) => some ((!needSend || sendT) && (!needSync || syncT))
  | none => none

/-- Auto-trait verdict for a type, with `fuel` bounding the unfolding of ADT definitions. -/
def holds (fields : List (Adt × List Ty)) (impls : List (Adt × Bool × Bool × Bool)) (sendT syncT : Bool) :
    Nat → Tr → Ty → Bool
  | 0, _, _ => false
  | fuel + 1, tr, t =>
    let h := holds fields impls sendT syncT fuel
    match t with
    | .param => (match tr with | .send => sendT | .sync => syncT)
    | .prim | .atomic | .waker | .thread | .phantomPinned => true
    | .rawPtr _ => false                                   -- `*const X`, `*mut X`: neither Send nor Sync
    | .unsafeCell x => (match tr with | .send => h .send x | .sync => false)
    | .maybeUninit x | .option x | .vecDeque x | .box x | .pin x => h tr x
    | .arc x => h .send x && h .sync x                      -- Arc<X>: Send ⇔ Sync ⇔ X: Send + Sync
    | .ref x => h .sync x                                   -- &X: Send ⇔ X: Sync; Sync ⇔ X: Sync
    | .mutex raw x =>                                       -- lock_api::Mutex<R, X>: Send ⇔ R: Send ∧ X: Send; Sync ⇔ R: Sync ∧ X: Send
      (match tr with | .send => h .send raw && h .send x | .sync => h .sync raw && h .send x)
    | .adt a =>
      (match implVerdict impls a tr sendT syncT with
       | some b => b
       | none =>
         match fields.find? (fun f => f.1 == a) with
         | some (_, fs) => fs.all (fun f => h tr f)
         | none => false)
    | .unknown => false

/-- Verdict for kanal's types as extracted from the source, with ample fuel. -/
def verdict (sendT syncT : Bool) (tr : Tr) (a : Adt) : Bool :=
  holds adtFields unsafeAutoImpls sendT syncT 12 tr (.adt a)

/-- `Unpin` for a type; `unpinT` = `T: Unpin`.  std's rules (trusted table, cross-checked by the compiler probes):
    `PhantomPinned` is the one type that is not; raw pointers, `&`, `Box`, `Arc`, `VecDeque` are `Unpin` whatever they point to;
    `UnsafeCell`, `MaybeUninit`, `Option`, `Pin`, lock_api's `Mutex` are structural; an ADT is `Unpin` iff it has an explicit impl
    or all its fields are. -/
def unpinHolds (fields : List (Adt × List Ty)) (impls : List Adt) (unpinT : Bool) : Nat → Ty → Bool
  | 0, _ => false
  | fuel + 1, t =>
    let h := unpinHolds fields impls unpinT fuel
    match t with
    | .param => unpinT
    | .prim | .atomic | .waker | .thread => true
    | .phantomPinned => false
    | .rawPtr _ | .ref _ | .box _ | .arc _ | .vecDeque _ => true
    | .unsafeCell x | .maybeUninit x | .option x | .pin x => h x
    | .mutex raw x => h raw && h x
    | .adt a =>
      impls.contains a ||
      (match fields.find? (fun f => f.1 == a) with
       | some (_, fs) => fs.all h
       | none => false)
    | .unknown => false

def verdictUnpin (unpinT : Bool) (a : Adt) : Bool := unpinHolds adtFields unpinImpls unpinT 12 (.adt a)

def handles : List Adt := [.Sender, .AsyncSender, .Receiver, .AsyncReceiver]
def futures : List Adt := [.SendFuture, .ReceiveFuture, .ReceiveStream]

end Kanal.AutoTrait
