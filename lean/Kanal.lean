import Kanal.Basic
import Kanal.Chan
import Kanal.Spec
import Kanal.Seq
import Kanal.Lemmas.ChanInv
