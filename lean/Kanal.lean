-- This module serves as the root of the `Kanal` library.
-- Import modules here that should be built as part of the library.
import Kanal.Basic
