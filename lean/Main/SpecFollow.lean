/-
  specfollow — trace-guided acceptor for the channel model `Spec.step`.

  Input (stdin): the event lines of one scheduled run of the real crate (harness `conc`).
  The run's critical sections are totally ordered by the channel lock, so the trace fixes the order
  of the model's atomic steps:

    t call <op>            thread t starts an API call
    t lock ok …            t enters a critical section  → t's next lock-taking move of the model
                           (the call's own step; for a blocked timed call: the expiry / cancel step)
    t st aX … | t cas aX … ok (new value ≠ STARVATION)
                           t writes a final state into a waiter's signal → `finalize` of the waiter
                           t claimed in its last step (in claim order)
    t ret <res>            the call returns: remaining lock-free moves of t are flushed (completion of a
                           blocked call after its signal became final, calls that take no lock), and the
                           model's result must be `res`

  A small set of model configurations is carried (the only non-determinism is the clock: whether
  `recv_timeout`'s pre-check or an expiry fired); a `ret` keeps the configurations whose result agrees.
  ACCEPT if a configuration survives the whole trace.  Unlike `specexplore` this needs no search, so it
  follows runs of any length.  It is part of the correspondence check, never a proof.
-/
import Main.SpecOps
import Std.Data.HashSet
open Kanal

structure Cfg where
  s    : State
  ts   : List Thr
  fm   : FutMap
  pend : List (Option String)      -- per thread: the call begun and not yet applied to the model
  noLock : List Bool := []         -- per thread: the current call never enters a critical section (known from the trace)

def tidOf (t : String) : Nat := (t.drop 1).toString.toNat!

def getT (c : Cfg) (k : Nat) : Thr := c.ts.getD k {}

def setT (c : Cfg) (k : Nat) (t : Thr) : Cfg := { c with ts := c.ts.set k t }

def pendOf (c : Cfg) (k : Nat) : Option String := (c.pend.getD k none)

/-- Apply the pending call of thread `k` (all clock alternatives).  Empty list: not enabled now. -/
def applyOp (c : Cfg) (k : Nat) (op : String) : List Cfg :=
  let t := getT c k
  let mk (r : State × Thr × FutMap) : Cfg := { c with s := r.1, ts := c.ts.set k r.2.1, fm := r.2.2, pend := c.pend.set k none }
  let base := match opStep c.s t c.fm op with
    | some r => [mk r]
    | none => []
  if op.startsWith "recvt" then
    match step Variant.good c.s (.recv .timed true) with
    | some (_, .blocked _) => base
    | some (s1, r) =>
      let newly := (claimedSet s1).filter (fun i => !(claimedSet c.s).contains i)
      base ++ [mk (s1, { t with fin := newly, cur := some (resStr r) }, c.fm)]
    | none => base
  else base

/-- `lock ok` by thread `k`. Returns successors and an anomaly note. -/
def onLock (c : Cfg) (k : Nat) : List Cfg × Option String :=
  let t := getT c k
  match pendOf c k with
  | some op =>
    match applyOp c k op with
    | [] => ([c], none)          -- own signal claimed and not yet final (poll / drop of a future): the move is taken later
    | l => (l, none)
  | none =>
    match t.waiting with
    | some (i, timed, m, opt) =>
      if timed then
        match step Variant.good c.s (.expire i) with
        | some (_, .blocked _) => ([c], none)
        | some (s1, r) =>
          ([{ c with s := s1, ts := c.ts.set k { t with waiting := none, cur := some (resStr r ++ (if m != 0 then keptStr s1 m opt else "")) } }], none)
        | none => ([c], none)
      else ([c], some "critical section entered by a blocked untimed call")
    | none => ([c], some "second critical section inside a call already applied")

/-- A load of a signal state by thread `k` inside a call that takes no lock: a poll that decides on the state
    word alone (same waker, or already final).  The move is taken here if it is enabled.
    `nonFinal`: the value loaded is LOCKED / STARVATION.  The model finalises the waiters of a `close` / last
    drop and the sender moved into the buffer by a refill atomically with that critical section, the code does it
    inside the section: a lock-free poll may still see its signal non-final while another thread's section is open
    (`otherInCS`).  It then answers Pending on the same waker, which changes nothing. -/
def onLoad (c : Cfg) (k : Nat) (nonFinal otherInCS : Bool) : List Cfg :=
  match pendOf c k with
  | some op =>
    if c.noLock.getD k false && (op.startsWith "polls" || op.startsWith "pollr") then
      let early : List Cfg :=
        match op.splitOn " " with
        | [_, f, w] =>
          match lookupFut c.fm f.toNat! with
          | some i =>
            match c.s.sigs[i]? with
            | some g =>
              if nonFinal && otherInCS && g.fut == .waiting && g.st != .pending && g.waker == some w.toNat! then
                [setT { c with pend := c.pend.set k none } k { getT c k with cur := some "pending" }]
              else []
            | none => []
          | none => []
        | _ => []
      if !early.isEmpty then early else
      match applyOp c k op with
      | [] => [c]
      | l => l
    else [c]
  | none => [c]

/-- a final store by thread `k`. -/
def onFinal (c : Cfg) (k : Nat) : Cfg × Bool :=
  let t := getT c k
  match t.fin with
  | i :: rest =>
    match step Variant.good c.s (.finalize i) with
    | some (s1, _) => ({ c with s := s1, ts := c.ts.set k { t with fin := rest } }, true)
    | none => (setT c k { t with fin := rest }, true)
  | [] => (c, false)

/-- Zero-sized payloads carry no tag: the model's value names are erased before comparing. -/
def eraseTags (r : String) : String :=
  let isNum (x : String) : Bool := !x.isEmpty && x.all Char.isDigit
  if r.startsWith "v" && isNum (r.drop 1).toString then "v0"
  else if r.startsWith "drained " then
    match r.splitOn " [" with
    | [a, b] =>
      let inner := (b.dropEnd 1).toString
      let els := if inner.isEmpty then [] else (inner.splitOn ",").map fun _ => "0"
      a ++ " [" ++ ",".intercalate els ++ "]"
    | _ => r
  else r

/-- `ret res` by thread `k`: flush and compare. -/
def onRet (zst : Bool) (c : Cfg) (k : Nat) (res : String) : List Cfg × String :=
  -- 0. calls the channel model does not see
  let isRt := match (pendOf c k).map (·.splitOn " ") with
    | some ["try", _, _, "1"] => true
    | some ["tryr", "1"] => true
    | _ => false
  if isRt && c.noLock.getD k false then
    -- realtime variant that found the lock busy: no critical section, answers not-done (MutexM's business)
    if res == "false" || res == "false kept" || res == "none" then
      ([{ c with pend := c.pend.set k none }], "")
    else ([], s!"realtime call took no lock but answered {res}")
  else
  if ((pendOf c k).getD "").startsWith "conv" then
    -- conversions are the identity on the channel; the harness refuses one while a future borrows the handle
    if res == "ok" || res == "panic" then ([{ c with pend := c.pend.set k none }], "") else ([], s!"conversion answered {res}")
  else
  -- 1. the call itself, if it has not been applied yet
  let cs := match pendOf c k with
    | some op => applyOp c k op
    | none => [c]
  if cs.isEmpty then ([], s!"the call is not enabled in the model at its return") else
  -- 2. completion of a blocked call
  let cs2 := cs.filterMap fun c =>
    let t := getT c k
    match t.waiting with
    | some (i, _, m, opt) =>
      match step Variant.good c.s (.complete i) with
      | some (s1, r) => some { c with s := s1, ts := c.ts.set k { t with waiting := none, cur := some (resStr r ++ (if m != 0 then keptStr s1 m opt else "")) } }
      | none => none
    | none => some c
  if cs2.isEmpty then ([], s!"the blocked call returned but the model's waiter cannot complete (not finalised)") else
  -- 3. nothing claimed may be left unfinalised
  let cs3 := cs2.filter fun c => (getT c k).fin.isEmpty
  if cs3.isEmpty then ([], s!"the call returned while a waiter it claimed has not been given its final state") else
  -- 4. results agree
  let canon (r : String) : String := if zst then eraseTags r else r
  let cs4 := cs3.filter fun c => ((getT c k).cur).map canon == some res
  if cs4.isEmpty then
    let got := cs3.map fun c => ((getT c k).cur).getD "-"
    ([], s!"result {res} but the model answers {got}")
  else
    (cs4.map fun c => let t := getT c k; setT c k { t with cur := none, results := res :: t.results }, "")

def dedupKey (c : Cfg) : String :=
  s!"{c.s.chan.queue}{c.s.chan.recvBlocking}{c.s.chan.waitList}{c.s.chan.recvCount}{c.s.chan.sendCount}{c.s.sigs.length}" ++
  String.join (c.s.sigs.map fun g => s!"{repr g.st}{g.slot}{g.alive}{g.claimed}") ++
  String.join (c.ts.map fun t => s!"[{t.waiting.map (·.1)};{t.fin};{t.cur}]") ++ s!"{c.pend}"

def dedup (l : List Cfg) : List Cfg :=
  (l.foldl (fun (acc : List (String × Cfg)) c => let k := dedupKey c; if acc.any (·.1 == k) then acc else (k, c) :: acc) []).reverse.map (·.2)

def main : IO UInt32 := do
  let stdin ← IO.getStdin
  let mut lines : List String := []
  repeat
    let l ← stdin.getLine
    if l.isEmpty then break
    lines := l.trimAscii.toString :: lines
  lines := lines.reverse
  let hdr := (lines.filter (fun l => l.startsWith "H ")).headD "H cap=0 threads=1"
  let tok (name : String) : String :=
    (((hdr.splitOn " ").filter (fun t => t.startsWith (name ++ "="))).headD (name ++ "=0")).splitOn "=" |>.getD 1 "0"
  let cap : Option Nat := if tok "cap" == "u" then none else (tok "cap").toNat?
  let n := (tok "threads").toNat!
  let zst := tok "class" == "z"
  let mut s := State.init cap
  for _ in [1:n] do
    match step Variant.good s (.clone .send) with | some (s1, _) => s := s1 | none => pure ()
    match step Variant.good s (.clone .recv) with | some (s1, _) => s := s1 | none => pure ()
  -- first pass: which calls enter a critical section (index of the `call` line → Bool)
  let arr := lines.toArray
  let mut lockCalls : Std.HashSet Nat := {}
  let mut openCall : List (String × Nat) := []
  for i in [0:arr.size] do
    let p := arr[i]!.splitOn " "
    let tid := p.headD ""
    match p.getD 1 "" with
    | "call" => openCall := (tid, i + 1) :: openCall.filter (·.1 != tid)
    | "lock" => if p.getD 2 "" == "ok" then
        match openCall.find? (·.1 == tid) with
        | some (_, ci) => lockCalls := lockCalls.insert ci
        | none => pure ()
    | _ => pure ()
  let mut cfgs : List Cfg := [{ s := s, ts := List.replicate n {}, fm := [], pend := List.replicate n none, noLock := List.replicate n false }]
  let mut idx := 0
  let mut steps := 0
  let mut rets := 0
  let mut ignoredFinals := 0
  let mut maxCfgs := 1
  let mut inCS : Option Nat := none
  for l in lines do
    idx := idx + 1
    let p := l.splitOn " "
    let tid := p.headD ""
    if !(tid.startsWith "t") || tid.length < 2 then continue
    let k := tidOf tid
    if k ≥ n then continue
    let kind := p.getD 1 ""
    let args := p.drop 2
    match kind with
    | "call" =>
      let op := " ".intercalate args
      let nl := !lockCalls.contains idx
      cfgs := cfgs.map fun c => { c with pend := c.pend.set k (some op), noLock := c.noLock.set k nl }
    | "unlock" => inCS := none
    | "lock" =>
      if args.headD "" == "ok" then
        inCS := some k
        let mut next : List Cfg := []
        let mut why := ""
        for c in cfgs do
          let (l2, an) := onLock c k
          match an with
          | some a => why := a           -- this configuration cannot explain the critical section: it dies
          | none => next := next ++ l2
        if next.isEmpty then
          IO.println s!"REJECT Spec event {idx} ({l}): {why}"
          return 1
        cfgs := dedup next
        steps := steps + 1
    | "ld" =>
      let v := args.getD 2 ""
      let other := match inCS with | some h => h != k | none => false
      cfgs := dedup (cfgs.flatMap fun c => onLoad c k (v == "2" || v == "3") other)
    | "st" | "cas" =>
      let isFinal := kind == "st" || (args.getD 5 "" == "ok" && args.getD 4 "" != "3")
      if isFinal then
        let r := cfgs.map fun c => onFinal c k
        if r.all (fun x => !x.2) then ignoredFinals := ignoredFinals + 1
        cfgs := r.map (·.1)
        steps := steps + 1
    | "ret" =>
      let res := " ".intercalate args
      let mut next : List Cfg := []
      let mut why := ""
      for c in cfgs do
        let (l2, w) := onRet zst c k res
        next := next ++ l2
        if w != "" then why := w
      if next.isEmpty then
        IO.println s!"REJECT Spec event {idx} ({l}): {why}"
        return 1
      cfgs := dedup next
      rets := rets + 1
    | _ => pure ()
    if cfgs.length > maxCfgs then maxCfgs := cfgs.length
  IO.println s!"ACCEPT spec_steps={steps} calls={rets} max_configs={maxCfgs} ignored_final_stores={ignoredFinals}"
  return 0
