/-
  protocheck — trace validation: replays the lock events and the per-signal events of one
  scheduled run of the real crate (output of harness `conc`, on stdin) through the Lean protocol
  models `MutexM.step` and `SigM.step`, instantiated with the orderings and constants extracted
  from the source (`Tie.mutexOrds`, `Tie.mutexConsts`, `C07.treeOrds`).

  An event that is not an enabled step of the model, an ordering argument that differs from the
  extracted one, or a final model state with `racy` / `dangling` set is reported:
      REJECT <model> <where> <why>
  otherwise   ACCEPT mutex_steps=<n> signals=<k> signal_steps=<m>
  Because the acceptor is the very `step` function the theorems are about, an accepted trace is a
  model execution; what this adds is evidence that the implementation's behaviour is inside the
  model on the sampled programs and schedules.
-/
import Kanal.Props.C07
import Kanal.Props.C17
open Kanal

def ordOf (s : String) : Option Ord :=
  match s with
  | "rlx" => some .relaxed | "acq" => some .acquire | "rel" => some .release
  | "acqrel" => some .acqRel | "sc" => some .seqCst | _ => none

def tidNum (t : String) : Nat := (t.drop 1).toNat!

structure Ev where
  idx  : Nat
  tid  : String
  kind : String
  args : List String

def parseLine (i : Nat) (l : String) : Option Ev :=
  match l.splitOn " " with
  | t :: k :: rest =>
    if t.startsWith "t" && (t.drop 1).isNat then some ⟨i, t, k, rest⟩ else none
  | _ => none

/-! ### Lock acceptor (MutexM) -/


structure MAcc where
  st     : MutexM.State := {}
  steps  : Nat := 0
  err    : Option String := none
  rt     : List (String × Bool) := []      -- per thread: is the current call a *_realtime one

def mstep (a : MAcc) (par1 : Bool) (e : MutexM.Ev) (ctx : String) : MAcc :=
  match a.err with
  | some _ => a
  | none =>
    match MutexM.step Tie.mutexOrds Tie.mutexConsts par1 a.st e with
    | some s' => { a with st := s', steps := a.steps + 1 }
    | none => { a with err := some s!"{ctx}: {repr e} is not enabled in MutexM (pc = {repr (a.st.pc (match e with | .tryLock t | .lock t | .cas t | .aux t | .touch t | .unlock t | .retry t => t))})" }

def failM (a : MAcc) (msg : String) : MAcc := if a.err.isSome then a else { a with err := some msg }

def isRt (a : MAcc) (tid : String) : Bool := ((a.rt.find? (·.1 == tid)).map (·.2)).getD false

/-- Feed one trace event to the lock model. -/
def mutexFeed (par1 : Bool) (a : MAcc) (e : Ev) : MAcc :=
  let t := tidNum e.tid
  let ctx := s!"event {e.idx} ({e.tid} {e.kind} {" ".intercalate e.args})"
  match e.kind with
  | "call" =>
    let rt := match e.args with
      | ["try", _, _, "1"] => true
      | ["tryr", "1"] => true
      | _ => false
    { a with rt := (e.tid, rt) :: a.rt.filter (·.1 != e.tid) }
  | "lock" =>
    -- orderings as extracted
    let okOrd := match e.args with
      | [_, so, fo] => ordOf so == some Tie.mutexOrds.lockSucc && ordOf fo == some Tie.mutexOrds.lockFail
      | _ => false
    if !okOrd then failM a s!"{ctx}: CAS orderings differ from the extracted ones" else
    -- a thread at `idle` starts `try_lock` / `lock` now; a `gaveUp` thread first returns
    let a := match a.st.pc t with
      | .gaveUp => mstep a par1 (.retry t) ctx
      | _ => a
    let a := match a.st.pc t with
      | .idle => mstep a par1 (if isRt a e.tid then .tryLock t else .lock t) ctx
      | .spin p => if p.isCond then a else
          -- non-`cond` loop positions are passed by yields / spin hints / sleeps: none was seen
          failM a s!"{ctx}: a lock attempt where spin_cond is at a non-cond position {repr p}"
      | _ => a
    let a := mstep a par1 (.cas t) ctx
    -- the CAS result must be the model's
    match a.err with
    | some _ => a
    | none =>
      let got := e.args.headD "" == "ok"
      let model := a.st.pc t == .inCS
      if got != model then { a with err := some s!"{ctx}: CAS {e.args.headD ""} but the model's lock word says otherwise" } else a
  | "yield" | "spin" | "sleep" =>
    match a.st.pc t with
    | .spin p => if p.isCond then a /- extra hints inside `yield_now`'s spin_wait: one model step covers them -/
                 else mstep a par1 (.aux t) ctx
    | _ => a
  | "guard" => mstep a par1 (.touch t) ctx
  | "unlock" =>
    let okOrd := match e.args with
      | [o] => ordOf o == some Tie.mutexOrds.unlock
      | _ => false
    if !okOrd then failM a s!"{ctx}: unlock ordering differs from the extracted one"
    else mstep a par1 (.unlock t) ctx
  | _ => a

/-! ### Signal acceptor (SigM) -/

structure SigInst where
  addr   : String
  owner  : String
  peer   : String
  st     : SigM.State
  steps  : Nat := 0
  closed : Bool := false          -- `dead` seen

def stOf (v : String) : SigM.St :=
  match v with
  | "0" => .unlocked | "1" => .terminated | "2" => .locked | _ => .starvation

structure SAcc where
  insts   : List SigInst := []
  err     : Option String := none
  total   : Nat := 0
  curOp   : List (String × String) := []         -- per thread: current call's first token
  pending : List (String × List String) := []    -- per thread: unaddressed peer events buffered until the next cas/st
  lastFin : List (String × String) := []         -- per thread: address it finalised last (for unpark / wake)
  skipped : List String := []
  curSig  : List (String × String) := []         -- per thread: the signal it loaded last (the one it is waiting on)
  curFut  : List (String × Nat) := []            -- per thread: future id of its current poll call                    -- lifetimes without a peer that have ended (per address)

def failS (a : SAcc) (msg : String) : SAcc := if a.err.isSome then a else { a with err := some msg }

def kindOfOp (op : String) : SigM.WKind :=
  if op == "send" || op == "recv" then .sync
  else if op == "sendt" || op == "sendot" || op == "recvt" then .timed
  else .async

def sstep (a : SAcc) (addr : String) (e : SigM.Ev) (ctx : String) : SAcc :=
  match a.err with
  | some _ => a
  | none =>
    match a.insts.find? (fun i => i.addr == addr && !i.closed) with
    | none => a
    | some inst =>
      match SigM.step C07.treeOrds inst.st e with
      | some s' =>
        { a with total := a.total + 1,
                 insts := a.insts.map (fun i => if i.addr == addr && !i.closed then { i with st := s', steps := i.steps + 1 } else i) }
      | none => { a with err := some s!"{ctx}: {repr e} is not enabled in SigM for signal {addr} (wpc = {repr inst.st.wpc}, ppc = {repr inst.st.ppc}, st = {repr inst.st.st})" }

def instOf (a : SAcc) (addr : String) : Option SigInst := a.insts.find? (fun i => i.addr == addr && !i.closed)

/-- Facts about one signal gathered in a first pass: who owns it, who finalises it, with what, payload touched. -/
structure SigInfo where
  addr : String
  owner : String := ""
  peer : String := ""
  fin : SigM.St := .unlocked
  payload : Bool := false
  kind : SigM.WKind := .sync
  hasPeer : Bool := false

def firstPass (evs : List Ev) : List SigInfo := Id.run do
  let mut infos : List SigInfo := []          -- open lifetimes first
  let mut done : List SigInfo := []
  let mut curOp : List (String × String) := []
  let mut accessed : List (String × Bool) := []   -- per thread: saw pread/pwrite since its last cas/st
  let mut cloned : List (String × Bool) := []     -- per thread: cloned a waker since its last cas/st
  for e in evs do
    match e.kind with
    | "call" =>
      curOp := (e.tid, e.args.headD "") :: curOp.filter (·.1 != e.tid)
      accessed := accessed.filter (·.1 != e.tid)
      cloned := cloned.filter (·.1 != e.tid)
    | "pread" | "pwrite" | "pcopy" => accessed := (e.tid, true) :: accessed.filter (·.1 != e.tid)
    | "wclone" => cloned := (e.tid, true) :: cloned.filter (·.1 != e.tid)
    | "ld" =>
      let a := e.args.headD ""
      if !(infos.any (·.addr == a)) then
        let op := ((curOp.find? (·.1 == e.tid)).map (·.2)).getD ""
        infos := { addr := a, owner := e.tid, kind := kindOfOp op } :: infos
      else
        infos := infos.map fun i => if i.addr == a && i.owner == "" then
          { i with owner := e.tid, kind := kindOfOp (((curOp.find? (·.1 == e.tid)).map (·.2)).getD "") } else i
    | "st" | "cas" =>
      let a := e.args.headD ""
      let isStarv := e.kind == "cas" && e.args.getD 4 "" == "3"
      if !(infos.any (·.addr == a)) then infos := { addr := a } :: infos
      if !isStarv then
        let fin := if e.kind == "st" then stOf (e.args.getD 2 "0") else stOf (e.args.getD 4 "0")
        let acc := ((accessed.find? (·.1 == e.tid)).map (·.2)).getD false
        let cl := ((cloned.find? (·.1 == e.tid)).map (·.2)).getD false
        -- the arm the peer takes tells the waiter's kind when the owner never looked at its signal before
        infos := infos.map fun i => if i.addr == a then
          { i with peer := e.tid, fin := fin, payload := i.payload || acc, hasPeer := true,
                   kind := if i.owner == "" then (if e.kind == "st" && cl then .async else .sync) else i.kind } else i
        if e.kind == "st" || e.args.getD 5 "" == "ok" then cloned := cloned.filter (·.1 != e.tid)
        -- the access flag is consumed by the cas; a failed cas is followed by st on the same signal
        if e.kind == "st" || e.args.getD 5 "" == "ok" then accessed := (e.tid, false) :: accessed.filter (·.1 != e.tid)
      else
        infos := infos.map fun i => if i.addr == a then { i with owner := e.tid } else i
    | "dead" =>
      let a := e.args.headD ""
      match infos.find? (·.addr == a) with
      | some i => done := { i with owner := if i.owner == "" then e.tid else i.owner } :: done; infos := infos.filter (·.addr != a)
      | none => pure ()
    | _ => pure ()
  return done.reverse ++ infos

/-- Open a model instance at the first mention of an address whose lifetime has a peer. -/
def ensureInst (infos : List (Nat × SigInfo)) (a : SAcc) (addr : String) : SAcc :=
  match instOf a addr with
  | some _ => a
  | none =>
    match infos.find? (fun (k, i) => i.addr == addr && k == (a.insts.filter (·.addr == addr)).length + (a.skipped.filter (· == addr)).length) with
    | some (_, i) =>
      if i.hasPeer then
        { a with insts := a.insts ++ [{ addr := addr, owner := i.owner, peer := i.peer, st := SigM.init i.kind i.fin i.payload }] }
      else a
    | none => a

/-- Second pass: feed the events to the per-signal model instances, in trace order. -/
def sigFeed (infos : List (Nat × SigInfo)) (a : SAcc) (e : Ev) : SAcc :=
  let ctx := s!"event {e.idx} ({e.tid} {e.kind} {" ".intercalate e.args})"
  let myOp := ((a.curOp.find? (·.1 == e.tid)).map (·.2)).getD ""
  -- the signal this thread is currently waiting on (as owner)
  let ownSig : Option SigInst :=
    match (a.curSig.find? (·.1 == e.tid)).map (·.2) with
    | some ad => a.insts.find? (fun i => i.addr == ad && i.owner == e.tid && !i.closed && i.st.wpc != .gone)
    | none => none
  match e.kind with
  | "call" =>
    -- a waiter's use of its result (final read of its slot) happens in the call that saw the final state:
    -- accesses made by later calls of the thread are peer accesses to somebody else's signal
    { a with pending := a.pending.filter (·.1 != e.tid), curSig := a.curSig.filter (·.1 != e.tid),
             curOp := (e.tid, e.args.headD "") :: a.curOp.filter (·.1 != e.tid),
             curFut := (e.tid, ((e.args.getD 1 "").toNat?).getD 1000000) :: a.curFut.filter (·.1 != e.tid) }
  | "ld" =>
    let addr := e.args.headD ""
    let a := ensureInst infos a addr
    let a := { a with curSig := (e.tid, addr) :: a.curSig.filter (·.1 != e.tid) }
    match instOf a addr with
    | none => a
    | some inst =>
      if inst.owner != e.tid then failS a s!"{ctx}: a thread other than the owner loads the signal state" else
      let ord := ordOf (e.args.getD 1 "")
      let v := stOf (e.args.getD 2 "")
      -- the value read must be the model's state word
      if v != inst.st.st then failS a s!"{ctx}: load returned {e.args.getD 2 ""} but the model's state word is {repr inst.st.st}" else
      match inst.st.wpc with
      | .spin =>
        if ord == some C07.treeOrds.spinLoad then sstep a addr .wLoad ctx
        else if inst.st.kind == .timed && ord == some C07.treeOrds.timeoutFinal then
          sstep (sstep a addr .wGiveUpSpin ctx) addr .wTimedFinal ctx
        else failS a s!"{ctx}: load ordering not the extracted one for a spin-phase load"
      | .timedIsTerm =>
        if ord == some .relaxed then sstep a addr .wTimedIsTerm ctx else failS a s!"{ctx}: is_terminated ordering"
      | .parkLoad =>
        if ord == some C07.treeOrds.parkLoad then sstep a addr .wParkLoad ctx else failS a s!"{ctx}: park-loop load ordering"
      | .done _ _ => a          -- e.g. `is_terminated()` after the result is known: no further protocol step
      | _ => failS a s!"{ctx}: unexpected load at waiter position {repr inst.st.wpc}"
  | "fence" =>
    match ownSig with
    | some inst =>
      match inst.st.wpc with
      | .fence _ =>
        if ordOf (e.args.headD "") == some C07.treeOrds.spinFence then sstep a inst.addr .wFence ctx
        else failS a s!"{ctx}: fence ordering differs from the extracted one"
      | _ => a
    | none => a
  | "cur" =>
    match ownSig with
    | some inst => if inst.st.wpc == .spin && inst.st.kind == .sync then sstep a inst.addr .wGiveUpSpin ctx else a
    | none => a
  | "cell" =>
    match ownSig with
    | some inst => if inst.st.wpc == .publish then sstep a inst.addr .wPublish ctx else a
    | none => a
  | "park" =>
    match ownSig with
    | some inst => if inst.st.wpc == .park then sstep a inst.addr .wPark ctx else failS a s!"{ctx}: park at waiter position {repr inst.st.wpc}"
    | none => a
  | "unparked" =>
    match ownSig with
    -- the park token belongs to the THREAD: a token left behind by the late `unpark` of an earlier operation's peer (that operation had
    -- already returned, e.g. after a spurious wake-up) is, for the signal waited on now, a spurious return
    | some inst => if inst.st.wpc == .parked then sstep a inst.addr (.wUnparked (e.args.headD "" == "spurious" || !inst.st.token)) ctx else a
    | none => a
  | "pread" | "pwrite" | "pcopy" =>
    -- by the owner: its own final read; by anybody else: buffered until we know which signal it finalises
    match ownSig with
    | some inst => if (match inst.st.wpc with | .done _ _ => true | _ => false) then a
                   else { a with pending := (e.tid, "access" :: ((a.pending.find? (·.1 == e.tid)).map (·.2)).getD []) :: a.pending.filter (·.1 != e.tid) }
    | none => { a with pending := (e.tid, "access" :: ((a.pending.find? (·.1 == e.tid)).map (·.2)).getD []) :: a.pending.filter (·.1 != e.tid) }
  | "wclone" =>
    -- a registration clone by the owner under the lock is not a protocol step; a clone by a peer precedes its store
    let myFut := ((a.curFut.find? (·.1 == e.tid)).map (·.2)).getD 1000000
    if (myOp == "polls" || myOp == "pollr") && (e.args.headD "").toNat! / 4 == myFut then a
    else { a with pending := (e.tid, "clone" :: ((a.pending.find? (·.1 == e.tid)).map (·.2)).getD []) :: a.pending.filter (·.1 != e.tid) }
  | "tclone" =>
    { a with pending := (e.tid, "handle" :: ((a.pending.find? (·.1 == e.tid)).map (·.2)).getD []) :: a.pending.filter (·.1 != e.tid) }
  | "cas" =>
    let addr := e.args.headD ""
    let so := ordOf (e.args.getD 1 ""); let fo := ordOf (e.args.getD 2 "")
    let toStarv := e.args.getD 4 "" == "3"
    let a := ensureInst infos a addr
    match instOf a addr with
    | none => a          -- a lifetime without peer events (never shared, or cancelled under the lock): nothing to replay
    | some inst =>
      if toStarv then
        if so != some C07.treeOrds.starvCasSucc || fo != some C07.treeOrds.starvCasFail then
          failS a s!"{ctx}: starvation CAS orderings differ from the extracted ones"
        else
          let a := sstep a addr .wCasStarv ctx
          match a.err, instOf a addr with
          | none, some i2 =>
            let ok := e.args.getD 5 "" == "ok"
            if ok != (i2.st.wpc == .park) then failS a s!"{ctx}: CAS result differs from the model" else a
          | _, _ => a
      else
        if so != some C07.treeOrds.wakeCasSucc || fo != some C07.treeOrds.wakeCasFail then
          failS a s!"{ctx}: wake CAS orderings differ from the extracted ones"
        else
          let pend := ((a.pending.find? (·.1 == e.tid)).map (·.2)).getD []
          let a := { a with pending := a.pending.filter (·.1 != e.tid) }
          let a := if pend.contains "access" then sstep a addr .pAccess ctx else a
          let a := sstep a addr .pCas ctx
          let a := { a with lastFin := (e.tid, addr) :: a.lastFin.filter (·.1 != e.tid) }
          match a.err, instOf a addr with
          | none, some i2 =>
            let ok := e.args.getD 5 "" == "ok"
            if ok != (i2.st.ppc == .done) then failS a s!"{ctx}: wake CAS result differs from the model" else a
          | _, _ => a
  | "st" =>
    let addr := e.args.headD ""
    let a := ensureInst infos a addr
    match instOf a addr with
    | none => a
    | some inst =>
      let pend := ((a.pending.find? (·.1 == e.tid)).map (·.2)).getD []
      let a := { a with pending := a.pending.filter (·.1 != e.tid), lastFin := (e.tid, addr) :: a.lastFin.filter (·.1 != e.tid) }
      let ord := ordOf (e.args.getD 1 "")
      if inst.st.kind == .async then
        if ord != some C07.treeOrds.wakeStoreAsync then failS a s!"{ctx}: store ordering differs from the extracted one" else
        let a := if pend.contains "access" then sstep a addr .pAccess ctx else a
        if !pend.contains "clone" then failS a s!"{ctx}: final store to a future's signal without a prior clone of its waker" else
        sstep (sstep a addr .pCloneWaker ctx) addr .pStoreAsync ctx
      else
        if ord != some C07.treeOrds.wakeStoreSync then failS a s!"{ctx}: store ordering differs from the extracted one" else
        if !pend.contains "handle" then failS a s!"{ctx}: final store to a parked waiter's signal without a prior clone of its thread handle" else
        sstep (sstep a addr .pReadHandle ctx) addr .pStoreSync ctx
  | "unpark" =>
    match (a.lastFin.find? (·.1 == e.tid)).map (·.2) with
    | some addr =>
      match instOf a addr with
      | some inst => if inst.st.ppc == .unpark then sstep a addr .pUnpark ctx else a
      | none => a
    | none => a
  | "wwake" =>
    match (a.lastFin.find? (·.1 == e.tid)).map (·.2) with
    | some addr =>
      match instOf a addr with
      | some inst => if inst.st.ppc == .wake then sstep a addr .pWake ctx else a
      | none => a
    | none => a
  | "dead" =>
    let addr := e.args.headD ""
    match instOf a addr with
    | none => { a with skipped := addr :: a.skipped }
    | some inst =>
      let a := match inst.st.wpc with
        | .done _ _ => sstep a addr .wFinish ctx
        | _ => a
      match a.err, instOf a addr with
      | none, some i2 =>
        if i2.st.wpc != .gone then
          failS a s!"{ctx}: the owner's frame dies while the model's waiter is at {repr i2.st.wpc} (it has not seen a final state)"
        else { a with insts := a.insts.map (fun i => if i.addr == addr && !i.closed then { i with closed := true } else i) }
      | _, _ => a
  | _ => a

def main : IO UInt32 := do
  let stdin ← IO.getStdin
  let mut acc : List String := []
  repeat
    let l ← stdin.getLine
    if l.isEmpty then break
    acc := l.trimAscii.toString :: acc
  let lines := acc.reverse
  let hdr := (lines.filter (·.startsWith "H ")).headD ""
  let par1 := (hdr.splitOn " ").contains "par=1"
  let evs := (List.range lines.length).filterMap fun i => parseLine i (lines.getD i "")
  -- lock model
  let m := evs.foldl (mutexFeed par1) ({} : MAcc)
  match m.err with
  | some e => IO.println s!"REJECT MutexM {e}"; return 1
  | none => pure ()
  if m.st.racy then IO.println "REJECT MutexM the model's run has a racy access to the protected state"; return 1
  -- signal model
  let infos := firstPass evs
  let numbered := (List.range infos.length).map (fun k =>
    ((infos.take k).filter (·.addr == (infos.getD k { addr := "" }).addr) |>.length, infos.getD k { addr := "" }))
  let s := evs.foldl (sigFeed numbered) ({} : SAcc)
  match s.err with
  | some e =>
    IO.println s!"REJECT SigM {e}"
    for i in s.insts do
      IO.eprintln s!"  inst {i.addr} owner={i.owner} peer={i.peer} closed={i.closed} steps={i.steps} kind={repr i.st.kind} fin={repr i.st.fin} payload={i.st.payload} st={repr i.st.st} wpc={repr i.st.wpc} ppc={repr i.st.ppc}"
    return 1
  | none => pure ()
  for i in s.insts do
    if i.st.racy then IO.println s!"REJECT SigM signal {i.addr}: the model's run has a data race (an access not ordered by the observed release/acquire edges)"; return 1
    if i.st.dangling then IO.println s!"REJECT SigM signal {i.addr}: the peer touched the signal after the owner's frame was gone"; return 1
  IO.println s!"ACCEPT mutex_steps={m.steps} signals={s.insts.length} signal_steps={s.total}"
  return 0
