/-
  specexplore — the outcome set of a small multi-threaded program under the model: every
  interleaving of the model's atomic steps (critical sections, final stores, completions,
  expiries at any point) that respects each thread's program order.  Used by the C03 check as the
  linearizability oracle: the per-thread results the real crate produced under some schedule
  must be one of the outcomes printed here.  A search aid, never a proof.

  input (stdin): the program format of harness `conc`:   cap=<n|u> …   /   t0: op;op   /   t1: …
  output: one line per distinct outcome:  t0:res,res|t1:res,…   (STUCK marks a thread blocked for ever)
-/
import Kanal.Seq
import Std.Data.HashSet
open Kanal

structure Thr where
  ops      : List String := []
  waiting  : Option (Nat × Bool × Msg × Bool) := none  -- blocked call: signal, timed?, message (0 = receive), option variant?
  fin      : List Nat := []                     -- waiters this thread has claimed and must still finalise
  cur      : Option String := none              -- result of the current call, reported once `fin` is empty
  results  : List String := []                  -- reversed
  futs     : List Nat := []                     -- its alive futures (torn down at the end)
  hs       : Nat := 1                           -- its sender handles
  hr       : Nat := 1
  tornDown : Bool := false

def claimedSet (s : State) : List Nat :=
  (List.range s.sigs.length).filter fun i => match s.sigs[i]? with | some g => g.claimed | none => false

def keptStr (s : State) (m : Msg) (opt : Bool) : String := if opt && s.cust m = .callerS then " kept" else ""

/-- Global future-name table: program-chosen future ids → model SigIds. -/
abbrev FutMap := List (Nat × Nat)

def lookupFut (fm : FutMap) (f : Nat) : Option Nat := (fm.find? (·.1 == f)).map (·.2)

/-- One thread-level move: returns new state, new thread, new future map, or `none` if not enabled. -/
def opStep (s : State) (t : Thr) (fm : FutMap) (txt : String) : Option (State × Thr × FutMap) :=
  let v := Variant.good
  let finish (s1 : State) (r : String) (t : Thr) (fm : FutMap) : Option (State × Thr × FutMap) :=
    let newly := (claimedSet s1).filter (fun i => !(claimedSet s).contains i)
    some (s1, { t with fin := newly, cur := some r }, fm)
  match txt.splitOn " " with
  | ["send", m] =>
    let m := m.toNat!
    match step v s (.send m .sync false) with
    | some (s1, .blocked i) => some (s1, { t with waiting := some (i, false, m, false) }, fm)
    | some (s1, r) => finish s1 (resStr r) t fm
    | none => none
  | ["sendt", m, _] =>
    let m := m.toNat!
    match step v s (.send m .timed false) with
    | some (s1, .blocked i) => some (s1, { t with waiting := some (i, true, m, false) }, fm)
    | some (s1, r) => finish s1 (resStr r) t fm
    | none => none
  | ["sendot", m, _] =>
    let m := m.toNat!
    match step v s (.send m .timed true) with
    | some (s1, .blocked i) => some (s1, { t with waiting := some (i, true, m, true) }, fm)
    | some (s1, r) => finish s1 (resStr r ++ keptStr s1 m true) t fm
    | none => none
  | ["try", m, o, rt] =>
    let m := m.toNat!
    match step v s (.trySend m (o == "1") (rt == "1")) with
    | some (s1, r) => finish s1 (resStr r ++ keptStr s1 m (o == "1")) t fm
    | none => none
  | ["recv"] =>
    match step v s (.recv .sync false) with
    | some (s1, .blocked i) => some (s1, { t with waiting := some (i, false, 0, false) }, fm)
    | some (s1, r) => finish s1 (resStr r) t fm
    | none => none
  | ["recvt", _] =>
    match step v s (.recv .timed false) with
    | some (s1, .blocked i) => some (s1, { t with waiting := some (i, true, 0, false) }, fm)
    | some (s1, r) => finish s1 (resStr r) t fm
    | none => none
  | ["tryr", rt] =>
    match step v s (.tryRecv (rt == "1")) with
    | some (s1, r) => finish s1 (resStr r) t fm
    | none => none
  | ["drain", _] =>
    match step v s .drain with
    | some (s1, r) => finish s1 (resStr r) t fm
    | none => none
  | ["asend", f, m] =>
    match step v s (.newSendFut m.toNat!) with
    | some (s1, .num i) => finish s1 "ok" { t with futs := t.futs ++ [i] } ((f.toNat!, i) :: fm)
    | _ => none
  | ["arecv", f] =>
    match step v s (.newRecvFut false) with
    | some (s1, .num i) => finish s1 "ok" { t with futs := t.futs ++ [i] } ((f.toNat!, i) :: fm)
    | _ => none
  | ["stream", f] =>
    match step v s (.newRecvFut true) with
    | some (s1, .num i) => finish s1 "ok" { t with futs := t.futs ++ [i] } ((f.toNat!, i) :: fm)
    | _ => none
  | ["polls", f, w] =>
    match lookupFut fm f.toNat! with
    | none => none
    | some i =>
      match step v s (.pollSend i w.toNat!) with
      | some (_, .spin) => none           -- busy-waits for the peer's final store: not enabled yet
      | some (s1, r) => finish s1 (resStr r) t fm
      | none => none
  | ["pollr", f, w] =>
    match lookupFut fm f.toNat! with
    | none => none
    | some i =>
      match step v s (.pollRecv i w.toNat!) with
      | some (_, .spin) => none
      | some (s1, r) => finish s1 (resStr r) t fm
      | none => none
  | ["dropsf", f] =>
    match lookupFut fm f.toNat! with
    | none => none
    | some i =>
      match step v s (.dropSendFut i) with
      | some (_, .spin) => none
      | some (s1, _) => finish s1 "ok" { t with futs := t.futs.erase i } fm
      | none => none
  | ["droprf", f] =>
    match lookupFut fm f.toNat! with
    | none => none
    | some i =>
      match step v s (.dropRecvFut i) with
      | some (_, .spin) => none
      | some (s1, _) => finish s1 "ok" { t with futs := t.futs.erase i } fm
      | none => none
  | ["clone", sd, _] =>
    let side := if sd == "s" then Role.send else Role.recv
    match step v s (.clone side) with
    | some (s1, _) => finish s1 "ok" (if sd == "s" then { t with hs := t.hs + 1 } else { t with hr := t.hr + 1 }) fm
    | none => none
  | ["drop", sd] =>
    let side := if sd == "s" then Role.send else Role.recv
    if (if sd == "s" then t.hs else t.hr) == 0 then finish s "panic" t fm
    else match step v s (.dropHandle side) with
      | some (s1, _) => finish s1 "ok" (if sd == "s" then { t with hs := t.hs - 1 } else { t with hr := t.hr - 1 }) fm
      | none => none
  | ["conv", _] => finish s "ok" t fm
  | ["close", _] =>
    match step v s .close with
    | some (s1, r) => finish s1 (resStr r) t fm
    | none => none
  | [name, sd] =>
    let side := if sd == "s" then Role.send else Role.recv
    let lab : Option Label := match name with
      | "len" => some .len | "isempty" => some .isEmpty | "isfull" => some .isFull | "capacity" => some .capacity
      | "isbounded" => some .isBounded | "scount" => some .senderCount | "rcount" => some .receiverCount
      | "isclosed" => some .isClosed | "isdisc" => some (.isDisconnected side) | "isterm" => some .isTerminated
      | _ => none
    match lab with
    | none => none
    | some l => match step v s l with
      | some (s1, r) => finish s1 (resStr r) t fm
      | none => none
  | _ => none

/-- Teardown ops of a thread at the end of its list (as `conc` does: futures, then handles newest first). -/
def teardown (t : Thr) (fm : FutMap) (s : State) : List String :=
  let isSend (i : Nat) : Bool := match s.sigs[i]? with | some g => g.role == .send | none => true
  let nameOf (i : Nat) : Nat := ((fm.find? (·.2 == i)).map (·.1)).getD 0
  let futOps := (t.futs.filter isSend).map (fun i => s!"dropsf {nameOf i}") ++
                (t.futs.filter (fun i => !isSend i)).map (fun i => s!"droprf {nameOf i}")
  futOps ++ List.replicate t.hs "drop s" ++ List.replicate t.hr "drop r"

/-- All moves of thread `t` in state `s`. -/
def moves (s : State) (t : Thr) (fm : FutMap) : List (State × Thr × FutMap) :=
  let v := Variant.good
  match t.fin with
  | i :: rest =>
    match step v s (.finalize i) with
    | some (s1, _) => [(s1, { t with fin := rest }, fm)]
    | none => [(s, { t with fin := rest }, fm)]
  | [] =>
    match t.cur with
    | some r => [(s, { t with cur := none, results := r :: t.results }, fm)]
    | none =>
      match t.waiting with
      | some (i, timed, m, opt) =>
        let comp := match step v s (.complete i) with
          | some (s1, r) => [(s1, { t with waiting := none, cur := some (resStr r ++ (if m != 0 then keptStr s1 m opt else "")) }, fm)]
          | none => []
        let exp := if timed then
            match step v s (.expire i) with
            | some (_, .blocked _) => []
            | some (s1, r) => [(s1, { t with waiting := none, cur := some (resStr r ++ (if m != 0 then keptStr s1 m opt else "")) }, fm)]
            | none => []
          else []
        comp ++ exp
      | none =>
        match t.ops with
        | op :: rest =>
          let base := match opStep s { t with ops := rest } fm op with
            | some r => [r]
            | none => []
          -- `recv_timeout`: the pre-check `now > deadline` may already be true (the clock is the environment)
          if op.startsWith "recvt" then
            match step v s (.recv .timed true) with
            | some (_, .blocked _) => base
            | some (s1, r) =>
              let t1 : Thr := { t with ops := rest }
              let newly := (claimedSet s1).filter (fun i => !(claimedSet s).contains i)
              base ++ [(s1, { t1 with fin := newly, cur := some (resStr r) }, fm)]
            | none => base
          else base
        | [] =>
          if t.tornDown then []
          else [(s, { t with ops := teardown t fm s, tornDown := true }, fm)]

def thrDone (t : Thr) : Bool := t.ops.isEmpty && t.tornDown && t.waiting.isNone && t.fin.isEmpty && t.cur.isNone

def outcome (ts : List Thr) : String :=
  "|".intercalate ((List.range ts.length).map fun k =>
    match ts[k]? with
    | some t => s!"t{k}:" ++ ",".intercalate (t.results.reverse ++ (if thrDone t then [] else ["STUCK"]))
    | none => "")

def sigKey (g : Sig) : String :=
  s!"{repr g.role}{repr g.kind}{g.opt}{repr g.st}{g.slot}{g.waker}{repr g.fut}{g.isStream}{g.streamEnded}{g.alive}{g.claimed}"

def stateKey (s : State) (ts : List Thr) (fm : FutMap) : String :=
  s!"{s.chan.queue}{s.chan.recvBlocking}{s.chan.waitList}{s.chan.recvCount}{s.chan.sendCount}{s.liveS}{s.liveR}" ++
  String.join (s.sigs.map sigKey) ++ "#" ++
  String.join (ts.map fun t => s!"[{t.ops.length};{t.waiting.map (·.1)};{t.fin};{t.cur};{t.results};{t.futs};{t.hs};{t.hr};{t.tornDown}]") ++
  s!"{fm}"

partial def explore (limit : Nat) (stack : List (State × List Thr × FutMap)) (seen : Std.HashSet String)
    (outs : Std.HashSet String) (n : Nat) : Std.HashSet String × Nat × Bool :=
  match stack with
  | [] => (outs, n, true)
  | (s, ts, fm) :: rest =>
    if n ≥ limit then (outs, n, false)
    else
      let key := stateKey s ts fm
      if seen.contains key then explore limit rest seen outs n
      else
        let seen := seen.insert key
        let succ := (List.range ts.length).flatMap fun k =>
          match ts[k]? with
          | none => []
          | some t => (moves s t fm).map fun (s1, t1, fm1) => (s1, ts.set k t1, fm1)
        if succ.isEmpty then explore limit rest seen (outs.insert (outcome ts)) (n + 1)
        else explore limit (succ ++ rest) seen outs (n + 1)

def main (args : List String) : IO UInt32 := do
  let stdin ← IO.getStdin
  let mut lines : List String := []
  repeat
    let l ← stdin.getLine
    if l.isEmpty then break
    lines := lines ++ [l.trimAscii.toString]
  let limit := (args[0]? >>= String.toNat?).getD 400000
  let hdr := (lines.filter (fun l => l.startsWith "cap=")).headD "cap=0"
  let capTok := ((hdr.splitOn " ").filter (fun t => t.startsWith "cap=")).headD "cap=0"
  let capS := (capTok.splitOn "=").getD 1 "0"
  let cap : Option Nat := if capS == "u" then none else capS.toNat?
  let thr := lines.filter (fun l => l.startsWith "t" && (l.splitOn ": ").length == 2)
  let n := thr.length
  -- every logical thread owns one sender and one receiver handle
  let mut s := State.init cap
  for _ in [1:n] do
    match step Variant.good s (.clone .send) with | some (s1, _) => s := s1 | none => pure ()
    match step Variant.good s (.clone .recv) with | some (s1, _) => s := s1 | none => pure ()
  let ts : List Thr := thr.map fun l =>
    let ops := ((l.splitOn ": ").getD 1 "").splitOn ";" |>.filter (· ≠ "")
    { ops := ops }
  let (outs, visited, complete) := explore limit [(s, ts, [])] {} {} 0
  for o in outs.toList do IO.println o
  IO.eprintln s!"visited {visited} states, {outs.size} outcomes, complete={complete}"
  return (if complete then 0 else 3)
