/-
  specexplore — the outcome set of a small multi-threaded program under the model (see Main/SpecOps.lean
  for the thread-level moves): every interleaving of the model's atomic steps that respects each thread's
  program order.  Linearizability oracle of the C03 check.  A search aid, never a proof.
-/
import Main.SpecOps
import Std.Data.HashSet
open Kanal

/-- Teardown ops of a thread at the end of its list (as `conc` does: futures, then handles newest first). -/
def teardown (t : Thr) (fm : FutMap) (s : State) : List String :=
  let isSend (i : Nat) : Bool := match s.sigs[i]? with | some g => g.role == .send | none => true
  let nameOf (i : Nat) : Nat := ((fm.find? (·.2 == i)).map (·.1)).getD 0
  let futOps := (t.futs.filter isSend).map (fun i => s!"dropsf {nameOf i}") ++
                (t.futs.filter (fun i => !isSend i)).map (fun i => s!"droprf {nameOf i}")
  futOps ++ List.replicate t.hs "drop s" ++ List.replicate t.hr "drop r"

/-- All moves of thread `t` in state `s`. -/
def moves (s : State) (t : Thr) (fm : FutMap) : List (State × Thr × FutMap) :=
  let v := Variant.good
  match t.fin with
  | i :: rest =>
    match step v s (.finalize i) with
    | some (s1, _) => [(s1, { t with fin := rest }, fm)]
    | none => [(s, { t with fin := rest }, fm)]
  | [] =>
    match t.cur with
    | some r => [(s, { t with cur := none, results := r :: t.results }, fm)]
    | none =>
      match t.waiting with
      | some (i, timed, m, opt) =>
        let comp := match step v s (.complete i) with
          | some (s1, r) => [(s1, { t with waiting := none, cur := some (resStr r ++ (if m != 0 then keptStr s1 m opt else "")) }, fm)]
          | none => []
        let exp := if timed then
            match step v s (.expire i) with
            | some (_, .blocked _) => []
            | some (s1, r) => [(s1, { t with waiting := none, cur := some (resStr r ++ (if m != 0 then keptStr s1 m opt else "")) }, fm)]
            | none => []
          else []
        comp ++ exp
      | none =>
        match t.ops with
        | op :: rest =>
          let base := match opStep s { t with ops := rest } fm op with
            | some r => [r]
            | none => []
          -- `recv_timeout`: the pre-check `now > deadline` may already be true (the clock is the environment)
          if op.startsWith "recvt" then
            match step v s (.recv .timed true) with
            | some (_, .blocked _) => base
            | some (s1, r) =>
              let t1 : Thr := { t with ops := rest }
              let newly := (claimedSet s1).filter (fun i => !(claimedSet s).contains i)
              base ++ [(s1, { t1 with fin := newly, cur := some (resStr r) }, fm)]
            | none => base
          else base
        | [] =>
          if t.tornDown then []
          else [(s, { t with ops := teardown t fm s, tornDown := true }, fm)]

def thrDone (t : Thr) : Bool := t.ops.isEmpty && t.tornDown && t.waiting.isNone && t.fin.isEmpty && t.cur.isNone

def outcome (ts : List Thr) : String :=
  "|".intercalate ((List.range ts.length).map fun k =>
    match ts[k]? with
    | some t => s!"t{k}:" ++ ",".intercalate (t.results.reverse ++ (if thrDone t then [] else ["STUCK"]))
    | none => "")

def sigKey (g : Sig) : String :=
  s!"{repr g.role}{repr g.kind}{g.opt}{repr g.st}{g.slot}{g.waker}{repr g.fut}{g.isStream}{g.streamEnded}{g.alive}{g.claimed}"

def stateKey (s : State) (ts : List Thr) (fm : FutMap) : String :=
  s!"{s.chan.queue}{s.chan.recvBlocking}{s.chan.waitList}{s.chan.recvCount}{s.chan.sendCount}{s.liveS}{s.liveR}" ++
  String.join (s.sigs.map sigKey) ++ "#" ++
  String.join (ts.map fun t => s!"[{t.ops.length};{t.waiting.map (·.1)};{t.fin};{t.cur};{t.results};{t.futs};{t.hs};{t.hr};{t.tornDown}]") ++
  s!"{fm}"

partial def explore (limit : Nat) (stack : List (State × List Thr × FutMap)) (seen : Std.HashSet String)
    (outs : Std.HashSet String) (n : Nat) : Std.HashSet String × Nat × Bool :=
  match stack with
  | [] => (outs, n, true)
  | (s, ts, fm) :: rest =>
    if n ≥ limit then (outs, n, false)
    else
      let key := stateKey s ts fm
      if seen.contains key then explore limit rest seen outs n
      else
        let seen := seen.insert key
        let succ := (List.range ts.length).flatMap fun k =>
          match ts[k]? with
          | none => []
          | some t => (moves s t fm).map fun (s1, t1, fm1) => (s1, ts.set k t1, fm1)
        if succ.isEmpty then explore limit rest seen (outs.insert (outcome ts)) (n + 1)
        else explore limit (succ ++ rest) seen outs (n + 1)

def main (args : List String) : IO UInt32 := do
  let stdin ← IO.getStdin
  let mut lines : List String := []
  repeat
    let l ← stdin.getLine
    if l.isEmpty then break
    lines := lines ++ [l.trimAscii.toString]
  let limit := (args[0]? >>= String.toNat?).getD 400000
  let hdr := (lines.filter (fun l => l.startsWith "cap=")).headD "cap=0"
  let capTok := ((hdr.splitOn " ").filter (fun t => t.startsWith "cap=")).headD "cap=0"
  let capS := (capTok.splitOn "=").getD 1 "0"
  let cap : Option Nat := if capS == "u" then none else capS.toNat?
  let thr := lines.filter (fun l => l.startsWith "t" && (l.splitOn ": ").length == 2)
  let n := thr.length
  -- every logical thread owns one sender and one receiver handle
  let mut s := State.init cap
  for _ in [1:n] do
    match step Variant.good s (.clone .send) with | some (s1, _) => s := s1 | none => pure ()
    match step Variant.good s (.clone .recv) with | some (s1, _) => s := s1 | none => pure ()
  let ts : List Thr := thr.map fun l =>
    let ops := ((l.splitOn ": ").getD 1 "").splitOn ";" |>.filter (· ≠ "")
    { ops := ops }
  let (outs, visited, complete) := explore limit [(s, ts, [])] {} {} 0
  for o in outs.toList do IO.println o
  IO.eprintln s!"visited {visited} states, {outs.size} outcomes, complete={complete}"
  return (if complete then 0 else 3)
