/- traittable — prints the auto-trait model's verdicts in the format of harness/src/bin/probes.rs. -/
import Kanal.AutoTrait
open Kanal.AutoTrait Kanal.Generated

def adtName : Adt → String
  | .Sender => "Sender" | .AsyncSender => "AsyncSender" | .Receiver => "Receiver" | .AsyncReceiver => "AsyncReceiver"
  | .SendFuture => "SendFuture" | .ReceiveFuture => "ReceiveFuture" | .ReceiveStream => "ReceiveStream"
  | _ => "?"

def main (args : List String) : IO Unit := do
  if args == ["unpin"] then
    for u in [true, false] do
      for a in handles ++ futures do
        IO.println s!"{adtName a} {u} unpin {verdictUnpin u a}"
    return
  for (s, y) in [(true, true), (true, false), (false, true), (false, false)] do
    for a in handles ++ futures do
      IO.println s!"{adtName a} {s} {y} send {verdict s y .send a}"
      IO.println s!"{adtName a} {s} {y} sync {verdict s y .sync a}"
