/-
  treediff — where does the TRANSLATED lock-holding code (Kanal/GenCode.lean, regenerated from /repo/src on every run) differ from
  the fine-grained model (Kanal/Fine.lean)?  Used when a `TieCode` obligation breaks and no failing run of the real crate was found:
  both trees are walked in lockstep over a grid of logical states (bound at every `lock`), both answers of every Boolean question,
  sample values for the others; the first divergence is printed as a concrete history: the state found at each lock, the answers
  given, and what the code does next versus what the model does.  A search aid and a source of replays, never a proof.

  usage: treediff        (one line per function: `ok <fn>` or `DIFF <fn>: <history>`)
-/
import Kanal.GenCode
import Kanal.Fine
open Kanal

def showChan (c : Chan) : String :=
  s!"[queue={c.queue} waitList={c.waitList} recvBlocking={c.recvBlocking} cap={c.capacity} recv_count={c.recvCount} send_count={c.sendCount}]"

/-- the grid of logical states tried at every `lock` -/
def chans (me : SigId) : List Chan := Id.run do
  let mut out : List Chan := []
  for q in [[], [1], [1, 2]] do
    for wl in [[], [me], [5], [5, me], [5, 6]] do
      for rb in [false, true] do
        for cap in [none, some 0, some 1, some 2] do
          for (rc, sc) in [(1, 1), (0, 0), (0, 1), (1, 0), (2, 1)] do
            out := { queue := q, recvBlocking := rb, waitList := wl, capacity := cap, recvCount := rc, sendCount := sc } :: out
  return out.reverse

def nodeName : Act → String
  | .ret r => s!"return {reprStr r}"
  | .diverge => "diverge (loop out of fuel)"
  | .lock _ => "acquire_internal (blocking lock)"
  | .tryLock _ => "try_acquire_internal"
  | .unlock c _ => s!"release the lock publishing {showChan c}"
  | .eff e _ => s!"effect {reprStr e}"
  | .askB q _ => s!"ask {reprStr q}"
  | .askM q _ => s!"ask {reprStr q}"
  | .askP _ => "sig.poll()"

/-- first divergence of two trees (code, model), with the history that leads to it -/
partial def diff (me : SigId) (fuel : Nat) (hist : List String) : Act → Act → Option String
  | a, b =>
    if fuel = 0 then none else
    let bad := some (s!"after {hist.reverse}: the code does `{nodeName a}`, the model does `{nodeName b}`")
    match a, b with
    | .ret r1, .ret r2 => if r1 == r2 then none else bad
    | .diverge, .diverge => none
    | .lock k1, .lock k2 =>
      (chans me).findSome? fun c => diff me (fuel - 1) (s!"lock finds {showChan c}" :: hist) (k1 c) (k2 c)
    | .tryLock k1, .tryLock k2 =>
      (diff me (fuel - 1) ("try_lock busy" :: hist) (k1 none) (k2 none)).orElse fun _ =>
      (chans me).findSome? fun c => diff me (fuel - 1) (s!"try_lock finds {showChan c}" :: hist) (k1 (some c)) (k2 (some c))
    | .unlock c1 k1, .unlock c2 k2 =>
      if c1 == c2 then diff me (fuel - 1) ("unlock" :: hist) k1 k2 else bad
    | .eff e1 k1, .eff e2 k2 =>
      if e1 == e2 then diff me (fuel - 1) (reprStr e1 :: hist) k1 k2 else bad
    | .askB q1 k1, .askB q2 k2 =>
      if q1 == q2 then
        (diff me (fuel - 1) (s!"{reprStr q1}=true" :: hist) (k1 true) (k2 true)).orElse fun _ =>
         diff me (fuel - 1) (s!"{reprStr q1}=false" :: hist) (k1 false) (k2 false)
      else bad
    | .askM q1 k1, .askM q2 k2 =>
      if q1 == q2 then diff me (fuel - 1) (s!"{reprStr q1}=77" :: hist) (k1 77) (k2 77) else bad
    | .askP k1, .askP k2 =>
      [none, some true, some false].findSome? fun r => diff me (fuel - 1) (s!"sig.poll()={reprStr r}" :: hist) (k1 r) (k2 r)
    | _, _ => bad

instance : BEq Res := ⟨fun a b => decide (a = b)⟩
instance : BEq Chan := ⟨fun a b => decide (a = b)⟩
instance : BEq Eff := ⟨fun a b => decide (a = b)⟩
instance : BEq AskB := ⟨fun a b => decide (a = b)⟩
instance : BEq AskM := ⟨fun a b => decide (a = b)⟩

def ctxs : List Ctx :=
  [ { m := 9, me := 3, st := .zero }, { m := 9, me := 3, st := .waiting }, { m := 9, me := 3, st := .done },
    { m := 9, me := 3, st := .done, isStream := true }, { m := 9, me := 3, st := .zero, isStream := true, terminated := true },
    { m := 9, me := 3, st := .zero, vlen := 0, vcap := 0 }, { m := 9, me := 3, st := .zero, vlen := 2, vcap := 8 } ]

/-- the pairs of `Kanal/TieCode.lean` -/
def pairs : List (String × (Ctx → Act) × (Ctx → Act)) :=
  [ ("Drop_Sender_drop", Gen.Drop_Sender_drop, fun _ => Fine.dropHandle .send), ("Drop_AsyncSender_drop", Gen.Drop_AsyncSender_drop, fun _ => Fine.dropHandle .send),
    ("Drop_Receiver_drop", Gen.Drop_Receiver_drop, fun _ => Fine.dropHandle .recv), ("Drop_AsyncReceiver_drop", Gen.Drop_AsyncReceiver_drop, fun _ => Fine.dropHandle .recv),
    ("Clone_Sender_clone", Gen.Clone_Sender_clone, fun _ => Fine.cloneHandle .send), ("Clone_AsyncSender_clone", Gen.Clone_AsyncSender_clone, fun _ => Fine.cloneHandle .send),
    ("Sender_clone_async", Gen.Sender_clone_async, fun _ => Fine.cloneHandle .send), ("AsyncSender_clone_sync", Gen.AsyncSender_clone_sync, fun _ => Fine.cloneHandle .send),
    ("Clone_Receiver_clone", Gen.Clone_Receiver_clone, fun _ => Fine.cloneHandle .recv), ("Clone_AsyncReceiver_clone", Gen.Clone_AsyncReceiver_clone, fun _ => Fine.cloneHandle .recv),
    ("Receiver_clone_async", Gen.Receiver_clone_async, fun _ => Fine.cloneHandle .recv), ("AsyncReceiver_clone_sync", Gen.AsyncReceiver_clone_sync, fun _ => Fine.cloneHandle .recv),
    ("is_bounded", Gen.shared_impl_is_bounded, fun _ => Fine.observe (fun c => .bool c.isBounded)), ("len", Gen.shared_impl_len, fun _ => Fine.observe (fun c => .num c.len)),
    ("is_empty", Gen.shared_impl_is_empty, fun _ => Fine.observe (fun c => .bool c.isEmpty)), ("is_full", Gen.shared_impl_is_full, fun _ => Fine.observe (fun c => .bool c.isFull)),
    ("capacity", Gen.shared_impl_capacity, fun _ => Fine.observe (fun c => .cap c.capacity)), ("receiver_count", Gen.shared_impl_receiver_count, fun _ => Fine.observe (fun c => .num c.recvCount)),
    ("sender_count", Gen.shared_impl_sender_count, fun _ => Fine.observe (fun c => .num c.sendCount)), ("is_closed", Gen.shared_impl_is_closed, fun _ => Fine.observe (fun c => .bool c.closed)),
    ("is_disconnected(send)", Gen.shared_send_impl_is_disconnected, fun _ => Fine.observe (fun c => .bool c.isDisconnectedS)),
    ("is_disconnected(recv)", Gen.shared_recv_impl_is_disconnected, fun _ => Fine.observe (fun c => .bool c.isDisconnectedR)),
    ("is_terminated", Gen.shared_recv_impl_is_terminated, fun _ => Fine.observe (fun c => .bool c.isTerminated)),
    ("close", Gen.shared_impl_close, fun _ => Fine.close),
    ("try_send", Gen.shared_send_impl_try_send, Fine.trySend false false), ("try_send_option", Gen.shared_send_impl_try_send_option, Fine.trySend true false),
    ("try_send_realtime", Gen.shared_send_impl_try_send_realtime, Fine.trySend false true), ("try_send_option_realtime", Gen.shared_send_impl_try_send_option_realtime, Fine.trySend true true),
    ("send", Gen.Sender_send, Fine.send false false), ("send_timeout", Gen.Sender_send_timeout, Fine.send true false), ("send_option_timeout", Gen.Sender_send_option_timeout, Fine.send true true),
    ("try_recv", Gen.shared_recv_impl_try_recv, fun _ => Fine.tryRecv false), ("try_recv_realtime", Gen.shared_recv_impl_try_recv_realtime, fun _ => Fine.tryRecv true),
    ("recv", Gen.Receiver_recv, Fine.recv false), ("recv_timeout", Gen.Receiver_recv_timeout, Fine.recv true), ("drain_into", Gen.shared_recv_impl_drain_into, Fine.drain),
    ("SendFuture::drop", Gen.Drop_SendFuture_drop, Fine.dropSendFut), ("ReceiveFuture::drop", Gen.Drop_ReceiveFuture_drop, Fine.dropRecvFut),
    ("SendFuture::poll", Gen.Future_SendFuture_poll, Fine.pollSend), ("ReceiveFuture::poll", Gen.Future_ReceiveFuture_poll, Fine.pollRecv),
    ("ReceiveStream::poll_next", Gen.Stream_ReceiveStream_poll_next, Fine.pollNext) ]

def main : IO Unit := do
  for (name, g, f) in pairs do
    let r := ctxs.findSome? fun x => (diff x.me 60 [s!"call with m={x.m} own signal={x.me} future state={reprStr x.st} is_stream={x.isStream} terminated={x.terminated} vec.len={x.vlen} vec.capacity={x.vcap}"] (g x) (f x))
    match r with
    | none => IO.println s!"ok {name}"
    | some d => IO.println s!"DIFF {name}: {d}"
  -- the methods of ChannelInternal against the Chan functions, on the grid
  let probe (r : Res) : Act := .ret r
  for c in chans 3 do
    let checks : List (String × Act × Act) :=
      [ ("next_send", Gen.ChannelInternal_next_send c fun c r => .unlock c (probe (.num (r.getD 99))), .unlock c.nextSend.1 (probe (.num (c.nextSend.2.getD 99)))),
        ("next_recv", Gen.ChannelInternal_next_recv c fun c r => .unlock c (probe (.num (r.getD 99))), .unlock c.nextRecv.1 (probe (.num (c.nextRecv.2.getD 99)))),
        ("push_send", Gen.ChannelInternal_push_send c 3 fun c _ => .unlock c (probe .unit), .unlock (c.pushWaiter 3) (probe .unit)),
        ("push_recv", Gen.ChannelInternal_push_recv c 3 fun c _ => .unlock c (probe .unit), .unlock (c.pushWaiter 3) (probe .unit)),
        ("cancel_send_signal", Gen.ChannelInternal_cancel_send_signal c 3 fun c r => .unlock c (probe (.bool r)), .unlock (c.cancel .send 3).1 (probe (.bool (c.cancel .send 3).2))),
        ("cancel_recv_signal", Gen.ChannelInternal_cancel_recv_signal c 3 fun c r => .unlock c (probe (.bool r)), .unlock (c.cancel .recv 3).1 (probe (.bool (c.cancel .recv 3).2))),
        ("send_signal_exists", Gen.ChannelInternal_send_signal_exists c 3 fun c r => .unlock c (probe (.bool r)), .unlock c (probe (.bool (c.sigExists .send 3)))),
        ("recv_signal_exists", Gen.ChannelInternal_recv_signal_exists c 3 fun c r => .unlock c (probe (.bool r)), .unlock c (probe (.bool (c.sigExists .recv 3)))),
        ("terminate_signals", Gen.ChannelInternal_terminate_signals c fun c _ => .unlock c (probe .unit), Fine.terminate c.waitList (.unlock { c with waitList := [] } (probe .unit))) ]
    for (name, a, b) in checks do
      match diff 3 40 [s!"ChannelInternal::{name} on {showChan c} (sig = 3)"] a b with
      | some d => IO.println s!"DIFF ChannelInternal::{name}: {d}"; return
      | none => pure ()
  IO.println "ok ChannelInternal methods on the grid"
  let c0 := Gen.ChannelInternal_new true 5
  let c1 := Gen.ChannelInternal_new false 5
  if c0 == Chan.new (some 5) && c1 == Chan.new none then IO.println "ok ChannelInternal::new"
  else IO.println s!"DIFF ChannelInternal::new: new(true,5) = {showChan c0}, new(false,5) = {showChan c1}"
