/- movertest — random search for a counterexample to "the final store of a hand-off commutes to the left of every
   step that is not the waiter's own" (the statement proved in Kanal/Lemmas/Mover.lean).  A search aid only. -/
import Kanal.Seq
open Kanal

def lcg (x : UInt64) : UInt64 := x * 6364136223846793005 + 1442695040888963407


def labels (s : State) (rng : UInt64) : List Label :=
  let m := s.offered.length + 1
  let idx := List.range s.sigs.length
  let w := (rng >>> 40).toNat % 3
  [.send m .sync false, .send m .timed false, .send m .timed true, .trySend m false false, .trySend m true true,
   .recv .sync false, .recv .timed false, .recv .timed true, .tryRecv false, .drain,
   .newSendFut m, .newRecvFut false, .newRecvFut true,
   .clone .send, .clone .recv, .dropHandle .send, .dropHandle .recv, .close] ++
  idx.flatMap (fun i => [.complete i, .expire i, .finalize i, .finalize i, .pollSend i w, .dropSendFut i, .pollRecv i w, .dropRecvFut i])


def ownLabel (i : Nat) : Label → Bool
  | .complete j | .expire j | .finalize j | .pollSend j _ | .pollRecv j _ | .dropSendFut j | .dropRecvFut j => i == j
  | _ => false

def sameUpToWakes (a b : State) (ms : List Nat) : Bool :=
  a.chan == b.chan && a.sigs == b.sigs && a.offered == b.offered && a.accepted == b.accepted && a.delivered == b.delivered &&
  a.removed == b.removed && a.recvd == b.recvd && a.dropped == b.dropped && a.liveS == b.liveS && a.liveR == b.liveR &&
  a.closedOnce == b.closedOnce && ms.all (fun m => a.cust m == b.cust m) &&
  a.wakes.length == b.wakes.length && a.wakes.all (fun w => a.wakes.count w == b.wakes.count w)

partial def mwalk (n : Nat) (rng : UInt64) (s : State) (trace : List String) (cnt : Nat) : IO (UInt64 × Bool × Nat) := do
  if n == 0 then return (rng, true, cnt)
  let rng := lcg rng
  let ls := labels s rng
  let en := ls.filterMap fun l => match step Variant.good s l with
    | some p => some (l, p)
    | none => none
  -- the mover property at this state
  let mut cnt := cnt
  for i in List.range s.sigs.length do
    match s.sigs[i]? with
    | some g =>
      if g.claimed then
        for (l, (s1, r)) in en do
          if !ownLabel i l && r != .spin then
            match step Variant.good s1 (.finalize i) with
            | some (s2, _) =>
              cnt := cnt + 1
              let ok := match step Variant.good s (.finalize i) with
                | some (s', .unit) =>
                  (match step Variant.good s' l with
                   | some (s2', r') => r' == r && sameUpToWakes s2' s2 (List.range (s2.offered.length + 3))
                   | none => false)
                | _ => false
              if !ok then
                IO.println s!"COUNTEREXAMPLE i={i} l={repr l} r={resStr r}"
                for t in trace.reverse do IO.println s!"   {t}"
                return (rng, false, cnt)
            | none =>
              IO.println s!"finalize {i} disabled after {repr l}"
              for t in trace.reverse do IO.println s!"   {t}"
              return (rng, false, cnt)
    | none => pure ()
  if en.isEmpty then return (rng, true, cnt)
  let rng := lcg rng
  let k := (rng >>> 33).toNat % en.length
  match en[k]? with
  | none => return (rng, true, cnt)
  | some (l, p) =>
    let isClose := match l with | .close => true | _ => false
    if isClose && (rng >>> 20).toNat % 8 != 0 then mwalk n rng s trace cnt
    else mwalk (n - 1) rng p.1 (s!"{repr l} => {resStr p.2}" :: trace) cnt

def main (args : List String) : IO UInt32 := do
  let seed := (args[0]? >>= String.toNat?).getD 1
  let runs := (args[1]? >>= String.toNat?).getD 1000
  let len := (args[2]? >>= String.toNat?).getD 30
  let mut rng := lcg (UInt64.ofNat seed)
  let caps : List (Option Nat) := [some 0, some 1, some 2, none]
  let mut total := 0
  for i in [0:runs] do
    let (r, ok, c) ← mwalk len rng (State.init caps[i % 4]!) [] 0
    rng := r; total := total + c
    if !ok then return 1
  IO.println s!"movertest: {runs} walks, {total} commutations checked, no counterexample"
  return 0
