/-
  specgen — generates single-threaded call sequences together with the atomic
  model's results (the oracle of the sequential differential).

    specgen exh  <alphabet> <depth> <caps>            exhaustive DFS
    specgen rand <alphabet> <len> <caps> <seed> <n>   seeded random walks

  One line per sequence:  <cap>|<op>;<op>;…=><res>;<res>;…;END …
-/
import Kanal.Seq
open Kanal

def obsLabels : List Label :=
  [.len, .isEmpty, .isFull, .capacity, .isBounded, .senderCount, .receiverCount, .isClosed,
   .isDisconnected .send, .isTerminated]

def futsOf (s : State) (r : Role) : List Nat :=
  (List.range s.sigs.length).filter (fun i =>
    match s.sigs[i]? with
    | some g => g.alive && g.kind == .async && g.role == r
    | none => false)

/-- Candidate ops in state `s` for the alphabet `al` (a set of group letters). -/
def candidates1 (al : String) (s : State) : List SeqOp :=
  let has (c : Char) : Bool := al.toList.contains c
  let m := s.offered.length + 1
  let sf := futsOf s .send
  let rf := futsOf s .recv
  let ws : List Nat := if has 'w' then [0, 1, 2] else [0, 1]
  (if has 'S' then [SeqOp.send m] else []) ++
  (if has 'T' then [.sendT m false, .sendT m true] else []) ++
  (if has 'Y' then [.trySend m false false, .trySend m true false, .trySend m false true, .trySend m true true] else []) ++
  (if has 'y' then [.trySend m false false] else []) ++
  (if has 'R' then [.recv] else []) ++
  (if has 'U' then [.recvT] else []) ++
  (if has 'V' then [.tryRecv false, .tryRecv true] else []) ++
  (if has 'v' then [.tryRecv false] else []) ++
  (if has 'D' then [.drain 0, .drain 1, .drain 2] else []) ++
  (if has 'd' then [.drain 0] else []) ++
  (if has 'A' then
    (if sf.length < 2 then [SeqOp.asend m] else []) ++
    (sf.flatMap fun f => ws.map (fun w => SeqOp.pollS f w)) ++ sf.map SeqOp.dropSF else []) ++
  (if has 'B' then
    (if rf.length < 2 then [SeqOp.arecv false] else []) ++
    (rf.flatMap fun f => ws.map (fun w => SeqOp.pollR f w)) ++ rf.map SeqOp.dropRF else []) ++
  (if has 'M' then
    (if rf.length < 2 then [SeqOp.arecv true] else []) ++
    (if has 'B' then [] else (rf.flatMap fun f => ws.map (fun w => SeqOp.pollR f w)) ++ rf.map SeqOp.dropRF) else []) ++
  (if has 'H' then
    [.clone .send true, .clone .send false, .clone .recv true, .clone .recv false,
     .dropH .send, .dropH .recv, .conv .send, .conv .recv] else []) ++
  (if has 'h' then [.clone .send true, .clone .recv true, .dropH .send, .dropH .recv] else []) ++
  (if has 'C' then [.close .send, .close .recv] else []) ++
  (if has 'c' then [.close .send] else []) ++
  (if has 'O' then obsLabels.flatMap (fun l => [SeqOp.obs l .send, SeqOp.obs l .recv]) else []) ++
  (if has 'K' then [.obs .senderCount .recv, .obs .receiverCount .send, .obs .isClosed .send, .obs .senderCount .send,
                    .obs .receiverCount .recv] else []) ++
  (if has 'o' then [.obs .len .recv, .obs .isFull .send, .obs .senderCount .recv, .obs .receiverCount .send,
                    .obs .isClosed .send, .obs (.isDisconnected .send) .send, .obs (.isDisconnected .recv) .recv,
                    .obs .isTerminated .recv] else [])

/-- Candidate moves: single ops, plus macro moves (several ops taken as one DFS step) that build
    deep waiting lists cheaply: `P` = create a send future and poll it once, `Q` = the same for a
    receive future (up to 4 alive futures per side). -/
def candidates (al : String) (s : State) : List (List SeqOp) :=
  let has (c : Char) : Bool := al.toList.contains c
  let m := s.offered.length + 1
  let sf := futsOf s .send
  let rf := futsOf s .recv
  (candidates1 al s).map (fun o => [o]) ++
  (if has 'P' && sf.length < 4 then [[SeqOp.asend m, SeqOp.pollS s.sigs.length 0]] else []) ++
  (if has 'P' then sf.map (fun f => [SeqOp.dropSF f]) else []) ++
  (if has 'Q' && rf.length < 4 then [[SeqOp.arecv false, SeqOp.pollR s.sigs.length 0]] else []) ++
  (if has 'Q' then rf.map (fun f => [SeqOp.dropRF f]) ++ rf.map (fun f => [SeqOp.pollR f 0]) else [])

/-- Apply a move (a list of ops); `none` if one of them is not enabled. -/
def applyMove (s : State) (mv : List SeqOp) : Option (State × List String × List String) :=
  mv.foldl (fun acc op =>
    match acc with
    | none => none
    | some (st, ops, res) =>
      match seqStep Variant.good st op with
      | none => none
      | some (s1, txt, r) => some (s1, txt :: ops, (resStr r ++ effectStr st s1 op) :: res)) (some (s, [], []))

def capStr : Option Nat → String
  | none => "u"
  | some n => toString n

def parseCaps (s : String) : List (Option Nat) :=
  (s.splitOn ",").filterMap fun t => if t == "u" then some none else t.toNat?.map some

def emit (cap : Option Nat) (s : State) (ops res : List String) : IO Unit := do
  -- teardown
  match runSeq Variant.good s [] with
  | some (o2, r2, _) =>
    IO.println s!"{capStr cap}|{";".intercalate (ops.reverse ++ o2)}=>{";".intercalate (res.reverse ++ r2)}"
  | none => IO.println s!"{capStr cap}|{";".intercalate ops.reverse}=>TEARDOWN-FAILED"

partial def dfs (al : String) (cap : Option Nat) (depth : Nat) (s : State) (ops res : List String) : IO Unit := do
  if depth == 0 then emit cap s ops res
  else
    let mut any := false
    for mv in candidates al s do
      match applyMove s mv with
      | none => pure ()
      | some (s1, o1, r1) =>
        any := true
        dfs al cap (depth - 1) s1 (o1 ++ ops) (r1 ++ res)
    if !any then emit cap s ops res

def lcg (x : UInt64) : UInt64 := x * 6364136223846793005 + 1442695040888963407

partial def walk (al : String) (cap : Option Nat) (len : Nat) (rng : UInt64) (s : State)
    (ops res : List String) : IO UInt64 := do
  if len == 0 then emit cap s ops res; return rng
  else
    let en := (candidates al s).filterMap fun mv =>
      match applyMove s mv with
      | some (s1, o1, r1) => some (mv, s1, o1, r1)
      | none => none
    if en.isEmpty then emit cap s ops res; return rng
    else
      -- observers are picked less often than state-changing calls, close rarely
      let weight (mv : List SeqOp) : Nat := match mv with
        | [.obs _ _] => 1
        | [.close _] => 1
        | _ => 4
      let total := en.foldl (fun a (mv, _) => a + weight mv) 0
      let rng := lcg rng
      let pick := ((rng >>> 33).toNat) % total
      let rec sel (l : List (List SeqOp × State × List String × List String)) (k : Nat) :
          Option (List SeqOp × State × List String × List String) :=
        match l with
        | [] => none
        | x :: rest => if k < weight x.1 then some x else sel rest (k - weight x.1)
      match sel en pick with
      | none => emit cap s ops res; return rng
      | some (_, s1, o1, r1) => walk al cap (len - 1) rng s1 (o1 ++ ops) (r1 ++ res)

def parseSide (t : String) : Side := if t == "s" then .send else .recv

def parseObs (name : String) : Option Label :=
  match name with
  | "len" => some .len | "isempty" => some .isEmpty | "isfull" => some .isFull
  | "capacity" => some .capacity | "isbounded" => some .isBounded | "scount" => some .senderCount
  | "rcount" => some .receiverCount | "isclosed" => some .isClosed
  | "isdisc" => some (.isDisconnected .send) | "isterm" => some .isTerminated
  | _ => none

/-- Parse one op in the driver's text format (future ids are checked against the model's allocation). -/
def parseOp (t : String) : Option SeqOp :=
  match t.splitOn " " with
  | ["send", m] => m.toNat?.map .send
  | ["sendt", m, _] => m.toNat?.map (.sendT · false)
  | ["sendot", m, _] => m.toNat?.map (.sendT · true)
  | ["try", m, o, r] => m.toNat?.map (.trySend · (o == "1") (r == "1"))
  | ["recv"] => some .recv
  | ["recvt", _] => some .recvT
  | ["tryr", r] => some (.tryRecv (r == "1"))
  | ["drain", k] => k.toNat?.map .drain
  | ["asend", _, m] => m.toNat?.map .asend
  | ["polls", f, w] => do some (.pollS (← f.toNat?) (← w.toNat?))
  | ["dropsf", f] => f.toNat?.map .dropSF
  | ["arecv", _] => some (.arecv false)
  | ["stream", _] => some (.arecv true)
  | ["pollr", f, w] => do some (.pollR (← f.toNat?) (← w.toNat?))
  | ["droprf", f] => f.toNat?.map .dropRF
  | ["clone", sd, same] => some (.clone (parseSide sd) (same == "1"))
  | ["drop", sd] => some (.dropH (parseSide sd))
  | ["conv", sd] => some (.conv (parseSide sd))
  | ["close", sd] => some (.close (parseSide sd))
  | [name, sd] => (parseObs name).map (.obs · (parseSide sd))
  | _ => none

/-- `eval`: recompute the oracle's results for given op lines (replay, shrinking).  The
    ops are taken as they are (no teardown is appended); an op the model does not
    enable, or whose text differs from what the model would emit (e.g. a `0`/`L`
    duration that does not match the state), is reported. -/
def evalLine (line : String) : String :=
  match line.splitOn "|" with
  | [capS, opsS] =>
    match parseCaps capS with
    | [cap] =>
      let rec go (s : State) (ops : List String) (k : Nat) (acc : List String) : String :=
        match ops with
        | [] => ";".intercalate (acc.reverse ++ [endStr s])
        | t :: rest =>
          if t.isEmpty then go s rest k acc else
          match parseOp t with
          | none => s!"BAD-OP {k} {t}"
          | some op =>
            match seqStep Variant.good s op with
            | none => s!"DISABLED {k} {t}"
            | some (s1, txt, r) =>
              if txt != t then s!"DISABLED {k} {t} (model would issue: {txt})"
              else go s1 rest (k + 1) ((resStr r ++ effectStr s s1 op) :: acc)
      go (State.init cap) (opsS.splitOn ";") 0 []
    | _ => "BAD-LINE"
  | _ => "BAD-LINE"

partial def evalLoop (h : IO.FS.Stream) : IO Unit := do
  let line ← h.getLine
  if line.isEmpty then return ()
  let line := line.trimAscii.toString
  if !line.isEmpty then IO.println (evalLine line)
  evalLoop h

def main (args : List String) : IO UInt32 := do
  match args with
  | ["eval"] => evalLoop (← IO.getStdin); return 0
  | ["exh", al, depth, caps] =>
    for cap in parseCaps caps do
      dfs al cap depth.toNat! (State.init cap) [] []
    return 0
  | ["rand", al, len, caps, seed, n] =>
    let caps := parseCaps caps
    let mut rng : UInt64 := lcg (UInt64.ofNat seed.toNat!)
    for i in [0:n.toNat!] do
      let cap := caps[i % caps.length]!
      rng ← walk al cap len.toNat! rng (State.init cap) [] []
    return 0
  | _ =>
    IO.eprintln "usage: specgen exh <alphabet> <depth> <caps> | specgen rand <alphabet> <len> <caps> <seed> <n>"
    return 2
