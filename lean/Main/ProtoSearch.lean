/-
  protosearch — adversarial runs of the TRANSLATED protocol code (Kanal/GenProto.lean, regenerated from /repo/src on
  every run).  Used when a `TieProto` obligation breaks: it looks for a concrete history on which the code (as
  translated) misbehaves — `lock()` returning while the flag was held throughout, a waiter returning although its word
  never became final, a timed wait reporting the wrong outcome at the deadline, a `wake` that does its steps in another
  order — and prints it.  A search aid and a source of replays, never a proof.

  usage: protosearch            (prints one line per scenario: `ok …` or `WITNESS …`)
-/
import Kanal.GenProto
open Kanal

/-- what the environment answers: the word a load/CAS sees at step `i`, the answers to questions -/
structure World where
  word    : Nat → Nat                 -- value of the word at step i (before the operation)
  ask     : PAskB → Nat → Bool

inductive Outcome where
  | done (r : Option Bool) | diverge | unreachable | limit
  deriving Repr, BEq, Inhabited

structure Trace where
  ops   : Array String := #[]         -- only the first 40 operations are kept
  steps : Nat := 0
  casFail : Nat := 0
  casOk : Nat := 0
  stores : Array (Nat × String) := #[]
  deriving Inhabited

def ordS : Ord → String
  | .relaxed => "rlx" | .acquire => "acq" | .release => "rel" | .acqRel => "acqrel" | .seqCst => "sc"

def note (t : Trace) (s : String) : Trace :=
  { t with ops := if t.ops.size < 40 then t.ops.push s else t.ops, steps := t.steps + 1 }

/-- run a tree; the word follows the world's script except that a successful CAS / store by the tree itself is
    remembered from then on when `sticky` -/
partial def exec (w : World) (sticky : Bool) (limit : Nat) : PAct → Trace → Option Nat → Outcome × Trace
  | .done r, t, _ => (.done r, t)
  | .diverge, t, _ => (.diverge, t)
  | .unreachable, t, _ => (.unreachable, t)
  | .load o k, t, own =>
    if t.steps ≥ limit then (.limit, t) else
    let v := own.getD (w.word t.steps)
    exec w sticky limit (k v) (note t s!"ld.{ordS o}={v}") own
  | .store v o k, t, own =>
    if t.steps ≥ limit then (.limit, t) else
    exec w sticky limit k { note t s!"st.{ordS o}:={v}" with stores := t.stores.push (v, ordS o) } (if sticky then some v else own)
  | .cas e n so fo k, t, own =>
    if t.steps ≥ limit then (.limit, t) else
    let v := own.getD (w.word t.steps)
    if v == e then exec w sticky limit (k none) { note t s!"cas.{ordS so}/{ordS fo}({e}->{n})ok" with casOk := t.casOk + 1 } (if sticky then some n else own)
    else exec w sticky limit (k (some v)) { note t s!"cas.{ordS so}/{ordS fo}({e}->{n})fail={v}" with casFail := t.casFail + 1 } own
  | .fence o k, t, own => if t.steps ≥ limit then (.limit, t) else exec w sticky limit k (note t s!"fence.{ordS o}") own
  | .eff e k, t, own => if t.steps ≥ limit then (.limit, t) else exec w sticky limit k (note t (reprStr e)) own
  | .askB q k, t, own => if t.steps ≥ limit then (.limit, t) else exec w sticky limit (k (w.ask q t.steps)) (note t (reprStr q)) own

def constWorld (v : Nat) (par1 : Bool) (before : Bool) : World :=
  { word := fun _ => v, ask := fun q _ => match q with | .parEq1 => par1 | .parGt1 => !par1 | .beforeDeadline => before | .stdWillWake => false }

def report (name : String) (ok : Bool) (detail : String) (t : Trace) : IO Unit :=
  IO.println s!"{if ok then "ok" else "WITNESS"} {name}: {detail}; steps={t.steps} casFail={t.casFail} casOk={t.casOk} first_ops={t.ops.toList.take 24}"

def kB : Bool → PAct := fun b => .done (some b)
def kU : Unit → PAct := fun _ => .done none
def kO : Option Bool → PAct := fun r => .done (match r with | some b => some b | none => none)

def FUEL : Nat := 100000000
def LIMIT : Nat := 3000000
def LOCKLIMIT : Nat := 40000000

def main : IO Unit := do
  -- C17: lock() must not return while the flag is held by somebody else throughout
  for par1 in [false, true] do
    let (o, t) := exec (constWorld 1 par1 true) false LOCKLIMIT (Gen.RawMutexLock_lock FUEL kU) {} none
    report s!"lock-held-par1={par1}" (o != .done none) s!"lock() with the flag held throughout ended with {reprStr o} (must keep trying)" t
  let (o, t) := exec (constWorld 1 false true) false LIMIT (Gen.RawMutexLock_try_lock FUEL kB) {} none
  report "try_lock-held" (o == .done (some false) && t.steps == 1) s!"try_lock() on a held flag: {reprStr o}" t
  let (o, t) := exec (constWorld 0 false true) false LIMIT (Gen.RawMutexLock_try_lock FUEL kB) {} none
  report "try_lock-free" (o == .done (some true) && t.steps == 1) s!"try_lock() on a free flag: {reprStr o}" t
  let (o, t) := exec (constWorld 0 false true) false LIMIT (Gen.RawMutexLock_lock FUEL kU) {} none
  report "lock-free" (o == .done none && t.casOk == 1) s!"lock() on a free flag: {reprStr o}" t
  let (o, t) := exec (constWorld 1 false true) false LIMIT (Gen.RawMutexLock_unlock FUEL kU) {} none
  report "unlock" (o == .done none && t.stores == #[(0, "rel")]) s!"unlock(): {reprStr o} stores={t.stores}" t
  -- C06/C07/C13: waiters
  let (o, t) := exec (constWorld 2 false true) true LIMIT (Gen.Signal_wait FUEL .sync kB) {} none
  report "wait-never-final" (match o with | .done _ => false | _ => true) s!"wait() on a word that never becomes final ended with {reprStr o}" t
  for v in [0, 1] do
    let (o, t) := exec (constWorld v false true) false LIMIT (Gen.Signal_wait FUEL .sync kB) {} none
    report s!"wait-final-{v}" (o == .done (some (v == 0))) s!"wait() on final word {v}: {reprStr o}" t
  -- starved: the word becomes final only after the waiter parked (its CAS to 3 succeeded): it must re-check after park
  let w : World := { word := fun i => if i < 600 then 2 else 0, ask := fun _ _ => false }
  let (o, t) := exec w false LIMIT (Gen.Signal_wait FUEL .sync kB) {} none
  report "wait-park-then-final" (o == .done (some true)) s!"wait(): word LOCKED for the spin phase and the CAS, UNLOCKED after park: {reprStr o}" t
  for (v, expect) in [(0, true), (1, false), (2, false), (3, false)] do
    let (o, t) := exec (constWorld v false false) false LIMIT (Gen.Signal_wait_timeout FUEL .sync kB) {} none
    report s!"wait_timeout-expired-word{v}" (o == .done (some expect)) s!"wait_timeout() past its deadline with word {v}: {reprStr o} (expected {expect})" t
    let (o, t) := exec (constWorld v true false) false LIMIT (Gen.Signal_wait_timeout FUEL .sync kB) {} none
    report s!"wait_timeout-expired-par1-word{v}" (o == .done (some expect)) s!"wait_timeout() past its deadline, parallelism 1, word {v}: {reprStr o} (expected {expect})" t
  let (o, t) := exec (constWorld 2 false true) false 2000000 (Gen.Signal_wait_timeout FUEL .sync kB) {} none
  report "wait_timeout-before-deadline" (match o with | .done _ => false | _ => true) s!"wait_timeout() before its deadline on LOCKED ended with {reprStr o} (Timeout before the deadline)" t
  for (v, expect) in [(0, some true), (1, some false), (2, none), (3, none)] do
    let (o, t) := exec (constWorld v false true) false LIMIT (Gen.Signal_poll FUEL .async kO) {} none
    report s!"poll-word{v}" (o == .done expect) s!"poll() with word {v}: {reprStr o}" t
  let (o, t) := exec (constWorld 2 false true) false 2000000 (Gen.Signal_async_blocking_wait FUEL .async kB) {} none
  report "async_blocking_wait-never-final" (match o with | .done _ => false | _ => true) s!"async_blocking_wait() on LOCKED ended with {reprStr o}" t
  for (v, expect) in [(1, true), (0, false), (2, false)] do
    let (o, t) := exec (constWorld v false true) false LIMIT (Gen.Signal_is_terminated FUEL .sync kB) {} none
    report s!"is_terminated-word{v}" (o == .done (some expect)) s!"is_terminated() with word {v}: {reprStr o}" t
  -- C06/C07: the peer
  let seq (t : Trace) := t.ops.toList
  let (o, t) := exec (constWorld 2 false true) true LIMIT (Gen.Signal_wake FUEL .sync 0 kU) {} none
  report "wake-sync-locked" (o == .done none && seq t == ["cas.rel/acq(2->0)ok"]) s!"wake(UNLOCKED) of a spinning sync waiter: {seq t}" t
  let (o, t) := exec (constWorld 3 false true) true LIMIT (Gen.Signal_wake FUEL .sync 1 kU) {} none
  report "wake-sync-starved" (o == .done none && seq t == ["cas.rel/acq(2->1)fail=3", "Kanal.PEff.readHandle", "st.rel:=1", "Kanal.PEff.unpark"])
    s!"wake(TERMINATED) of a parked sync waiter must be CAS-fail, clone the handle, store, unpark: {seq t}" t
  let (o, t) := exec (constWorld 2 false true) true LIMIT (Gen.Signal_wake FUEL .async 0 kU) {} none
  report "wake-async" (o == .done none && seq t == ["Kanal.PEff.cloneWaker", "st.rel:=0", "Kanal.PEff.wake"])
    s!"wake(UNLOCKED) of a future must clone the waker, store, wake the clone: {seq t}" t
  let (o, t) := exec (constWorld 2 false true) true LIMIT (Gen.Signal_send FUEL .async kU) {} none
  report "send-async" (o == .done none && seq t == ["Kanal.PEff.ptrWrite", "Kanal.PEff.cloneWaker", "st.rel:=0", "Kanal.PEff.wake"]) s!"send(): payload before wake: {seq t}" t
  let (o, t) := exec (constWorld 3 false true) true LIMIT (Gen.Signal_recv FUEL .sync kU) {} none
  report "recv-sync-starved" (o == .done none && seq t == ["Kanal.PEff.ptrRead", "cas.rel/acq(2->0)fail=3", "Kanal.PEff.readHandle", "st.rel:=0", "Kanal.PEff.unpark"]) s!"recv(): {seq t}" t
  let (o, t) := exec (constWorld 2 false true) true LIMIT (Gen.Signal_will_wake FUEL .async kB) {} none
  report "will_wake" (o == .done (some false) && seq t == ["Kanal.PAskB.stdWillWake"]) s!"will_wake() must be the standard library's Waker::will_wake: {seq t} -> {reprStr o}" t
  let (o, t) := exec (constWorld 2 false true) true LIMIT (Gen.Signal_register_waker FUEL .async kU) {} none
  report "register_waker" (o == .done none && seq t == ["Kanal.PEff.storeWaker"]) s!"register_waker(): {seq t}" t
  let (o, t) := exec (constWorld 2 false true) true LIMIT (Gen.Signal_terminate FUEL .sync kU) {} none
  report "terminate-sync" (o == .done none && seq t == ["cas.rel/acq(2->1)ok"]) s!"terminate(): {seq t}" t
