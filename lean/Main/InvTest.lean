/- invtest — random walks over raw model labels (hand-off windows included) checking the
   invariant catalogue of Kanal/Lemmas/Defs.lean as executable predicates.  A search aid only. -/
import Kanal.Seq
open Kanal

def lcg (x : UInt64) : UInt64 := x * 6364136223846793005 + 1442695040888963407

def sigOKb (g : Sig) : List String :=
  (if !g.alive && !(g.slot == none && !g.claimed) then ["dead"] else []) ++
  (if g.claimed && !(g.alive && g.st == .pending && (g.kind != .async || g.fut == .waiting)) then ["claimed"] else []) ++
  (if g.role == .send && (g.st == .ok || g.claimed) && g.slot != none then ["sendTaken"] else []) ++
  (if g.role == .send && g.alive && g.st != .ok && !g.claimed && (g.kind != .async || g.fut != .done) && g.slot == none then ["sendHeld"] else []) ++
  (if g.role == .recv && g.slot != none && !((g.claimed || g.st == .ok) && g.alive && (g.kind != .async || g.fut == .waiting)) then ["recvHolds"] else []) ++
  (if g.role == .recv && g.st == .ok && g.alive && (g.kind != .async || g.fut == .waiting) && g.slot == none then ["recvReady"] else []) ++
  (if g.st != .pending && g.claimed then ["finalUnclaimed"] else []) ++
  (if g.role == .send && g.slot != none && g.orig != g.slot then ["origSend"] else []) ++
  (if g.kind != .async && g.fut != .zero then ["syncFut"] else [])

def listedB (c : Chan) (g : Sig) : Bool :=
  g.alive && g.st == .pending && !g.claimed && g.role == (if c.recvBlocking then .recv else .send) &&
  (g.role != .send || g.slot != none) && (g.role != .recv || g.slot == none) &&
  (g.kind != .async || (g.fut == .waiting && g.waker != none))

def custEq (a b : Custody) : Bool := a == b

def check (s : State) : List String :=
  let c := s.chan
  let idx := List.range s.sigs.length
  (if (c.sendCount == 0 || c.recvCount == 0) && c.waitList != [] then ["half"] else []) ++
  (if c.waitList.eraseDups.length != c.waitList.length then ["nodup"] else []) ++
  (c.waitList.filterMap fun i => match s.sigs[i]? with
    | some g => if listedB c g then none else some s!"listed {i}"
    | none => some s!"listed-missing {i}") ++
  (idx.filterMap fun i => match s.sigs[i]? with
    | some g => if g.alive && g.st == .pending && !g.claimed && (g.kind != .async || g.fut == .waiting) && !c.waitList.contains i
        then some s!"unlisted {i}" else none
    | none => none) ++
  (idx.flatMap fun i => match s.sigs[i]? with
    | some g => (sigOKb g).map (fun e => s!"sigOK.{e} {i}")
    | none => []) ++
  -- ledger
  (c.queue.filterMap fun m => if custEq (s.cust m) .queued then none else some s!"queueCust {m}") ++
  (if c.queue.eraseDups.length != c.queue.length then ["queueNodup"] else []) ++
  (idx.filterMap fun i => match s.sigs[i]? with
    | some g => match g.slot with
      | some m => if custEq (s.cust m) (.slot i) then none else some s!"slotCust {i} {m}"
      | none => none
    | none => none) ++
  (s.offered.filterMap fun m =>
    match s.cust m with
    | .queued => if c.queue.contains m then none else some s!"custQueue {m}"
    | .slot i => (match s.sigs[i]? with
        | some g => if g.slot == some m then none else some s!"custSlot {m} {i}"
        | none => some s!"custSlot {m} {i}")
    | .callerR => if s.recvd.contains m then none else some s!"recvdCust {m}"
    | .gone => if s.dropped.contains m then none else some s!"droppedCust {m}"
    | .fresh => some s!"offeredCust {m}"
    | .leaked => some s!"leak {m}"
    | .callerS => none) ++
  (s.recvd.filterMap fun m => if custEq (s.cust m) .callerR then none else some s!"recvdCust' {m}") ++
  (s.dropped.filterMap fun m => if custEq (s.cust m) .gone then none else some s!"droppedCust' {m}") ++
  (if s.recvd.eraseDups.length != s.recvd.length then ["recvdNodup"] else []) ++
  (if s.dropped.eraseDups.length != s.dropped.length then ["droppedNodup"] else []) ++
  (if s.offered.eraseDups.length != s.offered.length then ["offeredNodup"] else []) ++
  -- fifo
  (let co := c.queue ++ (if c.recvBlocking then [] else c.waitList.map s.slotMsg)
   let lhs := s.accepted.filter (fun m => !s.removed.contains m)
   (if lhs != s.delivered ++ co then [s!"fifo.order {lhs} vs {s.delivered} ++ {co}"] else []) ++
   (if s.accepted.eraseDups.length != s.accepted.length then ["acceptedNodup"] else []) ++
   (s.removed.filterMap fun m => if s.accepted.contains m && !s.delivered.contains m && !co.contains m then none else some s!"removedSub {m}"))

def labels (s : State) (rng : UInt64) : List Label :=
  let m := s.offered.length + 1
  let idx := List.range s.sigs.length
  let w := (rng >>> 40).toNat % 3
  [.send m .sync false, .send m .timed false, .send m .timed true, .trySend m false false, .trySend m true true,
   .recv .sync false, .recv .timed false, .recv .timed true, .tryRecv false, .drain,
   .newSendFut m, .newRecvFut false, .newRecvFut true,
   .clone .send, .clone .recv, .dropHandle .send, .dropHandle .recv, .close] ++
  idx.flatMap (fun i => [.complete i, .expire i, .finalize i, .finalize i, .pollSend i w, .dropSendFut i, .pollRecv i w, .dropRecvFut i])

partial def walk (cap : Option Nat) (n : Nat) (rng : UInt64) (s : State) (trace : List String) : IO (UInt64 × Bool) := do
  if n == 0 then return (rng, true)
  let rng := lcg rng
  let ls := labels s rng
  -- close is rare
  let en := ls.filterMap fun l => match step Variant.good s l with
    | some p => some (l, p)
    | none => none
  if en.isEmpty then return (rng, true)
  let rng := lcg rng
  let k := (rng >>> 33).toNat % en.length
  match en[k]? with
  | none => return (rng, true)
  | some (l, p) =>
    let isClose := match l with | .close => true | _ => false
    if isClose && (rng >>> 20).toNat % 8 != 0 then walk cap n rng s trace
    else
      let tr := s!"{repr l} => {resStr p.2}" :: trace
      let bad := check p.1
      if bad != [] then
        IO.println s!"VIOLATION cap={repr cap} {bad}"
        for t in tr.reverse do IO.println s!"   {t}"
        return (rng, false)
      walk cap (n - 1) rng p.1 tr

def main (args : List String) : IO UInt32 := do
  let seed := (args[0]? >>= String.toNat?).getD 1
  let runs := (args[1]? >>= String.toNat?).getD 1000
  let len := (args[2]? >>= String.toNat?).getD 40
  let mut rng := lcg (UInt64.ofNat seed)
  let caps : List (Option Nat) := [some 0, some 1, some 2, none]
  let mut bad := 0
  for i in [0:runs] do
    let cap := caps[i % 4]!
    let (r, ok) ← walk cap len rng (State.init cap) []
    rng := r
    if !ok then
      bad := bad + 1
      if bad ≥ 3 then return 1
  IO.println s!"invtest: {runs} walks, {bad} violations"
  return (if bad == 0 then 0 else 1)
