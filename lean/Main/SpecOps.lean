/-
  SpecOps — thread-level moves of the channel model, shared by specexplore and specfollow.
  (header of specexplore follows)
  specexplore — the outcome set of a small multi-threaded program under the model: every
  interleaving of the model's atomic steps (critical sections, final stores, completions,
  expiries at any point) that respects each thread's program order.  Used by the C03 check as the
  linearizability oracle: the per-thread results the real crate produced under some schedule
  must be one of the outcomes printed here.  A search aid, never a proof.

  input (stdin): the program format of harness `conc`:   cap=<n|u> …   /   t0: op;op   /   t1: …
  output: one line per distinct outcome:  t0:res,res|t1:res,…   (STUCK marks a thread blocked for ever)
-/
import Kanal.Seq
import Std.Data.HashSet
open Kanal

structure Thr where
  ops      : List String := []
  waiting  : Option (Nat × Bool × Msg × Bool) := none  -- blocked call: signal, timed?, message (0 = receive), option variant?
  fin      : List Nat := []                     -- waiters this thread has claimed and must still finalise
  cur      : Option String := none              -- result of the current call, reported once `fin` is empty
  results  : List String := []                  -- reversed
  futs     : List Nat := []                     -- its alive futures (torn down at the end)
  hs       : Nat := 1                           -- its sender handles
  hr       : Nat := 1
  tornDown : Bool := false

def claimedSet (s : State) : List Nat :=
  (List.range s.sigs.length).filter fun i => match s.sigs[i]? with | some g => g.claimed | none => false

def keptStr (s : State) (m : Msg) (opt : Bool) : String := if opt && s.cust m = .callerS then " kept" else ""

/-- Global future-name table: program-chosen future ids → model SigIds. -/
abbrev FutMap := List (Nat × Nat)

def lookupFut (fm : FutMap) (f : Nat) : Option Nat := (fm.find? (·.1 == f)).map (·.2)

/-- One thread-level move: returns new state, new thread, new future map, or `none` if not enabled. -/
def opStep (s : State) (t : Thr) (fm : FutMap) (txt : String) : Option (State × Thr × FutMap) :=
  let v := Variant.good
  let finish (s1 : State) (r : String) (t : Thr) (fm : FutMap) : Option (State × Thr × FutMap) :=
    let newly := (claimedSet s1).filter (fun i => !(claimedSet s).contains i)
    some (s1, { t with fin := newly, cur := some r }, fm)
  match txt.splitOn " " with
  | ["send", m] =>
    let m := m.toNat!
    match step v s (.send m .sync false) with
    | some (s1, .blocked i) => some (s1, { t with waiting := some (i, false, m, false) }, fm)
    | some (s1, r) => finish s1 (resStr r) t fm
    | none => none
  | ["sendt", m, _] =>
    let m := m.toNat!
    match step v s (.send m .timed false) with
    | some (s1, .blocked i) => some (s1, { t with waiting := some (i, true, m, false) }, fm)
    | some (s1, r) => finish s1 (resStr r) t fm
    | none => none
  | ["sendot", m, _] =>
    let m := m.toNat!
    match step v s (.send m .timed true) with
    | some (s1, .blocked i) => some (s1, { t with waiting := some (i, true, m, true) }, fm)
    | some (s1, r) => finish s1 (resStr r ++ keptStr s1 m true) t fm
    | none => none
  | ["try", m, o, rt] =>
    let m := m.toNat!
    match step v s (.trySend m (o == "1") (rt == "1")) with
    | some (s1, r) => finish s1 (resStr r ++ keptStr s1 m (o == "1")) t fm
    | none => none
  | ["recv"] =>
    match step v s (.recv .sync false) with
    | some (s1, .blocked i) => some (s1, { t with waiting := some (i, false, 0, false) }, fm)
    | some (s1, r) => finish s1 (resStr r) t fm
    | none => none
  | ["recvt", _] =>
    match step v s (.recv .timed false) with
    | some (s1, .blocked i) => some (s1, { t with waiting := some (i, true, 0, false) }, fm)
    | some (s1, r) => finish s1 (resStr r) t fm
    | none => none
  | ["tryr", rt] =>
    match step v s (.tryRecv (rt == "1")) with
    | some (s1, r) => finish s1 (resStr r) t fm
    | none => none
  | ["drain", _] =>
    match step v s .drain with
    | some (s1, r) => finish s1 (resStr r) t fm
    | none => none
  | ["asend", f, m] =>
    match step v s (.newSendFut m.toNat!) with
    | some (s1, .num i) => finish s1 "ok" { t with futs := t.futs ++ [i] } ((f.toNat!, i) :: fm)
    | _ => none
  | ["arecv", f] =>
    match step v s (.newRecvFut false) with
    | some (s1, .num i) => finish s1 "ok" { t with futs := t.futs ++ [i] } ((f.toNat!, i) :: fm)
    | _ => none
  | ["stream", f] =>
    match step v s (.newRecvFut true) with
    | some (s1, .num i) => finish s1 "ok" { t with futs := t.futs ++ [i] } ((f.toNat!, i) :: fm)
    | _ => none
  | ["polls", f, w] =>
    match lookupFut fm f.toNat! with
    | none => none
    | some i =>
      match step v s (.pollSend i w.toNat!) with
      | some (_, .spin) => none           -- busy-waits for the peer's final store: not enabled yet
      | some (s1, r) => finish s1 (resStr r) t fm
      | none => none
  | ["pollr", f, w] =>
    match lookupFut fm f.toNat! with
    | none => none
    | some i =>
      match step v s (.pollRecv i w.toNat!) with
      | some (_, .spin) => none
      | some (s1, r) => finish s1 (resStr r) t fm
      | none => none
  | ["dropsf", f] =>
    match lookupFut fm f.toNat! with
    | none => none
    | some i =>
      match step v s (.dropSendFut i) with
      | some (_, .spin) => none
      | some (s1, _) => finish s1 "ok" { t with futs := t.futs.erase i } fm
      | none => none
  | ["droprf", f] =>
    match lookupFut fm f.toNat! with
    | none => none
    | some i =>
      match step v s (.dropRecvFut i) with
      | some (_, .spin) => none
      | some (s1, _) => finish s1 "ok" { t with futs := t.futs.erase i } fm
      | none => none
  | ["clone", sd, _] =>
    let side := if sd == "s" then Role.send else Role.recv
    match step v s (.clone side) with
    | some (s1, _) => finish s1 "ok" (if sd == "s" then { t with hs := t.hs + 1 } else { t with hr := t.hr + 1 }) fm
    | none => none
  | ["drop", sd] =>
    let side := if sd == "s" then Role.send else Role.recv
    if (if sd == "s" then t.hs else t.hr) == 0 then finish s "panic" t fm
    else match step v s (.dropHandle side) with
      | some (s1, _) => finish s1 "ok" (if sd == "s" then { t with hs := t.hs - 1 } else { t with hr := t.hr - 1 }) fm
      | none => none
  | ["conv", _] => finish s "ok" t fm
  | ["close", _] =>
    match step v s .close with
    | some (s1, r) => finish s1 (resStr r) t fm
    | none => none
  | [name, sd] =>
    let side := if sd == "s" then Role.send else Role.recv
    let lab : Option Label := match name with
      | "len" => some .len | "isempty" => some .isEmpty | "isfull" => some .isFull | "capacity" => some .capacity
      | "isbounded" => some .isBounded | "scount" => some .senderCount | "rcount" => some .receiverCount
      | "isclosed" => some .isClosed | "isdisc" => some (.isDisconnected side) | "isterm" => some .isTerminated
      | _ => none
    match lab with
    | none => none
    | some l => match step v s l with
      | some (s1, r) => finish s1 (resStr r) t fm
      | none => none
  | _ => none

