#!/bin/sh
# usage: tools/try_seed.sh <patch.diff> <Cxx> [<Cyy> ...]   — apply a seeded change to /repo, run the quick checks, undo.
set -u
PATCH="$1"; shift
cd /verif
export VERIF_EVIDENCE_DIR=/verif/work/seed-evidence   # keep the committed evidence (written by clean-tree runs) untouched
mkdir -p "$VERIF_EVIDENCE_DIR"
git -C /repo status --short | grep -q . && { echo "/repo not clean"; exit 2; }
git -C /repo apply "$PATCH" || { echo "patch does not apply"; exit 2; }
for c in "$@"; do
  echo "=== $c on $(basename $(dirname $PATCH))"
  ./check "$c" --tier quick 2>&1 | grep -E "VIOLATION|KNOWN-FINDING|exit [01]$|obligations" | tail -3
done
git -C /repo checkout -- .
git -C /repo status --short
python3 /verif/extract/extract.py /repo/src /verif/lean/Kanal/Generated.lean >/dev/null
python3 /verif/extract/rs2lean.py /repo/src /verif/lean/Kanal/GenCode.lean >/dev/null
python3 /verif/extract/rs2proto.py /repo/src /verif/lean/Kanal/GenProto.lean >/dev/null
