#!/bin/sh
# usage: tools/seed_round.sh <dir of seeds> <id>[:<check>,<check>…] …   — confirm each seed, then run the named quick checks on it (default: its own property)
# log: /verif/work/seed_round/<id>.log
set -u
BASE="$1"; shift
mkdir -p /verif/work/seed_round
for spec in "$@"; do
  id="${spec%%:*}"; checks="${spec#*:}"; [ "$checks" = "$spec" ] && checks="$id"
  log="/verif/work/seed_round/$id.log"
  { echo "##### $id"; /verif/tools/confirm_seed.sh "$id" "$BASE/$id" 2>&1 | grep -E "^---|test result|patch failed|error" | cut -c1-160
    /verif/tools/try_seed.sh "$BASE/$id/patch.diff" $(echo "$checks" | tr ',' ' ') 2>&1 | tail -20; } > "$log" 2>&1
  echo "done $id"
done
