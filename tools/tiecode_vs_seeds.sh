#!/bin/sh
# For every seeded change: translate the changed source and list the TieCode theorems that no longer check
# (no scheduled runs, no differential: this only shows what the translation-based tie notices on its own).
cd /verif
for d in seeded/*/ /tmp/seed2/*/; do
  [ -f "$d/patch.diff" ] || continue
  id=$(basename $d); case "$d" in /tmp/seed2/*) id="$id(r2)";; esac
  rm -rf /tmp/tcs; mkdir -p /tmp/tcs; git -C /repo archive HEAD src | tar -x -C /tmp/tcs
  (cd /tmp/tcs && patch -p1 -s < "$OLDPWD/$d/patch.diff" 2>/dev/null || patch -p1 -s < "$d/patch.diff") >/dev/null 2>&1
  python3 extract/rs2lean.py /tmp/tcs/src lean/Kanal/GenCode.lean > /tmp/tcs/tr.out 2>&1
  out=$(cd lean && lake build Kanal.TieCode 2>&1)
  ok=$(echo "$out" | grep -c "depends on axioms\|does not depend")
  bad=$(echo "$out" | grep -o "error: Kanal/TieCode.lean:[0-9]*" | sort -u | tr '\n' ' ')
  gen=$(echo "$out" | grep -c "error: Kanal/GenCode.lean")
  probs=$(grep -c "problem:" /tmp/tcs/tr.out)
  lines=""
  for l in $(echo "$bad" | grep -o "[0-9]*"); do
    th=$(awk -v L=$l 'NR<=L && /^theorem /{t=$2} END{print t}' lean/Kanal/TieCode.lean); lines="$lines $th"
  done
  echo "$id: audited=$ok translator_problems=$probs gencode_errors=$gen broken:$(echo $lines | tr ' ' '\n' | sort -u | tr '\n' ' ')"
done
python3 extract/rs2lean.py /repo/src lean/Kanal/GenCode.lean >/dev/null; rm -rf /tmp/tcs
