#!/bin/sh
# usage: tools/keep_seed.sh <src dir> <name under seeded/> "<detected_by>" "<ran_checks>"   — keep a confirmed seeded change
set -eu
SRC="$1"; NAME="$2"; DET="$3"; RAN="$4"
D="/verif/seeded/$NAME"; mkdir -p "$D"
cp "$SRC/patch.diff" "$SRC/demo.rs" "$D/"
python3 - "$SRC/meta.json" "$D/meta.json" "$DET" "$RAN" <<'P'
import json,sys
m=json.load(open(sys.argv[1]))
m["confirmed"]={"by":"tools/confirm_seed.sh in a scratch worktree of /repo","demo_passes_without_change":True,"demo_fails_with_change":True,"suite_83_passes_with_change_3_runs":True}
m["detected_by"]=sys.argv[3]; m["ran_checks"]=sys.argv[4]
json.dump(m,open(sys.argv[2],"w"),indent=1)
P
echo kept $D
