#!/bin/sh
# usage: tools/confirm_seed.sh <id> [<dir with patch.diff demo.rs>]  — independent confirmation of a seeded change in a scratch worktree
set -u
ID="$1"; SRC="${2:-/tmp/seed/$ID}"; WT="/tmp/cs/$ID"
rm -rf "$WT"; mkdir -p /tmp/cs
git -C /repo worktree add -q "$WT" HEAD || exit 2
cd "$WT"
name="demo_$(echo $ID | tr 'A-Z' 'a-z')"
cp "$SRC/demo.rs" "tests/$name.rs"
export CARGO_NET_OFFLINE=true
echo "--- demo WITHOUT change"; timeout 600 cargo test --offline --test $name 2>&1 | grep -E "^test result|panicked|error\[" | head -5; r0=$?
git apply "$SRC/patch.diff" || { echo "patch failed"; }
echo "--- demo WITH change"; timeout 600 cargo test --offline --test $name 2>&1 | grep -E "^test result|error\[" | head -5
mv "tests/$name.rs" /tmp/cs/$name.rs.keep
echo "--- suite WITH change (3 runs)"
for i in 1 2 3; do timeout 900 cargo test --offline 2>&1 | grep -E "^test result" | tr '\n' ' '; echo; done
cd /; git -C /repo worktree remove --force "$WT"; rm -f /tmp/cs/$name.rs.keep
