#!/usr/bin/env python3
"""usage: tools/mk_seed_tasks.py <round dir, e.g. /tmp/seed6> <id> …   — writes <dir>/<id>/TASK.md for a fresh seeding session.
The session gets the property's text and one line per change already kept for it (site + mechanism to avoid); nothing from /verif."""
import json, os, sys, glob
base, ids = sys.argv[1], sys.argv[2:]
props = {json.loads(l)["id"]: json.loads(l) for l in open("/verif/properties.jsonl")}
for pid in ids:
    p = props[pid]
    tried = []
    for d in sorted(glob.glob(f"/verif/seeded/{pid}*")):
        try:
            m = json.load(open(os.path.join(d, "meta.json")))
            tried.append("- " + (m.get("summary") or m.get("change") or "")[:260].replace("\n", " "))
        except Exception:
            pass
    os.makedirs(f"{base}/{pid}", exist_ok=True)
    open(f"{base}/{pid}/TASK.md", "w").write(f"""# Task: seed one property-breaking change into the Rust crate `kanal`

You work ONLY inside your own scratch git worktree; create it with
`git -C /repo worktree add --detach {base}/{pid}/wt HEAD` (never edit /repo's own working tree, never use `git stash`, never read or write /verif).
The crate builds and tests offline: `CARGO_NET_OFFLINE=true cargo test --offline` (83 tests + doctests, all green on the unchanged code).

## The property

**{pid} — {p['title']}**

{p['statement']}

Quantifier: {p['quantifier']['text']}

Why the existing tests cannot settle it: {p['why_tests_cant']}

Anchors: {json.dumps(p['anchors'])[:1500]}

## What to produce

Make ONE small, realistic change to the crate's source (`src/*.rs`; not `src/verif.rs`, not lines under `#[cfg(kanal_verif)]`, keep those hook lines as they are) that
1. compiles (also with `RUSTFLAGS="--cfg kanal_verif"`),
2. still passes the whole existing suite — run it 3 times, it must be green every time (a change the suite catches even once is useless: pick another),
3. breaks the property above for some input / schedule / history, and
4. looks like something a maintainer could plausibly commit (an optimisation, a refactor, a "cleanup", a well-meant fix), not sabotage.

Prefer a change that shows only under an unusual-but-legal use (a rare API combination, an odd order of drops, a particular payload type, a narrow scheduling window).
It must differ in SITE AND MECHANISM from the changes already tried for this property:
{chr(10).join(tried) if tried else '- (none yet)'}

Then write a demonstration `demo.rs`: an integration test file (it will be copied to `tests/demo_{pid.lower()}.rs`) that PASSES on the unchanged code and FAILS with your change,
as deterministically as you can make it (hand-polled futures with a no-op or counting waker, joined threads, generous sleeps only where unavoidable). Run it several times both ways.

## Deliverables (in {base}/{pid}/)

* `patch.diff` — `git -C {base}/{pid}/wt diff -- src > {base}/{pid}/patch.diff` (must apply to a clean tree: check with `git -C /repo apply --check`),
* `demo.rs`,
* `meta.json` — {{"property": "{pid}", "summary": "<what you changed and how it breaks the property>", "needs": "<what it takes to see it>", "ran": [<commands and outcomes>]}}.

Finally remove the worktree with its build output: `git -C /repo worktree remove --force {base}/{pid}/wt; git -C /repo worktree prune`.
Report in a few lines: the change, what it breaks, how the demo and the suite behaved.
""")
    print("wrote", f"{base}/{pid}/TASK.md")
