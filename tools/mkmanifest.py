#!/usr/bin/env python3
"""Regenerates MANIFEST.json from lib/props.py + lib/manifest_text.py (keeps claimed / not_applicable in sync)."""
import json, os, sys, subprocess
ROOT = os.path.dirname(os.path.dirname(os.path.abspath(__file__)))
sys.path.insert(0, os.path.join(ROOT, "lib"))
from props import PROPS, TIE_CODE, WINDOWS, EXTRA_FILES
EXTRA_DESC = {
    "Kanal/Own.lean": "Own (a call touches another thread's signal only if it popped it, at most once, and leaves no popped waiter without its final store)",
    "Kanal/NoDangle.lean": "NoDangle (no call returns and no future's Drop ends while a peer can still touch its signal; only a Pending poll may leave exposed)",
    "Kanal/Disp.lean": "Disp (the value passed to a send is disposed of exactly once on every path: never left in a MaybeUninit at return, never dropped after the peer took it)",
    "Kanal/Deliver.lean": "Deliver (a value the receive family takes out of the channel is delivered exactly once: nothing invented, lost or duplicated; drain_into's count is the number pushed)",
    "Kanal/WakerReg.lean": "WakerReg (every Pending poll leaves the waker it was given stored; the waker slot is written only unexposed or under the lock with the signal still listed)",
    "Kanal/NoWaitLocked.lean": "NoWaitLocked (no translated function asks wait / wait_timeout / async_blocking_wait / poll while it holds the channel lock)",
    "Kanal/Reasons.lean": "Reasons (an error is answered only for its reason: Timeout only after the clock said so, Closed / SendClosed / ReceiveClosed / CloseError only on the state test the code uses or after a failed wait; only the three timed calls can answer Timeout)",
    "Kanal/Props/C06Code.lean": "C06Code (the eventual-completion theorems transferred to infinite segment-atomic executions of the code model and of the closed machine, under weak fairness stated on the code state)",
    "Kanal/RoleOK.lean": "RoleOK (a popped waiter is served according to its role: a sender's slot is only read, a receiver's only written; refines Own)",
    "Kanal/Refine/Movers.lean": "Refine.Movers (the post-unlock half of a hand-off — deliverTo / claimFrom — commutes with every segment another call can run in the gap: splitting a hand-off segment changes neither results nor state)",
    "Kanal/Shape.lean": "Shape (every critical section of every translated entry point changes the buffer only by popping its head and appending at its tail, and lengthens it only while there is room; hence queue.length <= capacity along every interleaving)",
    "Kanal/TieDiscipline.lean": "TieDiscipline (Own and NoDangle restated on the translated definitions)",
    "Kanal/TiePtr.lean": "TiePtr (pointer.rs translated: its operation lists compute the byte model's functions for every size, memory and word; a by-value argument is consumed exactly once)",
    "Kanal/Props/C07Pin.lean": "C07Pin (neither future is Unpin, whatever T; structural Unpin derivation over the extracted fields, cross-checked by 14 rustc probes)",
    "Kanal/Refine/Exec.lean": "Refine (every segment-atomic execution of the code model is an execution of the channel model with the same results: code_refines_spec, all labels covered, bridge hypotheses discharged from reachability)",
    "Kanal/Refine/Mach.lean": "Refine.Mach (the same for the closed machine that parks and resumes the continuations the code hands back)",
    "Kanal/Refine/Raw.lean": "Refine.Raw (the same without normalising finished futures' slots: no segment ever reads a stale slot)",
    "Kanal/Bridge.lean": "Bridge / Bridge2 (each tree of the fine-grained model read sequentially = Spec.step, label by label)",
    "Kanal/Sections.lean": "Machine / Sections / SpecSections (in every interleaving the logical state moves by whole critical sections, which are the Chan functions Spec.step applies)",
    "Kanal/TieProto.lean": "TieProto / TiePaths / ProtoSim (signal.rs, mutex.rs and spin_cond translated to protocol trees on every run and proved conformant to the protocol models; every execution of the translated code is an execution of the model)",
    "Kanal/Props/RealTime.lean": "RealTime (the property's real-time phrasing over executions)",
    "Kanal/Props/C14Fine.lean": "C14Fine (the realtime variants on the translated code: one try_lock, busy => not done, never waits)",
    "Kanal/Props/C06Fair.lean": "C06Fair / C06Chan / C06Async (eventual completion under weak fairness)",
}
from manifest_text import TEXT, NOT_YET
ids = [json.loads(l)["id"] for l in open(os.path.join(ROOT, "properties.jsonl"))]
hooks_commits = []
try:
    out = subprocess.run(["git", "-C", "/repo", "log", "--format=%H %s"], capture_output=True, text=True).stdout
    hooks_commits = [l.split(" ")[0] for l in out.splitlines() if " verif-hooks:" in l or l.split(" ", 1)[1].startswith("verif-hooks")]
except Exception:
    pass
checks, na = [], []
for pid in ids:
    if pid in PROPS and pid in TEXT:
        t = dict(TEXT[pid])
        if pid in TIE_CODE:
            t["level_text"] += (" Tie by translation: on every run the lock-holding Rust functions this property talks about are translated to Lean "
                                "(extract/rs2lean.py -> Kanal/GenCode.lean) and proved equal to the fine-grained model built from the same critical-section "
                                f"functions as the channel model (Kanal/TieCode.lean, {len(set(TIE_CODE[pid])) + 2} theorems among this check's obligations).")
            t["technique"] += " + Rust-to-Lean translation of the lock-holding code proved equal to the model on every run"
            t["level_note"] += " The translator (parser, lowering, effect tables) is trusted to the extent described in DESIGN.md §4.1b."
        extra = [EXTRA_DESC[f] for f in EXTRA_FILES.get(pid, []) if f in EXTRA_DESC]
        if extra:
            t["level_text"] += " Further theorem files among this check's obligations (each ends with its own #print axioms audit): " + "; ".join(extra) + "."
        if pid in WINDOWS:
            t["level_text"] += f" Scheduled runs include systematic single-preemption sweeps of {len(WINDOWS[pid])} race templates (DESIGN.md §4.3.2)."
        checks.append({
            "property_id": pid,
            "quick_cmd": f"./check {pid} --tier quick",
            "thorough_cmd": f"./check {pid} --tier thorough",
            "evidence_file": f"/verif/evidence/{pid}.json",
            "replay_cmd_template": f"./check {pid} --replay {{path}}",
            "engine": "lean4+differential",
            "level_claimed": {"category": PROPS[pid]["level"], "text": t["level_text"], "design_ref": t["design_ref"]},
            "level_note": t["level_note"],
            "technique": t["technique"],
        })
    else:
        na.append({"property_id": pid, "reason": NOT_YET.get(pid, "check not built yet (build in progress; DESIGN.md section 8 gives the order)")})
m = {
    "version": 1,
    "setup_cmd": "./setup.sh",
    "hooks": {"guard": "kanal_verif", "enable": "RUSTFLAGS='--cfg kanal_verif' (set in /verif/harness/.cargo/config.toml)",
              "baseline_off_cmd": "cd /repo && cargo test --workspace --no-fail-fast --offline",
              "source_commits": hooks_commits, "add_only": True},
    "engines": [{"name": "lean4+differential", "path": "/verif/check", "serves_properties": [c["property_id"] for c in checks],
                 "kind_free_text": "Lean 4 theorems over hand-written models (lean/Kanal), tied to /repo by a Rust-to-Lean translator for the lock-holding code whose output is proved equal to the model on every run, a fact extractor with tie theorems, a sequential differential against the real crate (specgen oracle vs seqdrv) and trace validation under a controlled scheduler"}],
    "checks": checks,
    "not_applicable": na,
    "notes": "See DESIGN.md. known_findings.json lists repaired defects (fix: commits in /repo) and any recorded findings.",
}
json.dump(m, open(os.path.join(ROOT, "MANIFEST.json"), "w"), indent=1)
print("claimed:", [c["property_id"] for c in checks])
