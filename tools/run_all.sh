#!/bin/sh
# Run every claimed check (quick tier by default) on the current tree and summarise.  usage: tools/run_all.sh [quick|thorough] [seed]
cd "$(dirname "$0")/.."
TIER="${1:-quick}"; SEED="${2:-1}"
python3 extract/extract.py "${VERIF_REPO:-/repo}/src" lean/Kanal/Generated.lean
python3 extract/rs2lean.py "${VERIF_REPO:-/repo}/src" lean/Kanal/GenCode.lean >/dev/null
python3 extract/rs2proto.py "${VERIF_REPO:-/repo}/src" lean/Kanal/GenProto.lean >/dev/null
for p in $(python3 -c "import json; print(' '.join(c['property_id'] for c in json.load(open('MANIFEST.json'))['checks']))"); do
  VERIF_SEED=$SEED ./check $p --tier $TIER 2>&1 | grep -E "VIOLATION|KNOWN-FINDING|\] C[0-9]+ tier" | tail -2
done
