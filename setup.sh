#!/bin/sh
# Build the framework from files on disk only (offline).  Run once after a fresh restore.
set -e
cd "$(dirname "$0")"
export CARGO_NET_OFFLINE=true
python3 extract/extract.py "${VERIF_REPO:-/repo}/src" lean/Kanal/Generated.lean
python3 extract/rs2lean.py "${VERIF_REPO:-/repo}/src" lean/Kanal/GenCode.lean
python3 extract/rs2proto.py "${VERIF_REPO:-/repo}/src" lean/Kanal/GenProto.lean
(cd lean && lake build Kanal specgen traittable specexplore protocheck specfollow protosearch treediff)
(cd harness && cargo build --release --offline)
echo "setup done"
