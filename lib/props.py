"""Per-property configuration of ./check: Lean obligations, differential families, relevance of a disagreement."""
import re
from vlib import Family
from conc import Profile

FULL = "STYRUVDABMHCO"
ALLCFG = ("z:s", "b:a", "w:s", "w:a", "l:s", "l:a", "b:s", "z:a", "p:a", "q:s", "p:s", "q:a")   # p, q: payloads without drop glue
QCFG = ("w:s", "l:a")

COMMON_ASSUME = [
    "Lean 4.33 kernel; axioms limited to propext / Classical.choice / Quot.sound (audited by #print axioms on every theorem)",
    "the Lean model is hand-written; it is tied to /repo by (a) the fact extractor + tie theorems, (b) the sequential differential against the real crate run by this check; behaviours outside the explored sequences are tied only through (a)",
    "a critical section is atomic (C17 theorem + Rust's guard typing); Rust's own semantics for moves, drops, MaybeUninit and ptr::read/write",
    "default cargo features (async, kanal's own spin mutex); std-mutex and no-async builds are not modelled",
]


def fams_c18(tier, seed):
    if tier == "quick":
        return [
            Family("full3", "exh", FULL, "0,1,2,u", depth=3, configs=QCFG),
            Family("async5", "exh", "SyvABMc", "0,1", depth=5, configs=("l:a", "b:s")),
            Family("stream6", "exh", "Myvc", "0,1", depth=6, configs=("w:s",)),
            Family("pending5", "exh", "PQyv", "0,1", depth=5, configs=("w:a",)),     # up to four waiters per side, cancel any, then serve
            Family("rand40", "rand", FULL + "w", "0,1,2,u", length=40, n=4000, configs=("w:a", "z:s", "l:s", "p:s")),
        ]
    return [
        Family("full3", "exh", FULL, "0,1,2,u", depth=3, configs=ALLCFG),
        Family("full4r", "exh", "STyRUvdABMhco", "0,1,2,u", depth=4, configs=("w:s", "l:a", "b:a", "z:s")),
        Family("async6", "exh", "SyvABMc", "0,1,2", depth=6, configs=("l:a", "b:s", "w:a")),
        Family("stream7", "exh", "Myvc", "0,1,u", depth=7, configs=("w:s", "l:a")),
        Family("timed5", "exh", "TUyvAc", "0,1", depth=5, configs=("w:s", "l:a")),
        Family("pending7", "exh", "PQyv", "0,1", depth=7, configs=("w:a", "l:s")),
        Family("rand60", "rand", FULL + "w", "0,1,2,u", length=60, n=40000, configs=ALLCFG),
    ]


def first_op(d):
    fd = d.get("first_diff")
    return fd[1].split(" ")[0] if fd else "END"


def rel_ops(*names):
    names = set(names)
    return lambda d: first_op(d) in names or bool(d.get("monitor"))


def fams_c12(tier, seed):
    if tier == "quick":
        return [
            Family("handles5", "exh", "HcK", "1", depth=5, configs=("w:s", "w:a")),
            Family("handles4mix", "exh", "HCKyvAB", "0,u", depth=4, configs=("l:a",)),
            Family("rand-handles", "rand", "HCKyvABS", "0,1,u", length=50, n=3000, configs=("w:s", "b:a")),
        ]
    return [
        Family("handles6", "exh", "HcK", "1", depth=6, configs=("w:s", "w:a")),
        Family("handles5mix", "exh", "HCKyvAB", "0,u", depth=5, configs=("l:a", "w:s")),
        Family("rand-handles", "rand", "HCKyvABS", "0,1,u", length=80, n=40000, configs=("w:s", "b:a", "l:s", "z:a")),
    ]


def fams_c19(tier, seed):
    if tier == "quick":
        return [
            Family("drain5", "exh", "DyvAc", "0,1,2", depth=5, configs=("w:s", "l:a")),
            Family("drainP6", "exh", "PSDv", "0,1,2", depth=6, configs=("w:s", "l:a")),
            Family("drain4", "exh", "DSTyvABhc", "0,1,u", depth=4, configs=("b:a", "z:s")),
            Family("rand-drain", "rand", "DSTYyvABMhc", "0,1,2,u", length=40, n=3000, configs=("w:a", "l:s")),
        ]
    return [
        Family("drain6", "exh", "DyvAc", "0,1,2", depth=6, configs=("w:s", "l:a", "b:s", "z:a")),
        Family("drain5b", "exh", "DSTyvABhc", "0,1,u", depth=5, configs=("b:a", "z:s", "w:s", "l:a")),
        Family("rand-drain", "rand", "DSTYyvABMhc", "0,1,2,u", length=60, n=40000, configs=ALLCFG),
    ]


def toks(x, pat):
    return sorted(re.findall(pat, x or ""))


def rel_tokens(pat):
    """A sequential disagreement touches the property iff a driver-side monitor fired or the first
    differing result differs in the tokens matching `pat`."""
    def f(d):
        if d.get("monitor"):
            return True
        fd = d.get("first_diff")
        return bool(fd) and toks(fd[2], pat) != toks(fd[3], pat)
    return f


MIXED = {"send": 4, "sendt": 3, "sendot": 3, "try": 3, "tryrt": 1, "recv": 4, "recvt": 3, "tryr": 3, "tryrrt": 1, "drain": 2,
         "asend1": 2, "asend2": 2, "asend3": 1, "asenddrop": 2, "arecv1": 2, "arecv2": 2, "arecv3": 1, "arecvdrop": 2, "stream3": 2,
         "close": 1, "drops": 1, "dropr": 1, "clones": 1, "len": 1}
STRATS = ("random", "uniform", "pct:2", "pct:3", "pct:5", "after:unlock:1", "after:unlock:2", "after:guard:2", "after:pwrite:1",
          "after:pread:1", "after:st:1", "after:cas:1", "after:now:3", "after:unpark:1")


def conc_ledger(tier, seed, name="mixed"):
    n = 400 if tier == "quick" else 12000
    return [(Profile(name, MIXED, threads=(2, 4), ops=(1, 3), n=n, strategies=STRATS, extra="tickp=30"),
             ["stuck", "mutex", "follow"], ["ledger", "lifetime", "timeout"])]


def fams_ledger(tier, seed):
    if tier == "quick":
        return [
            Family("full3", "exh", FULL, "0,1,2,u", depth=3, configs=("w:s", "l:a", "z:a", "b:s")),
            Family("async5", "exh", "SyvABMc", "0,1", depth=5, configs=("l:a", "b:s", "p:a")),
            Family("timed4", "exh", "TUyvAc", "0,1", depth=4, configs=("w:s", "l:a", "z:s")),
            Family("pendingPQ5", "exh", "PQyvdc", "0,1", depth=5, configs=("z:s", "l:a", "b:a", "q:a")),
            Family("rand40", "rand", FULL + "w", "0,1,2,u", length=40, n=3000, configs=("w:a", "z:s", "l:s", "b:a")),
        ]
    return fams_c18("thorough", seed)


LOCK_MACROS = {"try": 4, "tryrt": 4, "tryr": 4, "tryrrt": 4, "len": 2, "scount": 1, "send": 2, "recv": 2, "clones": 1, "drain": 1, "asend1": 1, "arecv1": 1}


def conc_c17(tier, seed):
    n = 300 if tier == "quick" else 6000
    return [
        (Profile("lock-contention", LOCK_MACROS, threads=(2, 4), ops=(2, 4), caps=("1", "2", "u"), n=n,
                 strategies=("random", "uniform", "pct:2", "pct:4", "after:lock:1", "after:guard:2", "after:lock:3")),
         ["mutex", "realtime", "stuck", "proto", "follow"], ["lifetime"]),
    ]


FIFO_MACROS = {"send": 5, "sendt": 2, "sendot": 1, "try": 2, "recv": 5, "recvt": 2, "tryr": 2, "drain": 2,
               "asend1": 2, "asend2": 1, "asenddrop": 2, "arecv2": 2, "stream3": 2}
CLOSE_MACROS = dict(MIXED, close=6, isclosed=2, scount=1, rcount=1)
DISC_MACROS = dict(MIXED, drops=5, dropr=5, clones=2, cloner=2, isdisc=2, isterm=1, close=0)


def conc_prof(name, macros, monitors, oracles=("ledger", "lifetime", "timeout"), qn=400, tn=12000, **kw):
    def f(tier, seed):
        n = qn if tier == "quick" else tn
        return [(Profile(name, macros, threads=kw.get("threads", (2, 4)), ops=kw.get("ops", (1, 3)), n=n,
                         strategies=kw.get("strategies", STRATS), caps=kw.get("caps", ("0", "1", "2", "u")), extra="tickp=30"),
                 list(monitors) + ([] if "follow" in monitors else ["follow"]), list(oracles))]
    return f


def fams_c02(tier, seed):
    if tier == "quick":
        return [
            Family("order5", "exh", "SyvAdc", "1,2", depth=5, configs=("w:s", "l:a")),
            Family("cancel6", "exh", "Avd", "0,1", depth=6, configs=("w:a",)),
            Family("pending6", "exh", "PSvd", "0,1,2", depth=6, configs=("w:s", "l:a")),
            Family("pendingRT5", "exh", "PSVD", "2", depth=5, configs=("w:a",)),
            Family("rand-order", "rand", "STYyRUvdABMc", "0,1,2,u", length=40, n=3000, configs=("w:s", "l:a", "b:s")),
        ]
    return [
        Family("order6", "exh", "SyvAdc", "1,2", depth=6, configs=("w:s", "l:a", "b:a")),
        Family("cancel7", "exh", "Avd", "0,1,2", depth=7, configs=("w:a", "l:s")),
        Family("pending8", "exh", "PSvd", "0,1,2", depth=8, configs=("w:s", "l:a", "b:s")),
        Family("pendingQ7", "exh", "PQyvd", "0,1", depth=7, configs=("w:s", "l:a")),
        Family("rand-order", "rand", "STYyRUvdABMc", "0,1,2,u", length=60, n=40000, configs=ALLCFG),
    ]


def fams_c08(tier, seed):
    if tier == "quick":
        return [
            Family("boundary4", "exh", "STYRvAo", "0,1,2,u", depth=4, configs=("w:s", "l:a")),
            Family("rand-cap", "rand", "STYyRUvdABo", "0,1,2,u", length=40, n=3000, configs=("w:s", "z:a")),
        ]
    return [
        Family("boundary5", "exh", "STYRvAo", "0,1,2,u", depth=5, configs=("w:s", "l:a", "b:s")),
        Family("rand-cap", "rand", "STYyRUvdABo", "0,1,2,u", length=60, n=40000, configs=ALLCFG),
    ]


def fams_c10(tier, seed):
    if tier == "quick":
        return [
            Family("close4", "exh", "STYRUVDABMCo", "0,1", depth=4, configs=("w:s", "l:a")),
            Family("close-handles4", "exh", "CHKyv", "1", depth=4, configs=("w:s", "l:a")),
            Family("rand-close", "rand", "STYyRUvdABMCKH", "0,1,2,u", length=30, n=3000, configs=("w:s", "b:a")),
        ]
    return [
        Family("close5", "exh", "STyRUvdABMCo", "0,1,2", depth=5, configs=("w:s", "l:a", "z:s")),
        Family("close-handles5", "exh", "CHKyv", "0,1", depth=5, configs=("w:s", "l:a")),
        Family("rand-close", "rand", "STYyRUvdABMCKH", "0,1,2,u", length=50, n=40000, configs=ALLCFG),
    ]


def fams_c11(tier, seed):
    if tier == "quick":
        return [
            Family("disc5", "exh", "SyvAhK", "0,1", depth=5, configs=("w:s", "l:a")),
            Family("disc4", "exh", "STYRUVDABMHo", "1", depth=4, configs=("b:a",)),
            Family("rand-disc", "rand", "STYyRUvdABMHKo", "0,1,2,u", length=40, n=3000, configs=("w:s", "z:a")),
        ]
    return [
        Family("disc6", "exh", "SyvAhK", "0,1", depth=6, configs=("w:s", "l:a")),
        Family("disc5b", "exh", "STyRUvdABMHo", "1", depth=5, configs=("b:a", "w:s")),
        Family("rand-disc", "rand", "STYyRUvdABMHKo", "0,1,2,u", length=60, n=40000, configs=ALLCFG),
    ]


# window sweeps (lib/conc.py WINDOW_TEMPLATES) run with the monitors and oracles of the property's first conc profile
_TIMED_S = ["timed-send-close", "timed-send-close-r", "timed-send-disc", "timed-sendo-disc", "timed-send-peer", "timed-sendo-peer", "slow-close", "slow-disc",
            "timed-send-holder", "timed-sendo-holder"]
_TIMED_R = ["timed-recv-close", "timed-recv-disc", "timed-recv-peer", "timed-recv-try", "timed-recv-holder"]
_REPOLL = ["repoll-recv-close", "repoll-recv-disc", "repoll-recv-peer", "repoll-send-close", "repoll-send-peer"]
_FDROP = ["drop-recv-peer", "drop-send-peer", "drop-recv-close", "drop-send-close"]
WINDOWS = {
    "C01": _TIMED_S + ["drop-send-peer", "drop-recv-peer", "repoll-recv-close", "stream-rewait2"],
    "C05": _TIMED_S + ["drop-send-peer", "drop-send-close", "drop-recv-peer"],
    "C13": _TIMED_S + _TIMED_R + ["timed-recv-disc-long", "timed-send-disc-long", "timed-recv-close-long"],
    "C10": ["timed-recv-close-long", "timed-send-close", "timed-recv-close", "slow-close", "repoll-recv-close", "repoll-send-close", "drop-recv-close", "drop-send-close", "park-close", "two-close"],
    "C11": ["timed-send-disc", "timed-sendo-disc", "timed-recv-disc", "slow-disc", "repoll-recv-disc", "park-disc", "park-disc-r", "park-disc-a", "park-disc-ra", "timed-send-disc-a", "timed-recv-disc-long", "timed-send-disc-long"],
    "C04": ["repoll-recv-close", "repoll-recv-disc", "repoll-recv-peer", "timed-recv-peer", "timed-recv-close", "drop-recv-peer", "stream-rewait", "stream-rewait2"],
    "C16": _REPOLL + ["stream-rewait", "stream-rewait2"],
    "C15": _FDROP + ["repoll-recv-peer"],
    "C07": _FDROP + ["repoll-recv-peer", "repoll-send-peer", "timed-send-peer", "timed-recv-peer", "park-close", "park-disc"],
    "C06": ["park-close", "park-disc", "park-disc-r", "park-disc-a", "park-disc-ra", "repoll-recv-peer", "repoll-send-peer", "timed-send-peer", "timed-recv-peer", "slow-close", "stream-rewait"],
    "C08": ["refill-race", "refill-race-t", "drain-race", "drain-grow"],
    "C02": ["refill-race", "refill-race-t", "drain-race"],
    "C03": ["observe", "refill-race", "drain-grow", "two-close", "drain-race"],
    "C19": ["drain-race", "drain-grow"],
    "C14": ["drain-grow", "refill-race", "timed-sendo-peer", "rt-refused", "rt-refused-closed"],
    "C09": ["park-disc-a", "park-disc-ra", "timed-send-disc-a", "repoll-recv-peer", "timed-recv-peer", "repoll-send-peer", "drop-send-peer"],
    "C12": ["clone-close", "clone-close-r", "clone-drop", "two-close"],
}


def with_windows(pid, conc_fn):
    """the property's scheduled-run profiles plus its window sweeps"""
    if conc_fn is None or pid not in WINDOWS:
        return conc_fn
    def f(tier, seed):
        import conc
        profs = conc_fn(tier, seed)
        if not profs:
            return profs
        _, monitors, oracles = profs[0]
        ks = (1, 2, 3, 4, 6) if tier == "quick" else tuple(range(1, 13))
        classes = ("w", "p") if tier == "quick" else ("w", "p", "l", "z")
        return profs + [(conc.SweepProfile("windows-" + pid, WINDOWS[pid], classes=classes, ks=ks, pars=("4", "1") if tier != "quick" else ("4",)),
                         monitors, oracles)]
    return f


def simple(pid, level, fams, conc, relevant, expl, extra_files=(), corpus=(), corpus_mon=()):
    return dict(level=level, lean_targets=[f"Kanal.Props.{pid}"], props_files=[f"Kanal/Props/{pid}.lean"] + list(extra_files),
                leancheck=[f"Kanal.Props.{pid}"], families=fams, conc=conc, relevant=relevant,
                conc_corpus=list(corpus), conc_corpus_monitors=list(corpus_mon),
                trusted=["specgen/seqdrv text protocol", "conc scheduler, monitors and oracles (harness, lib/conc.py)"],
                assumptions=COMMON_ASSUME, explanation=expl)


TIMED_MACROS = {"sendt": 6, "sendot": 6, "recvt": 6, "send": 2, "recv": 2, "try": 1, "tryr": 1, "close": 1, "drops": 1, "dropr": 1, "asend1": 1, "arecv1": 1}
TRY_MACROS = {"try": 5, "tryrt": 5, "tryr": 5, "tryrrt": 5, "drain": 3, "send": 2, "recv": 2, "sendt": 1, "asend1": 2, "arecv1": 2, "len": 1}
DROP_MACROS = {"asenddrop": 6, "arecvdrop": 6, "asend1": 2, "arecv1": 2, "asend2": 1, "arecv2": 1, "stream3": 2, "send": 2, "recv": 2, "try": 2, "tryr": 2, "close": 1, "drops": 1, "dropr": 1}
POLL_MACROS = {"asend2": 4, "asend3": 4, "arecv2": 4, "arecv3": 4, "stream3": 4, "asend1": 1, "arecv1": 1, "send": 2, "recv": 2, "try": 3, "tryr": 3, "close": 1}
FREEZE = ("random", "uniform", "pct:3", "after:lock:1", "after:lock:2", "after:guard:1", "after:guard:2", "after:guard:3", "after:unlock:1", "after:pwrite:1", "after:st:1",
          "after:ld:1", "after:ld:2")    # frozen right after a load: a check-then-act on the lock word or a signal word gets its window


def fams_c13(tier, seed):
    if tier == "quick":
        return [
            Family("timed5", "exh", "TUyvAc", "0,1", depth=5, configs=("w:s", "l:a")),
            Family("timedP5", "exh", "PQTUv", "0,1", depth=5, configs=("b:s", "z:a", "p:s")),
            Family("rand-timed", "rand", "STYyRUvdABMhc", "0,1,2,u", length=40, n=3000, configs=("w:s", "l:a")),
        ]
    return [
        Family("timed6", "exh", "TUyvAc", "0,1,2", depth=6, configs=("w:s", "l:a", "z:s")),
        Family("timedP6", "exh", "PQTUv", "0,1", depth=6, configs=("b:s", "z:a", "w:a")),
        Family("rand-timed", "rand", "STYyRUvdABMhc", "0,1,2,u", length=60, n=40000, configs=ALLCFG),
    ]


def fams_c14(tier, seed):
    if tier == "quick":
        return [
            Family("try4", "exh", "YVDSRo", "0,1,2,u", depth=4, configs=("w:s", "l:a")),
            Family("tryP5", "exh", "PQYVd", "0,1", depth=5, configs=("b:a", "z:s", "q:a")),
            Family("rand-try", "rand", "SYRVDABMhco", "0,1,2,u", length=40, n=3000, configs=("w:a", "l:s")),
        ]
    return [
        Family("try5", "exh", "YVDSRo", "0,1,2,u", depth=5, configs=("w:s", "l:a", "z:a")),
        Family("tryP6", "exh", "PQYVd", "0,1,2", depth=6, configs=("b:a", "z:s", "w:s")),
        Family("rand-try", "rand", "SYRVDABMhco", "0,1,2,u", length=60, n=40000, configs=ALLCFG),
    ]


def fams_c15(tier, seed):
    if tier == "quick":
        return [
            Family("futdrop5", "exh", "SyvABMc", "0,1", depth=5, configs=("l:a", "b:s", "z:s", "p:a")),
            Family("futdropPQ6", "exh", "PQyvdc", "0,1", depth=6, configs=("w:s", "l:a", "q:s")),
            Family("rand-futdrop", "rand", "SyvdABMhcPQ", "0,1,2,u", length=40, n=3000, configs=("w:a", "z:s", "l:s", "p:a")),
        ]
    return [
        Family("futdrop6", "exh", "SyvABMc", "0,1,2", depth=6, configs=("l:a", "b:s", "z:s", "w:a")),
        Family("futdropPQ7", "exh", "PQyvdc", "0,1", depth=7, configs=("w:s", "l:a")),
        Family("rand-futdrop", "rand", "SyvdABMhcPQ", "0,1,2,u", length=60, n=40000, configs=ALLCFG),
    ]


def fams_c16(tier, seed):
    if tier == "quick":
        return [
            Family("poll5", "exh", "ABwyv", "0,1", depth=5, configs=("w:a", "l:s", "q:a")),
            Family("stream6", "exh", "Mwyvc", "0,1", depth=6, configs=("w:s", "b:a")),
            Family("rand-poll", "rand", "SyvABMwcPQ", "0,1,2,u", length=40, n=3000, configs=("w:a", "l:s")),
        ]
    return [
        Family("poll6", "exh", "ABwyv", "0,1", depth=6, configs=("w:a", "l:s", "z:a")),
        Family("stream7", "exh", "Mwyvc", "0,1,u", depth=7, configs=("w:s", "b:a")),
        Family("rand-poll", "rand", "SyvABMwcPQ", "0,1,2,u", length=60, n=40000, configs=ALLCFG),
    ]


PARK_MACROS = {"send": 6, "recv": 6, "sendt": 2, "recvt": 2, "try": 2, "tryr": 2, "tryrt": 2, "tryrrt": 1, "asend2": 2, "arecv2": 2, "asend1": 1, "arecv1": 1,
               "stream3": 1, "close": 1, "drops": 1, "dropr": 1, "drain": 1}


def extra_c0607(pid):
    return dict(level="proof", lean_targets=[f"Kanal.Props.{pid}", "Kanal.Tie", "protocheck"], props_files=[f"Kanal/Props/{pid}.lean", "Kanal/Tie.lean"],
                leancheck=[f"Kanal.Props.{pid}", "Kanal.SigM"],
                trusted=["memory model = SC values + happens-before flags on release/acquire edges (not full C11)",
                         "conc scheduler, monitors and oracles (harness, lib/conc.py)", "park/unpark and Waker::wake honoured by OS/executor (token / wake log)"],
                assumptions=COMMON_ASSUME)


def integrity_check(tier, seed, stats):
    import subprocess, os
    from vlib import HARNESS, ENV
    rounds = "40" if tier == "quick" else "1500"
    p = subprocess.run([os.path.join(HARNESS, "target", "release", "integrity"), str(seed), rounds],
                       stdout=subprocess.PIPE, stderr=subprocess.STDOUT, text=True, env=ENV, timeout=3000)
    lines = p.stdout.strip().split("\n")
    types = [l for l in lines if l.startswith("type ")]
    stats["evaluations"] += len(types) * int(rounds) * 20
    stats["programs"] += len(types)
    stats["samples"].append({"integrity": types[:4] + types[-2:]})
    if p.returncode != 0 or not lines or lines[-1] != "INTEGRITY ok":
        return [{"kind": "integrity", "seed": seed, "failures": [l for l in lines if "FAIL" in l][:6] or [f"integrity exited {p.returncode}: {lines[-3:]}"]}]
    return []


def pin_check(tier, seed, stats):
    """C07/C15: rustc's verdict on `Unpin` for the handles, the futures and the stream (T = u8, T = PhantomPinned) against the
    structural model (AutoTrait.verdictUnpin over the extracted fields), and the property itself: a future is never Unpin."""
    import subprocess, os
    from vlib import HARNESS, LEAN, ENV, sh
    sh(["lake", "build", "traittable"], cwd=LEAN)
    model = subprocess.run([os.path.join(LEAN, ".lake", "build", "bin", "traittable"), "unpin"], stdout=subprocess.PIPE, text=True, env=ENV).stdout.strip().split("\n")
    p = subprocess.run([os.path.join(HARNESS, "target", "release", "probes"), "unpin"], stdout=subprocess.PIPE, stderr=subprocess.STDOUT, text=True, env=ENV)
    rustc = p.stdout.strip().split("\n")
    stats["evaluations"] += len(rustc)
    stats["programs"] += 1
    stats["samples"].append({"unpin probes": rustc[4:6]})
    stats["nontrivial"] |= {l.encode() for l in rustc}
    wrong = [f"rustc: {l.split(' ')[0]}<T> is Unpin (T: Unpin = {l.split(' ')[1]}): safe code may move it between polls while the wait list holds its address"
             for l in rustc if l.split(" ")[0] in ("SendFuture", "ReceiveFuture") and l.endswith(" unpin true")]
    if wrong:
        return [{"kind": "probe", "seed": seed, "failures": wrong[:4]}]
    if p.returncode != 0 or len(model) != 14 or model != rustc:
        diff = [f"model: {m} | rustc: {r}" for m, r in zip(model, rustc) if m != r][:6]
        return [{"kind": "probe", "seed": seed, "failures": diff or [f"probes unpin exited {p.returncode} / table sizes {len(model)} vs {len(rustc)}: {p.stdout[-300:]}"]}]
    return []


def probe_check(tier, seed, stats):
    import subprocess, os
    from vlib import HARNESS, LEAN, ENV, sh
    rc, out = sh(["lake", "build", "traittable"], cwd=LEAN)
    model = subprocess.run([os.path.join(LEAN, ".lake", "build", "bin", "traittable")], stdout=subprocess.PIPE, text=True, env=ENV).stdout.strip().split("\n")
    p = subprocess.run([os.path.join(HARNESS, "target", "release", "probes")], stdout=subprocess.PIPE, stderr=subprocess.STDOUT, text=True, env=ENV)
    rustc = p.stdout.strip().split("\n")
    stats["evaluations"] += len(rustc)
    stats["programs"] += 1
    stats["samples"].append({"probes": rustc[:2] + rustc[-2:]})
    stats["nontrivial"] |= {l.encode() for l in rustc}
    # the property itself, asked of rustc (independent of the model): T: Send => handles Send+Sync, futures/stream Send; T: !Send => nothing
    wrong = []
    for l in rustc:
        t = l.split(" ")
        if len(t) != 5:
            continue
        name, send_t, _sync_t, tr, ans = t
        handle = name in ("Sender", "AsyncSender", "Receiver", "AsyncReceiver")
        if send_t == "true" and (handle or tr == "send") and ans != "true":
            wrong.append(f"rustc: {name}<T> is not {tr.capitalize()} for a T that is Send (T: Sync = {_sync_t})")
        if send_t == "false" and ans != "false":
            wrong.append(f"rustc: {name}<T> is {tr.capitalize()} for a T that is not Send")
    if wrong:
        return [{"kind": "probe", "seed": seed, "failures": wrong[:6]}]
    if p.returncode != 0 or len(model) != 56 or model != rustc:
        diff = [f"model: {m} | rustc: {r}" for m, r in zip(model, rustc) if m != r][:6]
        return [{"kind": "probe", "seed": seed, "failures": diff or [f"probes exited {p.returncode} / table sizes {len(model)} vs {len(rustc)}: {p.stdout[-300:]}"]}]
    return []


LIN_MACROS = {"send": 4, "sendt": 2, "sendot": 2, "try": 3, "recv": 4, "recvt": 2, "tryr": 3, "drain": 2, "asend1": 2, "asend2": 2, "asenddrop": 2,
              "arecv1": 2, "arecv2": 2, "arecvdrop": 2, "stream3": 1, "close": 1, "len": 1, "isfull": 1, "scount": 1, "rcount": 1, "isclosed": 1,
              "clones": 1, "drops": 1, "dropr": 1, "isdisc": 1}
LIN_STRATS = ("random", "uniform", "pct:2", "pct:3", "after:unlock:1", "after:unlock:2", "after:unlock:3", "after:st:1", "after:pwrite:1", "after:pread:1", "after:guard:2")
FLAVOUR_MACROS = dict(MIXED, convs=3, convr=3, clonesx=3, clonerx=3, scount=1, rcount=1)


def observer_templates():
    """Every observer raced against calls that change each of the things it reads: the observing thread first gives
    up its own sender (so that counts can reach zero), observes, then looks at what is really there."""
    out = []
    for obs in ("isterm r", "isdisc r", "isdisc s", "len r", "isempty r", "isfull s", "scount r", "rcount s", "isclosed s"):
        for cap in ("1", "u"):
            if obs.endswith(" r"):
                out.append(f"cap={cap} class=w par=1 seed=1 strategy=random tickp=30\nt0: drop s;{obs};tryr 0\nt1: send 31;drop s\n")
            else:
                out.append(f"cap={cap} class=w par=1 seed=1 strategy=random tickp=30\nt0: drop r;{obs};try 2 0 0\nt1: tryr 0;drop r\n")
            out.append(f"cap={cap} class=w par=1 seed=1 strategy=random tickp=30\nt0: {obs};{obs}\nt1: send 31;drop s;drop r\nt2: tryr 0;close r\n")
    return out


def lin_c03(tier, seed):
    n = 150 if tier == "quick" else 4000
    p = Profile("lin", LIN_MACROS, threads=(2, 3), ops=(1, 2), classes=("w",), n=n, strategies=LIN_STRATS, extra="tickp=30")
    p.templates = observer_templates()
    return [(p, 6 if tier == "quick" else 12)]


PROPS = {
    "C03": dict(simple("C03", "proof", lambda tier, seed: fams_c18(tier, seed)[:2], conc_prof("atomic", MIXED, ["mutex", "stuck", "fifo", "capacity"]),
                       lambda d: True,
                       "the model is the atomic channel (call = one atomic step; blocking call = register + complete); every state incl. hand-off windows satisfies all invariants; finalize changes only the waiter's own state/wake log; a claimed waiter is invisible to everybody else; one lock acquisition per critical section (extracted); linearizability oracle: outcomes of scheduled runs of small programs must be in the model's outcome set over all interleavings (specexplore)",
                       extra_files=["Kanal/Tie.lean"]),
                lin=lin_c03),
    "C09": simple("C09", "proof", lambda tier, seed: fams_c12(tier, seed)[:2] + fams_c18(tier, seed)[:1] + [
                      # deep wait lists behind handles of the other flavour: up to four pending futures per side, cancel any, serve through sync calls
                      Family("pending-mixed", "exh", "PQSRyv", "0,1", depth=(5 if tier == "quick" else 6), configs=("w:s", "l:a"))],
                  conc_prof("flavours", FLAVOUR_MACROS, ["stuck", "wake", "fifo", "mutex"]),
                  lambda d: True,
                  "flavour does not exist in the model: every invariant is over Reach with arbitrary alternation of sync/async labels; wake path chosen by the waiter's kind; hand-off uniform in the waiter's kind; conversions are the identity; handles are repr(C) one-field wrappers (extracted)",
                  extra_files=["Kanal/Tie.lean"]),
    "C20": dict(
        level="proof",
        lean_targets=["Kanal.Props.C20", "Kanal.Tie", "traittable"],
        props_files=["Kanal/Props/C20.lean"],
        leancheck=["Kanal.Props.C20", "Kanal.AutoTrait"],
        families=lambda tier, seed: [],
        extra_checks=[probe_check],
        relevant=lambda d: True,
        trusted=["std / lock_api auto-trait rules as tabulated in Kanal/AutoTrait.lean (cross-checked by 56 rustc probes every run)",
                 "extractor's type parser (struct fields -> Ty)"],
        assumptions=COMMON_ASSUME + ["auto-trait derivation depends on T only through T: Send and T: Sync"],
        explanation="auto-trait solver model over the extracted struct fields and unsafe impls: for T: Send all handles Send+Sync and futures/stream Send; for T: !Send none; verdict depends on the two bits only; proved failure when the bound is dropped; the model's 56 verdicts are compared with rustc's on every run",
    ),
    "C04": dict(
        level="proof",
        lean_targets=["Kanal.Props.C04", "Kanal.Tie"],
        props_files=["Kanal/Props/C04.lean", "Kanal/Tie.lean"],
        leancheck=["Kanal.Props.C04", "Kanal.PtrM"],
        families=lambda tier, seed: ([Family("classes3", "exh", "SYRVDABo", "0,1", depth=3, configs=("z:s", "b:a", "w:s", "l:a", "p:a", "q:s")),
                                      Family("classes-futdrop5", "exh", "PQyvd", "0,1", depth=5, configs=("p:a", "q:a", "b:s"))] if tier == "quick" else
                                     [Family("classes4", "exh", "SYRVDABo", "0,1,2", depth=4, configs=ALLCFG)]),
        conc=conc_prof("payload", MIXED, ["ptr", "stuck"], oracles=("ledger", "lifetime")),
        extra_checks=[integrity_check],
        relevant=rel_tokens(r"\bv\d+|drained \d+ \[[\d,]*\]|panic"),
        trusted=["rustc lays T out in size_of::<T>() bytes and ptr::read/write/copy move exactly those bytes (Rust semantics)",
                 "harness integrity runs / ptr hook events"],
        assumptions=COMMON_ASSUME + ["alignment is not modelled (no role in the copy logic); over-aligned and padded types are covered by the integrity runs on the real crate"],
        explanation="byte-level model of KanalPtr with every size test taken from the extractor: each transfer path returns exactly the bytes sent for every pointer size P>0 and every size n (zst/smaller/equal/larger), nothing uninitialised; zst touches nothing; proved failure with >= ; ptr hook events of scheduled runs checked against the model's branch; integrity runs over 15 concrete types x all paths x sync/timed/async",
    ),
    "C06": dict(extra_c0607("C06"),
                families=lambda tier, seed: [Family("pending5", "exh", "PQyvdc", "0,1", depth=5, configs=("w:s", "l:a")),
                                             Family("refill5", "exh", "PSRUvd", "1,2", depth=5, configs=("w:s", "l:a")),
                                             # a waiting receiver / sender must be served (and woken) by every try variant, the realtime ones included, at every capacity
                                             Family("rt-waiters", "exh", "PQYVd", "1,2,u", depth=4, configs=("w:s", "l:a"))] if tier == "quick" else
                                            [Family("pending7", "exh", "PQyvdc", "0,1,2", depth=7, configs=("w:s", "l:a")),
                                             Family("refill7", "exh", "PSRUvd", "1,2", depth=7, configs=("w:s", "l:a", "b:a")),
                                             Family("rt-waiters", "exh", "PQYVd", "1,2,u", depth=5, configs=("w:s", "l:a"))],
                conc=lambda tier, seed: conc_prof("progress", PARK_MACROS, ["stuck", "wake", "orderings", "proto"], oracles=("ledger", "lifetime", "timeout"),
                               qn=400, tn=12000, strategies=STRATS + ("after:park:1", "after:cas:2", "after:unpark:1"))(tier, seed) +
                                        conc_prof("refill", {"send": 6, "recvt": 4, "recv": 2, "tryr": 2, "asend1": 2, "sendt": 1, "drain": 1}, ["stuck", "wake"],
                               oracles=("ledger", "timeout"), qn=300, tn=8000, caps=("1", "2"), threads=(2, 3), ops=(2, 4))(tier, seed),
                conc_corpus=["D5_recv_future_waker_race.prog"], conc_corpus_monitors=["wake"],
                relevant=rel_tokens(r" w\d+|pending|err:Closed"),
                explanation="channel level: a listed waiter cannot complete yet, a registered undecided waiter is listed, a claimed waiter can always be finalised and a final one can return; signal level (SigM, extracted orderings): no lost wake-up incl. spurious unparks and spin->park, future's waker woken exactly once, every own step of the waiter decreases a rank once the peer is done, peer never waits; negative run without unpark"),
    "C07": dict(extra_c0607("C07"),
                families=lambda tier, seed: [],
                conc=conc_prof("handoff", PARK_MACROS, ["orderings", "peerproto", "wakerlife", "mutex", "stuck", "proto"], oracles=("lifetime", "ledger"),
                               qn=500, tn=15000, strategies=STRATS + ("after:park:1", "after:cas:2", "after:unpark:1", "after:cell:2")),
                conc_corpus=["D5_recv_future_waker_race.prog"], conc_corpus_monitors=["wake", "peerproto"],
                relevant=lambda d: True,
                explanation="SigM invariant (20 conjuncts) inductive over every waiter/peer interleaving for all three waiter kinds and both final states: no race on slot or handle cell, no peer access after the owner is gone, the waiter sees the peer's final state with synchronisation; instantiated with the extracted orderings; proved counterexamples with a relaxed store / without the fence"),
    "C13": simple("C13", "proof", fams_c13,
                  conc_prof("timed", TIMED_MACROS, ["stuck"], caps=("0", "1", "2"),
                            strategies=("random", "uniform", "pct:3", "after:now:1", "after:now:3", "after:now:6", "after:unlock:2", "after:pread:1", "after:pwrite:1", "after:st:1")),
                  rel_ops("sendt", "sendot", "recvt"),
                  "Timeout only from the expiry steps; expiry of a still-listed waiter = Timeout with the value back/destroyed once and never delivered later, waiter gone and dead, others keep order; expiry of a claimed waiter keeps waiting; completion reports the decided outcome; trichotomy",
                  corpus=["D2_send_option_timeout_double_drop.prog"]),
    "C14": simple("C14", "proof", fams_c14,
                  conc_prof("nonblocking", TRY_MACROS, ["nonblocking", "realtime", "mutex"], oracles=("ledger", "lifetime"), strategies=FREEZE),
                  rel_ops("try", "tryr", "drain"),
                  "try_*/drain never answer blocked nor register; refused try_send leaves the channel unchanged up to the stale flag; success iff the value moved; try_recv value iff taken; realtime = one try_lock step (MutexM) used exactly by the *_realtime entry points"),
    "C15": simple("C15", "proof", fams_c15,
                  conc_prof("future-drop", DROP_MACROS, ["stuck", "wakerlife"], strategies=STRATS),
                  rel_tokens(r"\bv\d+| d\d+| w\d+|leak|dbl|pending|panic"),
                  "drop of a send/receive future in every state: value destroyed once / delivered once / nothing; claimed-not-finalised: Drop waits; afterwards dead, out of the wait list (erase keeps the others' order), never touched again"),
    "C16": simple("C16", "proof", fams_c16,
                  conc_prof("polling", POLL_MACROS, ["wake", "stuck"], strategies=STRATS),
                  rel_tokens(r"\bv\d+| w\d+|pending|panic|end|err:\w+"),
                  "spurious poll = Pending + waker refreshed, nothing else; every Pending leaves the supplied waker registered; only the future's own polls change its waker and finalize wakes exactly it; no invented value; finished future panics, ended stream keeps ending; listed stream future is re-armed; negative theorems for D3/D4",
                  corpus=["D5_recv_future_waker_race.prog"], corpus_mon=["wake"]),
    "C02": simple("C02", "proof", fams_c02, conc_prof("fifo", FIFO_MACROS, ["fifo", "stuck"], caps=("0", "1", "2")),
                  rel_tokens(r"\bv\d+|drained \d+ \[[\d,]*\]"),
                  "Fifo invariant (accepted minus withdrawn = delivered ++ buffer ++ blocked senders, in order) proved inductive over every step; corollaries: delivery respects acceptance order, nothing overtakes, one drain returns acceptance order"),
    "C08": simple("C08", "proof", fams_c08, conc_prof("capacity", MIXED, ["capacity", "stuck"]),
                  rel_ops("send", "sendt", "sendot", "try", "polls", "len", "isfull", "isempty", "capacity", "isbounded", "recv", "recvt", "tryr", "pollr", "drain"),
                  "buffer length within capacity in every reachable state; refusal iff no waiting receiver and no room; unbounded never refuses/waits; capacity 0 never buffers; counting identity accepted-not-blocked minus delivered = buffer length"),
    "C10": simple("C10", "proof", fams_c10, conc_prof("close", CLOSE_MACROS, ["close", "stuck"]),
                  rel_ops("close", "isclosed", "scount", "rcount", "send", "sendt", "sendot", "try", "recv", "recvt", "tryr", "drain", "polls", "pollr", "clone", "conv"),
                  "close succeeds exactly once; at its critical section every waiter is terminated and woken, the buffer destroyed, counts zero; afterwards every entry point answers Closed and the delivery log never grows"),
    "C11": simple("C11", "proof", fams_c11, conc_prof("disconnect", DISC_MACROS, ["disconnect", "stuck"]),
                  rel_ops("drop", "clone", "isdisc", "isterm", "recv", "recvt", "tryr", "pollr", "send", "sendt", "sendot", "try", "polls", "drain"),
                  "no disconnect error while a handle of the other side lives (via C12); after the last sender: wait list empty, receives drain the buffer in order then SendClosed; the last drop of a side terminates all waiters; after the last receiver sends fail with ReceiveClosed and the value never reaches a receiver (cust_stable)"),
    "C01": dict(
        level="proof",
        lean_targets=["Kanal.Props.C01"],
        props_files=["Kanal/Props/C01.lean"],
        leancheck=["Kanal.Props.C01", "Kanal.Lemmas.Ledger", "Kanal.Lemmas.Struct"],
        families=fams_ledger,
        conc=conc_ledger,
        conc_corpus=["D2_send_option_timeout_double_drop.prog", "D5_recv_future_waker_race.prog"],
        relevant=rel_tokens(r"\bv\d+|drained \d+ \[[\d,]*\]| d\d+|kept"),
        trusted=["specgen/seqdrv text protocol", "conc scheduler + ledger oracle (harness)", "payload bytes: C04"],
        assumptions=COMMON_ASSUME + ["the model's steps are critical sections and final stores; the physical copy of a value happens between a peer's critical section and its final store, while nobody else may touch the slot (C07)"],
        explanation="Ledger invariant (custody of every message = where it physically is) proved inductive over every step incl. hand-off windows; corollaries: received values distinct and all offered, every offered value in exactly one accounted place, places exclusive; negative theorems for D1/D3 variants",
    ),
    "C05": dict(
        level="proof",
        lean_targets=["Kanal.Props.C05"],
        props_files=["Kanal/Props/C05.lean"],
        leancheck=["Kanal.Props.C05", "Kanal.Lemmas.Ledger"],
        families=fams_ledger,
        conc=lambda tier, seed: conc_ledger(tier, seed, "mixed-drops"),
        conc_corpus=["D2_send_option_timeout_double_drop.prog"],
        relevant=rel_tokens(r" d\d+|kept|leak|dbl"),
        trusted=["specgen/seqdrv text protocol", "conc scheduler + ledger oracle (harness)", "Rust runs each value's destructor exactly when the model logs a drop (scope-end drops, MaybeUninit, forget): observed through payload Drop events"],
        assumptions=COMMON_ASSUME,
        explanation="drop log duplicate-free and disjoint from received values in every reachable state; Option variants hand back exactly on failure; after the last handle is gone every offered value is received, destroyed once or handed back (c05_no_leak); negative theorem for the D1 variant",
    ),
    "C17": dict(
        level="proof",
        lean_targets=["Kanal.Props.C17", "Kanal.Tie", "protocheck"],
        props_files=["Kanal/Props/C17.lean", "Kanal/Tie.lean"],
        leancheck=["Kanal.Props.C17", "Kanal.Tie", "Kanal.MutexM"],
        families=lambda tier, seed: [],
        conc=conc_c17,
        relevant=lambda d: True,
        trusted=["permission-transfer reading of release/acquire (not full C11)", "extractor reads the orderings of mutex.rs; cross-checked against the orderings the lock actually receives at run time (mutex monitor)"],
        assumptions=COMMON_ASSUME + ["starvation-freedom under contention is not claimed (spin lock); progress = the attempt after a release succeeds unless another contender won"],
        explanation="MutexM theorems for any number of threads and both parallelism branches of spin_cond, instantiated with the extracted orderings/constants (c17_this_tree); lock events of scheduled runs of the real crate are monitored for overlap, for the ordering arguments, and realtime calls for single-attempt/no-wait",
    ),
    "C19": dict(
        level="proof",
        lean_targets=["Kanal.Props.C19", "Kanal.Tie"],
        props_files=["Kanal/Props/C19.lean", "Kanal/Tie.lean"],
        leancheck=["Kanal.Props.C19"],
        families=fams_c19,
        conc=conc_prof("drain", {"drain": 6, "send": 5, "sendt": 1, "try": 3, "asend1": 2, "asend2": 1, "recv": 1, "tryr": 1, "close": 1},
                       ["drain", "fifo", "stuck", "nonblocking"], caps=("0", "1", "2", "u"),
                       strategies=STRATS + ("after:guard:1", "after:guard:2", "after:unlock:3")),
        relevant=rel_ops("drain"),
        trusted=["specgen/seqdrv text protocol", "Vec::reserve / push only affect allocation, never earlier contents (Rust std); the driver checks the prefix of a pre-filled vector on every drain"],
        assumptions=COMMON_ASSUME + ["drain_into is one critical section (no lock release between the buffer loop and the sender loop): concurrent senders are ordered entirely before or after it"],
        explanation="c19_drain: result = buffer ++ blocked senders' values in list order, reported count = number appended, in every state; c19_releases: exactly the taken senders are finalised ok; c19_closed; c19_receivers_waiting; c19_nonblocking",
    ),
    "C12": dict(
        level="proof",
        lean_targets=["Kanal.Props.C12"],
        props_files=["Kanal/Props/C12.lean"],
        leancheck=["Kanal.Props.C12"],
        families=fams_c12,
        # concurrent clone / convert / drop / close with observers: every observed count is compared with the model (follow) and with the close monitor
        conc=conc_prof("handles", {"clones": 5, "cloner": 5, "drops": 3, "dropr": 3, "convs": 2, "convr": 2, "clonesx": 2, "clonerx": 2, "scount": 5, "rcount": 5,
                                   "isclosed": 3, "close": 2, "try": 2, "tryr": 2, "send": 1, "recv": 1},
                       ["close", "disconnect", "mutex"], oracles=("ledger", "lifetime"), qn=300, tn=8000, caps=("1", "u"), ops=(2, 4)),
        relevant=rel_ops("scount", "rcount", "isclosed", "clone", "drop", "conv", "close"),
        trusted=["specgen/seqdrv text protocol", "counts are Nat in the model: the u32 wrap at 2^32 live handles is outside the model"],
        assumptions=COMMON_ASSUME + ["theorems are over the atomic-channel model (every call one atomic step, blocking calls register+complete); the interleaving-level lift is DESIGN §3.3"],
        explanation="CountInv proved inductive over every atomic step (all labels): counters = live-handle ledger while open, zero for ever once closed; conversions are the identity on the state",
    ),
    "C18": dict(
        level="translation_validation",
        lean_targets=["Kanal.Props.C18"],
        props_files=["Kanal/Props/C18.lean"],
        families=fams_c18,
        relevant=lambda d: True,
        trusted=["specgen (Lean oracle generator) and seqdrv (Rust driver) text protocol"],
        assumptions=COMMON_ASSUME + [
            "C18's quantifier (all call sequences) is covered by the differential: exhaustively to the family's depth over the stated alphabets, randomly beyond; blocking calls are issued only where the oracle says they return (a call that does not return is reported as a hang)",
        ],
        explanation="reference = the atomic-channel model read sequentially (Kanal.seqStep); theorems: the oracle is total on exactly the calls safe Rust can make, deterministic, and the textbook bounded FIFO queue when nobody waits",
    ),
}

# Tie by translation (Kanal/TieCode.lean): which "generated code = fine-grained model" theorems each property rests on
_T_BASE = ["translation_complete", "translated_functions", "glue_ok", "new_eq", "constructor_calls"]
_T_INTERNAL = ["next_send_eq", "next_recv_eq", "push_send_eq", "push_recv_eq", "terminate_signals_eq", "cancel_loop", "cancel_send_eq",
               "cancel_recv_eq", "exists_loop", "send_exists_eq", "recv_exists_eq"]
_T_SEND = ["try_send", "try_send_option", "try_send_realtime", "try_send_option_realtime", "send", "send_timeout", "send_option_timeout", "poll_send"]
_T_RECV = ["try_recv", "try_recv_realtime", "recv", "recv_timeout", "poll_recv", "drain_queue_loop", "drain_senders_loop", "drain_into"]
_T_FUT = ["drop_send_fut", "drop_recv_fut", "poll_send", "poll_recv", "poll_next"]
_T_DROPS = ["drop_sender", "drop_async_sender", "drop_receiver", "drop_async_receiver"]
_T_CLONES = ["clone_sender", "clone_async_sender", "sender_clone_async", "async_sender_clone_sync", "clone_receiver", "clone_async_receiver",
             "receiver_clone_async", "async_receiver_clone_sync"]
_T_OBS = ["is_bounded", "len", "is_empty", "is_full", "capacity", "receiver_count", "sender_count", "is_closed", "is_disconnected_send",
          "is_disconnected_recv", "is_terminated"]
_T_TIMED = ["send_timeout", "send_option_timeout", "recv_timeout"]
_T_ALL = _T_INTERNAL + _T_SEND + _T_RECV + _T_FUT + _T_DROPS + _T_CLONES + _T_OBS + ["close"]
TIE_CODE = {
    "C01": _T_INTERNAL + _T_SEND + _T_RECV + _T_FUT + _T_DROPS + ["close"],
    "C02": _T_INTERNAL + _T_SEND + _T_RECV + _T_FUT,
    "C03": _T_ALL,
    "C04": _T_INTERNAL + _T_SEND + _T_RECV + _T_FUT,
    "C05": _T_INTERNAL + _T_SEND + _T_FUT + _T_DROPS + ["close", "recv", "recv_timeout", "drain_into"],
    "C06": _T_INTERNAL + _T_SEND + _T_RECV + _T_FUT + _T_DROPS + ["close"],
    "C07": _T_INTERNAL + _T_TIMED + _T_FUT,
    "C08": _T_INTERNAL + _T_SEND + _T_RECV + ["is_full", "len", "capacity", "is_bounded"],
    "C09": _T_ALL,
    "C10": _T_INTERNAL + _T_SEND + _T_RECV + _T_OBS + ["close"],
    "C11": _T_INTERNAL + _T_SEND + _T_RECV + _T_DROPS + _T_CLONES + ["is_disconnected_send", "is_disconnected_recv", "is_terminated"],
    "C12": _T_DROPS + _T_CLONES + ["sender_count", "receiver_count", "close", "is_closed", "terminate_signals_eq"],
    "C13": _T_INTERNAL + _T_TIMED,
    "C14": _T_INTERNAL + ["try_send", "try_send_option", "try_send_realtime", "try_send_option_realtime", "try_recv", "try_recv_realtime",
                          "drain_queue_loop", "drain_senders_loop", "drain_into"],
    "C15": _T_INTERNAL + _T_FUT,
    "C16": _T_INTERNAL + _T_FUT,
    "C18": _T_ALL,
    "C19": _T_INTERNAL + ["drain_queue_loop", "drain_senders_loop", "drain_into"],
}

for _pid, _spec in PROPS.items():
    if _spec.get("conc") is not None:
        _spec["conc"] = with_windows(_pid, _spec["conc"])
    if _pid in TIE_CODE:
        _spec["tie_code"] = sorted(set(_T_BASE + TIE_CODE[_pid]), key=(_T_BASE + _T_ALL).index)
        _spec["lean_targets"] = list(_spec.get("lean_targets", [])) + ["Kanal.TieCode"]

# further theorem files (each ends with its own `#print axioms` audit)
EXTRA_FILES = {
    "C06": ["Kanal/Props/C06Fair.lean", "Kanal/Props/C06Chan.lean", "Kanal/Props/C06Async.lean",    # eventual completion under weak fairness
            "Kanal/TieProto.lean", "Kanal/ProtoSim.lean", "Kanal/TiePaths.lean",
            "Kanal/Own.lean", "Kanal/TieDiscipline.lean", "Kanal/Props/C06Code.lean"],                   # every waiter a call takes out of the wait list gets its one final store before the call returns
    "C18": ["Kanal/Bridge.lean", "Kanal/Bridge2.lean", "Kanal/Refine/Congr.lean", "Kanal/Refine/Step.lean", "Kanal/Refine/Exec.lean", "Kanal/Refine/Raw.lean", "Kanal/Refine/Mach.lean"],                                                                  # Fine read sequentially = Spec.step
    "C03": ["Kanal/Sections.lean", "Kanal/SpecSections.lean", "Kanal/Refine/Exec.lean", "Kanal/Refine/Mach.lean", "Kanal/Refine/Movers.lean"],   # + segment-atomic executions of the code are executions of Spec
    # translated signal.rs / mutex.rs / spin_cond conform to SigM / MutexM (TieProto), and conformance is adequate (ProtoSim)
    "C07": ["Kanal/TieProto.lean", "Kanal/ProtoSim.lean", "Kanal/TiePaths.lean", "Kanal/Props/C07Pin.lean",   # + the futures are !Unpin
            "Kanal/Own.lean", "Kanal/NoDangle.lean", "Kanal/TieDiscipline.lean", "Kanal/WakerReg.lean"],     # one peer per popped signal, exactly once; no frame dies while its signal can be touched
    "C17": ["Kanal/TieProto.lean", "Kanal/ProtoSimMutex.lean", "Kanal/TiePaths.lean", "Kanal/NoWaitLocked.lean"],
    "C13": ["Kanal/TieProto.lean", "Kanal/NoDangle.lean", "Kanal/TieDiscipline.lean", "Kanal/Disp.lean", "Kanal/Reasons.lean"],   # + on Timeout the value is handed back or dropped once (Disp)            # wait_timeout / is_terminated; a timed call returns only unexposed
    "C16": ["Kanal/TieProto.lean", "Kanal/WakerReg.lean"],   # + every Pending leaves this poll's waker registered; the slot is written only unexposed or listed-under-lock            # poll, will_wake, register_waker, the constructors (a signal starts LOCKED)
    "C15": ["Kanal/TieProto.lean", "Kanal/Props/C07Pin.lean", "Kanal/NoDangle.lean", "Kanal/TieDiscipline.lean"],   # async_blocking_wait in Drop; Drop is what un-registers a future: it cannot be moved before
    "C11": ["Kanal/Reasons.lean"],       # an error is answered only for its reason (Closed / SendClosed / ReceiveClosed tests on the state the section bound, or a failed wait)
    "C14": ["Kanal/Props/C14Fine.lean", "Kanal/NoWaitLocked.lean"],   # + whoever holds the channel lock never waits for a peer: try_* can only be delayed by straight-line sections
    "C01": ["Kanal/Disp.lean", "Kanal/Deliver.lean", "Kanal/RoleOK.lean"],     # on the translated code: a sent value is disposed of exactly once; a value taken out of the channel is delivered exactly once
    "C19": ["Kanal/Deliver.lean", "Kanal/RoleOK.lean"],                         # drain_into: every value taken is pushed, the count is the number pushed
    "C04": ["Kanal/TiePtr.lean", "Kanal/RoleOK.lean"],              # pointer.rs translated: its operation lists compute PtrM's functions for every size, memory and word
    "C05": ["Kanal/TiePtr.lean", "Kanal/Disp.lean", "Kanal/Deliver.lean"],              # … and a value passed by value is consumed exactly once (moved or bit-copied + forgotten)
    "C02": ["Kanal/Props/RealTime.lean", "Kanal/Shape.lean"],      # real-time readings over executions: acceptance order in time, later value never taken first, drain order
    "C08": ["Kanal/Props/RealTime.lean", "Kanal/Shape.lean"],      # at every instant of an execution: accepted-and-unblocked minus delivered <= n; rendezvous
    "C10": ["Kanal/Props/RealTime.lean", "Kanal/Reasons.lean"],      # after close has returned: nothing delivered, every later call answers closed       # realtime variants on the translated code: one tryLock, busy => not done, never waits   # interleaving machine: the logical state moves by whole critical sections = Chan functions
}
for _pid in ("C07", "C15"):
    PROPS[_pid]["extra_checks"] = list(PROPS[_pid].get("extra_checks", [])) + [pin_check]
    PROPS[_pid]["lean_targets"] = list(PROPS[_pid].get("lean_targets", [])) + ["traittable"]
for _pid, _files in EXTRA_FILES.items():
    PROPS[_pid]["props_files"] = list(PROPS[_pid]["props_files"]) + _files
    PROPS[_pid]["lean_targets"] = list(PROPS[_pid].get("lean_targets", [])) + [f[:-5].replace("/", ".") for f in _files]
