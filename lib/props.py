"""Per-property configuration of ./check: Lean obligations, differential families, relevance of a disagreement."""
import re
from vlib import Family
from conc import Profile

FULL = "STYRUVDABMHCO"
ALLCFG = ("z:s", "b:a", "w:s", "w:a", "l:s", "l:a", "b:s", "z:a")
QCFG = ("w:s", "l:a")

COMMON_ASSUME = [
    "Lean 4.33 kernel; axioms limited to propext / Classical.choice / Quot.sound (audited by #print axioms on every theorem)",
    "the Lean model is hand-written; it is tied to /repo by (a) the fact extractor + tie theorems, (b) the sequential differential against the real crate run by this check; behaviours outside the explored sequences are tied only through (a)",
    "a critical section is atomic (C17 theorem + Rust's guard typing); Rust's own semantics for moves, drops, MaybeUninit and ptr::read/write",
    "default cargo features (async, kanal's own spin mutex); std-mutex and no-async builds are not modelled",
]


def fams_c18(tier, seed):
    if tier == "quick":
        return [
            Family("full3", "exh", FULL, "0,1,2,u", depth=3, configs=QCFG),
            Family("async5", "exh", "SyvABMc", "0,1", depth=5, configs=("l:a", "b:s")),
            Family("stream6", "exh", "Myvc", "0,1", depth=6, configs=("w:s",)),
            Family("rand40", "rand", FULL + "w", "0,1,2,u", length=40, n=4000, configs=("w:a", "z:s", "l:s")),
        ]
    return [
        Family("full3", "exh", FULL, "0,1,2,u", depth=3, configs=ALLCFG),
        Family("full4r", "exh", "STyRUvdABMhco", "0,1,2,u", depth=4, configs=("w:s", "l:a", "b:a", "z:s")),
        Family("async6", "exh", "SyvABMc", "0,1,2", depth=6, configs=("l:a", "b:s", "w:a")),
        Family("stream7", "exh", "Myvc", "0,1,u", depth=7, configs=("w:s", "l:a")),
        Family("timed5", "exh", "TUyvAc", "0,1", depth=5, configs=("w:s", "l:a")),
        Family("rand60", "rand", FULL + "w", "0,1,2,u", length=60, n=40000, configs=ALLCFG),
    ]


def first_op(d):
    fd = d.get("first_diff")
    return fd[1].split(" ")[0] if fd else "END"


def rel_ops(*names):
    names = set(names)
    return lambda d: first_op(d) in names or bool(d.get("monitor"))


def fams_c12(tier, seed):
    if tier == "quick":
        return [
            Family("handles5", "exh", "HcK", "1", depth=5, configs=("w:s", "w:a")),
            Family("handles4mix", "exh", "HCKyvAB", "0,u", depth=4, configs=("l:a",)),
            Family("rand-handles", "rand", "HCKyvABS", "0,1,u", length=50, n=3000, configs=("w:s", "b:a")),
        ]
    return [
        Family("handles6", "exh", "HcK", "1", depth=6, configs=("w:s", "w:a")),
        Family("handles5mix", "exh", "HCKyvAB", "0,u", depth=5, configs=("l:a", "w:s")),
        Family("rand-handles", "rand", "HCKyvABS", "0,1,u", length=80, n=40000, configs=("w:s", "b:a", "l:s", "z:a")),
    ]


def fams_c19(tier, seed):
    if tier == "quick":
        return [
            Family("drain5", "exh", "DyvAc", "0,1,2", depth=5, configs=("w:s", "l:a")),
            Family("drain4", "exh", "DSTyvABhc", "0,1,u", depth=4, configs=("b:a", "z:s")),
            Family("rand-drain", "rand", "DSTYyvABMhc", "0,1,2,u", length=40, n=3000, configs=("w:a", "l:s")),
        ]
    return [
        Family("drain6", "exh", "DyvAc", "0,1,2", depth=6, configs=("w:s", "l:a", "b:s", "z:a")),
        Family("drain5b", "exh", "DSTyvABhc", "0,1,u", depth=5, configs=("b:a", "z:s", "w:s", "l:a")),
        Family("rand-drain", "rand", "DSTYyvABMhc", "0,1,2,u", length=60, n=40000, configs=ALLCFG),
    ]


LOCK_MACROS = {"try": 4, "tryrt": 4, "tryr": 4, "tryrrt": 4, "len": 2, "scount": 1, "send": 2, "recv": 2, "clones": 1, "drain": 1, "asend1": 1, "arecv1": 1}


def conc_c17(tier, seed):
    n = 300 if tier == "quick" else 6000
    return [
        (Profile("lock-contention", LOCK_MACROS, threads=(2, 4), ops=(2, 4), caps=("1", "2", "u"), n=n,
                 strategies=("random", "uniform", "pct:2", "pct:4", "after:lock:1", "after:guard:2", "after:lock:3")),
         ["mutex", "realtime", "stuck"], ["lifetime"]),
    ]


PROPS = {
    "C17": dict(
        level="proof",
        lean_targets=["Kanal.Props.C17", "Kanal.Tie"],
        props_files=["Kanal/Props/C17.lean", "Kanal/Tie.lean"],
        leancheck=["Kanal.Props.C17", "Kanal.Tie", "Kanal.MutexM"],
        families=lambda tier, seed: [],
        conc=conc_c17,
        relevant=lambda d: True,
        trusted=["permission-transfer reading of release/acquire (not full C11)", "extractor reads the orderings of mutex.rs; cross-checked against the orderings the lock actually receives at run time (mutex monitor)"],
        assumptions=COMMON_ASSUME + ["starvation-freedom under contention is not claimed (spin lock); progress = the attempt after a release succeeds unless another contender won"],
        explanation="MutexM theorems for any number of threads and both parallelism branches of spin_cond, instantiated with the extracted orderings/constants (c17_this_tree); lock events of scheduled runs of the real crate are monitored for overlap, for the ordering arguments, and realtime calls for single-attempt/no-wait",
    ),
    "C19": dict(
        level="proof",
        lean_targets=["Kanal.Props.C19"],
        props_files=["Kanal/Props/C19.lean"],
        leancheck=["Kanal.Props.C19"],
        families=fams_c19,
        relevant=rel_ops("drain"),
        trusted=["specgen/seqdrv text protocol", "Vec::reserve / push only affect allocation, never earlier contents (Rust std); the driver checks the prefix of a pre-filled vector on every drain"],
        assumptions=COMMON_ASSUME + ["drain_into is one critical section (no lock release between the buffer loop and the sender loop): concurrent senders are ordered entirely before or after it"],
        explanation="c19_drain: result = buffer ++ blocked senders' values in list order, reported count = number appended, in every state; c19_releases: exactly the taken senders are finalised ok; c19_closed; c19_receivers_waiting; c19_nonblocking",
    ),
    "C12": dict(
        level="proof",
        lean_targets=["Kanal.Props.C12"],
        props_files=["Kanal/Props/C12.lean"],
        leancheck=["Kanal.Props.C12"],
        families=fams_c12,
        relevant=rel_ops("scount", "rcount", "isclosed", "clone", "drop", "conv", "close"),
        trusted=["specgen/seqdrv text protocol", "counts are Nat in the model: the u32 wrap at 2^32 live handles is outside the model"],
        assumptions=COMMON_ASSUME + ["theorems are over the atomic-channel model (every call one atomic step, blocking calls register+complete); the interleaving-level lift is DESIGN §3.3"],
        explanation="CountInv proved inductive over every atomic step (all labels): counters = live-handle ledger while open, zero for ever once closed; conversions are the identity on the state",
    ),
    "C18": dict(
        level="translation_validation",
        lean_targets=["Kanal.Props.C18"],
        props_files=["Kanal/Props/C18.lean"],
        families=fams_c18,
        relevant=lambda d: True,
        trusted=["specgen (Lean oracle generator) and seqdrv (Rust driver) text protocol"],
        assumptions=COMMON_ASSUME + [
            "C18's quantifier (all call sequences) is covered by the differential: exhaustively to the family's depth over the stated alphabets, randomly beyond; blocking calls are issued only where the oracle says they return (a call that does not return is reported as a hang)",
        ],
        explanation="reference = the atomic-channel model read sequentially (Kanal.seqStep); theorems: the oracle is total on exactly the calls safe Rust can make, deterministic, and the textbook bounded FIFO queue when nobody waits",
    ),
}
