"""Concurrent correspondence: programs run on the real crate under the controlled scheduler
(harness/target/release/conc), implementation-side monitors evaluated on the event traces."""
import os, re, subprocess, random, hashlib, zlib
from collections import Counter
from concurrent.futures import ThreadPoolExecutor

ROOT = os.path.dirname(os.path.dirname(os.path.abspath(__file__)))
CONC = os.path.join(ROOT, "harness", "target", "release", "conc")
GENERATED = os.path.join(ROOT, "lean", "Kanal", "Generated.lean")
ORD_TXT = {".relaxed": "rlx", ".acquire": "acq", ".release": "rel", ".acqRel": "acqrel", ".seqCst": "sc"}


def extracted_orderings():
    """Orderings the extractor read from the source, in the trace's spelling."""
    txt = open(GENERATED).read()
    out = {}
    for name in ("mutex_try_lock", "mutex_unlock", "signal_wake", "signal_wait", "signal_wait_timeout", "signal_poll",
                 "signal_async_blocking_wait", "signal_is_terminated"):
        m = re.search(r"def atomics_%s : List AtomicSite := \[(.*)\]" % name, txt)
        sites = re.findall(r"⟨\.(\w+), \[([^\]]*)\]⟩", m.group(1)) if m else []
        out[name] = [(k, [ORD_TXT.get(o.strip(), "?") for o in os_.split(",") if o.strip()]) for k, os_ in sites]
    return out


# ---------------------------------------------------------------------------
# program generation
# ---------------------------------------------------------------------------

class Profile:
    """A family of concurrent programs: how many threads, which macro-ops, which scheduler settings."""
    def __init__(self, name, macros, threads=(2, 3), ops=(1, 3), caps=("0", "1", "2", "u"), classes=("w", "l", "b", "z", "p", "q"),
                 pars=("1", "4"), strategies=("random", "pct:2", "pct:3", "uniform"), n=100, extra=""):
        self.name, self.macros, self.threads, self.ops = name, macros, threads, ops
        self.caps, self.classes, self.pars, self.strategies, self.n, self.extra = caps, classes, pars, strategies, n, extra


# ---- window sweeps: small race templates x "freeze thread t right after its k-th event of kind K" ------------------
# Each template is a program body that sets up one race the properties talk about (a deadline against a close, a
# re-poll with another waker against a hand-off, a future's drop against the peer that claimed it, ...).  The sweep
# runs it once per (thread, event kind, k): that thread is frozen right after its k-th event of that kind while the
# others run on, and comes back when nobody else can move - a systematic exploration of every single-preemption
# schedule of the template at the granularity of the facade events.
# waker ids: 2 and 3 share their data pointer and differ in the vtable (harness: id = data << 1 | vtable)
WINDOW_TEMPLATES = {
    # timed waiters against close / disconnect / a peer (caps: 0 = rendezvous; 1 = full buffer for the senders)
    "timed-send-close":   ("0",  ["sendt 1 300", "close s"]),
    "timed-send-close-r": ("0",  ["sendot 1 300", "close r"]),
    "timed-send-disc":    ("0",  ["drop r;sendt 1 300", "drop r"]),
    "timed-sendo-disc":   ("0",  ["drop r;sendot 1 300", "drop r"]),
    # a deadline far away: the waiter must be released by the disconnect / close itself, not by its timeout (promptness rule of `stuck`)
    "timed-recv-disc-long": ("0",  ["drop s;recvt 90000000", "drop s"]),
    "timed-send-disc-long": ("0",  ["drop r;sendt 1 90000000", "drop r"]),
    "timed-recv-close-long": ("0", ["recvt 90000000", "close s"]),
    "timed-send-peer":    ("0",  ["sendt 1 300", "recv"]),
    "timed-sendo-peer":   ("0",  ["sendot 1 300", "tryr 0;tryr 0"]),
    "timed-recv-close":   ("0",  ["recvt 300", "close s"]),
    "timed-recv-disc":    ("0",  ["drop s;recvt 300", "drop s"]),
    "timed-recv-peer":    ("0",  ["recvt 300", "send 31"]),
    "timed-recv-try":     ("1",  ["recvt 300", "try 31 0 0;try 32 0 0"]),
    # the deadline passes while another thread is stalled inside a critical section (holds the channel lock)
    "timed-send-holder":  ("0",  ["sendt 1 300", "len s;isfull s;len s"]),
    "timed-sendo-holder": ("0",  ["sendot 1 300", "len s;scount r;len s"]),
    "timed-recv-holder":  ("0",  ["recvt 300", "len r;isclosed s;len r"]),
    # a pending future ahead of a timed sender: close / last-receiver drop has work to do under the lock
    "slow-close":         ("0",  ["asend 0 1;polls 0 2", "sendt 31 300", "close s"]),
    "slow-disc":          ("0",  ["drop r;asend 0 1;polls 0 2", "drop r;sendot 31 300", "drop r"]),
    # futures: re-poll with another waker / drop, against a peer or a close
    "repoll-recv-close":  ("0",  ["arecv 0;pollr 0 2;pollr 0 3;pollr 0 3", "close s"]),
    "repoll-recv-disc":   ("0",  ["drop s;arecv 0;pollr 0 2;pollr 0 3;pollr 0 3", "drop s"]),
    "repoll-recv-peer":   ("0",  ["arecv 0;pollr 0 2;pollr 0 3;pollr 0 3", "send 31"]),
    "repoll-send-close":  ("0",  ["asend 0 1;polls 0 2;polls 0 3;polls 0 3", "close r"]),
    "repoll-send-peer":   ("0",  ["asend 0 1;polls 0 2;polls 0 3;polls 0 3", "recv"]),
    "drop-recv-peer":     ("0",  ["arecv 0;pollr 0 2;droprf 0", "try 31 0 0"]),
    "drop-send-peer":     ("0",  ["asend 0 1;polls 0 2;dropsf 0", "tryr 0"]),
    "drop-recv-close":    ("0",  ["arecv 0;pollr 0 2;droprf 0", "close s"]),
    "drop-send-close":    ("0",  ["asend 0 1;polls 0 2;dropsf 0", "close r"]),
    "stream-rewait":      ("0",  ["stream 0;pollr 0 2;pollr 0 2;pollr 0 3;pollr 0 3", "send 31;send 32"]),
    # a wait of the stream completed through the changed-waker path (peer already holds the signal), then more polls with nothing sent
    "stream-rewait2":     ("0",  ["stream 0;pollr 0 2;pollr 0 3;pollr 0 3;pollr 0 3;pollr 0 2;pollr 0 2", "try 31 0 0"]),
    # buffer refill and drain against a third party
    "refill-race":        ("1",  ["send 1;send 2", "recv", "try 61 0 0;len s"]),
    "refill-race-t":      ("1",  ["send 1;send 2", "recvt 100000", "try 61 0 0;len s"]),
    "drain-race":         ("0",  ["send 1", "send 31", "drain 0"]),
    "drain-grow":         ("2",  ["send 1;send 2;send 3", "drain 0", "try 61 0 0"]),
    # blocked sync waiters released by close / last drop
    "park-close":         ("0",  ["recv", "close r"]),
    "park-disc":          ("0",  ["drop r;send 1", "drop r"]),
    "park-disc-r":        ("0",  ["drop s;recv", "drop s"]),
    "park-disc-a":        ("0 flav=sa",  ["drop r;send 1", "drop r"]),          # the last receive handle is an AsyncReceiver
    "park-disc-ra":       ("0 flav=as",  ["drop s;recv", "drop s"]),            # the last send handle is an AsyncSender
    "timed-send-disc-a":  ("0 flav=aa",  ["drop r;sendt 1 300", "drop r"]),
    # observers against a send+drop
    "observe":            ("u",  ["drop s;isterm r;tryr 0", "send 31;drop s"]),
    "two-close":          ("1",  ["try 1 0 0;close s", "close r;len r"]),
    # realtime tries that are REFUSED (no receiver left / closed): still one lock attempt, never a blocking one
    "rt-refused":         ("1",  ["drop r;try 1 0 1;try 2 1 1", "drop r;len s;isclosed s"]),
    "rt-refused-closed":  ("1",  ["close s;try 1 0 1;try 2 1 1;tryr 1", "len s;isclosed r"]),
    # handle counts against a concurrent close / drop
    "clone-close":        ("1",  ["clone s 0;scount r;isclosed s", "close r;scount r;rcount s"]),
    "clone-close-r":      ("1",  ["clone r 1;rcount s;isclosed s", "close s;isclosed s"]),
    "clone-drop":         ("1",  ["clone s 1;scount r", "drop s;scount r", "clone r 0;rcount s"]),
}
WINDOW_KINDS = ("lock", "unlock", "ld", "st", "cas", "now", "wclone", "pwrite", "pread", "park")


class SweepProfile(Profile):
    """Programs are not drawn at random: every template x payload class x (thread, kind, k)."""
    def __init__(self, name, templates, classes=("w", "p"), kinds=WINDOW_KINDS, ks=(1, 2, 3, 4, 6), pars=("4",), extra="tickp=30"):
        Profile.__init__(self, name, {}, n=0, extra=extra)
        self.programs = []
        i = 0
        for tn in templates:
            cap, threads = WINDOW_TEMPLATES[tn]
            for t in range(len(threads)):
                for kind in kinds:
                    for k in ks:
                        i += 1
                        par = pars[i % len(pars)]
                        cls = classes[i % len(classes)]
                        hdr = f"cap={cap} class={cls} par={par} seed={1000 + i} strategy=after:{kind}:{k}:t{t} base=random {extra}".strip()
                        body = "\n".join(f"t{j}: {ops}" for j, ops in enumerate(threads))
                        self.programs.append(f"# window {tn}\n{hdr}\n{body}\n")
        self.n = len(self.programs)
        self.threads = (2, 3)


def expand(macro, t, k, rng):
    """A macro-op of thread t (its k-th) as concrete op text(s)."""
    m = t * 30 + k + 1            # message tag (< 256: the 1-byte payload class carries it in a u8)
    f = t * 10 + k                # future id
    w = f * 4 + rng.choice([0, 1, 2])     # waker ids are unique per future (f = w // 4): wake-ups can be attributed
    w2 = f * 4 + rng.choice([0, 1, 2])
    dur = rng.choice([0, 50, 300, 2000, 100000])
    table = {
        "send": [f"send {m}"], "sendt": [f"sendt {m} {dur}"], "sendot": [f"sendot {m} {dur}"],
        "try": [f"try {m} {rng.choice([0, 1])} 0"], "tryrt": [f"try {m} {rng.choice([0, 1])} 1"],
        "recv": ["recv"], "recvt": [f"recvt {dur}"], "tryr": ["tryr 0"], "tryrrt": ["tryr 1"],
        "drain": [f"drain {rng.choice([0, 1, 2])}"],
        "asend1": [f"asend {f} {m}", f"polls {f} {w}"],
        "asend2": [f"asend {f} {m}", f"polls {f} {w}", f"polls {f} {w2}"],
        "asend3": [f"asend {f} {m}", f"polls {f} {w}", f"polls {f} {w2}", f"polls {f} {w2}"],
        "asenddrop": [f"asend {f} {m}", f"polls {f} {w}", f"dropsf {f}"],
        "arecv1": [f"arecv {f}", f"pollr {f} {w}"],
        "arecv2": [f"arecv {f}", f"pollr {f} {w}", f"pollr {f} {w2}"],
        "arecv3": [f"arecv {f}", f"pollr {f} {w}", f"pollr {f} {w2}", f"pollr {f} {w2}"],
        "arecvdrop": [f"arecv {f}", f"pollr {f} {w}", f"droprf {f}"],
        "stream3": [f"stream {f}", f"pollr {f} {w}", f"pollr {f} {w2}", f"pollr {f} {w}"],
        "close": [f"close {rng.choice('sr')}"], "drops": ["drop s"], "dropr": ["drop r"],
        "clones": [f"clone s {rng.choice([0, 1])}"], "cloner": [f"clone r {rng.choice([0, 1])}"],
        "convs": ["conv s"], "convr": ["conv r"], "clonesx": ["clone s 0"], "clonerx": ["clone r 0"],
        "len": ["len r"], "isfull": ["isfull s"], "scount": ["scount r"], "rcount": ["rcount s"], "isclosed": ["isclosed s"],
        "isdisc": [f"isdisc {rng.choice('sr')}"], "isterm": ["isterm r"],
    }
    return table[macro]


def gen_program(profile, rng, idx):
    if hasattr(profile, "programs"):
        return profile.programs[idx]
    nt = rng.randint(*profile.threads)
    cap = rng.choice(profile.caps)
    cls = rng.choice(profile.classes)
    par = rng.choice(profile.pars)
    strat = rng.choice(profile.strategies)
    seed = rng.randint(1, 10 ** 9)
    # every third program: `thread::park` may return without an unpark (std documents spurious wake-ups), injected by the scheduler
    spur = " spuriousp=80" if idx % 3 == 1 else ""
    # every other program: the handles the threads start with are async-flavoured on one or both sides (the last handle dropped, the one
    # `close` is called on, the one a blocking call borrows as the other flavour ... then is an Async* one)
    flav = "" if idx % 2 == 0 else " flav=" + ("sa", "as", "aa")[(idx // 2) % 3]
    lines = [f"cap={cap} class={cls} par={par} seed={seed} strategy={strat} {profile.extra}{spur}{flav}".strip()]
    for t in range(nt):
        ops = []
        for k in range(rng.randint(*profile.ops)):
            names, weights = zip(*profile.macros.items()) if isinstance(profile.macros, dict) else (profile.macros, None)
            macro = rng.choices(names, weights)[0]
            if macro in ("drops", "dropr"):
                # a future borrows its handle for as long as the future object exists (completed or not): drop those first
                side = "s" if macro == "drops" else "r"
                for o in list(ops):
                    m_ = re.match(r"(asend|arecv|stream) (\d+)", o)
                    if m_ and (m_.group(1) == "asend") == (side == "s") and f"drop{side}f {m_.group(2)}" not in ops:
                        ops.append(f"drop{side}f {m_.group(2)}")
            ops += expand(macro, t, k, rng)
            if macro in ("drops", "dropr"):
                break     # a thread that gave up a handle does not use that side again (it has no other handle)
        lines.append(f"t{t}: " + ";".join(ops))
    return "\n".join(lines) + "\n"


# ---------------------------------------------------------------------------
# running and parsing
# ---------------------------------------------------------------------------

class Run:
    def __init__(self, prog, out, rc):
        self.prog, self.rc = prog, rc
        self.lines = out.split("\n")
        self.events = []        # (tid, kind, args)
        self.oracles = {}       # name -> (ok, detail)
        self.schedule = ""
        self.end = ""
        for ln in self.lines:
            if not ln:
                continue
            if ln.startswith("O "):
                p = ln.split(" ", 3)
                self.oracles[p[1]] = (p[2] == "ok", p[3] if len(p) > 3 else "")
            elif ln.startswith("S "):
                self.schedule = ln[2:]
            elif ln.startswith("H "):
                self.header = ln
            else:
                p = ln.split(" ")
                if p[0] == "-":
                    if p[1] in ("end", "stuck", "diverged"):
                        # a stuck run prints `- stuck t…` and then `- end …`: remember both
                        self.end = (self.end + " | " + ln) if self.end and p[1] == "end" and " stuck" in self.end else ln
                    self.events.append(("-", p[1], p[2:]))
                else:
                    self.events.append((p[0], p[1], p[2:]))

    def ops(self):
        """Completed and pending calls: dicts with tid, text, call index, ret index (None if never returned), result."""
        open_, res = {}, []
        for i, (tid, kind, args) in enumerate(self.events):
            if kind == "call":
                open_[tid] = {"tid": tid, "op": " ".join(args), "call": i, "ret": None, "res": None}
                res.append(open_[tid])
            elif kind == "ret" and tid in open_:
                open_[tid]["ret"] = i
                open_[tid]["res"] = " ".join(args)
                del open_[tid]
        return res


def run_conc(prog_text, timeout=60):
    try:
        p = subprocess.run([CONC, "-"], input=prog_text, stdout=subprocess.PIPE, stderr=subprocess.DEVNULL,
                           text=True, timeout=timeout)
        return Run(prog_text, p.stdout, p.returncode)
    except subprocess.TimeoutExpired:
        return Run(prog_text, "- end HARNESS-TIMEOUT\nO stuck FAIL harness timeout\n", 99)


# ---------------------------------------------------------------------------
# monitors (implementation-side oracles on the recorded events; independent of the Lean model)
# ---------------------------------------------------------------------------

def mon_mutex(run, ords):
    """C17: at most one thread between `lock ok` and `unlock`; `guard` only while holding; the
    ordering arguments passed at run time are the ones the extractor read from the source."""
    bad, holder = [], None
    # the CAS of try_lock as extracted (no expectation when the extractor finds none there: the tie theorem `Tie.mutex_orderings_ok` reports that)
    exp_lock = next((o for (k, o) in ords["mutex_try_lock"] if k == "cas"), None)
    exp_unlock = ords["mutex_unlock"][0][1] if ords["mutex_unlock"] else None
    for i, (tid, kind, args) in enumerate(run.events):
        if kind == "lock":
            if exp_lock and args[1:3] != exp_lock:
                bad.append(f"event {i}: lock CAS orderings {args[1:3]} differ from extracted {exp_lock}")
            if args[0] == "ok":
                if holder is not None:
                    bad.append(f"event {i}: {tid} acquired the lock while {holder} holds it")
                holder = tid
        elif kind == "unlock":
            if exp_unlock and args[:1] != exp_unlock:
                bad.append(f"event {i}: unlock ordering {args[:1]} differs from extracted {exp_unlock}")
            if holder != tid:
                bad.append(f"event {i}: {tid} unlocks but holder is {holder}")
            holder = None
        elif kind == "guard":
            if holder != tid:
                bad.append(f"event {i}: {tid} reached the protected state without holding the lock (holder {holder})")
        elif kind in ("yield", "spin", "sleep", "park") and holder == tid:
            # a critical section is straight-line code: whoever holds the channel lock never waits for anybody (C14, C17, C06)
            bad.append(f"event {i}: {tid} waits ({kind}) while holding the channel lock")
    return bad


def mon_realtime(run):
    """C14/C17: a *_realtime call makes exactly one lock attempt and never yields, sleeps or parks;
    if the attempt failed it reports not-done."""
    bad = []
    for o in run.ops():
        t = o["op"].split(" ")
        rt = (t[0] == "try" and t[3] == "1") or (t[0] == "tryr" and t[1] == "1")
        if not rt or o["ret"] is None:
            continue
        evs = [e for e in run.events[o["call"]:o["ret"]] if e[0] == o["tid"]]
        locks = [e for e in evs if e[1] == "lock"]
        if len(locks) != 1:
            bad.append(f"{o['tid']} {o['op']}: {len(locks)} lock attempts")
        if any(e[1] in ("yield", "spin", "sleep", "park") for e in evs):
            bad.append(f"{o['tid']} {o['op']}: waited ({[e[1] for e in evs if e[1] in ('yield','spin','sleep','park')][:3]})")
        if locks and locks[0][2][0] == "fail" and not (o["res"].startswith("false") or o["res"].startswith("none")):
            bad.append(f"{o['tid']} {o['op']}: lock was busy but result is {o['res']}")
    return bad


def mon_nonblocking(run):
    """C14: try_*, drain_into never park, never register (no signal-state wait loads by the caller)."""
    bad = []
    for o in run.ops():
        k = o["op"].split(" ")[0]
        if k not in ("try", "tryr", "drain") or o["ret"] is None:
            continue
        evs = [e for e in run.events[o["call"]:o["ret"]] if e[0] == o["tid"]]
        if any(e[1] in ("park", "now") for e in evs):
            bad.append(f"{o['tid']} {o['op']}: parked or read the clock")
        if any(e[1] == "ld" for e in evs):
            bad.append(f"{o['tid']} {o['op']}: waited on a signal")
    return bad


def received_values(o):
    """Tags a receive-like op obtained."""
    r = o["res"] or ""
    k = o["op"].split(" ")[0]
    if k in ("recv", "recvt", "tryr", "pollr") and re.match(r"v\d+", r):
        return [int(r.split(" ")[0][1:])]
    if k == "drain" and r.startswith("drained"):
        m = re.search(r"\[([\d,]*)\]", r)
        return [int(x) for x in m.group(1).split(",") if x] if m else []
    return []


def sent_value(o):
    t = o["op"].split(" ")
    if t[0] in ("send", "sendt", "sendot", "try"):
        return int(t[1])
    if t[0] == "asend":
        return int(t[2])
    return None


def mon_fifo(run):
    """C02: if send(a) returned (or a's future had registered: returned pending) before send(b) was called, then no
    receive that obtains b completes before a receive that obtains a begins, and one drain returns a before b."""
    ops = run.ops()
    accepted_at = {}   # tag -> event index from which it is "in the channel" (ret ok of the send, or first pending poll)
    begun_at = {}      # tag -> call index of its send
    futs = {}
    for o in ops:
        t = o["op"].split(" ")
        v = sent_value(o)
        if t[0] == "asend":
            futs[t[1]] = v
            continue
        if t[0] == "polls":
            v = futs.get(t[1])
            if v is None:
                continue
            begun_at.setdefault(v, o["call"])
            if o["ret"] is not None and (o["res"].startswith("pending") or o["res"].startswith("ok")):
                accepted_at.setdefault(v, o["ret"])
            continue
        if v is not None:
            begun_at[v] = o["call"]
            if o["ret"] is not None and (o["res"].startswith("ok") or o["res"].startswith("true")):
                accepted_at[v] = o["ret"]
    got = {}           # tag -> (call idx, ret idx, position in drain)
    wait_began = {}    # (tid, future) -> call index of the first poll of the current wait
    for o in ops:
        t = o["op"].split(" ")
        if t[0] == "pollr":
            wait_began.setdefault((o["tid"], t[1]), o["call"])
        if o["ret"] is None:
            continue
        for pos, v in enumerate(received_values(o)):
            began = o["call"]
            if t[0] == "pollr":
                began = wait_began.pop((o["tid"], t[1]), o["call"])   # the receive began when the future was first polled
            got[v] = (began, o["ret"], pos, id(o))
        if t[0] == "pollr" and not (o["res"] or "").startswith("pending"):
            wait_began.pop((o["tid"], t[1]), None)
    bad = []
    tags = [v for v in got if v in accepted_at or v in begun_at]
    for a in tags:
        for b in tags:
            if a == b or a not in accepted_at or b not in begun_at:
                continue
            if accepted_at[a] < begun_at[b]:
                ca, ra, pa, ia = got[a]
                cb, rb, pb, ib = got[b]
                if ia == ib:
                    if pb < pa:
                        bad.append(f"drain returned {b} before {a} although send({a}) was in the channel before send({b}) began")
                elif rb < ca:
                    bad.append(f"value {b} was received (event {rb}) before the receive of {a} began (event {ca}) although send({a}) preceded send({b})")
    return bad


def mon_capacity(run, cap):
    """C08: successful sends minus values taken by receives already begun never exceeds the capacity;
    reported lengths never exceed it; cap 0: a send succeeds only after a receiver took the value."""
    if cap == "u":
        bad = []
        for o in run.ops():
            k = o["op"].split(" ")[0]
            if k == "try" and o["res"] and o["res"].startswith("false") and o["op"].split(" ")[3] == "0":
                bad.append(f"unbounded channel refused {o['op']}")
            if k == "polls" and o["res"] and o["res"].startswith("pending"):
                bad.append(f"unbounded channel made {o['op']} wait")
        return bad
    n = int(cap)
    ops = run.ops()
    futs, bad = {}, []
    ok_at = []     # event index at which a send reported success
    for o in ops:
        t = o["op"].split(" ")
        if t[0] == "asend":
            futs[t[1]] = int(t[2])
        if o["ret"] is None:
            continue
        if t[0] in ("send", "sendt", "sendot") and o["res"].startswith("ok"):
            ok_at.append(o["ret"])
        elif t[0] == "try" and o["res"].startswith("true"):
            ok_at.append(o["ret"])
        elif t[0] == "polls" and o["res"].startswith("ok"):
            ok_at.append(o["ret"])
        elif t[0] == "len" and re.match(r"n\d+", o["res"]) and int(o["res"].split(" ")[0][1:]) > n:
            bad.append(f"len() reported {o['res']} on capacity {n}")
    taken = []     # (index at which the receive began, number of values) of receive ops that obtained values
    wait_began = {}
    for o in ops:
        t = o["op"].split(" ")
        if t[0] == "pollr":
            wait_began.setdefault((o["tid"], t[1]), o["call"])
        vs = received_values(o) if o["ret"] is not None else []
        began = o["call"]
        if t[0] == "pollr" and o["ret"] is not None and not (o["res"] or "").startswith("pending"):
            began = wait_began.pop((o["tid"], t[1]), o["call"])   # a future's receive begins at its first poll
        if vs:
            taken.append((began, len(vs)))
    # a receive future that registered and was never polled to completion may hold a value a sender
    # handed to it (the receive had begun and took it): count one possible value for each such wait
    for (tid, f), began in wait_began.items():
        taken.append((began, 1))
    # also values consumed by a dropped receive future that had been claimed count as taken by a begun receive;
    # they show up as pdrop of a sent tag during droprf — approximated by not flagging when such a drop exists
    claimed_drop = any(k == "call" and a and a[0] == "droprf" for (_, k, a) in run.events)
    for i, at in enumerate(sorted(ok_at)):
        succ = i + 1
        tk = sum(c for (call, c) in taken if call < at)
        if succ - tk > n and not claimed_drop:
            bad.append(f"at event {at}: {succ} successful sends but only {tk} values taken by receives begun so far (capacity {n})")
            break
    return bad


def mon_wake(run):
    """C06/C16: when a peer completes a pending future it wakes the waker supplied by the last poll that
    returned Pending (or by a poll still in flight), and no poll returns Pending with a different waker
    after that wake-up.  Generated programs use waker ids unique per future (future = id // 4)."""
    bad = []
    polls = {}   # future -> list of (call, ret, waker, result, owner)
    for o in run.ops():
        t = o["op"].split(" ")
        if t[0] in ("polls", "pollr") and o["ret"] is not None:
            polls.setdefault(int(t[1]), []).append((o["call"], o["ret"], int(t[2]), o["res"], o["tid"]))
    wakes = [(i, tid, int(args[1])) for i, (tid, kind, args) in enumerate(run.events) if kind == "wwake"]
    for (wi, wt, w) in wakes:
        f = w // 4
        ps = polls.get(f)
        if not ps:
            continue
        if ps[0][4] == wt:
            continue    # (never happens: an owner does not wake itself)
        # the completion this wake-up announces = the waker's last final store before it; a stream's poll that already returned that
        # item (it saw the store before the peer got to `wake`) has consumed it: polls after it belong to the stream's next wait
        store = max([j for j in range(wi) if run.events[j][0] == wt and run.events[j][1] == "st"], default=-1)
        if any((not p[3].startswith("pending")) and store < p[1] < wi for p in ps):
            continue
        pend_before = [p for p in ps if p[3].startswith("pending") and p[1] < wi]
        inflight = [p for p in ps if p[0] < wi < p[1]]
        if pend_before and pend_before[-1][2] != w and not any(p[2] == w for p in inflight):
            bad.append(f"future {f}: woken through waker {w} (event {wi}) but the last Pending poll supplied waker {pend_before[-1][2]}")
        for p in inflight:
            if p[3].startswith("pending") and p[2] != w:
                bad.append(f"future {f}: poll with waker {p[2]} returned Pending (event {p[1]}) after the peer woke waker {w} (event {wi}): lost wake-up")
    return bad


def mon_close(run):
    """C10: first close ok, later ones error; ops begun after close returned fail with Closed; counts read 0."""
    bad = []
    ops = run.ops()
    closes = [o for o in ops if o["op"].startswith("close") and o["ret"] is not None]
    oks = [o for o in closes if o["res"].startswith("ok")]
    if len(oks) > 1:
        bad.append(f"{len(oks)} close() calls succeeded")
    if not oks:
        return bad
    t0 = oks[0]["ret"]
    first_poll = {}
    for o in ops:
        t = o["op"].split(" ")
        if t[0] in ("polls", "pollr"):
            first_poll.setdefault((o["tid"], t[0], t[1]), o["call"])
    for o in ops:
        if o["call"] <= t0 or o["ret"] is None:
            continue
        k = o["op"].split(" ")[0]
        if k in ("polls", "pollr") and first_poll.get((o["tid"], k, o["op"].split(" ")[1]), o["call"]) <= t0:
            continue      # the operation began (was first polled) before the close returned: it may still report what happened before it
        r = o["res"]
        if k == "close" and not r.startswith("err:CloseError"):
            bad.append(f"close after close returned {r}")
        t = o["op"].split(" ")
        realtime = (k == "try" and t[3] == "1") or (k == "tryr" and t[1] == "1")
        if realtime and (r.startswith("false") or r.startswith("none")):
            continue          # a *_realtime call that found the lock busy reports not-done (C14)
        if k in ("send", "sendt", "sendot", "try", "recv", "recvt", "tryr", "drain") and not r.startswith("err:Closed"):
            bad.append(f"{o['op']} begun after close returned {r}")
        if k in ("scount", "rcount") and not r.startswith("n0"):
            bad.append(f"{o['op']} after close returned {r}")
        if k == "isclosed" and not r.startswith("true"):
            bad.append(f"is_closed after close returned {r}")
        if received_values(o):
            bad.append(f"{o['op']} begun after close obtained a value: {r}")
    return bad


def mon_stuck(run, cap):
    """C06: a run may only end with parked threads if none of the blocked operations could complete:
    never a blocked sender together with a blocked receiver; a blocked receiver only on an empty
    channel; a blocked sender only on a full buffer."""
    if " stuck" not in run.end and "LIMIT" not in run.end and "TIMEOUT" not in run.end:
        return []
    if "LIMIT" in run.end or "TIMEOUT" in run.end:
        return [f"run did not terminate: {run.end}"]
    ops = run.ops()
    blocked = [o for o in ops if o["ret"] is None]
    bs = [o for o in blocked if o["op"].split(" ")[0] in ("send", "sendt", "sendot")]
    br = [o for o in blocked if o["op"].split(" ")[0] in ("recv", "recvt")]
    other = [o for o in blocked if o not in bs and o not in br]
    bad = []
    if other:
        bad.append(f"stuck inside a call that never waits for a peer: {[o['op'] for o in other]}")
    timed = [o for o in blocked if o["op"].split(" ")[0] in ("sendt", "sendot", "recvt")]
    if timed:
        # the virtual clock advances whenever every runnable thread only waits, and a peer that claimed a waiter always finishes:
        # a timed call can therefore not remain blocked for ever (C13: Timeout is reported once the deadline has passed)
        bad.append(f"timed operation never returned ({timed[0]['tid']} {timed[0]['op']}): no Timeout after its deadline")
    if bs and br:
        bad.append(f"a sender ({bs[0]['tid']} {bs[0]['op']}) and a receiver ({br[0]['tid']} {br[0]['op']}) are both blocked for ever")
    closed = any(o["op"].startswith("close") and (o["res"] or "").startswith("ok") for o in ops)
    if closed and blocked:
        bad.append(f"operations still blocked after close() succeeded: {[o['op'] for o in blocked]}")
    futs, succ = {}, set()
    for o in ops:
        t = o["op"].split(" ")
        if t[0] == "asend":
            futs[t[1]] = int(t[2])
        r = o["res"] or ""
        if t[0] in ("send", "sendt", "sendot") and r.startswith("ok"):
            succ.add(int(t[1]))
        if t[0] == "try" and r.startswith("true"):
            succ.add(int(t[1]))
        if t[0] == "polls" and r.startswith("ok") and t[1] in futs:
            succ.add(futs[t[1]])
    got = set(v for o in ops if o["ret"] is not None for v in received_values(o))
    dropped = set(int(a[0]) for (_, k, a) in run.events if k == "pdrop")
    buffered = succ - got - dropped
    # the value-based rules need to know where every accepted value is: not so with zero-sized payloads (no tag) or when
    # futures exist (a value may sit in a receive future nobody polls again; a pending send future holds a place in the list)
    hdr = getattr(run, "header", "") or ""
    precise = "class=z" not in hdr and not any(o["op"].split(" ")[0] in ("asend", "arecv", "stream") for o in ops)
    if not precise:
        buffered, bs_rule = set(), False
    else:
        bs_rule = True
    if br and buffered:
        bad.append(f"receiver blocked for ever although values {sorted(buffered)} were accepted and never delivered")
    if bs and bs_rule and cap != "u" and len(buffered) < int(cap):
        bad.append(f"sender blocked for ever although only {len(buffered)} of {cap} buffer places are used")
    if bs and cap == "u":
        bad.append("sender blocked on an unbounded channel")
    # disconnect: nobody stays blocked once the last handle of the opposite side is gone
    m = re.search(r"threads=(\d+)", getattr(run, "header", "") or "")
    if m and blocked:
        live = {"s": int(m.group(1)), "r": int(m.group(1))}
        for o in ops:
            t = o["op"].split(" ")
            if o["ret"] is not None and (o["res"] or "").startswith("ok") and len(t) >= 2 and t[1] in live:
                if t[0] == "clone":
                    live[t[1]] += 1
                elif t[0] == "drop":
                    live[t[1]] -= 1
        if bs and live["r"] <= 0:
            bad.append(f"sender ({bs[0]['tid']} {bs[0]['op']}) blocked for ever although every receiver handle has been dropped")
        if br and live["s"] <= 0:
            bad.append(f"receiver ({br[0]['tid']} {br[0]['op']}) blocked for ever although every sender handle has been dropped")
    return bad


def mon_disconnect(run):
    """C11: a receive reports SendClosed only if every sender handle's drop had begun before the receive
    returned (and no close succeeded: then it would be Closed); symmetrically ReceiveClosed for sends.
    After every sender handle's drop has *returned*, a receive begun later never blocks and never reports
    Ok(None)/Pending on an empty channel — it reports SendClosed (or a buffered value)."""
    bad = []
    ops = run.ops()
    nthreads = len({o["tid"] for o in ops})
    live = {"s": [], "r": []}   # per side: list of (created_index, drop_call_index or None, drop_ret_index or None)
    # initial handles: one per thread per side, dropped by that thread's teardown `drop s` / `drop r` (last ones)
    for side in "sr":
        handles = []
        for tid in sorted({o["tid"] for o in ops}):
            stack = [[-1, None, None]]
            for o in [x for x in ops if x["tid"] == tid]:
                t = o["op"].split(" ")
                if t[0] == "clone" and t[1] == side and (o["res"] or "").startswith("ok"):
                    stack.append([o["ret"], None, None])
                    handles.append(stack[-1])
                if t[0] == "drop" and t[1] == side and stack:
                    live_ones = [h for h in stack if h[1] is None]
                    if live_ones:
                        live_ones[-1][1] = o["call"]
                        live_ones[-1][2] = o["ret"]
            handles.append(stack[0])
        live[side] = handles
    closed_at = min([o["ret"] for o in ops if o["op"].startswith("close") and (o["res"] or "").startswith("ok")] or [10 ** 9])

    def all_drop_begun(side, at):
        return all(h[1] is not None and h[1] < at for h in live[side] if h[0] < at)

    for o in ops:
        if o["ret"] is None:
            continue
        r = o["res"]
        if "err:SendClosed" in r and not all_drop_begun("s", o["ret"]):
            bad.append(f"{o['tid']} {o['op']} reported SendClosed (event {o['ret']}) while a sender handle was still alive")
        if "err:ReceiveClosed" in r and not all_drop_begun("r", o["ret"]):
            bad.append(f"{o['tid']} {o['op']} reported ReceiveClosed (event {o['ret']}) while a receiver handle was still alive")
    return bad


def mon_orderings(run, ords):
    """C07: the ordering arguments the signal's atomics receive at run time are among those the extractor
    read from signal.rs (so the Lean signal model is instantiated with what really executes)."""
    allowed = {"load": set(), "store": set(), "cas": set(), "fence": set()}
    for fn in ("signal_wake", "signal_wait", "signal_wait_timeout", "signal_poll", "signal_async_blocking_wait", "signal_is_terminated"):
        for kind, os_ in ords.get(fn, []):
            if kind in allowed:
                allowed[kind].add(tuple(os_))
    bad = []
    for i, (tid, kind, args) in enumerate(run.events):
        if kind == "ld" and (args[1],) not in allowed["load"]:
            bad.append(f"event {i}: load of a signal with ordering {args[1]} not in the source as extracted {sorted(allowed['load'])}")
        elif kind == "st" and (args[1],) not in allowed["store"]:
            bad.append(f"event {i}: store to a signal with ordering {args[1]} not in the source as extracted {sorted(allowed['store'])}")
        elif kind == "cas" and (args[1], args[2]) not in allowed["cas"]:
            bad.append(f"event {i}: CAS on a signal with orderings {args[1:3]} not in the source as extracted {sorted(allowed['cas'])}")
        elif kind == "fence" and (args[0],) not in allowed["fence"]:
            bad.append(f"event {i}: fence {args[0]} not in the source as extracted {sorted(allowed['fence'])}")
    return bad[:3]


def mon_peer_protocol(run):
    """C07: per signal address, the peer (any thread other than the one that ends the signal's life) accesses
    the payload before its final store / successful CAS and never touches the signal's state word afterwards;
    the owner ends the signal's life only after the state is final (or it was never shared)."""
    bad = []
    life = {}     # addr -> dict(final_at, final_by, owner)
    for i, (tid, kind, args) in enumerate(run.events):
        if kind in ("ld", "st", "cas"):
            a = args[0]
            L = life.setdefault(a, {"final_at": None, "final_by": None, "touch": []})
            if kind == "st" and args[2] in ("0", "1"):
                if L["final_at"] is not None:
                    bad.append(f"event {i}: second final store on {a}")
                L["final_at"], L["final_by"] = i, tid
            elif kind == "cas" and args[5] == "ok" and args[4] in ("0", "1"):
                if L["final_at"] is not None:
                    bad.append(f"event {i}: final CAS on {a} after it was already final")
                L["final_at"], L["final_by"] = i, tid
            elif L["final_at"] is not None and tid == L["final_by"]:
                L["touch"].append((i, tid, kind))
        elif kind == "dead":
            a = args[0]
            L = life.pop(a, None)
            if L:
                for (j, t, k) in L["touch"]:
                    if t != tid:      # the owner itself may of course look at its own signal (e.g. it closed the channel)
                        bad.append(f"event {j}: {t} touches signal {a} ({k}) after its own final store (event {L['final_at']}); owner is {tid}")
    return bad[:3]


def mon_ptr(run):
    """C04: the encoding branch `KanalPtr::{read,write,copy}` took is the one the byte model takes for
    that size: zero-sized -> zst, size <= pointer size (8) -> inline, larger -> indirect."""
    bad = []
    for i, (tid, kind, args) in enumerate(run.events):
        if kind in ("pread", "pwrite", "pcopy"):
            branch, size = args[1], int(args[2])
            want = "zst" if size == 0 else ("indirect" if size > 8 else "inline")
            if branch != want:
                bad.append(f"event {i}: {kind} of a {size}-byte type took the {branch} branch, the model takes {want}")
    return bad[:3]


def mon_drain(run):
    """C19: drain_into returns exactly the number of values it appended; on a closed channel it takes nothing."""
    bad = []
    for o in run.ops():
        if o["op"].startswith("drain") and o["ret"] is not None and o["res"].startswith("drained"):
            m = re.match(r"drained (\d+) \[([\d,]*)\]", o["res"])
            if m:
                n, lst = int(m.group(1)), [x for x in m.group(2).split(",") if x]
                if n != len(lst):
                    bad.append(f"{o['tid']} {o['op']}: returned {n} but appended {len(lst)} values {lst}")
    return bad


def mon_prompt(run):
    """C06/C11/C13: a blocked sync / timed call notices the final state of its signal at once: after a peer has stored UNLOCKED or TERMINATED
    into the word the call is waiting on, the call loads that word at most a few more times (its next load sees the final value and the wait
    ends) - it does not go on polling until its deadline.  Counts only the caller's own loads of that word, so a stalled lock holder or a
    frozen thread cannot trip it."""
    bad = []
    for o in run.ops():
        k = o["op"].split(" ")[0]
        if k not in ("send", "recv", "sendt", "sendot", "recvt") or o["ret"] is None:
            continue
        span = range(o["call"], o["ret"])
        loads = [i for i in span if run.events[i][0] == o["tid"] and run.events[i][1] == "ld" and run.events[i][2] and run.events[i][2][0].startswith("a")]
        if not loads:
            continue
        word = run.events[loads[-1]][2][0]
        final = None
        for i in span:
            tid, kind, args = run.events[i]
            if tid == o["tid"] or not args or args[0] != word:
                continue
            if (kind == "st" and len(args) >= 3 and args[2] in ("0", "1")) or (kind == "cas" and len(args) >= 6 and args[5] == "ok" and args[4] in ("0", "1")):
                final = i
                break
        if final is None:
            continue
        later = [i for i in loads if i > final and run.events[i][2][0] == word]
        if len(later) > 4:
            bad.append(f"{o['tid']} {o['op']}: {len(later)} more loads of its signal word {word} after the peer stored the final state (event {final}): "
                       f"the wait does not end when the signal is final")
    return bad


def mon_waker_life(run):
    """C07: a waker instance is only used (woken, cloned from) while it is alive: the peer must wake its own
    clone, never the instance stored inside the future, which dies with the future."""
    bad, dropped = [], set()
    for i, (tid, kind, args) in enumerate(run.events):
        if kind == "wdrop":
            dropped.add(args[0])
        elif kind == "wwake":
            inst = args[0]
            if inst == "x" or inst in dropped:
                bad.append(f"event {i}: {tid} wakes waker instance {inst} of waker {args[1]} after it was dropped (use after the future was freed)")
    return bad[:3]


PROTOCHECK = os.path.join(ROOT, "lean", ".lake", "build", "bin", "protocheck")


def mon_proto(run):
    """C06/C07/C17 trace validation: the run's lock events and per-signal events must be an execution of the Lean
    protocol models MutexM / SigM (instantiated with the extracted orderings and constants), ending without
    `racy` / `dangling` (lean exe `protocheck`)."""
    if "LIMIT" in run.end or "TIMEOUT" in run.end:
        return []
    p = subprocess.run([PROTOCHECK], input="\n".join(run.lines) + "\n", stdout=subprocess.PIPE, stderr=subprocess.PIPE, text=True)
    out = p.stdout.strip().split("\n")[-1] if p.stdout.strip() else "no output"
    if out.startswith("ACCEPT"):
        m = re.search(r"mutex_steps=(\d+) signals=(\d+) signal_steps=(\d+)", out)
        if m:
            run.proto = tuple(int(x) for x in m.groups())
        return []
    return [out[:400]]


SPECFOLLOW = os.path.join(ROOT, "lean", ".lake", "build", "bin", "specfollow")


def mon_follow(run):
    """Channel-level trace validation: the run, with its critical sections in lock order and its final stores, must be
    an execution of the Lean channel model `Spec.step` giving the same result for every call (lean exe `specfollow`)."""
    if "LIMIT" in run.end or "TIMEOUT" in run.end:
        return []
    p = subprocess.run([SPECFOLLOW], input="\n".join(run.lines) + "\n", stdout=subprocess.PIPE, stderr=subprocess.PIPE, text=True)
    out = p.stdout.strip().split("\n")[-1] if p.stdout.strip() else "no output " + p.stderr[-200:]
    if out.startswith("ACCEPT"):
        m = re.search(r"spec_steps=(\d+) calls=(\d+)", out)
        if m:
            run.follow = tuple(int(x) for x in m.groups())
        return []
    return [out[:400]]


ALL_MONITORS = {
    "follow": lambda run, ctx: mon_follow(run),
    "proto": lambda run, ctx: mon_proto(run),
    "wakerlife": lambda run, ctx: mon_waker_life(run),
    "drain": lambda run, ctx: mon_drain(run),
    "ptr": lambda run, ctx: mon_ptr(run),
    "orderings": lambda run, ctx: mon_orderings(run, ctx["ords"]),
    "peerproto": lambda run, ctx: mon_peer_protocol(run),
    "disconnect": lambda run, ctx: mon_disconnect(run),
    "stuck": lambda run, ctx: mon_stuck(run, ctx["cap"]) + mon_prompt(run),
    "mutex": lambda run, ctx: mon_mutex(run, ctx["ords"]),
    "realtime": lambda run, ctx: mon_realtime(run),
    "nonblocking": lambda run, ctx: mon_nonblocking(run),
    "fifo": lambda run, ctx: mon_fifo(run),
    "capacity": lambda run, ctx: mon_capacity(run, ctx["cap"]),
    "wake": lambda run, ctx: mon_wake(run),
    "close": lambda run, ctx: mon_close(run),
}


SPECEXPLORE = os.path.join(ROOT, "lean", ".lake", "build", "bin", "specexplore")


def run_outcome(run):
    """Per-thread result sequences of a scheduled run, in specexplore's outcome format."""
    per = {}
    for o in run.ops():
        per.setdefault(o["tid"], []).append(o["res"] if o["ret"] is not None else "STUCK")
    tids = sorted(per, key=lambda t: int(t[1:]))
    return "|".join(f"{t}:" + ",".join(per[t]) for t in tids)


def run_linearizability(profile, seed, stats, runs_per_prog=6, workers=16):
    """C03: for each small program, the outcome of every scheduled run of the real crate must be one of the
    outcomes of the Lean model under all interleavings of its atomic steps (specexplore)."""
    rng = random.Random(seed * 7919 + 13)
    progs = list(getattr(profile, "templates", [])) + [gen_program(profile, rng, i) for i in range(profile.n)]
    fails = []

    def one(prog):
        p = subprocess.run([SPECEXPLORE, "600000"], input=prog, stdout=subprocess.PIPE, stderr=subprocess.PIPE, text=True)
        outs = set(l for l in p.stdout.strip().split("\n") if l)
        complete = p.returncode == 0
        res = []
        for k in range(runs_per_prog):
            strat = profile.strategies[(k + rng.randint(0, 100)) % len(profile.strategies)]
            pr = re.sub(r"seed=\d+", f"seed={1 + k * 7919 + (zlib.crc32(prog.encode()) % 1000)}", re.sub(r"strategy=\S+", f"strategy={strat}", prog))
            run = run_conc(pr)
            oc = run_outcome(run)
            res.append((pr, run, oc))
        return prog, outs, complete, res

    with ThreadPoolExecutor(max_workers=workers) as ex:
        for prog, outs, complete, res in ex.map(one, progs):
            stats["lin_programs"] = stats.get("lin_programs", 0) + 1
            stats["lin_outcomes"] = stats.get("lin_outcomes", 0) + len(outs)
            if not complete:
                stats["lin_incomplete"] = stats.get("lin_incomplete", 0) + 1
            for pr, run, oc in res:
                stats["conc_programs"] += 1
                stats["conc_events"] += len(run.events)
                stats["conc_nontrivial"].add(hashlib.md5((pr + oc).encode()).hexdigest())
                if len(stats["conc_samples"]) < 2:
                    stats["conc_samples"].append({"profile": profile.name, "program": pr.strip().split("\n"), "outcome": oc,
                                                  "model_outcomes": len(outs)})
                if complete and oc not in outs:
                    fails.append({"kind": "conc", "profile": profile.name + ":linearizability", "program": pr, "schedule": run.schedule,
                                  "failures": [f"outcome {oc} is not among the {len(outs)} outcomes of the atomic-channel model"],
                                  "model_outcomes": sorted(outs)[:12],
                                  "trace_tail": [ln for ln in run.lines if " call " in ln or " ret " in ln][-40:]})
    return fails


def run_monitor(name, run, ctx):
    """A monitor's findings on one run; a trace the monitor cannot even parse (the crate wrote through a wild pointer into the
    harness's own output) is a failed run, not a crash of the check."""
    try:
        return list(ALL_MONITORS[name](run, ctx))
    except (ValueError, IndexError, KeyError, TypeError) as ex:
        return [f"the run's trace cannot be read ({type(ex).__name__}: {str(ex)[:80]!r}): output corrupted by the run itself"]


def run_profile(profile, seed, monitors, oracles, stats, workers=16):
    """Generate profile.n programs from `seed`, run each, evaluate monitors.  Returns list of failure dicts."""
    rng = random.Random(seed * 1000003 + zlib.crc32(profile.name.encode()) % 1000)
    ords = extracted_orderings()
    progs = [gen_program(profile, rng, i) for i in range(profile.n)]
    fails = []

    def one(prog):
        run = run_conc(prog)
        cap = re.search(r"cap=(\S+)", prog).group(1)
        ctx = {"ords": ords, "cap": cap}
        bad = []
        for name in oracles:
            ok, detail = run.oracles.get(name, (False, "oracle line missing (harness crashed?)"))
            if not ok:
                bad.append((name, detail))
        for name in monitors:
            for b in run_monitor(name, run, ctx):
                bad.append((name, b))
        sig = hashlib.md5(" ".join(f"{t}{k}" for (t, k, a) in run.events if k in ("lock", "unlock", "st", "cas", "park", "unpark", "wwake", "ret")).encode()).hexdigest()
        kinds = Counter(k for (_, k, _) in run.events)
        nontriv = kinds["st"] + kinds["cas"] > 0 or kinds["park"] > 0
        return prog, run, bad, sig, kinds, nontriv

    with ThreadPoolExecutor(max_workers=workers) as ex:
        for prog, run, bad, sig, kinds, nontriv in ex.map(one, progs):
            stats["conc_programs"] += 1
            stats["conc_events"] += len(run.events)
            stats["conc_kinds"].update(kinds)
            if nontriv:
                stats["conc_nontrivial"].add(sig)
            stats["conc_ends"][("stuck" if " stuck" in run.end else run.end.split(" ")[1]) if run.end else "none"] += 1
            if getattr(run, "follow", None):
                stats["follow_steps"] = stats.get("follow_steps", 0) + run.follow[0]
                stats["follow_calls"] = stats.get("follow_calls", 0) + run.follow[1]
                stats["follow_runs"] = stats.get("follow_runs", 0) + 1
            if getattr(run, "proto", None):
                stats["proto_mutex_steps"] = stats.get("proto_mutex_steps", 0) + run.proto[0]
                stats["proto_signals"] = stats.get("proto_signals", 0) + run.proto[1]
                stats["proto_signal_steps"] = stats.get("proto_signal_steps", 0) + run.proto[2]
            if len(stats["conc_samples"]) < 2:
                stats["conc_samples"].append({"profile": profile.name, "program": prog.strip().split("\n"),
                                              "events": len(run.events), "schedule_prefix": run.schedule[:80]})
            if bad:
                fails.append({"kind": "conc", "profile": profile.name, "program": prog, "schedule": run.schedule,
                              "failures": [f"{n}: {d}" for n, d in bad][:6],
                              "trace_tail": [ln for ln in run.lines if ln and not ln.startswith("S ")][-40:]})
    return fails
