"""Texts for MANIFEST.json (per claimed property)."""
NOTE_COMMON = ("Trusted: Lean 4.33 kernel (axioms propext/Classical.choice/Quot.sound only, audited per theorem), the hand-written model's "
               "fidelity as sampled by the correspondence checks run by this command, Rust's own semantics for moves/drops/layout, "
               "critical sections atomic (C17 + guard typing). ")
TEXT = {
    "C18": dict(
        level_text="Translation validation: the reference channel is the Lean atomic-channel model read sequentially; every run regenerates call sequences from it (exhaustive to a depth bound over the whole API alphabet, seeded random beyond) and executes them on the real crate under several payload classes and both constructor flavours, comparing every result, wake-up and drop. Theorems (Lean) show the oracle is total on exactly the safe-Rust calls, deterministic and the textbook FIFO queue when nobody waits. The property's quantifier is 'all call sequences up to a bound', which this covers directly.",
        design_ref="DESIGN.md §5 C18, §4.2",
        level_note=NOTE_COMMON + "Bounded: exhaustive depth 3 (full alphabet) to 6-7 (reduced alphabets), random to length 40/60.",
        technique="Lean 4 reference model + exhaustive/random sequential differential against the real crate",
    ),
}
TEXT["C12"] = dict(
    level_text="Proof: Lean theorems c12_counts / c12_observed / c12_closed_stays / c12_convert — for every reachable state of the atomic-channel model (any capacity, any finite sequence of any API calls, any number of clones/drops/conversions in any order) the counters equal the live-handle ledger while the channel is open and are zero for ever once closed. The model is tied to the code on every run by the sequential differential over clone/convert/borrow/drop/close/count sequences (exhaustive to depth 5-6, random to 50-80) on the real crate.",
    design_ref="DESIGN.md §5 C12",
    level_note=NOTE_COMMON + "Counts are Nat (u32 overflow out of scope). Theorems are over atomic steps; concurrent interleavings of clone/drop are covered because each is one critical section (C17).",
    technique="Lean 4 inductive invariant over the atomic-channel model + sequential differential",
)
TEXT["C19"] = dict(
    level_text="Proof: Lean theorems c19_drain / c19_releases / c19_closed / c19_receivers_waiting / c19_nonblocking hold for every state of the model (any buffer, any list of blocked sync or pending async senders, or blocked receivers): drain_into returns buffer ++ blocked senders' values oldest first, the separately computed count equals the number appended, exactly the taken senders are released with success, a closed channel yields an error and no change, and no waiter is ever registered. Tied to the code by the sequential differential on drain-centred sequences (pending async senders, pre-filled vectors with and without spare capacity).",
    design_ref="DESIGN.md §5 C19",
    level_note=NOTE_COMMON + "Vec::reserve arithmetic is modelled as a no-op on contents (the driver checks the prefix).",
    technique="Lean 4 theorems over the critical-section model + sequential differential",
)
TEXT["C17"] = dict(
    level_text="Proof: Lean theorems over the MutexM model of mutex.rs + backoff.rs::spin_cond (its real loop structure, both parallelism branches), for any number of threads and any schedule: mutual exclusion (c17_mutex), race-free visibility given an acquiring CAS and a releasing store (c17_visibility, with a proved counterexample when the store is relaxed), try_lock never waits, lock() returns only after a successful CAS and spin_cond has no other exit, and the next attempt is at most 2 own steps away and succeeds if the lock is free. c17_this_tree instantiates them with the orderings and constants the extractor reads from the source on every run (tie theorems mutex_shape / mutex_ords_ok / lock_structure / spin_consts_ok). Runs of the real crate under the controlled scheduler are monitored for critical-section overlap and for the ordering arguments actually passed.",
    design_ref="DESIGN.md §5 C17, §3.5",
    level_note=NOTE_COMMON + "Memory model = SC lock word + permission transfer on release/acquire. Starvation-freedom not claimed.",
    technique="Lean 4 invariants over a lock/spin_cond transition system + extracted orderings + trace monitoring under a controlled scheduler",
)
TEXT["C01"] = dict(
    level_text="Proof: the custody ledger (every message tag is in exactly one of: buffer, one waiter's slot, a receiving caller, destroyed, handed back) is an inductive invariant of the Lean model over every step — all API calls of both flavours, timed/try/drain/stream/close/drop, for every capacity, any number of waiters, including the hand-off windows between a peer's critical section and its final store — proved in Lean (Ledger.lean, Struct.lean; c01_received_once, c01_accounted, c01_exclusive), with proved counterexamples for the defective variants D1/D3 (non-vacuity). Tie: extractor facts (Tie.variant_good), sequential differential with tagged drop-counting payloads, and scheduled multi-threaded runs of the real crate whose tag ledger is checked independently of the model.",
    design_ref="DESIGN.md §5 C01, §3.4",
    level_note=NOTE_COMMON + "Granularity: critical sections + final stores; finer interleavings inside a critical section are excluded by the lock (C17), inside the hand-off by the signal protocol (C06/C07).",
    technique="Lean 4 inductive invariant (custody ledger) over an interleaving model + differential + scheduled-run ledger oracle",
)
TEXT["C05"] = dict(
    level_text="Proof: Lean theorems c05_at_most_once (drop log duplicate-free, disjoint from received and buffered values), c05_never_leaked, c05_option / c05_try_option (Option variants hand the value back exactly on failure/refusal, non-Option variants destroy it once), c05_no_leak (after the last handle is gone every offered value is received, destroyed once, or handed back) for every reachable state of the model; negative theorem for the D1 variant. Tie: extractor cleanup facts (Tie.variant_good), sequential differential with drop-counting payloads of four size classes, scheduled concurrent runs with the drop ledger oracle.",
    design_ref="DESIGN.md §5 C05",
    level_note=NOTE_COMMON,
    technique="Lean 4 inductive invariant (custody ledger) + differential + scheduled-run drop ledger",
)
def _t(level_text, ref, tech, note=""):
    return dict(level_text=level_text, design_ref=ref, level_note=NOTE_COMMON + note, technique=tech)


TEXT["C02"] = _t("Proof: the FIFO invariant — the accepted-and-not-withdrawn values are, in acceptance order, the delivered values followed by the buffer followed by the blocked senders' values in wait-list order — is proved inductive over every step of the Lean model (Fifo.lean, all labels: buffered, blocked sync/async, direct hand-off, refill, drain, timed-out/cancelled/closed entries removed from the middle). Corollaries c02_delivered_in_order, c02_no_overtaking, c02_inside_in_order. Acceptance/delivery points are steps inside the calls' real-time intervals, which gives the property's real-time phrasing. Tie: extractor list-discipline facts, sequential differential (refill/cancel sequences), scheduled concurrent runs with a real-time FIFO monitor on the recorded history.",
                 "DESIGN.md §5 C02", "Lean 4 inductive invariant (acceptance-order ledger) + differential + real-time FIFO monitor on scheduled runs")
TEXT["C08"] = _t("Proof: Lean theorems c08_len (buffer within capacity in every reachable state), c08_wait_justified, c08_full_iff (refused/must wait iff no waiting receiver and no room), c08_unbounded, c08_rendezvous (capacity 0 never buffers), c08_backpressure (accepted-not-blocked minus delivered = buffer length <= n), c08_is_full; admission operator at all 8 sites extracted and checked (Tie.admission_ok). Tie: differential at the boundary for all send entry points, scheduled concurrent runs with a capacity-counting monitor.",
                 "DESIGN.md §5 C08", "Lean 4 invariants over the channel model + extracted admission tests + differential + capacity monitor")
TEXT["C10"] = _t("Proof: Lean theorems c10_once, c10_releases (wait list emptied, every waiter terminated, buffer destroyed, counts zero, all in the close critical section), c10_after / c10_after_futures (every entry point answers Closed afterwards), c10_no_delivery_after (delivery log frozen) for every reachable state and every variant. Tie: extractor (close is one guard: test, zero, terminate, clear), differential on close-centred sequences, scheduled concurrent runs with close issued at random points, monitored.",
                 "DESIGN.md §5 C10", "Lean 4 theorems over the channel model + differential + close monitor on scheduled runs")
TEXT["C11"] = _t("Proof: Lean theorems c11_alive (no disconnect error while a handle of that side lives, using the C12 count invariant), c11_drain_then_error, c11_release (the 1->0 drop terminates all waiters), c11_no_receivers (send fails with ReceiveClosed, value handed back or destroyed once and — by the custody-stability theorem — never delivered in any continuation). Tie: extractor guards, differential with clone/drop sequences, scheduled runs with handle drops racing blocked operations, disconnect monitor.",
                 "DESIGN.md §5 C11", "Lean 4 theorems (counts + structural invariant + custody stability) + differential + disconnect monitor")
TEXT["C13"] = _t("Proof: Lean theorems c13_timeout_only_if_expired, c13_expire_listed (Timeout: value back with the caller or destroyed once and — via custody stability — never delivered in any continuation; waiter dead and out of the list; others keep order), c13_expire_claimed (expiry racing a hand-off keeps waiting), c13_complete (decided outcome reported, value moved exactly once), c13_trichotomy, for every reachable state: the deadline may expire at any point of any interleaving because `expire` is an always-available environment step. Tie: extractor (pre-check `>`; loop `<`; no park in wait_timeout; D1/D2 repairs), sequential differential with zero/long durations, scheduled runs under a virtual clock advanced at random and targeted points with the not-early oracle.",
                 "DESIGN.md §5 C13", "Lean 4 theorems over the interleaving model with an environment expiry step + differential + virtual-clock scheduled runs")
TEXT["C14"] = _t("Proof: Lean theorems c14_never_waits, c14_refused_unchanged, c14_send_truth, c14_recv_truth over every state of the model, and c14_realtime (one try_lock step in the lock model whatever the other threads do, used by exactly the *_realtime entry points per the extractor). Tie: differential on try/drain sequences, scheduled runs in which a peer is frozen after each kind of event while a realtime caller must finish alone (realtime and nonblocking monitors).",
                 "DESIGN.md §5 C14", "Lean 4 theorems (channel model + lock model) + differential + frozen-peer scheduled runs")
TEXT["C15"] = _t("Proof: Lean theorems c15_send_drop, c15_recv_drop (every state of the future: never polled, pending-listed, claimed-not-finalised (Drop waits), completed, finished; value destroyed once / delivered once / untouched; wait list = erase), c15_dead_untouched (no step ever touches a dead waiter's entry) for every reachable state. Tie: differential with future drops after every prefix, scheduled runs with drops racing peers, ledger and lifetime oracles.",
                 "DESIGN.md §5 C15", "Lean 4 theorems over the interleaving model + differential + scheduled runs with ledger/lifetime oracles")
TEXT["C16"] = _t("Proof: Lean theorems c16_spurious, c16_pending_registers (incl. the same-waker poll inside the hand-off window, shown not to lose the wake-up), c16_waker_stable + c16_finalize_wakes_registered (the waker woken is the one of the last Pending poll), c16_no_invention, c16_repoll, c16_stream_end, c16_stream_rearmed; negative theorems for the D3 and D4 variants. Tie: extractor (waker refresh under the lock on both futures, stream re-arm), exhaustive poll scripts with three wakers, scheduled runs with the lost-wake-up monitor; corpus replay of D5.",
                 "DESIGN.md §5 C16", "Lean 4 theorems over the interleaving model + exhaustive poll-script differential + wake monitor on scheduled runs")
NOT_YET = {}
