"""Texts for MANIFEST.json (per claimed property)."""
NOTE_COMMON = ("Trusted: Lean 4.33 kernel (axioms propext/Classical.choice/Quot.sound only, audited per theorem), the hand-written model's "
               "fidelity as sampled by the correspondence checks run by this command, Rust's own semantics for moves/drops/layout, "
               "critical sections atomic (C17 + guard typing). ")
TEXT = {
    "C18": dict(
        level_text="Translation validation: the reference channel is the Lean atomic-channel model read sequentially; every run regenerates call sequences from it (exhaustive to a depth bound over the whole API alphabet, seeded random beyond) and executes them on the real crate under several payload classes and both constructor flavours, comparing every result, wake-up and drop. Theorems (Lean) show the oracle is total on exactly the safe-Rust calls, deterministic and the textbook FIFO queue when nobody waits. The property's quantifier is 'all call sequences up to a bound', which this covers directly.",
        design_ref="DESIGN.md §5 C18, §4.2",
        level_note=NOTE_COMMON + "Bounded: exhaustive depth 3 (full alphabet) to 6-7 (reduced alphabets), random to length 40/60.",
        technique="Lean 4 reference model + exhaustive/random sequential differential against the real crate",
    ),
}
NOT_YET = {}
