"""Machinery behind ./check (see DESIGN.md §6)."""
import sys, os, json, time, subprocess, re, hashlib
from collections import Counter
from concurrent.futures import ThreadPoolExecutor

ROOT = os.path.dirname(os.path.dirname(os.path.abspath(__file__)))
LEAN = os.path.join(ROOT, "lean")
HARNESS = os.path.join(ROOT, "harness")
WORK = os.path.join(ROOT, "work")
REPLAYS = os.path.join(ROOT, "replays")
EVID = os.environ.get("VERIF_EVIDENCE_DIR") or os.path.join(ROOT, "evidence")
CORPUS = os.path.join(ROOT, "corpus")
REPO = os.environ.get("VERIF_REPO", "/repo")   # background sweeps on a frozen snapshot set VERIF_REPO; registered commands never do
SPECGEN = os.path.join(LEAN, ".lake", "build", "bin", "specgen")
SEQDRV = os.path.join(HARNESS, "target", "release", "seqdrv")
ALLOWED_AXIOMS = {"propext", "Classical.choice", "Quot.sound"}

ENV = dict(os.environ)
ENV["CARGO_NET_OFFLINE"] = "true"


def sh(cmd, cwd=None, timeout=3600, stdin=None):
    p = subprocess.run(cmd, cwd=cwd, env=ENV, stdout=subprocess.PIPE, stderr=subprocess.STDOUT,
                       timeout=timeout, input=stdin, text=True, shell=isinstance(cmd, str))
    return p.returncode, p.stdout


def log(*a):
    print("[check]", *a, flush=True)


# ---------------------------------------------------------------------------
# build steps
# ---------------------------------------------------------------------------

def run_extractor():
    """Regenerate lean/Kanal/Generated.lean from /repo's working tree (content-compared)."""
    ex = os.path.join(ROOT, "extract", "extract.py")
    if not os.path.exists(ex):
        return True, "no extractor yet"
    rc, out = sh([sys.executable, ex, os.path.join(REPO, "src"), os.path.join(LEAN, "Kanal", "Generated.lean")])
    # the translator: lock-taking functions of /repo/src -> lean/Kanal/GenCode.lean (content-compared as well)
    tr = os.path.join(ROOT, "extract", "rs2lean.py")
    rc2, out2 = sh([sys.executable, tr, os.path.join(REPO, "src"), os.path.join(LEAN, "Kanal", "GenCode.lean")])
    return rc == 0 and rc2 == 0, out + out2


def build_lean(targets):
    rc, out = sh(["lake", "build"] + targets, cwd=LEAN, timeout=3000)
    return rc == 0, out


def build_harness():
    rc, out = sh(["cargo", "build", "--release", "--offline"], cwd=HARNESS, timeout=3000)
    return rc == 0, out


def hygiene():
    """Forbidden constructs anywhere in the Lean development (comments excluded)."""
    bad = []
    pat = re.compile(r"\b(sorry|admit|native_decide|bv_decide|implemented_by)\b|^\s*axiom\s|\bunsafe\s|maxHeartbeats\s+0\b")
    for d, _, fs in os.walk(os.path.join(LEAN, "Kanal")):
        for f in fs:
            if not f.endswith(".lean"):
                continue
            p = os.path.join(d, f)
            txt = open(p).read()
            txt = re.sub(r"/-.*?-/", lambda m: "\n" * m.group(0).count("\n"), txt, flags=re.S)
            for i, line in enumerate(txt.split("\n"), 1):
                line = line.split("--")[0]
                if pat.search(line):
                    bad.append(f"{os.path.relpath(p, ROOT)}:{i}: {line.strip()}")
    return bad


def tiecode_detail(short, out):
    """the error text of one TieCode theorem, with the generated definition it talks about"""
    m = re.search(r"error: [^\n]*TieCode\.lean:(\d+)", out)
    return out[-1500:]


def audit_module(relpath):
    """Build a Props/Tie module with lake (cached logs are replayed, so an unchanged module costs
    nothing) and collect its `#print axioms` output.
    Returns (ok, {theorem: [axioms]}, expected theorem names, raw output)."""
    src = open(os.path.join(LEAN, relpath)).read()
    expected = re.findall(r"^#print axioms\s+(\S+)", src, flags=re.M)
    module = relpath[:-5].replace("/", ".")
    rc, out = sh(["lake", "build", module], cwd=LEAN, timeout=3000)
    got = {}
    for m in re.finditer(r"'([^']+)' depends on axioms: \[([^\]]*)\]", out, flags=re.S):
        got[m.group(1)] = [a.strip() for a in m.group(2).replace("\n", " ").split(",") if a.strip()]
    for m in re.finditer(r"'([^']+)' does not depend on any axioms", out):
        got[m.group(1)] = []
    return rc == 0, got, expected, out


# ---------------------------------------------------------------------------
# sequential differential
# ---------------------------------------------------------------------------

def mask_zst(line):
    line = re.sub(r"\bv\d+", "v_", line)
    line = re.sub(r" d\d+", " d_", line)
    line = re.sub(r"\[[\d,]*\]", lambda m: "[" + ",".join("_" for x in m.group(0)[1:-1].split(",") if x) + "]", line)
    return line


def zst_end_canon(line):
    """For the zero-sized class the END accounting can only count, not name, values."""
    return re.sub(r"END leak=\[_(,_)*\]", "END leak=[_]", re.sub(r"dbl=\[_(,_)*\]", "dbl=[_]", line))


class Family:
    def __init__(self, name, mode, alphabet, caps, depth=None, length=None, n=None, configs=("w:s",)):
        self.name, self.mode, self.alphabet, self.caps = name, mode, alphabet, caps
        self.depth, self.length, self.n, self.configs = depth, length, n, configs

    def gen_cmd(self, seed):
        if self.mode == "exh":
            return [SPECGEN, "exh", self.alphabet, str(self.depth), self.caps]
        return [SPECGEN, "rand", self.alphabet, str(self.length), self.caps, str(seed), str(self.n)]


def split_seqfile(path):
    ops, exp = [], []
    with open(path) as f:
        for line in f:
            line = line.rstrip("\n")
            if not line:
                continue
            o, e = line.split("=>", 1)
            ops.append(o)
            exp.append(e)
    return ops, exp


def run_driver(ops_path, cls, fl, out_path):
    with open(ops_path) as fin, open(out_path, "w") as fout:
        p = subprocess.run([SEQDRV, cls, fl], stdin=fin, stdout=fout, stderr=subprocess.DEVNULL, env=ENV)
    return p.returncode


def oracle_eval(lines):
    rc, out = sh([SPECGEN, "eval"], stdin="\n".join(lines) + "\n")
    return out.rstrip("\n").split("\n") if out.strip() else []


def driver_eval(lines, cls, fl):
    p = subprocess.run([SEQDRV, cls, fl], input="\n".join(lines) + "\n", stdout=subprocess.PIPE,
                       stderr=subprocess.DEVNULL, text=True, env=ENV)
    return p.stdout.rstrip("\n").split("\n") if p.stdout.strip() else []


def canon(line, cls):
    if cls in ("p", "q"):
        # payloads without drop glue: destruction is not observable, the drop records of the oracle are erased
        line = re.sub(r" (LATE-)?d\d+", "", line)
        return re.sub(r"END leak=\[[\d,_]*\] dbl=\[[\d,_]*\]", "END leak=[] dbl=[]", line)
    return zst_end_canon(mask_zst(line)) if cls == "z" else line


def monitor_flags(act):
    """Implementation-side oracles evaluated by the driver itself (independent of the model)."""
    flags = []
    m = re.search(r"END leak=\[([^\]]*)\] dbl=\[([^\]]*)\](.*)$", act)
    if not m:
        return ["NO-END(" + act[-40:] + ")"]
    if m.group(1):
        flags.append("leak=" + m.group(1))
    if m.group(2):
        flags.append("double=" + m.group(2))
    rest = m.group(3).strip()
    if rest:
        flags += rest.split()
    return flags


def shrink(opsline, cls, fl, still_bad):
    """Greedy minimisation; the oracle decides which sub-sequences are legal.  Removing a
    future's creation removes every op on that future; removing a clone removes one later
    drop of that side; the trailing teardown is only ever removed that way."""
    cap, ops = opsline.split("|", 1)
    ops = [o for o in ops.split(";") if o]

    def teardown_start(ops):
        k = len(ops)
        while k > 0 and ops[k - 1].split(" ")[0] in ("drop", "dropsf", "droprf"):
            k -= 1
        return k

    def candidates(ops):
        td = teardown_start(ops)
        for i in range(td - 1, -1, -1):
            t = ops[i].split(" ")
            drop_idx = {i}
            if t[0] in ("asend", "arecv", "stream"):
                f = t[1]
                for j in range(i + 1, len(ops)):
                    u = ops[j].split(" ")
                    if u[0] in ("polls", "dropsf", "pollr", "droprf") and u[1] == f:
                        drop_idx.add(j)
            if t[0] == "clone":
                for j in range(len(ops) - 1, i, -1):
                    if ops[j] == "drop " + t[1]:
                        drop_idx.add(j)
                        break
            yield [o for j, o in enumerate(ops) if j not in drop_idx]

    changed = True
    while changed and len(ops) > 1:
        changed = False
        for cand in candidates(ops):
            line = cap + "|" + ";".join(cand)
            exp = oracle_eval([line])
            if not exp or exp[0].startswith(("DISABLED", "BAD")):
                continue
            act = driver_eval([line], cls, fl)
            if act and still_bad(canon(exp[0], cls), canon(act[0], cls)):
                ops, changed = cand, True
                break
    return cap + "|" + ";".join(ops)


def first_diff(ops, exp, act):
    o = [x for x in ops.split("|", 1)[1].split(";") if x]
    e, a = exp.split(";"), act.split(";")
    for i in range(max(len(e), len(a))):
        ei = e[i] if i < len(e) else "<missing>"
        ai = a[i] if i < len(a) else "<missing>"
        if ei != ai:
            return i, (o[i] if i < len(o) else "END"), ei, ai
    return None


def run_family(fam, seed, stats):
    """Generate, execute under every configuration, compare.  Returns list of disagreement dicts."""
    os.makedirs(WORK, exist_ok=True)
    base = os.path.join(WORK, f"{fam.name}-{seed}")
    seqf = base + ".seq"
    with open(seqf, "w") as f:
        p = subprocess.run(fam.gen_cmd(seed), stdout=f, stderr=subprocess.PIPE, env=ENV, text=True)
    if p.returncode != 0:
        return [{"kind": "generator-failed", "family": fam.name, "detail": p.stderr[-500:]}]
    ops, exp = split_seqfile(seqf)
    opsf = base + ".ops"
    with open(opsf, "w") as f:
        f.write("\n".join(ops) + "\n")
    stats["programs"] += len(ops)
    # distribution + non-trivial count (measured on the oracle's stream)
    nontriv = set()
    for o, e in zip(ops, exp):
        for t in o.split("|", 1)[1].split(";"):
            if t:
                stats["op_kinds"][t.split(" ", 1)[0]] += 1
        for t in e.split(";"):
            k = t.split(" ", 1)[0]
            k = "v" if re.match(r"v\d", k) else ("n" if re.match(r"n\d", k) else k)
            stats["result_kinds"][k] += 1
        if re.search(r"\bv\d|pending| w\d|drained [1-9]| d\d|err:Timeout", e):
            nontriv.add(hashlib.md5(o.encode()).digest())
    stats["nontrivial"] |= nontriv
    if len(stats["samples"]) < 4 and ops:
        k = (seed * 7919 + len(stats["samples"]) * 104729) % len(ops)
        stats["samples"].append({"family": fam.name, "ops": ops[k], "oracle": exp[k]})

    def one(cfg):
        cls, fl = cfg.split(":")
        outp = f"{base}.{cls}{fl}.act"
        rc = run_driver(opsf, cls, fl, outp)
        act = open(outp).read().rstrip("\n").split("\n")
        bad = []
        hang = rc == 3 or (act and act[-1] == "HANG")
        if hang:
            act = act[:-1] if act and act[-1] == "HANG" else act
        for i, (o, e) in enumerate(zip(ops, exp)):
            if i >= len(act):
                if i == len(act):
                    bad.append({"kind": "hang" if hang else "crash", "family": fam.name, "cfg": cfg, "ops": o,
                                "oracle": e, "impl": "<no result: the call did not return>" if hang else f"<driver died rc={rc}>"})
                break
            ce, ca = canon(e, cls), canon(act[i], cls)
            if ce != ca:
                if len(bad) < 50:
                    bad.append({"kind": "disagreement", "family": fam.name, "cfg": cfg, "ops": o, "oracle": ce, "impl": ca})
                else:
                    bad.append(None)
        os.remove(outp)
        return cfg, len(act), bad

    res = []
    with ThreadPoolExecutor(max_workers=min(16, len(fam.configs))) as ex:
        for cfg, n, bad in ex.map(one, fam.configs):
            stats["evaluations"] += n
            stats["configs"][cfg] += n
            stats["disagreeing_runs"] += len(bad)
            res += [b for b in bad if b]
    for pth in (seqf, opsf):
        os.remove(pth)
    return res


def run_corpus(configs, stats):
    """Minimised past failures run first (corpus/*.seq)."""
    res = []
    if not os.path.isdir(CORPUS):
        return res
    for fn in sorted(os.listdir(CORPUS)):
        if not fn.endswith(".seq"):
            continue
        for line in open(os.path.join(CORPUS, fn)):
            line = line.strip()
            if not line:
                continue
            o = line.split("=>", 1)[0]
            exp = oracle_eval([o])
            for cfg in configs:
                cls, fl = cfg.split(":")
                act = driver_eval([o], cls, fl)
                stats["evaluations"] += 1
                stats["corpus_runs"] += 1
                e = canon(exp[0], cls) if exp else "<no oracle result>"
                a = canon(act[0], cls) if act else "<no result>"
                if e != a:
                    res.append({"kind": "disagreement", "family": "corpus:" + fn, "cfg": cfg, "ops": o, "oracle": e, "impl": a})
    return res


# ---------------------------------------------------------------------------
# main
# ---------------------------------------------------------------------------

def new_stats():
    return {"programs": 0, "evaluations": 0, "op_kinds": Counter(), "result_kinds": Counter(),
            "nontrivial": set(), "samples": [], "configs": Counter(), "disagreeing_runs": 0, "corpus_runs": 0,
            "conc_programs": 0, "conc_events": 0, "conc_kinds": Counter(), "conc_nontrivial": set(),
            "conc_ends": Counter(), "conc_samples": [], "conc_failures": 0}


def load_known():
    p = os.path.join(ROOT, "known_findings.json")
    if not os.path.exists(p):
        return []
    return json.load(open(p)).get("findings", [])


def write_replay(pid, seed, payload):
    os.makedirs(REPLAYS, exist_ok=True)
    path = os.path.join(REPLAYS, f"{pid}-{seed}-{int(time.time())}.json")
    json.dump(payload, open(path, "w"), indent=1)
    return path


def replay(pid, path):
    from props import PROPS
    spec = PROPS[pid]
    r = json.load(open(path))
    ok, out = build_harness()
    if not ok:
        print(out[-2000:])
        return 1
    build_lean(["specgen"])
    if r.get("kind") == "conc":
        import conc
        prog = r["program"]
        lines = prog.strip().split("\n")
        lines[0] = re.sub(r"strategy=\S+", "strategy=replay", lines[0])
        lines = [l for l in lines if not l.startswith("schedule:")] + ["schedule: " + r["schedule"]]
        run = conc.run_conc("\n".join(lines) + "\n")
        print("\n".join(run.lines[-40:]))
        bad = [f"{n}: {d}" for n, (ok, d) in run.oracles.items() if not ok]
        ctx = {"ords": conc.extracted_orderings(), "cap": re.search(r"cap=(\S+)", prog).group(1)}
        for mname in conc.ALL_MONITORS:
            bad += [f"{mname}: {b}" for b in conc.ALL_MONITORS[mname](run, ctx)]
        if bad:
            print("failures:", bad[:6])
            print(f"VIOLATION property={pid} replay={path}")
            return 1
        print("replay: all oracles and monitors silent")
        return 0
    if r.get("kind") in ("integrity", "probe"):
        from props import PROPS as _P
        bad = []
        for extra in _P[pid].get("extra_checks", []):
            bad += extra("quick", int(r.get("seed", 1)), new_stats())
        for b in bad[:3]:
            print(b.get("failures"))
        if bad:
            print(f"VIOLATION property={pid} replay={path}")
            return 1
        print("replay: no failure")
        return 0
    if r.get("ops"):
        cls, fl = r.get("cfg", "w:s").split(":")
        exp = oracle_eval([r["ops"]])
        act = driver_eval([r["ops"]], cls, fl)
        e = canon(exp[0], cls) if exp else "<none>"
        a = canon(act[0], cls) if act else "<none>"
        print("ops   :", r["ops"])
        print("oracle:", e)
        print("impl  :", a)
        if e != a or monitor_flags(a):
            print(f"VIOLATION property={pid} replay={path}")
            return 1
        print("replay: implementation and oracle agree, no monitor fired")
        return 0
    print("replay file names no concrete input:", r.get("broken"))
    return 1


def main(argv):
    from props import PROPS
    if not argv or argv[0] not in PROPS:
        print("usage: check <property> [--tier quick|thorough] [--replay file]; properties:", " ".join(sorted(PROPS)))
        return 2
    pid = argv[0]
    tier = os.environ.get("VERIF_TIER", "quick")
    if "--tier" in argv:
        tier = argv[argv.index("--tier") + 1]
    if "--replay" in argv:
        return replay(pid, argv[argv.index("--replay") + 1])
    seed = int(os.environ.get("VERIF_SEED", "1"))
    spec = PROPS[pid]
    relevant_pre = lambda d: d.get("kind") in ("hang", "crash", "conc") or True
    t0 = time.time()
    broken = []          # proof obligations / tie theorems / builds that no longer check
    stats = new_stats()

    # 1. rebuild from the tree
    ok, out = run_extractor()
    if not ok:
        broken.append({"what": "extractor", "detail": out[-1500:]})
    ok, out = build_harness()
    if not ok:
        broken.append({"what": "harness build against /repo", "detail": out[-3000:]})
    harness_ok = ok

    # 2. proof obligations
    ok, out = build_lean(["specgen", "specfollow"] + (["specexplore"] if spec.get("lin") else []) + spec.get("lean_targets", []))
    if not ok:
        broken.append({"what": "lake build " + " ".join(spec.get("lean_targets", [])), "detail": out[-3000:]})
    theorems, axioms_seen, n_oblig, n_dis = {}, set(), 0, 0
    for rel in spec["props_files"]:
        ok, got, expected, out = audit_module(rel)
        n_oblig += len(expected)
        for th in expected:
            if th in got and set(got[th]) <= ALLOWED_AXIOMS:
                n_dis += 1
                theorems[th] = got[th]
                axioms_seen |= set(got[th])
            elif th in got:
                broken.append({"what": f"theorem {th} depends on disallowed axioms", "detail": str(got[th])})
            else:
                broken.append({"what": f"theorem {th} ({rel}) no longer checks", "detail": out[-1500:]})
        if not ok and len(expected) == len([t for t in expected if t in got]):
            broken.append({"what": f"{rel} has errors", "detail": out[-1500:]})
    if spec.get("tie_code"):
        # tie by translation: the generated definitions must equal the fine-grained model (per-theorem granularity)
        ok, got, _, out = audit_module("Kanal/TieCode.lean")
        for short in spec["tie_code"]:
            th = "Kanal.TieCode." + short
            n_oblig += 1
            if th in got and set(got[th]) <= ALLOWED_AXIOMS:
                n_dis += 1
                theorems[th] = got[th]
                axioms_seen |= set(got[th])
            elif th in got:
                broken.append({"what": f"tie theorem {th} depends on disallowed axioms (the translation of /repo/src no longer equals the model)", "detail": str(got[th])})
            else:
                broken.append({"what": f"tie theorem {th} (Kanal/TieCode.lean: translated source = fine-grained model) no longer checks",
                               "detail": tiecode_detail(short, out)})
    hy = hygiene()
    if hy:
        broken.append({"what": "forbidden construct in the Lean development", "detail": "\n".join(hy[:20])})
    if tier == "thorough" and not broken and spec.get("leancheck"):
        for mod in spec["leancheck"]:
            rc, out = sh(["lake", "env", "leanchecker", mod], cwd=LEAN, timeout=3000)
            if rc != 0:
                broken.append({"what": f"leanchecker {mod}", "detail": out[-1500:]})

    # 3. correspondence
    disagreements = []
    if harness_ok and os.path.exists(SPECGEN):
        fams = spec["families"](tier, seed)
        cfgs = sorted({c for f in fams for c in f.configs})
        disagreements += run_corpus(cfgs, stats)
        for fam in fams:
            log(f"family {fam.name}: {fam.mode} alphabet={fam.alphabet} caps={fam.caps} "
                f"{'depth=%s' % fam.depth if fam.mode == 'exh' else 'len=%s n=%s' % (fam.length, fam.n)} configs={','.join(fam.configs)}")
            disagreements += run_family(fam, seed, stats)
        for k, extra in enumerate(spec.get("extra_checks", [])):
            disagreements += extra(tier, seed, stats)
    if harness_ok and spec.get("conc"):
        import conc
        for prof, monitors, oracles in spec["conc"](tier, seed):
            log(f"conc profile {prof.name}: n={prof.n} threads={prof.threads} monitors={','.join(monitors)} oracles={','.join(oracles)}")
            fails = conc.run_profile(prof, seed, monitors, oracles, stats)
            stats["conc_failures"] += len(fails)
            disagreements += fails
        if spec.get("lin"):
            for prof, k in spec["lin"](tier, seed):
                log(f"linearizability profile {prof.name}: n={prof.n} programs x {k} schedules, outcome must be in the model's outcome set (specexplore)")
                fails = conc.run_linearizability(prof, seed, stats, runs_per_prog=k)
                stats["conc_failures"] += len(fails)
                disagreements += fails
        if spec.get("conc_corpus"):
            for fn in spec["conc_corpus"]:
                run = conc.run_conc(open(os.path.join(CORPUS, fn)).read())
                stats["conc_programs"] += 1
                stats["corpus_runs"] += 1
                bad = [f"{n}: {d}" for n, (ok, d) in run.oracles.items() if not ok]
                ctx = {"ords": conc.extracted_orderings(), "cap": "0"}
                for mname in spec.get("conc_corpus_monitors", []):
                    bad += [f"{mname}: {b}" for b in conc.ALL_MONITORS[mname](run, ctx)]
                if bad:
                    disagreements.append({"kind": "conc", "profile": "corpus:" + fn, "program": open(os.path.join(CORPUS, fn)).read(),
                                          "schedule": run.schedule, "failures": bad[:6], "trace_tail": run.lines[-30:]})

    if broken and not disagreements and harness_ok and os.path.exists(SPECGEN):
        # something no longer checks and nothing failed so far: widen the search for a failing input (bounded in time)
        log("a proof obligation or tie no longer checks: widening the search for a failing input (bounded)")
        t_w = time.time()
        for fam in spec["families"]("thorough", seed + 1000):
            if time.time() - t_w > 150:
                log("widening budget used up")
                break
            if fam.mode == "exh" and fam.depth and fam.depth > 6:
                continue
            if fam.mode == "rand":
                fam.n = min(fam.n, 8000)
            disagreements += run_family(fam, seed + 1000, stats)
            if any(relevant_pre(d) for d in disagreements):
                break
        if not disagreements and spec.get("conc"):
            import conc
            for prof, monitors, oracles in spec["conc"]("quick", seed + 1000):
                if hasattr(prof, "programs"):
                    continue            # window sweeps are deterministic: already run above
                prof.n = prof.n * 3
                fails = conc.run_profile(prof, seed + 1000, monitors, oracles, stats)
                stats["conc_failures"] += len(fails)
                disagreements += fails

    # 4. verdict
    relevant = spec.get("relevant", lambda d: True)
    violations, known_hits = [], []
    known = load_known()
    real, other = [], []
    for d in disagreements:
        if d["kind"] in ("hang", "crash", "generator-failed", "conc", "integrity", "probe"):
            real.append(d)
            continue
        d["monitor"] = monitor_flags(d["impl"]) if "impl" in d else []
        fd = first_diff(d["ops"], d["oracle"], d["impl"]) if d.get("oracle") else None
        d["first_diff"] = fd
        (real if relevant(d) else other).append(d)
    replay_path = None
    exit_code = 0
    if real:
        d = real[0]
        if d["kind"] == "disagreement":
            cls, fl = d["cfg"].split(":")
            small = shrink(d["ops"], cls, fl, lambda e, a: e != a)
            if small != d["ops"]:
                e = oracle_eval([small])
                a = driver_eval([small], cls, fl)
                d = dict(d, ops=small, oracle=canon(e[0], cls), impl=canon(a[0], cls) if a else "<none>", shrunk_from=d["ops"])
                d["monitor"] = monitor_flags(d["impl"])
                d["first_diff"] = first_diff(d["ops"], d["oracle"], d["impl"])
        sig = f"{pid}:{d.get('first_diff')}"
        hit = [k for k in known if k.get("property") == pid and k.get("match") and k["match"] in json.dumps(d)]
        if hit:
            for k in hit:
                print(f"KNOWN-FINDING: property={pid} {k.get('what', '')}")
            known_hits = hit
        else:
            how = {"conc": "controlled-scheduler run of the real crate: implementation-side monitor/oracle failed; replay = program + schedule",
                   "integrity": "payload integrity run on the real crate (harness bin `integrity`): a received value differs from the value sent",
                   "probe": "compiler probe: rustc's verdict on a Send/Sync obligation differs from the auto-trait model"}.get(
                       d["kind"], "sequential differential: implementation vs the atomic-channel oracle")
            replay_path = write_replay(pid, seed, dict(d, property=pid, broken=[b["what"] for b in broken], how=how))
            print(f"VIOLATION property={pid} replay={replay_path}")
            exit_code = 1
    elif broken or other:
        what = [b["what"] for b in broken] + [f"sequential differential disagrees on {len(other)} run(s), none touching {pid}'s observations" for _ in other[:1]]
        replay_path = write_replay(pid, seed, {"property": pid, "broken": what, "details": broken[:5],
                                               "unrelated_disagreement_sample": other[:2]})
        print(f"VIOLATION property={pid} replay={replay_path} no-failing-input-found")
        exit_code = 1

    # 5. evidence
    wall = time.time() - t0
    level = spec["level"]
    cov = {
        "obligations": n_oblig, "discharged": n_dis,
        "checker_cmd": "cd lean && lake build " + " ".join(spec.get("lean_targets", [])) + " && lake env lean " + " ".join(spec["props_files"]) + "  (#print axioms audit)",
        "trusted_base": sorted(axioms_seen) + spec.get("trusted", []),
        "theorems": sorted(theorems),
        "programs": stats["programs"], "disagreements_checked": stats["disagreeing_runs"],
        "evaluations": stats["evaluations"] + stats["conc_programs"], "distinct_nontrivial": len(stats["nontrivial"]) + len(stats["conc_nontrivial"]),
        "rule": "sequences are generated by the Lean oracle (exhaustive DFS to the family's depth, or seeded random walks), executed on the real crate under each payload-class:flavour configuration; distinct = distinct op sequence; non-trivial = the oracle's result stream contains a value transfer, a pending/woken future, a drop or a timeout",
        "samples": stats["samples"] + [{"theorem": t, "axioms": a} for t, a in list(theorems.items())[:3]],
        "configs": dict(stats["configs"]), "corpus_runs": stats["corpus_runs"],
        "op_kinds": dict(stats["op_kinds"]), "result_kinds": dict(stats["result_kinds"]),
        "families": [f.name for f in spec["families"](tier, seed)],
        "exhaustive": False,
        "traces_validated_against_impl": stats["conc_programs"],
        "conc": {"programs": stats["conc_programs"], "events": stats["conc_events"], "distinct_nontrivial_schedules": len(stats["conc_nontrivial"]),
                 "event_kinds": dict(stats["conc_kinds"]), "run_ends": dict(stats["conc_ends"]), "samples": stats["conc_samples"],
                 "rule": "programs are generated from the property's profile (seeded), each run under one seeded schedule of the controlled scheduler on the real crate; non-trivial = the run contains a signal hand-off (st/cas on a signal) or a park; distinct = distinct sequence of lock/unlock/st/cas/park/unpark/wake/ret events"},
        "linearizability": {"programs": stats.get("lin_programs", 0), "model_outcomes_enumerated": stats.get("lin_outcomes", 0),
                            "explorations_cut_off": stats.get("lin_incomplete", 0)},
        "channel_acceptor": {"runs_accepted": stats.get("follow_runs", 0), "model_steps": stats.get("follow_steps", 0), "calls_compared": stats.get("follow_calls", 0),
                             "rule": "each scheduled run is replayed through Spec.step (Lean exe specfollow): critical sections in lock order, final stores as finalize steps, every call's result must be the model's"},
        "protocol_acceptor": {"mutex_steps_accepted": stats.get("proto_mutex_steps", 0), "signal_lifetimes_accepted": stats.get("proto_signals", 0),
                              "signal_steps_accepted": stats.get("proto_signal_steps", 0),
                              "rule": "each scheduled run's lock events and per-signal events are replayed through MutexM.step / SigM.step (Lean exe protocheck, instantiated with the extracted orderings and constants); the run must be an execution of the models that never reaches racy/dangling"},
        "explanation": spec.get("explanation", ""),
    }
    ev = {"property_id": pid, "tier": tier, "seed": seed, "level": level, "coverage": cov,
          "assumptions": spec.get("assumptions", []), "wall_s": round(wall, 1),
          "violations": 1 if exit_code else 0}
    os.makedirs(EVID, exist_ok=True)
    json.dump(ev, open(os.path.join(EVID, f"{pid}.json"), "w"), indent=1)
    log(f"{pid} tier={tier} seed={seed}: obligations {n_dis}/{n_oblig}, programs {stats['programs']}, conc runs {stats['conc_programs']} ({stats['conc_failures']} failing), "
        f"evaluations {stats['evaluations']}, disagreements {stats['disagreeing_runs']}, wall {wall:.1f}s, exit {exit_code}")
    return exit_code
